/-
  BklProofs.Lemmas.C10NestedPaths — the weakest "nobody else reads the host" condition for the
  nested inline statements of C10: every reference outside the host is a key path into the
  document that is APART from the host's path `π` — it neither is a prefix of `π` (would read the
  host or one of its ancestors) nor extends `π` (would read inside the host).  Such a path may
  enter the top-level entry that contains the host, as long as it leaves the host's path at some
  level.

  `c10n_pSafe π v` is `Safe h v` (C10Inline) with "first key ≠ h" replaced by "apart from π";
  `c10n_psim` is the corresponding simulation (`process1_sim`), `c10n_pcontext` the context lemma
  (`c10n_context` of C10Nested).
-/
import BklProofs.Lemmas.C10Nested
set_option linter.unusedVariables false
namespace Bkl

/-! ## key paths apart from the host's path -/

/-- `p` and `π` differ at some common position: neither is a prefix of the other -/
def c10n_apart : List String → List String → Bool
  | a :: p, b :: π => if a = b then c10n_apart p π else true
  | _, _ => false

theorem c10n_apart_cons_ne {a b : String} (p π : List String) (h : a ≠ b) :
    c10n_apart (a :: p) (b :: π) = true := by
  simp only [c10n_apart, if_neg h]

theorem c10n_apart_cons_same (a : String) (p π : List String) :
    c10n_apart (a :: p) (a :: π) = c10n_apart p π := by
  simp only [c10n_apart, if_true]

theorem c10n_apart_nil_left (π : List String) : c10n_apart [] π = false := by
  cases π <;> rfl

theorem c10n_apart_nil_right (p : List String) : c10n_apart p [] = false := by
  cases p <;> rfl

/-- a path apart from `π` does not see a write at `π` -/
theorem c10n_getPath_setKeys_apart : ∀ (π p : List String) (root x : Val),
    c10n_apart p π = true → getPath (c10n_setKeys root π x) p = getPath root p := by
  intro π
  induction π with
  | nil => intro p root x h; rw [c10n_apart_nil_right] at h; cases h
  | cons b π ih =>
    intro p root x h
    cases p with
    | nil => cases h
    | cons a p =>
      cases hm : root.isMap with
      | false => rw [c10n_setKeys_cons_nonmap π x hm]
      | true =>
        cases root with
        | map m =>
          cases hc : fget m b with
          | none => rw [c10n_setKeys_cons_none π x hc]
          | some c =>
            rw [c10n_setKeys_cons π x hc]
            by_cases hab : a = b
            · subst hab
              rw [c10n_apart_cons_same] at h
              simp only [getPath, fget_fset_same, hc]
              exact ih p c x h
            · exact getPath_fset_other _ p hab
        | null => cases hm
        | bool _ => cases hm
        | int _ => cases hm
        | flt _ => cases hm
        | str _ => cases hm
        | list _ => cases hm

/-! ## values whose references stay apart from `π` -/

/-- a list-form reference `[k, …]` of strings: the key path is apart from `π` (a list that is not
    all strings fails whatever the document) -/
def c10n_pSafeList (π : List String) (l : List Val) : Bool :=
  match l with
  | .str k :: rest =>
    match toStringList (.str k :: rest) with
    | .ok sl => c10n_apart sl π
    | .error _ => true
  | _ => false

def c10n_pSafeStrRef (π : List String) (p : String) : Bool :=
  match parseRef p with
  | some (.str s) => c10n_apart (s.splitOn ".") π
  | some (.list l) => c10n_pSafeList π l
  | _ => true

def c10n_pSafeRef (π : List String) : Val → Bool
  | .str p => c10n_pSafeStrRef π p
  | .list l => c10n_pSafeList π l
  | .map _ => false
  | _ => true

def c10n_pSafeStr (π : List String) (s : String) : Bool :=
  match stripPrefix s "$merge:" with
  | some p => c10n_pSafeStrRef π p
  | none =>
    match stripPrefix s "$replace:" with
    | some p => c10n_pSafeStrRef π p
    | none => true

mutual
def c10n_pSafe (π : List String) : Val → Bool
  | .str s => c10n_pSafeStr π s
  | .list xs => c10n_pSafeL π xs
  | .map kvs => c10n_pSafeF π kvs
  | _ => true
def c10n_pSafeL (π : List String) : List Val → Bool
  | [] => true
  | x :: xs => c10n_pSafe π x && c10n_pSafeL π xs
def c10n_pSafeF (π : List String) : Fields → Bool
  | [] => true
  | (k, v) :: rest =>
    !(k == "$merge") && c10n_pSafeStr π k && (!(k == "$replace") || c10n_pSafeRef π v) &&
      c10n_pSafe π v && c10n_pSafeF π rest
end

theorem c10n_pSafeL_mem {π : List String} {xs : List Val} (hs : c10n_pSafeL π xs = true) :
    ∀ x ∈ xs, c10n_pSafe π x = true := by
  induction xs with
  | nil => intro x hx; cases hx
  | cons a t ih =>
    simp only [c10n_pSafeL, Bool.and_eq_true] at hs
    intro x hx
    rcases List.mem_cons.1 hx with rfl | hx
    · exact hs.1
    · exact ih hs.2 x hx

theorem c10n_pSafeF_mem {π : List String} {kvs : Fields} (hs : c10n_pSafeF π kvs = true) :
    ∀ q ∈ kvs, q.1 ≠ "$merge" ∧ c10n_pSafeStr π q.1 = true ∧
      (q.1 = "$replace" → c10n_pSafeRef π q.2 = true) ∧ c10n_pSafe π q.2 = true := by
  induction kvs with
  | nil => intro x hx; cases hx
  | cons a t ih =>
    obtain ⟨k, v⟩ := a
    simp only [c10n_pSafeF, Bool.and_eq_true, Bool.not_eq_true', beq_eq_false_iff_ne,
      Bool.or_eq_true] at hs
    intro x hx
    rcases List.mem_cons.1 hx with rfl | hx
    · refine ⟨hs.1.1.1.1, hs.1.1.1.2, fun e => ?_, hs.1.2⟩
      rcases hs.1.1.2 with h1 | h1
      · exact absurd e h1
      · exact h1
    · exact ih hs.2 x hx

theorem c10n_pSafeF_of_mem {π : List String} {kvs : Fields}
    (hs : ∀ q ∈ kvs, q.1 ≠ "$merge" ∧ c10n_pSafeStr π q.1 = true ∧
      (q.1 = "$replace" → c10n_pSafeRef π q.2 = true) ∧ c10n_pSafe π q.2 = true) :
    c10n_pSafeF π kvs = true := by
  induction kvs with
  | nil => rfl
  | cons a t ih =>
    obtain ⟨k, v⟩ := a
    obtain ⟨h1, h2, h3, h4⟩ := hs (k, v) List.mem_cons_self
    simp only [c10n_pSafeF, Bool.and_eq_true, Bool.not_eq_true', beq_eq_false_iff_ne,
      Bool.or_eq_true]
    refine ⟨⟨⟨⟨h1, h2⟩, ?_⟩, h4⟩, ih (fun q hq => hs q (List.mem_cons_of_mem _ hq))⟩
    by_cases e : k = "$replace"
    · exact Or.inr (h3 e)
    · exact Or.inl e

theorem c10n_pSafeF_append {π : List String} {a b : Fields} :
    c10n_pSafeF π (a ++ b) = true ↔ c10n_pSafeF π a = true ∧ c10n_pSafeF π b = true := by
  constructor
  · intro hs
    exact ⟨c10n_pSafeF_of_mem fun q hq => c10n_pSafeF_mem hs q (List.mem_append_left _ hq),
      c10n_pSafeF_of_mem fun q hq => c10n_pSafeF_mem hs q (List.mem_append_right _ hq)⟩
  · rintro ⟨ha, hb⟩
    apply c10n_pSafeF_of_mem
    intro q hq
    rcases List.mem_append.1 hq with hq | hq
    · exact c10n_pSafeF_mem ha q hq
    · exact c10n_pSafeF_mem hb q hq

theorem c10n_pSafeF_no_merge {π : List String} {kvs : Fields} (hs : c10n_pSafeF π kvs = true) :
    fget kvs "$merge" = none :=
  fget_none_iff.2 fun p hp => (c10n_pSafeF_mem hs p hp).1

theorem c10n_pSafeF_replace {π : List String} {kvs : Fields} {ref : Val}
    (hs : c10n_pSafeF π kvs = true) (hr : fget kvs "$replace" = some ref) :
    c10n_pSafeRef π ref = true :=
  (c10n_pSafeF_mem hs _ (fget_mem hr)).2.2.1 rfl

/-- a subtree of a safe value is safe -/
theorem c10n_pSafe_getPath {π : List String} : ∀ (ks : List String) (v t : Val),
    c10n_pSafe π v = true → getPath v ks = .ok t → c10n_pSafe π t = true := by
  intro ks
  induction ks with
  | nil => intro v t hv hg; cases hg; exact hv
  | cons k ks ih =>
    intro v t hv hg
    cases v with
    | map m =>
      simp only [getPath] at hg
      cases hc : fget m k with
      | none => rw [hc] at hg; cases hg
      | some c =>
        rw [hc] at hg
        simp only [c10n_pSafe] at hv
        exact ih c t (c10n_pSafeF_mem hv _ (fget_mem hc)).2.2.2 hg
    | _ => cases hg

/-! ## roots -/

/-- everything a path apart from `π` can reach in the root is safe -/
def c10n_PSafeRoot (π : List String) (r : Val) : Prop :=
  ∀ p v, c10n_apart p π = true → getPath r p = .ok v → c10n_pSafe π v = true

/-- two roots that agree along every path apart from `π` -/
def c10n_PAgree (π : List String) (r r' : Val) : Prop :=
  ∀ p, c10n_apart p π = true → getPath r' p = getPath r p

theorem c10n_pagree_setKeys (π : List String) (r x : Val) :
    c10n_PAgree π r (c10n_setKeys r π x) :=
  fun p hp => c10n_getPath_setKeys_apart π p r x hp

theorem c10n_pagree_setKeys2 (π : List String) (r x y : Val) :
    c10n_PAgree π (c10n_setKeys r π x) (c10n_setKeys r π y) := by
  intro p hp
  rw [c10n_getPath_setKeys_apart π p r x hp, c10n_getPath_setKeys_apart π p r y hp]

theorem c10n_psafeRoot_setKeys {π : List String} {r : Val} (x : Val)
    (hinv : c10n_PSafeRoot π r) : c10n_PSafeRoot π (c10n_setKeys r π x) := by
  intro p v hp hg
  rw [c10n_getPath_setKeys_apart π p r x hp] at hg
  exact hinv p v hp hg

/-! ## resolving a safe reference -/

theorem c10n_getPathFromList_sim {π : List String} {k : String} {r r' : Val} (docs : List Val)
    (rest : List Val) (hl : c10n_pSafeList π (.str k :: rest) = true)
    (hinv : c10n_PSafeRoot π r) (hag : c10n_PAgree π r r') :
    getPathFromList r' docs (.str k :: rest) = getPathFromList r docs (.str k :: rest) ∧
      ∀ inp, getPathFromList r docs (.str k :: rest) = .ok inp → c10n_pSafe π inp = true := by
  have e : ∀ root : Val, getPathFromList root docs (.str k :: rest) =
      (toStringList (.str k :: rest) >>= fun sl => getPath root sl) := fun root => rfl
  rw [e, e]
  simp only [c10n_pSafeList] at hl
  cases hsl : toStringList (.str k :: rest) with
  | error e => exact ⟨rfl, fun inp hi => by cases hi⟩
  | ok sl =>
    rw [hsl] at hl
    simp only [R_bind_ok]
    exact ⟨hag sl hl, fun inp hi => hinv sl inp hl hi⟩

theorem c10n_pSafeList_cases {π : List String} {l : List Val}
    (hl : c10n_pSafeList π l = true) : ∃ k rest, l = .str k :: rest := by
  cases l with
  | nil => cases hl
  | cons x rest =>
    cases x with
    | str k => exact ⟨k, rest, rfl⟩
    | _ => cases hl

theorem c10n_get_sim_str {π : List String} {p : String} {r r' : Val} (docs : List Val)
    (hp : c10n_pSafeStrRef π p = true) (hinv : c10n_PSafeRoot π r) (hag : c10n_PAgree π r r') :
    get r' docs (.str p) = get r docs (.str p) ∧
      ∀ inp, get r docs (.str p) = .ok inp → c10n_pSafe π inp = true := by
  rw [get_str, get_str]
  unfold c10n_pSafeStrRef at hp
  unfold getPathFromString
  cases hpr : parseRef p with
  | none => exact ⟨rfl, fun inp hi => by cases hi⟩
  | some q =>
    rw [hpr] at hp
    cases q with
    | str s =>
      simp only [] at hp ⊢
      exact ⟨hag _ hp, fun inp hi => hinv _ inp hp hi⟩
    | list l =>
      simp only [] at hp ⊢
      obtain ⟨k, rest, rfl⟩ := c10n_pSafeList_cases hp
      exact c10n_getPathFromList_sim docs rest hp hinv hag
    | null => exact ⟨rfl, fun inp hi => by cases hi⟩
    | bool _ => exact ⟨rfl, fun inp hi => by cases hi⟩
    | int _ => exact ⟨rfl, fun inp hi => by cases hi⟩
    | flt _ => exact ⟨rfl, fun inp hi => by cases hi⟩
    | map _ => exact ⟨rfl, fun inp hi => by cases hi⟩

/-- a safe reference resolves alike in two roots that agree apart from `π`, to a safe value -/
theorem c10n_get_sim {π : List String} {ref : Val} {r r' : Val} (docs : List Val)
    (hr : c10n_pSafeRef π ref = true) (hinv : c10n_PSafeRoot π r) (hag : c10n_PAgree π r r') :
    get r' docs ref = get r docs ref ∧
      ∀ inp, get r docs ref = .ok inp → c10n_pSafe π inp = true := by
  cases ref with
  | str p => exact c10n_get_sim_str docs hr hinv hag
  | list l =>
    rw [get_list, get_list]
    simp only [c10n_pSafeRef] at hr
    obtain ⟨k, rest, rfl⟩ := c10n_pSafeList_cases hr
    exact c10n_getPathFromList_sim docs rest hr hinv hag
  | map _ => cases hr
  | null => rw [get_invalid _ _ _ rfl rfl rfl, get_invalid _ _ _ rfl rfl rfl]
            exact ⟨rfl, fun inp hi => by cases hi⟩
  | bool _ => rw [get_invalid _ _ _ rfl rfl rfl, get_invalid _ _ _ rfl rfl rfl]
              exact ⟨rfl, fun inp hi => by cases hi⟩
  | int _ => rw [get_invalid _ _ _ rfl rfl rfl, get_invalid _ _ _ rfl rfl rfl]
             exact ⟨rfl, fun inp hi => by cases hi⟩
  | flt _ => rw [get_invalid _ _ _ rfl rfl rfl, get_invalid _ _ _ rfl rfl rfl]
             exact ⟨rfl, fun inp hi => by cases hi⟩

/-! ## the simulation -/

theorem c10n_pSafe_notMergeEntry {π : List String} {v : Val} (hv : c10n_pSafe π v = true) :
    notMergeEntry v = true := by
  unfold notMergeEntry
  split
  · rename_i k ref
    simp only [c10n_pSafe] at hv
    have := (c10n_pSafeF_mem hv (k, ref) List.mem_cons_self).1
    simpa using this
  · rfl

def c10n_PSimIH (π : List String) (fuel : Nat) : Prop :=
  ∀ (docs : List Val) (r r' : Val) (loc loc' : Loc) (obj : Val),
    c10n_PSafeRoot π r → c10n_PAgree π r r' → c10n_pSafe π obj = true →
    SimRel r r' (process1 fuel docs r loc obj) (process1 fuel docs r' loc' obj)

theorem c10n_psim_get_step {π : List String} {fuel : Nat} (ih : c10n_PSimIH π fuel)
    {docs : List Val} {r r' : Val} {ref : Val} (hinv : c10n_PSafeRoot π r)
    (hag : c10n_PAgree π r r') (hr : c10n_pSafeRef π ref = true) :
    SimRel r r'
      (get r docs ref >>= fun inp => process1 fuel docs r none inp)
      (get r' docs ref >>= fun inp => process1 fuel docs r' none inp) := by
  obtain ⟨hg, hsafe⟩ := c10n_get_sim docs hr hinv hag
  rw [hg]
  cases hget : get r docs ref with
  | error e => exact simRel_error _ _ _
  | ok inp => exact ih docs r r' none none inp hinv hag (hsafe inp hget)

theorem c10n_psim_mapStep {π : List String} {fuel : Nat} (ih : c10n_PSimIH π fuel)
    {docs : List Val} {r r' : Val} {loc loc' : Loc} (hinv : c10n_PSafeRoot π r)
    (hag : c10n_PAgree π r r') {k : String} {v : Val} (hk : c10n_pSafeStr π k = true)
    (hv : c10n_pSafe π v = true) (acc : Fields) :
    SimRel r r' (mapStep fuel docs loc (acc, r) (k, v))
      (mapStep fuel docs loc' (acc, r') (k, v)) := by
  simp only [mapStep]
  refine simRel_bind (ih docs r r' _ _ v hinv hag hv) ?_
  intro v2
  simp only []
  split
  · exact simRel_ok _ _ _
  · refine simRel_bind (ih docs r r' none none (.str k) hinv hag
      (by simpa [c10n_pSafe] using hk)) ?_
    intro k2
    cases k2 <;> first | exact simRel_error _ _ _ | exact simRel_ok _ _ _

theorem c10n_psim_entryStep {π : List String} {fuel : Nat} (ih : c10n_PSimIH π fuel)
    {docs : List Val} {r r' : Val} {loc loc' : Loc} (hinv : c10n_PSafeRoot π r)
    (hag : c10n_PAgree π r r') {v : Val} (tag : Option Nat) (hv : c10n_pSafe π v = true)
    (acc : List Val) :
    SimRel r r' (entryStep fuel docs loc (acc, r) (v, tag))
      (entryStep fuel docs loc' (acc, r') (v, tag)) := by
  simp only [entryStep]
  refine simRel_bind (ih docs r r' _ _ v hinv hag hv) ?_
  intro v2
  simp only []
  split <;> exact simRel_ok _ _ _

/-- A value whose references stay apart from `π` evaluates alike — same value or same error,
    roots untouched — against two roots that agree apart from `π` and are safe apart from `π`. -/
theorem c10n_psim (π : List String) : ∀ fuel, c10n_PSimIH π fuel := by
  intro fuel
  induction fuel with
  | zero =>
    intro docs r r' loc loc' obj _ _ _
    rw [process1_zero, process1_zero]; exact simRel_error _ _ _
  | succ fuel ih =>
    intro docs r r' loc loc' obj hinv hag hobj
    cases obj with
    | null => rw [process1_null, process1_null]; exact simRel_ok _ _ _
    | bool b => rw [process1_bool, process1_bool]; exact simRel_ok _ _ _
    | int i => rw [process1_int, process1_int]; exact simRel_ok _ _ _
    | flt x => rw [process1_flt, process1_flt]; exact simRel_ok _ _ _
    | str s =>
      simp only [c10n_pSafe, c10n_pSafeStr] at hobj
      cases hm : stripPrefix s "$merge:" with
      | some p =>
        rw [hm] at hobj
        rw [process1_str_merge hm, process1_str_merge hm]
        exact c10n_psim_get_step ih hinv hag (ref := .str p) hobj
      | none =>
        rw [hm] at hobj
        simp only [] at hobj
        cases hr : stripPrefix s "$replace:" with
        | some p =>
          rw [hr] at hobj
          rw [process1_str_replace hm hr, process1_str_replace hm hr]
          exact c10n_psim_get_step ih hinv hag (ref := .str p) hobj
        | none =>
          rw [process1_str_plain hm hr, process1_str_plain hm hr]
          exact simRel_ok _ _ _
    | map kvs =>
      simp only [c10n_pSafe] at hobj
      have hm := c10n_pSafeF_no_merge hobj
      cases hr : fget kvs "$replace" with
      | some ref =>
        rw [process1_map_replace hm hr, process1_map_replace hm hr]
        exact c10n_psim_get_step ih hinv hag (c10n_pSafeF_replace hobj hr)
      | none =>
        rw [process1_map_plain hm hr, process1_map_plain hm hr]
        refine simRel_bind (simRel_foldlM kvs (fun acc p hp => ?_) []) (fun r => simRel_ok _ _ _)
        obtain ⟨k, v⟩ := p
        have := c10n_pSafeF_mem hobj (k, v) hp
        exact c10n_psim_mapStep ih hinv hag this.2.1 this.2.2.2 acc
    | list xs =>
      simp only [c10n_pSafe] at hobj
      have hmem := c10n_pSafeL_mem hobj
      have hnm : ∀ x ∈ xs, notMergeEntry x = true :=
        fun x hx => c10n_pSafe_notMergeEntry (hmem x hx)
      have hfst : (listObj0 xs).map (·.1) = xs := by
        rw [listObj0_fst, List.filter_eq_self.2 hnm]
      have hmem0 : ∀ q ∈ listObj0 xs, q.1 ∈ xs := by
        intro q hq
        rw [← hfst]; exact List.mem_map_of_mem hq
      rw [process1_list, process1_list, listMerges_of_notMerge hnm, foldlM_nil, foldlM_nil,
        R_bind_ok, R_bind_ok]
      unfold listFinish
      rw [hfst]
      cases hpop : popListMapValue xs "$replace" with
      | error e => exact simRel_error _ _ _
      | ok q =>
        obtain ⟨rep, rest⟩ := q
        simp only [R_bind_ok]
        cases hn : rep.isNull with
        | false =>
          simp only [Bool.not_false, if_true]
          obtain ⟨m, hmm, hmr⟩ := popListMapValue_rep_mem hpop hn
          have hsm := hmem _ hmm
          simp only [c10n_pSafe] at hsm
          exact c10n_psim_get_step ih hinv hag (c10n_pSafeF_replace hsm hmr)
        | true =>
          simp only [Bool.not_true, Bool.false_eq_true, if_false]
          refine simRel_bind (simRel_foldlM _ (fun acc p hp => ?_) []) (fun r => simRel_ok _ _ _)
          obtain ⟨v, tag⟩ := p
          have hv : c10n_pSafe π v = true := hmem v (hmem0 _ (List.mem_filter.1 hp).1)
          exact c10n_psim_entryStep ih hinv hag tag hv acc

theorem c10n_psim_fold {π : List String} {fuel : Nat} {docs : List Val} {r r' : Val} {loc : Loc}
    (hinv : c10n_PSafeRoot π r) (hag : c10n_PAgree π r r') {l : Fields}
    (hl : c10n_pSafeF π l = true) (acc : Fields) :
    SimRel r r' (l.foldlM (mapStep fuel docs loc) (acc, r))
      (l.foldlM (mapStep fuel docs loc) (acc, r')) := by
  refine simRel_foldlM l (fun acc p hp => ?_) acc
  obtain ⟨k, v⟩ := p
  have := c10n_pSafeF_mem hl (k, v) hp
  exact c10n_psim_mapStep (c10n_psim π fuel) hinv hag this.2.1 this.2.2.2 acc

/-! ## reference-free values are safe; `Safe h` values are safe for every `h :: ρ` -/

theorem c10n_pSafeStr_of_not_refStr {π : List String} {s : String} (hs : refStr s = false) :
    c10n_pSafeStr π s = true := by
  simp only [refStr, Bool.or_eq_false_iff] at hs
  simp only [c10n_pSafeStr, e_stripPrefix_none hs.1, e_stripPrefix_none hs.2]

mutual
theorem c10n_refFree_pSafe (π : List String) : ∀ v : Val, refFree v = true → c10n_pSafe π v = true
  | .str s, hv => by
    simp only [refFree, Bool.not_eq_true'] at hv
    simp only [c10n_pSafe]; exact c10n_pSafeStr_of_not_refStr hv
  | .list xs, hv => by
    simp only [refFree] at hv
    simp only [c10n_pSafe]; exact c10n_refFreeList_pSafe π xs hv
  | .map kvs, hv => by
    simp only [refFree] at hv
    simp only [c10n_pSafe]; exact c10n_refFreeFields_pSafe π kvs hv
  | .null, _ | .bool _, _ | .int _, _ | .flt _, _ => rfl
theorem c10n_refFreeList_pSafe (π : List String) : ∀ xs : List Val, refFreeList xs = true →
    c10n_pSafeL π xs = true
  | [], _ => rfl
  | x :: xs, hv => by
    simp only [refFreeList, Bool.and_eq_true] at hv
    simp only [c10n_pSafeL, Bool.and_eq_true]
    exact ⟨c10n_refFree_pSafe π x hv.1, c10n_refFreeList_pSafe π xs hv.2⟩
theorem c10n_refFreeFields_pSafe (π : List String) : ∀ kvs : Fields, refFreeFields kvs = true →
    c10n_pSafeF π kvs = true
  | [], _ => rfl
  | (k, v) :: rest, hv => by
    simp only [refFreeFields, Bool.and_eq_true, Bool.not_eq_true'] at hv
    have hk := hv.1.1
    simp only [refKey, Bool.or_eq_false_iff, beq_eq_false_iff_ne] at hk
    simp only [c10n_pSafeF, Bool.and_eq_true, Bool.not_eq_true', beq_eq_false_iff_ne,
      Bool.or_eq_true]
    exact ⟨⟨⟨⟨hk.1.1, c10n_pSafeStr_of_not_refStr hk.2⟩, Or.inl hk.1.2⟩,
      c10n_refFree_pSafe π v hv.1.2⟩, c10n_refFreeFields_pSafe π rest hv.2⟩
end

theorem c10n_pSafeList_of_head {h k : String} (ρ : List String) (rest : List Val) (hk : k ≠ h) :
    c10n_pSafeList (h :: ρ) (.str k :: rest) = true := by
  simp only [c10n_pSafeList]
  cases hsl : toStringList (.str k :: rest) with
  | error e => rfl
  | ok sl =>
    obtain ⟨ks, rfl⟩ := toStringList_str_cons hsl
    exact c10n_apart_cons_ne ks ρ hk

theorem c10n_safeStrRef_imp {h : String} (ρ : List String) {p : String}
    (hp : safeStrRef h p = true) : c10n_pSafeStrRef (h :: ρ) p = true := by
  unfold safeStrRef at hp
  unfold c10n_pSafeStrRef
  cases hpr : parseRef p with
  | none => rfl
  | some q =>
    rw [hpr] at hp
    cases q with
    | str s =>
      simp only [] at hp ⊢
      cases hsp : s.splitOn "." with
      | nil => rw [hsp] at hp; cases hp
      | cons k ks =>
        rw [hsp] at hp
        have hk : k ≠ h := by simpa using hp
        exact c10n_apart_cons_ne ks ρ hk
    | list l =>
      simp only [] at hp ⊢
      cases l with
      | nil => cases hp
      | cons x rest =>
        cases x with
        | str k =>
          have hk : k ≠ h := by simpa using hp
          exact c10n_pSafeList_of_head ρ rest hk
        | _ => cases hp
    | null => rfl
    | bool _ => rfl
    | int _ => rfl
    | flt _ => rfl
    | map _ => rfl

theorem c10n_safeRef_imp {h : String} (ρ : List String) {ref : Val}
    (hr : safeRef h ref = true) : c10n_pSafeRef (h :: ρ) ref = true := by
  cases ref with
  | str p => exact c10n_safeStrRef_imp ρ hr
  | list l =>
    simp only [safeRef] at hr
    simp only [c10n_pSafeRef]
    cases l with
    | nil => cases hr
    | cons x rest =>
      cases x with
      | str k =>
        have hk : k ≠ h := by simpa using hr
        exact c10n_pSafeList_of_head ρ rest hk
      | _ => cases hr
  | map _ => cases hr
  | null => rfl
  | bool _ => rfl
  | int _ => rfl
  | flt _ => rfl

theorem c10n_safeStr_imp {h : String} (ρ : List String) {s : String}
    (hs : safeStr h s = true) : c10n_pSafeStr (h :: ρ) s = true := by
  unfold safeStr at hs
  unfold c10n_pSafeStr
  cases hm : stripPrefix s "$merge:" with
  | some p => rw [hm] at hs; exact c10n_safeStrRef_imp ρ hs
  | none =>
    rw [hm] at hs
    simp only [] at hs ⊢
    cases hr : stripPrefix s "$replace:" with
    | some p => rw [hr] at hs; exact c10n_safeStrRef_imp ρ hs
    | none => rfl

mutual
/-- "first key is not `h`" implies "apart from `h :: ρ`" -/
theorem c10n_safe_imp (h : String) (ρ : List String) : ∀ v : Val, Safe h v = true →
    c10n_pSafe (h :: ρ) v = true
  | .str s, hv => by
    simp only [Safe] at hv
    simp only [c10n_pSafe]; exact c10n_safeStr_imp ρ hv
  | .list xs, hv => by
    simp only [Safe] at hv
    simp only [c10n_pSafe]; exact c10n_safeList_imp h ρ xs hv
  | .map kvs, hv => by
    simp only [Safe] at hv
    simp only [c10n_pSafe]; exact c10n_safeFields_imp h ρ kvs hv
  | .null, _ | .bool _, _ | .int _, _ | .flt _, _ => rfl
theorem c10n_safeList_imp (h : String) (ρ : List String) : ∀ xs : List Val,
    SafeList h xs = true → c10n_pSafeL (h :: ρ) xs = true
  | [], _ => rfl
  | x :: xs, hv => by
    simp only [SafeList, Bool.and_eq_true] at hv
    simp only [c10n_pSafeL, Bool.and_eq_true]
    exact ⟨c10n_safe_imp h ρ x hv.1, c10n_safeList_imp h ρ xs hv.2⟩
theorem c10n_safeFields_imp (h : String) (ρ : List String) : ∀ kvs : Fields,
    SafeFields h kvs = true → c10n_pSafeF (h :: ρ) kvs = true
  | [], _ => rfl
  | (k, v) :: rest, hv => by
    simp only [SafeFields, Bool.and_eq_true, Bool.not_eq_true', beq_eq_false_iff_ne,
      Bool.or_eq_true] at hv
    simp only [c10n_pSafeF, Bool.and_eq_true, Bool.not_eq_true', beq_eq_false_iff_ne,
      Bool.or_eq_true]
    refine ⟨⟨⟨⟨hv.1.1.1.1, c10n_safeStr_imp ρ hv.1.1.1.2⟩, ?_⟩, c10n_safe_imp h ρ v hv.1.2⟩,
      c10n_safeFields_imp h ρ rest hv.2⟩
    rcases hv.1.1.2 with h1 | h1
    · exact Or.inl h1
    · exact Or.inr (c10n_safeRef_imp ρ h1)
end

/-! ## the siblings of the host's path stay apart from it -/

/-- along `ρ` below `v`: sorted maps, non-reference keys, siblings `c10n_pSafeF Q`
    (`Q` is the full path of the host, `ρ` the part of it below `v`) -/
def c10n_paround (Q : List String) : Val → List String → Bool
  | _, [] => true
  | .map m, k :: ρ =>
    Fields.sortedKeysB m && !refKey k && c10n_pSafeF Q (fdel m k) &&
      (match fget m k with
       | some c => c10n_paround Q c ρ
       | none => false)
  | _, _ :: _ => false

theorem c10n_paround_nil (Q : List String) (v : Val) : c10n_paround Q v [] = true := by
  cases v <;> rfl

theorem c10n_paround_cons {Q : List String} {k : String} {m : Fields} {ρ : List String}
    (ha : c10n_paround Q (.map m) (k :: ρ) = true) :
    Fields.SortedKeys m ∧ refKey k = false ∧ c10n_pSafeF Q (fdel m k) = true ∧
      ∃ c, fget m k = some c ∧ c10n_paround Q c ρ = true := by
  simp only [c10n_paround, Bool.and_eq_true, Bool.not_eq_true', sortedKeysB_iff] at ha
  obtain ⟨⟨⟨h1, h2⟩, h3⟩, h4⟩ := ha
  cases hc : fget m k with
  | none => rw [hc] at h4; cases h4
  | some c => rw [hc] at h4; exact ⟨h1, h2, h3, c, rfl, h4⟩

theorem c10n_paround_nonmap {Q : List String} {k : String} {v : Val} {ρ : List String}
    (hv : v.isMap = false) : c10n_paround Q v (k :: ρ) = false := by
  cases v <;> simp [Val.isMap] at hv <;> rfl

theorem c10n_paround_intro {Q : List String} {k : String} {m : Fields} {ρ : List String} {c : Val}
    (h1 : Fields.SortedKeys m) (h2 : refKey k = false) (h3 : c10n_pSafeF Q (fdel m k) = true)
    (hc : fget m k = some c) (h4 : c10n_paround Q c ρ = true) :
    c10n_paround Q (.map m) (k :: ρ) = true := by
  simp only [c10n_paround, Bool.and_eq_true, Bool.not_eq_true', sortedKeysB_iff, hc]
  exact ⟨⟨⟨h1, h2⟩, h3⟩, h4⟩

theorem c10n_paround_of_free (Q : List String) : ∀ (ρ : List String) (v : Val),
    c10n_aroundFree v ρ = true → c10n_paround Q v ρ = true := by
  intro ρ
  induction ρ with
  | nil => intro v _; exact c10n_paround_nil Q v
  | cons k ρ ih =>
    intro v hv
    cases v with
    | map m =>
      simp only [c10n_aroundFree, Bool.and_eq_true, Bool.not_eq_true', sortedKeysB_iff] at hv
      obtain ⟨⟨⟨h1, h2⟩, h3⟩, h4⟩ := hv
      cases hc : fget m k with
      | none => rw [hc] at h4; cases h4
      | some c =>
        rw [hc] at h4
        exact c10n_paround_intro h1 h2 (c10n_refFreeFields_pSafe Q _ h3) hc (ih c h4)
    | null => cases hv
    | bool _ => cases hv
    | int _ => cases hv
    | flt _ => cases hv
    | str _ => cases hv
    | list _ => cases hv

/-- the first-key condition of C10Nested implies the apart condition -/
theorem c10n_paround_of_around (h : String) (π : List String) : ∀ (ρ : List String) (v : Val),
    c10n_around h v ρ = true → c10n_paround (h :: π) v ρ = true := by
  intro ρ
  induction ρ with
  | nil => intro v _; exact c10n_paround_nil _ v
  | cons k ρ ih =>
    intro v hv
    cases hvm : v.isMap with
    | false => rw [c10n_around_nonmap hvm] at hv; cases hv
    | true =>
      cases v with
      | map m =>
        obtain ⟨h1, h2, h3, c, hc, h4⟩ := c10n_around_cons hv
        exact c10n_paround_intro h1 h2 (c10n_safeFields_imp h π _ h3) hc (ih c h4)
      | null => cases hvm
      | bool _ => cases hvm
      | int _ => cases hvm
      | flt _ => cases hvm
      | str _ => cases hvm
      | list _ => cases hvm

/-- what a path apart from `ρ` reaches below `v` is safe -/
theorem c10n_paround_safe {Q : List String} : ∀ (ρ : List String) (v : Val) (p : List String)
    (x : Val), c10n_paround Q v ρ = true → c10n_apart p ρ = true → getPath v p = .ok x →
    c10n_pSafe Q x = true := by
  intro ρ
  induction ρ with
  | nil => intro v p x _ hp _; rw [c10n_apart_nil_right] at hp; cases hp
  | cons b ρ ih =>
    intro v p x har hp hg
    cases p with
    | nil => cases hp
    | cons a p =>
      cases v with
      | map m =>
        obtain ⟨_, _, ho, c, hc, harc⟩ := c10n_paround_cons har
        simp only [getPath] at hg
        by_cases hab : a = b
        · subst hab
          rw [c10n_apart_cons_same] at hp
          rw [hc] at hg
          exact ih c p x harc hp hg
        · cases hd : fget m a with
          | none => rw [hd] at hg; cases hg
          | some d =>
            rw [hd] at hg
            have hmem : fget (fdel m b) a = some d := by rw [fget_fdel_ne _ _ _ hab]; exact hd
            exact c10n_pSafe_getPath p d x (c10n_pSafeF_mem ho _ (fget_mem hmem)).2.2.2 hg
      | _ => cases hg

theorem c10n_psafeRoot_of_paround {π : List String} {r : Val}
    (har : c10n_paround π r π = true) : c10n_PSafeRoot π r :=
  fun p v hp hg => c10n_paround_safe π r p v har hp hg

/-! ## the context of the host -/

def c10n_PHostRel (π : List String) (X Y : R (Val × Val)) : Prop :=
  X = Y ∨ ∃ b b', c10n_PSafeRoot π b ∧ c10n_PAgree π b b' ∧ SimRel b b' X Y

theorem c10n_PHostRel_fst {π : List String} {X Y : R (Val × Val)} (hr : c10n_PHostRel π X Y) :
    Except.map Prod.fst X = Except.map Prod.fst Y := by
  rcases hr with e | ⟨b, b', _, _, hs⟩
  · rw [e]
  · exact simRel_map_fst hs

theorem c10n_plevel {Q : List String} {fuel : Nat} {docs : List Val} {r r' : Val} {loc : Loc}
    {m : Fields} {k : String} {c c' : Val}
    (hinv : c10n_PSafeRoot Q r) (hag : c10n_PAgree Q r r')
    (hs : Fields.SortedKeys m) (hk : refKey k = false) (hc : fget m k = some c)
    (ho : c10n_pSafeF Q (fdel m k) = true)
    (hrel : c10n_PHostRel Q (process1 fuel docs r (childLoc loc k) c)
      (process1 fuel docs r' (childLoc loc k) c')) :
    c10n_PHostRel Q (process1 (fuel + 1) docs r loc (.map m))
      (process1 (fuel + 1) docs r' loc (.map (fset m k c'))) := by
  obtain ⟨pre, post, e1, e2, e3⟩ := sorted_split hs hc
  rw [e3, c10n_pSafeF_append] at ho
  rw [e2 c']
  subst e1
  have hkf := refKey_false hk
  have hmerge : ∀ x : Val, fget (pre ++ (k, x) :: post) "$merge" = none := by
    intro x
    apply fget_none_iff.2
    intro p hp
    rcases List.mem_append.1 hp with hp | hp
    · exact (c10n_pSafeF_mem ho.1 p hp).1
    · rcases List.mem_cons.1 hp with rfl | hp
      · exact hkf.1
      · exact (c10n_pSafeF_mem ho.2 p hp).1
  have hrk : ("$replace" : String) ≠ k := fun e => hkf.2.1 e.symm
  have hrep : fget (pre ++ (k, c') :: post) "$replace" = fget (pre ++ (k, c) :: post) "$replace" :=
    fget_append_host_ne pre post c' c hrk
  cases hr : fget (pre ++ (k, c) :: post) "$replace" with
  | some ref =>
    have hr' := hrep.trans hr
    have hsafe : c10n_pSafeRef Q ref = true := by
      have hm := fget_mem hr
      rcases List.mem_append.1 hm with hm | hm
      · exact (c10n_pSafeF_mem ho.1 _ hm).2.2.1 rfl
      · rcases List.mem_cons.1 hm with hm | hm
        · cases hm; exact absurd rfl hrk
        · exact (c10n_pSafeF_mem ho.2 _ hm).2.2.1 rfl
    rw [process1_map_replace (hmerge c) hr, process1_map_replace (hmerge c') hr']
    exact Or.inr ⟨r, r', hinv, hag, c10n_psim_get_step (c10n_psim Q fuel) hinv hag hsafe⟩
  | none =>
    have hr' := hrep.trans hr
    rw [process1_map_plain (hmerge c) hr, process1_map_plain (hmerge c') hr',
      List.foldlM_append, List.foldlM_append]
    have hpre := c10n_psim_fold (fuel := fuel) (docs := docs) (loc := loc) hinv hag ho.1 []
    rcases hrel with heq | ⟨b, b', hb, hbb, hsim⟩
    · left
      rcases simRel_cases hpre with ⟨e, e1, e2⟩ | ⟨acc1, e1, e2⟩
      · rw [e1, e2]; rfl
      · rw [e1, e2]
        simp only [R_bind_ok, List.foldlM_cons]
        rw [mapStep_host hk, mapStep_host hk, heq]
    · right
      refine ⟨b, b', hb, hbb, ?_⟩
      rcases simRel_cases hpre with ⟨e, e1, e2⟩ | ⟨acc1, e1, e2⟩
      · rw [e1, e2]; exact simRel_error _ _ _
      · rw [e1, e2]
        simp only [R_bind_ok, List.foldlM_cons]
        exact simRel_bind
          (simRel_bind (c10n_sim_host hk acc1 hsim)
            (fun acc2 => c10n_psim_fold (fuel := fuel) (docs := docs) (loc := loc) hb hbb ho.2
              acc2))
          (fun r => simRel_ok _ _ _)

theorem c10n_pcontext {Q : List String} {docs : List Val} {r r' : Val}
    (hinv : c10n_PSafeRoot Q r) (hag : c10n_PAgree Q r r') {hostv hostv' : Val} {fuel : Nat} :
    ∀ (ρ : List String) (v : Val) (loc : Loc),
      c10n_paround Q v ρ = true → getPath v ρ = .ok hostv →
      c10n_PHostRel Q (process1 fuel docs r (c10n_locAt loc ρ) hostv)
        (process1 fuel docs r' (c10n_locAt loc ρ) hostv') →
      c10n_PHostRel Q (process1 (fuel + ρ.length) docs r loc v)
        (process1 (fuel + ρ.length) docs r' loc (c10n_setKeys v ρ hostv')) := by
  intro ρ
  induction ρ with
  | nil =>
    intro v loc _ hg hrel
    have : v = hostv := by cases hg; rfl
    subst this
    exact hrel
  | cons k ρ ih =>
    intro v loc har hg hrel
    cases hvm : v.isMap with
    | false => rw [c10n_paround_nonmap hvm] at har; cases har
    | true =>
      cases v with
      | map m =>
        obtain ⟨hs, hk, ho, c, hc, harc⟩ := c10n_paround_cons har
        have hgc : getPath c ρ = .ok hostv := by
          simp only [getPath, hc] at hg; exact hg
        have hinner := ih c (childLoc loc k) harc hgc hrel
        rw [c10n_setKeys_cons ρ hostv' hc]
        exact c10n_plevel hinv hag hs hk hc ho hinner
      | null => cases hvm
      | bool _ => cases hvm
      | int _ => cases hvm
      | flt _ => cases hvm
      | str _ => cases hvm
      | list _ => cases hvm

/-! ## the two inline statements -/

theorem c10n_inline_replace_apart_core {fuel : Nat} {docs : List Val} {root : Val}
    {π : List String} {hostv ref t : Val} {ks : List String}
    (hhost : getPath root π = .ok hostv)
    (har : c10n_paround π root π = true)
    (hfw : Forwards hostv ref) (hp : PathRef ref ks) (ht : getPath root ks = .ok t)
    (htf : refFree t = true) (hfuel : process1 fuel [] .null none t ≠ .error .circularRef) :
    Except.map Prod.fst (process1 (fuel + π.length + 1) docs root (some []) root) =
      Except.map Prod.fst
        (process1 (fuel + π.length + 1) docs (c10n_setKeys root π t) (some [])
          (c10n_setKeys root π t)) := by
  have hinv := c10n_psafeRoot_of_paround har
  have hag := c10n_pagree_setKeys π root t
  have hrel : c10n_PHostRel π
      (process1 (fuel + 1) docs root (c10n_locAt (some []) π) hostv)
      (process1 (fuel + 1) docs (c10n_setKeys root π t) (c10n_locAt (some []) π) t) :=
    Or.inr ⟨_, _, hinv, hag, replace_host_rel hfw hp ht htf hfuel⟩
  have := c10n_pcontext hinv hag π root (some []) har hhost hrel
  have hlen : fuel + 1 + π.length = fuel + π.length + 1 := by omega
  rw [hlen] at this
  exact c10n_PHostRel_fst this

theorem c10n_inline_merge_apart_core {fuel : Nat} {docs : List Val} {root : Val} {m : Fields}
    {π : List String} {ref t nv : Val} {ks : List String}
    (hhost : getPath root π = .ok (.map m))
    (har : c10n_paround π root π = true)
    (hm : fget m "$merge" = some ref) (hp : PathRef ref ks) (hk : c10n_apart ks π = true)
    (ht : getPath root ks = .ok t) (hti : MergeInlinable t)
    (hn : merge (.map (fdel m "$merge")) t = .ok nv)
    (hfuel : process1 fuel docs (c10n_setKeys root π nv)
      (some (π.map PathElem.key)) nv ≠ .error .circularRef) :
    Except.map Prod.fst (process1 (fuel + π.length + 1) docs root (some []) root) =
      Except.map Prod.fst
        (process1 (fuel + π.length + 1) docs (c10n_setKeys root π nv) (some [])
          (c10n_setKeys root π nv)) := by
  have hinv := c10n_psafeRoot_of_paround har
  have hag := c10n_pagree_setKeys π root nv
  have hrel0 := c10n_merge_host_rel (docs := docs) (root := root)
    (loc := some (π.map PathElem.key)) (S := c10n_setKeys root π)
    (fun x => c10n_setLoc _ _ x)
    (fun x y => by rw [c10n_setLoc, c10n_setKeys_setKeys])
    (fun x => c10n_getPath_setKeys_apart π ks root x hk) hm hp ht hti hn hfuel
  have hrel : c10n_PHostRel π
      (process1 (fuel + 1) docs root (c10n_locAt (some []) π) (.map m))
      (process1 (fuel + 1) docs (c10n_setKeys root π nv) (c10n_locAt (some []) π) nv) := by
    rw [c10n_locAt_top]
    rcases hrel0 with e | hsim
    · exact Or.inl e
    · exact Or.inr ⟨_, _, c10n_psafeRoot_setKeys _ hinv, c10n_pagree_setKeys2 π root _ _, hsim⟩
  have := c10n_pcontext hinv hag π root (some []) har hhost hrel
  have hlen : fuel + 1 + π.length = fuel + π.length + 1 := by omega
  rw [hlen] at this
  exact c10n_PHostRel_fst this

/-! ## small facts for the non-vacuity examples -/

theorem c10n_pSafeList_strs {π : List String} {k : String} {ks : List String}
    (hap : c10n_apart (k :: ks) π = true) :
    c10n_pSafeList π (.str k :: ks.map .str) = true := by
  have : toStringList (.str k :: ks.map .str) = .ok (k :: ks) := toStringList_strs (k :: ks)
  simp only [c10n_pSafeList, this, hap]

theorem c10n_pSafeL_strs {π : List String} : ∀ ks : List String,
    (∀ s ∈ ks, refStr s = false) → c10n_pSafeL π (ks.map .str) = true
  | [], _ => rfl
  | k :: ks, h => by
    simp only [List.map_cons, c10n_pSafeL, Bool.and_eq_true, c10n_pSafe]
    exact ⟨c10n_pSafeStr_of_not_refStr (h k List.mem_cons_self),
      c10n_pSafeL_strs ks (fun s hs => h s (List.mem_cons_of_mem _ hs))⟩

/-- `{$replace: [k, …]}` with a list path of plain keys apart from `π` -/
theorem c10n_pSafe_map_replace_list {π : List String} {k : String} {ks : List String}
    (hap : c10n_apart (k :: ks) π = true) (hks : ∀ s ∈ k :: ks, refStr s = false) :
    c10n_pSafe π (.map [("$replace", .list (.str k :: ks.map .str))]) = true := by
  simp only [c10n_pSafe]
  apply c10n_pSafeF_of_mem
  intro q hq
  simp only [List.mem_cons, List.not_mem_nil, or_false] at hq
  subst hq
  have h1 : "$replace" ≠ "$merge" := by decide
  have h2 : refStr "$replace" = false := by decide
  refine ⟨h1, c10n_pSafeStr_of_not_refStr h2, fun _ => ?_, ?_⟩
  · simp only [c10n_pSafeRef]; exact c10n_pSafeList_strs hap
  · simp only [c10n_pSafe]
    exact c10n_pSafeL_strs (k :: ks) hks

/-! ## a sibling inside the top-level entry that reads the raw host -/

/-- `a: {x: 1}`, `p: {h: {$replace: a}, u: {$replace: [p, h, $replace]}}` — the sibling `u` of
    the host `p.h` reads the raw `$replace` key of the host (its path EXTENDS the host's path) -/
def c10n_cexRead : Fields :=
  [("a", .map [("x", .int 1)]),
   ("p", .map [("h", .map [("$replace", .str "a")]),
               ("u", .map [("$replace", .list [.str "p", .str "h", .str "$replace"])])])]

theorem c10n_cexRead_ref (fuel : Nat) (docs : List Val) :
    Except.map Prod.fst
      (process1 (fuel + 5) docs (.map c10n_cexRead) (some []) (.map c10n_cexRead)) =
    .ok (.map [("a", .map [("x", .int 1)]),
               ("p", .map [("h", .map [("x", .int 1)]), ("u", .str "a")])]) := by
  have hx : ∀ (f : Nat) (loc : Loc),
      process1 (f + 2) docs (.map c10n_cexRead) loc (.map [("x", .int 1)]) =
        .ok (.map [("x", .int 1)], .map c10n_cexRead) := fun f loc =>
    process1_plain_eval docs _ loc (by decide) (by decide) (d := 1) (by decide) (by omega)
      (by decide)
  have hh : process1 (fuel + 3) docs (.map c10n_cexRead) (childLoc (some [.key "p"]) "h")
      (.map [("$replace", .str "a")]) = .ok (.map [("x", .int 1)], .map c10n_cexRead) := by
    rw [process1_map_replace (ref := .str "a") (by decide) (by decide),
      get_simpleKey simpleKey_a (v := .map [("x", .int 1)]) docs (by decide), R_bind_ok]
    exact hx fuel none
  have hu : process1 (fuel + 3) docs (.map c10n_cexRead) (childLoc (some [.key "p"]) "u")
      (.map [("$replace", .list [.str "p", .str "h", .str "$replace"])]) =
        .ok (.str "a", .map c10n_cexRead) := by
    have hg : get (.map c10n_cexRead) docs (.list [.str "p", .str "h", .str "$replace"]) =
        getPath (.map c10n_cexRead) ["p", "h", "$replace"] :=
      get_list_strs _ docs "p" ["h", "$replace"]
    rw [process1_map_replace (ref := .list [.str "p", .str "h", .str "$replace"]) (by decide)
      (by decide), hg]
    have : getPath (.map c10n_cexRead) ["p", "h", "$replace"] = .ok (.str "a") := rfl
    rw [this, R_bind_ok]
    exact process1_plain_eval docs _ _ (by decide) (by decide) (d := 0) (by decide) (by omega)
      (by decide)
  have hp : process1 (fuel + 4) docs (.map c10n_cexRead) (some [.key "p"])
      (.map [("h", .map [("$replace", .str "a")]),
             ("u", .map [("$replace", .list [.str "p", .str "h", .str "$replace"])])]) =
        .ok (.map [("h", .map [("x", .int 1)]), ("u", .str "a")], .map c10n_cexRead) := by
    rw [process1_map_plain (by decide) (by decide)]
    simp only [foldlM_cons, foldlM_nil,
      mapStep_ok (loc := some [.key "p"]) (by decide : refKey "h" = false) hh rfl,
      mapStep_ok (loc := some [.key "p"]) (by decide : refKey "u" = false) hu rfl,
      R_bind_ok, R_pure]
    exact congrArg (fun x => Except.ok (Val.map x, Val.map c10n_cexRead)) (by decide)
  have ha : process1 (fuel + 4) docs (.map c10n_cexRead) (some [.key "a"])
      (.map [("x", .int 1)]) = .ok (.map [("x", .int 1)], .map c10n_cexRead) := hx (fuel + 2) _
  rw [process1_map_plain (by decide) (by decide)]
  simp only [c10n_cexRead] at ha hp ⊢
  simp only [foldlM_cons, foldlM_nil,
    mapStep_ok (loc := some []) (by decide : refKey "a" = false) ha rfl,
    mapStep_ok (loc := some []) (by decide : refKey "p" = false) hp rfl,
    R_bind_ok, R_pure, Except.map]
  exact congrArg (fun x => Except.ok (Val.map x)) (by decide)

theorem c10n_cexRead_inline (fuel : Nat) (docs : List Val) :
    process1 (fuel + 4) docs
      (c10n_setKeys (.map c10n_cexRead) ["p", "h"] (.map [("x", .int 1)])) (some [])
      (c10n_setKeys (.map c10n_cexRead) ["p", "h"] (.map [("x", .int 1)])) =
        .error .refNotFound := by
  have hset : c10n_setKeys (.map c10n_cexRead) ["p", "h"] (.map [("x", .int 1)]) =
      .map [("a", .map [("x", .int 1)]),
        ("p", .map [("h", .map [("x", .int 1)]),
                    ("u", .map [("$replace", .list [.str "p", .str "h", .str "$replace"])])])] := by
    decide
  rw [hset]
  generalize hroot : Val.map [("a", Val.map [("x", .int 1)]),
        ("p", .map [("h", .map [("x", .int 1)]),
                    ("u", .map [("$replace", .list [.str "p", .str "h", .str "$replace"])])])] =
    root
  have hx : ∀ (f : Nat) (loc : Loc),
      process1 (f + 2) docs root loc (.map [("x", .int 1)]) =
        .ok (.map [("x", .int 1)], root) := fun f loc =>
    process1_plain_eval docs _ loc (by decide) (by decide) (d := 1) (by decide) (by omega)
      (by decide)
  have hu : process1 (fuel + 2) docs root (childLoc (some [.key "p"]) "u")
      (.map [("$replace", .list [.str "p", .str "h", .str "$replace"])]) =
        .error .refNotFound := by
    have hg : get root docs (.list [.str "p", .str "h", .str "$replace"]) =
        getPath root ["p", "h", "$replace"] := get_list_strs _ docs "p" ["h", "$replace"]
    rw [process1_map_replace (ref := .list [.str "p", .str "h", .str "$replace"]) (by decide)
      (by decide), hg, ← hroot]
    rfl
  have hp : process1 (fuel + 3) docs root (some [.key "p"])
      (.map [("h", .map [("x", .int 1)]),
             ("u", .map [("$replace", .list [.str "p", .str "h", .str "$replace"])])]) =
        .error .refNotFound := by
    rw [process1_map_plain (by decide) (by decide), foldlM_cons,
      mapStep_ok (loc := some [.key "p"]) (by decide : refKey "h" = false) (hx fuel _) rfl]
    simp only []
    rw [foldlM_cons, mapStep_err (loc := some [.key "p"]) hu]
    rfl
  have ha : process1 (fuel + 3) docs root (some [.key "a"])
      (.map [("x", .int 1)]) = .ok (.map [("x", .int 1)], root) := hx (fuel + 1) _
  subst hroot
  rw [process1_map_plain (by decide) (by decide), foldlM_cons,
    mapStep_ok (loc := some []) (by decide : refKey "a" = false) ha rfl]
  simp only []
  rw [foldlM_cons, mapStep_err (loc := some []) hp]
  rfl

end Bkl
