/-
  BklProofs.Lemmas.Encode — helper lemmas and specification functions for C14 (`$encode`):
  * `String.splitOn ":"` characterised on `List Char` (`splitOn_colon`), so that the argument
    parsing of `encodeString` can be computed for concrete and for symbolic specs;
  * independent specification functions for the list/map transforms;
  * an independent RFC 4648 base64 *decoder* and the round-trip proof.
  (Batteries' `String` position lemmas are used for `splitOnAux`; nothing else is imported.)
-/
import Bkl.Encode
import BklProofs.Lemmas.SplitOn
namespace Bkl
open String

deriving instance DecidableEq for EncRes   -- only used by the test `example`s

/-! ## `String.splitOn ":"` -/

theorem splitOnPPrepend_no_colon (l acc : List Char) (h : ':' ∉ l) :
    List.splitOnPPrepend (· == ':') l acc = [acc.reverse ++ l] := by
  induction l generalizing acc with
  | nil => simp
  | cons c cs ih =>
    have hc : c ≠ ':' := fun e => h (by simp [e])
    have hcs : ':' ∉ cs := fun e => h (by simp [e])
    rw [List.splitOnPPrepend_cons_eq_if]
    simp [hc, ih _ hcs]

theorem splitOnPPrepend_colon_append (l r acc : List Char) (h : ':' ∉ l) :
    List.splitOnPPrepend (· == ':') (l ++ ':' :: r) acc
      = (acc.reverse ++ l) :: List.splitOnP (· == ':') r := by
  induction l generalizing acc with
  | nil => simp [List.splitOnPPrepend_cons_eq_if]
  | cons c cs ih =>
    have hc : c ≠ ':' := fun e => h (by simp [e])
    have hcs : ':' ∉ cs := fun e => h (by simp [e])
    rw [List.cons_append, List.splitOnPPrepend_cons_eq_if]
    simp [hc, ih _ hcs]

/-- no ':' in the spec: a single part -/
theorem splitOn_colon_none (s : String) (h : ':' ∉ s.toList) : s.splitOn ":" = [s] := by
  rw [splitOn_colon, List.splitOnP_eq_splitOnPPrepend, splitOnPPrepend_no_colon _ _ h]
  simp

/-- `cmd:rest` with no ':' in `cmd`: the head part is `cmd`, the others come from `rest` -/
theorem splitOn_colon_cons (cmd rest : String) (h : ':' ∉ cmd.toList) :
    (cmd ++ ":" ++ rest).splitOn ":" = cmd :: rest.splitOn ":" := by
  rw [splitOn_colon, splitOn_colon]
  have : (cmd ++ ":" ++ rest).toList = cmd.toList ++ ':' :: rest.toList := by
    simp [String.toList_append]
  rw [this, List.splitOnP_eq_splitOnPPrepend, splitOnPPrepend_colon_append _ _ _ h]
  simp

/-- `cmd:arg` with no ':' in either: exactly two parts -/
theorem splitOn_colon_two (cmd arg : String) (h : ':' ∉ cmd.toList) (h2 : ':' ∉ arg.toList) :
    (cmd ++ ":" ++ arg).splitOn ":" = [cmd, arg] := by
  rw [splitOn_colon_cons _ _ h, splitOn_colon_none _ h2]

theorem splitOn_colon_length_pos (s : String) : 1 ≤ (s.splitOn ":").length := by
  rw [splitOn_colon, List.splitOnP_eq_splitOnPPrepend]
  have := List.splitOnPPrepend_ne_nil (· == ':') s.toList []
  cases h : List.splitOnPPrepend (· == ':') s.toList [] with
  | nil => exact absurd h this
  | cons a b => simp

/-! ## concrete argument lists -/

theorem parts_join : "join".splitOn ":" = ["join"] := by rw [splitOn_colon]; decide
theorem parts_prefix : "prefix".splitOn ":" = ["prefix"] := by rw [splitOn_colon]; decide
theorem parts_tolist : "tolist".splitOn ":" = ["tolist"] := by rw [splitOn_colon]; decide
theorem parts_flatten : "flatten".splitOn ":" = ["flatten"] := by rw [splitOn_colon]; decide
theorem parts_values : "values".splitOn ":" = ["values"] := by rw [splitOn_colon]; decide
theorem parts_flags : "flags".splitOn ":" = ["flags"] := by rw [splitOn_colon]; decide
theorem parts_base64 : "base64".splitOn ":" = ["base64"] := by rw [splitOn_colon]; decide
theorem parts_sha256 : "sha256".splitOn ":" = ["sha256"] := by rw [splitOn_colon]; decide
theorem parts_nosuch : "nosuch".splitOn ":" = ["nosuch"] := by rw [splitOn_colon]; decide
theorem parts_tolist_eq : "tolist:=".splitOn ":" = ["tolist", "="] := by
  rw [splitOn_colon]; decide
theorem parts_tolist_colon : "tolist::".splitOn ":" = ["tolist", "", ""] := by
  rw [splitOn_colon]; decide
theorem parts_prefix_dd : "prefix:--".splitOn ":" = ["prefix", "--"] := by
  rw [splitOn_colon]; decide
theorem parts_join_ab : "join:a:b".splitOn ":" = ["join", "a", "b"] := by
  rw [splitOn_colon]; decide

/-- `cmd:` followed by anything has at least two parts -/
theorem parts_with_arg (cmd rest : String) (h : ':' ∉ cmd.toList) :
    ∃ p ps, (cmd ++ ":" ++ rest).splitOn ":" = cmd :: p :: ps := by
  rw [splitOn_colon_cons _ _ h]
  have := splitOn_colon_length_pos rest
  cases h2 : rest.splitOn ":" with
  | nil => simp [h2] at this
  | cons p ps => exact ⟨p, ps, rfl⟩

/-! ## specification functions (written independently of `encodeString`) -/

/-- `join:d` — the `%v` renderings of the items separated by `d` -/
def joinSpec (d : String) : Val → EncRes
  | .list xs => .ok (.str (d.intercalate (xs.map fmtV)))
  | _ => .err .invalidType

/-- `prefix:p` — every item rendered with `%v` and prefixed -/
def prefixSpec (p : String) : Val → EncRes
  | .list xs => .ok (.list (xs.map fun x => .str (p ++ fmtV x)))
  | _ => .err .invalidType

/-- one level of list nesting removed -/
def flattenItems : List Val → List Val
  | [] => []
  | .list inner :: rest => inner ++ flattenItems rest
  | x :: rest => x :: flattenItems rest

def flattenSpec : Val → EncRes
  | .list xs => .ok (.list (flattenItems xs))
  | _ => .err .invalidType

/-- the values of a map, in key order -/
def fieldValues : Fields → List Val
  | [] => []
  | (_, v) :: rest => v :: fieldValues rest

def valuesSpec : Val → EncRes
  | .map kvs => .ok (.list (fieldValues kvs))
  | _ => .err .invalidType

/-- one `key<d>value` item; an empty-string value gives the bare key -/
def tolistItem (d k : String) (v : Val) : Val :=
  if v = .str "" then .str k else .str (k ++ d ++ fmtV v)

/-- the items produced by one key: list values fan out -/
def tolistEntry (d k : String) : Val → List Val
  | .list items => items.map (tolistItem d k)
  | v => [tolistItem d k v]

def tolistFields (d : String) : Fields → List Val
  | [] => []
  | (k, v) :: rest => tolistEntry d k v ++ tolistFields d rest

/-- a list of maps: the concatenation; anything that is not a map is a type error -/
def tolistMaps (d : String) : List Val → Except Err (List Val)
  | [] => .ok []
  | .map kvs :: rest =>
    match tolistMaps d rest with
    | .ok l => .ok (tolistFields d kvs ++ l)
    | .error e => .error e
  | _ :: _ => .error .invalidType

def tolistSpec (d : String) : Val → EncRes
  | .map kvs => .ok (.list (tolistFields d kvs))
  | .list xs =>
    match tolistMaps d xs with
    | .ok l => .ok (.list l)
    | .error e => .err e
  | _ => .err .invalidType

/-- one step of the left fold of `$encode: [a, b, …]` -/
def encStep (acc : EncRes) (spec : Val) : EncRes :=
  match acc with
  | .ok v => encodeAny v spec
  | e => e

theorem flattenList_eq (xs : List Val) : flattenList xs = flattenItems xs := by
  induction xs with
  | nil => rfl
  | cons x xs ih =>
    cases x <;> simp [flattenList, flattenItems] at ih ⊢ <;> exact ih

theorem map_snd_eq (kvs : Fields) : kvs.map (·.2) = fieldValues kvs := by
  induction kvs with
  | nil => rfl
  | cons kv rest ih => obtain ⟨k, v⟩ := kv; simp [fieldValues, ih]

theorem toListValue_eq (d k : String) (v : Val) : toListValue k d v = tolistItem d k v := by
  simp [toListValue, tolistItem]

theorem toListMap_map (d : String) (kvs : Fields) :
    toListMap (.map kvs) d = .ok (tolistFields d kvs) := by
  simp only [toListMap, pure, Except.pure]
  congr 1
  induction kvs with
  | nil => rfl
  | cons kv rest ih =>
    obtain ⟨k, v⟩ := kv
    simp only [List.flatMap_cons, tolistFields, ih]
    congr 1
    cases v <;> simp [tolistEntry, toListValue_eq]

theorem toListMap_nonmap (d : String) (v : Val) (h : ∀ kvs, v ≠ .map kvs) :
    toListMap v d = .error .invalidType := by
  cases v <;> first | rfl | exact absurd rfl (h _)

theorem toListList_eq (d : String) (xs : List Val) : toListList xs d = tolistMaps d xs := by
  unfold toListList
  induction xs with
  | nil => rfl
  | cons x xs ih =>
    simp only [List.mapM_cons, bind_assoc, pure_bind] at ih ⊢
    cases x with
    | map kvs =>
      rw [toListMap_map]
      simp only [tolistMaps]
      cases h : tolistMaps d xs with
      | error e =>
        rw [h] at ih
        cases h2 : List.mapM (fun x => toListMap x d) xs with
        | error e2 => simp [h2, bind, Except.bind] at ih ⊢; exact ih
        | ok l2 => simp [h2, bind, Except.bind, pure, Except.pure] at ih
      | ok l =>
        rw [h] at ih
        cases h2 : List.mapM (fun x => toListMap x d) xs with
        | error e2 => simp [h2, bind, Except.bind] at ih
        | ok l2 =>
          simp [h2, bind, Except.bind, pure, Except.pure] at ih ⊢
          rw [ih]
    | _ => simp [tolistMaps, toListMap, bind, Except.bind, throw, throwThe, MonadExceptOf.throw]

/-! ## base64: an independent decoder and the round trip -/

/-- RFC 4648 Table 1, inverted, written from the character ranges (not from `b64Alphabet`). -/
def b64Idx (c : Char) : Option Nat :=
  let n := c.toNat
  if 65 ≤ n ∧ n ≤ 90 then some (n - 65)
  else if 97 ≤ n ∧ n ≤ 122 then some (n - 71)
  else if 48 ≤ n ∧ n ≤ 57 then some (n + 4)
  else if n = 43 then some 62
  else if n = 47 then some 63
  else none

/-- RFC 4648 §4 decoder (padding required, non-canonical padding bits rejected). -/
def b64DecodeChars : List Char → Option (List UInt8)
  | [] => some []
  | c0 :: c1 :: c2 :: c3 :: rest =>
    match b64Idx c0, b64Idx c1 with
    | some a, some b =>
      if c3 = '=' then
        if rest ≠ [] then none
        else if c2 = '=' then
          (if b % 16 = 0 then some [UInt8.ofNat (a * 4 + b / 16)] else none)
        else match b64Idx c2 with
          | some c =>
            if c % 4 = 0 then some [UInt8.ofNat (a * 4 + b / 16), UInt8.ofNat ((b % 16) * 16 + c / 4)]
            else none
          | none => none
      else match b64Idx c2, b64Idx c3, b64DecodeChars rest with
        | some c, some d, some tl =>
          some (UInt8.ofNat (a * 4 + b / 16) :: UInt8.ofNat ((b % 16) * 16 + c / 4)
            :: UInt8.ofNat ((c % 4) * 64 + d) :: tl)
        | _, _, _ => none
    | _, _ => none
  | _ => none

set_option maxRecDepth 100000 in
theorem b64Idx_table : ∀ n, n < 64 → b64Idx (b64Char n) = some n := by decide

theorem b64Char_mod (k : Nat) : b64Char k = b64Char (k % 64) := by
  simp [b64Char]

theorem b64Idx_b64Char (k : Nat) : b64Idx (b64Char k) = some (k % 64) := by
  rw [b64Char_mod]; exact b64Idx_table _ (Nat.mod_lt _ (by decide))

theorem b64Char_ne_pad (k : Nat) : b64Char k ≠ '=' := by
  intro h
  have := b64Idx_b64Char k
  rw [h] at this
  have h2 : b64Idx '=' = none := by decide
  rw [h2] at this; cases this

theorem ofNat_toNat (x : UInt8) (n : Nat) (h : n = x.toNat) : UInt8.ofNat n = x := by
  subst h; simp

theorem b64_roundtrip (bs : List UInt8) : b64DecodeChars (b64EncodeBytes bs) = some bs := by
  fun_induction b64EncodeBytes bs with
  | case1 a b c rest n ih =>
    have ha := a.toNat_lt; have hb := b.toNat_lt; have hc := c.toNat_lt
    simp only [b64DecodeChars, b64Idx_b64Char, b64Char_ne_pad, if_false, ih]
    congr 2
    · apply ofNat_toNat; omega
    · congr 1
      · apply ofNat_toNat; omega
      · congr 1; apply ofNat_toNat; omega
  | case2 a b n =>
    have ha := a.toNat_lt; have hb := b.toNat_lt
    have h4 : (n / 64) % 64 % 4 = 0 := by omega
    simp only [b64DecodeChars, b64Idx_b64Char, b64Char_ne_pad, if_false, if_true, ne_eq,
      not_true_eq_false, h4]
    congr 2
    · apply ofNat_toNat; omega
    · congr 1; apply ofNat_toNat; omega
  | case3 a n =>
    have ha := a.toNat_lt
    have h4 : (n / 4096) % 64 % 16 = 0 := by omega
    simp only [b64DecodeChars, b64Idx_b64Char, if_true, ne_eq, not_true_eq_false, if_false, h4]
    congr 2
    apply ofNat_toNat; omega
  | case4 => rfl

/-! ## `ByteArray.toList` (a well-founded loop) in terms of the underlying array -/

theorem byteArray_toList_loop (bs : ByteArray) (i : Nat) (r : List UInt8) :
    ByteArray.toList.loop bs i r = r.reverse ++ bs.data.toList.drop i := by
  fun_induction ByteArray.toList.loop bs i r with
  | case1 i r h ih =>
    rw [ih]
    have h' : i < bs.data.toList.length := by rw [Array.length_toList]; exact h
    rw [List.drop_eq_getElem_cons h']
    have h'' : i < bs.data.size := h
    simp only [ByteArray.get!, List.reverse_cons, List.append_assoc, List.singleton_append,
      Array.getElem_toList]
    rw [getElem!_pos bs.data i h'']
  | case2 i r h =>
    have : bs.data.toList.length ≤ i := by rw [Array.length_toList]; exact Nat.le_of_not_lt h
    simp [List.drop_eq_nil_of_le this]

theorem byteArray_toList (bs : ByteArray) : bs.toList = bs.data.toList := by
  simp [ByteArray.toList, byteArray_toList_loop]


/-! ## stack and `flags` helpers -/

theorem encStep_foldl_err (e : Err) (specs : List Val) :
    specs.foldl encStep (.err e) = .err e := by
  induction specs with
  | nil => rfl
  | cons s rest ih => simpa [List.foldl_cons, encStep] using ih

theorem encStep_foldl_codec (f : String) (v : Val) (specs : List Val) :
    specs.foldl encStep (.codec f v) = .codec f v := by
  induction specs with
  | nil => rfl
  | cons s rest ih => simpa [List.foldl_cons, encStep] using ih

/-- the `flags` branch of `encodeString`, with the argument parsing evaluated -/
theorem encodeString_flags (obj : Val) :
    encodeString obj "flags" =
      match (match obj with | .list xs => toListList xs "=" | o => toListMap o "=") with
      | .error e => .err e
      | .ok l => .ok (.list (l.map fun x => .str ("--" ++ fmtV x))) := by
  unfold encodeString
  rw [parts_flags]
  cases obj <;> rfl

/-- a command that takes no argument, given one (or more) -/
theorem parts_with_arg' (cmd rest : String) (h : ':' ∉ cmd.toList) :
    ∃ p ps, ((cmd ++ ":") ++ rest).splitOn ":" = cmd :: p :: ps := parts_with_arg cmd rest h

/-! ## SHA-256: kernel-evaluable form (the model's `for` loops over ranges are well-founded loops
    that `decide` cannot unfold; they are rewritten into `List.foldl`) -/


theorem forIn_range_id {β γ : Type} (f : Nat → β → β) (init : β) (a b : Nat) (k : β → γ) :
    (do let s ← forIn [a:b] init (fun i s => pure (ForInStep.yield (f i s))); pure (k s) : Id γ).run
      = k ((List.range' a (b - a)).foldl (fun s i => f i s) init) := by
  simp only [Std.Legacy.Range.forIn_eq_forIn_range', Std.Legacy.Range.size]
  rw [List.forIn_pure_yield_eq_foldl]
  have : (b - a + 1 - 1) / 1 = b - a := by simp
  rw [this]
  rfl

def schedStep (w : Array UInt32) (i : Nat) : Array UInt32 :=
  let w15 := w.getD (i - 15) 0
  let w2 := w.getD (i - 2) 0
  let s0 := rotr w15 7 ^^^ rotr w15 18 ^^^ (w15 >>> 3)
  let s1 := rotr w2 17 ^^^ rotr w2 19 ^^^ (w2 >>> 10)
  w.push (w.getD (i - 16) 0 + s0 + w.getD (i - 7) 0 + s1)

theorem sha256Schedule_eq (block : Array UInt32) :
    sha256Schedule block = (List.range' 16 48).foldl schedStep block :=
  forIn_range_id (fun i w => schedStep w i) block 16 64 id

abbrev ShaSt := UInt32 × UInt32 × UInt32 × UInt32 × UInt32 × UInt32 × UInt32 × UInt32

def compressStep (w : Array UInt32) (s : ShaSt) (i : Nat) : ShaSt :=
  let a := s.1; let b := s.2.1; let c := s.2.2.1; let d := s.2.2.2.1
  let e := s.2.2.2.2.1; let f := s.2.2.2.2.2.1; let g := s.2.2.2.2.2.2.1; let hh := s.2.2.2.2.2.2.2
  let s1 := rotr e 6 ^^^ rotr e 11 ^^^ rotr e 25
  let ch := (e &&& f) ^^^ ((~~~ e) &&& g)
  let t1 := hh + s1 + ch + sha256K.getD i 0 + w.getD i 0
  let s0 := rotr a 2 ^^^ rotr a 13 ^^^ rotr a 22
  let maj := (a &&& b) ^^^ (a &&& c) ^^^ (b &&& c)
  let t2 := s0 + maj
  ⟨t1 + t2, a, b, c, d + t1, e, f, g⟩

def compressFinish (h : Array UInt32) (s : ShaSt) : Array UInt32 :=
  #[h.getD 0 0 + s.1, h.getD 1 0 + s.2.1, h.getD 2 0 + s.2.2.1, h.getD 3 0 + s.2.2.2.1,
    h.getD 4 0 + s.2.2.2.2.1, h.getD 5 0 + s.2.2.2.2.2.1, h.getD 6 0 + s.2.2.2.2.2.2.1,
    h.getD 7 0 + s.2.2.2.2.2.2.2]

theorem sha256Compress_eq (h block : Array UInt32) :
    sha256Compress h block =
      compressFinish h ((List.range' 0 64).foldl (compressStep (sha256Schedule block))
        ⟨h.getD 0 0, h.getD 1 0, h.getD 2 0, h.getD 3 0, h.getD 4 0, h.getD 5 0, h.getD 6 0, h.getD 7 0⟩) :=
  forIn_range_id (fun i s => compressStep (sha256Schedule block) s i)
    ⟨h.getD 0 0, h.getD 1 0, h.getD 2 0, h.getD 3 0, h.getD 4 0, h.getD 5 0, h.getD 6 0, h.getD 7 0⟩ 0 64 (compressFinish h)

/-- kernel-evaluable form of `sha256Compress` (folds instead of `for` loops) -/
def sha256Compress' (h block : Array UInt32) : Array UInt32 :=
  compressFinish h ((List.range' 0 64).foldl (compressStep ((List.range' 16 48).foldl schedStep block))
    ⟨h.getD 0 0, h.getD 1 0, h.getD 2 0, h.getD 3 0, h.getD 4 0, h.getD 5 0, h.getD 6 0, h.getD 7 0⟩)

theorem sha256Compress_eq' : sha256Compress = sha256Compress' := by
  funext h block
  rw [sha256Compress_eq, sha256Schedule_eq]; rfl

/-- `sha256Hex` on the UTF-8 bytes, in kernel-evaluable form -/
def sha256HexBytes (bytes : List UInt8) : String :=
  let ws := bytesToWords (sha256Pad bytes)
  let h := (chunks16 ws (ws.length + 1)).foldl sha256Compress' sha256Init
  String.ofList (h.toList.flatMap hexWord)

theorem sha256Hex_eq (s : String) : sha256Hex s = sha256HexBytes s.toUTF8.data.toList := by
  simp only [sha256Hex, sha256HexBytes, sha256Compress_eq', byteArray_toList]


end Bkl
