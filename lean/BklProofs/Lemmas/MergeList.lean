/-
  BklProofs.Lemmas.MergeList — helper lemmas about the list half of `merge`
  (`mergeListList`, `mergeEntries`, `popListMapBool`).
-/
import BklProofs.Lemmas.Merge
namespace Bkl

/-! ## Except plumbing -/

theorem R_bind_ok {α β : Type} (a : α) (f : α → R β) : ((Except.ok a : R α) >>= f) = f a := rfl
theorem R_bind_error {α β : Type} (e : Err) (f : α → R β) :
    ((Except.error e : R α) >>= f) = .error e := rfl
theorem R_pure {α : Type} (a : α) : (pure a : R α) = .ok a := rfl
theorem R_throw {α : Type} (e : Err) : (throw e : R α) = .error e := rfl
theorem R_map_ok {α β : Type} (a : α) (f : α → β) : (f <$> (Except.ok a : R α)) = .ok (f a) := rfl
theorem R_map_error {α β : Type} (e : Err) (f : α → β) :
    (f <$> (Except.error e : R α)) = .error e := rfl

/-! ## `mapM` in `R` -/

theorem mapM_nil {α β : Type} (f : α → R β) : List.mapM f [] = .ok [] := by
  simp [List.mapM_nil, R_pure]

theorem mapM_cons {α β : Type} (f : α → R β) (a : α) (l : List α) :
    List.mapM f (a :: l) =
      (match f a with
       | .error e => .error e
       | .ok b => match List.mapM f l with
         | .error e => .error e
         | .ok bs => .ok (b :: bs)) := by
  rw [List.mapM_cons]
  cases f a with
  | error e => rfl
  | ok b =>
    rw [R_bind_ok]
    cases List.mapM f l <;> rfl

/-- `mapM` with a function that is the identity on every element of the list. -/
theorem mapM_id_of_forall {α : Type} (f : α → R α) (l : List α) (h : ∀ x ∈ l, f x = .ok x) :
    List.mapM f l = .ok l := by
  induction l with
  | nil => exact mapM_nil f
  | cons a tl ih =>
    rw [mapM_cons, h a List.mem_cons_self, ih (fun x hx => h x (List.mem_cons_of_mem _ hx))]

theorem mapM_forall {α β : Type} (f : α → R β) (P : β → Prop) {l : List α} {r : List β}
    (h : List.mapM f l = .ok r) (hp : ∀ x ∈ l, ∀ y, f x = .ok y → P y) : ∀ y ∈ r, P y := by
  induction l generalizing r with
  | nil => rw [mapM_nil] at h; cases h; simp
  | cons a tl ih =>
    rw [mapM_cons] at h
    split at h
    · cases h
    · rename_i b hb
      split at h
      · cases h
      · rename_i bs hbs
        cases h
        intro y hy
        rcases List.mem_cons.1 hy with rfl | hy
        · exact hp a List.mem_cons_self _ hb
        · exact ih hbs (fun x hx => hp x (List.mem_cons_of_mem _ hx)) y hy

/-! ## `popListMapBool` -/

/-- entry is a map with `k: b` -/
def isMarker (k : String) (b : Bool) (x : Val) : Bool :=
  match x with
  | .map m => fhasBool m k b
  | _ => false

/-- the fold step of `popListMapBool` -/
def popStep (k : String) (b : Bool) (acc : List Val) (x : Val) : R (List Val) :=
  match x with
  | .map m =>
    if fhasBool m k b then
      if (fdel m k).length > 0 then throw Err.extraKeys else pure acc
    else pure (acc ++ [x])
  | _ => pure (acc ++ [x])

theorem hasListMapBool_eq (l : List Val) (k : String) (b : Bool) :
    hasListMapBool l k b = l.any (isMarker k b) := rfl

theorem popListMapBool_eq (l : List Val) (k : String) (b : Bool) :
    popListMapBool l k b =
      if hasListMapBool l k b = false then .ok (false, l)
      else (match l.foldlM (popStep k b) [] with
            | .error e => .error e
            | .ok rest => .ok (true, rest)) := by
  unfold popListMapBool
  cases hh : hasListMapBool l k b with
  | false => rfl
  | true =>
    simp only [Bool.not_true, Bool.false_eq_true, if_false]
    show (List.foldlM (popStep k b) [] l >>= fun rest => pure (true, rest)) = _
    cases List.foldlM (popStep k b) [] l <;> rfl

theorem popStep_plain {k : String} {b : Bool} {x : Val} (acc : List Val)
    (h : isMarker k b x = false) : popStep k b acc x = .ok (acc ++ [x]) := by
  unfold popStep
  split
  · rename_i m
    simp only [isMarker] at h
    simp [h, R_pure]
  · rfl

theorem popStep_marker_ok {k : String} {b : Bool} {m : Fields} (acc : List Val)
    (h : fhasBool m k b = true) (h0 : (fdel m k).length = 0) :
    popStep k b acc (.map m) = .ok acc := by
  simp [popStep, h, h0, R_pure]

theorem popStep_marker_extra {k : String} {b : Bool} {m : Fields} (acc : List Val)
    (h : fhasBool m k b = true) (h0 : (fdel m k).length > 0) :
    popStep k b acc (.map m) = .error .extraKeys := by
  simp only [popStep, h, h0, if_true]; rfl

theorem foldlM_nil {α β : Type} (f : β → α → R β) (b : β) : List.foldlM f b [] = .ok b := rfl

theorem foldlM_cons {α β : Type} (f : β → α → R β) (b : β) (a : α) (l : List α) :
    List.foldlM f b (a :: l) =
      (match f b a with
       | .error e => .error e
       | .ok b' => List.foldlM f b' l) := by
  rw [List.foldlM_cons]
  cases f b a <;> rfl

theorem foldlM_popStep_plain {k : String} {b : Bool} (l acc : List Val)
    (h : ∀ x ∈ l, isMarker k b x = false) :
    List.foldlM (popStep k b) acc l = .ok (acc ++ l) := by
  induction l generalizing acc with
  | nil => simp; rfl
  | cons a tl ih =>
    rw [foldlM_cons, popStep_plain acc (h a List.mem_cons_self)]
    simp only []
    rw [ih _ (fun x hx => h x (List.mem_cons_of_mem _ hx))]
    simp

theorem foldlM_popStep_append {k : String} {b : Bool} (l1 l2 acc : List Val) :
    List.foldlM (popStep k b) acc (l1 ++ l2) =
      (match List.foldlM (popStep k b) acc l1 with
       | .error e => .error e
       | .ok acc' => List.foldlM (popStep k b) acc' l2) := by
  induction l1 generalizing acc with
  | nil => rfl
  | cons a tl ih =>
    rw [List.cons_append, foldlM_cons, foldlM_cons]
    cases popStep k b acc a with
    | error e => rfl
    | ok acc' => exact ih acc'

/-- A marker entry that carries other keys makes the whole fold fail with `extraKeys`. -/
theorem foldlM_popStep_extra {k : String} {b : Bool} {l : List Val} (acc : List Val) {m : Fields}
    (hm : .map m ∈ l) (h : fhasBool m k b = true) (h0 : (fdel m k).length > 0) :
    List.foldlM (popStep k b) acc l = .error .extraKeys := by
  induction l generalizing acc with
  | nil => simp at hm
  | cons a tl ih =>
    rw [foldlM_cons]
    rcases List.mem_cons.1 hm with rfl | hm
    · rw [popStep_marker_extra acc h h0]
    · cases hp : popStep k b acc a with
      | ok acc' => exact ih acc' hm
      | error e =>
        -- the only error `popStep` can produce is `extraKeys`
        unfold popStep at hp
        split at hp
        · split at hp
          · split at hp
            · cases hp; rfl
            · cases hp
          · cases hp
        · cases hp

/-- the survivors of the fold come from the accumulator or the list -/
theorem foldlM_popStep_sub {k : String} {b : Bool} {l acc r : List Val}
    (h : List.foldlM (popStep k b) acc l = .ok r) : ∀ y ∈ r, y ∈ acc ∨ y ∈ l := by
  induction l generalizing acc with
  | nil => rw [foldlM_nil] at h; cases h; intro y hy; exact Or.inl hy
  | cons a tl ih =>
    rw [foldlM_cons] at h
    split at h
    · cases h
    · rename_i acc' hp
      intro y hy
      have hacc' : ∀ z ∈ acc', z ∈ acc ∨ z = a := by
        unfold popStep at hp
        split at hp
        · split at hp
          · split at hp
            · cases hp
            · cases hp; intro z hz; exact Or.inl hz
          · cases hp; intro z hz
            rcases List.mem_append.1 hz with hz | hz
            · exact Or.inl hz
            · exact Or.inr (by simpa using hz)
        · cases hp; intro z hz
          rcases List.mem_append.1 hz with hz | hz
          · exact Or.inl hz
          · exact Or.inr (by simpa using hz)
      rcases ih h y hy with hy | hy
      · rcases hacc' y hy with hy | rfl
        · exact Or.inl hy
        · exact Or.inr List.mem_cons_self
      · exact Or.inr (List.mem_cons_of_mem _ hy)

theorem popListMapBool_sub {l : List Val} {k : String} {b f : Bool} {r : List Val}
    (h : popListMapBool l k b = .ok (f, r)) : ∀ y ∈ r, y ∈ l := by
  rw [popListMapBool_eq] at h
  split at h
  · cases h; intro y hy; exact hy
  · split at h
    · cases h
    · rename_i rest hf
      cases h
      intro y hy
      rcases foldlM_popStep_sub hf y hy with h | h
      · simp at h
      · exact h

/-! ## plain entries -/

theorem plainEntry_not_marker {v : Val} (h : plainEntry v = true) :
    isMarker "$replace" true v = false := by
  cases v <;> simp_all [plainEntry, isMarker]

theorem plainEntry_ne_replace {v : Val} (h : plainEntry v = true) :
    (v == Val.str "$replace") = false := by
  cases v with
  | str s => simpa [plainEntry] using h
  | _ => rfl

theorem all_plain_any_replace {s : List Val} (h : s.all plainEntry = true) :
    s.any (fun x => x == Val.str "$replace") = false := by
  rw [List.any_eq_false]
  intro x hx
  have := plainEntry_ne_replace (List.all_eq_true.1 h x hx)
  simp [this]

theorem all_plain_filter_replace {s : List Val} (h : s.all plainEntry = true) :
    s.filter (fun x => !(x == Val.str "$replace")) = s := by
  rw [List.filter_eq_self]
  intro x hx
  simp [plainEntry_ne_replace (List.all_eq_true.1 h x hx)]

theorem all_plain_no_marker {s : List Val} (h : s.all plainEntry = true) :
    hasListMapBool s "$replace" true = false := by
  rw [hasListMapBool_eq, List.any_eq_false]
  intro x hx
  simp [plainEntry_not_marker (List.all_eq_true.1 h x hx)]

/-! ## `mergeEntries`, one step at a time -/

theorem mergeEntries_nil (d : List Val) : mergeEntries d [] = .ok d := by
  rw [mergeEntries]; rfl

theorem mergeEntries_nonmap {v : Val} (d rest : List Val) (h : v.isMap = false) :
    mergeEntries d (v :: rest) = mergeEntries (d ++ [v]) rest := by
  cases v with
  | map kvs => simp [Val.isMap] at h
  | _ => rw [mergeEntries]; intro kvs hk; cases hk

theorem mergeEntries_map_plain {kvs : Fields} (d rest : List Val)
    (h1 : fget kvs "$delete" = none) (h2 : fget kvs "$match" = none) :
    mergeEntries d (.map kvs :: rest) = mergeEntries (d ++ [.map kvs]) rest := by
  rw [mergeEntries]
  simp only [h1, h2]

theorem mergeEntries_plain_cons {v : Val} (d rest : List Val) (h : plainEntry v = true) :
    mergeEntries d (v :: rest) = mergeEntries (d ++ [v]) rest := by
  cases v with
  | map kvs =>
    simp only [plainEntry, Bool.and_eq_true, Bool.not_eq_true', fhas_eq_false_iff] at h
    exact mergeEntries_map_plain d rest h.1.1 h.1.2
  | _ => exact mergeEntries_nonmap d rest rfl

theorem mergeEntries_plain_append {l : List Val} (d rest : List Val)
    (h : l.all plainEntry = true) :
    mergeEntries d (l ++ rest) = mergeEntries (d ++ l) rest := by
  induction l generalizing d with
  | nil => simp
  | cons a tl ih =>
    simp only [List.all_cons, Bool.and_eq_true] at h
    rw [List.cons_append, mergeEntries_plain_cons d _ h.1, ih _ h.2]
    simp

theorem mergeEntries_delete_extra {kvs : Fields} {del : Val} (d rest : List Val)
    (h1 : fget kvs "$delete" = some del) (h2 : (fdel kvs "$delete").length > 0) :
    mergeEntries d (.map kvs :: rest) = .error .extraKeys := by
  rw [mergeEntries]
  simp only [h1, h2, if_true]; rfl

theorem mergeEntries_delete {kvs : Fields} {del : Val} (d rest : List Val)
    (h1 : fget kvs "$delete" = some del) (h2 : (fdel kvs "$delete").length = 0) :
    mergeEntries d (.map kvs :: rest) =
      (if d.any (fun v => matchV v del) then
         mergeEntries (d.filter (fun v => !matchV v del)) rest
       else .error .uselessOverride) := by
  rw [mergeEntries]
  simp only [h1, h2, Nat.lt_irrefl, gt_iff_lt, if_false, mergeListDelete]
  split
  · rfl
  · rfl

theorem mergeEntries_match_value_extra {kvs : Fields} {m v2 : Val} (d rest : List Val)
    (h1 : fget kvs "$delete" = none) (h2 : fget kvs "$match" = some m)
    (h3 : fget (fdel kvs "$match") "$value" = some v2)
    (h4 : (fdel (fdel kvs "$match") "$value").length > 0) :
    mergeEntries d (.map kvs :: rest) = .error .extraKeys := by
  rw [mergeEntries]
  simp only [h1, h2]
  split
  · rename_i v2' hv'
    simp only [h4, if_true]; rfl
  · rename_i hv'
    rw [h3] at hv'; cases hv'

/-- the `$match` step, with the update value `upd` (either `$value` or the rest of the entry) -/
def matchStep (d : List Val) (m upd : Val) (rest : List Val) : R (List Val) :=
  match d.mapM (fun e => if matchV e m then merge e upd else pure e) with
  | .error e => .error e
  | .ok d' => if d.any (fun e => matchV e m) then mergeEntries d' rest else .error .noMatchFound

theorem matchStep_eq (d : List Val) (m upd : Val) (rest : List Val) :
    (do
      let d' ← d.mapM (fun e => if matchV e m then merge e upd else pure e)
      if !(d.any (fun e => matchV e m)) then throw Err.noMatchFound
      mergeEntries d' rest : R (List Val)) = matchStep d m upd rest := by
  unfold matchStep
  show (List.mapM (fun e => if matchV e m then merge e upd else pure e) d >>= _) = _
  cases List.mapM (fun e => if matchV e m then merge e upd else pure e) d with
  | error e => rfl
  | ok d' =>
    rw [R_bind_ok]
    cases d.any (fun e => matchV e m) <;> rfl

theorem mergeEntries_match_value {kvs : Fields} {m v2 : Val} (d rest : List Val)
    (h1 : fget kvs "$delete" = none) (h2 : fget kvs "$match" = some m)
    (h3 : fget (fdel kvs "$match") "$value" = some v2)
    (h4 : (fdel (fdel kvs "$match") "$value").length = 0) :
    mergeEntries d (.map kvs :: rest) = matchStep d m v2 rest := by
  rw [mergeEntries]
  simp only [h1, h2]
  split
  · rename_i v2' hv'
    rw [h3] at hv'; cases hv'
    simp only [h4, Nat.lt_irrefl, gt_iff_lt, if_false]
    exact matchStep_eq d m v2 rest
  · rename_i hv'
    rw [h3] at hv'; cases hv'

theorem mergeEntries_match_novalue {kvs : Fields} {m : Val} (d rest : List Val)
    (h1 : fget kvs "$delete" = none) (h2 : fget kvs "$match" = some m)
    (h3 : fget (fdel kvs "$match") "$value" = none) :
    mergeEntries d (.map kvs :: rest) = matchStep d m (.map (fdel kvs "$match")) rest := by
  rw [mergeEntries]
  simp only [h1, h2]
  split
  · rename_i v2' hv'
    rw [h3] at hv'; cases hv'
  · exact matchStep_eq d m _ rest

/-! ## `mergeListList` -/

theorem mergeListList_replace_string (d : List Val) {s : List Val}
    (h : s.any (fun x => x == Val.str "$replace") = true) :
    mergeListList d s = .ok (.list (s.filter (fun x => !(x == Val.str "$replace")))) := by
  rw [mergeListList]
  simp only [popListString, h, if_true]; rfl

/-- no `"$replace"` string in the patch: the `{$replace: true}` marker is looked for next -/
theorem mergeListList_no_string (d : List Val) {s : List Val}
    (h : s.any (fun x => x == Val.str "$replace") = false) :
    mergeListList d s =
      (match popListMapBool s "$replace" true with
       | .error e => .error e
       | .ok (rep2, s2) =>
         if rep2 then .ok (.list s2)
         else match mergeEntries (dropRequired d) s with
           | .error e => .error e
           | .ok r => .ok (.list r)) := by
  rw [mergeListList]
  simp only [popListString, h, Bool.false_eq_true, if_false]
  show (popListMapBool s "$replace" true >>= _) = _
  cases popListMapBool s "$replace" true with
  | error e => rfl
  | ok p =>
    obtain ⟨rep2, s2⟩ := p
    rw [R_bind_ok]
    cases rep2 with
    | true => rfl
    | false =>
      simp only [Bool.false_eq_true, if_false]
      show (mergeEntries (dropRequired d) s >>= _) = _
      cases mergeEntries (dropRequired d) s <;> rfl

/-- no replace directive of either form: the patch entries are applied one by one -/
theorem mergeListList_no_replace (d : List Val) {s : List Val}
    (h1 : s.any (fun x => x == Val.str "$replace") = false)
    (h2 : hasListMapBool s "$replace" true = false) :
    mergeListList d s =
      (match mergeEntries (dropRequired d) s with
       | .error e => .error e
       | .ok r => .ok (.list r)) := by
  rw [mergeListList_no_string d h1, popListMapBool_eq, if_pos h2]
  simp

/-! ## `extraKeys` for a directive entry inside a longer patch -/

/-- shared shape of the two `extraKeys` results below -/
theorem list_entry_extra (d pre post : List Val) (kvs : Fields)
    (hpre : pre.all plainEntry = true)
    (hpost1 : Val.str "$replace" ∉ post) (hpost2 : hasListMapBool post "$replace" true = false)
    (hE : ∀ d', mergeEntries d' (.map kvs :: post) = .error .extraKeys)
    (hM : fhasBool kvs "$replace" true = true → (fdel kvs "$replace").length > 0) :
    merge (.list d) (.list (pre ++ Val.map kvs :: post)) = .error .extraKeys := by
  have hany : (pre ++ Val.map kvs :: post).any (fun x => x == Val.str "$replace") = false := by
    rw [List.any_append, all_plain_any_replace hpre, List.any_cons, Bool.false_or]
    have : post.any (fun x => x == Val.str "$replace") = false := by
      rw [List.any_eq_false]
      intro x hx hb
      exact hpost1 ((eq_of_beq hb) ▸ hx)
    rw [this]; rfl
  rw [merge_list_list]
  cases hmk : fhasBool kvs "$replace" true with
  | true =>
    have hhas : hasListMapBool (pre ++ Val.map kvs :: post) "$replace" true = true := by
      rw [hasListMapBool_eq, List.any_append, List.any_cons]
      simp [isMarker, hmk]
    rw [mergeListList_no_string d hany, popListMapBool_eq, hhas,
      foldlM_popStep_extra [] (m := kvs) (by simp) hmk (hM hmk)]
    rfl
  | false =>
    have hhas : hasListMapBool (pre ++ Val.map kvs :: post) "$replace" true = false := by
      rw [hasListMapBool_eq, List.any_append, List.any_cons, ← hasListMapBool_eq,
        ← hasListMapBool_eq, all_plain_no_marker hpre, hpost2]
      simp [isMarker, hmk]
    rw [mergeListList_no_replace d hany hhas, mergeEntries_plain_append _ _ hpre, hE]

theorem length_pos_of_fget {m : Fields} {k : String} {v : Val} (h : fget m k = some v) :
    m.length > 0 := by
  cases m with
  | nil => simp [fget] at h
  | cons a tl => simp

end Bkl
