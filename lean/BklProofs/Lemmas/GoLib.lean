/-
  Lemmas about the Go primitives of Bkl/GoLib.lean, used by the translation-equivalence theorems
  (BklProofs/Trans*.lean).
-/
import Bkl.GoLib
namespace Bkl
namespace Go

mutual
/-- nesting depth: scalars 0, a container one more than its deepest entry -/
def depth : Val → Nat
  | .list xs => depthList xs + 1
  | .map kvs => depthFields kvs + 1
  | _ => 0
def depthList : List Val → Nat
  | [] => 0
  | x :: xs => max (depth x) (depthList xs)
def depthFields : Fields → Nat
  | [] => 0
  | (_, v) :: rest => max (depth v) (depthFields rest)
end

@[simp] theorem forRange_nil {α σ ρ : Type} (s : σ) (body : α → σ → G (Loop σ ρ)) :
    forRange ([] : List α) s body = .ok (.inl s) := rfl

theorem forRange_cons_error {α σ ρ : Type} {x : α} {xs : List α} {s : σ} {body : α → σ → G (Loop σ ρ)} {e : GErr}
    (h : body x s = .error e) : forRange (x :: xs) s body = .error e := by
  simp only [forRange, h]

theorem forRange_cons_next {α σ ρ : Type} {x : α} {xs : List α} {s s' : σ} {body : α → σ → G (Loop σ ρ)}
    (h : body x s = .ok (.next s')) : forRange (x :: xs) s body = forRange xs s' body := by
  simp only [forRange, h]

theorem forRange_cons_brk {α σ ρ : Type} {x : α} {xs : List α} {s s' : σ} {body : α → σ → G (Loop σ ρ)}
    (h : body x s = .ok (.brk s')) : forRange (x :: xs) s body = .ok (.inl s') := by
  simp only [forRange, h]

theorem forRange_cons_ret {α σ ρ : Type} {x : α} {xs : List α} {s : σ} {r : ρ} {body : α → σ → G (Loop σ ρ)}
    (h : body x s = .ok (.ret r)) : forRange (x :: xs) s body = .ok (.inr r) := by
  simp only [forRange, h]

theorem depth_le_of_mem_list {x : Val} {xs : List Val} (h : x ∈ xs) : depth x ≤ depthList xs := by
  induction xs with
  | nil => cases h
  | cons y ys ih =>
    simp only [depthList]
    rcases List.mem_cons.mp h with rfl | h'
    · omega
    · have := ih h'; omega

theorem depth_le_of_mem_fields {k : String} {v : Val} {kvs : Fields} (h : (k, v) ∈ kvs) :
    depth v ≤ depthFields kvs := by
  induction kvs with
  | nil => cases h
  | cons y ys ih =>
    obtain ⟨k', v'⟩ := y
    simp only [depthFields]
    rcases List.mem_cons.mp h with h' | h'
    · cases h'; omega
    · have := ih h'; omega

end Go
end Bkl
