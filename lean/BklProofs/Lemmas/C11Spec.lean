/-
  Helper lemmas for the specification part of C11 (prefix `os_`): rewriting forms of
  `findOutputs` / `filterOutput` (one `match` instead of a `do` block), the fold of
  `popListMapBool` in closed form, and the decomposition of `emit` / `outputDocuments` into
  per-document pieces.  Nothing here mentions the specification functions of the property file.
-/
import Bkl
import BklProofs.Lemmas.Output
import BklProofs.Lemmas.OutputSel
import BklProofs.Lemmas.MergeList
namespace Bkl

/-! ## `findOutputs` as equations -/

theorem os_findOutputs_map_eq (kvs : Fields) :
    findOutputs (.map kvs) =
      match findOutputsFields kvs (fhasBool kvs "$output" true) with
      | .error e => .error e
      | .ok (ret, o) =>
        .ok (.map ret, if fhasBool kvs "$output" true then .map ret :: o else o) := by
  simp only [findOutputs]
  cases findOutputsFields kvs (fhasBool kvs "$output" true) with
  | error e => rfl
  | ok p => rfl

theorem os_findOutputs_list_eq (xs : List Val) :
    findOutputs (.list xs) =
      match findOutputsList xs (hasListMapBool xs "$output" true) with
      | .error e => .error e
      | .ok (ret, o) =>
        .ok (.list ret, if hasListMapBool xs "$output" true then o ++ [.list ret] else o) := by
  simp only [findOutputs]
  cases findOutputsList xs (hasListMapBool xs "$output" true) with
  | error e => rfl
  | ok p => rfl

theorem os_findOutputsFields_skip_eq (k : String) (v : Val) (rest : Fields) (skip : Bool)
    (h : skip = true ∧ k = "$output") :
    findOutputsFields ((k, v) :: rest) skip = findOutputsFields rest skip := by
  simp only [findOutputsFields, h.1, h.2, Bool.true_and, beq_self_eq_true, if_true]

theorem os_findOutputsFields_step_eq (k : String) (v : Val) (rest : Fields) (skip : Bool)
    (h : ¬(skip = true ∧ k = "$output")) :
    findOutputsFields ((k, v) :: rest) skip =
      match findOutputs v with
      | .error e => .error e
      | .ok (v', o1) =>
        match findOutputsFields rest skip with
        | .error e => .error e
        | .ok (rest', o2) => .ok ((k, v') :: rest', o1 ++ o2) := by
  have hc : (skip && k == "$output") = false := by
    cases skip with
    | false => rfl
    | true =>
      simp only [Bool.true_and, beq_eq_false_iff_ne]
      exact fun hk => h ⟨rfl, hk⟩
  simp only [findOutputsFields, hc, Bool.false_eq_true, if_false]
  cases findOutputs v with
  | error e => rfl
  | ok p =>
    cases findOutputsFields rest skip with
    | error e => rfl
    | ok q => rfl

/-- marker entry of a popped list: checked for extra keys, then dropped -/
theorem os_findOutputsList_marker_eq (m : Fields) (xs : List Val)
    (h : fhasBool m "$output" true = true) :
    findOutputsList (.map m :: xs) true =
      if (fdel m "$output").length > 0 then .error .extraKeys else findOutputsList xs true := by
  simp only [findOutputsList, h, Bool.and_self, if_true]
  rfl

theorem os_findOutputsList_step_eq (x : Val) (xs : List Val) (skip : Bool)
    (h : ¬(skip = true ∧ o_isMarker "$output" true x = true)) :
    findOutputsList (x :: xs) skip =
      match findOutputs x with
      | .error e => .error e
      | .ok (x', o1) =>
        match findOutputsList xs skip with
        | .error e => .error e
        | .ok (xs', o2) => .ok (x' :: xs', o1 ++ o2) := by
  have hc : (skip && o_isMarker "$output" true x) = false := by
    cases skip with
    | false => rfl
    | true =>
      simp only [Bool.true_and]
      cases hm : o_isMarker "$output" true x with
      | false => rfl
      | true => exact absurd ⟨rfl, hm⟩ h
  rw [findOutputsList_cons_eq]
  simp only [hc, Bool.false_eq_true, if_false]
  cases findOutputs x with
  | error e => rfl
  | ok p =>
    cases findOutputsList xs skip with
    | error e => rfl
    | ok q => rfl

/-- in a popped list, one more clean `{$output: true}` entry changes nothing -/
theorem os_findOutputsList_insert_marker (m : Fields) (hm : fhasBool m "$output" true = true)
    (hl : (fdel m "$output").length = 0) : ∀ (a b : List Val),
    findOutputsList (a ++ .map m :: b) true = findOutputsList (a ++ b) true
  | [], b => by
    rw [List.nil_append, List.nil_append, os_findOutputsList_marker_eq m b hm]
    simp [hl]
  | x :: a, b => by
    rw [List.cons_append, List.cons_append, findOutputsList_cons_eq, findOutputsList_cons_eq,
      os_findOutputsList_insert_marker m hm hl a b]

theorem os_hasListMapBool_append (a b : List Val) (k : String) (v : Bool) :
    hasListMapBool (a ++ b) k v = (hasListMapBool a k v || hasListMapBool b k v) := by
  simp only [hasListMapBool, List.any_append]

/-! ## `popListMapBool` in closed form -/

/-- a `{k: b}` marker entry that carries other keys -/
def os_isExtra (k : String) (b : Bool) : Val → Bool
  | .map m => fhasBool m k b && decide ((fdel m k).length > 0)
  | _ => false

theorem os_foldlM_popStep (k : String) (b : Bool) : ∀ (l acc : List Val),
    List.foldlM (popStep k b) acc l =
      if l.any (os_isExtra k b) then .error .extraKeys
      else .ok (acc ++ l.filter (fun x => !isMarker k b x))
  | [], acc => by simp [R_pure]
  | x :: l, acc => by
    rw [foldlM_cons]
    cases hm : isMarker k b x with
    | false =>
      have hx : os_isExtra k b x = false := by
        cases x with
        | map m => simp only [isMarker] at hm; simp [os_isExtra, hm]
        | _ => rfl
      rw [popStep_plain acc hm]
      simp only [os_foldlM_popStep k b l, List.any_cons, hx, Bool.false_or, List.filter_cons, hm,
        Bool.not_false, if_true, List.append_assoc, List.singleton_append]
    | true =>
      cases x with
      | map m =>
        simp only [isMarker] at hm
        by_cases hl : (fdel m k).length > 0
        · rw [popStep_marker_extra acc hm hl]
          simp [os_isExtra, hm, hl]
        · rw [popStep_marker_ok acc hm (by omega)]
          simp only [os_foldlM_popStep k b l, List.any_cons, os_isExtra, hm, hl, decide_false,
            Bool.and_false, Bool.false_or, List.filter_cons, isMarker, Bool.not_true,
            Bool.false_eq_true, if_false]
      | _ => cases hm

theorem os_popListMapBool_eq (l : List Val) (k : String) (b : Bool) :
    popListMapBool l k b =
      if hasListMapBool l k b = false then .ok (false, l)
      else if l.any (os_isExtra k b) then .error .extraKeys
      else .ok (true, l.filter (fun x => !isMarker k b x)) := by
  rw [popListMapBool_eq, os_foldlM_popStep]
  split
  · rfl
  · by_cases hx : l.any (os_isExtra k b) = true
    · simp only [hx, if_true]
    · simp only [hx, Bool.false_eq_true, if_false, List.nil_append]

/-! ## `filterOutput` as equations -/

theorem os_filterOutput_map_eq (kvs : Fields) :
    filterOutput (.map kvs) =
      if fhasBool kvs "$output" false then .ok none
      else match filterOutputFields kvs with
        | .error e => .error e
        | .ok fs => .ok (some (.map fs)) := by
  simp only [filterOutput]
  split
  · rfl
  · cases filterOutputFields kvs <;> rfl

theorem os_filterOutput_list_eq (xs : List Val) :
    filterOutput (.list xs) =
      if hasListMapBool xs "$output" false then
        (if xs.any (os_isExtra "$output" false) then .error .extraKeys else .ok none)
      else match filterOutputList xs with
        | .error e => .error e
        | .ok rs => .ok (some (.list rs)) := by
  simp only [filterOutput]
  split
  · rename_i hc
    rw [os_popListMapBool_eq]
    simp only [hc, Bool.true_eq_false, if_false]
    split <;> rfl
  · cases filterOutputList xs <;> rfl

theorem os_filterOutputFields_cons_eq (k : String) (v : Val) (rest : Fields) :
    filterOutputFields ((k, v) :: rest) =
      match filterOutput v with
      | .error e => .error e
      | .ok none => filterOutputFields rest
      | .ok (some v') =>
        match filterOutputFields rest with
        | .error e => .error e
        | .ok fs => .ok ((k, v') :: fs) := by
  simp only [filterOutputFields]
  cases filterOutput v with
  | error e => rfl
  | ok r =>
    cases r with
    | none => rfl
    | some v' =>
      simp only [bind, Except.bind]
      cases filterOutputFields rest <;> rfl

theorem os_filterOutputList_cons_eq (x : Val) (xs : List Val) :
    filterOutputList (x :: xs) =
      match filterOutput x with
      | .error e => .error e
      | .ok none => filterOutputList xs
      | .ok (some x') =>
        match filterOutputList xs with
        | .error e => .error e
        | .ok rs => .ok (x' :: rs) := by
  simp only [filterOutputList]
  cases filterOutput x with
  | error e => rfl
  | ok r =>
    cases r with
    | none => rfl
    | some x' =>
      simp only [bind, Except.bind]
      cases filterOutputList xs <;> rfl

/-! ## `emit`, one document at a time -/

theorem os_emitFinish_nil : emitFinish [] = .ok [] := rfl

theorem os_emitFinish_cons (v : Val) (vs : List Val) :
    emitFinish (v :: vs) =
      match filterOutput v with
      | .error e => .error e
      | .ok none => emitFinish vs
      | .ok (some v2) =>
        match validate v2 with
        | .error e => .error e
        | .ok _ =>
          match emitFinish vs with
          | .error e => .error e
          | .ok rest => .ok (finalize v2 :: rest) := by
  simp only [emitFinish]
  cases filterOutput v with
  | error e => rfl
  | ok r =>
    cases r with
    | none => rfl
    | some v2 =>
      simp only [bind, Except.bind]
      cases validate v2 with
      | error e => rfl
      | ok u =>
        simp only []
        cases emitFinish vs <;> rfl

/-- what the second loop returns: the kept documents, finalised, in order -/
theorem os_emitFinish_ok (vs outs : List Val) (h : emitFinish vs = .ok outs) :
    outs = vs.filterMap fun v =>
      match filterOutput v with
      | .ok (some v2) => some (finalize v2)
      | _ => none := by
  induction vs generalizing outs with
  | nil => cases h; rfl
  | cons v vs ih =>
    rw [os_emitFinish_cons] at h
    cases hf : filterOutput v with
    | error e => rw [hf] at h; cases h
    | ok r =>
      rw [hf] at h
      cases r with
      | none => simp only [List.filterMap_cons, hf]; exact ih outs h
      | some v2 =>
        simp only at h
        cases hv : validate v2 with
        | error e => rw [hv] at h; cases h
        | ok u =>
          rw [hv] at h
          simp only at h
          cases hr : emitFinish vs with
          | error e => rw [hr] at h; cases h
          | ok rest =>
            rw [hr] at h
            cases h
            simp only [List.filterMap_cons, hf, ← ih rest hr]

/-- … and when it succeeds: every document filters, and every kept one validates -/
theorem os_emitFinish_ok_iff (vs outs : List Val) :
    emitFinish vs = .ok outs ↔
      (∀ v ∈ vs, ∃ r, filterOutput v = .ok r ∧ ∀ v2, r = some v2 → validate v2 = .ok ()) ∧
      outs = vs.filterMap fun v =>
        match filterOutput v with
        | .ok (some v2) => some (finalize v2)
        | _ => none := by
  induction vs generalizing outs with
  | nil =>
    simp only [os_emitFinish_nil, Except.ok.injEq, List.not_mem_nil, false_imp_iff, implies_true,
      true_and, List.filterMap_nil]
    exact eq_comm
  | cons v vs ih =>
    rw [os_emitFinish_cons]
    simp only [List.mem_cons, forall_eq_or_imp, List.filterMap_cons]
    cases hf : filterOutput v with
    | error e => simp
    | ok r =>
      cases r with
      | none => simp [ih outs]
      | some v2 =>
        simp only [Except.ok.injEq, exists_eq_left', Option.some.injEq, forall_eq']
        cases hv : validate v2 with
        | error e => simp
        | ok u =>
          simp only [true_and]
          cases hr : emitFinish vs with
          | error e =>
            have := ih
            simp only [hr, reduceCtorEq, false_iff] at this
            constructor
            · intro h; cases h
            · rintro ⟨h1, h2⟩
              exact absurd ⟨h1, rfl⟩ (this _)
          | ok rest =>
            obtain ⟨h1, h2⟩ := (ih rest).1 hr
            simp only [Except.ok.injEq, ← h2]
            exact ⟨fun h => ⟨h1, h.symm⟩, fun h => h.2.symm⟩

/-- the second loop of `emit` on a concatenation -/
theorem os_emitFinish_append_ok (a b outs : List Val) :
    emitFinish (a ++ b) = .ok outs ↔
      ∃ o1 o2, emitFinish a = .ok o1 ∧ emitFinish b = .ok o2 ∧ outs = o1 ++ o2 := by
  constructor
  · intro h
    obtain ⟨h1, h2⟩ := (os_emitFinish_ok_iff _ _).1 h
    refine ⟨_, _, (os_emitFinish_ok_iff a _).2 ⟨fun v hv => h1 v (List.mem_append_left _ hv), rfl⟩,
      (os_emitFinish_ok_iff b _).2 ⟨fun v hv => h1 v (List.mem_append_right _ hv), rfl⟩, ?_⟩
    rw [h2, List.filterMap_append]
  · rintro ⟨o1, o2, h1, h2, rfl⟩
    obtain ⟨a1, a2⟩ := (os_emitFinish_ok_iff _ _).1 h1
    obtain ⟨b1, b2⟩ := (os_emitFinish_ok_iff _ _).1 h2
    refine (os_emitFinish_ok_iff _ _).2 ⟨?_, ?_⟩
    · intro v hv
      rcases List.mem_append.1 hv with hv | hv
      · exact a1 v hv
      · exact b1 v hv
    · rw [a2, b2, List.filterMap_append]

theorem os_emitSelect_single (d : Val) :
    emitSelect [d] =
      match findOutputs d with
      | .error e => .error e
      | .ok (obj, sel) => .ok (if sel.isEmpty then [obj] else sel) := by
  simp only [emitSelect]
  cases findOutputs d with
  | error e => rfl
  | ok p => simp [bind, Except.bind, pure, Except.pure]

theorem os_emitSelect_cons (d : Val) (ds : List Val) :
    emitSelect (d :: ds) =
      match emitSelect [d] with
      | .error e => .error e
      | .ok a =>
        match emitSelect ds with
        | .error e => .error e
        | .ok b => .ok (a ++ b) := by
  rw [os_emitSelect_single]
  simp only [emitSelect]
  cases findOutputs d with
  | error e => rfl
  | ok p =>
    simp only [bind, Except.bind, pure, Except.pure]
    cases emitSelect ds <;> rfl

theorem os_emit_eq (ds : List Val) :
    emit ds = match emitSelect ds with
      | .error e => .error e
      | .ok vs => emitFinish vs := by
  rw [emit_eq]; cases emitSelect ds <;> rfl

/-- `emit` on a stream of processed documents = per-document `emit`, concatenated in order -/
theorem os_emit_cons_ok (d : Val) (ds outs : List Val) :
    emit (d :: ds) = .ok outs ↔
      ∃ o1 o2, emit [d] = .ok o1 ∧ emit ds = .ok o2 ∧ outs = o1 ++ o2 := by
  rw [os_emit_eq, os_emit_eq [d], os_emit_eq ds, os_emitSelect_cons]
  cases h1 : emitSelect [d] with
  | error e => simp
  | ok a =>
    cases h2 : emitSelect ds with
    | error e => simp
    | ok b => exact os_emitFinish_append_ok a b outs

theorem os_emit_nil : emit [] = .ok [] := by rw [os_emit_eq]; rfl

theorem os_emit_ok_iff (ds outs : List Val) :
    emit ds = .ok outs ↔
      ∃ oss, ds.mapM (fun d => emit [d]) = .ok oss ∧ outs = oss.flatten := by
  induction ds generalizing outs with
  | nil =>
    rw [os_emit_nil, mapM_nil]
    constructor
    · intro h; cases h; exact ⟨[], rfl, rfl⟩
    · rintro ⟨oss, h, rfl⟩; cases h; rfl
  | cons d ds ih =>
    rw [os_emit_cons_ok, mapM_cons]
    constructor
    · rintro ⟨o1, o2, h1, h2, rfl⟩
      obtain ⟨oss, h3, rfl⟩ := (ih o2).1 h2
      exact ⟨o1 :: oss, by rw [h1, h3], rfl⟩
    · rintro ⟨oss, h, rfl⟩
      cases h1 : emit [d] with
      | error e => rw [h1] at h; cases h
      | ok o1 =>
        rw [h1] at h
        cases h3 : ds.mapM (fun d => emit [d]) with
        | error e => rw [h3] at h; cases h
        | ok os =>
          rw [h3] at h
          cases h
          exact ⟨o1, os.flatten, rfl, (ih _).2 ⟨os, h3, rfl⟩, rfl⟩

/-! ## lists -/

theorem os_nodup_map_cons (c : PathElem) (l : List (List PathElem)) (h : l.Nodup) :
    (l.map (c :: ·)).Nodup :=
  List.Pairwise.map _ (fun _ _ hab heq => hab (List.cons.inj heq).2) h

theorem os_filterMap_map_some {α β : Type} (f : α → Option β) (l : List α) (r : List β)
    (h : l.map f = r.map some) : l.filterMap f = r := by
  induction l generalizing r with
  | nil => cases r with
    | nil => rfl
    | cons _ _ => cases h
  | cons a l ih =>
    cases r with
    | nil => cases h
    | cons b r =>
      simp only [List.map_cons, List.cons.injEq] at h
      simp only [List.filterMap_cons, h.1, ih r h.2]

theorem os_filterMap_congr {α β : Type} (f g : α → Option β) (l : List α)
    (h : ∀ a ∈ l, f a = g a) : l.filterMap f = l.filterMap g := by
  induction l with
  | nil => rfl
  | cons a l ih =>
    simp only [List.filterMap_cons, h a List.mem_cons_self,
      ih (fun b hb => h b (List.mem_cons_of_mem _ hb))]

/-! ## `mapM` in `R` -/

/-- a successful `mapM` whose results are determined by a pure function is a `map` -/
theorem os_mapM_ok_map {α β : Type} (f : α → R β) (g : α → β) (l : List α) (r : List β)
    (hg : ∀ a ∈ l, ∀ b, f a = .ok b → b = g a) (h : l.mapM f = .ok r) : r = l.map g := by
  induction l generalizing r with
  | nil => rw [mapM_nil] at h; cases h; rfl
  | cons a l ih =>
    rw [mapM_cons] at h
    cases h1 : f a with
    | error e => rw [h1] at h; cases h
    | ok b =>
      rw [h1] at h
      cases h2 : l.mapM f with
      | error e => rw [h2] at h; cases h
      | ok bs =>
        rw [h2] at h
        cases h
        rw [List.map_cons, ← hg a List.mem_cons_self b h1,
          ← ih bs (fun a' ha' => hg a' (List.mem_cons_of_mem _ ha')) h2]

/-- the results of a successful `mapM`, pointwise -/
theorem os_mapM_ok_mem {α β : Type} (f : α → R β) (l : List α) (r : List β)
    (h : l.mapM f = .ok r) : ∀ a ∈ l, ∃ b ∈ r, f a = .ok b := by
  induction l generalizing r with
  | nil => intro a ha; cases ha
  | cons a l ih =>
    rw [mapM_cons] at h
    cases h1 : f a with
    | error e => rw [h1] at h; cases h
    | ok b =>
      rw [h1] at h
      cases h2 : l.mapM f with
      | error e => rw [h2] at h; cases h
      | ok bs =>
        rw [h2] at h
        cases h
        intro a' ha'
        rcases List.mem_cons.1 ha' with rfl | ha'
        · exact ⟨b, List.mem_cons_self, h1⟩
        · obtain ⟨b', hb', hf⟩ := ih bs h2 a' ha'
          exact ⟨b', List.mem_cons_of_mem _ hb', hf⟩

theorem os_mapM_append {α β : Type} (f : α → R β) (a b : List α) (r1 r2 : List β)
    (h1 : a.mapM f = .ok r1) (h2 : b.mapM f = .ok r2) : (a ++ b).mapM f = .ok (r1 ++ r2) := by
  induction a generalizing r1 with
  | nil => rw [mapM_nil] at h1; cases h1; exact h2
  | cons x a ih =>
    rw [mapM_cons] at h1
    rw [List.cons_append, mapM_cons]
    cases hx : f x with
    | error e => rw [hx] at h1; cases h1
    | ok y =>
      rw [hx] at h1
      cases ha : a.mapM f with
      | error e => rw [ha] at h1; cases h1
      | ok ys =>
        rw [ha] at h1
        cases h1
        rw [ih ys ha]
        rfl

/-- a successful `mapM` of a composite splits into two successful `mapM`s -/
theorem os_mapM_bind {α β γ : Type} (f : α → R β) (g : β → R γ) (l : List α) (r : List γ)
    (h : l.mapM (fun a => f a >>= g) = .ok r) :
    ∃ m, l.mapM f = .ok m ∧ m.mapM g = .ok r := by
  induction l generalizing r with
  | nil => rw [mapM_nil] at h; cases h; exact ⟨[], mapM_nil f, mapM_nil g⟩
  | cons a l ih =>
    rw [mapM_cons] at h
    cases h1 : f a with
    | error e => rw [h1] at h; cases h
    | ok b =>
      rw [h1, R_bind_ok] at h
      cases h2 : g b with
      | error e => rw [h2] at h; cases h
      | ok c =>
        rw [h2] at h
        cases h3 : l.mapM (fun a => f a >>= g) with
        | error e => rw [h3] at h; cases h
        | ok cs =>
          rw [h3] at h
          cases h
          obtain ⟨m, hm1, hm2⟩ := ih cs h3
          refine ⟨b :: m, ?_, ?_⟩
          · rw [mapM_cons, h1, hm1]
          · rw [mapM_cons, h2, hm2]

/-- `emit` over the groups of a stream = `emit` over every processed document, in order -/
theorem os_emit_stream (pss : List (List Val)) (oss0 : List (List Val))
    (h : pss.mapM emit = .ok oss0) :
    ∃ oss, pss.flatten.mapM (fun p => emit [p]) = .ok oss ∧ oss0.flatten = oss.flatten := by
  induction pss generalizing oss0 with
  | nil => rw [mapM_nil] at h; cases h; exact ⟨[], mapM_nil _, rfl⟩
  | cons ps pss ih =>
    rw [mapM_cons] at h
    cases h1 : emit ps with
    | error e => rw [h1] at h; cases h
    | ok o =>
      rw [h1] at h
      cases h2 : pss.mapM emit with
      | error e => rw [h2] at h; cases h
      | ok os =>
        rw [h2] at h
        cases h
        obtain ⟨oss, h3, h4⟩ := ih os h2
        obtain ⟨oss1, h5, rfl⟩ := (os_emit_ok_iff ps o).1 h1
        refine ⟨oss1 ++ oss, ?_, ?_⟩
        · rw [List.flatten_cons]; exact os_mapM_append _ _ _ _ _ h5 h3
        · rw [List.flatten_cons, h4, List.flatten_append]

theorem os_outputDocument_ok (docs : List Val) (env : Vars) (d : Val) (o : List Val) :
    outputDocument docs env d = .ok o ↔
      ∃ ps, processDoc docs env d = .ok ps ∧ emit ps = .ok o := by
  unfold outputDocument
  cases processDoc docs env d with
  | error e => simp [bind, Except.bind]
  | ok ps => simp [bind, Except.bind]

theorem os_outputDocuments_ok (docs : List Val) (env : Vars) (outs : List Val) :
    outputDocuments docs env = .ok outs ↔
      ∃ oss, docs.mapM (outputDocument docs env) = .ok oss ∧ outs = oss.flatten := by
  unfold outputDocuments
  cases h : docs.mapM (outputDocument docs env) with
  | error e => simp [bind, Except.bind]
  | ok oss =>
    simp only [bind, Except.bind, pure, Except.pure, Except.ok.injEq, exists_eq_left']
    exact eq_comm

/-- the stream: every merged document is processed (into zero or more documents, `$repeat`),
    every processed document is emitted on its own, and the results are concatenated in
    document order -/
theorem os_outputDocuments_stream (docs : List Val) (env : Vars) (outs : List Val)
    (h : outputDocuments docs env = .ok outs) :
    ∃ pss, docs.mapM (processDoc docs env) = .ok pss ∧
      ∃ oss, pss.flatten.mapM (fun p => emit [p]) = .ok oss ∧ outs = oss.flatten := by
  obtain ⟨oss0, h1, rfl⟩ := (os_outputDocuments_ok docs env outs).1 h
  have h1' : docs.mapM (fun d => processDoc docs env d >>= emit) = .ok oss0 := h1
  obtain ⟨pss, h2, h3⟩ := os_mapM_bind _ _ _ _ h1'
  obtain ⟨oss, h4, h5⟩ := os_emit_stream pss oss0 h3
  exact ⟨pss, h2, oss, h4, h5⟩

end Bkl
