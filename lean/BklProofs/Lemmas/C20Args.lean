/-
  BklProofs.Lemmas.C20Args — helper lemmas for
  C20 (wrapper): `wrapArgs` is argument-wise (append law, single-argument form), the format
  of a rewritten argument is the extension NAMED by the argument, and every failing evaluation
  of a resolvable argument aborts (sample file systems with `missingFile` / `invalidType`).
  All helper names are prefixed `wa_`.
  (The `$env:` helpers for C13 — `envOfEnviron` — are in BklProofs/Lemmas/C13Environ.lean: C13.lean
  is imported by Lemmas/Cycles.lean and must not pull in the `@[simp]` lemmas of Lemmas/Files.lean.)
-/
import BklProofs.Lemmas.Files
import BklProofs.Lemmas.Fields
import BklProofs.Lemmas.FilesRename
set_option linter.unusedVariables false
namespace Bkl

/-! ## `wrapArgs` is argument-wise -/

theorem wa_mapM_R_append {α β : Type} (f : α → R β) (l₁ l₂ : List α) :
    (l₁ ++ l₂).mapM f = (do let x ← l₁.mapM f; let y ← l₂.mapM f; pure (x ++ y)) :=
  List.mapM_append

theorem wa_wrapArgs_append (fs : FS) (cwd : Comps) (env : Vars) (as bs : List String) :
    wrapArgs fs cwd env (as ++ bs) =
      (do let x ← wrapArgs fs cwd env as; let y ← wrapArgs fs cwd env bs; pure (x ++ y)) := by
  simp only [wrapArgs_eq]
  exact wa_mapM_R_append _ _ _

/-- one argument: the step of that argument, nothing else -/
theorem wa_wrapArgs_single (fs : FS) (cwd : Comps) (env : Vars) (a : String) :
    wrapArgs fs cwd env [a] =
      match wrapStep fs cwd env a with
      | .error e => .error e
      | .ok w => .ok [w] := by
  rw [wrapArgs_eq, mapM_R_cons, mapM_R_nil]
  cases wrapStep fs cwd env a <;> rfl

theorem wa_wrapArgs_single_ok (fs : FS) (cwd : Comps) (env : Vars) (a : String) (w : WArg) :
    wrapArgs fs cwd env [a] = .ok [w] ↔ wrapStep fs cwd env a = .ok w := by
  rw [wa_wrapArgs_single]
  cases wrapStep fs cwd env a with
  | error e => constructor <;> intro h <;> cases h
  | ok w' =>
    constructor
    · intro h; cases h; rfl
    · intro h; cases h; rfl

theorem wa_wrapArgs_single_error (fs : FS) (cwd : Comps) (env : Vars) (a : String) (e : Err) :
    wrapArgs fs cwd env [a] = .error e ↔ wrapStep fs cwd env a = .error e := by
  rw [wa_wrapArgs_single]
  cases wrapStep fs cwd env a with
  | error e' =>
    constructor
    · intro h; cases h; rfl
    · intro h; cases h; rfl
  | ok w' => constructor <;> intro h <;> cases h

/-- position by position, the result is the result of wrapping that argument ALONE -/
theorem wa_wrapArgs_pointwise (fs : FS) (cwd : Comps) (env : Vars) (args : List String)
    (ws : List WArg) (h : wrapArgs fs cwd env args = .ok ws) (i : Nat) (a : String)
    (ha : args[i]? = some a) : ∃ w, ws[i]? = some w ∧ wrapArgs fs cwd env [a] = .ok [w] := by
  rw [wrapArgs_eq, mapM_R_ok_iff] at h
  obtain ⟨w, hw, hstep⟩ := forall₂_getElem? h i ha
  exact ⟨w, hw, (wa_wrapArgs_single_ok fs cwd env a w).2 hstep⟩

/-- conversely: if every argument alone is rewritten, the list is rewritten to the list of the
    single results -/
theorem wa_wrapArgs_of_singles (fs : FS) (cwd : Comps) (env : Vars) :
    ∀ (args : List String) (ws : List WArg), args.length = ws.length →
      (∀ (i : Nat) (a : String) (w : WArg), args[i]? = some a → ws[i]? = some w →
        wrapArgs fs cwd env [a] = .ok [w]) →
      wrapArgs fs cwd env args = .ok ws
  | [], [], _, _ => by rw [wrapArgs_eq, mapM_R_nil]
  | [], _ :: _, hl, _ => by simp at hl
  | _ :: _, [], hl, _ => by simp at hl
  | a :: args, w :: ws, hl, h => by
    have h0 := (wa_wrapArgs_single_ok fs cwd env a w).1 (h 0 a w rfl rfl)
    have ih := wa_wrapArgs_of_singles fs cwd env args ws (by simpa using hl)
      (fun i a' w' ha hw => h (i + 1) a' w' (by simpa using ha) (by simpa using hw))
    rw [wrapArgs_eq] at ih ⊢
    rw [mapM_R_cons, h0, ih]

/-! ## the format is the extension NAMED by the argument -/

/-- what a successful `FileMatch` says -/
theorem wa_fileMatch_ok {fs : FS} {cwd : Comps} {a : String} {real : Comps} {g : String}
    (h : fileMatch fs cwd a = .ok (real, g)) :
    g = extOf (baseOf (absPath cwd a)) ∧ supportedExts.contains g = true ∧
      fs.findFile (dirOf (absPath cwd a)) (stemOf (baseOf (absPath cwd a))) = some real := by
  rw [fileMatch_eq] at h
  split at h
  · rename_i hx
    split at h
    · rename_i r hr
      simp only [Except.ok.injEq, Prod.mk.injEq] at h
      obtain ⟨h1, h2⟩ := h
      subst h1
      exact ⟨h2.symm, by rw [← h2]; exact hx, hr⟩
    · cases h
  · cases h

/-- splitting `cs ++ s` at '/' where `s` has no '/': the last piece is `t ++ s` for the
    slash-free tail `t` of `cs` -/
theorem wa_splitOnP_slash_tail (s : List Char) (hs : '/' ∉ s) : ∀ (cs : List Char),
    ∃ init t, List.splitOnP (· == '/') (cs ++ s) = init ++ [t ++ s] ∧ t <:+ cs ∧ '/' ∉ t ∧
      (init = [] → t = cs)
  | [] => ⟨[], [], by
      rw [List.nil_append, List.splitOnP_eq_singleton (fun x hx => by
        have : x ≠ '/' := fun e => hs (e ▸ hx)
        simpa using this)]
      rfl, List.suffix_refl _, by simp, fun _ => rfl⟩
  | c :: cs => by
    obtain ⟨init, t, h1, h2, h3, h4⟩ := wa_splitOnP_slash_tail s hs cs
    rw [List.cons_append, List.splitOnP_cons_eq_if_modifyHead, h1]
    by_cases hc : c = '/'
    · subst hc
      exact ⟨[] :: init, t, by simp, List.suffix_cons_iff.2 (.inr h2), h3, fun h => by cases h⟩
    · have hc' : (c == '/') = false := by simpa using hc
      simp only [hc', Bool.false_eq_true, if_false]
      cases init with
      | nil =>
        refine ⟨[], c :: t, by simp, ?_, by simp [h3, Ne.symm hc], fun _ => by rw [h4 rfl]⟩
        rw [h4 rfl]
        exact List.suffix_refl _
      | cons i is =>
        exact ⟨(c :: i) :: is, t, by simp, List.suffix_cons_iff.2 (.inr h2), h3,
          fun h => by cases h⟩

theorem wa_cleanComps_snoc (ys : List String) (c : String) (hc : plainComp c = true) :
    cleanComps (ys ++ [c]) = cleanComps ys ++ [c] := by
  have hc' := (plainComp_iff c).1 hc
  rw [cleanComps_eq, cleanComps_eq, List.foldl_append]
  simp [cleanStep, hc'.1, hc'.2.1, hc'.2.2]

/-- a component ending in `.f` (with `f` non-empty and dot-free) is not ``, `.` or `..` -/
theorem wa_plainComp_dot (t fl : List Char) (hne : fl ≠ []) (hdot : '.' ∉ fl) :
    plainComp (String.ofList (t ++ '.' :: fl)) = true := by
  have hlast : (t ++ '.' :: fl).getLast? = fl.getLast? := by
    rw [List.getLast?_append, List.getLast?_cons]
    cases h : fl.getLast? with
    | none => exact absurd (List.getLast?_eq_none_iff.1 h) hne
    | some z => simp
  obtain ⟨z, hz⟩ : ∃ z, fl.getLast? = some z := by
    cases h : fl.getLast? with
    | none => exact absurd (List.getLast?_eq_none_iff.1 h) hne
    | some z => exact ⟨z, rfl⟩
  have hzd : z ≠ '.' := fun e => hdot (e ▸ List.mem_of_getLast? hz)
  rw [plainComp_iff]
  have key : ∀ s : String, (s.toList.getLast? = none ∨ s.toList.getLast? = some '.') →
      String.ofList (t ++ '.' :: fl) ≠ s := by
    intro s hs e
    have h2 := congrArg (fun s => s.toList.getLast?) e
    simp only [String.toList_ofList, hlast, hz] at h2
    rcases hs with hs | hs
    · rw [hs] at h2; cases h2
    · rw [hs] at h2; cases h2; exact hzd rfl
  exact ⟨key "." (.inr (by decide)), key "" (.inl (by decide)), key ".." (.inr (by decide))⟩

theorem wa_ofList_dot (t : List Char) (f : String) :
    String.ofList (t ++ '.' :: f.toList) = String.ofList t ++ "." ++ f := by
  apply String.toList_inj.1
  simp [String.toList_append]

/-- the path pieces of `x.f`: the last one is `t.f`, `t` the slash-free tail of `x` -/
theorem wa_splitPath_dot (x f : String) (hf1 : '.' ∉ f.toList) (hf2 : '/' ∉ f.toList)
    (hf3 : f ≠ "") :
    ∃ (ys : List String) (t : List Char), splitPath (x ++ "." ++ f) = ys ++ [String.ofList t ++ "." ++ f] ∧
      t <:+ x.toList ∧ '/' ∉ t ∧ plainComp (String.ofList t ++ "." ++ f) = true := by
  have hs : '/' ∉ ('.' :: f.toList) := by simp [hf2]
  obtain ⟨init, t, h1, h2, h3, -⟩ := wa_splitOnP_slash_tail ('.' :: f.toList) hs x.toList
  have hfl : f.toList ≠ [] := fun e => hf3 (String.toList_inj.1 (by simpa using e))
  have hp := wa_plainComp_dot t f.toList hfl hf1
  rw [wa_ofList_dot] at hp
  refine ⟨(init.map String.ofList).filter (· != ""), t, ?_, h2, h3, hp⟩
  rw [splitPath_eq]
  have : (x ++ "." ++ f).toList = x.toList ++ '.' :: f.toList := by
    simp [String.toList_append]
  rw [this, h1, List.map_append, List.filter_append, List.map_cons, List.map_nil, wa_ofList_dot]
  have hne : (String.ofList t ++ "." ++ f != "") = true := by
    have := ((plainComp_iff _).1 hp).2.1
    simp [this]
  simp [hne]

/-- **the named extension**: the absolute path of the argument `x.f` ends in `t.f` -/
theorem wa_absPath_dot (cwd : Comps) (x f : String) (hf1 : '.' ∉ f.toList)
    (hf2 : '/' ∉ f.toList) (hf3 : f ≠ "") :
    ∃ (d : Comps) (t : List Char), absPath cwd (x ++ "." ++ f) = d ++ [String.ofList t ++ "." ++ f] ∧
      t <:+ x.toList ∧ '/' ∉ t := by
  obtain ⟨ys, t, h1, h2, h3, hp⟩ := wa_splitPath_dot x f hf1 hf2 hf3
  unfold absPath
  split
  · exact ⟨cleanComps ys, t, by rw [h1, wa_cleanComps_snoc _ _ hp], h2, h3⟩
  · exact ⟨cleanComps (cwd ++ ys), t, by rw [h1, ← List.append_assoc, wa_cleanComps_snoc _ _ hp],
      h2, h3⟩

theorem wa_extOf_arg (cwd : Comps) (x f : String) (hf1 : '.' ∉ f.toList)
    (hf2 : '/' ∉ f.toList) (hf3 : f ≠ "") :
    extOf (baseOf (absPath cwd (x ++ "." ++ f))) = f := by
  obtain ⟨d, t, h, -, -⟩ := wa_absPath_dot cwd x f hf1 hf2 hf3
  rw [h, baseOf_snoc, extOf_snoc _ _ hf1]

/-- every supported extension is a legal `f` for the three lemmas above -/
theorem wa_supportedExt_ok (f : String) (hf : f ∈ supportedExts) :
    '.' ∉ f.toList ∧ '/' ∉ f.toList ∧ f ≠ "" := by
  simp only [supportedExts, List.mem_cons, List.not_mem_nil, or_false] at hf
  rcases hf with rfl | rfl | rfl | rfl | rfl | rfl <;> decide

/-! ### sample: `/w/a.yaml` of `chainFS` named under every supported extension -/

theorem wa_chainFS_abs_a (e : String) (he : e ∈ supportedExts) :
    absPath ["w"] ("a" ++ "." ++ e) = ["w"] ++ ["a" ++ "." ++ e] := by
  have key : splitPath ("a" ++ "." ++ e) = ["a" ++ "." ++ e] ∧
      isAbsPath ("a" ++ "." ++ e) = false ∧
      cleanComps (["w"] ++ ["a" ++ "." ++ e]) = ["w"] ++ ["a" ++ "." ++ e] := by
    simp only [supportedExts, List.mem_cons, List.not_mem_nil, or_false] at he
    rcases he with rfl | rfl | rfl | rfl | rfl | rfl <;>
      exact ⟨splitPath_lit _ _ (by decide), by simp [isAbsPath], by decide⟩
  rw [absPath_rel key.2.1 key.1, key.2.2]

/-- whatever supported extension the argument names, the real file is `/w/a.yaml` and the
    format is the named one -/
theorem wa_chainFS_match_a_ext (e : String) (he : e ∈ supportedExts) :
    fileMatch chainFS ["w"] ("a" ++ "." ++ e) = .ok (["w", "a.yaml"], e) :=
  fileMatch_layer (wa_chainFS_abs_a e he) he stem_a chainFS_plain (by decide) chainFS_a

theorem wa_chainFS_step_a_ext (e : String) (he : e ∈ supportedExts) :
    wrapStep chainFS ["w"] [] ("a" ++ "." ++ e) = .ok (.evaluated e [.map [("x", .int 1)]]) := by
  unfold wrapStep
  rw [wa_chainFS_match_a_ext e he]
  simp only [chainFS_layers_a]
  have hm : mergeDocument PState.empty (oneDoc "/w/a.yaml" [] (.map [("x", .int 1)])) =
      .ok ⟨[("/w/a.yaml|doc0", .map [("x", .int 1)])], [("/w/a.yaml|doc0", [])]⟩ := by rfl
  rw [hm]
  have ho : outputDocuments [.map [("x", .int 1)]] [] = .ok [.map [("x", .int 1)]] := by decide
  simp only [List.map_cons, List.map_nil, ho]

/-! ## every failing evaluation of a resolvable argument aborts -/

theorem wa_wrapStep_error_of_layers {fs : FS} {cwd : Comps} {env : Vars} {a : String}
    {real : Comps} {f : String} {e : Err} (hm : fileMatch fs cwd a = .ok (real, f))
    (hl : mergeFileLayers fs { root := [], cwd := cwd } PState.empty real = .error e) :
    wrapStep fs cwd env a = .error e := by
  unfold wrapStep
  rw [hm]
  simp only [hl]

theorem wa_wrapStep_error_of_output {fs : FS} {cwd : Comps} {env : Vars} {a : String}
    {real : Comps} {f : String} {e : Err} {st : PState} (hm : fileMatch fs cwd a = .ok (real, f))
    (hl : mergeFileLayers fs { root := [], cwd := cwd } PState.empty real = .ok st)
    (ho : outputDocuments (st.docs.map (·.2)) env = .error e) :
    wrapStep fs cwd env a = .error e := by
  unfold wrapStep
  rw [hm]
  simp only [hl, ho]

theorem wa_wrapStep_verbatim_iff (fs : FS) (cwd : Comps) (env : Vars) (a s : String) :
    wrapStep fs cwd env a = .ok (.verbatim s) ↔ s = a ∧ ∃ e, fileMatch fs cwd a = .error e := by
  unfold wrapStep
  cases hm : fileMatch fs cwd a with
  | error e =>
    simp only [Except.ok.injEq, WArg.verbatim.injEq]
    exact ⟨fun h => ⟨h.symm, e, rfl⟩, fun h => h.1.symm⟩
  | ok rf =>
    obtain ⟨real, f⟩ := rf
    simp only
    constructor
    · intro h
      split at h
      · cases h
      · split at h <;> cases h
    · rintro ⟨-, e, he⟩; cases he

/-- the first failing argument decides the error -/
theorem wa_wrapArgs_error_at (fs : FS) (cwd : Comps) (env : Vars) (pre post : List String)
    (a : String) (wpre : List WArg) (e : Err) (hpre : wrapArgs fs cwd env pre = .ok wpre)
    (ha : wrapStep fs cwd env a = .error e) :
    wrapArgs fs cwd env (pre ++ a :: post) = .error e := by
  rw [wrapArgs_eq] at hpre ⊢
  rw [mapM_R_error_iff]
  refine ⟨pre, a, post, rfl, ?_, ha⟩
  intro x hx
  rw [mapM_R_ok_iff] at hpre
  obtain ⟨b, -, hb⟩ := forall₂_mem_left hpre hx
  exact ⟨b, hb⟩

/-! ### sample: `missingFile` from a missing parent layer (`/w/orphan.x.yaml` in `chainFS`) -/

theorem wa_chainFS_orphan : LayerFile chainFS ["w"] "orphan.x" "yaml" (.ok [.map []]) :=
  layerFile_of_decide (by decide) (by decide) (fun _ => by decide) (fun _ => by decide)
    (fun _ => by decide) (fun _ => by decide) (fun h => absurd rfl h) (fun _ => by decide)

theorem wa_parts_orphan : "orphan.x".splitOn "." = ["orphan", "x"] := by rw [splitOn_dot]; decide

theorem wa_chainFS_match_orphan :
    fileMatch chainFS ["w"] "orphan.x.yaml" = .ok (["w", "orphan.x.yaml"], "yaml") :=
  fileMatch_layer (d := ["w"]) (l := "orphan.x") (e := "yaml")
    (by rw [absPath_rel (by simp [isAbsPath])
          (splitPath_lit "orphan.x.yaml" ["orphan.x.yaml"] (by decide))]; decide)
    (by decide) (by rw [wa_parts_orphan]; decide) chainFS_plain (by decide) wa_chainFS_orphan

theorem wa_chainFS_no_orphan : chainFS.findRooted [] ["w"] "orphan" = none :=
  findRooted_none_of_missing chainFS_plain (by decide) (by
    intro e he
    simp only [supportedExts, List.mem_cons, List.not_mem_nil, or_false] at he
    rcases he with rfl | rfl | rfl | rfl | rfl | rfl <;> decide)

/-- the argument itself resolves (the file is there); its parent layer `orphan` is missing -/
theorem wa_chainFS_layers_orphan (st : PState) :
    mergeFileLayers chainFS ⟨[], ["w"]⟩ st ["w", "orphan.x.yaml"] = .error .missingFile := by
  rw [mergeFileLayers_eq, show loadFuel = 63 + 1 from rfl, loadFileAndParents_succ]
  have hp : (["w", "orphan.x.yaml"] : Comps) = ["w"] ++ ["orphan.x" ++ "." ++ "yaml"] := by decide
  have h := loadFile_layerFile chainFS_plain (by decide) wa_chainFS_orphan ["w"]
    (fileIdOf none ["w", "orphan.x.yaml"])
  have hpar : fileParents chainFS ⟨[], ["w"]⟩ (["w"] ++ ["orphan.x" ++ "." ++ "yaml"]) [.map []] =
      .error .missingFile := by
    rw [fileParents_layer ⟨[], ["w"]⟩ chainFS_plain (by decide) wa_chainFS_orphan (by
      intro x hx
      have : x = Val.map [] := by simpa using hx
      subst this; rfl), wa_parts_orphan]
    have : ".".intercalate (["orphan", "x"] : List String).dropLast = "orphan" := by decide
    rw [this, wa_chainFS_no_orphan]
    rfl
  rw [← hp] at h hpar
  simp only [List.contains_nil, Bool.false_eq_true, if_false, h, hpar]

theorem wa_chainFS_step_orphan (env : Vars) :
    wrapStep chainFS ["w"] env "orphan.x.yaml" = .error .missingFile :=
  wa_wrapStep_error_of_layers wa_chainFS_match_orphan (wa_chainFS_layers_orphan _)

/-- contrast: `FileMatch` ITSELF fails with `missingFile` (no `/w/nothere.*`) -/
theorem wa_chainFS_nomatch_nothere :
    fileMatch chainFS ["w"] "nothere.yaml" = .error .missingFile := by
  have habs : absPath ["w"] "nothere.yaml" = ["w"] ++ ["nothere" ++ "." ++ "yaml"] := by
    rw [absPath_rel (by simp [isAbsPath]) (splitPath_lit "nothere.yaml" ["nothere.yaml"] (by decide))]
    decide
  have hstem : ".".intercalate ("nothere".splitOn ".") = "nothere" := by rw [splitOn_dot]; decide
  have hnone : chainFS.findFile ["w"] "nothere" = none :=
    findFile_none_of_missing chainFS_plain (by decide) (by
      intro e he
      simp only [supportedExts, List.mem_cons, List.not_mem_nil, or_false] at he
      rcases he with rfl | rfl | rfl | rfl | rfl | rfl <;> decide)
  rw [fileMatch_eq, habs, baseOf_snoc, dirOf_snoc, extOf_snoc _ _ (by decide),
    stemOf_snoc _ _ (by decide), hstem, hnone]
  rfl

/-- `apply -f` is passed through, whatever the environment -/
theorem wa_chainFS_pre (env : Vars) :
    wrapArgs chainFS ["w"] env ["apply", "-f"] = .ok [.verbatim "apply", .verbatim "-f"] := by
  rw [wrapArgs_eq, mapM_R_cons, mapM_R_cons, mapM_R_nil]
  have h1 : wrapStep chainFS ["w"] env "apply" = .ok (.verbatim "apply") := by
    unfold wrapStep; rw [chainFS_nomatch_apply]
  have h2 : wrapStep chainFS ["w"] env "-f" = .ok (.verbatim "-f") := by
    unfold wrapStep; rw [chainFS_nomatch_f]
  rw [h1, h2]

/-! ### sample: `invalidType` from a bad merge (`x: {y: 1}` overlaid by `x: 5`) -/

def wa_clashFS : FS := ⟨[
  (["w"], .dir),
  (["w", "a.yaml"], .file (.ok [.map [("x", .map [("y", .int 1)])]])),
  (["w", "a.b.yaml"], .file (.ok [.map [("x", .int 5)]]))]⟩

theorem wa_clashFS_plain : PlainDir wa_clashFS ["w"] :=
  plainDir_single (n := .dir) (by decide) (by decide) rfl

theorem wa_clashFS_a :
    LayerFile wa_clashFS ["w"] "a" "yaml" (.ok [.map [("x", .map [("y", .int 1)])]]) :=
  layerFile_of_decide (by decide) (by decide) (fun _ => by decide) (fun _ => by decide)
    (fun _ => by decide) (fun _ => by decide) (fun h => absurd rfl h) (fun _ => by decide)

theorem wa_clashFS_ab : LayerFile wa_clashFS ["w"] "a.b" "yaml" (.ok [.map [("x", .int 5)]]) :=
  layerFile_of_decide (by decide) (by decide) (fun _ => by decide) (fun _ => by decide)
    (fun _ => by decide) (fun _ => by decide) (fun h => absurd rfl h) (fun _ => by decide)

theorem wa_clashFS_match :
    fileMatch wa_clashFS ["w"] "a.b.yaml" = .ok (["w", "a.b.yaml"], "yaml") :=
  fileMatch_layer (d := ["w"]) (l := "a.b") (e := "yaml")
    (by rw [absPath_rel (by simp [isAbsPath])
          (splitPath_lit "a.b.yaml" ["a.b.yaml"] (by decide))]; decide)
    (by decide) (by rw [parts_ab]; decide) wa_clashFS_plain (by decide) wa_clashFS_ab

theorem wa_clash_merge :
    merge (.map [("x", .map [("y", .int 1)])]) (.map [("x", .int 5)]) = .error .invalidType := by
  rw [merge_map_map, mergeMapMap_noreplace (by decide), mergeFields_cons]
  have h1 : ¬ (Val.int 5).toStr = "$delete" := by decide
  have h2 : fget [("x", Val.map [("y", .int 1)])] "x" = some (.map [("y", .int 1)]) := by decide
  rw [if_neg h1, h2]
  simp only [merge_map_other _ (.int 5) rfl rfl]
  rfl

theorem wa_clashFS_layers :
    mergeFileLayers wa_clashFS ⟨[], ["w"]⟩ PState.empty ["w", "a.b.yaml"] =
      .error .invalidType := by
  rw [mergeFileLayers_eq]
  have hc := chain2 (cwd := ["w"]) wa_clashFS_plain wa_clashFS_a wa_clashFS_ab rfl rfl 62 none
    [] [] rfl rfl
  rw [show loadFuel = 62 + 2 from rfl,
    show (["w", "a.b.yaml"] : Comps) = ["w"] ++ ["a.b" ++ "." ++ "yaml"] by decide, hc]
  simp only [mergeFiles_eq, List.flatMap_cons, List.flatMap_nil, List.append_nil,
    List.cons_append, List.nil_append, fileIdOf]
  have hid2 : pathStr ["w", "a.b" ++ "." ++ "yaml"] = "/w/a.b.yaml" := by decide
  have hid1 : pathStr ["w", "a" ++ "." ++ "yaml"] = "/w/a.yaml" := by decide
  rw [hid1, hid2]
  have h1 : mergeDocument PState.empty
      (oneDoc ("/w/a.b.yaml" ++ "|" ++ "/w/a.yaml") [] (.map [("x", .map [("y", .int 1)])])) =
      .ok ⟨[("/w/a.b.yaml|/w/a.yaml|doc0", .map [("x", .map [("y", .int 1)])])],
        [("/w/a.b.yaml|/w/a.yaml|doc0", [])]⟩ := by rfl
  have h2 : mergeDocument ⟨[("/w/a.b.yaml|/w/a.yaml|doc0", .map [("x", .map [("y", .int 1)])])],
        [("/w/a.b.yaml|/w/a.yaml|doc0", [])]⟩
      (oneDoc "/w/a.b.yaml" ["/w/a.b.yaml" ++ "|" ++ "/w/a.yaml" ++ "|doc" ++ toString 0]
        (.map [("x", .int 5)])) = .error .invalidType := by
    rw [mergeDocument_eq]
    unfold mergeDocCore mergeDflt oneDoc
    simp only []
    have hg : fget [("x", Val.int 5)] "$match" = none := by decide
    simp only [hg]
    have ht : parentsOf ⟨[("/w/a.b.yaml|/w/a.yaml|doc0", .map [("x", .map [("y", .int 1)])])],
        addParents [("/w/a.b.yaml|/w/a.yaml|doc0", [])] ("/w/a.b.yaml" ++ "|doc" ++ toString 0)
          ["/w/a.b.yaml" ++ "|" ++ "/w/a.yaml" ++ "|doc" ++ toString 0]⟩
        ["/w/a.b.yaml" ++ "|" ++ "/w/a.yaml" ++ "|doc" ++ toString 0] =
        ["/w/a.b.yaml|/w/a.yaml|doc0"] := by decide
    rw [ht, if_neg (by decide), mergeInto_error_iff, mapM_R_cons]
    unfold mergeStep
    rw [if_pos (by decide)]
    simp only [wa_clash_merge]
  rw [runMerges_cons, h1]
  simp only []
  rw [runMerges_cons, h2]

theorem wa_clashFS_step (env : Vars) :
    wrapStep wa_clashFS ["w"] env "a.b.yaml" = .error .invalidType :=
  wa_wrapStep_error_of_layers wa_clashFS_match wa_clashFS_layers

theorem wa_clashFS_pre (env : Vars) :
    wrapArgs wa_clashFS ["w"] env ["apply", "-f"] = .ok [.verbatim "apply", .verbatim "-f"] := by
  rw [wrapArgs_eq, mapM_R_cons, mapM_R_cons, mapM_R_nil]
  have h1 : wrapStep wa_clashFS ["w"] env "apply" = .ok (.verbatim "apply") := by
    unfold wrapStep
    rw [fileMatch_noext (by
      rw [absPath_rel (by simp [isAbsPath]) (splitPath_lit "apply" ["apply"] (by decide)), extOf_eq]
      decide)]
  have h2 : wrapStep wa_clashFS ["w"] env "-f" = .ok (.verbatim "-f") := by
    unfold wrapStep
    rw [fileMatch_noext (by
      rw [absPath_rel (by simp [isAbsPath]) (splitPath_lit "-f" ["-f"] (by decide)), extOf_eq]
      decide)]
  rw [h1, h2]

end Bkl
