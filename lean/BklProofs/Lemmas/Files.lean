/-
  BklProofs.Lemmas.Files — helper lemmas about the file-system model (`Bkl/Files.lean`):
  the lexical path algebra, the `os.Root` walk, `EvalSymlinks` on link-free paths, globbing,
  the shape of `fileParents` / `loadFileAndParents`, the CLI input loop and renaming of
  document ids.
-/
import Bkl.Files
import BklProofs.Lemmas.Parser
import BklProofs.Lemmas.SplitOn
import BklProofs.Lemmas.Interp
import Batteries.Tactic.OpenPrivate
open private Array.qsort.sort Array.qpartition.loop from Init.Data.Array.QSort.Basic
set_option linter.unusedVariables false
namespace Bkl

/-! ## `R` (Except) plumbing -/

@[simp] theorem R_throw_eq {α : Type} (e : Err) : (throw e : R α) = .error e := rfl
@[simp] theorem R_pure_eq {α : Type} (a : α) : (pure a : R α) = .ok a := rfl
@[simp] theorem R_bind_ok {α β : Type} (a : α) (f : α → R β) :
    ((Except.ok a : R α) >>= f) = f a := rfl
@[simp] theorem R_bind_error {α β : Type} (e : Err) (f : α → R β) :
    ((Except.error e : R α) >>= f) = .error e := rfl

/-! ## prefixes -/

theorem prefix_dropLast_of_length_lt {α : Type} {root cur : List α} (h : root <+: cur)
    (hl : root.length < cur.length) : root <+: cur.dropLast := by
  obtain ⟨t, rfl⟩ := h
  have ht : t ≠ [] := by
    intro e; subst e; simp at hl
  rw [List.dropLast_append_of_ne_nil ht]
  exact List.prefix_append _ _

theorem prefix_append_right {α : Type} {root cur : List α} (h : root <+: cur) (t : List α) :
    root <+: cur ++ t := by
  obtain ⟨s, rfl⟩ := h
  rw [List.append_assoc]
  exact List.prefix_append _ _

/-! ## components -/

/-- a component that `Clean` keeps: not empty, not `.` and not `..` -/
def plainComp (c : String) : Bool := !(c == "." || c == "") && !(c == "..")

theorem plainComp_iff (c : String) : plainComp c = true ↔ c ≠ "." ∧ c ≠ "" ∧ c ≠ ".." := by
  simp [plainComp, and_assoc]

/-! ## the `os.Root` walk -/

theorem rootWalk_zero (fs : FS) (root cur : Comps) (todo : List String) {links : Nat} :
    fs.rootWalk root 0 links cur todo = .error .other := rfl

theorem rootWalk_nil (fs : FS) (root cur : Comps) (fuel : Nat) {links : Nat} :
    fs.rootWalk root (fuel + 1) links cur [] = .ok cur := rfl

theorem rootWalk_cons (fs : FS) (root cur : Comps) (fuel : Nat) (c : String) (rest : List String)
    {links : Nat} :
    fs.rootWalk root (fuel + 1) links cur (c :: rest) =
      if c == "." || c == "" then fs.rootWalk root fuel links cur rest
      else if c == ".." then
        if cur.length ≤ root.length then .error .other
        else fs.rootWalk root fuel links cur.dropLast rest
      else
        match fs.lstat (cur ++ [c]) with
        | none => .error .other
        | some (.link t) =>
          if isAbsPath t then .error .other
          else if links ≥ rootMaxSymlinks then .error .other
          else fs.rootWalk root fuel (links + 1) cur (splitPath t ++ rest)
        | some _ => fs.rootWalk root fuel links (cur ++ [c]) rest := by
  rw [FS.rootWalk]
  rfl

/-- the walk never leaves the root -/
theorem rootWalk_inside (fs : FS) (root : Comps) : ∀ (fuel : Nat) {links : Nat} (cur : Comps)
    (todo : List String) (real : Comps),
    fs.rootWalk root fuel links cur todo = .ok real → root <+: cur → root <+: real := by
  intro fuel
  induction fuel with
  | zero => intro links cur todo real h; rw [rootWalk_zero] at h; cases h
  | succ n ih =>
    intro links cur todo real h hp
    cases todo with
    | nil => rw [rootWalk_nil] at h; cases h; exact hp
    | cons c rest =>
      rw [rootWalk_cons] at h
      split at h
      · exact ih _ _ _ h hp
      · split at h
        · split at h
          · cases h
          · rename_i hl
            exact ih _ _ _ h (prefix_dropLast_of_length_lt hp (by omega))
        · split at h
          · cases h
          · split at h
            · cases h
            · split at h
              · cases h
              · exact ih _ _ _ h hp
          · exact ih _ _ _ h (prefix_append_right hp _)

/-- two file systems that agree inside the root give the same walk -/
theorem rootWalk_congr (fs₁ fs₂ : FS) (root : Comps)
    (hag : ∀ p, root <+: p → fs₁.lstat p = fs₂.lstat p) :
    ∀ (fuel : Nat) {links : Nat} (cur : Comps) (todo : List String), root <+: cur →
      fs₁.rootWalk root fuel links cur todo = fs₂.rootWalk root fuel links cur todo := by
  intro fuel
  induction fuel with
  | zero => intro links cur todo _; rfl
  | succ n ih =>
    intro links cur todo hp
    cases todo with
    | nil => rfl
    | cons c rest =>
      rw [rootWalk_cons, rootWalk_cons, hag (cur ++ [c]) (prefix_append_right hp _)]
      split
      · exact ih _ _ hp
      · split
        · split
          · rfl
          · rename_i hl
            exact ih _ _ (prefix_dropLast_of_length_lt hp (by omega))
        · split
          · rfl
          · split
            · rfl
            · split
              · rfl
              · exact ih _ _ hp
          · exact ih _ _ (prefix_append_right hp _)

theorem rootOpen_eq (fs : FS) (root : Comps) (rel : List String) :
    fs.rootOpen root rel =
      match fs.rootWalk root linkFuel 0 root rel with
      | .error e => .error e
      | .ok real =>
        match fs.lstat real with
        | some (.file docs) => docs
        | _ => .error .other := by
  unfold FS.rootOpen
  cases fs.rootWalk root linkFuel 0 root rel <;> rfl

theorem rootOpenDir_eq (fs : FS) (root : Comps) (rel : List String) :
    fs.rootOpenDir root rel =
      match fs.rootWalk root linkFuel 0 root rel with
      | .error e => .error e
      | .ok real =>
        match fs.lstat real with
        | some .dir => .ok real
        | _ => .error .other := by
  unfold FS.rootOpenDir
  cases fs.rootWalk root linkFuel 0 root rel <;> rfl

theorem loadFile_eq (fs : FS) (cfg : RootCfg) (path : Comps) (fid : String) :
    loadFile fs cfg path fid =
      if supportedExts.contains (extOf (baseOf path)) then
        fs.rootOpen cfg.root (relTo cfg.root path)
      else .error .unknownFormat := by
  unfold loadFile
  cases supportedExts.contains (extOf (baseOf path)) <;> rfl

/-! ## `relTo` -/

theorem relTo_strip_outside : ∀ (root p : Comps), ¬ root <+: p → root ≠ [] →
    (relTo.strip root p).head? = some ".."
  | [], p, h, _ => absurd (List.nil_prefix) h
  | r :: rs, [], _, _ => by simp [relTo.strip, List.replicate_succ]
  | r :: rs, a :: as, h, _ => by
    rw [relTo.strip]
    split
    · rename_i hra
      have hra : r = a := by simpa using hra
      subst hra
      have h' : ¬ rs <+: as := fun hp => h ((List.cons_prefix_cons).2 ⟨rfl, hp⟩)
      have hne : rs ≠ [] := by
        intro e; subst e; exact h' List.nil_prefix
      exact relTo_strip_outside rs as h' hne
    · simp [List.replicate_succ]

theorem relTo_strip_append : ∀ (root s : Comps), relTo.strip (root ++ []) (root ++ s) = s
  | [], s => by cases s <;> simp [relTo.strip]
  | r :: rs, s => by
    simp only [List.append_nil, List.cons_append, relTo.strip, beq_self_eq_true, if_true]
    have := relTo_strip_append rs s
    simpa using this

theorem relTo_append (root s : Comps) : relTo root (root ++ s) = s := by
  have := relTo_strip_append root s
  simpa [relTo] using this

theorem relTo_nil (p : Comps) : relTo [] p = p := relTo_append [] p

/-- a relative path without `..` is the path with the root taken off -/
theorem relTo_strip_no_dotdot : ∀ (root p : Comps),
    (relTo.strip root p).any (· == "..") = false → root ++ relTo.strip root p = p
  | [], p, _ => by cases p <;> simp [relTo.strip]
  | r :: rs, [], h => by simp [relTo.strip, List.replicate_succ] at h
  | r :: rs, a :: as, h => by
    by_cases hra : (r == a) = true
    · have e : r = a := by simpa using hra
      subst e
      simp only [relTo.strip, beq_self_eq_true, if_true] at h ⊢
      rw [List.cons_append, relTo_strip_no_dotdot rs as h]
    · simp only [relTo.strip, hra, if_false, List.replicate_succ] at h
      simp at h

theorem relTo_no_dotdot (root p : Comps) (h : (relTo root p).any (· == "..") = false) :
    root ++ relTo root p = p := relTo_strip_no_dotdot root p h

theorem prefix_of_relTo_no_dotdot (root p : Comps) (h : (relTo root p).any (· == "..") = false) :
    root <+: p := ⟨_, relTo_no_dotdot root p h⟩

/-! ## `cleanComps` -/

def cleanStep (acc : Comps) (c : String) : Comps :=
  if c == "." || c == "" then acc
  else if c == ".." then acc.dropLast
  else acc ++ [c]

theorem cleanComps_eq (cs : List String) : cleanComps cs = cs.foldl cleanStep [] := rfl

theorem foldl_cleanStep_plain : ∀ (cs : List String) (acc : Comps),
    (∀ c ∈ cs, plainComp c = true) → cs.foldl cleanStep acc = acc ++ cs
  | [], acc, _ => by simp
  | c :: cs, acc, h => by
    have hc := (plainComp_iff c).1 (h c List.mem_cons_self)
    have : cleanStep acc c = acc ++ [c] := by
      simp [cleanStep, hc.1, hc.2.1, hc.2.2]
    rw [List.foldl_cons, this,
      foldl_cleanStep_plain cs _ (fun x hx => h x (List.mem_cons_of_mem _ hx))]
    simp

theorem foldl_cleanStep_allPlain : ∀ (cs : List String) (acc : Comps),
    (∀ c ∈ acc, plainComp c = true) → ∀ c ∈ cs.foldl cleanStep acc, plainComp c = true
  | [], acc, h => by simpa using h
  | c :: cs, acc, h => by
    rw [List.foldl_cons]
    apply foldl_cleanStep_allPlain cs
    unfold cleanStep
    split
    · exact h
    · split
      · intro x hx; exact h x (List.dropLast_subset _ hx)
      · rename_i h1 h2
        intro x hx
        rcases List.mem_append.1 hx with hx | hx
        · exact h x hx
        · have : x = c := by simpa using hx
          subst this
          simp only [Bool.or_eq_true, not_or] at h1
          simp [plainComp, h1.1, h1.2, h2]

/-- `Clean` produces plain components only -/
theorem cleanComps_allPlain (cs : List String) : ∀ c ∈ cleanComps cs, plainComp c = true :=
  foldl_cleanStep_allPlain cs [] (fun _ h => nomatch h)

/-- `Clean` is the identity on a clean path -/
theorem cleanComps_of_plain (cs : List String) (h : ∀ c ∈ cs, plainComp c = true) :
    cleanComps cs = cs := by
  rw [cleanComps_eq, foldl_cleanStep_plain cs [] h]; rfl

theorem absPath_allPlain (cwd : Comps) (p : String) : ∀ c ∈ absPath cwd p, plainComp c = true := by
  unfold absPath
  split <;> exact cleanComps_allPlain _

/-! ## `splitPath` on `List Char` (so that concrete paths evaluate) -/

theorem splitPath_eq (p : String) :
    splitPath p = ((List.splitOnP (· == '/') p.toList).map String.ofList).filter (· != "") := by
  unfold splitPath
  rw [show "/" = String.ofList ['/'] from rfl, splitOn_char]

/-! ## agreement inside a root, `setRoot` -/

/-- two file systems that have the same entries at and below `root` -/
def agreeInside (root : Comps) (fs₁ fs₂ : FS) : Prop := ∀ p, root <+: p → fs₁.lstat p = fs₂.lstat p

theorem setRoot_eq (fs : FS) (cfg : RootCfg) (path : String) :
    setRoot fs cfg path =
      match fs.rootOpenDir cfg.root (relTo cfg.root (absPath cfg.cwd path)) with
      | .error e => .error e
      | .ok _ => .ok { cfg with
          root := cleanComps (cfg.root ++ relTo cfg.root (absPath cfg.cwd path)) } := by
  unfold setRoot
  simp only []
  cases fs.rootOpenDir cfg.root (relTo cfg.root (absPath cfg.cwd path)) <;> rfl

theorem rootWalk_dotdot_at_root (fs : FS) (root : Comps) (fuel : Nat) (rest : List String)
    {links : Nat} :
    fs.rootWalk root (fuel + 1) links root (".." :: rest) = .error .other := by
  rw [rootWalk_cons]
  simp

/-! ## decidable equality on results and nodes (for `decide` on concrete file systems) -/

instance {α : Type} [DecidableEq α] : DecidableEq (R α) := fun a b =>
  match a, b with
  | .ok x, .ok y =>
    if h : x = y then isTrue (by rw [h]) else isFalse (by intro e; cases e; exact h rfl)
  | .error x, .error y =>
    if h : x = y then isTrue (by rw [h]) else isFalse (by intro e; cases e; exact h rfl)
  | .ok _, .error _ => isFalse (by intro e; cases e)
  | .error _, .ok _ => isFalse (by intro e; cases e)

deriving instance DecidableEq for FNode

def FNode.isLink : FNode → Bool
  | .link _ => true
  | _ => false

/-! ## single steps of the walk (to evaluate it on concrete file systems, link by link) -/

theorem rootWalk_step_plain {fs : FS} {root cur : Comps} {fuel links : Nat} {c : String}
    {rest : List String} {n : FNode} (hc : plainComp c = true)
    (hl : fs.lstat (cur ++ [c]) = some n) (hn : n.isLink = false) :
    fs.rootWalk root (fuel + 1) links cur (c :: rest) =
      fs.rootWalk root fuel links (cur ++ [c]) rest := by
  have hc' := (plainComp_iff c).1 hc
  rw [rootWalk_cons, hl]
  cases n with
  | link t => cases hn
  | file d => simp [hc'.1, hc'.2.1, hc'.2.2]
  | dir => simp [hc'.1, hc'.2.1, hc'.2.2]

theorem rootWalk_step_link {fs : FS} {root cur : Comps} {fuel links : Nat} {c t : String}
    {rest ts : List String} (hc : plainComp c = true)
    (hl : fs.lstat (cur ++ [c]) = some (.link t)) (ha : isAbsPath t = false)
    (hs : splitPath t = ts) (hk : links < rootMaxSymlinks := by decide) :
    fs.rootWalk root (fuel + 1) links cur (c :: rest) =
      fs.rootWalk root fuel (links + 1) cur (ts ++ rest) := by
  have hc' := (plainComp_iff c).1 hc
  have hk' : ¬ links ≥ rootMaxSymlinks := by omega
  rw [rootWalk_cons, hl]
  simp [hc'.1, hc'.2.1, hc'.2.2, ha, hs, hk']

/-- the ninth link of one operation is refused (`ELOOP`) -/
theorem rootWalk_step_link_limit {fs : FS} {root cur : Comps} {fuel links : Nat} {c t : String}
    {rest : List String} (hc : plainComp c = true)
    (hl : fs.lstat (cur ++ [c]) = some (.link t)) (hk : rootMaxSymlinks ≤ links) :
    fs.rootWalk root (fuel + 1) links cur (c :: rest) = .error .other := by
  have hc' := (plainComp_iff c).1 hc
  have hk' : links ≥ rootMaxSymlinks := hk
  rw [rootWalk_cons, hl]
  simp [hc'.1, hc'.2.1, hc'.2.2, hk']

theorem rootWalk_step_dotdot {fs : FS} {root cur : Comps} {fuel links : Nat} {rest : List String}
    (hl : root.length < cur.length) :
    fs.rootWalk root (fuel + 1) links cur (".." :: rest) =
      fs.rootWalk root fuel links cur.dropLast rest := by
  rw [rootWalk_cons]
  have : ¬ cur.length ≤ root.length := by omega
  simp [this]

theorem splitPath_lit (p : String) (ts : List String)
    (h : ((List.splitOnP (· == '/') p.toList).map String.ofList).filter (· != "") = ts) :
    splitPath p = ts := by rw [splitPath_eq, h]

/-- a small file system used for the non-vacuity examples:
    /w/r/a.yaml, /w/r/l.yaml -> a.yaml, /w/r/abs.yaml -> /w/secret.yaml,
    /w/r/up.yaml -> ../secret.yaml, /w/secret.yaml, /w/r/sub/ -/
def exFS : FS := ⟨[
  (["w"], .dir), (["w", "r"], .dir), (["w", "r", "sub"], .dir),
  (["w", "r", "a.yaml"], .file (.ok [.map [("x", .int 1)]])),
  (["w", "r", "l.yaml"], .link "a.yaml"),
  (["w", "r", "abs.yaml"], .link "/w/secret.yaml"),
  (["w", "r", "up.yaml"], .link "../secret.yaml"),
  (["w", "secret.yaml"], .file (.ok [.map [("s", .int 2)]]))]⟩

/-- the same with a different world outside /w/r -/
def exFS' : FS := ⟨[
  (["w"], .dir), (["w", "r"], .dir), (["w", "r", "sub"], .dir),
  (["w", "r", "a.yaml"], .file (.ok [.map [("x", .int 1)]])),
  (["w", "r", "l.yaml"], .link "a.yaml"),
  (["w", "r", "abs.yaml"], .link "/w/secret.yaml"),
  (["w", "r", "up.yaml"], .link "../secret.yaml"),
  (["w", "secret.yaml"], .file (.ok [.map [("s", .int 3)]])),
  (["etc"], .dir)]⟩

/-! ## strings: dots, extensions -/

theorem splitOn_dot_snoc (l e : String) (he : '.' ∉ e.toList) :
    (l ++ "." ++ e).splitOn "." = l.splitOn "." ++ [e] := by
  rw [splitOn_dot, splitOn_dot]
  have h1 : (l ++ "." ++ e).toList = l.toList ++ '.' :: e.toList := by
    simp [String.toList_append]
  have h2 : List.splitOnP (· == '.') e.toList = [e.toList] :=
    List.splitOnP_eq_singleton (fun x hx => by
      have : x ≠ '.' := fun h => he (h ▸ hx)
      simpa using this)
  rw [h1, List.splitOnP_append_cons _ _ (by simp), h2]
  simp

theorem splitOn_dot_ne_nil (s : String) : s.splitOn "." ≠ [] := by
  rw [splitOn_dot]
  intro h
  exact List.splitOnP_ne_nil _ _ (List.map_eq_nil_iff.1 h)

theorem extOf_snoc (l e : String) (he : '.' ∉ e.toList) : extOf (l ++ "." ++ e) = e := by
  unfold extOf
  rw [splitOn_dot_snoc l e he, List.reverse_append]
  cases h : (l.splitOn ".").reverse with
  | nil =>
    have := splitOn_dot_ne_nil l
    simp only [List.reverse_eq_nil_iff] at h
    exact absurd h this
  | cons r rest => rfl

theorem supportedExt_noDot (e : String) (he : e ∈ supportedExts) : '.' ∉ e.toList := by
  simp only [supportedExts, List.mem_cons, List.not_mem_nil, or_false] at he
  rcases he with rfl | rfl | rfl | rfl | rfl | rfl <;> decide

theorem supportedExts_contains {e : String} (he : e ∈ supportedExts) :
    supportedExts.contains e = true := List.contains_iff_mem.2 he

theorem plainComp_of_length {s : String} (h : 2 < s.length) : plainComp s = true := by
  rw [plainComp_iff]
  refine ⟨?_, ?_, ?_⟩ <;> intro e <;> subst e <;> revert h <;> decide

theorem plainComp_layer (l e : String) (hl : 0 < l.length) (he : 0 < e.length) :
    plainComp (l ++ "." ++ e) = true := by
  apply plainComp_of_length
  rw [String.length_append, String.length_append]
  have : ".".length = 1 := by decide
  omega

theorem supportedExt_length_pos (e : String) (he : e ∈ supportedExts) : 0 < e.length := by
  simp only [supportedExts, List.mem_cons, List.not_mem_nil, or_false] at he
  rcases he with rfl | rfl | rfl | rfl | rfl | rfl <;> decide

/-! ## walking through link-free directories -/

/-- every non-empty prefix of `t`, put after `done`, is an existing entry that is not a link -/
def NoLinksAlong (fs : FS) (done : Comps) (t : List String) : Prop :=
  (∀ c ∈ t, plainComp c = true) ∧
    ∀ t', t' ≠ [] → t' <+: t → ∃ n, fs.lstat (done ++ t') = some n ∧ n.isLink = false

theorem NoLinksAlong.tail {fs : FS} {done : Comps} {c : String} {t : List String}
    (h : NoLinksAlong fs done (c :: t)) : NoLinksAlong fs (done ++ [c]) t := by
  refine ⟨fun x hx => h.1 x (List.mem_cons_of_mem _ hx), ?_⟩
  intro t' hne hp
  have := h.2 (c :: t') (by simp) ((List.cons_prefix_cons).2 ⟨rfl, hp⟩)
  simpa using this

theorem NoLinksAlong.head {fs : FS} {done : Comps} {c : String} {t : List String}
    (h : NoLinksAlong fs done (c :: t)) :
    plainComp c = true ∧ ∃ n, fs.lstat (done ++ [c]) = some n ∧ n.isLink = false :=
  ⟨h.1 c List.mem_cons_self, h.2 [c] (by simp) ((List.cons_prefix_cons).2 ⟨rfl, List.nil_prefix⟩)⟩

theorem resolve_succ_cons (fs : FS) (fuel : Nat) (done : Comps) (c : String) (rest : List String) :
    fs.resolve (fuel + 1) done (c :: rest) =
      if c == "." || c == "" then fs.resolve fuel done rest
      else if c == ".." then fs.resolve fuel done.dropLast rest
      else
        match fs.lstat (done ++ [c]) with
        | none => none
        | some (.link t) =>
          if isAbsPath t then fs.resolve fuel [] (splitPath t ++ rest)
          else fs.resolve fuel done (splitPath t ++ rest)
        | some _ => fs.resolve fuel (done ++ [c]) rest := by
  rw [FS.resolve]
  rfl

theorem resolve_step_plain {fs : FS} {fuel : Nat} {done : Comps} {c : String} {rest : List String}
    {n : FNode} (hc : plainComp c = true) (hl : fs.lstat (done ++ [c]) = some n)
    (hn : n.isLink = false) :
    fs.resolve (fuel + 1) done (c :: rest) = fs.resolve fuel (done ++ [c]) rest := by
  have hc' := (plainComp_iff c).1 hc
  rw [resolve_succ_cons, hl]
  cases n with
  | link t => cases hn
  | file d => simp [hc'.1, hc'.2.1, hc'.2.2]
  | dir => simp [hc'.1, hc'.2.1, hc'.2.2]

theorem resolve_step_missing {fs : FS} {fuel : Nat} {done : Comps} {c : String} {rest : List String}
    (hc : plainComp c = true) (hl : fs.lstat (done ++ [c]) = none) :
    fs.resolve (fuel + 1) done (c :: rest) = none := by
  have hc' := (plainComp_iff c).1 hc
  rw [resolve_succ_cons, hl]
  simp [hc'.1, hc'.2.1, hc'.2.2]

theorem resolve_through (fs : FS) : ∀ (t : List String) (done : Comps) (fuel : Nat) (rest : List String),
    NoLinksAlong fs done t →
      fs.resolve (fuel + t.length) done (t ++ rest) = fs.resolve fuel (done ++ t) rest
  | [], done, fuel, rest, _ => by simp
  | c :: t, done, fuel, rest, h => by
    obtain ⟨hc, n, hl, hn⟩ := h.head
    rw [List.length_cons, ← Nat.add_assoc, List.cons_append, resolve_step_plain hc hl hn,
      resolve_through fs t _ fuel rest h.tail]
    simp

theorem rootWalk_through (fs : FS) (root : Comps) : ∀ (t : List String) (cur : Comps) (fuel : Nat)
    (rest : List String) {links : Nat}, NoLinksAlong fs cur t →
      fs.rootWalk root (fuel + t.length) links cur (t ++ rest) =
        fs.rootWalk root fuel links (cur ++ t) rest
  | [], cur, fuel, rest, links, _ => by simp
  | c :: t, cur, fuel, rest, links, h => by
    obtain ⟨hc, n, hl, hn⟩ := h.head
    rw [List.length_cons, ← Nat.add_assoc, List.cons_append, rootWalk_step_plain hc hl hn,
      rootWalk_through fs root t _ fuel rest h.tail]
    simp

/-- `d` is an existing directory reached without symlinks (and of a sane depth) -/
def PlainDir (fs : FS) (d : Comps) : Prop :=
  NoLinksAlong fs [] d ∧ d.length + 2 ≤ linkFuel

theorem evalSymlinks_file {fs : FS} {d : Comps} {c : String} {n : FNode} (hd : PlainDir fs d)
    (hc : plainComp c = true) (hl : fs.lstat (d ++ [c]) = some n) (hn : n.isLink = false) :
    fs.evalSymlinks (d ++ [c]) = some (d ++ [c]) := by
  unfold FS.evalSymlinks
  obtain ⟨k, hk⟩ : ∃ k, linkFuel = (k + 2) + d.length := ⟨linkFuel - 2 - d.length, by have := hd.2; omega⟩
  rw [hk, resolve_through fs d [] (k + 2) [c] hd.1]
  simp only [List.nil_append]
  rw [resolve_step_plain hc hl hn]
  rfl

theorem evalSymlinks_missing {fs : FS} {d : Comps} {c : String} (hd : PlainDir fs d)
    (hc : plainComp c = true) (hl : fs.lstat (d ++ [c]) = none) :
    fs.evalSymlinks (d ++ [c]) = none := by
  unfold FS.evalSymlinks
  obtain ⟨k, hk⟩ : ∃ k, linkFuel = (k + 2) + d.length := ⟨linkFuel - 2 - d.length, by have := hd.2; omega⟩
  rw [hk, resolve_through fs d [] (k + 2) [c] hd.1]
  simp only [List.nil_append]
  rw [resolve_step_missing hc hl]

theorem evalSymlinks_dir {fs : FS} {d : Comps} (hd : PlainDir fs d) :
    fs.evalSymlinks d = some d := by
  unfold FS.evalSymlinks
  obtain ⟨k, hk⟩ : ∃ k, linkFuel = (k + 2) + d.length := ⟨linkFuel - 2 - d.length, by have := hd.2; omega⟩
  have := resolve_through fs d [] (k + 2) [] hd.1
  rw [List.append_nil] at this
  rw [hk, this]
  rfl

theorem rootOpen_plain {fs : FS} {d : Comps} {c : String} {docs : R (List Val)} (hd : PlainDir fs d)
    (hc : plainComp c = true) (hl : fs.lstat (d ++ [c]) = some (.file docs)) :
    fs.rootOpen [] (d ++ [c]) = docs := by
  rw [rootOpen_eq]
  obtain ⟨k, hk⟩ : ∃ k, linkFuel = (k + 2) + d.length := ⟨linkFuel - 2 - d.length, by have := hd.2; omega⟩
  rw [hk, rootWalk_through fs [] d [] (k + 2) [c] hd.1]
  simp only [List.nil_append]
  rw [rootWalk_step_plain hc hl rfl, rootWalk_nil]
  simp only [hl]

theorem rootWalk_plainDir {fs : FS} {d : Comps} (hd : PlainDir fs d) {links : Nat} :
    fs.rootWalk [] linkFuel links [] d = .ok d := by
  obtain ⟨k, hk⟩ : ∃ k, linkFuel = (k + 2) + d.length := ⟨linkFuel - 2 - d.length, by have := hd.2; omega⟩
  have := rootWalk_through fs [] d [] (k + 2) [] (links := links) hd.1
  rw [List.append_nil] at this
  rw [hk, this]
  rfl

/-! ## the rooted existence probe (`Parser.stat`) -/

theorem rootProbe_zero (fs : FS) (root cur : Comps) (todo : List String) {links : Nat} :
    fs.rootProbe root 0 links cur todo = .refused := rfl

theorem rootProbe_nil (fs : FS) (root cur : Comps) (fuel : Nat) {links : Nat} :
    fs.rootProbe root (fuel + 1) links cur [] = .found cur := rfl

theorem rootProbe_cons (fs : FS) (root cur : Comps) (fuel : Nat) (c : String) (rest : List String)
    {links : Nat} :
    fs.rootProbe root (fuel + 1) links cur (c :: rest) =
      if c == "." || c == "" then fs.rootProbe root fuel links cur rest
      else if c == ".." then
        if cur.length ≤ root.length then .refused
        else fs.rootProbe root fuel links cur.dropLast rest
      else
        match fs.lstat (cur ++ [c]) with
        | none => .missing
        | some (.link t) =>
          if isAbsPath t then .refused
          else if links ≥ rootMaxSymlinks then .refused
          else fs.rootProbe root fuel (links + 1) cur (splitPath t ++ rest)
        | some _ => fs.rootProbe root fuel links (cur ++ [c]) rest := by
  rw [FS.rootProbe]
  rfl

theorem rootProbe_step_plain {fs : FS} {root cur : Comps} {fuel links : Nat} {c : String}
    {rest : List String} {n : FNode} (hc : plainComp c = true)
    (hl : fs.lstat (cur ++ [c]) = some n) (hn : n.isLink = false) :
    fs.rootProbe root (fuel + 1) links cur (c :: rest) =
      fs.rootProbe root fuel links (cur ++ [c]) rest := by
  have hc' := (plainComp_iff c).1 hc
  rw [rootProbe_cons, hl]
  cases n with
  | link t => cases hn
  | file d => simp [hc'.1, hc'.2.1, hc'.2.2]
  | dir => simp [hc'.1, hc'.2.1, hc'.2.2]

theorem rootProbe_step_missing {fs : FS} {root cur : Comps} {fuel links : Nat} {c : String}
    {rest : List String} (hc : plainComp c = true) (hl : fs.lstat (cur ++ [c]) = none) :
    fs.rootProbe root (fuel + 1) links cur (c :: rest) = .missing := by
  have hc' := (plainComp_iff c).1 hc
  rw [rootProbe_cons, hl]
  simp [hc'.1, hc'.2.1, hc'.2.2]

theorem rootProbe_through (fs : FS) (root : Comps) : ∀ (t : List String) (cur : Comps) (fuel : Nat)
    (rest : List String) {links : Nat}, NoLinksAlong fs cur t →
      fs.rootProbe root (fuel + t.length) links cur (t ++ rest) =
        fs.rootProbe root fuel links (cur ++ t) rest
  | [], cur, fuel, rest, links, _ => by simp
  | c :: t, cur, fuel, rest, links, h => by
    obtain ⟨hc, n, hl, hn⟩ := h.head
    rw [List.length_cons, ← Nat.add_assoc, List.cons_append, rootProbe_step_plain hc hl hn,
      rootProbe_through fs root t _ fuel rest h.tail]
    simp

theorem rootExists_eq (fs : FS) (root : Comps) (rel : List String) :
    fs.rootExists root rel =
      match fs.rootProbe root linkFuel 0 root rel with
      | .missing => false
      | _ => true := rfl

/-- with no root set, a non-link entry of a link-free directory is seen … -/
theorem rootExists_file {fs : FS} {d : Comps} {c : String} {n : FNode} (hd : PlainDir fs d)
    (hc : plainComp c = true) (hl : fs.lstat (d ++ [c]) = some n) (hn : n.isLink = false) :
    fs.rootExists [] (d ++ [c]) = true := by
  rw [rootExists_eq]
  obtain ⟨k, hk⟩ : ∃ k, linkFuel = (k + 2) + d.length := ⟨linkFuel - 2 - d.length, by have := hd.2; omega⟩
  rw [hk, rootProbe_through fs [] d [] (k + 2) [c] hd.1]
  simp only [List.nil_append]
  rw [rootProbe_step_plain hc hl hn, rootProbe_nil]

/-- … and an absent one is reported missing -/
theorem rootExists_missing {fs : FS} {d : Comps} {c : String} (hd : PlainDir fs d)
    (hc : plainComp c = true) (hl : fs.lstat (d ++ [c]) = none) :
    fs.rootExists [] (d ++ [c]) = false := by
  rw [rootExists_eq]
  obtain ⟨k, hk⟩ : ∃ k, linkFuel = (k + 2) + d.length := ⟨linkFuel - 2 - d.length, by have := hd.2; omega⟩
  rw [hk, rootProbe_through fs [] d [] (k + 2) [c] hd.1]
  simp only [List.nil_append]
  rw [rootProbe_step_missing hc hl]

/-- parser.go:findFile with the rooted `Parser.stat` — the first supported extension for which
    `layer.ext` is not reported missing beneath `root` (what `fileParents` uses) -/
def FS.findRooted (fs : FS) (root dir : Comps) (layer : String) : Option Comps :=
  (supportedExts.map fun e => dir ++ [layer ++ "." ++ e]).find?
    (fun c => fs.rootExists root (relTo root c))

/-! ## `fileParents` -/

def parentNames (dirs : List ParentDir) : List String :=
  dirs.flatMap fun d => match d with | .names ns => ns | _ => []

def hasNoParent (dirs : List ParentDir) : Bool :=
  dirs.any fun d => match d with | .noParent => true | _ => false

/-- the filename rule: `a.b.yaml` has the parent layer `a` -/
def fromName (fs : FS) (cfg : RootCfg) (p : Comps) : R (List Comps) :=
  let parts := (baseOf p).splitOn "."
  if parts.length < 2 then .error .invalidFilename
  else if parts.length == 2 then .ok []
  else
    match fs.findRooted cfg.root (dirOf p) (".".intercalate (parts.take (parts.length - 2))) with
    | some f => .ok [f]
    | none => .error .missingFile

/-- the files one `$parent` name stands for -/
def globName (fs : FS) (cfg : RootCfg) (path : Comps) (n : String) : List Comps :=
  fs.globFiles cfg.root (cleanComps (dirOf path ++ splitPath n))

def globStep (fs : FS) (cfg : RootCfg) (path : Comps) (acc : List Comps) (n : String) : R (List Comps) :=
  if (globName fs cfg path n).isEmpty then .error .missingFile else .ok (acc ++ globName fs cfg path n)

theorem fileParents_eq (fs : FS) (cfg : RootCfg) (path : Comps) (docs : List Val) :
    fileParents fs cfg path docs =
      match docs.mapM parentDirective with
      | .error e => .error e
      | .ok dirs =>
        if hasNoParent dirs then
          if !(parentNames dirs).isEmpty then .error .conflictingParent else .ok []
        else if !(parentNames dirs).isEmpty then
          (parentNames dirs).foldlM (globStep fs cfg path) []
        else
          match fs.evalSymlinks path with
          | none => .error .other
          | some dest => fromName fs cfg dest := by
  unfold fileParents
  cases docs.mapM parentDirective with
  | error e => rfl
  | ok dirs =>
    simp only [R_bind_ok]
    rfl

/-! ## `loadFileAndParents` -/

def fileIdOf (childId : Option String) (path : Comps) : String :=
  match childId with
  | some c => c ++ "|" ++ pathStr path
  | none => pathStr path

def docIdsOf (fid : String) (n : Nat) : List String :=
  (List.range n).map fun i => fid ++ "|doc" ++ toString i

/-- the `for p in parents` loop of `loadFileAndParents` -/
def loadSubs (fs : FS) (cfg : RootCfg) (fuel : Nat) (fid : String) (docIds : List String)
    (chain : List Comps) : List Comps → List LFile → R (List LFile)
  | [], acc => .ok acc
  | p :: ps, acc =>
    match loadFileAndParents fs cfg fuel p (some fid) docIds chain with
    | .error e => .error e
    | .ok (fsub, _) => loadSubs fs cfg fuel fid docIds chain ps (acc ++ fsub)

/-- the loaded file itself: its documents point at the documents of every direct parent file -/
def mineOf (fid : String) (path : Comps) (raw : List Val) (parents : List Comps)
    (files : List LFile) : LFile :=
  { id := fid, path := path,
    docs := ((raw.map stripParent).zip (docIdsOf fid raw.length)).map fun (d, i) =>
      ({ id := i,
         parents := (files.filter (fun f => parents.any fun p => f.id == fid ++ "|" ++ pathStr p)).flatMap
           (fun f => f.docs.map (·.id)),
         data := d } : Doc) }

theorem loadFileAndParents_succ (fs : FS) (cfg : RootCfg) (fuel : Nat) (path : Comps)
    (childId : Option String) (c : List String) (chain : List Comps) :
    loadFileAndParents fs cfg (fuel + 1) path childId c chain =
      if chain.contains path then .error .circularRef
      else
        match loadFile fs cfg path (fileIdOf childId path) with
        | .error e => .error e
        | .ok raw =>
          match fileParents fs cfg path raw with
          | .error e => .error e
          | .ok parents =>
            match loadSubs fs cfg fuel (fileIdOf childId path)
                (docIdsOf (fileIdOf childId path) raw.length) (path :: chain) parents [] with
            | .error e => .error e
            | .ok files =>
              .ok (files ++ [mineOf (fileIdOf childId path) path raw parents files],
                docIdsOf (fileIdOf childId path) raw.length) := by
  rw [loadFileAndParents.eq_def]
  simp only []
  by_cases hc : chain.contains path = true
  · simp only [hc, if_true]; rfl
  · simp only [hc, if_false, Bool.false_eq_true]
    show (do
      let raw ← loadFile fs cfg path (fileIdOf childId path)
      _) = _
    cases loadFile fs cfg path (fileIdOf childId path) with
    | error e => rfl
    | ok raw =>
      simp only [R_bind_ok]
      cases fileParents fs cfg path raw with
      | error e => rfl
      | ok parents =>
        simp only [R_bind_ok]
        have key : ∀ (ps : List Comps) (acc : List LFile),
            (forIn ps acc fun p (r : List LFile) => do
              let __x ← loadFileAndParents fs cfg fuel p (some (fileIdOf childId path))
                (docIdsOf (fileIdOf childId path) raw.length) (path :: chain)
              match __x with
              | (fsub, snd) => pure (ForInStep.yield (r ++ fsub))) =
            loadSubs fs cfg fuel (fileIdOf childId path)
              (docIdsOf (fileIdOf childId path) raw.length) (path :: chain) ps acc := by
          intro ps
          induction ps with
          | nil => intro acc; rfl
          | cons p ps ih =>
            intro acc
            rw [List.forIn_cons, loadSubs]
            cases loadFileAndParents fs cfg fuel p (some (fileIdOf childId path))
                (docIdsOf (fileIdOf childId path) raw.length) (path :: chain) with
            | error e => rfl
            | ok r =>
              obtain ⟨fsub, x⟩ := r
              simp only [R_bind_ok, R_pure_eq]
              exact ih _
        have := key parents []
        simp only [fileIdOf, docIdsOf] at this ⊢
        erw [this]
        cases loadSubs fs cfg fuel _ _ (path :: chain) parents [] with
        | error e => rfl
        | ok files => rfl

/-! ## `parentDirective` -/

theorem parentDirective_error (v : Val) (e : Err) (h : parentDirective v = .error e) :
    e = .invalidParent := by
  unfold parentDirective at h
  split at h
  · split at h
    · cases h
    · cases h
    · split at h
      · cases h
      · cases h; rfl
    · split at h
      · cases h; rfl
      · cases h
    · cases h
    · cases h
  · cases h

theorem parentDirective_map (kvs : Fields) :
    parentDirective (.map kvs) =
      match fget kvs "$parent" with
      | none => .ok .absent
      | some (.str s) => .ok (.names [s])
      | some (.list l) =>
        match toStringList l with
        | .ok ns => .ok (.names ns)
        | .error _ => .error .invalidParent
      | some (.bool b) => if b then .error .invalidParent else .ok .noParent
      | some .null => .ok .noParent
      | some _ => .ok (.names []) := rfl

theorem stripParent_of_absent (v : Val) (h : parentDirective v = .ok .absent) : stripParent v = v := by
  cases v with
  | map kvs =>
    rw [parentDirective_map] at h
    have : fget kvs "$parent" = none := by
      split at h
      · assumption
      · cases h
      · split at h <;> cases h
      · split at h <;> cases h
      · cases h
      · cases h
    simp [stripParent, fhas, this]
  | _ => rfl

theorem mapM_parentDirective_absent (docs : List Val)
    (h : ∀ d ∈ docs, parentDirective d = .ok .absent) :
    docs.mapM parentDirective = .ok (docs.map fun _ => ParentDir.absent) := by
  rw [mapM_R_ok_iff]
  induction docs with
  | nil => exact Forall2.nil
  | cons d ds ih =>
    exact Forall2.cons (h d List.mem_cons_self) (ih fun x hx => h x (List.mem_cons_of_mem _ hx))

theorem parentNames_absent (docs : List Val) :
    parentNames (docs.map fun _ => ParentDir.absent) = [] := by
  induction docs with
  | nil => rfl
  | cons d ds ih => simp [parentNames]

theorem hasNoParent_absent (docs : List Val) :
    hasNoParent (docs.map fun _ => ParentDir.absent) = false := by
  induction docs with
  | nil => rfl
  | cons d ds ih => simp [hasNoParent]

/-- without any `$parent` directive the parents come from the (resolved) file name -/
theorem fileParents_no_directive (fs : FS) (cfg : RootCfg) (path : Comps) (docs : List Val)
    (h : ∀ d ∈ docs, parentDirective d = .ok .absent) :
    fileParents fs cfg path docs =
      match fs.evalSymlinks path with
      | none => .error .other
      | some dest => fromName fs cfg dest := by
  rw [fileParents_eq, mapM_parentDirective_absent docs h]
  simp only [hasNoParent_absent, parentNames_absent]
  rfl

/-! ## `findFile` -/

theorem findFile_eq (fs : FS) (dir : Comps) (layer : String) :
    fs.findFile dir layer = (supportedExts.map fun e => dir ++ [layer ++ "." ++ e]).find? fs.exists :=
  rfl

theorem findFile_some (fs : FS) (dir : Comps) (layer : String) (f : Comps)
    (h : fs.findFile dir layer = some f) :
    ∃ e, e ∈ supportedExts ∧ f = dir ++ [layer ++ "." ++ e] ∧ fs.exists f = true := by
  rw [findFile_eq] at h
  have h1 := List.mem_of_find?_eq_some h
  have h2 := List.find?_some h
  obtain ⟨e, he, rfl⟩ := List.mem_map.1 h1
  exact ⟨e, he, rfl, h2⟩

theorem find?_map_unique {α β : Type} [DecidableEq α] (g : α → β) (ex : β → Bool) (a₀ : α) :
    ∀ (l : List α), a₀ ∈ l → ex (g a₀) = true → (∀ a ∈ l, a ≠ a₀ → ex (g a) = false) →
      (l.map g).find? ex = some (g a₀)
  | [], h, _, _ => nomatch h
  | a :: l, h, h1, h2 => by
    rw [List.map_cons, List.find?_cons]
    by_cases ha : a = a₀
    · subst ha; rw [h1]
    · rw [h2 a List.mem_cons_self ha]
      have : a₀ ∈ l := by
        rcases List.mem_cons.1 h with e | e
        · exact absurd e.symm ha
        · exact e
      exact find?_map_unique g ex a₀ l this h1 (fun x hx => h2 x (List.mem_cons_of_mem _ hx))

/-- the layer `layer` is provided by exactly one file `layer.e₀` of the link-free directory `d` -/
structure LayerFile (fs : FS) (d : Comps) (layer e₀ : String) (content : R (List Val)) : Prop where
  ext : e₀ ∈ supportedExts
  file : fs.lstat (d ++ [layer ++ "." ++ e₀]) = some (.file content)
  unique : ∀ e ∈ supportedExts, e ≠ e₀ → fs.lstat (d ++ [layer ++ "." ++ e]) = none

theorem exists_layer_file {fs : FS} {d : Comps} {layer e : String} {n : FNode} (hd : PlainDir fs d)
    (hl : 0 < layer.length) (he : e ∈ supportedExts)
    (h : fs.lstat (d ++ [layer ++ "." ++ e]) = some n) (hn : n.isLink = false) :
    fs.exists (d ++ [layer ++ "." ++ e]) = true := by
  unfold FS.exists
  rw [evalSymlinks_file hd (plainComp_layer _ _ hl (supportedExt_length_pos e he)) h hn]
  rfl

theorem exists_layer_missing {fs : FS} {d : Comps} {layer e : String} (hd : PlainDir fs d)
    (hl : 0 < layer.length) (he : e ∈ supportedExts)
    (h : fs.lstat (d ++ [layer ++ "." ++ e]) = none) :
    fs.exists (d ++ [layer ++ "." ++ e]) = false := by
  unfold FS.exists
  rw [evalSymlinks_missing hd (plainComp_layer _ _ hl (supportedExt_length_pos e he)) h]
  rfl

theorem findFile_layerFile {fs : FS} {d : Comps} {layer e₀ : String} {content : R (List Val)}
    (hd : PlainDir fs d) (hl : 0 < layer.length) (h : LayerFile fs d layer e₀ content) :
    fs.findFile d layer = some (d ++ [layer ++ "." ++ e₀]) := by
  rw [findFile_eq]
  exact find?_map_unique (fun e => d ++ [layer ++ "." ++ e]) fs.exists e₀ supportedExts h.ext
    (exists_layer_file hd hl h.ext h.file rfl)
    (fun e he hne => exists_layer_missing hd hl he (h.unique e he hne))

theorem findFile_none_of_missing {fs : FS} {d : Comps} {layer : String}
    (hd : PlainDir fs d) (hl : 0 < layer.length)
    (h : ∀ e ∈ supportedExts, fs.lstat (d ++ [layer ++ "." ++ e]) = none) :
    fs.findFile d layer = none := by
  rw [findFile_eq, List.find?_eq_none]
  intro x hx
  obtain ⟨e, he, rfl⟩ := List.mem_map.1 hx
  simp [exists_layer_missing hd hl he (h e he)]

/-! ## `findRooted` (the probe `fileParents` uses) -/

theorem findRooted_eq (fs : FS) (root dir : Comps) (layer : String) :
    fs.findRooted root dir layer =
      (supportedExts.map fun e => dir ++ [layer ++ "." ++ e]).find?
        (fun c => fs.rootExists root (relTo root c)) := rfl

theorem findRooted_some (fs : FS) (root dir : Comps) (layer : String) (f : Comps)
    (h : fs.findRooted root dir layer = some f) :
    ∃ e, e ∈ supportedExts ∧ f = dir ++ [layer ++ "." ++ e] ∧
      fs.rootExists root (relTo root f) = true := by
  rw [findRooted_eq] at h
  have h1 := List.mem_of_find?_eq_some h
  have h2 := List.find?_some h
  obtain ⟨e, he, rfl⟩ := List.mem_map.1 h1
  exact ⟨e, he, rfl, h2⟩

theorem rootExists_layer_file {fs : FS} {d : Comps} {layer e : String} {n : FNode} (hd : PlainDir fs d)
    (hl : 0 < layer.length) (he : e ∈ supportedExts)
    (h : fs.lstat (d ++ [layer ++ "." ++ e]) = some n) (hn : n.isLink = false) :
    fs.rootExists [] (relTo [] (d ++ [layer ++ "." ++ e])) = true := by
  rw [relTo_nil]
  exact rootExists_file hd (plainComp_layer _ _ hl (supportedExt_length_pos e he)) h hn

theorem rootExists_layer_missing {fs : FS} {d : Comps} {layer e : String} (hd : PlainDir fs d)
    (hl : 0 < layer.length) (he : e ∈ supportedExts)
    (h : fs.lstat (d ++ [layer ++ "." ++ e]) = none) :
    fs.rootExists [] (relTo [] (d ++ [layer ++ "." ++ e])) = false := by
  rw [relTo_nil]
  exact rootExists_missing hd (plainComp_layer _ _ hl (supportedExt_length_pos e he)) h

theorem findRooted_layerFile {fs : FS} {d : Comps} {layer e₀ : String} {content : R (List Val)}
    (hd : PlainDir fs d) (hl : 0 < layer.length) (h : LayerFile fs d layer e₀ content) :
    fs.findRooted [] d layer = some (d ++ [layer ++ "." ++ e₀]) := by
  rw [findRooted_eq]
  exact find?_map_unique (fun e => d ++ [layer ++ "." ++ e])
    (fun c => fs.rootExists [] (relTo [] c)) e₀ supportedExts h.ext
    (rootExists_layer_file hd hl h.ext h.file rfl)
    (fun e he hne => rootExists_layer_missing hd hl he (h.unique e he hne))

theorem findRooted_none_of_missing {fs : FS} {d : Comps} {layer : String}
    (hd : PlainDir fs d) (hl : 0 < layer.length)
    (h : ∀ e ∈ supportedExts, fs.lstat (d ++ [layer ++ "." ++ e]) = none) :
    fs.findRooted [] d layer = none := by
  rw [findRooted_eq, List.find?_eq_none]
  intro x hx
  obtain ⟨e, he, rfl⟩ := List.mem_map.1 hx
  simp [rootExists_layer_missing hd hl he (h e he)]

/-! ## path pieces -/

theorem baseOf_snoc (d : Comps) (c : String) : baseOf (d ++ [c]) = c := by
  simp [baseOf, List.getLastD_eq_getLast?]

theorem dirOf_snoc (d : Comps) (c : String) : dirOf (d ++ [c]) = d := by
  simp [dirOf]

theorem loadFile_layerFile {fs : FS} {d : Comps} {layer e₀ : String} {content : R (List Val)}
    (hd : PlainDir fs d) (hl : 0 < layer.length) (h : LayerFile fs d layer e₀ content)
    (cwd : Comps) (fid : String) :
    loadFile fs ⟨[], cwd⟩ (d ++ [layer ++ "." ++ e₀]) fid = content := by
  rw [loadFile_eq, baseOf_snoc, extOf_snoc _ _ (supportedExt_noDot _ h.ext),
    supportedExts_contains h.ext]
  simp only [if_true, relTo_nil]
  exact rootOpen_plain hd (plainComp_layer _ _ hl (supportedExt_length_pos _ h.ext)) h.file

theorem evalSymlinks_layerFile {fs : FS} {d : Comps} {layer e₀ : String} {content : R (List Val)}
    (hd : PlainDir fs d) (hl : 0 < layer.length) (h : LayerFile fs d layer e₀ content) :
    fs.evalSymlinks (d ++ [layer ++ "." ++ e₀]) = some (d ++ [layer ++ "." ++ e₀]) :=
  evalSymlinks_file hd (plainComp_layer _ _ hl (supportedExt_length_pos _ h.ext)) h.file rfl

/-! ## filename chains -/

theorem fromName_snoc (fs : FS) (cfg : RootCfg) (d : Comps) (l e : String) (he : '.' ∉ e.toList) :
    fromName fs cfg (d ++ [l ++ "." ++ e]) =
      if (l.splitOn ".").length = 1 then .ok []
      else
        match fs.findRooted cfg.root d (".".intercalate (l.splitOn ".").dropLast) with
        | some f => .ok [f]
        | none => .error .missingFile := by
  unfold fromName
  rw [baseOf_snoc, dirOf_snoc, splitOn_dot_snoc l e he]
  have hne := splitOn_dot_ne_nil l
  have hlen : 0 < (l.splitOn ".").length := List.length_pos_iff.2 hne
  simp only [List.length_append, List.length_cons, List.length_nil]
  have h1 : ¬ ((l.splitOn ".").length + (0 + 1) < 2) := by omega
  rw [if_neg h1]
  by_cases h2 : (l.splitOn ".").length = 1
  · simp [h2]
  · have h3 : ((l.splitOn ".").length + (0 + 1) == 2) = false := by
      simp only [beq_eq_false_iff_ne]; omega
    rw [if_neg h2]
    simp only [h3, Bool.false_eq_true, if_false]
    have h4 : (l.splitOn ".").length + (0 + 1) - 2 = (l.splitOn ".").length - 1 := by omega
    rw [h4, List.take_append_of_le_length (by omega), ← List.dropLast_eq_take]
    all_goals rfl

theorem append_bar_ne_self (s t : String) : s ++ "|" ++ t ≠ s := by
  intro h
  have := congrArg String.length h
  rw [String.length_append, String.length_append] at this
  have h2 : "|".length = 1 := by decide
  omega

theorem lfp_leaf {fs : FS} {cfg : RootCfg} {fuel : Nat} {path : Comps} {childId : Option String}
    {c : List String} {chain : List Comps} {raw : List Val}
    (hc : chain.contains path = false)
    (hl : loadFile fs cfg path (fileIdOf childId path) = .ok raw)
    (hp : fileParents fs cfg path raw = .ok []) :
    loadFileAndParents fs cfg (fuel + 1) path childId c chain =
      .ok ([mineOf (fileIdOf childId path) path raw [] []],
        docIdsOf (fileIdOf childId path) raw.length) := by
  rw [loadFileAndParents_succ, hc, hl]
  simp only [Bool.false_eq_true, if_false, hp, loadSubs, List.nil_append]

theorem lfp_single {fs : FS} {cfg : RootCfg} {fuel : Nat} {path q : Comps}
    {childId : Option String} {c : List String} {chain : List Comps} {raw : List Val}
    {sub : List LFile} {ids : List String}
    (hc : chain.contains path = false)
    (hl : loadFile fs cfg path (fileIdOf childId path) = .ok raw)
    (hp : fileParents fs cfg path raw = .ok [q])
    (hq : loadFileAndParents fs cfg fuel q (some (fileIdOf childId path))
      (docIdsOf (fileIdOf childId path) raw.length) (path :: chain) = .ok (sub, ids)) :
    loadFileAndParents fs cfg (fuel + 1) path childId c chain =
      .ok (sub ++ [mineOf (fileIdOf childId path) path raw [q] sub],
        docIdsOf (fileIdOf childId path) raw.length) := by
  rw [loadFileAndParents_succ, hc, hl]
  simp only [Bool.false_eq_true, if_false, hp, loadSubs, hq, List.nil_append]

/-- the single document of a one-document file -/
def oneDoc (fid : String) (parents : List String) (v : Val) : Doc :=
  { id := fid ++ "|doc" ++ toString 0, parents := parents, data := v }

theorem mineOf_one (fid : String) (path : Comps) (v : Val) (parents : List Comps)
    (files : List LFile) (hv : parentDirective v = .ok .absent) :
    mineOf fid path [v] parents files =
      { id := fid, path := path,
        docs := [oneDoc fid ((files.filter (fun f => parents.any fun p =>
          f.id == fid ++ "|" ++ pathStr p)).flatMap (fun f => f.docs.map (·.id))) v] } := by
  simp [mineOf, docIdsOf, oneDoc, stripParent_of_absent v hv, List.range_succ]

theorem fileParents_layer {fs : FS} {d : Comps} {l e : String} {content : R (List Val)}
    {docs : List Val} (cfg : RootCfg) (hd : PlainDir fs d) (hl : 0 < l.length)
    (h : LayerFile fs d l e content)
    (hdocs : ∀ x ∈ docs, parentDirective x = .ok .absent) :
    fileParents fs cfg (d ++ [l ++ "." ++ e]) docs =
      if (l.splitOn ".").length = 1 then .ok []
      else
        match fs.findRooted cfg.root d (".".intercalate (l.splitOn ".").dropLast) with
        | some f => .ok [f]
        | none => .error .missingFile := by
  rw [fileParents_no_directive fs cfg _ docs hdocs, evalSymlinks_layerFile hd hl h]
  exact fromName_snoc fs cfg d l e (supportedExt_noDot e h.ext)

theorem parts_a : "a".splitOn "." = ["a"] := by rw [splitOn_dot]; decide
theorem parts_ab : "a.b".splitOn "." = ["a", "b"] := by rw [splitOn_dot]; decide
theorem parts_abc : "a.b.c".splitOn "." = ["a", "b", "c"] := by rw [splitOn_dot]; decide

theorem layer_path_ne (d : Comps) (l₁ l₂ e₁ e₂ : String) (h₁ : '.' ∉ e₁.toList) (h₂ : '.' ∉ e₂.toList)
    (hl : (l₁.splitOn ".").length ≠ (l₂.splitOn ".").length) :
    (d ++ [l₁ ++ "." ++ e₁] == d ++ [l₂ ++ "." ++ e₂]) = false := by
  rw [beq_eq_false_iff_ne]
  intro h
  have h' : l₁ ++ "." ++ e₁ = l₂ ++ "." ++ e₂ := by
    have := List.append_cancel_left h
    simpa using this
  have := congrArg (fun s => (String.splitOn s ".").length) h'
  simp only [splitOn_dot_snoc _ _ h₁, splitOn_dot_snoc _ _ h₂, List.length_append,
    List.length_cons, List.length_nil] at this
  exact hl (by omega)

section chain
variable {fs : FS} {d cwd : Comps} {e₁ e₂ e₃ : String} {v₁ v₂ v₃ : Val}

/-- depth 1: `a.e₁` alone -/
theorem chain1 (hd : PlainDir fs d) (h₁ : LayerFile fs d "a" e₁ (.ok [v₁]))
    (a₁ : parentDirective v₁ = .ok .absent) (fuel : Nat) (childId : Option String)
    (c : List String) (chain : List Comps)
    (hc : chain.contains (d ++ ["a" ++ "." ++ e₁]) = false) :
    loadFileAndParents fs ⟨[], cwd⟩ (fuel + 1) (d ++ ["a" ++ "." ++ e₁]) childId c chain =
      .ok ([{ id := fileIdOf childId (d ++ ["a" ++ "." ++ e₁]), path := d ++ ["a" ++ "." ++ e₁],
              docs := [oneDoc (fileIdOf childId (d ++ ["a" ++ "." ++ e₁])) [] v₁] }],
        [fileIdOf childId (d ++ ["a" ++ "." ++ e₁]) ++ "|doc" ++ toString 0]) := by
  have hp : fileParents fs ⟨[], cwd⟩ (d ++ ["a" ++ "." ++ e₁]) [v₁] = .ok [] := by
    rw [fileParents_layer ⟨[], cwd⟩ hd (by decide) h₁ (by simpa using a₁), parts_a]; rfl
  rw [lfp_leaf hc (loadFile_layerFile hd (by decide) h₁ cwd _) hp, mineOf_one _ _ _ _ _ a₁]
  simp [docIdsOf, List.range_succ]

theorem contains_cons_layer (chain : List Comps) (p q : Comps) (hne : (q == p) = false)
    (hc : chain.contains q = false) : (p :: chain).contains q = false := by
  rw [List.contains_cons, hne, hc]; rfl

/-- depth 2: `a.b.e₂` on top of `a.e₁` -/
theorem chain2 (hd : PlainDir fs d) (h₁ : LayerFile fs d "a" e₁ (.ok [v₁]))
    (h₂ : LayerFile fs d "a.b" e₂ (.ok [v₂]))
    (a₁ : parentDirective v₁ = .ok .absent) (a₂ : parentDirective v₂ = .ok .absent)
    (fuel : Nat) (childId : Option String) (c : List String) (chain : List Comps)
    (hc2 : chain.contains (d ++ ["a.b" ++ "." ++ e₂]) = false)
    (hc1 : chain.contains (d ++ ["a" ++ "." ++ e₁]) = false) :
    loadFileAndParents fs ⟨[], cwd⟩ (fuel + 2) (d ++ ["a.b" ++ "." ++ e₂]) childId c chain =
      .ok ([{ id := fileIdOf childId (d ++ ["a.b" ++ "." ++ e₂]) ++ "|" ++ pathStr (d ++ ["a" ++ "." ++ e₁]),
              path := d ++ ["a" ++ "." ++ e₁],
              docs := [oneDoc (fileIdOf childId (d ++ ["a.b" ++ "." ++ e₂]) ++ "|" ++
                pathStr (d ++ ["a" ++ "." ++ e₁])) [] v₁] },
            { id := fileIdOf childId (d ++ ["a.b" ++ "." ++ e₂]), path := d ++ ["a.b" ++ "." ++ e₂],
              docs := [oneDoc (fileIdOf childId (d ++ ["a.b" ++ "." ++ e₂]))
                [fileIdOf childId (d ++ ["a.b" ++ "." ++ e₂]) ++ "|" ++
                  pathStr (d ++ ["a" ++ "." ++ e₁]) ++ "|doc" ++ toString 0] v₂] }],
        [fileIdOf childId (d ++ ["a.b" ++ "." ++ e₂]) ++ "|doc" ++ toString 0]) := by
  have hp : fileParents fs ⟨[], cwd⟩ (d ++ ["a.b" ++ "." ++ e₂]) [v₂] = .ok [d ++ ["a" ++ "." ++ e₁]] := by
    rw [fileParents_layer ⟨[], cwd⟩ hd (by decide) h₂ (by simpa using a₂), parts_ab]
    have : ".".intercalate (["a", "b"] : List String).dropLast = "a" := by decide
    rw [this, findRooted_layerFile hd (by decide) h₁]
    rfl
  have hne : (d ++ ["a" ++ "." ++ e₁] == d ++ ["a.b" ++ "." ++ e₂]) = false :=
    layer_path_ne d _ _ _ _ (supportedExt_noDot _ h₁.ext) (supportedExt_noDot _ h₂.ext)
      (by rw [parts_a, parts_ab]; decide)
  have hq := chain1 (cwd := cwd) hd h₁ a₁ fuel (some (fileIdOf childId (d ++ ["a.b" ++ "." ++ e₂])))
    (docIdsOf (fileIdOf childId (d ++ ["a.b" ++ "." ++ e₂])) [v₂].length)
    ((d ++ ["a.b" ++ "." ++ e₂]) :: chain) (contains_cons_layer _ _ _ hne hc1)
  rw [lfp_single hc2 (loadFile_layerFile hd (by decide) h₂ cwd _) hp hq, mineOf_one _ _ _ _ _ a₂]
  simp [docIdsOf, List.range_succ, fileIdOf, oneDoc]

/-- depth 3: `a.b.c.e₃` on top of `a.b.e₂` on top of `a.e₁` -/
theorem chain3 (hd : PlainDir fs d) (h₁ : LayerFile fs d "a" e₁ (.ok [v₁]))
    (h₂ : LayerFile fs d "a.b" e₂ (.ok [v₂])) (h₃ : LayerFile fs d "a.b.c" e₃ (.ok [v₃]))
    (a₁ : parentDirective v₁ = .ok .absent) (a₂ : parentDirective v₂ = .ok .absent)
    (a₃ : parentDirective v₃ = .ok .absent)
    (fuel : Nat) (childId : Option String) (c : List String) (chain : List Comps)
    (hc3 : chain.contains (d ++ ["a.b.c" ++ "." ++ e₃]) = false)
    (hc2 : chain.contains (d ++ ["a.b" ++ "." ++ e₂]) = false)
    (hc1 : chain.contains (d ++ ["a" ++ "." ++ e₁]) = false) :
    loadFileAndParents fs ⟨[], cwd⟩ (fuel + 3) (d ++ ["a.b.c" ++ "." ++ e₃]) childId c chain =
      .ok ([{ id := fileIdOf childId (d ++ ["a.b.c" ++ "." ++ e₃]) ++ "|" ++
                pathStr (d ++ ["a.b" ++ "." ++ e₂]) ++ "|" ++ pathStr (d ++ ["a" ++ "." ++ e₁]),
              path := d ++ ["a" ++ "." ++ e₁],
              docs := [oneDoc (fileIdOf childId (d ++ ["a.b.c" ++ "." ++ e₃]) ++ "|" ++
                pathStr (d ++ ["a.b" ++ "." ++ e₂]) ++ "|" ++ pathStr (d ++ ["a" ++ "." ++ e₁])) [] v₁] },
            { id := fileIdOf childId (d ++ ["a.b.c" ++ "." ++ e₃]) ++ "|" ++
                pathStr (d ++ ["a.b" ++ "." ++ e₂]),
              path := d ++ ["a.b" ++ "." ++ e₂],
              docs := [oneDoc (fileIdOf childId (d ++ ["a.b.c" ++ "." ++ e₃]) ++ "|" ++
                  pathStr (d ++ ["a.b" ++ "." ++ e₂]))
                [fileIdOf childId (d ++ ["a.b.c" ++ "." ++ e₃]) ++ "|" ++
                  pathStr (d ++ ["a.b" ++ "." ++ e₂]) ++ "|" ++ pathStr (d ++ ["a" ++ "." ++ e₁]) ++
                  "|doc" ++ toString 0] v₂] },
            { id := fileIdOf childId (d ++ ["a.b.c" ++ "." ++ e₃]),
              path := d ++ ["a.b.c" ++ "." ++ e₃],
              docs := [oneDoc (fileIdOf childId (d ++ ["a.b.c" ++ "." ++ e₃]))
                [fileIdOf childId (d ++ ["a.b.c" ++ "." ++ e₃]) ++ "|" ++
                  pathStr (d ++ ["a.b" ++ "." ++ e₂]) ++ "|doc" ++ toString 0] v₃] }],
        [fileIdOf childId (d ++ ["a.b.c" ++ "." ++ e₃]) ++ "|doc" ++ toString 0]) := by
  have hp : fileParents fs ⟨[], cwd⟩ (d ++ ["a.b.c" ++ "." ++ e₃]) [v₃] = .ok [d ++ ["a.b" ++ "." ++ e₂]] := by
    rw [fileParents_layer ⟨[], cwd⟩ hd (by decide) h₃ (by simpa using a₃), parts_abc]
    have : ".".intercalate (["a", "b", "c"] : List String).dropLast = "a.b" := by decide
    rw [this, findRooted_layerFile hd (by decide) h₂]
    rfl
  have hne2 : (d ++ ["a.b" ++ "." ++ e₂] == d ++ ["a.b.c" ++ "." ++ e₃]) = false :=
    layer_path_ne d _ _ _ _ (supportedExt_noDot _ h₂.ext) (supportedExt_noDot _ h₃.ext)
      (by rw [parts_ab, parts_abc]; decide)
  have hne1 : (d ++ ["a" ++ "." ++ e₁] == d ++ ["a.b.c" ++ "." ++ e₃]) = false :=
    layer_path_ne d _ _ _ _ (supportedExt_noDot _ h₁.ext) (supportedExt_noDot _ h₃.ext)
      (by rw [parts_a, parts_abc]; decide)
  have hq := chain2 (cwd := cwd) hd h₁ h₂ a₁ a₂ fuel
    (some (fileIdOf childId (d ++ ["a.b.c" ++ "." ++ e₃])))
    (docIdsOf (fileIdOf childId (d ++ ["a.b.c" ++ "." ++ e₃])) [v₃].length)
    ((d ++ ["a.b.c" ++ "." ++ e₃]) :: chain) (contains_cons_layer _ _ _ hne2 hc2)
    (contains_cons_layer _ _ _ hne1 hc1)
  rw [lfp_single hc3 (loadFile_layerFile hd (by decide) h₃ cwd _) hp hq, mineOf_one _ _ _ _ _ a₃]
  simp [docIdsOf, List.range_succ, fileIdOf, oneDoc, append_bar_ne_self]
end chain

/-! ## `Array.qsort` only permutes -/

theorem qpartition_loop_perm {α : Type} {n : Nat} (lt : α → α → Bool) (lo hi : Nat) (hhi : hi < n)
    (pivot : α) (as : Vector α n) (i k : Nat) (ilo : lo ≤ i) (ik : i ≤ k) (w : k ≤ hi) :
    (Array.qpartition.loop lt lo hi hhi pivot as i k ilo ik w).2.Perm as := by
  fun_induction Array.qpartition.loop lt lo hi hhi pivot as i k ilo ik w with
  | case1 as i k ilo ik w h hlt ih => exact ih.trans (Vector.swap_perm _ _)
  | case2 as i k ilo ik w h hlt ih => exact ih
  | case3 as i k ilo ik w h => exact Vector.swap_perm (by omega) hhi

theorem qpartition_perm {α : Type} {n : Nat} (lt : α → α → Bool) (as : Vector α n) (lo hi : Nat)
    (w : lo ≤ hi) (hlo : lo < n) (hhi : hi < n) :
    (Array.qpartition as lt lo hi w hlo hhi).2.Perm as := by
  unfold Array.qpartition
  simp only []
  refine (qpartition_loop_perm ..).trans ?_
  have sw : ∀ (v : Vector α n) (c : Bool) (i j : Nat) (hi : i < n) (hj : j < n),
      (if c = true then v.swap i j hi hj else v).Perm v := by
    intro v c i j hi hj
    cases c
    · exact Vector.Perm.refl _
    · exact Vector.swap_perm hi hj
  exact ((sw _ _ _ _ _ _).trans (sw _ _ _ _ _ _)).trans (sw _ _ _ _ _ _)

theorem qsort_sort_perm {α : Type} {n : Nat} (lt : α → α → Bool) (as : Vector α n) (lo hi : Nat)
    (w : lo ≤ hi) (hlo : lo < n) (hhi : hi < n) :
    (Array.qsort.sort lt as lo hi w hlo hhi).Perm as := by
  fun_induction Array.qsort.sort lt as lo hi w hlo hhi with
  | case1 as lo hi w hlo hhi h₁ mid hmid as' hp h₂ =>
    have := qpartition_perm lt as lo hi w hlo hhi
    rw [hp] at this
    exact this
  | case2 as lo hi w hlo hhi h₁ mid hmid as' hp h₂ ih1 ih1' ih2 =>
    have := qpartition_perm lt as lo hi w hlo hhi
    rw [hp] at this
    exact (ih2.trans ih1).trans this
  | case3 as lo hi w hlo hhi h₁ => exact Vector.Perm.refl _

theorem mem_qsort {α : Type} (lt : α → α → Bool) (as : Array α) (x : α) :
    x ∈ (as.qsort lt).toList ↔ x ∈ as.toList := by
  unfold Array.qsort
  split
  · exact Iff.rfl
  · simp only []
    have := qsort_sort_perm lt as.toVector (min 0 (as.size - 1))
      (max (min 0 (as.size - 1)) (min (as.size - 1) (as.size - 1))) (by omega) (by omega) (by omega)
    have h2 := (Vector.perm_iff_toList_perm.1 this).mem_iff (a := x)
    simpa using h2

/-! ## globbing -/

theorem qsort_singleton {α : Type} (lt : α → α → Bool) (x : α) : (#[x].qsort lt) = #[x] := by
  unfold Array.qsort
  simp
  unfold Array.qsort.sort
  simp

/-- the names of the entries of `rdir` that `base.*` selects -/
def globNames (fs : FS) (rdir : Comps) (base : String) : List String :=
  ((fs.entries.filter (fun e => e.1.dropLast == rdir && !e.1.isEmpty)).map (fun e => baseOf e.1)).filter
    fun n =>
      globMatch (base ++ ".*").toList n.toList ((base ++ ".*").length + n.length + 1)
        && countDots n == countDots (base ++ ".*") && supportedExts.contains (extOf n)

/-- the (unsorted) names in the directory `real` -/
def dirNames (fs : FS) (real : Comps) : List String :=
  (fs.entries.filter (fun e => e.1.dropLast == real && !e.1.isEmpty)).map (fun e => baseOf e.1)

/-- what `globFiles` asks of a name for the pattern `base.*` -/
def globSel (base n : String) : Bool :=
  globMatch (base ++ ".*").toList n.toList ((base ++ ".*").length + n.length + 1)
    && countDots n == countDots (base ++ ".*") && supportedExts.contains (extOf n)

theorem globNames_eq (fs : FS) (rdir : Comps) (base : String) :
    globNames fs rdir base = (dirNames fs rdir).filter (globSel base) := rfl

theorem qsort_perm {α : Type} (lt : α → α → Bool) (as : Array α) :
    (as.qsort lt).toList.Perm as.toList := by
  unfold Array.qsort
  split
  · exact List.Perm.refl _
  · simp only []
    have := qsort_sort_perm lt as.toVector (min 0 (as.size - 1))
      (max (min 0 (as.size - 1)) (min (as.size - 1) (as.size - 1))) (by omega) (by omega) (by omega)
    exact Vector.perm_iff_toList_perm.1 this

theorem rootReadDir_eq (fs : FS) (root : Comps) (rel : List String) :
    fs.rootReadDir root rel =
      match fs.rootWalk root linkFuel 0 root rel with
      | .error _ => []
      | .ok real =>
        match fs.lstat real with
        | some .dir => ((dirNames fs real).toArray.qsort (· < ·)).toList
        | _ => [] := rfl

theorem rootReadDir_of_dir {fs : FS} {root real : Comps} {rel : List String}
    (hw : fs.rootWalk root linkFuel 0 root rel = .ok real) (hd : fs.lstat real = some .dir) :
    fs.rootReadDir root rel = ((dirNames fs real).toArray.qsort (· < ·)).toList := by
  rw [rootReadDir_eq, hw]
  simp only [hd]

theorem globRev_cons (fs : FS) (root : Comps) (file : String) (dirRev : List String) :
    fs.globRev root (file :: dirRev) =
      (if dirRev.any hasMeta then fs.globRev root dirRev else [dirRev.reverse]).flatMap fun d =>
        ((fs.rootReadDir root d).filter fun n =>
          globMatch file.toList n.toList (file.length + n.length + 1)).map fun n => d ++ [n] := by
  rw [FS.globRev]

theorem dotstar_ne_dotdot (base : String) : (base ++ ".*" == "..") = false := by
  rw [beq_eq_false_iff_ne]
  intro h
  have := congrArg (fun s => s.toList.getLast?) h
  simp [String.toList_append] at this

/-- `globFiles` for a target whose directory (relative to the root) holds no wildcard -/
theorem globFiles_snoc (fs : FS) (root d : Comps) (base : String)
    (hd : ∀ c ∈ d, plainComp c = true) (hm : d.any hasMeta = false) :
    fs.globFiles root (root ++ d ++ [base]) =
      ((fs.rootReadDir root d).filter (globSel base)).map fun n => root ++ d ++ [n] := by
  unfold FS.globFiles
  simp only []
  rw [dirOf_snoc, baseOf_snoc, List.append_assoc, relTo_append]
  have hany : (d ++ [base ++ ".*"]).any (· == "..") = false := by
    rw [List.any_append, Bool.or_eq_false_iff]
    refine ⟨?_, by simp [dotstar_ne_dotdot]⟩
    rw [List.any_eq_false]
    intro c hc
    have := ((plainComp_iff c).1 (hd c hc)).2.2
    simpa using this
  rw [hany]
  simp only [Bool.false_eq_true, if_false, List.reverse_append, List.reverse_cons, List.reverse_nil,
    List.nil_append, List.singleton_append]
  rw [globRev_cons, List.any_reverse, hm]
  simp only [Bool.false_eq_true, if_false, List.reverse_reverse, List.flatMap_cons,
    List.flatMap_nil, List.append_nil]
  have hsel : ∀ n : String,
      ((((d ++ [n]).map countDots).sum == ((d ++ [base ++ ".*"]).map countDots).sum &&
          supportedExts.contains (extOf ((d ++ [n]).getLastD ""))) &&
        globMatch (base ++ ".*").toList n.toList ((base ++ ".*").length + n.length + 1)) =
        globSel base n := by
    intro n
    have h1 : (d ++ [n]).getLastD "" = n := baseOf_snoc d n
    have h2 : (((d ++ [n]).map countDots).sum == ((d ++ [base ++ ".*"]).map countDots).sum) =
        (countDots n == countDots (base ++ ".*")) := by
      rw [Bool.eq_iff_iff]; simp
    rw [h1, h2]
    unfold globSel
    cases globMatch (base ++ ".*").toList n.toList ((base ++ ".*").length + n.length + 1) <;>
      cases (countDots n == countDots (base ++ ".*")) <;>
      cases supportedExts.contains (extOf n) <;> rfl
  rw [List.filter_map, List.filter_filter, List.map_map]
  have hf : ∀ (p : String → Bool) (l : List String), (∀ n, p n = globSel base n) →
      l.filter p = l.filter (globSel base) := fun p l h => by
    rw [show p = globSel base from funext h]
  refine Eq.trans (congrArg (List.map _) (hf _ _ (fun n => ?_))) ?_
  · exact hsel n
  apply List.map_congr_left
  intro n _
  simp [Function.comp, List.append_assoc]

theorem filter_qsort_perm (p : String → Bool) (l : List String) :
    (((l.toArray.qsort (· < ·)).toList).filter p).Perm (l.filter p) :=
  (qsort_perm _ _).filter p

theorem globFiles_singleton {fs : FS} {root d real : Comps} {base n : String}
    (hd : ∀ c ∈ d, plainComp c = true) (hm : d.any hasMeta = false)
    (hw : fs.rootWalk root linkFuel 0 root d = .ok real) (hdir : fs.lstat real = some .dir)
    (h2 : globNames fs real base = [n]) :
    fs.globFiles root (root ++ d ++ [base]) = [root ++ d ++ [n]] := by
  rw [globFiles_snoc fs root d base hd hm, rootReadDir_of_dir hw hdir]
  have := filter_qsort_perm (globSel base) (dirNames fs real)
  rw [← globNames_eq, h2] at this
  rw [List.perm_singleton.1 this]
  rfl

theorem globFiles_nil {fs : FS} {root d real : Comps} {base : String}
    (hd : ∀ c ∈ d, plainComp c = true) (hm : d.any hasMeta = false)
    (hw : fs.rootWalk root linkFuel 0 root d = .ok real) (hdir : fs.lstat real = some .dir)
    (h2 : globNames fs real base = []) :
    fs.globFiles root (root ++ d ++ [base]) = [] := by
  rw [globFiles_snoc fs root d base hd hm, rootReadDir_of_dir hw hdir]
  have := filter_qsort_perm (globSel base) (dirNames fs real)
  rw [← globNames_eq, h2] at this
  rw [List.perm_nil.1 this]
  rfl

/-- the same with no root set -/
theorem globFiles_singleton_noroot {fs : FS} {d real : Comps} {base n : String}
    (hd : ∀ c ∈ d, plainComp c = true) (hm : d.any hasMeta = false)
    (hw : fs.rootWalk [] linkFuel 0 [] d = .ok real) (hdir : fs.lstat real = some .dir)
    (h2 : globNames fs real base = [n]) :
    fs.globFiles [] (d ++ [base]) = [d ++ [n]] :=
  globFiles_singleton (root := []) hd hm hw hdir h2

theorem globFiles_nil_noroot {fs : FS} {d real : Comps} {base : String}
    (hd : ∀ c ∈ d, plainComp c = true) (hm : d.any hasMeta = false)
    (hw : fs.rootWalk [] linkFuel 0 [] d = .ok real) (hdir : fs.lstat real = some .dir)
    (h2 : globNames fs real base = []) :
    fs.globFiles [] (d ++ [base]) = [] :=
  globFiles_nil (root := []) hd hm hw hdir h2

theorem mem_globNames {fs : FS} {rdir : Comps} {base n : String} (h : n ∈ globNames fs rdir base) :
    globMatch (base ++ ".*").toList n.toList ((base ++ ".*").length + n.length + 1) = true ∧
    countDots n = countDots (base ++ ".*") ∧ supportedExts.contains (extOf n) = true ∧
    ∃ e ∈ fs.entries, e.1 ≠ [] ∧ e.1.dropLast = rdir ∧ baseOf e.1 = n := by
  unfold globNames at h
  rw [List.mem_filter] at h
  obtain ⟨h1, h2⟩ := h
  simp only [Bool.and_eq_true, beq_iff_eq] at h2
  obtain ⟨e, he, rfl⟩ := List.mem_map.1 h1
  rw [List.mem_filter] at he
  refine ⟨h2.1.1, h2.1.2, h2.2, e, he.1, ?_, ?_, rfl⟩
  · have := he.2
    simp only [Bool.and_eq_true, beq_iff_eq, Bool.not_eq_true', List.isEmpty_eq_false_iff] at this
    exact this.2
  · have := he.2
    simp only [Bool.and_eq_true, beq_iff_eq] at this
    exact this.1

/-! ### what a glob match is, in general (wildcards in directory components allowed) -/

theorem mem_rootReadDir {fs : FS} {root : Comps} {rel : List String} {n : String}
    (h : n ∈ fs.rootReadDir root rel) :
    ∃ real, fs.rootWalk root linkFuel 0 root rel = .ok real ∧ fs.lstat real = some .dir ∧
      n ∈ dirNames fs real := by
  rw [rootReadDir_eq] at h
  cases hw : fs.rootWalk root linkFuel 0 root rel with
  | error e => rw [hw] at h; cases h
  | ok real =>
    rw [hw] at h
    simp only [] at h
    cases hl : fs.lstat real with
    | none => rw [hl] at h; cases h
    | some nd =>
      rw [hl] at h
      cases nd with
      | file _ => cases h
      | link _ => cases h
      | dir => exact ⟨real, rfl, hl, (mem_qsort _ _ _).1 h⟩

theorem mem_dirNames {fs : FS} {real : Comps} {n : String} (h : n ∈ dirNames fs real) :
    ∃ e ∈ fs.entries, e.1 ≠ [] ∧ e.1.dropLast = real ∧ baseOf e.1 = n := by
  obtain ⟨e, he, rfl⟩ := List.mem_map.1 h
  rw [List.mem_filter] at he
  have := he.2
  simp only [Bool.and_eq_true, beq_iff_eq, Bool.not_eq_true', List.isEmpty_eq_false_iff] at this
  exact ⟨e, he.1, this.2, this.1, rfl⟩

theorem mem_globRev_cons {fs : FS} {root : Comps} {file : String} {dirRev : List String}
    {m : List String} (h : m ∈ fs.globRev root (file :: dirRev)) :
    ∃ d n, m = d ++ [n] ∧
      d ∈ (if dirRev.any hasMeta then fs.globRev root dirRev else [dirRev.reverse]) ∧
      n ∈ fs.rootReadDir root d ∧
      globMatch file.toList n.toList (file.length + n.length + 1) = true := by
  rw [globRev_cons, List.mem_flatMap] at h
  obtain ⟨d, hd, hm⟩ := h
  obtain ⟨n, hn, rfl⟩ := List.mem_map.1 hm
  rw [List.mem_filter] at hn
  exact ⟨d, n, rfl, hd, hn.1, hn.2⟩

theorem globRev_length (fs : FS) (root : Comps) : ∀ (patRev m : List String),
    m ∈ fs.globRev root patRev → m.length = patRev.length
  | [], m, h => by
    rw [FS.globRev] at h
    simp only [List.mem_singleton] at h
    subst h; rfl
  | file :: dirRev, m, h => by
    obtain ⟨d, n, rfl, hd, _, _⟩ := mem_globRev_cons h
    have : d.length = dirRev.length := by
      by_cases hm : dirRev.any hasMeta = true
      · rw [if_pos hm] at hd
        exact globRev_length fs root dirRev d hd
      · rw [if_neg hm] at hd
        simp only [List.mem_singleton] at hd
        subst hd; simp
    simp [this]

theorem extOf_empty_unsupported : supportedExts.contains (extOf "") = false := by
  unfold extOf
  rw [splitOn_dot]
  decide

/-- every glob match: the pattern is `dpat/base.*` beneath the root, the match is `m/n` with `n`
    an entry of the directory `m` (opened beneath the root) that matches `base.*`, the dots add
    up and the extension is supported; `m` is `dpat` itself when `dpat` holds no wildcard -/
theorem mem_globFiles_spec {fs : FS} {root target f : Comps} (h : f ∈ fs.globFiles root target) :
    ∃ dpat m n, relTo root (dirOf target ++ [baseOf target ++ ".*"]) = dpat ++ [baseOf target ++ ".*"] ∧
      root ++ dpat = dirOf target ∧ f = root ++ m ++ [n] ∧ m.length = dpat.length ∧
      (dpat.any hasMeta = false → m = dpat) ∧
      (∃ real, fs.rootWalk root linkFuel 0 root m = .ok real ∧ fs.lstat real = some .dir ∧
        n ∈ dirNames fs real) ∧
      globMatch (baseOf target ++ ".*").toList n.toList
        ((baseOf target ++ ".*").length + n.length + 1) = true ∧
      ((m ++ [n]).map countDots).sum = ((dpat ++ [baseOf target ++ ".*"]).map countDots).sum ∧
      supportedExts.contains (extOf n) = true := by
  unfold FS.globFiles at h
  simp only [] at h
  generalize hpat : relTo root (dirOf target ++ [baseOf target ++ ".*"]) = pat at h
  by_cases hdd : pat.any (· == "..") = true
  · rw [if_pos hdd] at h; cases h
  · rw [if_neg hdd] at h
    have hdd' : pat.any (· == "..") = false := by
      cases hx : pat.any (· == "..") with
      | false => rfl
      | true => exact absurd hx hdd
    obtain ⟨mm, hmm, rfl⟩ := List.mem_map.1 h
    rw [List.mem_filter] at hmm
    obtain ⟨hmem, hsel⟩ := hmm
    simp only [Bool.and_eq_true, beq_iff_eq] at hsel
    have hfull := relTo_no_dotdot root _ (hpat ▸ hdd')
    rw [hpat] at hfull
    -- the pattern is not empty
    cases hrev : pat.reverse with
    | nil =>
      rw [hrev, FS.globRev] at hmem
      simp only [List.mem_singleton] at hmem
      subst hmem
      have := hsel.2
      simp only [List.getLastD_nil] at this
      rw [extOf_empty_unsupported] at this
      cases this
    | cons file dirRev =>
      have hpat' : pat = dirRev.reverse ++ [file] := by
        have := congrArg List.reverse hrev
        simpa using this
      have hfile : file = baseOf target ++ ".*" := by
        have := congrArg (fun l => l.getLast?) hfull
        simp only [hpat', ← List.append_assoc, List.getLast?_append, List.getLast?_singleton,
          Option.some_or, Option.some.injEq] at this
        exact this
      subst hfile
      rw [hrev] at hmem
      obtain ⟨d, n, rfl, hd, hn, hmatch⟩ := mem_globRev_cons hmem
      refine ⟨dirRev.reverse, d, n, hpat', ?_, by rw [List.append_assoc], ?_, ?_, mem_rootReadDir hn,
        hmatch, ?_, ?_⟩
      · rw [hpat', ← List.append_assoc] at hfull
        have := congrArg List.dropLast hfull
        simpa [dirOf] using this
      · by_cases hm : dirRev.any hasMeta = true
        · rw [if_pos hm] at hd
          rw [globRev_length fs root dirRev d hd]; simp
        · rw [if_neg hm] at hd
          simp only [List.mem_singleton] at hd
          subst hd; rfl
      · intro hm
        rw [List.any_reverse] at hm
        rw [hm] at hd
        simpa using hd
      · rw [hsel.1, hpat']
      · have := hsel.2
        rwa [show (d ++ [n]).getLastD "" = n from baseOf_snoc d n] at this

theorem extOf_eq (base : String) :
    extOf base =
      match ((List.splitOnP (· == '.') base.toList).map String.ofList).reverse with
      | e :: _ :: _ => e
      | _ => "" := by
  unfold extOf
  rw [splitOn_dot]
  all_goals rfl

/-- the self-parent file system: `/a.yaml` containing `$parent: a` -/
def selfFS : FS := ⟨[(["a.yaml"], .file (.ok [.map [("$parent", .str "a")]]))]⟩

theorem selfFS_glob : globNames selfFS [] "a" = ["a.yaml"] := by
  simp only [globNames, extOf_eq]
  decide

theorem lfp_cycle (fs : FS) (cfg : RootCfg) (fuel : Nat) (path : Comps) (childId : Option String)
    (c : List String) (chain : List Comps) (h : path ∈ chain) :
    loadFileAndParents fs cfg (fuel + 1) path childId c chain = .error .circularRef := by
  rw [loadFileAndParents_succ, List.contains_iff_mem.2 h]
  rfl

theorem selfFS_load (fid : String) :
    loadFile selfFS ⟨[], []⟩ ["a.yaml"] fid = .ok [.map [("$parent", .str "a")]] := by
  rw [loadFile_eq]
  have h1 : supportedExts.contains (extOf (baseOf ["a.yaml"])) = true := by
    rw [extOf_eq]; decide
  rw [h1, if_pos rfl, rootOpen_eq]
  have h2 : selfFS.rootWalk [] linkFuel 0 [] (relTo [] ["a.yaml"]) = .ok ["a.yaml"] := by decide
  simp only [h2]
  rfl

theorem selfFS_parents :
    fileParents selfFS ⟨[], []⟩ ["a.yaml"] [.map [("$parent", .str "a")]] = .ok [["a.yaml"]] := by
  rw [fileParents_eq]
  have h1 : [Val.map [("$parent", .str "a")]].mapM parentDirective = .ok [.names ["a"]] := by
    rw [mapM_R_cons, mapM_R_nil]; rfl
  rw [h1]
  have h2 : hasNoParent [.names ["a"]] = false := rfl
  have h3 : parentNames [.names ["a"]] = ["a"] := rfl
  simp only [h2, h3]
  have h4 : globName selfFS ⟨[], []⟩ ["a.yaml"] "a" = [["a.yaml"]] := by
    unfold globName
    rw [splitPath_lit "a" ["a"] (by decide)]
    have : cleanComps (dirOf ["a.yaml"] ++ ["a"]) = [] ++ ["a"] := by decide
    rw [this]
    exact globFiles_singleton_noroot (d := []) (real := []) (by decide) (by decide) (by decide)
      (by decide) selfFS_glob
  simp [globStep, h4]

theorem selfFS_cycle :
    loadFileAndParents selfFS ⟨[], []⟩ loadFuel ["a.yaml"] none [] [] = .error .circularRef := by
  rw [show loadFuel = 62 + 1 + 1 from rfl, loadFileAndParents_succ]
  simp only [List.contains_nil, Bool.false_eq_true, if_false, selfFS_load, selfFS_parents, loadSubs]
  rw [lfp_cycle _ _ _ _ _ _ _ List.mem_cons_self]

/-! ## the command line's input loop -/

/-- one input of the command line: resolve, remember the first format, merge -/
def cliStep (fs : FS) (cwd : Comps) (cfg : RootCfg) (skipParent : Bool)
    (acc : PState × Option String) (inp : String) : R (PState × Option String) :=
  match fileMatch fs cwd inp with
  | .error e => .error e
  | .ok (real, f) =>
    match (if skipParent then mergeFileAlone fs cfg acc.1 real else mergeFileLayers fs cfg acc.1 real) with
    | .error e => .error e
    | .ok st => .ok (st, if acc.2.isNone then some f else acc.2)

/-- the input loop of `cmd/bkl/main.go`, left to right -/
def cliMerge (fs : FS) (cwd : Comps) (cfg : RootCfg) (skipParent : Bool) :
    PState × Option String → List String → R (PState × Option String)
  | acc, [] => .ok acc
  | acc, inp :: rest =>
    match cliStep fs cwd cfg skipParent acc inp with
    | .error e => .error e
    | .ok acc' => cliMerge fs cwd cfg skipParent acc' rest

/-- what `bkl` does after the inputs are merged -/
def cliOutput (env : Vars) (opts : CliOpts) (acc : PState × Option String) : R CliResult :=
  let format := chooseFormat opts (acc.2.getD "")
  let format := if format == "" then "json-pretty" else format
  if !supportedExts.contains format then .error .unknownFormat
  else
    match outputDocuments (acc.1.docs.map (·.2)) env with
    | .error e => .error e
    | .ok outs =>
      .ok { format := format, docs := outs, merged := acc.1.docs.map (·.2),
            loadOrder := acc.1.known.map (·.1) }

def cliCfg (fs : FS) (cwd : Comps) (opts : CliOpts) : R RootCfg :=
  match opts.rootPath with
  | some r => setRoot fs { root := [], cwd := cwd } r
  | none => .ok { root := [], cwd := cwd }



theorem forIn_eq_cliMerge (fs : FS) (cwd : Comps) (cfg : RootCfg) (sp : Bool)
    (b : String → PState × Option String → R (ForInStep (PState × Option String)))
    (hb : ∀ inp s, b inp s =
      match cliStep fs cwd cfg sp s inp with
      | .error e => .error e
      | .ok s' => .ok (ForInStep.yield s')) :
    ∀ (inputs : List String) (acc : PState × Option String),
      forIn inputs acc b = cliMerge fs cwd cfg sp acc inputs
  | [], acc => rfl
  | inp :: rest, acc => by
    rw [List.forIn_cons, hb, cliMerge]
    cases cliStep fs cwd cfg sp acc inp with
    | error e => rfl
    | ok acc' =>
      simp only [R_bind_ok]
      exact forIn_eq_cliMerge fs cwd cfg sp b hb rest acc'

theorem cliRun_eq (fs : FS) (cwd : Comps) (env : Vars) (opts : CliOpts) :
    cliRun fs cwd env opts =
      match cliCfg fs cwd opts with
      | .error e => .error e
      | .ok cfg =>
        match cliMerge fs cwd cfg opts.skipParent (PState.empty, none) opts.inputs with
        | .error e => .error e
        | .ok acc => cliOutput env opts acc := by
  have tail : ∀ cfg : RootCfg, ((do
      let __s ← cliMerge fs cwd cfg opts.skipParent (PState.empty, none) opts.inputs
      let format := chooseFormat opts (__s.2.getD "")
      let format := if format == "" then "json-pretty" else format
      if !supportedExts.contains format then throw Err.unknownFormat
      let outs ← outputDocuments (__s.1.docs.map (·.2)) env
      pure ({ format := format, docs := outs, merged := __s.1.docs.map (·.2),
              loadOrder := __s.1.known.map (·.1) } : CliResult)) : R CliResult) =
      match cliMerge fs cwd cfg opts.skipParent (PState.empty, none) opts.inputs with
      | .error e => .error e
      | .ok acc => cliOutput env opts acc := by
    intro cfg
    cases cliMerge fs cwd cfg opts.skipParent (PState.empty, none) opts.inputs with
    | error e => rfl
    | ok s =>
      simp only [R_bind_ok]
      unfold cliOutput
      simp only []
      cases supportedExts.contains
          (if (chooseFormat opts (s.2.getD "") == "") = true then "json-pretty"
            else chooseFormat opts (s.2.getD ""))
      · simp only [Bool.not_false, if_true]; rfl
      · simp only [Bool.not_true, Bool.false_eq_true, if_false]
        cases outputDocuments (s.1.docs.map (·.2)) env <;> rfl
  have body : ∀ cfg : RootCfg, ∀ (inp : String) (s : PState × Option String),
      (do
        let __x ← fileMatch fs cwd inp
        match __x with
          | (real, f) =>
            if s.2.isNone = true then
              (if opts.skipParent = true then do
                let st ← mergeFileAlone fs cfg s.1 real
                pure (ForInStep.yield (st, some f))
              else do
                let st ← mergeFileLayers fs cfg s.1 real
                pure (ForInStep.yield (st, some f)))
            else
              (if opts.skipParent = true then do
                let st ← mergeFileAlone fs cfg s.1 real
                pure (ForInStep.yield (st, s.2))
              else do
                let st ← mergeFileLayers fs cfg s.1 real
                pure (ForInStep.yield (st, s.2)))) =
      match cliStep fs cwd cfg opts.skipParent s inp with
      | .error e => .error e
      | .ok s' => .ok (ForInStep.yield s') := by
    intro cfg inp s
    unfold cliStep
    cases fileMatch fs cwd inp with
    | error e => rfl
    | ok rf =>
      obtain ⟨real, f⟩ := rf
      simp only [R_bind_ok]
      cases opts.skipParent <;> cases s.2.isNone <;>
        simp only [Bool.false_eq_true, if_false, if_true]
      · cases mergeFileLayers fs cfg s.1 real <;> rfl
      · cases mergeFileLayers fs cfg s.1 real <;> rfl
      · cases mergeFileAlone fs cfg s.1 real <;> rfl
      · cases mergeFileAlone fs cfg s.1 real <;> rfl
  unfold cliRun cliCfg
  cases hr : opts.rootPath with
  | none =>
    simp only []
    rw [forIn_eq_cliMerge fs cwd _ opts.skipParent _ (body _)]
    exact tail _
  | some r =>
    simp only []
    cases setRoot fs { root := [], cwd := cwd } r with
    | error e => rfl
    | ok cfg =>
      simp only [R_bind_ok]
      rw [forIn_eq_cliMerge fs cwd _ opts.skipParent _ (body _)]
      exact tail _

/-! ## `mergeFileAlone` / `mergeFileLayers`, sample chain -/

/-- the documents `bkl -P` merges for one file: no parents, `$parent` stripped -/
def aloneDocs (path : Comps) (raw : List Val) : List Doc :=
  (raw.map stripParent).zipIdx.map fun (d, i) =>
    ({ id := pathStr path ++ "|doc" ++ toString i, parents := [], data := d } : Doc)

theorem mergeFileAlone_eq (fs : FS) (cfg : RootCfg) (st : PState) (path : Comps) :
    mergeFileAlone fs cfg st path =
      match loadFile fs cfg path (pathStr path) with
      | .error e => .error e
      | .ok raw => runMerges st (aloneDocs path raw) := by
  unfold mergeFileAlone
  cases loadFile fs cfg path (pathStr path) with
  | error e => rfl
  | ok raw => rfl

theorem mergeFileLayers_eq (fs : FS) (cfg : RootCfg) (st : PState) (path : Comps) :
    mergeFileLayers fs cfg st path =
      match loadFileAndParents fs cfg loadFuel path none [] [] with
      | .error e => .error e
      | .ok (files, _) => mergeFiles st files := by
  unfold mergeFileLayers
  cases loadFileAndParents fs cfg loadFuel path none [] [] with
  | error e => rfl
  | ok r => rfl

theorem cliMerge_append (fs : FS) (cwd : Comps) (cfg : RootCfg) (sp : Bool) :
    ∀ (l₁ l₂ : List String) (acc : PState × Option String),
      cliMerge fs cwd cfg sp acc (l₁ ++ l₂) =
        match cliMerge fs cwd cfg sp acc l₁ with
        | .error e => .error e
        | .ok acc' => cliMerge fs cwd cfg sp acc' l₂
  | [], l₂, acc => rfl
  | i :: l₁, l₂, acc => by
    rw [List.cons_append, cliMerge, cliMerge]
    cases cliStep fs cwd cfg sp acc i with
    | error e => rfl
    | ok acc' => exact cliMerge_append fs cwd cfg sp l₁ l₂ acc'

theorem globStep_foldlM (fs : FS) (cfg : RootCfg) (path : Comps) :
    ∀ (names : List String) (acc : List Comps),
    names.foldlM (globStep fs cfg path) acc =
      if names.any (fun n => (globName fs cfg path n).isEmpty) then .error .missingFile
      else .ok (acc ++ names.flatMap (globName fs cfg path))
  | [], acc => by simp [List.foldlM_nil]
  | n :: names, acc => by
    rw [List.foldlM_cons, globStep]
    by_cases h : (globName fs cfg path n).isEmpty = true
    · simp [h]
    · simp only [h, Bool.false_eq_true, if_false, R_bind_ok, List.any_cons, Bool.false_or,
        List.flatMap_cons]
      rw [globStep_foldlM fs cfg path names, List.append_assoc]

theorem plainDir_single {fs : FS} {c : String} {n : FNode} (hc : plainComp c = true)
    (hl : fs.lstat [c] = some n) (hn : n.isLink = false) : PlainDir fs [c] := by
  refine ⟨⟨?_, ?_⟩, by simp [linkFuel]⟩
  · intro x hx
    have : x = c := by simpa using hx
    subst this; exact hc
  · intro t' hne hp
    cases t' with
    | nil => exact absurd rfl hne
    | cons x rest =>
      obtain ⟨rfl, hr⟩ := List.cons_prefix_cons.1 hp
      have : rest = [] := List.prefix_nil.1 hr
      subst this
      exact ⟨n, hl, hn⟩

/-! sample file system for the chain examples: /w/a.yaml, /w/a.b.json, /w/a.b.c.toml,
    /w/bad.yaml (undecodable), /w/orphan.x.yaml (its layer `orphan` is missing) -/
def chainFS : FS := ⟨[
  (["w"], .dir),
  (["w", "a.yaml"], .file (.ok [.map [("x", .int 1)]])),
  (["w", "a.b.json"], .file (.ok [.map [("y", .int 2)]])),
  (["w", "a.b.c.toml"], .file (.ok [.map [("z", .int 3)]])),
  (["w", "bad.yaml"], .file (.error .unmarshal)),
  (["w", "orphan.x.yaml"], .file (.ok [.map []]))]⟩

theorem chainFS_plain : PlainDir chainFS ["w"] :=
  plainDir_single (n := .dir) (by decide) (by decide) rfl

theorem layerFile_of_decide {fs : FS} {d : Comps} {layer e₀ : String} {content : R (List Val)}
    (he : e₀ ∈ supportedExts) (hf : fs.lstat (d ++ [layer ++ "." ++ e₀]) = some (.file content))
    (h1 : e₀ ≠ "json" → fs.lstat (d ++ [layer ++ "." ++ "json"]) = none)
    (h2 : e₀ ≠ "json-pretty" → fs.lstat (d ++ [layer ++ "." ++ "json-pretty"]) = none)
    (h3 : e₀ ≠ "jsonl" → fs.lstat (d ++ [layer ++ "." ++ "jsonl"]) = none)
    (h4 : e₀ ≠ "toml" → fs.lstat (d ++ [layer ++ "." ++ "toml"]) = none)
    (h5 : e₀ ≠ "yaml" → fs.lstat (d ++ [layer ++ "." ++ "yaml"]) = none)
    (h6 : e₀ ≠ "yml" → fs.lstat (d ++ [layer ++ "." ++ "yml"]) = none) :
    LayerFile fs d layer e₀ content := by
  refine ⟨he, hf, ?_⟩
  intro e hmem hne
  simp only [supportedExts, List.mem_cons, List.not_mem_nil, or_false] at hmem
  rcases hmem with rfl | rfl | rfl | rfl | rfl | rfl
  · exact h1 (Ne.symm hne)
  · exact h2 (Ne.symm hne)
  · exact h3 (Ne.symm hne)
  · exact h4 (Ne.symm hne)
  · exact h5 (Ne.symm hne)
  · exact h6 (Ne.symm hne)

theorem chainFS_a : LayerFile chainFS ["w"] "a" "yaml" (.ok [.map [("x", .int 1)]]) :=
  layerFile_of_decide (by decide) (by decide) (fun _ => by decide) (fun _ => by decide)
    (fun _ => by decide) (fun _ => by decide) (fun h => absurd rfl h) (fun _ => by decide)

theorem chainFS_ab : LayerFile chainFS ["w"] "a.b" "json" (.ok [.map [("y", .int 2)]]) :=
  layerFile_of_decide (by decide) (by decide) (fun h => absurd rfl h) (fun _ => by decide)
    (fun _ => by decide) (fun _ => by decide) (fun _ => by decide) (fun _ => by decide)

theorem chainFS_abc : LayerFile chainFS ["w"] "a.b.c" "toml" (.ok [.map [("z", .int 3)]]) :=
  layerFile_of_decide (by decide) (by decide) (fun _ => by decide) (fun _ => by decide)
    (fun _ => by decide) (fun h => absurd rfl h) (fun _ => by decide) (fun _ => by decide)

theorem chainFS_bad : LayerFile chainFS ["w"] "bad" "yaml" (.error .unmarshal) :=
  layerFile_of_decide (by decide) (by decide) (fun _ => by decide) (fun _ => by decide)
    (fun _ => by decide) (fun _ => by decide) (fun h => absurd rfl h) (fun _ => by decide)


/-! ## the wrapper -/

/-- what the wrapper does with one argument -/
def wrapStep (fs : FS) (cwd : Comps) (env : Vars) (a : String) : R WArg :=
  match fileMatch fs cwd a with
  | .error _ => .ok (WArg.verbatim a)
  | .ok (real, f) =>
    match mergeFileLayers fs { root := [], cwd := cwd } PState.empty real with
    | .error e => .error e
    | .ok st =>
      match outputDocuments (st.docs.map (·.2)) env with
      | .error e => .error e
      | .ok outs => .ok (WArg.evaluated f outs)

theorem wrapArgs_eq (fs : FS) (cwd : Comps) (env : Vars) (args : List String) :
    wrapArgs fs cwd env args = args.mapM (wrapStep fs cwd env) := by
  unfold wrapArgs
  congr 1
  funext a
  unfold wrapStep
  cases fileMatch fs cwd a with
  | error e => rfl
  | ok rf =>
    obtain ⟨real, f⟩ := rf
    simp only
    cases mergeFileLayers fs { root := [], cwd := cwd } PState.empty real with
    | error e => rfl
    | ok st =>
      simp only [R_bind_ok]
      cases outputDocuments (st.docs.map (·.2)) env <;> rfl

theorem fileMatch_eq (fs : FS) (cwd : Comps) (arg : String) :
    fileMatch fs cwd arg =
      if supportedExts.contains (extOf (baseOf (absPath cwd arg))) then
        match fs.findFile (dirOf (absPath cwd arg)) (stemOf (baseOf (absPath cwd arg))) with
        | some real => .ok (real, extOf (baseOf (absPath cwd arg)))
        | none => .error .missingFile
      else .error .invalidType := by
  unfold fileMatch
  simp only []
  cases supportedExts.contains (extOf (baseOf (absPath cwd arg))) <;> rfl

theorem wrappedName_snoc (cs : List Char) :
    wrappedName (String.ofList (cs ++ ['b'])) = some (String.ofList cs) := by
  simp [wrappedName]

theorem wrappedName_none (s : String) (h : s.toList.getLast? ≠ some 'b') : wrappedName s = none := by
  unfold wrappedName
  cases hr : s.toList.reverse with
  | nil => rfl
  | cons c rest =>
    have : s.toList.getLast? = some c := by
      rw [List.getLast?_eq_head?_reverse, hr]; rfl
    rw [this] at h
    have hc : c ≠ 'b' := fun e => h (by rw [e])
    split
    · rename_i heq; cases heq; exact absurd rfl hc
    · rfl


/-! ## sample evaluations (non-vacuity witnesses) -/

theorem stemOf_snoc (l e : String) (he : '.' ∉ e.toList) :
    stemOf (l ++ "." ++ e) = ".".intercalate (l.splitOn ".") := by
  unfold stemOf
  rw [splitOn_dot_snoc l e he, List.reverse_append]
  cases h : (l.splitOn ".").reverse with
  | nil =>
    have := splitOn_dot_ne_nil l
    simp only [List.reverse_eq_nil_iff] at h
    exact absurd h this
  | cons r rest =>
    have : l.splitOn "." = (r :: rest).reverse := by
      rw [← h, List.reverse_reverse]
    rw [this]
    rfl

theorem absPath_rel {cwd : Comps} {p : String} {ts : List String} (h1 : isAbsPath p = false)
    (h2 : splitPath p = ts) : absPath cwd p = cleanComps (cwd ++ ts) := by
  simp [absPath, h1, h2]

theorem fileMatch_layer {fs : FS} {d cwd : Comps} {arg l e e₀ : String} {content : R (List Val)}
    (habs : absPath cwd arg = d ++ [l ++ "." ++ e]) (he : e ∈ supportedExts)
    (hstem : ".".intercalate (l.splitOn ".") = l)
    (hd : PlainDir fs d) (hl : 0 < l.length) (h : LayerFile fs d l e₀ content) :
    fileMatch fs cwd arg = .ok (d ++ [l ++ "." ++ e₀], e) := by
  rw [fileMatch_eq, habs, baseOf_snoc, dirOf_snoc, extOf_snoc l e (supportedExt_noDot e he),
    supportedExts_contains he, stemOf_snoc l e (supportedExt_noDot e he), hstem,
    findFile_layerFile hd hl h]
  rfl

theorem fileMatch_noext {fs : FS} {cwd : Comps} {arg : String}
    (h : supportedExts.contains (extOf (baseOf (absPath cwd arg))) = false) :
    fileMatch fs cwd arg = .error .invalidType := by
  rw [fileMatch_eq, h]; rfl

theorem stem_a : ".".intercalate ("a".splitOn ".") = "a" := by rw [parts_a]; decide

theorem chainFS_match_a : fileMatch chainFS ["w"] "a.yaml" = .ok (["w", "a.yaml"], "yaml") :=
  fileMatch_layer (d := ["w"]) (l := "a") (e := "yaml")
    (by rw [absPath_rel (by simp [isAbsPath]) (splitPath_lit "a.yaml" ["a.yaml"] (by decide))]; decide)
    (by decide) stem_a chainFS_plain (by decide) chainFS_a

/-- the argument names `a.json`; the file that provides layer `a` is `a.yaml` -/
theorem chainFS_match_a_json : fileMatch chainFS ["w"] "a.json" = .ok (["w", "a.yaml"], "json") :=
  fileMatch_layer (d := ["w"]) (l := "a") (e := "json")
    (by rw [absPath_rel (by simp [isAbsPath]) (splitPath_lit "a.json" ["a.json"] (by decide))]; decide)
    (by decide) stem_a chainFS_plain (by decide) chainFS_a

theorem chainFS_match_bad : fileMatch chainFS ["w"] "bad.yaml" = .ok (["w", "bad.yaml"], "yaml") :=
  fileMatch_layer (d := ["w"]) (l := "bad") (e := "yaml")
    (by rw [absPath_rel (by simp [isAbsPath]) (splitPath_lit "bad.yaml" ["bad.yaml"] (by decide))]; decide)
    (by decide) (by rw [splitOn_dot]; decide) chainFS_plain (by decide) chainFS_bad

theorem chainFS_nomatch_apply : fileMatch chainFS ["w"] "apply" = .error .invalidType :=
  fileMatch_noext (by
    rw [absPath_rel (by simp [isAbsPath]) (splitPath_lit "apply" ["apply"] (by decide)), extOf_eq]
    decide)

theorem chainFS_nomatch_f : fileMatch chainFS ["w"] "-f" = .error .invalidType :=
  fileMatch_noext (by
    rw [absPath_rel (by simp [isAbsPath]) (splitPath_lit "-f" ["-f"] (by decide)), extOf_eq]
    decide)

/-- layering `/w/a.yaml` is merging its one document -/
theorem chainFS_layers_a (st : PState) :
    mergeFileLayers chainFS ⟨[], ["w"]⟩ st ["w", "a.yaml"] =
      mergeDocument st (oneDoc "/w/a.yaml" [] (.map [("x", .int 1)])) := by
  rw [mergeFileLayers_eq]
  have := chain1 (cwd := ["w"]) chainFS_plain chainFS_a rfl 63 none [] [] rfl
  rw [show loadFuel = 63 + 1 from rfl, show (["w", "a.yaml"] : Comps) = ["w"] ++ ["a" ++ "." ++ "yaml"] by decide,
    this]
  simp only [mergeFiles, List.foldlM_cons, List.foldlM_nil, fileIdOf]
  have hp : pathStr (["w"] ++ ["a" ++ "." ++ "yaml"]) = "/w/a.yaml" := by decide
  rw [hp]
  cases mergeDocument st (oneDoc "/w/a.yaml" [] (.map [("x", .int 1)])) <;> rfl

theorem chainFS_layers_bad (st : PState) :
    mergeFileLayers chainFS ⟨[], ["w"]⟩ st ["w", "bad.yaml"] = .error .unmarshal := by
  rw [mergeFileLayers_eq, show loadFuel = 63 + 1 from rfl, loadFileAndParents_succ]
  have h := loadFile_layerFile chainFS_plain (by decide) chainFS_bad ["w"] (fileIdOf none ["w", "bad.yaml"])
  rw [show (["w"] ++ ["bad" ++ "." ++ "yaml"] : Comps) = ["w", "bad.yaml"] by decide] at h
  simp only [List.contains_nil, Bool.false_eq_true, if_false, h]

theorem chainFS_wrap_example :
    wrapArgs chainFS ["w"] [] ["apply", "-f", "a.json"] =
      .ok [.verbatim "apply", .verbatim "-f", .evaluated "json" [.map [("x", .int 1)]]] := by
  rw [wrapArgs_eq, mapM_R_cons, mapM_R_cons, mapM_R_cons, mapM_R_nil]
  have h1 : wrapStep chainFS ["w"] [] "apply" = .ok (.verbatim "apply") := by
    unfold wrapStep; rw [chainFS_nomatch_apply]
  have h2 : wrapStep chainFS ["w"] [] "-f" = .ok (.verbatim "-f") := by
    unfold wrapStep; rw [chainFS_nomatch_f]
  have h3 : wrapStep chainFS ["w"] [] "a.json" = .ok (.evaluated "json" [.map [("x", .int 1)]]) := by
    unfold wrapStep
    rw [chainFS_match_a_json]
    simp only [chainFS_layers_a]
    have hm : mergeDocument PState.empty (oneDoc "/w/a.yaml" [] (.map [("x", .int 1)])) =
        .ok ⟨[("/w/a.yaml|doc0", .map [("x", .int 1)])], [("/w/a.yaml|doc0", [])]⟩ := by rfl
    rw [hm]
    have ho : outputDocuments [.map [("x", .int 1)]] [] = .ok [.map [("x", .int 1)]] := by decide
    simp only [List.map_cons, List.map_nil, ho]
  rw [h1, h2, h3]

theorem chainFS_wrap_fail :
    wrapArgs chainFS ["w"] [] ["apply", "-f", "bad.yaml", "a.yaml"] = .error .unmarshal := by
  rw [wrapArgs_eq, mapM_R_cons, mapM_R_cons, mapM_R_cons]
  have h1 : wrapStep chainFS ["w"] [] "apply" = .ok (.verbatim "apply") := by
    unfold wrapStep; rw [chainFS_nomatch_apply]
  have h2 : wrapStep chainFS ["w"] [] "-f" = .ok (.verbatim "-f") := by
    unfold wrapStep; rw [chainFS_nomatch_f]
  have h3 : wrapStep chainFS ["w"] [] "bad.yaml" = .error .unmarshal := by
    unfold wrapStep
    rw [chainFS_match_bad]
    simp only [chainFS_layers_bad]
  rw [h1, h2, h3]
end Bkl
