/-
  BklProofs.Lemmas.Repeat — helper definitions and lemmas for C12 (`$repeat`):
  the independent specification `tuples` (lexicographic cartesian product), its size,
  membership and duplicate-freeness, the fold lemma relating `repeatGen`'s `foldlM` to it,
  `popListMapValue` when no entry matches, and the `foldlM`/`mapM` exchange for nested repeats.
-/
import Bkl.Process2
import BklProofs.Lemmas.Fields
namespace Bkl

theorem ok_bind {α β : Type} (a : α) (f : α → R β) : (Except.ok a >>= f) = f a := rfl
theorem error_bind {α β : Type} (e : Err) (f : α → R β) : (Except.error e >>= f) = .error e := rfl
theorem isNull_null : Val.null.isNull = true := rfl

/-! ## specification: counts and index tuples -/

/-- the repeat count denoted by a value (`0` for negative counts and for non-integers) -/
def countOf : Val → Nat
  | .int n => n.toNat
  | _ => 0

/-- all index tuples for the named counts, in lexicographic order: the first name varies slowest -/
def tuples : List (String × Nat) → List (List (String × Nat))
  | [] => [[]]
  | (name, n) :: rest => (List.range n).flatMap fun i => (tuples rest).map fun t => (name, i) :: t

/-- bind `$repeat:<name>` to the index, for every component of the tuple -/
def bindTuple (ec : Vars) (t : List (String × Nat)) : Vars :=
  t.foldl (fun e ni => fset e ("$repeat:" ++ ni.1) (.int ni.2)) ec

/-- `ec` extended with the `$repeat.<name>` entries (the declared counts), as `repeatGen` does -/
def repeatEc1 (ec : Vars) : Fields → Vars
  | [] => ec
  | (k, v) :: rest => repeatEc1 (fset ec ("$repeat." ++ k) v) rest

def namedCounts (rs : Fields) : List (String × Nat) := rs.map fun kv => (kv.1, countOf kv.2)

theorem repeatEc1_eq_foldl (ec : Vars) (rs : Fields) :
    rs.foldl (fun e (kv : String × Val) => fset e ("$repeat." ++ kv.1) kv.2) ec = repeatEc1 ec rs := by
  induction rs generalizing ec with
  | nil => rfl
  | cons kv rest ih => obtain ⟨k, v⟩ := kv; simp [repeatEc1, ih]

theorem sum_const_mul (n c : Nat) : ((List.range n).map fun _ => c).sum = n * c := by
  induction n with
  | zero => simp
  | succ n ih => simp [List.range_succ, ih, Nat.succ_mul]

theorem tuples_length (l : List (String × Nat)) :
    (tuples l).length = (l.map (·.2)).prod := by
  induction l with
  | nil => rfl
  | cons a rest ih =>
    obtain ⟨name, n⟩ := a
    simp only [tuples, List.length_flatMap, List.length_map, ih, List.map_cons, List.prod_cons]
    exact sum_const_mul _ _

/-- `t` has the names of `l`, in order, with every index below its count -/
def tupleOk : List (String × Nat) → List (String × Nat) → Prop
  | [], [] => True
  | (a, i) :: t, (b, n) :: l => a = b ∧ i < n ∧ tupleOk t l
  | _, _ => False

/-- membership: exactly the tuples with the right names and indices below the counts -/
theorem mem_tuples {l : List (String × Nat)} {t : List (String × Nat)} :
    t ∈ tuples l ↔ tupleOk t l := by
  induction l generalizing t with
  | nil =>
    simp only [tuples, List.mem_singleton]
    cases t <;> simp [tupleOk]
  | cons a rest ih =>
    obtain ⟨name, n⟩ := a
    simp only [tuples, List.mem_flatMap, List.mem_range, List.mem_map]
    constructor
    · rintro ⟨i, hi, t', ht', rfl⟩
      exact ⟨rfl, hi, ih.1 ht'⟩
    · intro h
      match t, h with
      | (a, i) :: t', ⟨e1, e2, h3⟩ =>
        subst e1
        exact ⟨i, e2, t', ih.2 h3, rfl⟩

theorem nodup_flatMap_range {β : Type} (f : Nat → List β) (n : Nat)
    (h1 : ∀ i, (f i).Nodup) (h2 : ∀ i j x, x ∈ f i → x ∈ f j → i = j) :
    ((List.range n).flatMap f).Nodup := by
  induction n with
  | zero => simp
  | succ n ih =>
    rw [List.range_succ, List.flatMap_append, List.nodup_append]
    refine ⟨ih, by simpa using h1 n, ?_⟩
    intro a ha b hb e
    subst e
    simp only [List.mem_flatMap, List.mem_range, List.flatMap_cons, List.flatMap_nil,
      List.append_nil] at ha hb
    obtain ⟨i, hi, hai⟩ := ha
    have := h2 i n a hai hb
    omega

theorem tuples_nodup (l : List (String × Nat)) : (tuples l).Nodup := by
  induction l with
  | nil => simp [tuples]
  | cons a rest ih =>
    obtain ⟨name, n⟩ := a
    simp only [tuples]
    apply nodup_flatMap_range
    · intro i
      rw [List.nodup_iff_pairwise_ne] at ih ⊢
      exact List.Pairwise.map _ (fun a b hab e => hab (List.cons.inj e).2) ih
    · intro i j x hi hj
      simp only [List.mem_map] at hi hj
      obtain ⟨t, _, rfl⟩ := hi
      obtain ⟨t', _, e⟩ := hj
      have := (List.cons.inj e).1
      exact (Prod.mk.inj this).2.symm


/-! ## the declared counts are retrievable from `ec1` -/

theorem repeat_dot_inj {k k' : String} (h : "$repeat." ++ k = "$repeat." ++ k') : k = k' := by
  have := congrArg String.toList h
  simp only [String.toList_append, List.append_cancel_left_eq] at this
  exact String.toList_inj.1 this

theorem fget_repeatEc1_other (rs : Fields) (x : String) :
    ∀ ec : Vars, (∀ kv ∈ rs, "$repeat." ++ kv.1 ≠ x) → fget (repeatEc1 ec rs) x = fget ec x := by
  induction rs with
  | nil => intro ec _; rfl
  | cons kv rest ih =>
    intro ec h
    obtain ⟨k, v⟩ := kv
    simp only [repeatEc1]
    rw [ih _ (fun kv hkv => h kv (by simp [hkv])),
      fget_fset_ne _ _ _ _ (fun e => h (k, v) (by simp) e.symm)]

theorem fget_repeatEc1_mem (rs : Fields) (k : String) (v : Val) :
    ∀ ec : Vars, (rs.map (·.1)).Nodup → (k, v) ∈ rs →
      fget (repeatEc1 ec rs) ("$repeat." ++ k) = some v := by
  induction rs with
  | nil => intro _ _ h; cases h
  | cons kv rest ih =>
    intro ec hnd hm
    obtain ⟨k0, v0⟩ := kv
    simp only [List.map_cons, List.nodup_cons] at hnd
    simp only [repeatEc1]
    rcases List.mem_cons.1 hm with e | e
    · cases e
      rw [fget_repeatEc1_other rest _ _ (fun kv hkv e => hnd.1 (by
        have := repeat_dot_inj e
        exact List.mem_map.2 ⟨kv, hkv, this⟩))]
      exact fget_fset_same _ _ _
    · exact ih _ hnd.2 e

/-! ## `repeatGen`'s fold is the cartesian product -/

theorem bindTuple_cons (ec : Vars) (name : String) (i : Nat) (t : List (String × Nat)) :
    bindTuple ec ((name, i) :: t) = bindTuple (fset ec ("$repeat:" ++ name) (.int i)) t := rfl

/-- the step function of `repeatGen` on a named count -/
def repeatStep (pairs : List (Val × Vars)) (nc : String × Val) : R (List (Val × Vars)) :=
  match nc.2 with
  | .int n => pure (repeatInt ("$repeat:" ++ nc.1) n pairs)
  | _ => throw Err.invalidRepeat

theorem repeatGen_map_eq (data : Val) (ec : Vars) (rs : Fields) :
    repeatGen data ec (.map rs) = rs.foldlM repeatStep [(data, repeatEc1 ec rs)] := by
  simp only [repeatGen]
  rw [← repeatEc1_eq_foldl]
  congr 1

theorem foldlM_repeatStep (rs : Fields) (h : ∀ kv ∈ rs, ∃ n, kv.2 = Val.int n) :
    ∀ pairs : List (Val × Vars),
    rs.foldlM repeatStep pairs
      = .ok (pairs.flatMap fun p => (tuples (namedCounts rs)).map fun t => (p.1, bindTuple p.2 t)) := by
  induction rs with
  | nil =>
    intro pairs
    simp [namedCounts, tuples, bindTuple, pure, Except.pure]
  | cons kv rest ih =>
    intro pairs
    obtain ⟨name, v⟩ := kv
    obtain ⟨n, hn⟩ := h (name, v) (by simp)
    simp only at hn
    subst hn
    have ih' := ih (fun kv hkv => h kv (by simp [hkv]))
    simp only [List.foldlM_cons, repeatStep, pure_bind, ih', repeatInt]
    congr 1
    simp only [List.flatMap_assoc, namedCounts, List.map_cons, countOf, tuples]
    congr 1
    funext p
    simp only [List.flatMap_map, List.map_flatMap, List.map_map]
    congr 1

theorem foldlM_repeatStep_bad (rs : Fields) (h : ∃ kv ∈ rs, ∀ n, kv.2 ≠ Val.int n) :
    ∀ pairs : List (Val × Vars), rs.foldlM repeatStep pairs = .error .invalidRepeat := by
  induction rs with
  | nil => obtain ⟨kv, hkv, _⟩ := h; cases hkv
  | cons kv rest ih =>
    intro pairs
    obtain ⟨name, v⟩ := kv
    by_cases hv : ∃ n, v = .int n
    · obtain ⟨n, rfl⟩ := hv
      have : ∃ kv ∈ rest, ∀ n, kv.2 ≠ Val.int n := by
        obtain ⟨kv, hkv, hb⟩ := h
        rcases List.mem_cons.1 hkv with e | e
        · subst e; exact absurd rfl (hb n)
        · exact ⟨kv, e, hb⟩
      simp only [List.foldlM_cons, repeatStep, pure_bind]
      exact ih this _
    · simp only [List.foldlM_cons, repeatStep]
      cases v <;> first | rfl | exact absurd ⟨_, rfl⟩ hv

/-! ## `popListMapValue` when no entry is a single-key `{k: …}` map -/

/-- no list entry is a map with exactly one key `k` -/
def noSingleKey (k : String) (xs : List Val) : Prop :=
  ∀ x ∈ xs, ∀ m, x = .map m → m.length = 1 → fget m k = none

theorem popListMapValue_none_aux (k : String) (xs : List Val) (h : noSingleKey k xs)
    (ret : Val) (acc : List Val) :
    xs.foldlM (fun (p : Val × List Val) x =>
        match x with
        | .map m =>
          if m.length != 1 then pure (p.1, p.2 ++ [x])
          else match fget m k with
            | some val => if !p.1.isNull then throw Err.extraKeys else pure (val, p.2)
            | none => pure (p.1, p.2 ++ [x])
        | _ => pure (p.1, p.2 ++ [x])) (ret, acc)
      = (.ok (ret, acc ++ xs) : R (Val × List Val)) := by
  induction xs generalizing acc with
  | nil => simp [pure, Except.pure]
  | cons x xs ih =>
    have hxs : noSingleKey k xs := fun y hy => h y (by simp [hy])
    rw [List.foldlM_cons]
    have hstep : (match x with
        | .map m =>
          if m.length != 1 then (pure (ret, acc ++ [x]) : R (Val × List Val))
          else match fget m k with
            | some val => if !ret.isNull then throw Err.extraKeys else pure (val, acc)
            | none => pure (ret, acc ++ [x])
        | _ => pure (ret, acc ++ [x])) = pure (ret, acc ++ [x]) := by
      cases x with
      | map m =>
        by_cases hl : m.length = 1
        · have := h (.map m) (by simp) m rfl hl
          simp [hl, this]
        · simp [hl]
      | _ => rfl
    simp only [hstep, pure_bind]
    rw [ih hxs]
    simp

theorem popListMapValue_none (k : String) (xs : List Val) (h : noSingleKey k xs) :
    popListMapValue xs k = .ok (.null, xs) := by
  have := popListMapValue_none_aux k xs h .null []
  rw [List.nil_append] at this
  unfold popListMapValue
  exact this

/-- a map that has key `k'` is not a single-key `{k: …}` map for a different `k` -/
theorem noSingleKey_of_other_key {k k' : String} (hk : k' ≠ k) {m : Fields} {r : Val}
    (h : fget m k' = some r) : noSingleKey k [.map m] := by
  intro x hx m' e hl
  simp only [List.mem_singleton] at hx
  subst hx
  cases e
  match m, hl, h with
  | [(a, b)], _, h =>
    simp only [fget] at h ⊢
    by_cases ha : a = k'
    · subst ha; simp [hk]
    · simp [ha] at h

/-! ## nested repeat: collecting non-null copies -/

theorem foldlM_collect {α : Type} (f : α → R Val) (l : List α) (acc : List Val) :
    l.foldlM (fun acc2 i => do
        let v2 ← f i
        if v2.isNull then pure acc2 else pure (acc2 ++ [v2])) acc
      = (do let vs ← l.mapM f; pure (acc ++ vs.filter (fun v => !v.isNull))) := by
  induction l generalizing acc with
  | nil => simp
  | cons i l ih =>
    simp only [List.foldlM_cons, List.mapM_cons, bind_assoc, pure_bind]
    cases h : f i with
    | error e => rfl
    | ok v =>
      simp only [bind, Except.bind]
      cases hv : v.isNull
      · simp only [Bool.false_eq_true, if_false, pure, Except.pure]
        have := ih (acc ++ [v])
        simp only [bind, Except.bind, pure, Except.pure] at this
        rw [this]
        cases List.mapM f l <;> simp [hv]
      · simp only [if_true, pure, Except.pure]
        have := ih acc
        simp only [bind, Except.bind, pure, Except.pure] at this
        rw [this]
        cases List.mapM f l <;> simp [hv]

theorem mapM_ok_of_forall {α : Type} (f : α → R Val) (g : α → Val) (l : List α)
    (h : ∀ i ∈ l, f i = .ok (g i)) : l.mapM f = .ok (l.map g) := by
  induction l with
  | nil => rfl
  | cons i l ih =>
    simp only [List.mapM_cons, h i (by simp), ih (fun j hj => h j (by simp [hj]))]
    rfl

end Bkl
