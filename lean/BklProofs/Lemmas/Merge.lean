/-
  BklProofs.Lemmas.Merge — helper lemmas about `merge` (merge.go), used by C01.
-/
import Bkl.Merge
import BklProofs.Lemmas.Fields
namespace Bkl

/-! ## Definitions used in the C01 statements -/

/-- bool / int / float / string -/
def Val.isScalar : Val → Bool
  | .bool _ | .int _ | .flt _ | .str _ => true
  | _ => false

/-- A list-patch entry that carries no list directive: not the string `$replace`, and if it is
    a map it has no `$delete` key, no `$match` key and no `$replace: true`. -/
def plainEntry (v : Val) : Bool :=
  match v with
  | .map kvs => !(fhas kvs "$delete") && !(fhas kvs "$match") && !(fhasBool kvs "$replace" true)
  | v => !(v == .str "$replace")

/-- `d` minus the `"$required"` marker strings -/
def dropRequired (d : List Val) : List Val := d.filter (fun x => !(x == .str "$required"))

/-- what `C01_map_by_key` says about key `k` of the result `rm` of merging patch `s` into `d` -/
def mapSpec (d s rm : Fields) (k : String) : Prop :=
  match fget s k with
  | none => fget rm k = fget d k
  | some v =>
    if v.toStr = "$delete" then (fget d k ≠ none ∧ fget rm k = none)
    else match fget d k with
      | none => fget rm k = some v
      | some e => ∃ r', merge e v = .ok r' ∧ fget rm k = some r'

/-- the patch entry `(k, v)` cannot be applied to `d` -/
def badEntry (d : Fields) (k : String) (v : Val) : Prop :=
  (v.toStr = "$delete" ∧ fget d k = none) ∨
  (v.toStr ≠ "$delete" ∧ ∃ e, fget d k = some e ∧ ∃ err, merge e v = .error err)

/-! ## `merge` at the top level -/

theorem merge_map_map (d s : Fields) : merge (.map d) (.map s) = mergeMapMap d s := by
  rw [merge]

theorem merge_list_list (d s : List Val) : merge (.list d) (.list s) = mergeListList d s := by
  rw [merge]

theorem merge_map_null (d : Fields) : merge (.map d) .null = .ok (.map d) := by
  rw [merge]; rfl

theorem merge_list_null (d : List Val) : merge (.list d) .null = .ok (.list d) := by
  rw [merge]; rfl

theorem merge_null (s : Val) : merge .null s = .ok s := by
  rw [merge]; rfl

theorem mergeMapMap_replace {d s : Fields} (h : fhasBool s "$replace" true = true) :
    mergeMapMap d s = .ok (.map (fdel s "$replace")) := by
  rw [mergeMapMap, if_pos h]; rfl

theorem mergeMapMap_noreplace {d s : Fields} (h : fhasBool s "$replace" true = false) :
    mergeMapMap d s = (mergeFields d s).map .map := by
  rw [mergeMapMap]
  simp only [h, Bool.false_eq_true, if_false]
  cases mergeFields d s <;> rfl

/-! ## the `mergeFields` loop -/

theorem mergeFields_nil (d : Fields) : mergeFields d [] = .ok d := by
  rw [mergeFields]; rfl

theorem mergeFields_cons (d : Fields) (k : String) (v : Val) (rest : Fields) :
    mergeFields d ((k, v) :: rest) =
      if v.toStr = "$delete" then
        (if fget d k ≠ none then mergeFields (fdel d k) rest else .error .uselessOverride)
      else match fget d k with
        | some e =>
          (match merge e v with
           | .error err => .error err
           | .ok v2 => mergeFields (fset d k v2) rest)
        | none => mergeFields (fset d k v) rest := by
  rw [mergeFields]
  by_cases hv : v.toStr = "$delete"
  · simp only [hv, beq_self_eq_true, if_true]
    by_cases hh : fget d k = none
    · simp [fhas, hh]; rfl
    · have : fhas d k = true := fhas_iff_ne_none.2 hh
      simp [this, hh]
  · have : (v.toStr == "$delete") = false := by simpa using hv
    simp only [this, Bool.false_eq_true, if_false, hv]
    cases fget d k with
    | none => rfl
    | some e =>
      show (merge e v >>= fun v2 => mergeFields (fset d k v2) rest) =
        (match merge e v with
          | .error err => .error err
          | .ok v2 => mergeFields (fset d k v2) rest)
      cases merge e v <;> rfl

/-- Sortedness of the accumulated map is preserved by the loop. -/
theorem mergeFields_sorted {d s rm : Fields} (hd : Fields.SortedKeys d)
    (h : mergeFields d s = .ok rm) : Fields.SortedKeys rm := by
  induction s generalizing d with
  | nil => rw [mergeFields_nil] at h; cases h; exact hd
  | cons hd' tl ih =>
    obtain ⟨k, v⟩ := hd'
    rw [mergeFields_cons] at h
    split at h
    · split at h
      · exact ih (sorted_fdel hd) h
      · cases h
    · split at h
      · split at h
        · cases h
        · exact ih (sorted_fset hd) h
      · exact ih (sorted_fset hd) h

/-- Frame: a key the patch does not mention keeps its value (no sortedness needed). -/
theorem mergeFields_frame {d s rm : Fields} {k : String} (hk : fget s k = none)
    (h : mergeFields d s = .ok rm) : fget rm k = fget d k := by
  induction s generalizing d with
  | nil => rw [mergeFields_nil] at h; cases h; rfl
  | cons hd' tl ih =>
    obtain ⟨k', v⟩ := hd'
    simp only [fget] at hk
    split at hk
    · cases hk
    · rename_i hne
      have hne' : k ≠ k' := Ne.symm hne
      rw [mergeFields_cons] at h
      split at h
      · split at h
        · rw [ih hk h, fget_fdel_ne _ _ _ hne']
        · cases h
      · split at h
        · split at h
          · cases h
          · rw [ih hk h, fget_fset_ne _ _ _ _ hne']
        · rw [ih hk h, fget_fset_ne _ _ _ _ hne']

theorem mapSpec_congr {d d' s s' rm : Fields} {k : String} (h1 : fget s' k = fget s k)
    (h2 : fget d' k = fget d k) (h : mapSpec d' s' rm k) : mapSpec d s rm k := by
  unfold mapSpec at *
  rw [h1, h2] at h
  exact h

/-- Per-key description of a successful `mergeFields` on a key-sorted patch. -/
theorem mergeFields_spec {d s rm : Fields} (hs : Fields.SortedKeys s)
    (h : mergeFields d s = .ok rm) : ∀ k, mapSpec d s rm k := by
  induction s generalizing d with
  | nil =>
    rw [mergeFields_nil] at h; cases h
    intro k; simp [mapSpec, fget]
  | cons hd' tl ih =>
    obtain ⟨k', v⟩ := hd'
    have htl := sorted_tail hs
    have hk'tl : fget tl k' = none := fget_tail_head_none hs
    intro k
    rw [mergeFields_cons] at h
    by_cases hk : k = k'
    · -- the key handled by this step
      subst hk
      unfold mapSpec
      simp only [fget, if_true]
      split at h
      · rename_i hv
        rw [if_pos hv]
        split at h
        · rename_i hne
          exact ⟨hne, by rw [mergeFields_frame hk'tl h, fget_fdel_same]⟩
        · cases h
      · rename_i hv
        rw [if_neg hv]
        split at h
        · rename_i e he
          split at h
          · cases h
          · rename_i v2 hm
            rw [he]
            exact ⟨v2, hm, by rw [mergeFields_frame hk'tl h, fget_fset_same]⟩
        · rename_i he
          rw [he]
          show fget rm k = some v
          rw [mergeFields_frame hk'tl h, fget_fset_same]
    · -- another key: transfer along the induction hypothesis
      have hs' : fget tl k = fget ((k', v) :: tl) k := by
        simp only [fget]; rw [if_neg (Ne.symm hk)]
      split at h
      · split at h
        · exact mapSpec_congr hs' (fget_fdel_ne _ _ _ hk) (ih htl h k)
        · cases h
      · split at h
        · split at h
          · cases h
          · exact mapSpec_congr hs' (fget_fset_ne _ _ _ _ hk) (ih htl h k)
        · exact mapSpec_congr hs' (fget_fset_ne _ _ _ _ hk) (ih htl h k)

theorem badEntry_congr {d d' : Fields} {k : String} {v : Val} (h : fget d' k = fget d k) :
    badEntry d' k v ↔ badEntry d k v := by
  unfold badEntry; rw [h]

/-- `mergeFields` on a key-sorted patch fails iff some entry cannot be applied. -/
theorem mergeFields_error_iff {d s : Fields} (hs : Fields.SortedKeys s) :
    (∃ err, mergeFields d s = .error err) ↔ ∃ k v, fget s k = some v ∧ badEntry d k v := by
  induction s generalizing d with
  | nil => simp [mergeFields_nil, fget]
  | cons hd' tl ih =>
    obtain ⟨k', v'⟩ := hd'
    have htl := sorted_tail hs
    have hk'tl : fget tl k' = none := fget_tail_head_none hs
    -- witnesses in the tail are witnesses for any `d'` that agrees with `d` off `k'`
    have tail_iff : ∀ d' : Fields, (∀ k, k ≠ k' → fget d' k = fget d k) →
        ((∃ k v, fget tl k = some v ∧ badEntry d' k v) ↔
         (∃ k v, fget tl k = some v ∧ badEntry d k v)) := by
      intro d' hd'
      constructor
      · rintro ⟨k, v, hg, hb⟩
        have hne : k ≠ k' := by intro e; subst e; rw [hk'tl] at hg; cases hg
        exact ⟨k, v, hg, (badEntry_congr (hd' k hne)).1 hb⟩
      · rintro ⟨k, v, hg, hb⟩
        have hne : k ≠ k' := by intro e; subst e; rw [hk'tl] at hg; cases hg
        exact ⟨k, v, hg, (badEntry_congr (hd' k hne)).2 hb⟩
    -- split a witness for the whole patch into head / tail
    have split_iff : (∃ k v, fget ((k', v') :: tl) k = some v ∧ badEntry d k v) ↔
        (badEntry d k' v' ∨ ∃ k v, fget tl k = some v ∧ badEntry d k v) := by
      constructor
      · rintro ⟨k, v, hg, hb⟩
        simp only [fget] at hg
        split at hg
        · cases hg; subst_vars; exact Or.inl hb
        · exact Or.inr ⟨k, v, hg, hb⟩
      · rintro (hb | ⟨k, v, hg, hb⟩)
        · exact ⟨k', v', by simp [fget], hb⟩
        · have hne : k ≠ k' := by intro e; subst e; rw [hk'tl] at hg; cases hg
          refine ⟨k, v, ?_, hb⟩
          simp only [fget]; rw [if_neg (Ne.symm hne)]; exact hg
    rw [split_iff, mergeFields_cons]
    by_cases hv : v'.toStr = "$delete"
    · rw [if_pos hv]
      by_cases hg : fget d k' = none
      · simp only [hg, ne_eq, not_true_eq_false, if_false]
        constructor
        · intro _; exact Or.inl (Or.inl ⟨hv, hg⟩)
        · intro _; exact ⟨_, rfl⟩
      · rw [if_pos hg, ih htl, tail_iff _ (fun k hk => fget_fdel_ne _ _ _ hk)]
        constructor
        · intro h; exact Or.inr h
        · rintro (hb | h)
          · rcases hb with ⟨_, h2⟩ | ⟨h1, _⟩
            · exact absurd h2 hg
            · exact absurd hv h1
          · exact h
    · rw [if_neg hv]
      cases hg : fget d k' with
      | none =>
        simp only []
        rw [ih htl, tail_iff _ (fun k hk => fget_fset_ne _ _ _ _ hk)]
        constructor
        · intro h; exact Or.inr h
        · rintro (hb | h)
          · rcases hb with ⟨h1, _⟩ | ⟨_, e, he, _⟩
            · exact absurd h1 hv
            · rw [hg] at he; cases he
          · exact h
      | some e =>
        simp only []
        cases hm : merge e v' with
        | error err =>
          simp only []
          constructor
          · intro _; exact Or.inl (Or.inr ⟨hv, e, hg, err, hm⟩)
          · intro _; exact ⟨_, rfl⟩
        | ok v2 =>
          simp only []
          rw [ih htl, tail_iff _ (fun k hk => fget_fset_ne _ _ _ _ hk)]
          constructor
          · intro h; exact Or.inr h
          · rintro (hb | h)
            · rcases hb with ⟨h1, _⟩ | ⟨_, e', he', err, herr⟩
              · exact absurd h1 hv
              · rw [hg] at he'; cases he'
                rw [hm] at herr; cases herr
            · exact h

/-! ## the other top-level cases of `merge` -/

theorem merge_map_other (d : Fields) (src : Val) (h1 : src.isMap = false) (h2 : src.isNull = false) :
    merge (.map d) src = if d.isEmpty then .ok src else .error .invalidType := by
  cases src <;> simp [Val.isMap, Val.isNull] at h1 h2 <;> (rw [merge]; all_goals first | rfl | simp)

theorem merge_list_other (d : List Val) (src : Val) (h1 : src.isList = false) (h2 : src.isNull = false) :
    merge (.list d) src = .error .invalidType := by
  cases src <;> simp [Val.isList, Val.isNull] at h1 h2 <;> (rw [merge]; all_goals first | rfl | simp)

theorem merge_scalar (dst src : Val) (h : dst.isScalar = true) :
    merge dst src = if src == dst then .error .uselessOverride else .ok src := by
  cases dst <;> simp [Val.isScalar] at h <;> (rw [merge]; all_goals first | rfl | simp)

theorem merge_ok_cases {dst src r : Val} (h : merge dst src = .ok r) :
    r = src ∨ r = dst ∨ (∃ d s, dst = .map d ∧ src = .map s) ∨ (∃ d s, dst = .list d ∧ src = .list s) := by
  cases dst with
  | null => rw [merge_null] at h; cases h; exact Or.inl rfl
  | map d =>
    cases src with
    | map s => exact Or.inr (Or.inr (Or.inl ⟨d, s, rfl, rfl⟩))
    | null => rw [merge_map_null] at h; cases h; exact Or.inr (Or.inl rfl)
    | _ =>
      rw [merge_map_other _ _ rfl rfl] at h
      split at h
      · cases h; exact Or.inl rfl
      · cases h
  | list d =>
    cases src with
    | list s => exact Or.inr (Or.inr (Or.inr ⟨d, s, rfl, rfl⟩))
    | null => rw [merge_list_null] at h; cases h; exact Or.inr (Or.inl rfl)
    | _ => rw [merge_list_other _ _ rfl rfl] at h; cases h
  | _ =>
    rw [merge_scalar _ _ rfl] at h
    split at h
    · cases h
    · cases h; exact Or.inl rfl
end Bkl
