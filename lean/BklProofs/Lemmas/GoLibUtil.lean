/-
  Lemmas for the translation-equivalence theorems of util.go (BklProofs/Facts/TransUtil.lean):
  * a generic fact about `Go.forRange` (a loop whose body always continues is a fold);
  * rebuilding a map entry by entry (`fsetAll` / `fofList`, what Go's `ret[k] = v` loop does) gives back a
    key-sorted map unchanged;
  * `Val.norm` (rebuild every map) is the identity exactly on well-formed values.
-/
import Bkl.GoLib
import BklProofs.Lemmas.GoLib
import BklProofs.Lemmas.Fields
namespace Bkl
namespace Go

/-! ## loops -/

/-- a loop whose body always ends in `next` is a left fold -/
theorem forRange_fold {α σ ρ : Type} (g : σ → α → σ) (xs : List α) (s : σ) (body : α → σ → G (Loop σ ρ))
    (h : ∀ x ∈ xs, ∀ s, body x s = .ok (.next (g s x))) :
    forRange xs s body = .ok (.inl (xs.foldl g s)) := by
  induction xs generalizing s with
  | nil => rfl
  | cons x xs ih =>
    rw [forRange_cons_next (h x List.mem_cons_self s)]
    exact ih _ (fun y hy => h y (List.mem_cons_of_mem _ hy))

end Go

/-! ## rebuilding a map -/

theorem gu_fsetAll_cons (d : Fields) (p : String × Val) (rest : Fields) :
    fsetAll d (p :: rest) = fsetAll (fset d p.1 p.2) rest := rfl

theorem gu_sorted_fsetAll {d : Fields} (s : Fields) (hd : Fields.SortedKeys d) :
    Fields.SortedKeys (fsetAll d s) := by
  induction s generalizing d with
  | nil => exact hd
  | cons hd' tl ih => rw [gu_fsetAll_cons]; exact ih (sorted_fset hd)

theorem gu_sorted_fofList (s : Fields) : Fields.SortedKeys (fofList s) :=
  gu_sorted_fsetAll s (by simp [Fields.SortedKeys])

/-- inserting a key above every key of the map appends it -/
theorem gu_fset_append (acc : Fields) (k : String) (v : Val)
    (h : ∀ p ∈ acc, p.1 < k) : fset acc k v = acc ++ [(k, v)] := by
  induction acc with
  | nil => rfl
  | cons a t ih =>
    obtain ⟨k1, v1⟩ := a
    have h1 : k1 < k := h (k1, v1) List.mem_cons_self
    have hn : ¬ k < k1 := String.lt_asymm h1
    have hne : ¬ k = k1 := fun e => String.lt_irrefl k1 (e ▸ h1)
    simp only [fset, hn, hne, if_false, List.cons_append]
    rw [ih (fun p hp => h p (List.mem_cons_of_mem _ hp))]

theorem gu_fsetAll_append (l : Fields) : ∀ (acc : Fields), Fields.SortedKeys (acc ++ l) →
    fsetAll acc l = acc ++ l := by
  induction l with
  | nil => intro acc _; simp [fsetAll]
  | cons a t ih =>
    intro acc h
    obtain ⟨k, v⟩ := a
    have h1 : ∀ p ∈ acc, p.1 < k := by
      intro p hp
      exact (List.pairwise_append.1 (sorted_iff_pairwise.1 h)).2.2 p hp (k, v) List.mem_cons_self
    rw [gu_fsetAll_cons, gu_fset_append acc k v h1, ih _ (by simpa using h)]
    simp

/-- rebuilding a key-sorted map entry by entry gives the same map -/
theorem gu_fofList_sorted (l : Fields) (h : Fields.SortedKeys l) : fofList l = l := by
  have := gu_fsetAll_append l [] (by simpa using h)
  simpa [fofList] using this

/-- … and only a key-sorted map -/
theorem gu_fofList_eq_self_iff (l : Fields) : fofList l = l ↔ Fields.SortedKeys l :=
  ⟨fun h => h ▸ gu_sorted_fofList l, gu_fofList_sorted l⟩

theorem gu_wf_fsetAll {d : Fields} (s : Fields) (hd : Val.WF (.map d)) (hs : ∀ p ∈ s, Val.WF p.2) :
    Val.WF (.map (fsetAll d s)) := by
  induction s generalizing d with
  | nil => exact hd
  | cons p tl ih =>
    rw [gu_fsetAll_cons]
    exact ih (wf_fset hd (hs p List.mem_cons_self)) (fun q hq => hs q (List.mem_cons_of_mem _ hq))

/-! ## `Val.norm` -/

mutual
theorem gu_wf_norm : ∀ (v : Val), Val.WF (Val.norm v)
  | .null => rfl
  | .bool _ => rfl
  | .int _ => rfl
  | .flt _ => rfl
  | .str _ => rfl
  | .list xs => by
      rw [Val.norm, wf_list_iff]; exact gu_wf_normList xs
  | .map kvs => by
      rw [Val.norm]
      exact gu_wf_fsetAll _ (by decide) (gu_wf_normFields kvs)
theorem gu_wf_normList : ∀ (xs : List Val), ∀ x ∈ Val.normList xs, Val.WF x
  | [] => by simp [Val.normList]
  | y :: ys => by
      intro x hx
      rw [Val.normList] at hx
      rcases List.mem_cons.1 hx with rfl | hx
      · exact gu_wf_norm y
      · exact gu_wf_normList ys x hx
theorem gu_wf_normFields : ∀ (kvs : Fields), ∀ p ∈ Val.normFields kvs, Val.WF p.2
  | [] => by simp [Val.normFields]
  | (k, v) :: rest => by
      intro p hp
      rw [Val.normFields] at hp
      rcases List.mem_cons.1 hp with rfl | hp
      · exact gu_wf_norm v
      · exact gu_wf_normFields rest p hp
end

mutual
theorem gu_norm_of_wf : ∀ (v : Val), Val.WF v → Val.norm v = v
  | .null, _ => rfl
  | .bool _, _ => rfl
  | .int _, _ => rfl
  | .flt _, _ => rfl
  | .str _, _ => rfl
  | .list xs, h => by
      rw [Val.norm, gu_normList_of_wf xs (by simpa [Val.WF, Val.wfB] using h)]
  | .map kvs, h => by
      have h' : Fields.sortedKeysB kvs = true ∧ Val.wfFieldsB kvs = true := by
        simpa [Val.WF, Val.wfB] using h
      rw [Val.norm, gu_normFields_of_wf kvs h'.2, gu_fofList_sorted kvs (sortedKeysB_iff.1 h'.1)]
theorem gu_normList_of_wf : ∀ (xs : List Val), Val.wfListB xs = true → Val.normList xs = xs
  | [], _ => rfl
  | y :: ys, h => by
      have h' : Val.wfB y = true ∧ Val.wfListB ys = true := by simpa [Val.wfListB] using h
      rw [Val.normList, gu_norm_of_wf y h'.1, gu_normList_of_wf ys h'.2]
theorem gu_normFields_of_wf : ∀ (kvs : Fields), Val.wfFieldsB kvs = true → Val.normFields kvs = kvs
  | [], _ => rfl
  | (k, v) :: rest, h => by
      have h' : Val.wfB v = true ∧ Val.wfFieldsB rest = true := by simpa [Val.wfFieldsB] using h
      rw [Val.normFields, gu_norm_of_wf v h'.1, gu_normFields_of_wf rest h'.2]
end

/-- `Val.norm` (rebuild every map by inserting its entries one by one) is the identity exactly on the values whose
    maps are all strictly sorted by key -/
theorem gu_norm_eq_self_iff (v : Val) : Val.norm v = v ↔ Val.WF v :=
  ⟨fun h => h ▸ gu_wf_norm v, gu_norm_of_wf v⟩

/-- the two folds of the `deepClone` loops -/
theorem gu_foldl_norm_fields (kvs : Fields) (acc : Fields) :
    kvs.foldl (fun acc (p : String × Val) => fset acc p.1 (Val.norm p.2)) acc = fsetAll acc (Val.normFields kvs) := by
  induction kvs generalizing acc with
  | nil => rfl
  | cons p rest ih =>
    obtain ⟨k, v⟩ := p
    rw [List.foldl_cons, ih, Val.normFields, gu_fsetAll_cons]

theorem gu_foldl_norm_list (xs : List Val) (acc : List Val) :
    xs.foldl (fun acc x => acc ++ [Val.norm x]) acc = acc ++ Val.normList xs := by
  induction xs generalizing acc with
  | nil => simp [Val.normList]
  | cons x rest ih => rw [List.foldl_cons, ih, Val.normList]; simp

end Bkl
