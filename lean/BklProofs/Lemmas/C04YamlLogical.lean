/-
  BklProofs.Lemmas.C04YamlLogical — a format-independent value type (`ym_Logical`) with its
  JSON / YAML / TOML readings (what the three decoders hand to bkl for the same datum), and the
  proof that all three normalise to the same `Val` (`ym_Logical.val`).

  Every helper name is prefixed `ym_`.
-/
import BklProofs.Lemmas.C04Yaml
namespace Bkl

/-- a datum, independent of the format it is written in.  A float carries the literal text it
    is written with (`text`, as JSON keeps it in `json.Number`) and the `%v` text of its float64
    value (`fr`). -/
inductive ym_Logical where
  | null
  | bool (b : Bool)
  | int (i : Int)
  | flt (text : String) (fr : String)
  | str (s : String)
  | list (xs : List ym_Logical)
  | map (kvs : List (String × ym_Logical))

abbrev ym_LFields := List (String × ym_Logical)

mutual
/-- the value bkl works with -/
def ym_Logical.val : ym_Logical → Val
  | .null => .null
  | .bool b => .bool b
  | .int i => .int i
  | .flt _ fr => .flt fr
  | .str s => .str s
  | .list xs => .list (ym_valList xs)
  | .map kvs => .map (fofList (ym_valFields kvs))
def ym_valList : List ym_Logical → List Val
  | [] => []
  | x :: xs => x.val :: ym_valList xs
def ym_valFields : ym_LFields → Fields
  | [] => []
  | (k, v) :: rest => (k, v.val) :: ym_valFields rest
end

mutual
/-- representable data: integers are int64, a float's text is not an int64 literal and has a
    float64 value, and no map key is the merge indicator `<<` -/
def ym_Logical.ok : ym_Logical → Bool
  | .int i => decide (int64Min ≤ i ∧ i ≤ int64Max)
  | .flt text fr => (parseInt64 text).isNone && !fr.isEmpty
  | .list xs => ym_okList xs
  | .map kvs => ym_okFields kvs
  | .null => true
  | .bool _ => true
  | .str _ => true
def ym_okList : List ym_Logical → Bool
  | [] => true
  | x :: xs => x.ok && ym_okList xs
def ym_okFields : ym_LFields → Bool
  | [] => true
  | (k, v) :: rest => k != "<<" && v.ok && ym_okFields rest
end

mutual
/-- encoding/json with `UseNumber`: numbers are `json.Number` (literal text + float64 `%v`);
    `jf i` is the `%v` text of the float64 nearest to the integer `i` (irrelevant) -/
def ym_renderJson (jf : Int → String) : ym_Logical → Raw
  | .null => .null
  | .bool b => .bool b
  | .int i => .jnum (toString i) (jf i)
  | .flt text fr => .jnum text fr
  | .str s => .str s
  | .list xs => .list (ym_renderJsonList jf xs)
  | .map kvs => .map (ym_renderJsonFields jf kvs)
def ym_renderJsonList (jf : Int → String) : List ym_Logical → List Raw
  | [] => []
  | x :: xs => ym_renderJson jf x :: ym_renderJsonList jf xs
def ym_renderJsonFields (jf : Int → String) : ym_LFields → RFields
  | [] => []
  | (k, v) :: rest => (k, ym_renderJson jf v) :: ym_renderJsonFields jf rest
end

mutual
/-- yaml.v3 node trees: tagged scalars, sequences, mappings -/
def ym_renderYaml (yf : Int → String) : ym_Logical → YNode
  | .null => .scalar "!!null" "null" ""
  | .bool b => .scalar "!!bool" (if b then "true" else "false") ""
  | .int i => .scalar "!!int" (toString i) (yf i)
  | .flt text fr => .scalar "!!float" text fr
  | .str s => .scalar "!!str" s ""
  | .list xs => .seq (ym_renderYamlList yf xs)
  | .map kvs => .mapping (ym_renderYamlFields yf kvs)
def ym_renderYamlList (yf : Int → String) : List ym_Logical → List YNode
  | [] => []
  | x :: xs => ym_renderYaml yf x :: ym_renderYamlList yf xs
def ym_renderYamlFields (yf : Int → String) : ym_LFields → ym_YPairs
  | [] => []
  | (k, v) :: rest => (k, ym_renderYaml yf v) :: ym_renderYamlFields yf rest
end

mutual
/-- go-toml: integers are `int64`, floats `float64`, a non-empty array whose elements are all
    tables is a `[]map[string]any` -/
def ym_renderToml : ym_Logical → Raw
  | .null => .null
  | .bool b => .bool b
  | .int i => .goInt64 i
  | .flt _ fr => .goFloat fr
  | .str s => .str s
  | .list xs =>
    if xs.isEmpty then .list []
    else match ym_tomlTables xs with
      | some ms => .listOfMaps ms
      | none => .list (ym_renderTomlList xs)
  | .map kvs => .map (ym_renderTomlFields kvs)
def ym_renderTomlList : List ym_Logical → List Raw
  | [] => []
  | x :: xs => ym_renderToml x :: ym_renderTomlList xs
def ym_renderTomlFields : ym_LFields → RFields
  | [] => []
  | (k, v) :: rest => (k, ym_renderToml v) :: ym_renderTomlFields rest
def ym_tomlTables : List ym_Logical → Option (List RFields)
  | [] => some []
  | x :: xs =>
    match x with
    | .map kvs =>
      match ym_tomlTables xs with
      | some ms => some (ym_renderTomlFields kvs :: ms)
      | none => none
    | _ => none
end

theorem ym_ok_int {i : Int} (h : (ym_Logical.int i).ok = true) : int64Min ≤ i ∧ i ≤ int64Max := by
  rw [ym_Logical.ok] at h; exact of_decide_eq_true h

theorem ym_ok_flt {text fr : String} (h : (ym_Logical.flt text fr).ok = true) :
    parseInt64 text = none ∧ fr.isEmpty = false := by
  rw [ym_Logical.ok, Bool.and_eq_true] at h
  refine ⟨?_, by simpa using h.2⟩
  cases hp : parseInt64 text with
  | none => rfl
  | some i => rw [hp] at h; cases h.1

/-! ## JSON -/

mutual
theorem ym_json_val (jf : Int → String) : ∀ (v : ym_Logical), v.ok = true →
    hasMapAny (ym_renderJson jf v) = false ∧ ym_norm (ym_renderJson jf v) = v.val
  | .null, _ => by rw [ym_renderJson, ym_norm, ym_Logical.val]; exact ⟨rfl, rfl⟩
  | .bool b, _ => by rw [ym_renderJson, ym_norm, ym_Logical.val]; exact ⟨rfl, rfl⟩
  | .str s, _ => by rw [ym_renderJson, ym_norm, ym_Logical.val]; exact ⟨rfl, rfl⟩
  | .int i, h => by
    obtain ⟨h1, h2⟩ := ym_ok_int h
    rw [ym_renderJson, ym_norm, ym_Logical.val, hasMapAny, parseInt64_toString i h1 h2]
    exact ⟨rfl, rfl⟩
  | .flt text fr, h => by
    obtain ⟨h1, h2⟩ := ym_ok_flt h
    rw [ym_renderJson, ym_norm, ym_Logical.val, hasMapAny, h1, h2]
    exact ⟨rfl, rfl⟩
  | .list xs, h => by
    rw [ym_Logical.ok] at h
    obtain ⟨h1, h2⟩ := ym_jsonList_val jf xs h
    rw [ym_renderJson, ym_norm, ym_Logical.val, hasMapAny, h2]
    exact ⟨h1, rfl⟩
  | .map kvs, h => by
    rw [ym_Logical.ok] at h
    obtain ⟨h1, h2⟩ := ym_jsonFields_val jf kvs h
    rw [ym_renderJson, ym_norm, ym_Logical.val, hasMapAny, h2]
    exact ⟨h1, rfl⟩
theorem ym_jsonList_val (jf : Int → String) : ∀ (xs : List ym_Logical), ym_okList xs = true →
    hasMapAnyList (ym_renderJsonList jf xs) = false ∧
    ym_normList (ym_renderJsonList jf xs) = ym_valList xs
  | [], _ => by rw [ym_renderJsonList, ym_normList, ym_valList]; exact ⟨rfl, rfl⟩
  | x :: xs, h => by
    rw [ym_okList, Bool.and_eq_true] at h
    obtain ⟨a1, a2⟩ := ym_json_val jf x h.1
    obtain ⟨b1, b2⟩ := ym_jsonList_val jf xs h.2
    rw [ym_renderJsonList, ym_normList, ym_valList, hasMapAnyList, a1, a2, b1, b2]
    exact ⟨rfl, rfl⟩
theorem ym_jsonFields_val (jf : Int → String) : ∀ (kvs : ym_LFields), ym_okFields kvs = true →
    hasMapAnyFields (ym_renderJsonFields jf kvs) = false ∧
    ym_normFields (ym_renderJsonFields jf kvs) = ym_valFields kvs
  | [], _ => by rw [ym_renderJsonFields, ym_normFields, ym_valFields]; exact ⟨rfl, rfl⟩
  | (k, v) :: rest, h => by
    rw [ym_okFields, Bool.and_eq_true, Bool.and_eq_true] at h
    obtain ⟨a1, a2⟩ := ym_json_val jf v h.1.2
    obtain ⟨b1, b2⟩ := ym_jsonFields_val jf rest h.2
    rw [ym_renderJsonFields, ym_normFields, ym_valFields, hasMapAnyFields, a1, a2, b1, b2]
    exact ⟨rfl, rfl⟩
end

/-! ## TOML -/

theorem ym_hasMapAny_listOfMaps (ms : List RFields) :
    hasMapAny (.listOfMaps ms) = hasMapAnyMaps ms := by rw [hasMapAny]
theorem ym_norm_listOfMaps (ms : List RFields) :
    ym_norm (.listOfMaps ms) = .list (ym_normMaps ms) := by rw [ym_norm]

mutual
theorem ym_toml_val : ∀ (v : ym_Logical), v.ok = true →
    hasMapAny (ym_renderToml v) = false ∧ ym_norm (ym_renderToml v) = v.val
  | .null, _ => by rw [ym_renderToml, ym_norm, ym_Logical.val]; exact ⟨rfl, rfl⟩
  | .bool b, _ => by rw [ym_renderToml, ym_norm, ym_Logical.val]; exact ⟨rfl, rfl⟩
  | .str s, _ => by rw [ym_renderToml, ym_norm, ym_Logical.val]; exact ⟨rfl, rfl⟩
  | .int i, _ => by rw [ym_renderToml, ym_norm, ym_Logical.val]; exact ⟨rfl, rfl⟩
  | .flt text fr, _ => by rw [ym_renderToml, ym_norm, ym_Logical.val]; exact ⟨rfl, rfl⟩
  | .list xs, h => by
    rw [ym_Logical.ok] at h
    rw [ym_renderToml, ym_Logical.val]
    split
    · rename_i he
      have : xs = [] := by simpa using he
      subst this
      rw [ym_valList, ym_norm_list, ym_normList_nil]; exact ⟨rfl, rfl⟩
    · cases ht : ym_tomlTables xs with
      | some ms =>
        obtain ⟨h1, h2⟩ := ym_tomlTables_val xs h ms ht
        simp only
        rw [ym_hasMapAny_listOfMaps, ym_norm_listOfMaps, h2]
        exact ⟨h1, rfl⟩
      | none =>
        obtain ⟨h1, h2⟩ := ym_tomlList_val xs h
        simp only
        rw [ym_hasMapAny_list, ym_norm_list, h2]
        exact ⟨h1, rfl⟩
  | .map kvs, h => by
    rw [ym_Logical.ok] at h
    obtain ⟨h1, h2⟩ := ym_tomlFields_val kvs h
    rw [ym_renderToml, ym_norm, ym_Logical.val, hasMapAny, h2]
    exact ⟨h1, rfl⟩
theorem ym_tomlList_val : ∀ (xs : List ym_Logical), ym_okList xs = true →
    hasMapAnyList (ym_renderTomlList xs) = false ∧
    ym_normList (ym_renderTomlList xs) = ym_valList xs
  | [], _ => by rw [ym_renderTomlList, ym_normList, ym_valList]; exact ⟨rfl, rfl⟩
  | x :: xs, h => by
    rw [ym_okList, Bool.and_eq_true] at h
    obtain ⟨a1, a2⟩ := ym_toml_val x h.1
    obtain ⟨b1, b2⟩ := ym_tomlList_val xs h.2
    rw [ym_renderTomlList, ym_normList, ym_valList, hasMapAnyList, a1, a2, b1, b2]
    exact ⟨rfl, rfl⟩
theorem ym_tomlFields_val : ∀ (kvs : ym_LFields), ym_okFields kvs = true →
    hasMapAnyFields (ym_renderTomlFields kvs) = false ∧
    ym_normFields (ym_renderTomlFields kvs) = ym_valFields kvs
  | [], _ => by rw [ym_renderTomlFields, ym_normFields, ym_valFields]; exact ⟨rfl, rfl⟩
  | (k, v) :: rest, h => by
    rw [ym_okFields, Bool.and_eq_true, Bool.and_eq_true] at h
    obtain ⟨a1, a2⟩ := ym_toml_val v h.1.2
    obtain ⟨b1, b2⟩ := ym_tomlFields_val rest h.2
    rw [ym_renderTomlFields, ym_normFields, ym_valFields, hasMapAnyFields, a1, a2, b1, b2]
    exact ⟨rfl, rfl⟩
theorem ym_tomlTables_val : ∀ (xs : List ym_Logical), ym_okList xs = true →
    ∀ ms, ym_tomlTables xs = some ms →
    hasMapAnyMaps ms = false ∧ ym_normMaps ms = ym_valList xs
  | [], _, ms, ht => by
    rw [ym_tomlTables] at ht; cases ht
    rw [ym_normMaps, ym_valList]; exact ⟨rfl, rfl⟩
  | .map kvs :: xs, h, ms, ht => by
    rw [ym_okList, Bool.and_eq_true, ym_Logical.ok] at h
    rw [ym_tomlTables] at ht
    cases hr : ym_tomlTables xs with
    | none => rw [hr] at ht; cases ht
    | some ms' =>
      rw [hr] at ht; cases ht
      obtain ⟨a1, a2⟩ := ym_tomlFields_val kvs h.1
      obtain ⟨b1, b2⟩ := ym_tomlTables_val xs h.2 ms' hr
      rw [hasMapAnyMaps, ym_normMaps, ym_valList, ym_Logical.val, a1, a2, b1, b2]
      exact ⟨rfl, rfl⟩
  | .null :: xs, _, ms, ht => by simp [ym_tomlTables] at ht
  | .bool _ :: xs, _, ms, ht => by simp [ym_tomlTables] at ht
  | .int _ :: xs, _, ms, ht => by simp [ym_tomlTables] at ht
  | .flt _ _ :: xs, _, ms, ht => by simp [ym_tomlTables] at ht
  | .str _ :: xs, _, ms, ht => by simp [ym_tomlTables] at ht
  | .list _ :: xs, _, ms, ht => by simp [ym_tomlTables] at ht
end

/-! ## YAML -/

theorem ym_renderYamlFields_noMerge (yf : Int → String) : ∀ (kvs : ym_LFields),
    ym_okFields kvs = true → ym_noMerge (ym_renderYamlFields yf kvs)
  | [], _ => by rw [ym_renderYamlFields]; exact ym_noMerge_nil
  | (k, v) :: rest, h => by
    rw [ym_okFields, Bool.and_eq_true, Bool.and_eq_true] at h
    rw [ym_renderYamlFields]
    exact ym_noMerge_cons (by simpa using h.1.1) (ym_renderYamlFields_noMerge yf rest h.2)

theorem ym_norm_goInt (i : Int) : ym_norm (.goInt i) = .int i := by rw [ym_norm]
theorem ym_norm_goInt64 (i : Int) : ym_norm (.goInt64 i) = .int i := by rw [ym_norm]

/-- the normalised map only depends on the normalised entries -/
theorem ym_norm_map_foldl_rput (l : RFields) :
    ym_norm (.map (l.foldl rput [])) = .map (fofList (ym_normFields l)) := by
  rw [← ym_norm_map, ym_norm_map_eq_iff]
  intro k
  rw [ym_nl_foldl_rput, ym_nl_nil, Option.or_none]

mutual
theorem ym_yaml_val (yf : Int → String) : ∀ (v : ym_Logical), v.ok = true →
    ∃ r, yamlTranslate (ym_renderYaml yf v) = .ok r ∧ ym_norm r = v.val
  | .null, _ => ⟨.null, by rw [ym_renderYaml, ym_T_scalar]; rfl, by rw [ym_norm, ym_Logical.val]⟩
  | .bool b, _ => by
    refine ⟨.bool b, ?_, by rw [ym_norm, ym_Logical.val]⟩
    rw [ym_renderYaml, ym_T_scalar]
    cases b <;> rfl
  | .str s, _ => ⟨.str s, by rw [ym_renderYaml, ym_T_scalar]; rfl, by rw [ym_norm, ym_Logical.val]⟩
  | .int i, h => by
    obtain ⟨h1, h2⟩ := ym_ok_int h
    rw [ym_renderYaml, ym_T_scalar, yamlScalar_int_toString i _ h1 h2, ym_Logical.val]
    split
    · exact ⟨_, rfl, ym_norm_goInt i⟩
    · exact ⟨_, rfl, ym_norm_goInt64 i⟩
  | .flt text fr, h => by
    obtain ⟨_, h2⟩ := ym_ok_flt h
    rw [ym_renderYaml, ym_T_scalar, yamlScalar_float, h2, ym_Logical.val]
    exact ⟨.goFloat fr, rfl, by rw [ym_norm]⟩
  | .list xs, h => by
    rw [ym_Logical.ok] at h
    obtain ⟨rs, h1, h2⟩ := ym_yamlList_val yf xs h
    rw [ym_renderYaml, ym_T_seq, h1, ym_Logical.val]
    exact ⟨.list rs, rfl, by rw [ym_norm_list, h2]⟩
  | .map kvs, h => by
    rw [ym_Logical.ok] at h
    obtain ⟨l, h1, h2⟩ := ym_yamlFields_val yf kvs h
    rw [ym_renderYaml, ym_T_mapping_noMerge _ (ym_renderYamlFields_noMerge yf kvs h), h1,
      ym_Logical.val]
    exact ⟨_, rfl, by rw [ym_norm_map_foldl_rput, h2]⟩
theorem ym_yamlList_val (yf : Int → String) : ∀ (xs : List ym_Logical), ym_okList xs = true →
    ∃ rs, yamlTranslateList (ym_renderYamlList yf xs) = .ok rs ∧ ym_normList rs = ym_valList xs
  | [], _ => ⟨[], by rw [ym_renderYamlList, ym_TL_nil], by rw [ym_normList, ym_valList]⟩
  | x :: xs, h => by
    rw [ym_okList, Bool.and_eq_true] at h
    obtain ⟨r, a1, a2⟩ := ym_yaml_val yf x h.1
    obtain ⟨rs, b1, b2⟩ := ym_yamlList_val yf xs h.2
    rw [ym_renderYamlList, ym_TL_cons, a1, b1, ym_valList]
    exact ⟨r :: rs, rfl, by rw [ym_normList, a2, b2]⟩
theorem ym_yamlFields_val (yf : Int → String) : ∀ (kvs : ym_LFields), ym_okFields kvs = true →
    ∃ l, yamlTranslatePairs (ym_renderYamlFields yf kvs) = .ok l ∧
      ym_normFields l = ym_valFields kvs
  | [], _ => ⟨[], by rw [ym_renderYamlFields, ym_TP_nil], by rw [ym_normFields, ym_valFields]⟩
  | (k, v) :: rest, h => by
    rw [ym_okFields, Bool.and_eq_true, Bool.and_eq_true] at h
    obtain ⟨r, a1, a2⟩ := ym_yaml_val yf v h.1.2
    obtain ⟨rs, b1, b2⟩ := ym_yamlFields_val yf rest h.2
    rw [ym_renderYamlFields, ym_TP_cons_other _ _ _ (by simpa using h.1.1), a1, b1, ym_valFields]
    exact ⟨(k, r) :: rs, rfl, by rw [ym_normFields, a2, b2]⟩
end

/-- all three readings of a representable datum normalise to its value -/
theorem ym_three_formats (jf yf : Int → String) (v : ym_Logical) (h : v.ok = true) :
    normalize (ym_renderJson jf v) = .ok v.val ∧
    normalize (ym_renderToml v) = .ok v.val ∧
    (yamlTranslate (ym_renderYaml yf v) >>= normalize) = .ok v.val := by
  obtain ⟨j1, j2⟩ := ym_json_val jf v h
  obtain ⟨t1, t2⟩ := ym_toml_val v h
  obtain ⟨r, y1, y2⟩ := ym_yaml_val yf v h
  refine ⟨by rw [ym_normalize_eq _ j1, j2], by rw [ym_normalize_eq _ t1, t2], ?_⟩
  rw [ym_T_normalize _ r y1, y2]

/-! ## the hand-expanded form of `{pre…, <<: base, post…}` -/

/-- what one writes when expanding `<<: base` by hand: the entries of `base` that are not
    overridden, then the explicit entries -/
def ym_handExpand (base ex : ym_LFields) : ym_LFields :=
  base.filter (fun p => !(ex.any (fun q => q.1 == p.1))) ++ ex

theorem ym_okFields_append : ∀ (a b : ym_LFields),
    ym_okFields (a ++ b) = (ym_okFields a && ym_okFields b)
  | [], b => by rw [List.nil_append, ym_okFields, Bool.true_and]
  | (k, v) :: a, b => by
    rw [List.cons_append, ym_okFields, ym_okFields, ym_okFields_append a b]
    simp only [Bool.and_assoc]

theorem ym_okFields_filter (P : String × ym_Logical → Bool) : ∀ (a : ym_LFields),
    ym_okFields a = true → ym_okFields (a.filter P) = true
  | [], _ => by rw [List.filter_nil, ym_okFields]
  | (k, v) :: a, h => by
    rw [ym_okFields, Bool.and_eq_true] at h
    rw [List.filter_cons]
    split
    · rw [ym_okFields, h.1, ym_okFields_filter P a h.2]; rfl
    · exact ym_okFields_filter P a h.2

theorem ym_handExpand_ok (base ex : ym_LFields) (hb : ym_okFields base = true)
    (he : ym_okFields ex = true) : ym_okFields (ym_handExpand base ex) = true := by
  unfold ym_handExpand
  rw [ym_okFields_append, ym_okFields_filter _ base hb, he]; rfl

theorem ym_renderJsonFields_append (jf : Int → String) : ∀ (a b : ym_LFields),
    ym_renderJsonFields jf (a ++ b) = ym_renderJsonFields jf a ++ ym_renderJsonFields jf b
  | [], b => by rw [List.nil_append, ym_renderJsonFields, List.nil_append]
  | (k, v) :: a, b => by
    rw [List.cons_append, ym_renderJsonFields, ym_renderJsonFields, ym_renderJsonFields_append jf a b,
      List.cons_append]

theorem ym_renderYamlFields_append (yf : Int → String) : ∀ (a b : ym_LFields),
    ym_renderYamlFields yf (a ++ b) = ym_renderYamlFields yf a ++ ym_renderYamlFields yf b
  | [], b => by rw [List.nil_append, ym_renderYamlFields, List.nil_append]
  | (k, v) :: a, b => by
    rw [List.cons_append, ym_renderYamlFields, ym_renderYamlFields, ym_renderYamlFields_append yf a b,
      List.cons_append]

/-- filtering on keys commutes with rendering -/
theorem ym_renderJsonFields_filter (jf : Int → String) (P : String → Bool) : ∀ (a : ym_LFields),
    ym_renderJsonFields jf (a.filter (fun p => P p.1)) =
      (ym_renderJsonFields jf a).filter (fun p => P p.1)
  | [] => by rw [List.filter_nil, ym_renderJsonFields, List.filter_nil]
  | (k, v) :: a => by
    rw [ym_renderJsonFields, List.filter_cons, List.filter_cons]
    cases hP : P k with
    | true =>
      simp only [if_true]
      rw [ym_renderJsonFields, ym_renderJsonFields_filter jf P a]
    | false =>
      simp only [Bool.false_eq_true, if_false]
      exact ym_renderJsonFields_filter jf P a

theorem ym_renderJsonFields_keys (jf : Int → String) : ∀ (a : ym_LFields),
    (ym_renderJsonFields jf a).map (·.1) = a.map (·.1)
  | [] => by rw [ym_renderJsonFields]; rfl
  | (k, v) :: a => by
    rw [ym_renderJsonFields, List.map_cons, List.map_cons, ym_renderJsonFields_keys jf a]

theorem ym_rlookup_none (a : RFields) (k : String) (h : rlookup a k = none) :
    ∀ p ∈ a, p.1 ≠ k := by
  induction a with
  | nil => intro p hp; cases hp
  | cons q a ih =>
    obtain ⟨k', v⟩ := q
    rw [ym_rlookup_cons] at h
    cases hr : rlookup a k with
    | some r => rw [hr] at h; cases h
    | none =>
      rw [hr, Option.none_or] at h
      have hk : k' ≠ k := by
        intro e; rw [if_pos e] at h; cases h
      intro p hp
      rcases List.mem_cons.1 hp with rfl | hp
      · exact hk
      · exact ih hr p hp

theorem ym_rlookup_filter (P : String × Raw → Bool) (a : RFields) (k : String)
    (h : ∀ p ∈ a, p.1 = k → P p = true) : rlookup (a.filter P) k = rlookup a k := by
  induction a with
  | nil => rfl
  | cons q a ih =>
    obtain ⟨k', v⟩ := q
    have ih' := ih (fun p hp => h p (List.mem_cons_of_mem _ hp))
    rw [List.filter_cons]
    by_cases hk : k' = k
    · have : P (k', v) = true := h (k', v) List.mem_cons_self hk
      rw [this, if_pos rfl, ym_rlookup_cons, ym_rlookup_cons, ih']
    · rw [ym_rlookup_cons (rest := a), if_neg hk, Option.or_none]
      split
      · rw [ym_rlookup_cons, if_neg hk, Option.or_none, ih']
      · exact ih'

/-- normalised lookup in the hand-expanded form: the explicit entry, else `base`'s -/
theorem ym_nl_handExpand (jf : Int → String) (base ex : ym_LFields) (k : String) :
    ym_nl (ym_renderJsonFields jf (ym_handExpand base ex)) k =
      (ym_nl (ym_renderJsonFields jf ex) k).or (ym_nl (ym_renderJsonFields jf base) k) := by
  unfold ym_handExpand
  rw [ym_renderJsonFields_append, ym_nl_append]
  cases he : ym_nl (ym_renderJsonFields jf ex) k with
  | some v => rfl
  | none =>
    rw [Option.none_or, Option.none_or]
    have hr : rlookup (ym_renderJsonFields jf ex) k = none := by
      unfold ym_nl at he
      cases hr : rlookup (ym_renderJsonFields jf ex) k with
      | none => rfl
      | some r => rw [hr] at he; cases he
    have hne : ∀ q ∈ ex, q.1 ≠ k := by
      intro q hq e
      have : k ∈ (ym_renderJsonFields jf ex).map (·.1) := by
        rw [ym_renderJsonFields_keys]; exact List.mem_map.2 ⟨q, hq, e⟩
      obtain ⟨p, hp, hpk⟩ := List.mem_map.1 this
      exact ym_rlookup_none _ k hr p hp hpk
    rw [ym_renderJsonFields_filter jf (fun key => !(ex.any (fun q => q.1 == key))) base]
    unfold ym_nl
    rw [ym_rlookup_filter]
    intro p _ hpk
    simp only [Bool.not_eq_true', List.any_eq_false, beq_iff_eq]
    intro q hq e
    exact hne q hq (e.trans hpk)

/-- the keys of the hand-expanded form are distinct when those of `base` and of the explicit
    entries are: it is a legitimate JSON object -/
theorem ym_handExpand_nodup (base ex : ym_LFields) (hb : (base.map (·.1)).Nodup)
    (he : (ex.map (·.1)).Nodup) : ((ym_handExpand base ex).map (·.1)).Nodup := by
  unfold ym_handExpand
  rw [List.map_append, List.nodup_append]
  refine ⟨(List.filter_sublist.map _).nodup hb, he, ?_⟩
  intro a ha b hb' e
  subst e
  obtain ⟨p, hp, rfl⟩ := List.mem_map.1 ha
  obtain ⟨q, hq, hqk⟩ := List.mem_map.1 hb'
  have := (List.mem_filter.1 hp).2
  simp only [Bool.not_eq_true', List.any_eq_false, beq_iff_eq] at this
  exact this q hq hqk

/-- `{pre…, <<: base, post…}` read as YAML has the value of its hand-expanded form read as JSON -/
theorem ym_merge_equals_json (jf yf : Int → String) (base pre post : ym_LFields)
    (hb : ym_okFields base = true) (hpre : ym_okFields pre = true) (hpost : ym_okFields post = true) :
    (yamlTranslate (.mapping (ym_renderYamlFields yf pre ++
        ("<<", ym_renderYaml yf (.map base)) :: ym_renderYamlFields yf post)) >>= normalize) =
      normalize (ym_renderJson jf (.map (ym_handExpand base (pre ++ post)))) := by
  have hex : ym_okFields (pre ++ post) = true := by rw [ym_okFields_append, hpre, hpost]; rfl
  have hhx := ym_handExpand_ok base (pre ++ post) hb hex
  -- the JSON side
  have hj := (ym_three_formats jf yf (.map (ym_handExpand base (pre ++ post)))
    (by rw [ym_Logical.ok]; exact hhx)).1
  rw [hj]
  -- the YAML side
  obtain ⟨lb, b1, b2⟩ := ym_yamlFields_val yf base hb
  obtain ⟨ls, l1, l2⟩ := ym_yamlFields_val yf (pre ++ post) hex
  rw [ym_renderYamlFields_append] at l1
  have hx : yamlTranslate (ym_renderYaml yf (.map base)) = .ok (.map (lb.foldl rput [])) := by
    rw [ym_renderYaml, ym_T_mapping_noMerge _ (ym_renderYamlFields_noMerge yf base hb), b1]; rfl
  have hT := yamlTranslate_one_merge _ _ _ _ _ ls
    (ym_renderYamlFields_noMerge yf pre hpre) (ym_renderYamlFields_noMerge yf post hpost) hx
    (yamlMergeInto_map [] _) l1
  rw [ym_T_normalize _ _ hT]
  congr 1
  -- both are maps with the same normalised lookups
  obtain ⟨_, j2⟩ := ym_jsonFields_val jf (ym_handExpand base (pre ++ post)) hhx
  obtain ⟨_, jb⟩ := ym_jsonFields_val jf base hb
  obtain ⟨_, je⟩ := ym_jsonFields_val jf (pre ++ post) hex
  rw [ym_Logical.val, ← j2, ← ym_norm_map, ym_norm_map_eq_iff]
  intro k
  rw [ym_nl_foldl_rput, ym_nl_foldl_rput, ym_nl_foldl_rput, ym_nl_nil, Option.or_none,
    Option.or_none, ym_nl_handExpand,
    ym_nl_of_normFields_eq (l2.trans je.symm) k, ym_nl_of_normFields_eq (b2.trans jb.symm) k]

end Bkl
