/-
  BklProofs.Lemmas.MergeWF — `merge` preserves well-formedness (all five mutually recursive
  functions at once, by the functional induction principle of `merge`).
-/
import BklProofs.Lemmas.MergeList
namespace Bkl

theorem wf_of_ok_cases {dst src r : Val} (hd : Val.WF dst) (hs : Val.WF src)
    (h : merge dst src = .ok r)
    (hmm : ∀ d s, dst = .map d → src = .map s → Val.WF r)
    (hll : ∀ d s, dst = .list d → src = .list s → Val.WF r) : Val.WF r := by
  rcases merge_ok_cases h with rfl | rfl | ⟨d, s, h1, h2⟩ | ⟨d, s, h1, h2⟩
  · exact hs
  · exact hd
  · exact hmm d s h1 h2
  · exact hll d s h1 h2

theorem wf_list_cons {x : Val} {l : List Val} :
    Val.WF (.list (x :: l)) ↔ Val.WF x ∧ Val.WF (.list l) := by
  simp only [wf_list_iff, List.mem_cons, forall_eq_or_imp]

theorem wf_list_snoc {x : Val} {l : List Val} (hl : Val.WF (.list l)) (hx : Val.WF x) :
    Val.WF (.list (l ++ [x])) := by
  rw [wf_list_append]
  exact ⟨hl, wf_list_cons.2 ⟨hx, rfl⟩⟩

/-- the `$match` step preserves well-formedness, given it for the recursive calls -/
theorem matchStep_wf {d rest : List Val} {m upd : Val} {r : List Val}
    (ih1 : ∀ e, Val.WF e → Val.WF upd → ∀ r, merge e upd = .ok r → Val.WF r)
    (ih2 : ∀ d', Val.WF (.list d') → Val.WF (.list rest) → ∀ r, mergeEntries d' rest = .ok r →
      Val.WF (.list r))
    (hd : Val.WF (.list d)) (hrest : Val.WF (.list rest)) (hupd : Val.WF upd)
    (h : matchStep d m upd rest = .ok r) : Val.WF (.list r) := by
  unfold matchStep at h
  split at h
  · cases h
  · rename_i d' hmap
    split at h
    · refine ih2 d' ?_ hrest r h
      rw [wf_list_iff]
      refine mapM_forall _ Val.WF hmap ?_
      intro x hx y hy
      have hxw : Val.WF x := (wf_list_iff.1 hd) x hx
      split at hy
      · exact ih1 x hxw hupd y hy
      · cases hy; exact hxw
    · cases h

theorem merge_wf_all :
    (∀ dst src : Val, Val.WF dst → Val.WF src → ∀ r, merge dst src = .ok r → Val.WF r) ∧
    (∀ d s : List Val, Val.WF (.list d) → Val.WF (.list s) →
      ∀ r, mergeListList d s = .ok r → Val.WF r) ∧
    (∀ d s : List Val, Val.WF (.list d) → Val.WF (.list s) →
      ∀ r, mergeEntries d s = .ok r → Val.WF (.list r)) ∧
    (∀ d s : Fields, Val.WF (.map d) → Val.WF (.map s) →
      ∀ r, mergeMapMap d s = .ok r → Val.WF r) ∧
    (∀ d s : Fields, Val.WF (.map d) → (∀ p ∈ s, Val.WF p.2) →
      ∀ r, mergeFields d s = .ok r → Val.WF (.map r)) := by
  apply merge.mutual_induct
  case case1 =>
    intro d s ih hd hs r h
    rw [merge_map_map] at h
    exact ih hd hs r h
  case case2 =>
    intro d hd _ r h
    rw [merge_map_null] at h; cases h; exact hd
  case case3 =>
    intro src d _ hnm _ hd hs r h
    exact wf_of_ok_cases hd hs h (fun _ s _ h2 => (hnm s h2).elim) (fun _ _ h1 _ => by cases h1)
  case case4 =>
    intro src d _ hnm _ hd hs r h
    exact wf_of_ok_cases hd hs h (fun _ s _ h2 => (hnm s h2).elim) (fun _ _ h1 _ => by cases h1)
  case case5 =>
    intro d s ih hd hs r h
    rw [merge_list_list] at h
    exact ih hd hs r h
  case case6 =>
    intro d hd _ r h
    rw [merge_list_null] at h; cases h; exact hd
  case case7 =>
    intro src d hnl _ hd hs r h
    exact wf_of_ok_cases hd hs h (fun _ _ h1 _ => by cases h1) (fun _ s _ h2 => (hnl s h2).elim)
  case case8 =>
    intro src _ hs r h
    rw [merge_null] at h; cases h; exact hs
  case case9 =>
    intro dst src _ hnm hnl _ hd hs r h
    exact wf_of_ok_cases hd hs h (fun d _ h1 _ => (hnm d h1).elim) (fun d _ h1 _ => (hnl d h1).elim)
  case case10 =>
    intro dst src _ hnm hnl _ hd hs r h
    exact wf_of_ok_cases hd hs h (fun d _ h1 _ => (hnm d h1).elim) (fun d _ h1 _ => (hnl d h1).elim)
  case case11 =>
    intro d s s2 hp _ hs r h
    have ha : s.any (fun x => x == Val.str "$replace") = true := congrArg Prod.fst hp
    rw [mergeListList_replace_string d ha] at h
    cases h
    exact wf_list_filter _ hs
  case case12 =>
    intro d s rep2 s2 hp hrep ih hd hs r h
    have ha : s.any (fun x => x == Val.str "$replace") = false := by
      have : s.any (fun x => x == Val.str "$replace") = rep2 := congrArg Prod.fst hp
      rw [this]; simpa using hrep
    rw [mergeListList_no_string d ha] at h
    split at h
    · cases h
    · rename_i rep2' s2' hpop
      split at h
      · cases h
        rw [wf_list_iff]
        intro y hy
        exact (wf_list_iff.1 hs) y (popListMapBool_sub hpop y hy)
      · split at h
        · cases h
        · rename_i r' hme
          cases h
          exact ih (wf_list_filter _ hd) hs r' hme
  case case13 =>
    intro d hd _ r h
    rw [mergeEntries_nil] at h; cases h; exact hd
  case case14 =>
    intro d rest kvs e he hlen _ _ r h
    rw [mergeEntries_delete_extra d rest he hlen] at h; cases h
  case case15 =>
    intro d rest kvs e he hlen ih hd hs r h
    have hlen0 : (fdel kvs "$delete").length = 0 := by omega
    rw [mergeEntries_delete d rest he hlen0] at h
    split at h
    · exact ih _ (wf_list_filter _ hd) (wf_list_cons.1 hs).2 r h
    · cases h
  case case16 =>
    intro d rest kvs hdel e hm kvs1 v2 hv hlen _ _ r h
    rw [mergeEntries_match_value_extra d rest hdel hm hv hlen] at h; cases h
  case case17 =>
    intro d rest kvs hdel e hm kvs1 v2 hv hlen ih1 ih2 hd hs r h
    have hlen0 : (fdel (fdel kvs "$match") "$value").length = 0 := by
      have hlen' : ¬ (fdel (fdel kvs "$match") "$value").length > 0 := hlen
      omega
    rw [mergeEntries_match_value d rest hdel hm hv hlen0] at h
    have hs' := wf_list_cons.1 hs
    have hv2 : Val.WF v2 := wf_of_fget (wf_fdel hs'.1) hv
    exact matchStep_wf (fun x => ih1 x) ih2 hd hs'.2 hv2 h
  case case18 =>
    intro d rest kvs hdel e hm kvs1 hv ih1 ih2 hd hs r h
    rw [mergeEntries_match_novalue d rest hdel hm hv] at h
    have hs' := wf_list_cons.1 hs
    exact matchStep_wf (fun x => ih1 x) ih2 hd hs'.2 (wf_fdel hs'.1) h
  case case19 =>
    intro d rest kvs hdel hm ih hd hs r h
    rw [mergeEntries_map_plain d rest hdel hm] at h
    have hs' := wf_list_cons.1 hs
    exact ih (wf_list_snoc hd hs'.1) hs'.2 r h
  case case20 =>
    intro d v rest hnm ih hd hs r h
    have hv : v.isMap = false := by
      cases v with
      | map kvs => exact (hnm kvs rfl).elim
      | _ => rfl
    rw [mergeEntries_nonmap d rest hv] at h
    have hs' := wf_list_cons.1 hs
    exact ih (wf_list_snoc hd hs'.1) hs'.2 r h
  case case21 =>
    intro d s hrep _ hs r h
    rw [mergeMapMap_replace hrep] at h
    cases h
    exact wf_fdel hs
  case case22 =>
    intro d s hrep ih hd hs r h
    have hrep' : fhasBool s "$replace" true = false := by simpa using hrep
    rw [mergeMapMap_noreplace hrep'] at h
    cases hmf : mergeFields d s with
    | error e => rw [hmf] at h; cases h
    | ok rm =>
      rw [hmf] at h; cases h
      exact ih hd (wf_map_iff.1 hs).2 rm hmf
  case case23 =>
    intro d hd _ r h
    rw [mergeFields_nil] at h; cases h; exact hd
  case case24 =>
    intro d k v rest hv hhas ih hd hs r h
    have hv' : v.toStr = "$delete" := eq_of_beq hv
    rw [mergeFields_cons, if_pos hv', if_pos (fhas_iff_ne_none.1 hhas)] at h
    exact ih (wf_fdel hd) (fun p hp => hs p (List.mem_cons_of_mem _ hp)) r h
  case case25 =>
    intro d k v rest hv hhas _ _ r h
    have hv' : v.toStr = "$delete" := eq_of_beq hv
    have hnone : ¬ (fget d k ≠ none) := fun hne => hhas (fhas_iff_ne_none.2 hne)
    rw [mergeFields_cons, if_pos hv', if_neg hnone] at h
    cases h
  case case26 =>
    intro d k v rest hv e he ih1 ih2 hd hs r h
    have hv' : ¬ v.toStr = "$delete" := fun hh => hv (by rw [hh]; rfl)
    rw [mergeFields_cons, if_neg hv', he] at h
    simp only [] at h
    split at h
    · cases h
    · rename_i v2 hm
      have hvw : Val.WF v := hs (k, v) List.mem_cons_self
      have hv2 : Val.WF v2 := ih1 (wf_of_fget hd he) hvw v2 hm
      exact ih2 v2 (wf_fset hd hv2) (fun p hp => hs p (List.mem_cons_of_mem _ hp)) r h
  case case27 =>
    intro d k v rest hv he ih hd hs r h
    have hv' : ¬ v.toStr = "$delete" := fun hh => hv (by rw [hh]; rfl)
    rw [mergeFields_cons, if_neg hv', he] at h
    simp only [] at h
    have hvw : Val.WF v := hs (k, v) List.mem_cons_self
    exact ih (wf_fset hd hvw) (fun p hp => hs p (List.mem_cons_of_mem _ hp)) r h

theorem merge_wf {d s r : Val} (hd : Val.WF d) (hs : Val.WF s) (h : merge d s = .ok r) :
    Val.WF r :=
  merge_wf_all.1 d s hd hs r h

end Bkl
