/-
  BklProofs.Lemmas.CyclesFS — the `$parent` cycle of the sample file system `fsPQ`
  (`Lemmas/Cycles.lean`), evaluated with the rooted glob lemmas of `Lemmas/Files.lean`.
-/
import BklProofs.Lemmas.Cycles
import BklProofs.Lemmas.Files
set_option linter.unusedVariables false
namespace Bkl

theorem fsPQ_glob (x : String) (hx : x = "p" ∨ x = "q") :
    fsPQ.globFiles [] (["w"] ++ [x]) = [["w"] ++ [x ++ ".yaml"]] := by
  have h2 : globNames fsPQ ["w"] x = [x ++ ".yaml"] := by
    simp only [globNames, extOf_eq]
    rcases hx with rfl | rfl <;> decide
  exact globFiles_singleton_noroot (d := ["w"]) (real := ["w"]) (by decide) (by decide) (by decide)
    (by decide) h2

theorem fsPQ_parents (x y : String) (hx : x = "p" ∨ x = "q") (hy : y = "p" ∨ y = "q") :
    fileParents fsPQ cfgPQ ["w", x ++ ".yaml"] [.map [("$parent", .str y)]] =
      .ok [["w", y ++ ".yaml"]] := by
  unfold fileParents
  have hm : List.mapM parentDirective [Val.map [("$parent", Val.str y)]] =
      .ok [ParentDir.names [y]] := rfl
  rw [hm, splitPath_eq_cyc]
  simp only [e_ok_bind, List.any_cons, List.any_nil, Bool.or_false, List.flatMap_cons,
    List.flatMap_nil, List.append_nil, List.isEmpty_cons, Bool.not_false, if_true,
    Bool.false_eq_true, if_false, List.foldlM_cons, List.foldlM_nil]
  have ht : cleanComps (dirOf ["w", x ++ ".yaml"] ++ splitPath' y) = ["w", y] := by
    rcases hx with rfl | rfl <;> rcases hy with rfl | rfl <;> decide
  rw [ht]
  have := fsPQ_glob y hy
  simp only [List.cons_append, List.nil_append] at this
  simp only [cfgPQ, this]
  rfl

theorem fsPQ_parents_p :
    fileParents fsPQ cfgPQ ["w", "p.yaml"] [.map [("$parent", .str "q")]] = .ok [["w", "q.yaml"]] :=
  fsPQ_parents "p" "q" (Or.inl rfl) (Or.inr rfl)

theorem fsPQ_parents_q :
    fileParents fsPQ cfgPQ ["w", "q.yaml"] [.map [("$parent", .str "p")]] = .ok [["w", "p.yaml"]] :=
  fsPQ_parents "q" "p" (Or.inr rfl) (Or.inl rfl)

end Bkl
