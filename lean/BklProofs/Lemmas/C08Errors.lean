/-
  BklProofs.Lemmas.C08Errors — which `Err` constructors the evaluation pipeline
  (`process1` → `repeatDoc` → `process2` → `emit`, i.e. `outputDocuments`) can return.

  `cy_RepP P x`: the result `x` is a value or an error of the class `P`.  Four classes:
  * `cy_err0`     — `extraKeys` (the list helpers of util.go);
  * `cy_p1Err`    — the 9 constructors of phase 3 (`get`, `merge`, `process1`);
  * `cy_emitErr`  — the 3 constructors of the output stage (`findOutputs`, `filterOutput`,
                    `validate`, `emit`);
  * `cy_reported` — the 15 constructors of the whole pipeline.
  Every function of the pipeline satisfies `cy_RepP` for its class; the proofs are driven by the
  small tactic `cy_auto`.

  All names are prefixed `cy_`.
-/
import Bkl
import BklProofs.Lemmas.Process1
import BklProofs.Lemmas.Output
set_option linter.unusedVariables false
namespace Bkl

/-- the list helpers of util.go -/
def cy_err0 : Err → Bool
  | .extraKeys => true
  | _ => false

/-- phase 3: `get`, `merge`, `process1` -/
def cy_p1Err : Err → Bool
  | .circularRef | .extraKeys | .invalidType | .refNotFound | .missingMatch | .multiMatch
  | .noMatchFound | .uselessOverride | .unmodelled => true
  | _ => false

/-- the output stage: `findOutputs`, `filterOutput`, `validate` -/
def cy_emitErr : Err → Bool
  | .extraKeys | .requiredField | .invalidDirective => true
  | _ => false

/-- the error classes that `outputDocuments` can return -/
def cy_reported : Err → Bool
  | .circularRef | .extraKeys | .invalidArguments | .invalidDirective | .invalidType
  | .invalidRepeat | .refNotFound | .missingMatch | .multiMatch | .noMatchFound
  | .requiredField | .unknownFormat | .uselessOverride | .variableNotFound | .unmodelled => true
  | _ => false

theorem cy_le_0_1 : ∀ e, cy_err0 e = true → cy_p1Err e = true := by intro e; cases e <;> decide
theorem cy_le_0_emit : ∀ e, cy_err0 e = true → cy_emitErr e = true := by
  intro e; cases e <;> decide
theorem cy_le_0_rep : ∀ e, cy_err0 e = true → cy_reported e = true := by
  intro e; cases e <;> decide
theorem cy_le_1_rep : ∀ e, cy_p1Err e = true → cy_reported e = true := by
  intro e; cases e <;> decide
theorem cy_le_emit_rep : ∀ e, cy_emitErr e = true → cy_reported e = true := by
  intro e; cases e <;> decide

/-- `x` is a value or an error of class `P` -/
structure cy_RepP {α : Type} (P : Err → Bool) (x : R α) : Prop where
  rep : ∀ e, x = .error e → P e = true

section generic
variable {P Q : Err → Bool}

theorem cy_rep_mono {α : Type} {x : R α} (h : ∀ e, P e = true → Q e = true)
    (hx : cy_RepP P x) : cy_RepP Q x := ⟨fun e he => h e (hx.rep e he)⟩

theorem cy_rep_elim {α : Type} {x : R α} {e : Err} (h : x = .error e) (hx : cy_RepP P x) :
    P e = true := hx.rep e h

theorem cy_rep_ok {α : Type} (a : α) : cy_RepP P (.ok a : R α) := ⟨fun _ h => by cases h⟩
theorem cy_rep_pure {α : Type} (a : α) : cy_RepP P (pure a : R α) := ⟨fun _ h => by cases h⟩
theorem cy_rep_error {α : Type} {e : Err} (h : P e = true) :
    cy_RepP P (.error e : R α) := ⟨fun _ h' => by cases h'; exact h⟩
theorem cy_rep_throw {α : Type} {e : Err} (h : P e = true) :
    cy_RepP P (throw e : R α) := ⟨fun _ h' => by cases h'; exact h⟩

theorem cy_rep_bind {α β : Type} {x : R α} {f : α → R β} (hx : cy_RepP P x)
    (hf : ∀ a, cy_RepP P (f a)) : cy_RepP P (x >>= f) := by
  cases x with
  | error e => exact ⟨fun e' h => by cases h; exact hx.rep e rfl⟩
  | ok a => exact hf a

theorem cy_rep_map {α β : Type} {x : R α} (f : α → β) (hx : cy_RepP P x) :
    cy_RepP P (f <$> x) := by
  cases x with
  | error e => exact ⟨fun e' h => by cases h; exact hx.rep e rfl⟩
  | ok a => exact cy_rep_ok _

theorem cy_rep_foldlM {α β : Type} {f : β → α → R β} (hf : ∀ b a, cy_RepP P (f b a)) :
    ∀ (l : List α) (b : β), cy_RepP P (l.foldlM f b)
  | [], b => cy_rep_ok b
  | a :: l, b => by
    rw [List.foldlM_cons]
    exact cy_rep_bind (hf b a) (fun b' => cy_rep_foldlM hf l b')

theorem cy_rep_mapM {α β : Type} {f : α → R β} (hf : ∀ a, cy_RepP P (f a)) :
    ∀ (l : List α), cy_RepP P (l.mapM f)
  | [] => by rw [List.mapM_nil]; exact cy_rep_pure _
  | a :: l => by
    rw [List.mapM_cons]
    exact cy_rep_bind (hf a) (fun b => cy_rep_bind (cy_rep_mapM hf l) (fun bs => cy_rep_pure _))

end generic

/-- the proof driver: peel binds, folds, matches; close leaves with known lemmas -/
syntax "cy_step" : tactic
macro_rules
  | `(tactic| cy_step) => `(tactic| first
      | with_reducible exact cy_rep_ok _
      | with_reducible exact cy_rep_pure _
      | ((with_reducible refine cy_rep_error ?_); rfl)
      | ((with_reducible refine cy_rep_throw ?_); rfl)
      | with_reducible assumption
      | intro _
      | with_reducible apply_assumption -exfalso
      | with_reducible apply cy_rep_bind
      | with_reducible apply cy_rep_map
      | ((with_reducible apply cy_rep_foldlM); intro _ _; try dsimp only)
      | ((with_reducible apply cy_rep_mapM); intro _; try dsimp only)
      | split
      | dsimp only
      | contradiction)
macro "cy_auto" : tactic => `(tactic| repeat' cy_step)

/-! ## util.go: the list helpers (`extraKeys` only) -/

section stage0
local notation "cy_Rep" => cy_RepP cy_err0

theorem cy_rep_popListMapValue (l : List Val) (k : String) : cy_Rep (popListMapValue l k) := by
  unfold popListMapValue; cy_auto

theorem cy_rep_popListMapBool (l : List Val) (k : String) (b : Bool) :
    cy_Rep (popListMapBool l k b) := by
  unfold popListMapBool; cy_auto

end stage0

/-! ## phase 3: get.go, merge.go, process1.go -/

section stage1
local notation "cy_Rep" => cy_RepP cy_p1Err

theorem cy_rep_popListMapValue_1 (l : List Val) (k : String) : cy_Rep (popListMapValue l k) :=
  cy_rep_mono cy_le_0_1 (cy_rep_popListMapValue l k)
theorem cy_rep_popListMapBool_1 (l : List Val) (k : String) (b : Bool) :
    cy_Rep (popListMapBool l k b) := cy_rep_mono cy_le_0_1 (cy_rep_popListMapBool l k b)
macro_rules | `(tactic| cy_step) => `(tactic| with_reducible exact cy_rep_popListMapValue_1 _ _)
macro_rules | `(tactic| cy_step) => `(tactic| with_reducible exact cy_rep_popListMapBool_1 _ _ _)

theorem cy_rep_toStringList (l : List Val) : cy_Rep (toStringList l) := by
  unfold toStringList; cy_auto
macro_rules | `(tactic| cy_step) => `(tactic| with_reducible exact cy_rep_toStringList _)

theorem cy_rep_getPath : ∀ (ps : List String) (obj : Val), cy_Rep (getPath obj ps)
  | [], obj => by unfold getPath; cy_auto
  | p :: ps, obj => by
    have ih := cy_rep_getPath ps
    unfold getPath; cy_auto
macro_rules | `(tactic| cy_step) => `(tactic| with_reducible exact cy_rep_getPath _ _)

theorem cy_rep_getCrossDoc (docs : List Val) (pat : Val) : cy_Rep (getCrossDoc docs pat) := by
  unfold getCrossDoc; cy_auto
macro_rules | `(tactic| cy_step) => `(tactic| with_reducible exact cy_rep_getCrossDoc _ _)

theorem cy_rep_getPathFromList (obj : Val) (docs path : List Val) :
    cy_Rep (getPathFromList obj docs path) := by
  unfold getPathFromList; cy_auto
macro_rules | `(tactic| cy_step) => `(tactic| with_reducible exact cy_rep_getPathFromList _ _ _)

theorem cy_rep_getPathFromString (obj : Val) (docs : List Val) (path : String) :
    cy_Rep (getPathFromString obj docs path) := by
  unfold getPathFromString; cy_auto
macro_rules | `(tactic| cy_step) => `(tactic| with_reducible exact cy_rep_getPathFromString _ _ _)

theorem cy_rep_get (root : Val) (docs : List Val) (m : Val) : cy_Rep (get root docs m) := by
  fun_induction get root docs m <;> cy_auto
macro_rules | `(tactic| cy_step) => `(tactic| with_reducible exact cy_rep_get _ _ _)

theorem cy_rep_mergeListDelete (obj : List Val) (del : Val) : cy_Rep (mergeListDelete obj del) := by
  unfold mergeListDelete; cy_auto
macro_rules | `(tactic| cy_step) => `(tactic| with_reducible exact cy_rep_mergeListDelete _ _)

theorem cy_rep_matchStep {d : List Val} {m upd : Val} {rest : List Val}
    (ih2 : ∀ e, cy_Rep (merge e upd)) (ih1 : ∀ d', cy_Rep (mergeEntries d' rest)) :
    cy_Rep (matchStep d m upd rest) := by
  rw [← matchStep_eq]; cy_auto

theorem cy_rep_merge_all :
    (∀ dst src : Val, cy_Rep (merge dst src)) ∧
    (∀ d s : List Val, cy_Rep (mergeListList d s)) ∧
    (∀ d s : List Val, cy_Rep (mergeEntries d s)) ∧
    (∀ d s : Fields, cy_Rep (mergeMapMap d s)) ∧
    (∀ d s : Fields, cy_Rep (mergeFields d s)) := by
  apply merge.mutual_induct
  case case16 =>
    intro d rest kvs h1 e h2 kvs1 v2 hv hlen
    rw [mergeEntries_match_value_extra d rest h1 h2 hv hlen]; cy_auto
  case case17 =>
    intro d rest kvs h1 e h2 kvs1 v2 hv hlen ih2 ih1
    rw [mergeEntries_match_value d rest h1 h2 hv (Nat.eq_zero_of_not_pos hlen)]
    exact cy_rep_matchStep ih2 ih1
  case case18 =>
    intro d rest kvs h1 e h2 kvs1 hv ih2 ih1
    rw [mergeEntries_match_novalue d rest h1 h2 hv]
    exact cy_rep_matchStep ih2 ih1
  all_goals intros
  all_goals first
    | (rw [merge]; (try simp only [*]); cy_auto; done)
    | (rw [mergeListList]; (try simp only [*]); cy_auto; done)
    | (rw [mergeEntries]; (try simp only [*]); cy_auto; done)
    | (rw [mergeMapMap]; (try simp only [*]); cy_auto; done)
    | (rw [mergeFields]; (try simp only [*]); cy_auto; done)

theorem cy_rep_merge (dst src : Val) : cy_Rep (merge dst src) := cy_rep_merge_all.1 dst src
theorem cy_rep_mergeFields (d s : Fields) : cy_Rep (mergeFields d s) :=
  cy_rep_merge_all.2.2.2.2 d s
macro_rules | `(tactic| cy_step) => `(tactic| with_reducible exact cy_rep_merge _ _)
macro_rules | `(tactic| cy_step) => `(tactic| with_reducible exact cy_rep_mergeFields _ _)

theorem cy_rep_mergeListTagged (d : Tagged) (s : List Val) : cy_Rep (mergeListTagged d s) := by
  unfold mergeListTagged; cy_auto
macro_rules | `(tactic| cy_step) => `(tactic| with_reducible exact cy_rep_mergeListTagged _ _)

theorem cy_rep_process1 : ∀ (fuel : Nat) (docs : List Val) (root : Val) (loc : Loc) (obj : Val),
    cy_Rep (process1 fuel docs root loc obj) := by
  intro fuel
  induction fuel with
  | zero => intro docs root loc obj; rw [process1_zero]; cy_auto
  | succ n ih =>
    intro docs root loc obj
    cases obj with
    | null => rw [process1_null]; cy_auto
    | bool b => rw [process1_bool]; cy_auto
    | int i => rw [process1_int]; cy_auto
    | flt r => rw [process1_flt]; cy_auto
    | str s => rw [process1]; cy_auto
    | list xs => rw [process1]; cy_auto
    | map kvs => rw [process1]; cy_auto

end stage1

/-! ## the output stage: validate.go, output.go -/

section stage2
local notation "cy_Rep" => cy_RepP cy_emitErr

theorem cy_rep_popListMapBool_2 (l : List Val) (k : String) (b : Bool) :
    cy_Rep (popListMapBool l k b) := cy_rep_mono cy_le_0_emit (cy_rep_popListMapBool l k b)
macro_rules | `(tactic| cy_step) => `(tactic| with_reducible exact cy_rep_popListMapBool_2 _ _ _)

theorem cy_rep_validateString (s : String) : cy_Rep (validateString s) := by
  unfold validateString validateChars; cy_auto
macro_rules | `(tactic| cy_step) => `(tactic| with_reducible exact cy_rep_validateString _)

mutual
theorem cy_rep_validate : ∀ v : Val, cy_Rep (validate v)
  | .map kvs => by unfold validate; exact cy_rep_validateFields kvs
  | .list xs => by unfold validate; exact cy_rep_validateList xs
  | .str s => by unfold validate; cy_auto
  | .null | .bool _ | .int _ | .flt _ => by unfold validate; cy_auto
theorem cy_rep_validateFields : ∀ kvs : Fields, cy_Rep (validateFields kvs)
  | [] => by unfold validateFields; cy_auto
  | (k, v) :: rest => by
    have h1 := cy_rep_validate v
    have h2 := cy_rep_validateFields rest
    unfold validateFields; cy_auto
theorem cy_rep_validateList : ∀ xs : List Val, cy_Rep (validateList xs)
  | [] => by unfold validateList; cy_auto
  | x :: xs => by
    have h1 := cy_rep_validate x
    have h2 := cy_rep_validateList xs
    unfold validateList; cy_auto
end
macro_rules | `(tactic| cy_step) => `(tactic| with_reducible exact cy_rep_validate _)

mutual
theorem cy_rep_findOutputs : ∀ v : Val, cy_Rep (findOutputs v)
  | .map kvs => by
    have h := cy_rep_findOutputsFields kvs
    unfold findOutputs; cy_auto
  | .list xs => by
    have h := cy_rep_findOutputsList xs
    unfold findOutputs; cy_auto
  | .null | .bool _ | .int _ | .flt _ | .str _ => by unfold findOutputs; cy_auto
theorem cy_rep_findOutputsFields : ∀ (kvs : Fields) (skip : Bool),
    cy_Rep (findOutputsFields kvs skip)
  | [], _ => by unfold findOutputsFields; cy_auto
  | (k, v) :: rest, skip => by
    have h1 := cy_rep_findOutputs v
    have h2 := cy_rep_findOutputsFields rest
    unfold findOutputsFields; cy_auto
theorem cy_rep_findOutputsList : ∀ (xs : List Val) (skip : Bool),
    cy_Rep (findOutputsList xs skip)
  | [], _ => by unfold findOutputsList; cy_auto
  | x :: xs, skip => by
    have h1 := cy_rep_findOutputs x
    have h2 := cy_rep_findOutputsList xs
    unfold findOutputsList; cy_auto
end
macro_rules | `(tactic| cy_step) => `(tactic| with_reducible exact cy_rep_findOutputs _)

mutual
theorem cy_rep_filterOutput : ∀ v : Val, cy_Rep (filterOutput v)
  | .map kvs => by
    have h := cy_rep_filterOutputFields kvs
    unfold filterOutput; cy_auto
  | .list xs => by
    have h := cy_rep_filterOutputList xs
    unfold filterOutput; cy_auto
  | .null | .bool _ | .int _ | .flt _ | .str _ => by unfold filterOutput; cy_auto
theorem cy_rep_filterOutputFields : ∀ (kvs : Fields), cy_Rep (filterOutputFields kvs)
  | [] => by unfold filterOutputFields; cy_auto
  | (k, v) :: rest => by
    have h1 := cy_rep_filterOutput v
    have h2 := cy_rep_filterOutputFields rest
    unfold filterOutputFields; cy_auto
theorem cy_rep_filterOutputList : ∀ (xs : List Val), cy_Rep (filterOutputList xs)
  | [] => by unfold filterOutputList; cy_auto
  | x :: xs => by
    have h1 := cy_rep_filterOutput x
    have h2 := cy_rep_filterOutputList xs
    unfold filterOutputList; cy_auto
end
macro_rules | `(tactic| cy_step) => `(tactic| with_reducible exact cy_rep_filterOutput _)

theorem cy_rep_emitSelect : ∀ ds : List Val, cy_Rep (emitSelect ds)
  | [] => by unfold emitSelect; cy_auto
  | d :: ds => by
    have h := cy_rep_emitSelect ds
    unfold emitSelect; cy_auto

theorem cy_rep_emitFinish : ∀ vs : List Val, cy_Rep (emitFinish vs)
  | [] => by unfold emitFinish; cy_auto
  | v :: vs => by
    have h := cy_rep_emitFinish vs
    unfold emitFinish; cy_auto

theorem cy_rep_emit (ds : List Val) : cy_Rep (emit ds) := by
  rw [emit_eq]
  exact cy_rep_bind (cy_rep_emitSelect ds) (fun outs => cy_rep_emitFinish outs)

end stage2

/-! ## the whole pipeline: process2.go, repeat.go, document.go, parser.go -/

section stage3
local notation "cy_Rep" => cy_RepP cy_reported

theorem cy_rep_popListMapValue_3 (l : List Val) (k : String) : cy_Rep (popListMapValue l k) :=
  cy_rep_mono cy_le_0_rep (cy_rep_popListMapValue l k)
theorem cy_rep_get_3 (root : Val) (docs : List Val) (m : Val) : cy_Rep (get root docs m) :=
  cy_rep_mono cy_le_1_rep (cy_rep_get root docs m)
theorem cy_rep_process1_3 (fuel : Nat) (docs : List Val) (root : Val) (loc : Loc) (obj : Val) :
    cy_Rep (process1 fuel docs root loc obj) :=
  cy_rep_mono cy_le_1_rep (cy_rep_process1 fuel docs root loc obj)
theorem cy_rep_validate_3 (v : Val) : cy_Rep (validate v) :=
  cy_rep_mono cy_le_emit_rep (cy_rep_validate v)
theorem cy_rep_emit_3 (ds : List Val) : cy_Rep (emit ds) :=
  cy_rep_mono cy_le_emit_rep (cy_rep_emit ds)
macro_rules | `(tactic| cy_step) => `(tactic| with_reducible exact cy_rep_popListMapValue_3 _ _)
macro_rules | `(tactic| cy_step) => `(tactic| with_reducible exact cy_rep_get_3 _ _ _)
macro_rules | `(tactic| cy_step) => `(tactic| with_reducible exact cy_rep_process1_3 _ _ _ _ _)
macro_rules | `(tactic| cy_step) => `(tactic| with_reducible exact cy_rep_validate_3 _)
macro_rules | `(tactic| cy_step) => `(tactic| with_reducible exact cy_rep_emit_3 _)

/-! ### `$encode` transforms -/

/-- a transform result is a value, a codec request or a reported error -/
structure cy_EncRep (r : EncRes) : Prop where
  rep : ∀ e, r = .err e → cy_reported e = true

theorem cy_encrep_ok (v : Val) : cy_EncRep (.ok v) := ⟨fun _ h => by cases h⟩
theorem cy_encrep_codec (f : String) (v : Val) : cy_EncRep (.codec f v) := ⟨fun _ h => by cases h⟩
theorem cy_encrep_err {e : Err} (h : cy_reported e = true) : cy_EncRep (.err e) :=
  ⟨fun _ h' => by cases h'; exact h⟩

theorem cy_rep_toStringListPermissive (v : Val) : cy_Rep (toStringListPermissive v) := by
  unfold toStringListPermissive; cy_auto
macro_rules | `(tactic| cy_step) => `(tactic| with_reducible exact cy_rep_toStringListPermissive _)

theorem cy_rep_toListMap (obj : Val) (delim : String) : cy_Rep (toListMap obj delim) := by
  unfold toListMap; cy_auto
macro_rules | `(tactic| cy_step) => `(tactic| with_reducible exact cy_rep_toListMap _ _)

theorem cy_rep_toListList (xs : List Val) (delim : String) : cy_Rep (toListList xs delim) := by
  unfold toListList; cy_auto
macro_rules | `(tactic| cy_step) => `(tactic| with_reducible exact cy_rep_toListList _ _)

/-- close a leaf of `encodeString` -/
macro "cy_enc_leaf" : tactic => `(tactic| first
  | with_reducible exact cy_encrep_ok _
  | with_reducible exact cy_encrep_codec _ _
  | ((with_reducible refine cy_encrep_err ?_); rfl)
  | (rename_i h; (with_reducible refine cy_encrep_err (cy_rep_elim (P := cy_reported) h ?_));
     cy_auto))

set_option maxHeartbeats 400000 in
theorem cy_encrep_encodeString (obj : Val) (spec : String) :
    cy_EncRep (encodeString obj spec) := by
  unfold encodeString
  dsimp only
  repeat' (first | split | cy_enc_leaf)

mutual
theorem cy_encrep_encodeAny (obj : Val) : ∀ spec : Val, cy_EncRep (encodeAny obj spec)
  | .str s => by unfold encodeAny; exact cy_encrep_encodeString obj s
  | .list specs => by unfold encodeAny; exact cy_encrep_encodeList obj specs
  | .null | .bool _ | .int _ | .flt _ | .map _ => by unfold encodeAny; exact cy_encrep_err rfl
theorem cy_encrep_encodeList (obj : Val) : ∀ specs : List Val, cy_EncRep (encodeList obj specs)
  | [] => by unfold encodeList; exact cy_encrep_ok _
  | sp :: rest => by
    unfold encodeList
    have h1 := cy_encrep_encodeAny obj sp
    split
    · rename_i v hv; exact cy_encrep_encodeList v rest
    · exact h1
end

/-- after `split` on the `match encodeAny … with` that ends an `$encode` evaluation -/
macro_rules
  | `(tactic| cy_step) =>
    `(tactic| (rename_i h; with_reducible exact cy_rep_throw ((cy_encrep_encodeAny _ _).rep _ h)))

/-! ### process2.go, repeat.go -/

theorem cy_rep_getVar (ec : Vars) (name : String) : cy_Rep (getVar ec name) := by
  unfold getVar; cy_auto
macro_rules | `(tactic| cy_step) => `(tactic| with_reducible exact cy_rep_getVar _ _)

theorem cy_rep_getWithVar (root : Val) (docs : List Val) (ec : Vars) (m : String) :
    cy_Rep (getWithVar root docs ec m) := by
  unfold getWithVar; cy_auto
macro_rules | `(tactic| cy_step) => `(tactic| with_reducible exact cy_rep_getWithVar _ _ _ _)

theorem cy_rep_process2String : ∀ (fuel : Nat) (docs : List Val) (root : Val) (ec : Vars)
    (s : String), cy_Rep (process2String fuel docs root ec s) := by
  intro fuel
  induction fuel with
  | zero => intro docs root ec s; unfold process2String; cy_auto
  | succ n ih => intro docs root ec s; unfold process2String; cy_auto
macro_rules | `(tactic| cy_step) => `(tactic| with_reducible exact cy_rep_process2String _ _ _ _ _)

theorem cy_rep_process2 : ∀ (fuel : Nat) (docs : List Val) (root : Val) (ec : Vars) (obj : Val),
    cy_Rep (process2 fuel docs root ec obj) := by
  intro fuel
  induction fuel with
  | zero => intro docs root ec obj; rw [process2]; cy_auto
  | succ n ih =>
    intro docs root ec obj
    cases obj with
    | str s => rw [process2]; cy_auto
    | list xs => rw [process2]; cy_auto
    | map kvs => rw [process2]; cy_auto
    | null => rw [process2]; all_goals first | cy_auto | (intro _ h; cases h)
    | bool b => rw [process2]; all_goals first | cy_auto | (intro _ h; cases h)
    | int i => rw [process2]; all_goals first | cy_auto | (intro _ h; cases h)
    | flt r => rw [process2]; all_goals first | cy_auto | (intro _ h; cases h)
macro_rules | `(tactic| cy_step) => `(tactic| with_reducible exact cy_rep_process2 _ _ _ _ _)

theorem cy_rep_repeatGen (data : Val) (ec : Vars) (v : Val) : cy_Rep (repeatGen data ec v) := by
  unfold repeatGen; cy_auto
macro_rules | `(tactic| cy_step) => `(tactic| with_reducible exact cy_rep_repeatGen _ _ _)

theorem cy_rep_repeatDoc (data : Val) (ec : Vars) : cy_Rep (repeatDoc data ec) := by
  unfold repeatDoc; cy_auto
macro_rules | `(tactic| cy_step) => `(tactic| with_reducible exact cy_rep_repeatDoc _ _)

/-! ### the pipeline -/

theorem cy_rep_processDoc (docs : List Val) (env : Vars) (data : Val) :
    cy_Rep (processDoc docs env data) := by
  unfold processDoc; cy_auto
macro_rules | `(tactic| cy_step) => `(tactic| with_reducible exact cy_rep_processDoc _ _ _)

theorem cy_rep_outputDocument (docs : List Val) (env : Vars) (data : Val) :
    cy_Rep (outputDocument docs env data) := by
  unfold outputDocument; cy_auto
macro_rules | `(tactic| cy_step) => `(tactic| with_reducible exact cy_rep_outputDocument _ _ _)

theorem cy_rep_outputDocuments (docs : List Val) (env : Vars) :
    cy_Rep (outputDocuments docs env) := by
  unfold outputDocuments; cy_auto

end stage3

end Bkl
