/-
  BklProofs.Lemmas.Interp — helper definitions and lemmas for C13 (interpolation, `$env`):
  `render` (inverse of the scanner), canonical segment lists, scanner lemmas with explicit fuel,
  the specification `interpSpec` of `process2String`, and small `Except`/`mapM` facts.
-/
import Bkl.Process2
import BklProofs.Lemmas.Fields
import BklProofs.Lemmas.SplitOn
namespace Bkl

/-! ## rendering segments back to text -/

def renderSeg : Seg → List Char
  | .lit cs => cs
  | .ref cs => '{' :: cs ++ ['}']

def render : List Seg → List Char
  | [] => []
  | s :: rest => renderSeg s ++ render rest

def startsLit : List Seg → Bool
  | .lit _ :: _ => true
  | _ => false

/-- canonical segment lists: literals are non-empty, contain no '{' and are never adjacent;
    references contain neither '}' nor a newline -/
def Canonical : List Seg → Prop
  | [] => True
  | .lit cs :: rest => cs ≠ [] ∧ '{' ∉ cs ∧ startsLit rest = false ∧ Canonical rest
  | .ref cs :: rest => '}' ∉ cs ∧ '\n' ∉ cs ∧ Canonical rest

/-- the pending literal, emitted when a reference or the end of input is reached -/
def flush (lit : List Char) : List Seg := if lit.isEmpty then [] else [Seg.lit lit.reverse]

theorem render_flush (lit : List Char) : render (flush lit) = lit.reverse := by
  unfold flush
  cases lit with
  | nil => rfl
  | cons c cs => simp [render, renderSeg]

theorem render_append (a b : List Seg) : render (a ++ b) = render a ++ render b := by
  induction a with
  | nil => rfl
  | cons s a ih => simp [render, ih]

/-! ## scanner lemmas -/

theorem scanSegs_nil (lit : List Char) (fuel : Nat) : scanSegs [] lit fuel = flush lit := by
  rw [scanSegs.eq_1]; rfl

/-- a run of characters without '{' is shifted into the pending literal -/
theorem scanSegs_lit_run (cs tl lit : List Char) (fuel : Nat) (h : '{' ∉ cs) :
    scanSegs (cs ++ tl) lit (fuel + cs.length) = scanSegs tl (cs.reverse ++ lit) fuel := by
  induction cs generalizing lit with
  | nil => simp
  | cons c cs ih =>
    have hc : c ≠ '{' := fun e => h (by simp [e])
    have hcs : '{' ∉ cs := fun e => h (by simp [e])
    have : fuel + (c :: cs).length = (fuel + cs.length) + 1 := by simp; omega
    rw [this, List.cons_append, scanSegs.eq_4 _ _ _ _ (fun e => hc e), ih _ hcs]
    simp

/-- the closing brace is found right after an inner text without '}' and newline -/
theorem scanClose_inner (inner tl acc : List Char) (h1 : '}' ∉ inner) (h2 : '\n' ∉ inner) :
    scanClose (inner ++ '}' :: tl) acc = some (acc.reverse ++ inner, tl) := by
  induction inner generalizing acc with
  | nil => simp [scanClose]
  | cons c cs ih =>
    have hc1 : c ≠ '}' := fun e => h1 (by simp [e])
    have hc2 : c ≠ '\n' := fun e => h2 (by simp [e])
    rw [List.cons_append, scanClose.eq_4 _ _ _ (fun e => hc1 e) (fun e => hc2 e),
      ih _ (fun e => h1 (by simp [e])) (fun e => h2 (by simp [e]))]
    simp

/-- what `scanClose` returns: the input is `inner' ++ '}' :: after`, with `inner'` free of
    '}' and newline -/
theorem scanClose_some {cs acc inner after : List Char}
    (h : scanClose cs acc = some (inner, after)) :
    ∃ i', inner = acc.reverse ++ i' ∧ cs = i' ++ '}' :: after ∧ '}' ∉ i' ∧ '\n' ∉ i' := by
  induction cs generalizing acc with
  | nil => simp [scanClose] at h
  | cons c cs ih =>
    by_cases hc1 : c = '}'
    · subst hc1
      simp only [scanClose, Option.some.injEq, Prod.mk.injEq] at h
      exact ⟨[], by simp [h.1], by simp [h.2], by simp, by simp⟩
    · by_cases hc2 : c = '\n'
      · subst hc2
        simp [scanClose] at h
      · rw [scanClose.eq_4 _ _ _ (fun e => hc1 e) (fun e => hc2 e)] at h
        obtain ⟨i', e1, e2, n1, n2⟩ := ih h
        refine ⟨c :: i', by simp [e1], by simp [e2], ?_, ?_⟩
        · simp only [List.mem_cons, not_or]; exact ⟨fun e => hc1 e.symm, n1⟩
        · simp only [List.mem_cons, not_or]; exact ⟨fun e => hc2 e.symm, n2⟩

/-- scanning the rendering of a canonical list gives the list back (any sufficient fuel,
    any pending literal provided it is not followed by another literal) -/
theorem scanSegs_render (segs : List Seg) (hc : Canonical segs) :
    ∀ (lit : List Char) (fuel : Nat), (render segs).length ≤ fuel →
      (lit = [] ∨ startsLit segs = false) →
      scanSegs (render segs) lit fuel = flush lit ++ segs := by
  induction segs with
  | nil => intro lit fuel _ _; simp [render, scanSegs_nil]
  | cons s rest ih =>
    intro lit fuel hf hl
    cases s with
    | lit cs =>
      obtain ⟨hne, hno, hsl, hrest⟩ := hc
      have hlit : lit = [] := by
        rcases hl with h | h
        · exact h
        · simp [startsLit] at h
      subst hlit
      simp only [render, renderSeg, List.length_append] at hf ⊢
      obtain ⟨f', rfl⟩ : ∃ f', fuel = f' + cs.length := ⟨fuel - cs.length, by omega⟩
      rw [scanSegs_lit_run _ _ _ _ hno, ih hrest _ _ (by omega) (Or.inr hsl)]
      have : cs.reverse ≠ [] := by simpa using hne
      cases hcs : cs.reverse with
      | nil => exact absurd hcs this
      | cons a b =>
        have : cs = (a :: b).reverse := by rw [← hcs]; simp
        simp [flush, this]
    | ref cs =>
      obtain ⟨h1, h2, hrest⟩ := hc
      simp only [render, renderSeg, List.length_append, List.length_cons, List.cons_append,
        List.append_assoc] at hf ⊢
      obtain ⟨f', rfl⟩ : ∃ f', fuel = f' + 1 := ⟨fuel - 1, by omega⟩
      rw [scanSegs.eq_3, scanClose_inner _ _ _ h1 h2]
      simp only [List.reverse_nil, List.nil_append]
      rw [ih hrest _ _ (by simp at hf; omega) (Or.inl rfl)]
      simp [flush]

/-- nothing is lost or invented: rendering the scan gives the input back -/
theorem render_scanSegs (fuel : Nat) : ∀ (cs lit : List Char), cs.length ≤ fuel →
    render (scanSegs cs lit fuel) = lit.reverse ++ cs := by
  induction fuel using Nat.strongRecOn with
  | _ fuel ih =>
    intro cs lit hf
    cases cs with
    | nil => simp [scanSegs_nil, render_flush]
    | cons c rest =>
      obtain ⟨f', rfl⟩ : ∃ f', fuel = f' + 1 := ⟨fuel - 1, by simp at hf; omega⟩
      simp only [List.length_cons] at hf
      by_cases hc : c = '{'
      · subst hc
        rw [scanSegs.eq_3]
        cases hsc : scanClose rest [] with
        | none =>
          simp only
          rw [ih f' (by omega) _ _ (by omega)]
          simp
        | some p =>
          obtain ⟨inner, after⟩ := p
          obtain ⟨i', e1, e2, _, _⟩ := scanClose_some hsc
          simp only [List.reverse_nil, List.nil_append] at e1
          subst e1
          simp only
          have hlen : after.length ≤ f' := by
            have := congrArg List.length e2
            simp at this
            omega
          change render (flush lit ++ Seg.ref inner :: scanSegs after [] f') = _
          rw [render_append, render_flush, render, ih f' (by omega) _ _ hlen, e2]
          simp [renderSeg]
      · rw [scanSegs.eq_4 _ _ _ _ (fun e => hc e), ih f' (by omega) _ _ (by omega)]
        simp

/-! ## `Except` / `mapM` facts -/

theorem ok_bind' {α β : Type} (a : α) (f : α → R β) : (Except.ok a >>= f) = f a := rfl
theorem error_bind' {α β : Type} (e : Err) (f : α → R β) : (Except.error e >>= f) = .error e := rfl

theorem mapM_error_of_mem {α β : Type} (f : α → R β) (l : List α)
    (h : ∃ x ∈ l, ∃ e, f x = .error e) : ∃ e, l.mapM f = .error e := by
  induction l with
  | nil => obtain ⟨x, hx, _⟩ := h; cases hx
  | cons a l ih =>
    rw [List.mapM_cons]
    cases ha : f a with
    | error e => exact ⟨e, rfl⟩
    | ok b =>
      have : ∃ x ∈ l, ∃ e, f x = .error e := by
        obtain ⟨x, hx, e, he⟩ := h
        rcases List.mem_cons.1 hx with rfl | hx'
        · rw [ha] at he; cases he
        · exact ⟨x, hx', e, he⟩
      obtain ⟨e, he⟩ := ih this
      exact ⟨e, by simp [he, bind, Except.bind]⟩

/-! ## specification of `process2String` on interpolated strings -/

/-- one segment: literal text is copied; a reference is looked up (`getWithVar`), a string
    result gets one more `process2String` pass (with one unit of fuel less), and the value is
    formatted with `%v` -/
def interpSeg (fuel : Nat) (docs : List Val) (root : Val) (ec : Vars) : Seg → R String
  | .lit cs => .ok (String.ofList cs)
  | .ref cs =>
    match getWithVar root docs ec (String.ofList cs) with
    | .error e => .error e
    | .ok (.str s2) =>
      match process2String fuel docs root ec s2 with
      | .error e => .error e
      | .ok v => .ok (fmtV v)
    | .ok v => .ok (fmtV v)

def interpSpec (fuel : Nat) (docs : List Val) (root : Val) (ec : Vars) (segs : List Seg) : R Val :=
  match segs.mapM (interpSeg fuel docs root ec) with
  | .error e => .error e
  | .ok parts => .ok (.str (String.join parts))

/-- `$env:` values are strings -/
def envWF (ec : Vars) : Prop :=
  ∀ k v, fget ec k = some v → k.startsWith "$env:" = true → ∃ s, v = Val.str s

theorem interpBody_env (name : String) : interpBody ("$env:" ++ name) = none := by
  simp [interpBody, String.toList_append]

theorem startsWith_env (name : String) : ("$env:" ++ name).startsWith "$env:" = true := by
  simp [String.toList_append]

theorem env_ne (name : String) (k : String) (hk : ¬ ("$env:".toList <+: k.toList)) :
    "$env:" ++ name ≠ k := by
  intro e
  apply hk
  rw [← e, String.toList_append]
  exact List.prefix_append _ _

/-! ## references that are a single plain key -/

theorem splitOn_dot_none (s : String) (h : '.' ∉ s.toList) : s.splitOn "." = [s] := by
  rw [splitOn_dot, List.splitOnP_eq_splitOnPPrepend]
  have : ∀ (l acc : List Char), '.' ∉ l →
      List.splitOnPPrepend (· == '.') l acc = [acc.reverse ++ l] := by
    intro l
    induction l with
    | nil => intro acc _; simp
    | cons c cs ih =>
      intro acc h
      have hc : c ≠ '.' := fun e => h (by simp [e])
      have hcs : '.' ∉ cs := fun e => h (by simp [e])
      rw [List.splitOnPPrepend_cons_eq_if]
      simp [hc, ih _ hcs]
  rw [this _ _ h]
  simp

/-- a one-component plain reference is a lookup of that key in the referencing document -/
theorem get_simple_key (root : Val) (docs : List Val) (k : String)
    (h1 : isPlainRef k = true) (h2 : '.' ∉ k.toList) :
    get root docs (.str k) = getPath root [k] := by
  rw [get]
  simp only [getPathFromString, parseRef, h1, if_true, splitOn_dot_none k h2]

theorem getWithVar_simple_key (kvs : Fields) (docs : List Val) (ec : Vars) (k : String) (v : Val)
    (h1 : isPlainRef k = true) (h2 : '.' ∉ k.toList) (hv : fget kvs k = some v) :
    getWithVar (.map kvs) docs ec k = .ok v := by
  simp [getWithVar, get_simple_key _ _ _ h1 h2, getPath, hv, pure, Except.pure]

theorem toLower_a : "a".toLower = "a" := by
  apply String.toList_inj.1
  simp [String.toLower, String.toList_map]

theorem isPlainRef_a : isPlainRef "a" = true := by
  simp [isPlainRef, reservedWords, toLower_a]


end Bkl
