/-
  BklProofs.Lemmas.Process1 — helper definitions and lemmas about `process1` (process1.go),
  used by C10.
-/
import Bkl.Process1
import BklProofs.Lemmas.MergeList
set_option linter.unusedVariables false
namespace Bkl

/-! ## Except plumbing -/

theorem R_bind_eq_ok {α β : Type} {x : R α} {f : α → R β} {b : β} :
    (x >>= f) = .ok b ↔ ∃ a, x = .ok a ∧ f a = .ok b := by
  cases x with
  | error e => constructor
               · intro h; cases h
               · rintro ⟨a, h, _⟩; cases h
  | ok a => constructor
            · intro h; exact ⟨a, rfl, h⟩
            · rintro ⟨a', h, h'⟩; cases h; exact h'

/-- invariant rule for `foldlM` in `R` -/
theorem foldlM_inv {α β : Type} (P : β → Prop) (f : β → α → R β) :
    ∀ (l : List α) (init res : β), P init →
      (∀ s a s', a ∈ l → P s → f s a = .ok s' → P s') →
      l.foldlM f init = .ok res → P res := by
  intro l
  induction l with
  | nil => intro init res h0 _ h; rw [foldlM_nil] at h; cases h; exact h0
  | cons a tl ih =>
    intro init res h0 hstep h
    rw [foldlM_cons] at h
    split at h
    · cases h
    · rename_i b' hb
      exact ih b' res (hstep init a b' List.mem_cons_self h0 hb)
        (fun s x s' hx => hstep s x s' (List.mem_cons_of_mem _ hx)) h

/-! ## the pieces of `process1`, named -/

/-- the fold step of the plain-map case: evaluate the value, then the key -/
def mapStep (fuel : Nat) (docs : List Val) (loc : Loc) :
    Fields × Val → String × Val → R (Fields × Val) :=
  fun (acc, rt) (k, v) => do
    let (v2, rt1) ← process1 fuel docs rt (childLoc loc k) v
    if v2.isNull then pure (acc, rt1)
    else do
      let (k2, rt2) ← process1 fuel docs rt1 none (.str k)
      match k2 with
      | .str ks => pure (fset acc ks v2, rt2)
      | _ => throw Err.invalidType

/-- what happens to a map host after its `$merge` reference has been resolved to `inp`;
    `root1` is the root with the `$merge` key already deleted from the host, `obj1` the host
    without the key -/
def mergeCont (fuel : Nat) (docs : List Val) (root1 : Val) (loc : Loc) (obj1 : Fields)
    (inp : Val) : R (Val × Val) :=
  match inp with
  | .map s =>
    if fhasBool s "$replace" true then
      process1 fuel docs root1 none (.map (fdel s "$replace"))
    else do
      let next ← mergeFields obj1 s
      process1 fuel docs (setLoc root1 loc (.map next)) loc (.map next)
  | .null => process1 fuel docs root1 loc (.map obj1)
  | other =>
    if obj1.isEmpty then process1 fuel docs root1 none other
    else throw Err.invalidType

/-- the references of the single-key `{$merge: ref}` entries of a list -/
def listMerges (xs : List Val) : List Val :=
  xs.filterMap fun v => match v with
    | .map [(k, ref)] => if k == "$merge" then some ref else none
    | _ => none

/-- `true` unless the entry is a single-key `{$merge: _}` map -/
def notMergeEntry (v : Val) : Bool :=
  match v with
  | .map [(k, _)] => !(k == "$merge")
  | _ => true

/-- `true` unless the entry is a single-key `{$replace: _}` map -/
def notReplaceEntry (v : Val) : Bool :=
  match v with
  | .map [(k, _)] => !(k == "$replace")
  | _ => true

/-- the entries of a list that are not `{$merge: ref}`, tagged with their index -/
def listObj0 (xs : List Val) : Tagged :=
  (xs.zipIdx.filter fun (v, _) => notMergeEntry v).map fun (v, i) => (v, some i)

/-- fold step over the collected `$merge` references of a list -/
def mergeRefStep (root : Val) (docs : List Val) (acc : Tagged) (ref : Val) : R Tagged := do
  let inp ← get root docs ref
  match inp with
  | .list s => mergeListTagged acc s
  | .null => pure acc
  | _ => throw Err.invalidType

/-- fold step evaluating the entries of a list -/
def entryStep (fuel : Nat) (docs : List Val) (loc : Loc) :
    List Val × Val → Val × Option Nat → R (List Val × Val) :=
  fun (acc, rt) (v, tag) => do
    let (v2, rt1) ← process1 fuel docs rt (entryLoc loc tag) v
    if v2.isNull then pure (acc, rt1) else pure (acc ++ [v2], rt1)

/-- the rest of the list case once the `$merge` entries have been merged in: look for a
    `{$replace: ref}` entry, otherwise evaluate the entries in order -/
def listFinish (fuel : Nat) (docs : List Val) (root : Val) (loc : Loc) (obj1 : Tagged) :
    R (Val × Val) := do
  let (rep, _) ← popListMapValue (obj1.map (·.1)) "$replace"
  if !rep.isNull then do
    let next ← get root docs rep
    process1 fuel docs root none next
  else do
    let obj2 := obj1.filter fun (v, _) => notReplaceEntry v
    let (ret, root') ← obj2.foldlM (entryStep fuel docs loc) (([] : List Val), root)
    pure (.list ret, root')

/-! ## equation lemmas for `process1 (fuel+1)` -/

theorem process1_zero (docs : List Val) (root : Val) (loc : Loc) (obj : Val) :
    process1 0 docs root loc obj = .error .circularRef := by
  rw [process1]; rfl

theorem process1_map_merge {fuel : Nat} {docs : List Val} {root : Val} {loc : Loc} {kvs : Fields}
    {ref : Val} (h : fget kvs "$merge" = some ref) :
    process1 (fuel + 1) docs root loc (.map kvs) =
      (get (setLoc root loc (.map (fdel kvs "$merge"))) docs ref >>=
        mergeCont fuel docs (setLoc root loc (.map (fdel kvs "$merge"))) loc (fdel kvs "$merge")) := by
  rw [process1]; simp only [h]; rfl

theorem process1_map_replace {fuel : Nat} {docs : List Val} {root : Val} {loc : Loc} {kvs : Fields}
    {ref : Val} (h0 : fget kvs "$merge" = none) (h : fget kvs "$replace" = some ref) :
    process1 (fuel + 1) docs root loc (.map kvs) =
      (get root docs ref >>= fun next => process1 fuel docs root none next) := by
  rw [process1]; simp only [h0, h]

theorem process1_map_plain {fuel : Nat} {docs : List Val} {root : Val} {loc : Loc} {kvs : Fields}
    (h0 : fget kvs "$merge" = none) (h : fget kvs "$replace" = none) :
    process1 (fuel + 1) docs root loc (.map kvs) =
      (kvs.foldlM (mapStep fuel docs loc) (([] : Fields), root) >>= fun r =>
        pure (.map r.1, r.2)) := by
  rw [process1]; simp only [h0, h]; rfl

theorem process1_list (fuel : Nat) (docs : List Val) (root : Val) (loc : Loc) (xs : List Val) :
    process1 (fuel + 1) docs root loc (.list xs) =
      ((listMerges xs).foldlM (mergeRefStep root docs) (listObj0 xs) >>=
        listFinish fuel docs root loc) := by
  rw [process1]; rfl

theorem process1_str_merge {fuel : Nat} {docs : List Val} {root : Val} {loc : Loc} {s p : String}
    (h : stripPrefix s "$merge:" = some p) :
    process1 (fuel + 1) docs root loc (.str s) =
      (get root docs (.str p) >>= fun inp => process1 fuel docs root none inp) := by
  rw [process1]; simp only [h]

theorem process1_str_replace {fuel : Nat} {docs : List Val} {root : Val} {loc : Loc} {s p : String}
    (h0 : stripPrefix s "$merge:" = none) (h : stripPrefix s "$replace:" = some p) :
    process1 (fuel + 1) docs root loc (.str s) =
      (get root docs (.str p) >>= fun inp => process1 fuel docs root none inp) := by
  rw [process1]; simp only [h0, h]

theorem process1_str_plain {fuel : Nat} {docs : List Val} {root : Val} {loc : Loc} {s : String}
    (h0 : stripPrefix s "$merge:" = none) (h : stripPrefix s "$replace:" = none) :
    process1 (fuel + 1) docs root loc (.str s) = .ok (.str s, root) := by
  rw [process1]; simp only [h0, h]; rfl

theorem process1_null (fuel : Nat) (docs : List Val) (root : Val) (loc : Loc) :
    process1 (fuel + 1) docs root loc .null = .ok (.null, root) := by
  rw [process1]
  all_goals first | rfl | (intro _ h; cases h)
theorem process1_bool (fuel : Nat) (docs : List Val) (root : Val) (loc : Loc) (b : Bool) :
    process1 (fuel + 1) docs root loc (.bool b) = .ok (.bool b, root) := by
  rw [process1]
  all_goals first | rfl | (intro _ h; cases h)
theorem process1_int (fuel : Nat) (docs : List Val) (root : Val) (loc : Loc) (i : Int) :
    process1 (fuel + 1) docs root loc (.int i) = .ok (.int i, root) := by
  rw [process1]
  all_goals first | rfl | (intro _ h; cases h)
theorem process1_flt (fuel : Nat) (docs : List Val) (root : Val) (loc : Loc) (r : String) :
    process1 (fuel + 1) docs root loc (.flt r) = .ok (.flt r, root) := by
  rw [process1]
  all_goals first | rfl | (intro _ h; cases h)

/-! ## locations: `getLoc` and the frame lemma for `setPath` -/

/-- follow a path of keys / indices inside a value -/
def getLoc (root : Val) : List PathElem → Option Val
  | [] => some root
  | .key k :: ps =>
    match root with
    | .map kvs => (fget kvs k).bind fun c => getLoc c ps
    | _ => none
  | .idx i :: ps =>
    match root with
    | .list xs => (xs[i]?).bind fun c => getLoc c ps
    | _ => none

/-- two locations are disjoint: neither is a prefix of the other -/
def Disjoint (p q : List PathElem) : Prop := ¬ p <+: q ∧ ¬ q <+: p

theorem disjoint_cons_cons {e : PathElem} {p q : List PathElem} (h : Disjoint (e :: p) (e :: q)) :
    Disjoint p q := by
  constructor
  · intro hp; exact h.1 ((List.prefix_cons_inj e).2 hp)
  · intro hp; exact h.2 ((List.prefix_cons_inj e).2 hp)

theorem disjoint_append_right {p q : List PathElem} (e : PathElem) (h : Disjoint p q) :
    Disjoint (p ++ [e]) q := by
  constructor
  · intro hp; exact h.1 (List.IsPrefix.trans (List.prefix_append p [e]) hp)
  · intro hp
    rcases List.prefix_concat_iff.1 hp with h1 | h2
    · exact h.1 (h1 ▸ List.prefix_append p [e])
    · exact h.2 h2

theorem getLoc_setPath_disjoint : ∀ (p : List PathElem) (r : Val) (q : List PathElem) (v : Val),
    Disjoint p q → getLoc (setPath r p v) q = getLoc r q := by
  intro p
  induction p with
  | nil => intro r q v h; exact absurd List.nil_prefix h.1
  | cons e ps ih =>
    intro r q v h
    cases q with
    | nil => exact absurd List.nil_prefix h.2
    | cons e' qs =>
      cases e with
      | key k =>
        cases r with
        | map kvs =>
          simp only [setPath]
          cases hc : fget kvs k with
          | none => rfl
          | some child =>
            simp only []
            cases e' with
            | key k' =>
              simp only [getLoc]
              by_cases hk : k' = k
              · subst hk
                rw [fget_fset_same, hc]
                exact ih child qs v (disjoint_cons_cons h)
              · rw [fget_fset_ne _ _ _ _ hk]
            | idx i => rfl
        | _ => rfl
      | idx i =>
        cases r with
        | list xs =>
          simp only [setPath]
          cases hc : xs[i]? with
          | none => rfl
          | some child =>
            simp only []
            cases e' with
            | key k' => rfl
            | idx i' =>
              simp only [getLoc]
              by_cases hi : i' = i
              · subst hi
                rw [List.getElem?_set_self' , hc]
                exact ih child qs v (disjoint_cons_cons h)
              · rw [List.getElem?_set_ne (Ne.symm hi)]
        | _ => rfl

/-! ## the frame property of the threaded root -/

/-- `root'` differs from `root` at most below `loc` (`none`: not at all) -/
def FrameOK (loc : Loc) (root root' : Val) : Prop :=
  match loc with
  | none => root' = root
  | some p => ∀ q, Disjoint p q → getLoc root' q = getLoc root q

theorem frameOK_refl (loc : Loc) (r : Val) : FrameOK loc r r := by
  cases loc with
  | none => rfl
  | some p => intro q _; rfl

theorem frameOK_trans {loc : Loc} {a b c : Val} (h1 : FrameOK loc a b) (h2 : FrameOK loc b c) :
    FrameOK loc a c := by
  cases loc with
  | none => exact Eq.trans h2 h1
  | some p => intro q hq; rw [h2 q hq, h1 q hq]

theorem frameOK_of_none {loc : Loc} {a b : Val} (h : FrameOK none a b) : FrameOK loc a b := by
  have : b = a := h
  subst this; exact frameOK_refl _ _

theorem frameOK_of_child {loc : Loc} {k : String} {a b : Val} (h : FrameOK (childLoc loc k) a b) :
    FrameOK loc a b := by
  cases loc with
  | none => exact h
  | some p => intro q hq; exact h q (disjoint_append_right _ hq)

theorem frameOK_of_entry {loc : Loc} {tag : Option Nat} {a b : Val}
    (h : FrameOK (entryLoc loc tag) a b) : FrameOK loc a b := by
  cases loc with
  | none => exact frameOK_of_none (by cases tag <;> exact h)
  | some p =>
    cases tag with
    | none => exact frameOK_of_none h
    | some i => intro q hq; exact h q (disjoint_append_right _ hq)

theorem frameOK_setLoc (loc : Loc) (root v : Val) : FrameOK loc root (setLoc root loc v) := by
  cases loc with
  | none => rfl
  | some p => intro q hq; exact getLoc_setPath_disjoint p root q v hq

/-- induction hypothesis of `process1_frame`, as a predicate on the fuel -/
def FrameIH (fuel : Nat) : Prop :=
  ∀ (docs : List Val) (root : Val) (loc : Loc) (obj v root' : Val),
    process1 fuel docs root loc obj = .ok (v, root') → FrameOK loc root root'

theorem mergeCont_frame {fuel : Nat} (ih : FrameIH fuel) {docs : List Val} {root1 : Val} {loc : Loc}
    {obj1 : Fields} {inp v root' : Val}
    (h : mergeCont fuel docs root1 loc obj1 inp = .ok (v, root')) : FrameOK loc root1 root' := by
  unfold mergeCont at h
  split at h
  · split at h
    · exact frameOK_of_none (ih _ _ _ _ _ _ h)
    · obtain ⟨next, _, h2⟩ := R_bind_eq_ok.1 h
      exact frameOK_trans (frameOK_setLoc _ _ _) (ih _ _ _ _ _ _ h2)
  · exact ih _ _ _ _ _ _ h
  · split at h
    · exact frameOK_of_none (ih _ _ _ _ _ _ h)
    · cases h

theorem mapStep_frame {fuel : Nat} (ih : FrameIH fuel) {docs : List Val} {loc : Loc}
    {s s' : Fields × Val} {a : String × Val}
    (h : mapStep fuel docs loc s a = .ok s') : FrameOK loc s.2 s'.2 := by
  obtain ⟨acc, rt⟩ := s
  obtain ⟨k, x⟩ := a
  simp only [mapStep] at h
  obtain ⟨⟨v2, rt1⟩, h1, h2⟩ := R_bind_eq_ok.1 h
  have f1 : FrameOK loc rt rt1 := frameOK_of_child (ih _ _ _ _ _ _ h1)
  simp only [] at h2
  split at h2
  · cases h2; exact f1
  · obtain ⟨⟨k2, rt2⟩, h3, h4⟩ := R_bind_eq_ok.1 h2
    have f2 : FrameOK loc rt1 rt2 := frameOK_of_none (ih _ _ _ _ _ _ h3)
    simp only [] at h4
    split at h4
    · cases h4; exact frameOK_trans f1 f2
    · cases h4

theorem entryStep_frame {fuel : Nat} (ih : FrameIH fuel) {docs : List Val} {loc : Loc}
    {s s' : List Val × Val} {a : Val × Option Nat}
    (h : entryStep fuel docs loc s a = .ok s') : FrameOK loc s.2 s'.2 := by
  obtain ⟨acc, rt⟩ := s
  obtain ⟨x, tag⟩ := a
  simp only [entryStep] at h
  obtain ⟨⟨v2, rt1⟩, h1, h2⟩ := R_bind_eq_ok.1 h
  have f1 : FrameOK loc rt rt1 := frameOK_of_entry (ih _ _ _ _ _ _ h1)
  simp only [] at h2
  split at h2 <;> (cases h2; exact f1)

theorem listFinish_frame {fuel : Nat} (ih : FrameIH fuel) {docs : List Val} {root : Val} {loc : Loc}
    {obj1 : Tagged} {v root' : Val}
    (h : listFinish fuel docs root loc obj1 = .ok (v, root')) : FrameOK loc root root' := by
  unfold listFinish at h
  obtain ⟨⟨rep, rest⟩, _, h2⟩ := R_bind_eq_ok.1 h
  simp only [] at h2
  split at h2
  · obtain ⟨next, _, h3⟩ := R_bind_eq_ok.1 h2
    exact frameOK_of_none (ih _ _ _ _ _ _ h3)
  · obtain ⟨⟨ret, r'⟩, h3, h4⟩ := R_bind_eq_ok.1 h2
    cases h4
    exact foldlM_inv (fun st => FrameOK loc root st.2) _ _ _ _ (frameOK_refl _ _)
      (fun s a s' _ hs hstep => frameOK_trans hs (entryStep_frame ih hstep)) h3

/-- The root returned by `process1` differs from the input root at most below `loc`. -/
theorem process1_frame : ∀ fuel, FrameIH fuel := by
  intro fuel
  induction fuel with
  | zero => intro docs root loc obj v root' h; rw [process1_zero] at h; cases h
  | succ fuel ih =>
    intro docs root loc obj v root' h
    cases obj with
    | map kvs =>
      cases hm : fget kvs "$merge" with
      | some ref =>
        rw [process1_map_merge hm] at h
        obtain ⟨inp, _, h2⟩ := R_bind_eq_ok.1 h
        exact frameOK_trans (frameOK_setLoc _ _ _) (mergeCont_frame ih h2)
      | none =>
        cases hr : fget kvs "$replace" with
        | some ref =>
          rw [process1_map_replace hm hr] at h
          obtain ⟨next, _, h2⟩ := R_bind_eq_ok.1 h
          exact frameOK_of_none (ih _ _ _ _ _ _ h2)
        | none =>
          rw [process1_map_plain hm hr] at h
          obtain ⟨⟨ret, r'⟩, h3, h4⟩ := R_bind_eq_ok.1 h
          cases h4
          exact foldlM_inv (fun st => FrameOK loc root st.2) _ _ _ _ (frameOK_refl _ _)
            (fun s a s' _ hs hstep => frameOK_trans hs (mapStep_frame ih hstep)) h3
    | list xs =>
      rw [process1_list] at h
      obtain ⟨obj1, _, h2⟩ := R_bind_eq_ok.1 h
      exact listFinish_frame ih h2
    | str s =>
      cases hm : stripPrefix s "$merge:" with
      | some p =>
        rw [process1_str_merge hm] at h
        obtain ⟨inp, _, h2⟩ := R_bind_eq_ok.1 h
        exact frameOK_of_none (ih _ _ _ _ _ _ h2)
      | none =>
        cases hr : stripPrefix s "$replace:" with
        | some p =>
          rw [process1_str_replace hm hr] at h
          obtain ⟨inp, _, h2⟩ := R_bind_eq_ok.1 h
          exact frameOK_of_none (ih _ _ _ _ _ _ h2)
        | none =>
          rw [process1_str_plain hm hr] at h
          cases h; exact frameOK_refl _ _
    | null => rw [process1_null] at h; cases h; exact frameOK_refl _ _
    | bool b => rw [process1_bool] at h; cases h; exact frameOK_refl _ _
    | int i => rw [process1_int] at h; cases h; exact frameOK_refl _ _
    | flt r => rw [process1_flt] at h; cases h; exact frameOK_refl _ _

/-! ## the list case: collecting the directive entries -/

/-- a single-key `{$merge: _}` or `{$replace: _}` list entry -/
def listDirective (v : Val) : Bool :=
  match v with
  | .map [(k, _)] => k == "$merge" || k == "$replace"
  | _ => false

theorem notMergeEntry_of_not_directive {v : Val} (h : listDirective v = false) :
    notMergeEntry v = true := by
  unfold listDirective at h
  unfold notMergeEntry
  split <;> simp_all

theorem notReplaceEntry_of_not_directive {v : Val} (h : listDirective v = false) :
    notReplaceEntry v = true := by
  unfold listDirective at h
  unfold notReplaceEntry
  split <;> simp_all

theorem listMerges_append (a b : List Val) : listMerges (a ++ b) = listMerges a ++ listMerges b := by
  simp [listMerges, List.filterMap_append]

/-- the reference carried by a `{$merge: ref}` entry -/
def mergeRefOf (v : Val) : Option Val :=
  match v with
  | .map [(k, ref)] => if k == "$merge" then some ref else none
  | _ => none

theorem listMerges_eq (xs : List Val) : listMerges xs = xs.filterMap mergeRefOf := rfl

theorem mergeRefOf_none {v : Val} (h : notMergeEntry v = true) : mergeRefOf v = none := by
  unfold notMergeEntry at h
  unfold mergeRefOf
  split <;> simp_all

theorem listMerges_of_notMerge {l : List Val} (h : ∀ v ∈ l, notMergeEntry v = true) :
    listMerges l = [] := by
  rw [listMerges_eq, List.filterMap_eq_nil_iff]
  intro v hv; exact mergeRefOf_none (h v hv)

theorem listMerges_merge_entry (ref : Val) : listMerges [.map [("$merge", ref)]] = [ref] := by
  simp [listMerges]

theorem listMerges_replace_entry (ref : Val) : listMerges [.map [("$replace", ref)]] = [] := by
  simp [listMerges]

/-- a list `pre ++ [{$merge: ref}] ++ post` with no other directive entries has exactly one
    collected reference -/
theorem listMerges_single {pre post : List Val} (ref : Val)
    (h : ∀ v ∈ pre ++ post, notMergeEntry v = true) :
    listMerges (pre ++ [.map [("$merge", ref)]] ++ post) = [ref] := by
  rw [listMerges_append, listMerges_append, listMerges_merge_entry,
    listMerges_of_notMerge (fun v hv => h v (List.mem_append_left _ hv)),
    listMerges_of_notMerge (fun v hv => h v (List.mem_append_right _ hv))]
  rfl

theorem listObj0_fst_aux (xs : List Val) (n : Nat) :
    (((xs.zipIdx n).filter fun x => notMergeEntry x.1).map fun x => (x.1, some x.2)).map
      (fun x : Val × Option Nat => x.1) = xs.filter notMergeEntry := by
  induction xs generalizing n with
  | nil => rfl
  | cons a tl ih =>
    have ih' := ih (n + 1)
    simp only [List.zipIdx_cons, List.filter_cons]
    cases ha : notMergeEntry a with
    | true =>
      simp only [if_true, List.map_cons]
      rw [ih']
    | false =>
      simp only [Bool.false_eq_true, if_false]
      rw [ih']

/-- the untagged view of `listObj0` -/
theorem listObj0_fst (xs : List Val) : (listObj0 xs).map (·.1) = xs.filter notMergeEntry :=
  listObj0_fst_aux xs 0

theorem listObj0_merge_entry (ref : Val) : listObj0 [.map [("$merge", ref)]] = [] := by
  simp [listObj0, notMergeEntry]

theorem listObj0_replace_entry (ref : Val) :
    listObj0 [.map [("$replace", ref)]] = [(.map [("$replace", ref)], some 0)] := by
  simp [listObj0, notMergeEntry]

/-! ## `popListMapValue … "$replace"` -/

/-- the fold step of `popListMapValue` -/
def popValStep (k : String) : Val × List Val → Val → R (Val × List Val) :=
  fun (ret, acc) x =>
    match x with
    | .map m =>
      if m.length != 1 then pure (ret, acc ++ [x])
      else match fget m k with
        | some val => if !ret.isNull then throw Err.extraKeys else pure (val, acc)
        | none => pure (ret, acc ++ [x])
    | _ => pure (ret, acc ++ [x])

theorem popListMapValue_eq (l : List Val) (k : String) :
    popListMapValue l k = l.foldlM (popValStep k) (Val.null, ([] : List Val)) := rfl

theorem popValStep_notReplace {x : Val} (ret : Val) (acc : List Val)
    (h : notReplaceEntry x = true) :
    popValStep "$replace" (ret, acc) x = .ok (ret, acc ++ [x]) := by
  cases x with
  | map m =>
    match m, h with
    | [], _ => rfl
    | [(k, v)], h =>
      have hk : ¬ k = "$replace" := by simpa [notReplaceEntry] using h
      simp [popValStep, fget, hk, R_pure]
    | _ :: _ :: _, _ => simp [popValStep, R_pure]
  | _ => rfl

theorem popValStep_replace_entry (ref : Val) (acc : List Val) :
    popValStep "$replace" (.null, acc) (.map [("$replace", ref)]) = .ok (ref, acc) := by
  simp [popValStep, fget, Val.isNull, R_pure]

theorem foldlM_popValStep_notReplace (l : List Val) (ret : Val) (acc : List Val)
    (h : ∀ x ∈ l, notReplaceEntry x = true) :
    l.foldlM (popValStep "$replace") (ret, acc) = .ok (ret, acc ++ l) := by
  induction l generalizing acc with
  | nil => simp [R_pure]
  | cons a tl ih =>
    rw [foldlM_cons, popValStep_notReplace ret acc (h a List.mem_cons_self)]
    simp only []
    rw [ih _ (fun x hx => h x (List.mem_cons_of_mem _ hx))]
    simp

theorem foldlM_append_R {α β : Type} (f : β → α → R β) (b : β) (l1 l2 : List α) :
    (l1 ++ l2).foldlM f b = (l1.foldlM f b >>= fun b' => l2.foldlM f b') := by
  simp [List.foldlM_append]

theorem popListMapValue_no_replace {l : List Val} (h : ∀ x ∈ l, notReplaceEntry x = true) :
    popListMapValue l "$replace" = .ok (.null, l) := by
  rw [popListMapValue_eq, foldlM_popValStep_notReplace l _ _ h]; simp

theorem popListMapValue_one_replace {pre post : List Val} (ref : Val)
    (h : ∀ x ∈ pre ++ post, notReplaceEntry x = true) :
    popListMapValue (pre ++ [.map [("$replace", ref)]] ++ post) "$replace" =
      .ok (ref, pre ++ post) := by
  rw [popListMapValue_eq, foldlM_append_R, foldlM_append_R,
    foldlM_popValStep_notReplace pre _ _ (fun x hx => h x (List.mem_append_left _ hx))]
  simp only [R_bind_ok, foldlM_cons, foldlM_nil, popValStep_replace_entry]
  rw [foldlM_popValStep_notReplace post _ _ (fun x hx => h x (List.mem_append_right _ hx))]
  simp

/-! ## `mergeListTagged` on plain entries -/

/-- the fold step of `mergeListTagged` -/
def tagStep (acc : Tagged) (v : Val) : R Tagged :=
  match v with
  | .map kvs =>
    match fget kvs "$delete" with
    | some del =>
      if (fdel kvs "$delete").length > 0 then throw Err.extraKeys
      else if acc.any (fun x => matchV x.1 del) then pure (acc.filter (fun x => !matchV x.1 del))
      else throw Err.uselessOverride
    | none =>
      if fhas kvs "$match" then throw Err.unmodelled
      else pure (acc ++ [(v, none)])
  | _ => pure (acc ++ [(v, none)])

theorem tagStep_plain {v : Val} (acc : Tagged) (h : plainEntry v = true) :
    tagStep acc v = .ok (acc ++ [(v, none)]) := by
  cases v with
  | map kvs =>
    simp only [plainEntry, Bool.and_eq_true, Bool.not_eq_true'] at h
    have h1 : fget kvs "$delete" = none := fhas_eq_false_iff.1 h.1.1
    simp only [tagStep, h1, h.1.2, Bool.false_eq_true, if_false]; rfl
  | _ => rfl

theorem foldlM_tagStep_plain (s : List Val) (acc : Tagged) (h : s.all plainEntry = true) :
    s.foldlM tagStep acc = .ok (acc ++ s.map (·, none)) := by
  induction s generalizing acc with
  | nil => simp [R_pure]
  | cons a tl ih =>
    simp only [List.all_cons, Bool.and_eq_true] at h
    rw [foldlM_cons, tagStep_plain acc h.1]
    simp only []
    rw [ih _ h.2]; simp

/-- A referenced list made of plain entries is appended (as copies) to the host entries. -/
theorem mergeListTagged_plain (d : Tagged) {s : List Val} (h : s.all plainEntry = true) :
    mergeListTagged d s =
      .ok (d.filter (fun x => !(x.1 == .str "$required")) ++ s.map (·, none)) := by
  unfold mergeListTagged
  simp only [popListString, all_plain_any_replace h, Bool.false_eq_true, if_false]
  rw [popListMapBool_eq, if_pos (all_plain_no_marker h)]
  simp only [R_bind_ok, Bool.false_eq_true, if_false]
  exact foldlM_tagStep_plain s _ h

/-! ## `mergeListTagged` is `mergeListList` on the untagged entries -/

theorem mergeListTagged_eq (d : Tagged) (s : List Val) :
    mergeListTagged d s =
      if s.any (fun x => x == Val.str "$replace") = true then
        .ok ((s.filter (fun x => !(x == .str "$replace"))).map (·, none))
      else match popListMapBool s "$replace" true with
        | .error e => .error e
        | .ok (rep2, s2) =>
          if rep2 = true then .ok (s2.map (·, none))
          else s.foldlM tagStep (d.filter (fun x => !(x.1 == .str "$required"))) := by
  unfold mergeListTagged
  simp only [popListString]
  split
  · rfl
  · show (popListMapBool s "$replace" true >>= _) = _
    cases popListMapBool s "$replace" true with
    | error e => rfl
    | ok p =>
      obtain ⟨rep2, s2⟩ := p
      rw [R_bind_ok]
      cases rep2 <;> rfl

theorem map_fst_fresh (l : List Val) : (l.map (·, (none : Option Nat))).map (·.1) = l := by
  simp [List.map_map, Function.comp_def]

theorem tagStep_agrees (acc : Tagged) (v : Val) (rest : List Val) :
    match tagStep acc v with
    | .ok acc' => mergeEntries (acc.map (·.1)) (v :: rest) = mergeEntries (acc'.map (·.1)) rest
    | .error e => e = .unmodelled ∨ mergeEntries (acc.map (·.1)) (v :: rest) = .error e := by
  cases v with
  | map kvs =>
    simp only [tagStep]
    cases hd : fget kvs "$delete" with
    | some del =>
      simp only []
      by_cases hx : (fdel kvs "$delete").length > 0
      · rw [if_pos hx]
        exact Or.inr (mergeEntries_delete_extra _ _ hd hx)
      · rw [if_neg hx]
        have hx0 : (fdel kvs "$delete").length = 0 := by omega
        rw [mergeEntries_delete _ _ hd hx0, List.any_map]
        by_cases ha : acc.any (fun x => matchV x.1 del) = true
        · have : acc.any ((fun v => matchV v del) ∘ fun x => x.1) = true := ha
          rw [if_pos ha, if_pos this]
          simp only [R_pure, List.filter_map]
          rfl
        · have : ¬ acc.any ((fun v => matchV v del) ∘ fun x => x.1) = true := ha
          rw [if_neg ha, if_neg this]
          exact Or.inr rfl
    | none =>
      simp only []
      by_cases hm : fhas kvs "$match" = true
      · rw [if_pos hm]; exact Or.inl rfl
      · rw [if_neg hm]
        have hm' : fget kvs "$match" = none := fhas_eq_false_iff.1 (by simpa using hm)
        simp only [R_pure, List.map_append, List.map_cons, List.map_nil]
        exact mergeEntries_map_plain _ _ hd hm'
  | _ =>
    simp only [tagStep, R_pure, List.map_append, List.map_cons, List.map_nil]
    exact mergeEntries_nonmap _ _ rfl

theorem foldlM_tagStep_agrees (s : List Val) (acc : Tagged) :
    match s.foldlM tagStep acc with
    | .ok t => mergeEntries (acc.map (·.1)) s = .ok (t.map (·.1))
    | .error e => e = .unmodelled ∨ mergeEntries (acc.map (·.1)) s = .error e := by
  induction s generalizing acc with
  | nil => rw [foldlM_nil]; exact mergeEntries_nil _
  | cons v rest ih =>
    rw [foldlM_cons]
    have hs := tagStep_agrees acc v rest
    cases hstep : tagStep acc v with
    | error e => rw [hstep] at hs; exact hs
    | ok acc' =>
      rw [hstep] at hs
      simp only [] at hs ⊢
      rw [hs]
      exact ih acc'

/-- `mergeListTagged` is the ordinary list merge `mergeListList` on the untagged entries. -/
theorem mergeListTagged_agrees (d : Tagged) (s : List Val) :
    match mergeListTagged d s with
    | .ok t => mergeListList (d.map (·.1)) s = .ok (.list (t.map (·.1)))
    | .error e => e = .unmodelled ∨ mergeListList (d.map (·.1)) s = .error e := by
  rw [mergeListTagged_eq]
  by_cases h1 : s.any (fun x => x == Val.str "$replace") = true
  · rw [if_pos h1]
    simp only [map_fst_fresh]
    exact mergeListList_replace_string _ h1
  · rw [if_neg h1]
    have h1' : s.any (fun x => x == Val.str "$replace") = false := by
      cases hh : s.any (fun x => x == Val.str "$replace") with
      | true => exact absurd hh h1
      | false => rfl
    rw [mergeListList_no_string _ h1']
    cases popListMapBool s "$replace" true with
    | error e => exact Or.inr rfl
    | ok p =>
      obtain ⟨rep2, s2⟩ := p
      cases rep2 with
      | true => simp only [if_true, map_fst_fresh]
      | false =>
        simp only [Bool.false_eq_true, if_false]
        have hd : dropRequired (d.map (·.1)) =
            (d.filter (fun x => !(x.1 == .str "$required"))).map (·.1) := by
          simp only [dropRequired, List.filter_map]; rfl
        rw [hd]
        have := foldlM_tagStep_agrees s (d.filter (fun x => !(x.1 == .str "$required")))
        cases hf : s.foldlM tagStep (d.filter (fun x => !(x.1 == .str "$required"))) with
        | error e =>
          rw [hf] at this
          rcases this with h | h
          · exact Or.inl h
          · right; rw [h]
        | ok t => rw [hf] at this; simp only [] at this ⊢; rw [this]
/-! ## evaluating entries that are copies -/

/-- evaluate each entry of `l` as a copy (no location) against the fixed `root`; `null`
    results are dropped -/
def evalCopies (fuel : Nat) (docs : List Val) (root : Val) (l : List Val) : R (List Val) :=
  l.mapM (fun v => process1 fuel docs root none v) >>= fun rs =>
    pure ((rs.map (·.1)).filter (fun v => !v.isNull))

theorem entryLoc_none_tag (loc : Loc) : entryLoc loc none = none := by
  cases loc <;> rfl

theorem foldlM_entryStep_copies (fuel : Nat) (docs : List Val) (root : Val) (loc : Loc)
    (l acc : List Val) :
    (l.map (·, (none : Option Nat))).foldlM (entryStep fuel docs loc) (acc, root) =
      (l.mapM (fun v => process1 fuel docs root none v) >>= fun rs =>
        pure (acc ++ (rs.map (·.1)).filter (fun v => !v.isNull), root)) := by
  induction l generalizing acc with
  | nil => simp [R_pure, R_bind_ok]
  | cons a tl ih =>
    rw [List.map_cons, foldlM_cons, mapM_cons]
    simp only [entryStep, entryLoc_none_tag]
    cases hp : process1 fuel docs root none a with
    | error e => rfl
    | ok r =>
      obtain ⟨v2, rt1⟩ := r
      have hrt : rt1 = root := process1_frame fuel _ _ _ _ _ _ hp
      subst hrt
      simp only [R_bind_ok]
      cases hn : v2.isNull with
      | true =>
        simp only [if_true, R_pure]
        rw [ih]
        cases List.mapM (fun v => process1 fuel docs rt1 none v) tl with
        | error e => rfl
        | ok rs => simp [R_bind_ok, R_pure, hn]
      | false =>
        simp only [Bool.false_eq_true, if_false, R_pure]
        rw [ih]
        cases List.mapM (fun v => process1 fuel docs rt1 none v) tl with
        | error e => rfl
        | ok rs => simp [R_bind_ok, R_pure, hn]

/-! ## `get` (get.go), one level -/

theorem get_str (root : Val) (docs : List Val) (s : String) :
    get root docs (.str s) = getPathFromString root docs s := by
  rw [get]

theorem get_list (root : Val) (docs : List Val) (l : List Val) :
    get root docs (.list l) = getPathFromList root docs l := by
  rw [get]

theorem get_null (root : Val) (docs : List Val) : get root docs .null = .error .invalidType := by
  rw [get]
  all_goals first | rfl | (intro _ h; cases h)

theorem get_map (root : Val) (docs : List Val) (conf : Fields) :
    get root docs (.map conf) =
      match fget conf "$match" with
      | none => .error .missingMatch
      | some pat => getCrossDoc docs pat >>= fun d =>
        match fget conf "$path" with
        | some path => get d docs path
        | none => pure d := by
  rw [get]
  cases fget conf "$match" with
  | none => rfl
  | some pat =>
    simp only []
    congr 1
    funext d
    split <;> simp_all

theorem toStringList_strs (ps : List String) : toStringList (ps.map .str) = .ok ps := by
  unfold toStringList
  induction ps with
  | nil => exact mapM_nil _
  | cons a tl ih => rw [List.map_cons, mapM_cons, ih]; rfl

/-- a reference given as a list of strings is a plain path into the referencing document -/
theorem get_list_strs (root : Val) (docs : List Val) (p : String) (ps : List String) :
    get root docs (.list (.str p :: ps.map .str)) = getPath root (p :: ps) := by
  rw [get_list]
  show (toStringList ((p :: ps).map .str) >>= fun l => getPath root l) = _
  rw [toStringList_strs]; rfl

/-- `getPath` is `getLoc` along keys -/
theorem getPath_eq_getLoc (obj : Val) (ks : List String) :
    getPath obj ks = match getLoc obj (ks.map .key) with
      | some v => .ok v
      | none => .error .refNotFound := by
  induction ks generalizing obj with
  | nil => rfl
  | cons k tl ih =>
    cases obj with
    | map kvs =>
      simp only [getPath, List.map_cons, getLoc]
      cases fget kvs k with
      | none => rfl
      | some v => exact ih v
    | _ => rfl

/-! ## concrete string facts (checked by the kernel via `simp`/`decide` on `String.toList`) -/

theorem stripPrefix_merge_a : stripPrefix "$merge:a" "$merge:" = some "a" := by
  simp only [stripPrefix]
  have h : "$merge:a".startsWith "$merge:" = true := by simp
  rw [if_pos h]
  congr 1

theorem stripPrefix_merge_b : stripPrefix "$merge:b" "$merge:" = some "b" := by
  simp only [stripPrefix]
  have h : "$merge:b".startsWith "$merge:" = true := by simp
  rw [if_pos h]
  congr 1

theorem stripPrefix_replace_a : stripPrefix "$replace:a" "$replace:" = some "a" := by
  simp only [stripPrefix]
  have h : "$replace:a".startsWith "$replace:" = true := by simp
  rw [if_pos h]
  congr 1

theorem stripPrefix_replace_a_merge : stripPrefix "$replace:a" "$merge:" = none := by
  simp only [stripPrefix]
  have h : "$replace:a".startsWith "$merge:" = false := by simp
  rw [h]; rfl

theorem stripPrefix_hello_merge : stripPrefix "hello" "$merge:" = none := by
  simp only [stripPrefix]
  have h : "hello".startsWith "$merge:" = false := by simp
  rw [h]; rfl

theorem stripPrefix_hello_replace : stripPrefix "hello" "$replace:" = none := by
  simp only [stripPrefix]
  have h : "hello".startsWith "$replace:" = false := by simp
  rw [h]; rfl

/-- a one-character string (one byte, not `.`) is not split by `splitOn "."` -/
theorem splitOn_dot_single {s : String} {c : Char} (h1 : s.toList = [c])
    (h2 : s.utf8ByteSize = 1) (h3 : c.utf8Size = 1) (h4 : (c == '.') = false) :
    s.splitOn "." = [s] := by
  have dot_toList : ".".toList = ['.'] := by decide
  have s_get0 : String.Pos.Raw.get s 0 = c := by
    simp [String.Pos.Raw.get, h1, String.Pos.Raw.utf8GetAux]
  have dot_get0 : String.Pos.Raw.get "." 0 = '.' := by
    simp [String.Pos.Raw.get, dot_toList, String.Pos.Raw.utf8GetAux]
  have s_next0 : String.Pos.Raw.next s 0 = ⟨1⟩ := by
    simp only [String.Pos.Raw.next, s_get0]
    show (⟨0 + c.utf8Size⟩ : String.Pos.Raw) = ⟨1⟩
    rw [h3]
  unfold String.splitOn
  have e0 : ("." == "") = false := by decide
  rw [e0]
  simp only [Bool.false_eq_true, if_false]
  rw [String.splitOnAux]
  have e1 : String.Pos.Raw.atEnd s 0 = false := by simp [String.Pos.Raw.atEnd, h2]
  have e3 : (String.Pos.Raw.unoffsetBy 0 0 : String.Pos.Raw) = 0 := by decide
  simp only [e1, s_get0, dot_get0, e3, s_next0, h4, Bool.false_eq_true, if_false]
  rw [String.splitOnAux]
  have e2 : String.Pos.Raw.atEnd s ⟨1⟩ = true := by simp [String.Pos.Raw.atEnd, h2]
  simp only [e2, if_true, List.reverse_cons, List.reverse_nil, List.nil_append]
  congr 1
  have e5 : ((0 : String.Pos.Raw) = ⟨1⟩) = False := by
    apply eq_false; intro h; cases h
  have : String.Pos.Raw.extract s 0 ⟨1⟩ = String.ofList [c] := by
    simp only [String.Pos.Raw.extract, h1, String.Pos.Raw.extract.go₁,
      String.Pos.Raw.extract.go₂, e5, if_false, if_true]
    rfl
  rw [this, ← h1, String.ofList_toList]

theorem splitOn_a : "a".splitOn "." = ["a"] :=
  splitOn_dot_single (c := 'a') (by decide) (by decide) (by decide) (by decide)

theorem splitOn_b : "b".splitOn "." = ["b"] :=
  splitOn_dot_single (c := 'b') (by decide) (by decide) (by decide) (by decide)

theorem parseRef_a : parseRef "a" = some (.str "a") := by
  have h : isPlainRef "a" = true := by
    unfold isPlainRef
    have : "a".toList = ['a'] := by decide
    rw [this]
    simp only []
    have h2 : reservedWords.contains "a".toLower = false := by
      have : "a".toLower = "a" := by
        apply String.toList_inj.1
        unfold String.toLower
        rw [String.toList_map]; decide
      rw [this]; decide
    rw [h2]; decide
  simp [parseRef, h]

theorem parseRef_b : parseRef "b" = some (.str "b") := by
  have h : isPlainRef "b" = true := by
    unfold isPlainRef
    have : "b".toList = ['b'] := by decide
    rw [this]
    simp only []
    have h2 : reservedWords.contains "b".toLower = false := by
      have : "b".toLower = "b" := by
        apply String.toList_inj.1
        unfold String.toLower
        rw [String.toList_map]; decide
      rw [this]; decide
    rw [h2]; decide
  simp [parseRef, h]

/-- a plain one-segment string reference is a top-level key lookup -/
theorem get_plain_key {k : String} {kvs : Fields} {v : Val} (docs : List Val)
    (h1 : parseRef k = some (.str k)) (h2 : k.splitOn "." = [k]) (h3 : fget kvs k = some v) :
    get (.map kvs) docs (.str k) = .ok v := by
  rw [get_str]
  simp only [getPathFromString, h1, h2, getPath, h3]
  rfl

/-! ## two concrete merges used by the non-vacuity examples -/

theorem merge_x_y :
    merge (.map [("x", .int 1)]) (.map [("y", .int 2)]) = .ok (.map [("x", .int 1), ("y", .int 2)]) := by
  rw [merge_map_map, mergeMapMap_noreplace (by decide), mergeFields_cons]
  have h1 : ((Val.int 2).toStr = "$delete") = False := by decide
  have h2 : fget [("x", Val.int 1)] "y" = none := by decide
  have h3 : fset [("x", Val.int 1)] "y" (.int 2) = [("x", .int 1), ("y", .int 2)] := by decide
  simp only [h1, if_false, h2, h3, mergeFields_nil]
  rfl

theorem merge_x_x :
    merge (.map [("x", .int 1)]) (.map [("x", .int 1)]) = .error .uselessOverride := by
  rw [merge_map_map, mergeMapMap_noreplace (by decide), mergeFields_cons]
  have h1 : ((Val.int 1).toStr = "$delete") = False := by decide
  have h2 : fget [("x", Val.int 1)] "x" = some (.int 1) := by decide
  have h3 : merge (.int 1) (.int 1) = .error .uselessOverride := by
    rw [merge_scalar _ _ rfl]; rfl
  simp only [h1, if_false, h2, h3]
  rfl

end Bkl
