/-
  BklProofs.Lemmas.Order — helper lemmas for C09: every loop that the Go code runs over a Go map
  (`for k, v := range m`, random order) computes the same observable result for every
  iteration order.
-/
import Bkl.Parser
import Bkl.Tools
import BklProofs.Lemmas.Merge
namespace Bkl

/-! ## keys -/

/-- the keys of an entry list are pairwise distinct (what a Go map guarantees) -/
abbrev Fields.DistinctKeys (s : Fields) : Prop := (s.map (·.1)).Nodup

theorem distinctKeys_cons {p : String × Val} {s : Fields} :
    Fields.DistinctKeys (p :: s) ↔ (∀ q ∈ s, q.1 ≠ p.1) ∧ Fields.DistinctKeys s := by
  simp only [Fields.DistinctKeys, List.map_cons, List.nodup_cons, List.mem_map, not_exists,
    not_and]

theorem distinctKeys_of_sorted {s : Fields} (h : Fields.SortedKeys s) : Fields.DistinctKeys s := by
  induction s with
  | nil => exact List.nodup_nil
  | cons hd tl ih =>
    obtain ⟨k, v⟩ := hd
    rw [distinctKeys_cons]
    exact ⟨fun q hq => str_ne_of_gt (sorted_head_lt h q hq), ih (sorted_tail h)⟩

theorem distinctKeys_perm {s' s : Fields} (hp : s'.Perm s) (h : Fields.DistinctKeys s) :
    Fields.DistinctKeys s' :=
  ((hp.map (·.1)).nodup_iff).2 h

/-- with distinct keys, an entry is determined by its key -/
theorem distinctKeys_unique {s : Fields} (h : Fields.DistinctKeys s) {k : String} {v w : Val}
    (hv : (k, v) ∈ s) (hw : (k, w) ∈ s) : v = w := by
  induction s with
  | nil => cases hv
  | cons hd tl ih =>
    rw [distinctKeys_cons] at h
    rcases List.mem_cons.1 hv with hv | hv <;> rcases List.mem_cons.1 hw with hw | hw
    · rw [← hw] at hv; cases hv; rfl
    · exact absurd (by rw [← hv]) (h.1 _ hw)
    · exact absurd (by rw [← hw]) (h.1 _ hv)
    · exact ih h.2 hv hw

/-- a key-preserving `filterMap` keeps (a sublist of) the keys -/
theorem keys_filterMap_sublist (f : String × Val → Option (String × Val))
    (hf : ∀ p q, f p = some q → q.1 = p.1) (s : Fields) :
    ((s.filterMap f).map (·.1)).Sublist (s.map (·.1)) := by
  induction s with
  | nil => simp
  | cons hd tl ih =>
    rw [List.filterMap_cons]
    cases h : f hd with
    | none => exact List.Sublist.cons _ ih
    | some q =>
      simp only [List.map_cons]
      rw [hf hd q h]
      exact List.Sublist.cons_cons _ ih

theorem distinctKeys_filterMap (f : String × Val → Option (String × Val))
    (hf : ∀ p q, f p = some q → q.1 = p.1) {s : Fields} (h : Fields.DistinctKeys s) :
    Fields.DistinctKeys (s.filterMap f) :=
  (keys_filterMap_sublist f hf s).nodup h

/-! ## `fsetAll` / `fofList`: `for k, v := range src { dst[k] = v }` -/

theorem fsetAll_nil (d : Fields) : fsetAll d [] = d := rfl

theorem fsetAll_cons (d : Fields) (p : String × Val) (rest : Fields) :
    fsetAll d (p :: rest) = fsetAll (fset d p.1 p.2) rest := rfl

theorem fsetAll_append (d a b : Fields) : fsetAll d (a ++ b) = fsetAll (fsetAll d a) b := by
  simp [fsetAll, List.foldl_append]

theorem sorted_fsetAll {d : Fields} (s : Fields) (hd : Fields.SortedKeys d) :
    Fields.SortedKeys (fsetAll d s) := by
  induction s generalizing d with
  | nil => exact hd
  | cons hd' tl ih => rw [fsetAll_cons]; exact ih (sorted_fset hd)

theorem sorted_fofList (s : Fields) : Fields.SortedKeys (fofList s) :=
  sorted_fsetAll s (by simp [Fields.SortedKeys])

theorem fget_fsetAll_of_not_mem {d s : Fields} {k : String} (h : ∀ p ∈ s, p.1 ≠ k) :
    fget (fsetAll d s) k = fget d k := by
  induction s generalizing d with
  | nil => rfl
  | cons hd tl ih =>
    rw [fsetAll_cons, ih (fun p hp => h p (List.mem_cons_of_mem _ hp))]
    exact fget_fset_ne _ _ _ _ (Ne.symm (h hd List.mem_cons_self))

theorem fget_fsetAll_of_mem {d s : Fields} {k : String} {v : Val} (hn : Fields.DistinctKeys s)
    (h : (k, v) ∈ s) : fget (fsetAll d s) k = some v := by
  induction s generalizing d with
  | nil => cases h
  | cons hd tl ih =>
    rw [distinctKeys_cons] at hn
    rw [fsetAll_cons]
    rcases List.mem_cons.1 h with h | h
    · subst h
      rw [fget_fsetAll_of_not_mem hn.1]
      exact fget_fset_same _ _ _
    · exact ih hn.2 h

/-- Inserting the entries of a Go map into another one: every order gives the same map. -/
theorem fsetAll_perm {d s s' : Fields} (hd : Fields.SortedKeys d) (hn : Fields.DistinctKeys s)
    (hp : s'.Perm s) : fsetAll d s' = fsetAll d s := by
  apply sorted_ext (sorted_fsetAll s' hd) (sorted_fsetAll s hd)
  intro k
  by_cases hk : ∃ v, (k, v) ∈ s
  · obtain ⟨v, hv⟩ := hk
    rw [fget_fsetAll_of_mem hn hv, fget_fsetAll_of_mem (distinctKeys_perm hp hn) (hp.mem_iff.2 hv)]
  · have h1 : ∀ p ∈ s, p.1 ≠ k := by
      intro p hp' e
      exact hk ⟨p.2, by rw [← e]; exact hp'⟩
    have h2 : ∀ p ∈ s', p.1 ≠ k := fun p hp' => h1 p (hp.mem_iff.1 hp')
    rw [fget_fsetAll_of_not_mem h1, fget_fsetAll_of_not_mem h2]

theorem fofList_perm {s s' : Fields} (hn : Fields.DistinctKeys s) (hp : s'.Perm s) :
    fofList s' = fofList s :=
  fsetAll_perm (by simp [Fields.SortedKeys]) hn hp

/-! ## `mergeFields`: each step reads and writes only its own key -/

/-- what one step of the `range src` loop does with the current value at its key:
    `none` = delete the key, `some v` = store `v` -/
def mergeAct (cur : Option Val) (v : Val) : R (Option Val) :=
  if v.toStr = "$delete" then
    (if cur ≠ none then .ok none else .error .uselessOverride)
  else match cur with
    | some e =>
      (match merge e v with
       | .error err => .error err
       | .ok v2 => .ok (some v2))
    | none => .ok (some v)

/-- write back the outcome of one step -/
def fput (d : Fields) (k : String) : Option Val → Fields
  | none => fdel d k
  | some v => fset d k v

theorem fget_fput_same (d : Fields) (k : String) (a : Option Val) : fget (fput d k a) k = a := by
  cases a with
  | none => exact fget_fdel_same d k
  | some v => exact fget_fset_same d k v

theorem fget_fput_ne (d : Fields) (k k' : String) (a : Option Val) (h : k' ≠ k) :
    fget (fput d k a) k' = fget d k' := by
  cases a with
  | none => exact fget_fdel_ne d k k' h
  | some v => exact fget_fset_ne d k k' v h

theorem sorted_fput {d : Fields} (k : String) (a : Option Val) (h : Fields.SortedKeys d) :
    Fields.SortedKeys (fput d k a) := by
  cases a with
  | none => exact sorted_fdel h
  | some v => exact sorted_fset h

/-- steps at distinct keys commute on the accumulated map -/
theorem fput_fput_comm {d : Fields} (hd : Fields.SortedKeys d) {k1 k2 : String}
    (a1 a2 : Option Val) (hne : k1 ≠ k2) :
    fput (fput d k1 a1) k2 a2 = fput (fput d k2 a2) k1 a1 := by
  cases a1 <;> cases a2
  · exact fdel_fdel_comm d k1 k2
  · exact (fset_fdel_comm hd _ (Ne.symm hne))
  · exact (fset_fdel_comm hd _ hne).symm
  · exact (fset_fset_comm hd _ _ hne)

theorem mergeFields_cons' (d : Fields) (k : String) (v : Val) (rest : Fields) :
    mergeFields d ((k, v) :: rest) =
      match mergeAct (fget d k) v with
      | .error e => .error e
      | .ok a => mergeFields (fput d k a) rest := by
  rw [mergeFields_cons]
  unfold mergeAct
  by_cases hv : v.toStr = "$delete"
  · simp only [if_pos hv]
    by_cases hc : fget d k = none
    · simp [hc]
    · simp [hc, fput]
  · simp only [if_neg hv]
    cases fget d k with
    | none => rfl
    | some e =>
      simp only []
      cases hm : merge e v <;> simp [fput]

/-- The loop succeeds iff every step, *looking at the original `d`*, succeeds. -/
theorem mergeFields_ok_iff {d s : Fields} (hn : Fields.DistinctKeys s) :
    (∃ r, mergeFields d s = .ok r) ↔ ∀ p ∈ s, ∃ a, mergeAct (fget d p.1) p.2 = .ok a := by
  induction s generalizing d with
  | nil => simp [mergeFields_nil]
  | cons hd tl ih =>
    obtain ⟨k, v⟩ := hd
    rw [distinctKeys_cons] at hn
    rw [mergeFields_cons']
    simp only [List.mem_cons, forall_eq_or_imp]
    cases hact : mergeAct (fget d k) v with
    | error e => simp
    | ok a =>
      simp only [Except.ok.injEq, exists_eq', true_and]
      rw [ih hn.2]
      constructor
      · intro h p hp
        have := h p hp
        rwa [fget_fput_ne _ _ _ _ (hn.1 p hp)] at this
      · intro h p hp
        rw [fget_fput_ne _ _ _ _ (hn.1 p hp)]
        exact h p hp

/-- In a successful run, the value at a patched key is the outcome of that key's own step
    on the original `d`. -/
theorem mergeFields_fget_of_mem {d s r : Fields} (hn : Fields.DistinctKeys s)
    (h : mergeFields d s = .ok r) {k : String} {v : Val} (hm : (k, v) ∈ s) :
    mergeAct (fget d k) v = .ok (fget r k) := by
  induction s generalizing d with
  | nil => cases hm
  | cons hd tl ih =>
    obtain ⟨k0, v0⟩ := hd
    rw [distinctKeys_cons] at hn
    rw [mergeFields_cons'] at h
    cases hact : mergeAct (fget d k0) v0 with
    | error e => rw [hact] at h; cases h
    | ok a =>
      rw [hact] at h
      simp only [] at h
      rcases List.mem_cons.1 hm with hm | hm
      · cases hm
        have hfr : fget tl k = none := fget_none_iff.2 hn.1
        rw [mergeFields_frame hfr h, fget_fput_same, hact]
      · have hne : k ≠ k0 := hn.1 _ hm
        have := ih hn.2 h hm
        rwa [fget_fput_ne _ _ _ _ hne] at this

theorem mergeFields_fget_of_not_mem {d s r : Fields} (h : mergeFields d s = .ok r) {k : String}
    (hk : ∀ p ∈ s, p.1 ≠ k) : fget r k = fget d k :=
  mergeFields_frame (fget_none_iff.2 hk) h

/-- Same patch entries in two orders, both runs succeed: the results are the same map. -/
theorem mergeFields_perm_eq {d s s' r r' : Fields} (hd : Fields.SortedKeys d)
    (hn : Fields.DistinctKeys s) (hp : s'.Perm s)
    (h' : mergeFields d s' = .ok r') (h : mergeFields d s = .ok r) : r' = r := by
  apply sorted_ext (mergeFields_sorted hd h') (mergeFields_sorted hd h)
  intro k
  by_cases hk : ∃ v, (k, v) ∈ s
  · obtain ⟨v, hv⟩ := hk
    have h1 := mergeFields_fget_of_mem hn h hv
    have h2 := mergeFields_fget_of_mem (distinctKeys_perm hp hn) h' (hp.mem_iff.2 hv)
    rw [h1] at h2
    exact (Except.ok.inj h2).symm
  · have h1 : ∀ p ∈ s, p.1 ≠ k := by
      intro p hp' e
      exact hk ⟨p.2, by rw [← e]; exact hp'⟩
    have h2 : ∀ p ∈ s', p.1 ≠ k := fun p hp' => h1 p (hp.mem_iff.1 hp')
    rw [mergeFields_fget_of_not_mem h h1, mergeFields_fget_of_not_mem h' h2]

/-! ## `matchFields` -/

theorem matchFields_eq_all (okvs : Fields) (skip : Bool) (s : Fields) :
    matchFields okvs skip s =
      s.all (fun p => if skip && p.1 == "$invert" then true
                      else matchV ((fget okvs p.1).getD .null) p.2) := by
  induction s with
  | nil => simp [matchFields]
  | cons hd tl ih =>
    obtain ⟨k, v⟩ := hd
    rw [matchFields, ih, List.all_cons]

/-! ## `validateFields` -/

theorem validateFields_ok_iff (s : Fields) :
    validateFields s = .ok () ↔
      ∀ p ∈ s, validateString p.1 = .ok () ∧ validate p.2 = .ok () := by
  induction s with
  | nil => simp [validateFields]; rfl
  | cons hd tl ih =>
    obtain ⟨k, v⟩ := hd
    simp only [List.mem_cons, forall_eq_or_imp]
    rw [← ih, validateFields]
    cases h1 : validateString k with
    | error e => simp; intro h; cases h
    | ok u =>
      cases h2 : validate v with
      | error e => simp; intro h; cases h
      | ok u2 =>
        cases u; cases u2
        simp only [true_and]
        rfl

/-! ## `finalizeFields` -/

theorem finalizeFields_eq_map (s : Fields) :
    finalizeFields s = s.map (fun p => (finalizeString p.1, finalize p.2)) := by
  induction s with
  | nil => simp [finalizeFields]
  | cons hd tl ih =>
    obtain ⟨k, v⟩ := hd
    rw [finalizeFields, ih, List.map_cons]

/-! ## tools -/

def requiredEntry (p : String × Val) : Option (String × Val) :=
  (required p.2).map (fun v' => (p.1, v'))

theorem requiredFields_eq_filterMap (s : Fields) :
    requiredFields s = s.filterMap requiredEntry := by
  induction s with
  | nil => simp [requiredFields]
  | cons hd tl ih =>
    obtain ⟨k, v⟩ := hd
    rw [requiredFields, List.filterMap_cons, ← ih]
    unfold requiredEntry
    cases required v <;> rfl

theorem requiredEntry_key (p q : String × Val) (h : requiredEntry p = some q) : q.1 = p.1 := by
  unfold requiredEntry at h
  cases hr : required p.2 with
  | none => rw [hr] at h; cases h
  | some v' => rw [hr] at h; cases h; rfl

def intersectEntry (bm : Fields) (p : String × Val) : Option (String × Val) :=
  match fget bm p.1 with
  | none => none
  | some v2 =>
    if p.2.isNull && v2.isNull then some (p.1, .null)
    else if (intersect p.2 v2).isNull then none else some (p.1, intersect p.2 v2)

theorem intersectFields_eq_filterMap (s bm : Fields) :
    intersectFields s bm = s.filterMap (intersectEntry bm) := by
  induction s with
  | nil => simp [intersectFields]
  | cons hd tl ih =>
    obtain ⟨k, v⟩ := hd
    rw [intersectFields, List.filterMap_cons, ← ih]
    unfold intersectEntry
    cases fget bm k with
    | none => rfl
    | some v2 =>
      simp only []
      split
      · rfl
      · split <;> rfl

theorem intersectEntry_key (bm : Fields) (p q : String × Val) (h : intersectEntry bm p = some q) :
    q.1 = p.1 := by
  unfold intersectEntry at h
  split at h
  · cases h
  · split at h
    · cases h; rfl
    · split at h
      · cases h
      · cases h; rfl

/-- the entry that the `range dst` loop of diffMapMap emits for one key (if any) -/
def diffEntry (sm : Fields) (p : String × Val) : Option (String × Val) :=
  match fget sm p.1 with
  | none => some (p.1, p.2)
  | some v2 =>
    match diff p.2 v2 with
    | .patch q => if q.isNull then none else some (p.1, q)
    | _ => none

/-- this key asks for its parent to be replaced -/
def diffRP (sm : Fields) (p : String × Val) : Bool :=
  match fget sm p.1 with
  | none => false
  | some v2 =>
    match diff p.2 v2 with
    | .replaceParent => true
    | _ => false

theorem diffEntry_key (sm : Fields) (p q : String × Val) (h : diffEntry sm p = some q) :
    q.1 = p.1 := by
  unfold diffEntry at h
  split at h
  · cases h; rfl
  · split at h
    · split at h
      · cases h
      · cases h; rfl
    · cases h

theorem diffFields_cons (k : String) (v : Val) (rest sm : Fields) :
    diffFields ((k, v) :: rest) sm =
      match fget sm k with
      | none => (fset (diffFields rest sm).1 k v, (diffFields rest sm).2)
      | some v2 =>
        match diff v v2 with
        | .same => ((diffFields rest sm).1, (diffFields rest sm).2)
        | .patch p =>
          if p.isNull = true then ((diffFields rest sm).1, (diffFields rest sm).2)
          else (fset (diffFields rest sm).1 k p, (diffFields rest sm).2)
        | .replaceParent => ((diffFields rest sm).1, true) := by
  rw [diffFields]
  cases fget sm k with
  | none => rfl
  | some v2 =>
    simp only []
    cases diff v v2 with
    | same => rfl
    | patch p => simp only []
    | replaceParent => rfl

theorem fofList_snoc (l : Fields) (p : String × Val) :
    fofList (l ++ [p]) = fset (fofList l) p.1 p.2 := by
  simp [fofList, fsetAll, List.foldl_append]

/-- the emitted entries are exactly the per-key entries, stored into a fresh map -/
theorem diffFields_fst (s sm : Fields) :
    (diffFields s sm).1 = fofList (s.filterMap (diffEntry sm)).reverse := by
  induction s with
  | nil => simp [diffFields, fofList, fsetAll]
  | cons hd tl ih =>
    obtain ⟨k, v⟩ := hd
    rw [diffFields_cons, List.filterMap_cons]
    cases hg : fget sm k with
    | none =>
      have he : diffEntry sm (k, v) = some (k, v) := by simp [diffEntry, hg]
      simp only [he, List.reverse_cons, fofList_snoc, ih]
    | some v2 =>
      simp only []
      cases hdf : diff v v2 with
      | same =>
        have he : diffEntry sm (k, v) = none := by simp [diffEntry, hg, hdf]
        simp only [he, ih]
      | patch p =>
        cases hp : p.isNull with
        | true =>
          have he : diffEntry sm (k, v) = none := by simp [diffEntry, hg, hdf, hp]
          simp only [he, ih, hp, if_true]
        | false =>
          have he : diffEntry sm (k, v) = some (k, p) := by simp [diffEntry, hg, hdf, hp]
          simp only [he, List.reverse_cons, fofList_snoc, ih, hp, Bool.false_eq_true, if_false]
      | replaceParent =>
        have he : diffEntry sm (k, v) = none := by simp [diffEntry, hg, hdf]
        simp only [he, ih]

theorem diffFields_snd (s sm : Fields) : (diffFields s sm).2 = s.any (diffRP sm) := by
  induction s with
  | nil => simp [diffFields]
  | cons hd tl ih =>
    obtain ⟨k, v⟩ := hd
    rw [diffFields_cons, List.any_cons]
    cases hg : fget sm k with
    | none =>
      have he : diffRP sm (k, v) = false := by simp [diffRP, hg]
      simp [he, ih]
    | some v2 =>
      simp only []
      cases hdf : diff v v2 with
      | same =>
        have he : diffRP sm (k, v) = false := by simp [diffRP, hg, hdf]
        simp [he, ih]
      | patch p =>
        have he : diffRP sm (k, v) = false := by simp [diffRP, hg, hdf]
        cases hp : p.isNull <;> simp [he, ih, hp]
      | replaceParent =>
        have he : diffRP sm (k, v) = true := by simp [diffRP, hg, hdf]
        simp [he]

theorem sorted_diffFields (s sm : Fields) : Fields.SortedKeys (diffFields s sm).1 := by
  rw [diffFields_fst]; exact sorted_fofList _

/-! ## `allParents` -/

theorem mem_allParents_congr (known : List (String × List String)) (fuel : Nat)
    {direct direct' : List String} (h : ∀ x, x ∈ direct' ↔ x ∈ direct) :
    ∀ x, x ∈ allParents known fuel direct' ↔ x ∈ allParents known fuel direct := by
  intro x
  cases fuel with
  | zero => simp only [allParents]; exact h x
  | succ n =>
    simp only [allParents, List.mem_append, List.mem_flatMap, h]

/-! ### the shared non-vacuity witnesses: a 3-entry map and a genuinely different order -/

/-- entries in key order -/
def C09_s : Fields := [("a", .int 1), ("b", .int 2), ("c", .int 3)]
/-- the same entries, visited in the order c, a, b -/
def C09_s' : Fields := [("c", .int 3), ("a", .int 1), ("b", .int 2)]

theorem C09_s'_perm : C09_s'.Perm C09_s :=
  (List.perm_append_comm :
    (([("c", .int 3)] : Fields) ++ ([("a", .int 1), ("b", .int 2)] : Fields)).Perm _)
theorem C09_s'_ne : C09_s' ≠ C09_s := by decide
theorem C09_s_sorted : Fields.SortedKeys C09_s := by decide
theorem C09_s_distinct : Fields.DistinctKeys C09_s := distinctKeys_of_sorted C09_s_sorted

end Bkl
