/-
  BklProofs.Lemmas.C08Cycles — helper definitions and lemmas for the second round of C08
  (reference cycles of arbitrary length):

  * `cy_Fwd` — the syntactic forwarding forms (`$merge:k`, `$replace:k`, `{$replace: k}` map,
    `[…, {$replace: k}, …]` list) and closed systems of them over a key set `S`
    (`cy_FwdClosed`), also embedded in a larger document;
  * `cy_chain` / `cy_mergeCycle` — the map form of a `$merge` n-cycle
    `k₀: {$merge: k₁, …c k₀}, …, kₙ₋₁: {$merge: k₀, …c kₙ₋₁}` and its evaluation, with
    int-valued contents (error) and without contents (the value `{kᵢ: {}}`);
  * nested `$repeat` entries with a count ≤ 0 vanish (`cy_process2_list_drop`,
    `cy_process2_map_drop`).

  All names are prefixed `cy_`.
-/
import BklProofs.Lemmas.Cycles
import BklProofs.C12
import BklProofs.C14
set_option linter.unusedVariables false
namespace Bkl

/-! ## the list form `[…, {$replace: k}, …]` forwards like the map form -/

theorem cy_notMerge_replace_entry (ref : Val) :
    notMergeEntry (.map [("$replace", ref)]) = true := by
  simp [notMergeEntry]

theorem cy_nextRef_list_replace (root : Val) {pre post : List Val} (k : String)
    (h : ∀ x ∈ pre ++ post, listDirective x = false) :
    NextRef root (.list (pre ++ [.map [("$replace", .str k)]] ++ post)) k := by
  intro fuel docs loc
  have hnm : ∀ x ∈ pre ++ [Val.map [("$replace", .str k)]] ++ post, notMergeEntry x = true := by
    intro x hx
    simp only [List.mem_append, List.mem_cons, List.not_mem_nil, or_false] at hx
    rcases hx with (hx | rfl) | hx
    · exact notMergeEntry_of_not_directive (h x (List.mem_append_left _ hx))
    · exact cy_notMerge_replace_entry _
    · exact notMergeEntry_of_not_directive (h x (List.mem_append_right _ hx))
  have hnr : ∀ x ∈ pre ++ post, notReplaceEntry x = true :=
    fun x hx => notReplaceEntry_of_not_directive (h x hx)
  rw [process1_list, listMerges_of_notMerge hnm, foldlM_nil, R_bind_ok]
  unfold listFinish
  rw [listObj0_fst, List.filter_eq_self.2 hnm, popListMapValue_one_replace _ hnr, R_bind_ok]
  simp only [Val.isNull, Bool.not_false, if_true]

/-! ## syntactic forwarding forms -/

/-- `cy_Fwd v k`: the value `v` is one of the forwarding forms and refers to `k` -/
inductive cy_Fwd : Val → String → Prop
  | strMerge (k : String) : cy_Fwd (.str ("$merge:" ++ k)) k
  | strReplace (k : String) : cy_Fwd (.str ("$replace:" ++ k)) k
  | mapReplace (m : Fields) (k : String) (h0 : fget m "$merge" = none)
      (h : fget m "$replace" = some (.str k)) : cy_Fwd (.map m) k
  | listReplace (pre post : List Val) (k : String)
      (h : ∀ x ∈ pre ++ post, listDirective x = false) :
      cy_Fwd (.list (pre ++ [.map [("$replace", .str k)]] ++ post)) k

theorem cy_fwd_nextRef (root : Val) {v : Val} {k : String} (h : cy_Fwd v k) : NextRef root v k := by
  cases h with
  | strMerge => exact nextRef_str_merge root k
  | strReplace => exact nextRef_str_replace root k
  | mapReplace m _ h0 h => exact nextRef_map_replace root h0 h
  | listReplace pre post _ h => exact cy_nextRef_list_replace root k h

/-- the single-key map `{$replace: k}` -/
theorem cy_fwd_map1 (k : String) : cy_Fwd (.map [("$replace", .str k)]) k :=
  .mapReplace _ k (by simp [fget]) (by simp [fget])

/-- the one-entry list `[{$replace: k}]` -/
theorem cy_fwd_list1 (k : String) : cy_Fwd (.list [.map [("$replace", .str k)]]) k :=
  .listReplace [] [] k (by intro x hx; cases hx)

/-- every key of `S` holds a forwarding form that refers to a (simple) key of `S` again -/
def cy_FwdClosed (kvs : Fields) (S : String → Prop) : Prop :=
  ∀ k, S k → ∃ v k', fget kvs k = some v ∧ cy_Fwd v k' ∧ SimpleKey k' ∧ S k'

/-- each member of a closed system is `circularRef`, wherever and with whatever fuel it is
    evaluated (the rest of the document is arbitrary) -/
theorem cy_fwdClosed_entry_error {kvs : Fields} {S : String → Prop} (H : cy_FwdClosed kvs S) :
    ∀ (fuel : Nat) (docs : List Val) (loc : Loc) (k : String) (v : Val), S k →
      fget kvs k = some v → process1 fuel docs (.map kvs) loc v = .error .circularRef := by
  intro fuel
  induction fuel with
  | zero => intro docs loc k v _ _; exact process1_zero _ _ _ _
  | succ n ih =>
    intro docs loc k v hk hv
    obtain ⟨v', k', hv', hf, hs, hS⟩ := H k hk
    rw [hv] at hv'; cases hv'
    obtain ⟨v'', _, hv'', _⟩ := H k' hS
    rw [cy_fwd_nextRef _ hf n docs loc, get_simpleKey hs docs hv'', R_bind_ok]
    exact ih docs none k' v'' hS hv''

/-- the whole document, when every key belongs to the closed system -/
theorem cy_fwdClosed_doc_error {kvs : Fields} {S : String → Prop} (H : cy_FwdClosed kvs S)
    (hall : ∀ p ∈ kvs, S p.1) (hne : kvs ≠ [])
    (h0 : fget kvs "$merge" = none) (h1 : fget kvs "$replace" = none)
    (fuel : Nat) (docs : List Val) (loc : Loc) :
    process1 fuel docs (.map kvs) loc (.map kvs) = .error .circularRef := by
  cases fuel with
  | zero => exact process1_zero _ _ _ _
  | succ n =>
    rw [process1_map_plain h0 h1]
    cases kvs with
    | nil => exact absurd rfl hne
    | cons p rest =>
      obtain ⟨k, v⟩ := p
      rw [foldlM_cons]
      have := cy_fwdClosed_entry_error H n docs (childLoc loc k) k v
        (hall (k, v) List.mem_cons_self) (by simp [fget])
      simp only [mapStep, this]
      rfl

/-! ### a closed system embedded in a larger document -/

theorem cy_fget_append_of_not_mem {pre l : Fields} {k : String} (h : ∀ p ∈ pre, p.1 ≠ k) :
    fget (pre ++ l) k = fget l k := by
  induction pre with
  | nil => rfl
  | cons a tl ih =>
    obtain ⟨k', v'⟩ := a
    have h1 : k' ≠ k := h (k', v') List.mem_cons_self
    simp only [List.cons_append, fget, if_neg h1]
    exact ih (fun p hp => h p (List.mem_cons_of_mem _ hp))

theorem cy_disjoint_keys {k k' : String} (h : k ≠ k') :
    Disjoint [PathElem.key k] [PathElem.key k'] := by
  constructor
  · intro hp
    have := (List.cons_prefix_cons.1 hp).1
    cases this; exact h rfl
  · intro hp
    have := (List.cons_prefix_cons.1 hp).1
    cases this; exact h rfl

theorem cy_getLoc_key (rk : Fields) (k : String) : getLoc (.map rk) [.key k] = fget rk k := by
  simp only [getLoc]
  cases fget rk k <;> rfl

/-- the fold of the plain-map case meets a member of the closed system: error -/
theorem cy_fold_embedded {kvs : Fields} {S : String → Prop} (H : cy_FwdClosed kvs S)
    (k0 : String) (hk0 : S k0) (n : Nat) (docs : List Val) :
    ∀ (l pre : Fields), kvs = pre ++ l → (∀ p ∈ pre, ¬ S p.1) → (∃ p ∈ l, S p.1) →
      ∀ (acc : Fields) (rt : Val), (∀ k, S k → getLoc rt [.key k] = fget kvs k) →
        ∃ e, l.foldlM (mapStep n docs (some [])) (acc, rt) = .error e := by
  intro l
  induction l with
  | nil => intro pre _ _ hex; obtain ⟨p, hp, _⟩ := hex; cases hp
  | cons a tl ih =>
    intro pre hkvs hpre hex acc rt hrt
    obtain ⟨k, v⟩ := a
    -- the root is a map that agrees with `kvs` on `S`
    obtain ⟨v0, _, hv0, _⟩ := H k0 hk0
    have hmap : ∃ rk, rt = .map rk := by
      have h := hrt k0 hk0
      rw [hv0] at h
      cases rt with
      | map rk => exact ⟨rk, rfl⟩
      | _ => simp [getLoc] at h
    obtain ⟨rk, rfl⟩ := hmap
    have hag : ∀ k, S k → fget rk k = fget kvs k := by
      intro k hk; rw [← cy_getLoc_key]; exact hrt k hk
    rw [foldlM_cons]
    by_cases hk : S k
    · have hv : fget kvs k = some v := by
        rw [hkvs, cy_fget_append_of_not_mem (fun p hp e => hpre p hp (e ▸ hk))]
        simp [fget]
      have H' : cy_FwdClosed rk S := by
        intro k1 hk1
        obtain ⟨v1, k2, hv1, hf, hs, hS⟩ := H k1 hk1
        exact ⟨v1, k2, by rw [hag k1 hk1]; exact hv1, hf, hs, hS⟩
      have := cy_fwdClosed_entry_error H' n docs (childLoc (some []) k) k v hk
        (by rw [hag k hk]; exact hv)
      refine ⟨.circularRef, ?_⟩
      simp only [mapStep, this]
      rfl
    · cases hstep : mapStep n docs (some []) (acc, .map rk) (k, v) with
      | error e => exact ⟨e, rfl⟩
      | ok st =>
        obtain ⟨acc', rt'⟩ := st
        simp only []
        refine ih (pre ++ [(k, v)]) (by rw [hkvs]; simp) ?_ ?_ acc' rt' ?_
        · intro p hp
          rcases List.mem_append.1 hp with hp | hp
          · exact hpre p hp
          · simp only [List.mem_cons, List.not_mem_nil, or_false] at hp
            subst hp; exact hk
        · obtain ⟨p, hp, hps⟩ := hex
          rcases List.mem_cons.1 hp with rfl | hp
          · exact absurd hps hk
          · exact ⟨p, hp, hps⟩
        · -- frame: only the subtree below `k` may have changed
          intro k1 hk1
          have hne : k ≠ k1 := fun e => hk (e ▸ hk1)
          simp only [mapStep] at hstep
          obtain ⟨⟨v2, rt1⟩, h1, h2⟩ := R_bind_eq_ok.1 hstep
          have f1 : FrameOK (some [.key k]) (.map rk) rt1 := process1_frame n _ _ _ _ _ _ h1
          have hrt1 : getLoc rt1 [.key k1] = fget kvs k1 := by
            rw [f1 _ (cy_disjoint_keys hne)]; exact hrt k1 hk1
          simp only [] at h2
          split at h2
          · cases h2; exact hrt1
          · obtain ⟨⟨k2, rt2⟩, h3, h4⟩ := R_bind_eq_ok.1 h2
            have f2 : rt2 = rt1 := process1_frame n _ _ _ _ _ _ h3
            simp only [] at h4
            split at h4
            · cases h4; rw [f2]; exact hrt1
            · cases h4

/-- A document that contains a closed system of forwarding references among its top-level keys
    (whatever the other keys hold) is an error, for every fuel. -/
theorem cy_fwdClosed_embedded_error {kvs : Fields} {S : String → Prop} (H : cy_FwdClosed kvs S)
    (k0 : String) (hk0 : S k0)
    (h0 : fget kvs "$merge" = none) (h1 : fget kvs "$replace" = none)
    (fuel : Nat) (docs : List Val) :
    ∃ e, process1 fuel docs (.map kvs) (some []) (.map kvs) = .error e := by
  cases fuel with
  | zero => exact ⟨_, process1_zero _ _ _ _⟩
  | succ n =>
    rw [process1_map_plain h0 h1]
    obtain ⟨v0, _, hv0, _⟩ := H k0 hk0
    obtain ⟨e, he⟩ := cy_fold_embedded H k0 hk0 n docs kvs [] rfl (fun p hp => by cases hp)
      ⟨(k0, v0), fget_mem hv0, hk0⟩ [] (.map kvs) (fun k _ => cy_getLoc_key kvs k)
    exact ⟨e, by rw [he]; rfl⟩

/-! ### the explicit n-cycle with an arbitrary mixture of forms -/

theorem cy_cycleFields_fwdClosed (f : String → Val) (ks : List String)
    (hk : ∀ k ∈ ks, SimpleKey k) (hf : ∀ k ∈ ks, cy_Fwd (f k) k) :
    cy_FwdClosed (cycleFields f ks) (· ∈ ks) := by
  intro k hks
  obtain ⟨v, hv⟩ := cycleFields_fget_some f ks hks
  have hm := fget_mem hv
  simp only [cycleFields, List.mem_map] at hm
  obtain ⟨q, hq, he⟩ := hm
  have hq2 : q.2 ∈ ks := mem_rot1.1 (List.of_mem_zip hq).2
  cases he
  exact ⟨_, q.2, hv, hf _ hq2, hk _ hq2, hq2⟩

theorem cy_cycleFields_keys (f : String → Val) (ks : List String) :
    ∀ p ∈ cycleFields f ks, p.1 ∈ ks := by
  intro p hp
  simp only [cycleFields, List.mem_map] at hp
  obtain ⟨q, hq, rfl⟩ := hp
  exact (List.of_mem_zip hq).1

/-! ## the map form of a `$merge` n-cycle -/

/-- the host `{$merge: k', …c}` -/
def cy_host (c : Fields) (k' : String) : Val := .map (("$merge", .str k') :: c)

/-- `k₀: {$merge: k₁, …c k₀}, k₁: {$merge: k₂, …c k₁}, …, kₘ: {$merge: last, …c kₘ}` -/
def cy_chain (c : String → Fields) : List String → String → Fields
  | [], _ => []
  | k :: tl, last => (k, cy_host (c k) (tl.headD last)) :: cy_chain c tl last

/-- the n-cycle: the chain whose last host refers to the first key -/
def cy_mergeCycle (c : String → Fields) : List String → Fields
  | [] => []
  | k :: tl => cy_chain c (k :: tl) k

/-- the root still holds the original hosts of the keys `r` (chained, ending in `last`) -/
def cy_Hosts (c : String → Fields) (rk : Fields) : List String → String → Prop
  | [], _ => True
  | k :: tl, last => fget rk k = some (cy_host (c k) (tl.headD last)) ∧ cy_Hosts c rk tl last

theorem cy_chain_keys (c : String → Fields) : ∀ (r : List String) (last : String),
    (cy_chain c r last).map (·.1) = r
  | [], _ => rfl
  | k :: tl, last => by simp [cy_chain, cy_chain_keys c tl last]

theorem cy_chain_fget_none (c : String → Fields) {r : List String} {last k : String}
    (h : k ∉ r) : fget (cy_chain c r last) k = none := by
  refine fget_none_iff.2 fun p hp e => h ?_
  rw [← cy_chain_keys c r last, ← e]
  exact List.mem_map_of_mem hp

/-- the chain written with `zip`, as `cycleFields` is -/
theorem cy_chain_eq_zip (c : String → Fields) : ∀ (r : List String) (last : String),
    cy_chain c r last = (r.zip (r.tail ++ [last])).map fun p => (p.1, cy_host (c p.1) p.2)
  | [], _ => rfl
  | [k], last => rfl
  | k :: k' :: tl, last => by
    have := cy_chain_eq_zip c (k' :: tl) last
    simp only [cy_chain, List.headD_cons, List.tail_cons, List.cons_append, List.zip_cons_cons,
      List.map_cons] at this ⊢
    rw [this]

theorem cy_mergeCycle_eq_zip (c : String → Fields) (ks : List String) :
    cy_mergeCycle c ks = (ks.zip (rot1 ks)).map fun p => (p.1, cy_host (c p.1) p.2) := by
  cases ks with
  | nil => rfl
  | cons k tl => exact cy_chain_eq_zip c (k :: tl) k

/-- without contents the cycle is the `cycleFields` of `Cycles.lean` -/
theorem cy_mergeCycle_empty_eq (ks : List String) :
    cy_mergeCycle (fun _ => []) ks = cycleFields (fun k => .map [("$merge", .str k)]) ks := by
  rw [cy_mergeCycle_eq_zip]; rfl

theorem cy_hosts_fset {c : String → Fields} {rk : Fields} {h : String} {v : Val} :
    ∀ {r : List String} {last : String}, h ∉ r → cy_Hosts c rk r last →
      cy_Hosts c (fset rk h v) r last
  | [], _, _, _ => trivial
  | k :: tl, last, hn, hh => by
    refine ⟨?_, cy_hosts_fset (fun hm => hn (List.mem_cons_of_mem _ hm)) hh.2⟩
    rw [fget_fset_ne _ _ _ _ (fun e => hn (by rw [← e]; exact List.mem_cons_self))]
    exact hh.1

theorem cy_hosts_chain (c : String → Fields) (last : String) :
    ∀ (r : List String) (pre : Fields), r.Nodup → (∀ p ∈ pre, p.1 ∉ r) →
      cy_Hosts c (pre ++ cy_chain c r last) r last := by
  intro r
  induction r with
  | nil => intro _ _ _; trivial
  | cons k tl ih =>
    intro pre hnd hpre
    have hnd' := List.nodup_cons.1 hnd
    refine ⟨?_, ?_⟩
    · rw [cy_fget_append_of_not_mem (fun p hp e => hpre p hp (by rw [e]; exact List.mem_cons_self))]
      simp [cy_chain, fget]
    · have := ih (pre ++ [(k, cy_host (c k) (tl.headD last))]) hnd'.2 (by
        intro p hp
        rcases List.mem_append.1 hp with hp | hp
        · exact fun hm => hpre p hp (List.mem_cons_of_mem _ hm)
        · simp only [List.mem_cons, List.not_mem_nil, or_false] at hp
          subst hp; exact hnd'.1)
      simpa [cy_chain, List.append_assoc] using this

theorem cy_fget_head (k : String) (v : Val) (rest : Fields) : fget ((k, v) :: rest) k = some v := by
  simp [fget]

theorem cy_setPath_key {rk : Fields} {h : String} {x : Val} (v : Val) (hx : fget rk h = some x) :
    setPath (.map rk) [.key h] v = .map (fset rk h v) := by
  simp [setPath, hx]

/-- one `$merge` step of the host at the top-level key `h`, the root written with `fset` -/
theorem cy_host_step {fuel : Nat} {docs : List Val} {rk H s next : Fields} {h k : String}
    {x : Val} (hk : SimpleKey k) (hx : fget rk h = some x)
    (hm : fget H "$merge" = some (.str k))
    (hg : fget (fset rk h (.map (fdel H "$merge"))) k = some (.map s))
    (hr : fhasBool s "$replace" true = false)
    (hn : mergeFields (fdel H "$merge") s = .ok next) :
    process1 (fuel + 1) docs (.map rk) (some [.key h]) (.map H) =
      process1 fuel docs (.map (fset rk h (.map next))) (some [.key h]) (.map next) := by
  refine host_step (rkvs1 := fset rk h (.map (fdel H "$merge"))) (rkvs2 := fset rk h (.map next))
    hk hm rfl (cy_setPath_key _ hx) hg hr hn ?_
  rw [cy_setPath_key _ (fget_fset_same _ _ _), fset_fset_same]

theorem cy_host_step_error {fuel : Nat} {docs : List Val} {rk H s : Fields} {h k : String}
    {x : Val} {e : Err} (hk : SimpleKey k) (hx : fget rk h = some x)
    (hm : fget H "$merge" = some (.str k))
    (hg : fget (fset rk h (.map (fdel H "$merge"))) k = some (.map s))
    (hr : fhasBool s "$replace" true = false)
    (hn : mergeFields (fdel H "$merge") s = .error e) :
    process1 (fuel + 1) docs (.map rk) (some [.key h]) (.map H) = .error e :=
  process1_merge_step_error hm
    (show setLoc (.map rk) (some [.key h]) (.map (fdel H "$merge")) = _ from cy_setPath_key _ hx)
    (get_simpleKey hk docs hg) hr hn

/-! ### hosts without contents: every host ends as `{}` -/

theorem cy_fdel_single (v : Val) : fdel [("$merge", v)] "$merge" = [] := by simp [fdel]

theorem cy_fhasBool_single (v : Val) : fhasBool [("$merge", v)] "$replace" true = false := by
  have : fget [("$merge", v)] "$replace" = none := by simp [fget]
  simp [fhasBool, this]

/-- the chain of the host at `h` through the remaining keys `r` and finally `last`, which is
    `h` itself or already holds `{}`: the host ends as `{}` -/
theorem cy_empty_chain (docs : List Val) (h last : String) (hl : SimpleKey last)
    (hld : last ≠ "$delete") :
    ∀ (r : List String) (rk : Fields) (x : Val) (fuel : Nat),
      (∀ k ∈ r, SimpleKey k ∧ k ≠ "$delete") → h ∉ r → fget rk h = some x →
      cy_Hosts (fun _ => []) rk r last → (last = h ∨ fget rk last = some (.map [])) →
      process1 (fuel + r.length + 2) docs (.map rk) (some [.key h])
          (cy_host [] (r.headD last)) =
        .ok (.map [], .map (fset rk h (.map []))) := by
  intro r
  induction r with
  | nil =>
    intro rk x fuel _ _ hx _ hlast
    have hg : fget (fset rk h (.map (fdel [("$merge", Val.str last)] "$merge"))) last =
        some (.map []) := by
      rw [cy_fdel_single]
      rcases hlast with rfl | hlast
      · exact fget_fset_same _ _ _
      · by_cases e : last = h
        · subst e; exact fget_fset_same _ _ _
        · rw [fget_fset_ne _ _ _ _ e]; exact hlast
    have hstep := cy_host_step (fuel := fuel + 1) (docs := docs) (H := [("$merge", .str last)])
      (s := []) (next := []) hl hx (by simp [fget]) hg (by decide)
      (by rw [cy_fdel_single]; exact mergeFields_nil _)
    show process1 (fuel + 1 + 1) docs (.map rk) (some [.key h]) (.map [("$merge", .str last)]) = _
    rw [hstep, process1_empty_map]
  | cons k r' ih =>
    intro rk x fuel hks hnr hx hh hlast
    have hk := hks k List.mem_cons_self
    have hkh : k ≠ h := fun e => hnr (by rw [← e]; exact List.mem_cons_self)
    have hkk : SimpleKey (r'.headD last) ∧ r'.headD last ≠ "$delete" := by
      cases r' with
      | nil => exact ⟨hl, hld⟩
      | cons k2 _ => exact hks k2 (List.mem_cons_of_mem _ List.mem_cons_self)
    have hg : fget (fset rk h (.map (fdel [("$merge", Val.str k)] "$merge"))) k =
        some (.map [("$merge", .str (r'.headD last))]) := by
      rw [fget_fset_ne _ _ _ _ hkh]; exact hh.1
    have hstep := cy_host_step (fuel := fuel + r'.length + 2) (docs := docs)
      (H := [("$merge", .str k)]) (s := [("$merge", .str (r'.headD last))])
      (next := [("$merge", .str (r'.headD last))]) hk.1 hx (by simp [fget]) hg
      (cy_fhasBool_single _)
      (by rw [cy_fdel_single]; exact mergeFields_empty_single _ _ hkk.2)
    show process1 (fuel + (r'.length + 1) + 2) docs (.map rk) (some [.key h])
      (.map [("$merge", .str k)]) = _
    have e : fuel + (r'.length + 1) + 2 = fuel + r'.length + 2 + 1 := by omega
    rw [e, hstep]
    have := ih (fset rk h (.map [("$merge", .str (r'.headD last))])) _ fuel
      (fun k2 hk2 => hks k2 (List.mem_cons_of_mem _ hk2))
      (fun hm => hnr (List.mem_cons_of_mem _ hm)) (fget_fset_same _ _ _)
      (cy_hosts_fset (fun hm => hnr (List.mem_cons_of_mem _ hm)) hh.2)
      (by
        rcases hlast with e | hlast
        · exact Or.inl e
        · by_cases e : last = h
          · exact Or.inl e
          · right; rw [fget_fset_ne _ _ _ _ e]; exact hlast)
    rw [fset_fset_same] at this
    exact this

/-- `l` with every key of `r` set to `{}` -/
def cy_emptied (l : Fields) (r : List String) : Fields :=
  r.foldl (fun a k => fset a k (.map [])) l

theorem cy_empty_fold (docs : List Val) (k0 : String) (hk0 : SimpleKey k0)
    (hk0d : k0 ≠ "$delete") :
    ∀ (r : List String) (rk acc : Fields) (F : Nat), r.length + 1 ≤ F → r.Nodup →
      (∀ k ∈ r, SimpleKey k ∧ k ≠ "$delete" ∧ refStr k = false) →
      cy_Hosts (fun _ => []) rk r k0 → (r.head? = some k0 ∨ fget rk k0 = some (.map [])) →
      (cy_chain (fun _ => []) r k0).foldlM (mapStep F docs (some [])) (acc, .map rk) =
        .ok (cy_emptied acc r, .map (cy_emptied rk r)) := by
  intro r
  induction r with
  | nil => intro rk acc F _ _ _ _ _; rfl
  | cons h r' ih =>
    intro rk acc F hF hnd hks hh hfirst
    have hnd' := List.nodup_cons.1 hnd
    have hk := hks h List.mem_cons_self
    obtain ⟨f, rfl⟩ : ∃ f, F = f + r'.length + 2 := ⟨F - r'.length - 2, by simp at hF; omega⟩
    have hproc := cy_empty_chain docs h k0 hk0 hk0d r' rk _ f
      (fun k hk => ⟨(hks k (List.mem_cons_of_mem _ hk)).1, (hks k (List.mem_cons_of_mem _ hk)).2.1⟩)
      hnd'.1 hh.1 hh.2
      (by
        rcases hfirst with e | e
        · left; simpa using e.symm
        · exact Or.inr e)
    have hpre := hk.2.2
    simp only [refStr, Bool.or_eq_false_iff] at hpre
    have hkey := process1_key_plain (k := h) hpre.1 hpre.2 (f + r'.length + 1) docs
      (.map (fset rk h (.map []))) none
    have ec : childLoc (some []) h = some [.key h] := rfl
    show List.foldlM _ _ ((h, cy_host [] (r'.headD k0)) :: cy_chain (fun _ => []) r' k0) = _
    rw [foldlM_cons]
    simp only [mapStep, ec, hproc, R_bind_ok, Val.isNull, Bool.false_eq_true, if_false, hkey,
      R_pure]
    exact ih (fset rk h (.map [])) (fset acc h (.map [])) _ (by simp at hF ⊢; omega) hnd'.2
      (fun k hk => hks k (List.mem_cons_of_mem _ hk))
      (cy_hosts_fset hnd'.1 hh.2)
      (by
        right
        rcases hfirst with e | e
        · have : h = k0 := by simpa using e
          subst this; exact fget_fset_same _ _ _
        · by_cases e2 : k0 = h
          · subst e2; exact fget_fset_same _ _ _
          · rw [fget_fset_ne _ _ _ _ e2]; exact e)

/-- The content-free n-cycle evaluates to `{kᵢ: {}}`: no error. -/
theorem cy_empty_cycle_value (docs : List Val) (k0 : String) (tl : List String)
    (hnd : (k0 :: tl).Nodup)
    (hk : ∀ k ∈ k0 :: tl, SimpleKey k ∧ k ≠ "$delete" ∧ refStr k = false)
    (hm : "$merge" ∉ k0 :: tl) (hr : "$replace" ∉ k0 :: tl) (fuel : Nat) :
    process1 (fuel + (k0 :: tl).length + 2) docs
        (.map (cy_mergeCycle (fun _ => []) (k0 :: tl))) (some [])
        (.map (cy_mergeCycle (fun _ => []) (k0 :: tl))) =
      .ok (.map (cy_emptied [] (k0 :: tl)),
           .map (cy_emptied (cy_mergeCycle (fun _ => []) (k0 :: tl)) (k0 :: tl))) := by
  have h0 := hk k0 List.mem_cons_self
  have hdoc : cy_mergeCycle (fun _ => []) (k0 :: tl) = cy_chain (fun _ => []) (k0 :: tl) k0 := rfl
  rw [hdoc]
  show process1 (fuel + (k0 :: tl).length + 1 + 1) docs _ _ _ = _
  rw [process1_map_plain (cy_chain_fget_none _ hm) (cy_chain_fget_none _ hr)]
  have := cy_empty_fold docs k0 h0.1 h0.2.1 (k0 :: tl) (cy_chain (fun _ => []) (k0 :: tl) k0) []
    (fuel + (k0 :: tl).length + 1) (by omega) hnd hk
    (by simpa using cy_hosts_chain (fun _ => []) k0 (k0 :: tl) [] hnd (fun p hp => by cases hp))
    (Or.inl rfl)
  show (List.foldlM _ _ (cy_chain (fun _ => []) (k0 :: tl) k0) >>= _) = _
  rw [this]
  rfl

/-! #### the value for sorted keys -/

theorem cy_fset_append_gt {l : Fields} {k : String} (v : Val) (h : ∀ p ∈ l, p.1 < k) :
    fset l k v = l ++ [(k, v)] := by
  induction l with
  | nil => rfl
  | cons a tl ih =>
    obtain ⟨k', v'⟩ := a
    have h1 : k' < k := h (k', v') List.mem_cons_self
    simp only [fset, if_neg (String.lt_asymm h1), if_neg (str_ne_of_gt h1), List.cons_append]
    rw [ih (fun p hp => h p (List.mem_cons_of_mem _ hp))]

theorem cy_emptied_sorted_aux : ∀ (r pre : List String), (pre ++ r).Pairwise (· < ·) →
    cy_emptied (pre.map fun k => (k, Val.map [])) r = (pre ++ r).map fun k => (k, Val.map [])
  | [], pre, _ => by simp [cy_emptied]
  | k :: r, pre, hp => by
    have h1 : ∀ p ∈ pre.map (fun k => (k, Val.map [])), p.1 < k := by
      intro p hp'
      obtain ⟨a, ha, rfl⟩ := List.mem_map.1 hp'
      exact (List.pairwise_append.1 hp).2.2 a ha k List.mem_cons_self
    have := cy_emptied_sorted_aux r (pre ++ [k]) (by simpa using hp)
    simp only [cy_emptied, List.foldl_cons] at this ⊢
    rw [cy_fset_append_gt _ h1]
    simpa using this

/-- for increasing keys the value is literally `{k₀: {}, k₁: {}, …}` -/
theorem cy_emptied_sorted (ks : List String) (h : ks.Pairwise (· < ·)) :
    cy_emptied [] ks = ks.map fun k => (k, Val.map []) :=
  cy_emptied_sorted_aux ks [] h

/-! ### hosts with int-valued contents: the self-merge that closes the chain is a useless override -/

/-- contents of a host: no `$merge` key, every value an integer -/
def cy_IntContent (s : Fields) : Prop := ∀ p ∈ s, p.1 ≠ "$merge" ∧ ∃ i, p.2 = Val.int i

/-- every value except the one under `$merge` is an integer -/
def cy_IntsExc (D : Fields) : Prop := ∀ p ∈ D, p.1 ≠ "$merge" → ∃ i, p.2 = Val.int i

theorem cy_mem_fdel_ne {m : Fields} {k : String} {p : String × Val} (h : p ∈ fdel m k) :
    p.1 ≠ k := by
  induction m with
  | nil => simp [fdel] at h
  | cons hd tl ih =>
    obtain ⟨k', v'⟩ := hd
    simp only [fdel] at h
    split at h
    · exact ih h
    · rename_i hne
      rcases List.mem_cons.1 h with h | h
      · subst h; exact hne
      · exact ih h

theorem cy_fhasBool_false {s : Fields} (k : String) (b : Bool)
    (h : ∀ p ∈ s, ∀ b', p.2 ≠ Val.bool b') : fhasBool s k b = false := by
  cases hb : fhasBool s k b with
  | false => rfl
  | true => exact absurd rfl (h _ (fget_mem (fhasBool_iff.1 hb)) b)

theorem cy_fdel_ne_nil {m : Fields} {y : String} (h : fget m y ≠ none) (hy : y ≠ "$merge") :
    fdel m "$merge" ≠ [] := by
  intro e
  have := fget_fdel_ne m "$merge" y hy
  rw [e] at this
  exact h this.symm

theorem cy_int_not_delete (i : Int) : ¬ (Val.int i).toStr = "$delete" := by
  show ¬ ("" : String) = "$delete"
  decide

theorem cy_merge_int (i j : Int) :
    merge (.int j) (.int i) = if i = j then .error .uselessOverride else .ok (.int i) := by
  rw [merge_scalar _ _ rfl]
  by_cases h : i = j
  · subst h; simp
  · have : (Val.int i == Val.int j) = false :=
      beq_eq_false_iff_ne.2 (fun e => h (Val.int.inj e))
    simp [this, h]

theorem cy_intsExc_fset {D : Fields} {k : String} {v : Val} (hD : cy_IntsExc D)
    (hv : k ≠ "$merge" → ∃ i, v = Val.int i) : cy_IntsExc (fset D k v) := by
  intro p hp hne
  rcases mem_fset hp with rfl | hp
  · exact hv hne
  · exact hD p hp hne

/-- merging int-valued contents into a map of ints: a useless override, or a map of ints that
    has every old key and every key of the contents -/
theorem cy_mergeFields_ints : ∀ (s D : Fields), cy_IntContent s → cy_IntsExc D →
    mergeFields D s = .error .uselessOverride ∨
    ∃ next, mergeFields D s = .ok next ∧ cy_IntsExc next ∧
      fget next "$merge" = fget D "$merge" ∧
      (∀ y, fget D y ≠ none → fget next y ≠ none) ∧ (∀ p ∈ s, fget next p.1 ≠ none) := by
  intro s
  induction s with
  | nil =>
    intro D _ hD
    exact Or.inr ⟨D, mergeFields_nil D, hD, rfl, fun _ h => h, fun p hp => by cases hp⟩
  | cons a rest ih =>
    intro D hs hD
    obtain ⟨k, v⟩ := a
    obtain ⟨hk, i, hv⟩ := hs (k, v) List.mem_cons_self
    have hv' : v = Val.int i := hv
    subst hv'
    have hrest : cy_IntContent rest := fun p hp => hs p (List.mem_cons_of_mem _ hp)
    -- what happens once the entry has been stored
    have cont : mergeFields (fset D k (.int i)) rest = .error .uselessOverride ∨
        ∃ next, mergeFields (fset D k (.int i)) rest = .ok next ∧ cy_IntsExc next ∧
          fget next "$merge" = fget D "$merge" ∧
          (∀ y, fget D y ≠ none → fget next y ≠ none) ∧
          (∀ p ∈ (k, Val.int i) :: rest, fget next p.1 ≠ none) := by
      rcases ih (fset D k (.int i)) hrest (cy_intsExc_fset hD (fun _ => ⟨i, rfl⟩)) with h | h
      · exact Or.inl h
      · obtain ⟨next, h1, h2, h3, h4, h5⟩ := h
        refine Or.inr ⟨next, h1, h2, ?_, ?_, ?_⟩
        · rw [h3, fget_fset_ne _ _ _ _ (Ne.symm hk)]
        · intro y hy
          apply h4
          by_cases e : y = k
          · subst e; rw [fget_fset_same]; exact fun h => by cases h
          · rw [fget_fset_ne _ _ _ _ e]; exact hy
        · intro p hp
          rcases List.mem_cons.1 hp with rfl | hp
          · apply h4; rw [fget_fset_same]; exact fun h => by cases h
          · exact h5 p hp
    rw [mergeFields_cons, if_neg (cy_int_not_delete i)]
    cases hg : fget D k with
    | none => exact cont
    | some e =>
      obtain ⟨j, hj⟩ := hD (k, e) (fget_mem hg) hk
      have hj' : e = Val.int j := hj
      subst hj'
      simp only [cy_merge_int]
      by_cases hij : i = j
      · rw [if_pos hij]; exact Or.inl rfl
      · rw [if_neg hij]; exact cont

/-- the chain of a host at `h` with int-valued contents through the remaining keys `r` and back
    to `h`: an error for every fuel; `uselessOverride` as soon as the fuel covers the chain -/
theorem cy_content_chain (docs : List Val) (c : String → Fields) (h : String)
    (hh : SimpleKey h) (hhd : h ≠ "$delete") :
    ∀ (r : List String) (rk H : Fields) (xv : Val) (fuel : Nat),
      (∀ k ∈ r, SimpleKey k ∧ k ≠ "$delete" ∧ cy_IntContent (c k)) → h ∉ r →
      fget rk h = some xv → cy_Hosts c rk r h →
      fget H "$merge" = some (.str (r.headD h)) → cy_IntsExc H →
      (fdel H "$merge" ≠ [] ∨ ∃ k ∈ r, c k ≠ []) →
      ∃ e, process1 fuel docs (.map rk) (some [.key h]) (.map H) = .error e ∧
        (e = .circularRef ∨ e = .uselessOverride) ∧
        (r.length + 1 ≤ fuel → e = .uselessOverride) := by
  intro r
  induction r with
  | nil =>
    intro rk H xv fuel _ _ hx _ hm hH hne
    cases fuel with
    | zero => exact ⟨_, process1_zero _ _ _ _, Or.inl rfl, fun h => by simp at h⟩
    | succ n =>
      refine ⟨.uselessOverride, ?_, Or.inr rfl, fun _ => rfl⟩
      have hD : ∀ p ∈ fdel H "$merge", ∃ i, p.2 = Val.int i :=
        fun p hp => hH p (mem_fdel hp) (cy_mem_fdel_ne hp)
      have hne' : fdel H "$merge" ≠ [] := by
        rcases hne with h | ⟨k, hk, _⟩
        · exact h
        · cases hk
      refine cy_host_step_error (s := fdel H "$merge") hh hx hm (fget_fset_same _ _ _)
        (cy_fhasBool_false _ _ (fun p hp b e => by
          obtain ⟨i, hi⟩ := hD p hp
          rw [hi] at e; cases e)) ?_
      cases hDl : fdel H "$merge" with
      | nil => exact absurd hDl hne'
      | cons a rest =>
        obtain ⟨k, v⟩ := a
        obtain ⟨i, hi⟩ := hD (k, v) (by rw [hDl]; exact List.mem_cons_self)
        have hi' : v = Val.int i := hi
        subst hi'
        rw [mergeFields_cons, if_neg (cy_int_not_delete i)]
        have : fget ((k, Val.int i) :: rest) k = some (.int i) := by simp [fget]
        simp only [this, cy_merge_int, if_true]
  | cons k r' ih =>
    intro rk H xv fuel hks hnr hx hhosts hm hH hne
    cases fuel with
    | zero => exact ⟨_, process1_zero _ _ _ _, Or.inl rfl, fun h => by simp at h⟩
    | succ n =>
      have hk := hks k List.mem_cons_self
      have hkh : k ≠ h := fun e => hnr (by rw [← e]; exact List.mem_cons_self)
      have hkk : SimpleKey (r'.headD h) ∧ r'.headD h ≠ "$delete" := by
        cases r' with
        | nil => exact ⟨hh, hhd⟩
        | cons k2 _ =>
          have := hks k2 (List.mem_cons_of_mem _ List.mem_cons_self)
          exact ⟨this.1, this.2.1⟩
      have hD : ∀ p ∈ fdel H "$merge", ∃ i, p.2 = Val.int i :=
        fun p hp => hH p (mem_fdel hp) (cy_mem_fdel_ne hp)
      have hg : fget (fset rk h (.map (fdel H "$merge"))) k =
          some (.map (("$merge", .str (r'.headD h)) :: c k)) := by
        rw [fget_fset_ne _ _ _ _ hkh]; exact hhosts.1
      have hrep : fhasBool (("$merge", Val.str (r'.headD h)) :: c k) "$replace" true = false :=
        cy_fhasBool_false _ _ (fun p hp b e => by
          rcases List.mem_cons.1 hp with rfl | hp
          · cases e
          · obtain ⟨_, i, hi⟩ := hk.2.2 p hp
            rw [hi] at e; cases e)
      -- the merge of the accumulated contents with the next host
      have hmf : mergeFields (fdel H "$merge") (("$merge", .str (r'.headD h)) :: c k) =
          mergeFields (fset (fdel H "$merge") "$merge" (.str (r'.headD h))) (c k) := by
        rw [mergeFields_cons, if_neg (show ¬ (Val.str (r'.headD h)).toStr = "$delete" from hkk.2),
          fget_fdel_same]
      have hD' : cy_IntsExc (fset (fdel H "$merge") "$merge" (.str (r'.headD h))) :=
        cy_intsExc_fset (fun p hp _ => hD p hp) (fun e => absurd rfl e)
      rcases cy_mergeFields_ints (c k) _ hk.2.2 hD' with herr | ⟨next, hok, hn1, hn2, hn3, hn4⟩
      · exact ⟨.uselessOverride,
          cy_host_step_error hk.1 hx hm hg hrep (by rw [hmf]; exact herr), Or.inr rfl, fun _ => rfl⟩
      · rw [cy_host_step hk.1 hx hm hg hrep (by rw [hmf]; exact hok)]
        have hnm : fget next "$merge" = some (.str (r'.headD h)) := by
          rw [hn2, fget_fset_same]
        have hne2 : fdel next "$merge" ≠ [] ∨ ∃ k' ∈ r', c k' ≠ [] := by
          rcases hne with hne | ⟨k', hk', hck'⟩
          · left
            cases hDl : fdel H "$merge" with
            | nil => exact absurd hDl hne
            | cons a rest =>
              obtain ⟨y, w⟩ := a
              have hy : y ≠ "$merge" :=
                cy_mem_fdel_ne (p := (y, w)) (by rw [hDl]; exact List.mem_cons_self)
              refine cy_fdel_ne_nil (y := y) (hn3 y ?_) hy
              rw [fget_fset_ne _ _ _ _ hy, hDl]
              simp [fget]
          · rcases List.mem_cons.1 hk' with rfl | hk'
            · left
              cases hc : c k' with
              | nil => exact absurd hc hck'
              | cons p rest =>
                have hp : p ∈ c k' := by rw [hc]; exact List.mem_cons_self
                exact cy_fdel_ne_nil (hn4 p hp) (hk.2.2 p hp).1
            · exact Or.inr ⟨k', hk', hck'⟩
        obtain ⟨e, he, he1, he2⟩ := ih (fset rk h (.map next)) next _ n
          (fun k2 hk2 => hks k2 (List.mem_cons_of_mem _ hk2))
          (fun hm' => hnr (List.mem_cons_of_mem _ hm')) (fget_fset_same _ _ _)
          (cy_hosts_fset (fun hm' => hnr (List.mem_cons_of_mem _ hm')) hhosts.2) hnm hn1 hne2
        exact ⟨e, he, he1, fun hl => he2 (by simp at hl; omega)⟩

/-- The n-cycle of `$merge` hosts with int-valued contents, at least one host non-empty: an
    error for every fuel, `uselessOverride` from fuel n + 1 on. -/
theorem cy_content_cycle_error (docs : List Val) (c : String → Fields) (k0 : String)
    (tl : List String) (hnd : (k0 :: tl).Nodup)
    (hk : ∀ k ∈ k0 :: tl, SimpleKey k ∧ k ≠ "$delete" ∧ cy_IntContent (c k))
    (hm : "$merge" ∉ k0 :: tl) (hr : "$replace" ∉ k0 :: tl)
    (hne : ∃ k ∈ k0 :: tl, c k ≠ []) (fuel : Nat) :
    ∃ e, process1 fuel docs (.map (cy_mergeCycle c (k0 :: tl))) (some [])
        (.map (cy_mergeCycle c (k0 :: tl))) = .error e ∧
      (e = .circularRef ∨ e = .uselessOverride) ∧
      ((k0 :: tl).length + 1 ≤ fuel → e = .uselessOverride) := by
  have h0 := hk k0 List.mem_cons_self
  have hnd' := List.nodup_cons.1 hnd
  have hdoc : cy_mergeCycle c (k0 :: tl) =
      (k0, cy_host (c k0) (tl.headD k0)) :: cy_chain c tl k0 := rfl
  cases fuel with
  | zero => exact ⟨_, process1_zero _ _ _ _, Or.inl rfl, fun h => by simp at h⟩
  | succ n =>
    have hm' : fget (cy_mergeCycle c (k0 :: tl)) "$merge" = none := cy_chain_fget_none _ hm
    have hr' : fget (cy_mergeCycle c (k0 :: tl)) "$replace" = none := cy_chain_fget_none _ hr
    rw [process1_map_plain hm' hr']
    have hH : cy_IntsExc (("$merge", Val.str (tl.headD k0)) :: c k0) := by
      intro p hp hpne
      rcases List.mem_cons.1 hp with rfl | hp
      · exact absurd rfl hpne
      · exact (h0.2.2 p hp).2
    have hne' : fdel (("$merge", Val.str (tl.headD k0)) :: c k0) "$merge" ≠ [] ∨
        ∃ k ∈ tl, c k ≠ [] := by
      obtain ⟨k, hkm, hck⟩ := hne
      rcases List.mem_cons.1 hkm with rfl | hkm
      · left
        cases hc : c k with
        | nil => exact absurd hc hck
        | cons p rest =>
          have hp : p ∈ c k := by rw [hc]; exact List.mem_cons_self
          have hpk := (h0.2.2 p hp).1
          refine cy_fdel_ne_nil (y := p.1) ?_ hpk
          obtain ⟨pk, pv⟩ := p
          simp [fget, Ne.symm hpk]
      · exact Or.inr ⟨k, hkm, hck⟩
    obtain ⟨e, he, he1, he2⟩ := cy_content_chain docs c k0 h0.1 h0.2.1 tl
      (cy_mergeCycle c (k0 :: tl)) (("$merge", .str (tl.headD k0)) :: c k0)
      (cy_host (c k0) (tl.headD k0)) n
      (fun k hk' => hk k (List.mem_cons_of_mem _ hk')) hnd'.1
      (by rw [hdoc]; exact cy_fget_head _ _ _)
      (by
        have := cy_hosts_chain c k0 tl [(k0, cy_host (c k0) (tl.headD k0))] hnd'.2
          (fun p hp => by
            simp only [List.mem_cons, List.not_mem_nil, or_false] at hp
            subst hp; exact hnd'.1)
        rw [hdoc]; exact this)
      (by simp [fget]) hH hne'
    refine ⟨e, ?_, he1, fun hl => he2 (by simp at hl ⊢; omega)⟩
    rw [hdoc, foldlM_cons]
    rw [hdoc] at he
    have ec : childLoc (some []) k0 = some [.key k0] := rfl
    have he' : process1 n docs (.map ((k0, cy_host (c k0) (tl.headD k0)) :: cy_chain c tl k0))
        (some [.key k0]) (cy_host (c k0) (tl.headD k0)) = .error e := he
    simp only [mapStep, ec, he']
    rfl

/-! ## nested `$repeat` with a count ≤ 0: the entry vanishes -/

theorem cy_range_nonpos {n : Int} (h : n ≤ 0) : List.range n.toNat = [] := by
  have : n.toNat = 0 := by omega
  rw [this]; rfl

/-- map value: step 1 leaves the accumulator alone -/
theorem cy_mapStep1_nonpos (fuel : Nat) (docs : List Val) (root : Val) (ec : Vars) (acc : Fields)
    (k : String) (m : Fields) (n : Int) (hr : fget m "$repeat" = some (.int n)) (hn : n ≤ 0) :
    mapStep1 fuel docs root ec acc (k, .map m) = .ok acc := by
  simp only [mapStep1, hr, repeatCopies, cy_range_nonpos hn]
  rfl

/-- an element whose fold step is the identity can be dropped -/
theorem cy_foldlM_drop {α β : Type} {f : β → α → R β} {x : α} (pre post : List α)
    (hstep : ∀ b, f b x = .ok b) (init : β) :
    (pre ++ x :: post).foldlM f init = (pre ++ post).foldlM f init := by
  rw [foldlM_append_R, foldlM_append_R]
  cases pre.foldlM f init with
  | error e => rfl
  | ok b => rw [R_bind_ok, R_bind_ok, foldlM_cons, hstep b]

/-- `k: {$repeat: n, …}` with `n ≤ 0`, anywhere in a map: as if the entry were not there -/
theorem cy_process2_map_drop (fuel : Nat) (docs : List Val) (root : Val) (ec : Vars)
    (pre post : Fields) (k : String) (m : Fields) (n : Int)
    (hr : fget m "$repeat" = some (.int n)) (hn : n ≤ 0) :
    process2 (fuel + 1) docs root ec (.map (pre ++ (k, .map m) :: post)) =
      process2 (fuel + 1) docs root ec (.map (pre ++ post)) := by
  rw [process2_map_eq, process2_map_eq,
    cy_foldlM_drop _ _ (fun b => cy_mapStep1_nonpos fuel docs root ec b k m n hr hn)]

/-- list entry: the step leaves the accumulator alone -/
theorem cy_listStep_nonpos (fuel : Nat) (docs : List Val) (root : Val) (ec : Vars)
    (acc : List Val) (m : Fields) (n : Int) (hr : fget m "$repeat" = some (.int n))
    (hn : n ≤ 0) : listStep fuel docs root ec acc (.map m) = .ok acc := by
  simp only [listStep, hr, cy_range_nonpos hn]
  rfl

/-- what `process2` does with a list once the `$encode` entry has been looked for -/
def cy_listCont (fuel : Nat) (docs : List Val) (root : Val) (ec : Vars) (p : Val × List Val) :
    R Val :=
  if !p.1.isNull then do
    let obj2 ← process2 fuel docs root ec (.list p.2)
    validate obj2
    match encodeAny obj2 p.1 with
    | .ok v => pure v
    | .err e => throw e
    | .codec _ _ => throw Err.unmodelled
  else do
    let ret ← p.2.foldlM (listStep fuel docs root ec) []
    pure (.list ret)

theorem cy_process2_list_eq (fuel : Nat) (docs : List Val) (root : Val) (ec : Vars)
    (xs : List Val) :
    process2 (fuel + 1) docs root ec (.list xs) =
      (popListMapValue xs "$encode" >>= cy_listCont fuel docs root ec) := by
  rw [process2]
  cases popListMapValue xs "$encode" with
  | error e => rfl
  | ok p => obtain ⟨spec, rest⟩ := p; rfl

/-- an entry with a `$repeat` key is never the `{$encode: …}` entry -/
theorem cy_popValStep_keep {m : Fields} {r : Val} (hr : fget m "$repeat" = some r) (ret : Val)
    (acc : List Val) :
    popValStep "$encode" (ret, acc) (.map m) = .ok (ret, acc ++ [.map m]) := by
  simp only [popValStep]
  by_cases hl : m.length = 1
  · match m, hl, hr with
    | [(k', v')], _, hr =>
      have hk : k' = "$repeat" := by
        simp only [fget] at hr
        split at hr
        · assumption
        · cases hr
      subst hk
      simp [fget, R_pure]
  · simp [hl, R_pure]

theorem cy_popValStep_acc (k : String) (ret : Val) (acc : List Val) (x : Val) :
    popValStep k (ret, acc) x =
      match popValStep k (ret, []) x with
      | .error e => .error e
      | .ok p => .ok (p.1, acc ++ p.2) := by
  simp only [popValStep]
  cases x with
  | map m =>
    simp only []
    split
    · simp [R_pure]
    · split
      · split <;> simp [R_pure, R_throw]
      · simp [R_pure]
  | _ => simp [R_pure]

/-- the kept entries are accumulated independently of what was kept before -/
theorem cy_popVal_acc (k : String) : ∀ (l : List Val) (ret : Val) (acc : List Val),
    l.foldlM (popValStep k) (ret, acc) =
      match l.foldlM (popValStep k) (ret, []) with
      | .error e => .error e
      | .ok p => .ok (p.1, acc ++ p.2) := by
  intro l
  induction l with
  | nil => intro ret acc; rw [foldlM_nil, foldlM_nil]; simp
  | cons x tl ih =>
    intro ret acc
    rw [foldlM_cons, foldlM_cons, cy_popValStep_acc k ret acc x]
    cases hx : popValStep k (ret, []) x with
    | error e => rfl
    | ok p =>
      obtain ⟨r', a'⟩ := p
      simp only []
      rw [ih r' (acc ++ a'), ih r' a']
      cases tl.foldlM (popValStep k) (r', []) with
      | error e => rfl
      | ok q => simp [List.append_assoc]

/-- dropping a kept entry from the input drops it from the kept entries, nothing else -/
theorem cy_pop_insert {m : Fields} {r : Val} (hr : fget m "$repeat" = some r)
    (pre post : List Val) :
    (∃ e, popListMapValue (pre ++ .map m :: post) "$encode" = .error e ∧
      popListMapValue (pre ++ post) "$encode" = .error e) ∨
    (∃ s a t, popListMapValue (pre ++ .map m :: post) "$encode" = .ok (s, a ++ .map m :: t) ∧
      popListMapValue (pre ++ post) "$encode" = .ok (s, a ++ t)) := by
  rw [popListMapValue_eq, popListMapValue_eq, foldlM_append_R, foldlM_append_R]
  cases pre.foldlM (popValStep "$encode") (Val.null, []) with
  | error e => exact Or.inl ⟨e, rfl, rfl⟩
  | ok p =>
    obtain ⟨r0, a⟩ := p
    rw [R_bind_ok, R_bind_ok, foldlM_cons, cy_popValStep_keep hr]
    dsimp only
    rw [cy_popVal_acc "$encode" post r0 (a ++ [Val.map m]), cy_popVal_acc "$encode" post r0 a]
    cases post.foldlM (popValStep "$encode") (r0, []) with
    | error e => exact Or.inl ⟨e, rfl, rfl⟩
    | ok q =>
      obtain ⟨s, t⟩ := q
      exact Or.inr ⟨s, a, t, by simp, rfl⟩

theorem cy_process2_zero (docs : List Val) (root : Val) (ec : Vars) (v : Val) :
    process2 0 docs root ec v = .error .circularRef := process2_zero docs root ec v

/-- `{$repeat: n, …}` with `n ≤ 0`, anywhere in a list: as if the entry were not there -/
theorem cy_process2_list_drop (docs : List Val) (root : Val) (ec : Vars) (m : Fields) (n : Int)
    (hr : fget m "$repeat" = some (.int n)) (hn : n ≤ 0) :
    ∀ (fuel : Nat) (pre post : List Val),
      process2 fuel docs root ec (.list (pre ++ .map m :: post)) =
        process2 fuel docs root ec (.list (pre ++ post)) := by
  intro fuel
  induction fuel with
  | zero => intro pre post; rw [cy_process2_zero, cy_process2_zero]
  | succ f ih =>
    intro pre post
    rw [cy_process2_list_eq, cy_process2_list_eq]
    rcases cy_pop_insert hr pre post with ⟨e, h1, h2⟩ | ⟨s, a, t, h1, h2⟩
    · rw [h1, h2]
    · rw [h1, h2, R_bind_ok, R_bind_ok]
      unfold cy_listCont
      cases hs : s.isNull with
      | false =>
        simp only [Bool.not_false, if_true]
        rw [ih a t]
      | true =>
        simp only [Bool.not_true, Bool.false_eq_true, if_false]
        rw [cy_foldlM_drop _ _ (fun b => cy_listStep_nonpos f docs root ec b m n hr hn)]

theorem cy_prod_zero : ∀ (l : List Nat), (∃ x ∈ l, x = 0) → l.prod = 0
  | [], h => by obtain ⟨x, hx, _⟩ := h; cases hx
  | a :: tl, h => by
    obtain ⟨x, hx, h0⟩ := h
    rw [List.prod_cons]
    rcases List.mem_cons.1 hx with rfl | hx
    · rw [h0, Nat.zero_mul]
    · rw [cy_prod_zero tl ⟨x, hx, h0⟩, Nat.mul_zero]

theorem cy_process2_list_nil (fuel : Nat) (docs : List Val) (root : Val) (ec : Vars) :
    process2 (fuel + 1) docs root ec (.list []) = .ok (.list []) := by
  rw [cy_process2_list_eq]; rfl

theorem cy_process2_map_nil (fuel : Nat) (docs : List Val) (root : Val) (ec : Vars) :
    process2 (fuel + 1) docs root ec (.map []) = .ok (.map []) := by
  rw [process2_map_eq]; rfl

/-! ## from `process1` to `processDoc` / `outputDocument` / `outputDocuments` -/

theorem cy_processDoc_error {docs : List Val} {data : Val} {e : Err} (env : Vars)
    (h : process1 depthLimit docs data (some []) data = .error e) :
    processDoc docs env data = .error e ∧ outputDocument docs env data = .error e := by
  have h1 : processDoc docs env data = .error e := by
    unfold processDoc; rw [h]; rfl
  exact ⟨h1, by unfold outputDocument; rw [h1]; rfl⟩

theorem cy_emit_nil : emit [] = .ok [] := rfl

theorem cy_outputDocuments_single_error {docs : List Val} {env : Vars} {d : Val} {e : Err}
    (pre post : List Val) (hd : docs = pre ++ d :: post)
    (hpre : ∀ x ∈ pre, ∃ r, outputDocument docs env x = .ok r)
    (h : outputDocument docs env d = .error e) : outputDocuments docs env = .error e := by
  unfold outputDocuments
  have : List.mapM (outputDocument docs env) (pre ++ d :: post) = .error e := by
    clear hd
    induction pre with
    | nil => rw [List.nil_append, mapM_cons, h]
    | cons x tl ih =>
      obtain ⟨r, hr⟩ := hpre x List.mem_cons_self
      rw [List.cons_append, mapM_cons, hr, ih (fun y hy => hpre y (List.mem_cons_of_mem _ hy))]
  rw [← hd] at this
  rw [this]; rfl

/-- `a: {$merge: b}, b: {$merge: c}, c: {$merge: a}` -/
def cy_mapCycle3 : Val :=
  .map [("a", .map [("$merge", .str "b")]), ("b", .map [("$merge", .str "c")]),
        ("c", .map [("$merge", .str "a")])]

/-- `{$decode: xml, $value: "1"}`: an unknown `$decode` format is reported as `unknownFormat` by
    the pipeline (`C14_decode_bad_args_model`) -/
theorem cy_unknownFormat_witness (docs : List Val) (env : Vars) :
    outputDocument docs env (.map [("$decode", .str "xml"), ("$value", .str "1")]) =
      .error .unknownFormat := by
  have h1 := process1_p1 depthLimit docs (.map [("$decode", .str "xml"), ("$value", .str "1")])
    (some []) (.map [("$decode", .str "xml"), ("$value", .str "1")]) (by decide) (by decide)
    (by decide)
  have hd : dropNulls (.map [("$decode", .str "xml"), ("$value", .str "1")]) =
      .map [("$decode", .str "xml"), ("$value", .str "1")] := by decide
  rw [hd] at h1
  have h2 : process2 depthLimit docs (.map [("$decode", .str "xml"), ("$value", .str "1")]) env
      (.map [("$decode", .str "xml"), ("$value", .str "1")]) = .error .unknownFormat :=
    (C14_decode_bad_args_model 999 docs _ env [("$decode", .str "xml"), ("$value", .str "1")]
      (by decide)
      (by
        intro p hp m hm
        simp only [List.mem_cons, List.not_mem_nil, or_false] at hp
        rcases hp with rfl | rfl <;> cases hm)
      (by decide)).2.2.2.2 "xml" "1" rfl rfl (by decide) (by simp [isCodecFormat])
  have h3 : processDoc docs env (.map [("$decode", .str "xml"), ("$value", .str "1")]) =
      .error .unknownFormat := by
    unfold processDoc
    rw [h1]
    simp only [ok_bind]
    rw [C12_repeatDoc_no_repeat_map _ _ (by decide)]
    simp only [ok_bind, List.mapM_cons, h2]
    rfl
  unfold outputDocument
  rw [h3]; rfl

end Bkl
