/-
  BklProofs.Lemmas.C10Inline — helper definitions and lemmas for the end-to-end "inline"
  statements of C10: fuel monotonicity of `process1`, path references, the top-level fold of a
  document whose other entries are reference-free, chains of forwarding references.
-/
import BklProofs.Lemmas.Cycles
set_option linter.unusedVariables false
namespace Bkl

/-! ## fuel monotonicity of `process1`

  `FLe x y`: `x` is the depth-guard error or `x = y`.  More fuel never changes a result that
  was not the depth guard. -/

def FLe {α : Type} (x y : R α) : Prop := x = .error .circularRef ∨ x = y

theorem FLe.refl {α : Type} (x : R α) : FLe x x := Or.inr rfl

theorem FLe.of_eq {α : Type} {x y : R α} (h : x = y) : FLe x y := Or.inr h

theorem FLe.eq {α : Type} {x y : R α} (h : FLe x y) (hx : x ≠ .error .circularRef) : y = x := by
  rcases h with h | h
  · exact absurd h hx
  · exact h.symm

theorem FLe.ok {α : Type} {x y : R α} {a : α} (h : FLe x y) (hx : x = .ok a) : y = .ok a := by
  rcases h with h | h
  · rw [hx] at h; cases h
  · rw [← h, hx]

theorem FLe.bind {α β : Type} {x y : R α} {F G : α → R β} (h : FLe x y)
    (hF : ∀ a, FLe (F a) (G a)) : FLe (x >>= F) (y >>= G) := by
  rcases h with h | h
  · left; rw [h]; rfl
  · subst h
    cases x with
    | error e => exact Or.inr rfl
    | ok a => exact hF a

theorem FLe.bind_right {α β : Type} (x : R α) {F G : α → R β}
    (hF : ∀ a, FLe (F a) (G a)) : FLe (x >>= F) (x >>= G) :=
  FLe.bind (FLe.refl x) hF

theorem FLe.foldlM {α β : Type} {f g : β → α → R β} (h : ∀ s a, FLe (f s a) (g s a)) :
    ∀ (l : List α) (init : β), FLe (l.foldlM f init) (l.foldlM g init) := by
  intro l
  induction l with
  | nil => intro init; exact FLe.refl _
  | cons a tl ih =>
    intro init
    rw [foldlM_cons, foldlM_cons]
    have h1 := h init a
    rcases h1 with h1 | h1
    · left; rw [h1]
    · rw [← h1]
      cases hf : f init a with
      | error e => exact Or.inr rfl
      | ok s' => exact ih s'

theorem FLe.map {α β : Type} {x y : R α} (f : α → β) (h : FLe x y) :
    FLe (Except.map f x) (Except.map f y) := by
  rcases h with h | h
  · left; rw [h]; rfl
  · right; rw [h]

def FuelMono (fuel : Nat) : Prop :=
  ∀ (docs : List Val) (root : Val) (loc : Loc) (obj : Val),
    FLe (process1 fuel docs root loc obj) (process1 (fuel + 1) docs root loc obj)

theorem mergeCont_mono {fuel : Nat} (ih : FuelMono fuel) (docs : List Val) (root1 : Val)
    (loc : Loc) (obj1 : Fields) (inp : Val) :
    FLe (mergeCont fuel docs root1 loc obj1 inp) (mergeCont (fuel + 1) docs root1 loc obj1 inp) := by
  unfold mergeCont
  split
  · split
    · exact ih _ _ _ _
    · exact FLe.bind_right _ (fun next => ih _ _ _ _)
  · exact ih _ _ _ _
  · split
    · exact ih _ _ _ _
    · exact FLe.refl _

theorem mapStep_mono {fuel : Nat} (ih : FuelMono fuel) (docs : List Val) (loc : Loc)
    (s : Fields × Val) (a : String × Val) :
    FLe (mapStep fuel docs loc s a) (mapStep (fuel + 1) docs loc s a) := by
  obtain ⟨acc, rt⟩ := s
  obtain ⟨k, v⟩ := a
  simp only [mapStep]
  refine FLe.bind (ih _ _ _ _) ?_
  rintro ⟨v2, rt1⟩
  simp only []
  split
  · exact FLe.refl _
  · refine FLe.bind (ih _ _ _ _) ?_
    rintro ⟨k2, rt2⟩
    exact FLe.refl _

theorem entryStep_mono {fuel : Nat} (ih : FuelMono fuel) (docs : List Val) (loc : Loc)
    (s : List Val × Val) (a : Val × Option Nat) :
    FLe (entryStep fuel docs loc s a) (entryStep (fuel + 1) docs loc s a) := by
  obtain ⟨acc, rt⟩ := s
  obtain ⟨x, tag⟩ := a
  simp only [entryStep]
  refine FLe.bind (ih _ _ _ _) ?_
  rintro ⟨v2, rt1⟩
  exact FLe.refl _

theorem listFinish_mono {fuel : Nat} (ih : FuelMono fuel) (docs : List Val) (root : Val)
    (loc : Loc) (obj1 : Tagged) :
    FLe (listFinish fuel docs root loc obj1) (listFinish (fuel + 1) docs root loc obj1) := by
  unfold listFinish
  refine FLe.bind_right _ ?_
  rintro ⟨rep, rest⟩
  simp only []
  split
  · exact FLe.bind_right _ (fun next => ih _ _ _ _)
  · refine FLe.bind (FLe.foldlM (entryStep_mono ih docs loc) _ _) ?_
    rintro ⟨ret, r'⟩
    exact FLe.refl _

/-- More fuel never changes a result of `process1` other than the depth-guard error. -/
theorem process1_mono : ∀ fuel, FuelMono fuel := by
  intro fuel
  induction fuel with
  | zero => intro docs root loc obj; left; exact process1_zero _ _ _ _
  | succ fuel ih =>
    intro docs root loc obj
    cases obj with
    | map kvs =>
      cases hm : fget kvs "$merge" with
      | some ref =>
        rw [process1_map_merge hm, process1_map_merge hm]
        exact FLe.bind_right _ (mergeCont_mono ih docs _ loc _)
      | none =>
        cases hr : fget kvs "$replace" with
        | some ref =>
          rw [process1_map_replace hm hr, process1_map_replace hm hr]
          exact FLe.bind_right _ (fun next => ih _ _ _ _)
        | none =>
          rw [process1_map_plain hm hr, process1_map_plain hm hr]
          exact FLe.bind (FLe.foldlM (mapStep_mono ih docs loc) _ _) (fun r => FLe.refl _)
    | list xs =>
      rw [process1_list, process1_list]
      exact FLe.bind_right _ (listFinish_mono ih docs root loc)
    | str s =>
      cases hm : stripPrefix s "$merge:" with
      | some p =>
        rw [process1_str_merge hm, process1_str_merge hm]
        exact FLe.bind_right _ (fun inp => ih _ _ _ _)
      | none =>
        cases hr : stripPrefix s "$replace:" with
        | some p =>
          rw [process1_str_replace hm hr, process1_str_replace hm hr]
          exact FLe.bind_right _ (fun inp => ih _ _ _ _)
        | none =>
          rw [process1_str_plain hm hr, process1_str_plain hm hr]
          exact FLe.refl _
    | null => rw [process1_null, process1_null]; exact FLe.refl _
    | bool b => rw [process1_bool, process1_bool]; exact FLe.refl _
    | int i => rw [process1_int, process1_int]; exact FLe.refl _
    | flt r => rw [process1_flt, process1_flt]; exact FLe.refl _

theorem process1_mono_add (fuel n : Nat) (docs : List Val) (root : Val) (loc : Loc) (obj : Val) :
    FLe (process1 fuel docs root loc obj) (process1 (fuel + n) docs root loc obj) := by
  induction n with
  | zero => exact FLe.refl _
  | succ n ih =>
    rcases ih with h | h
    · exact Or.inl h
    · rw [h]; exact process1_mono (fuel + n) docs root loc obj

/-! ## references that denote a key path of the referencing document -/

/-- `ref`, used as a reference, denotes the key path `ks` inside the referencing document -/
def PathRef (ref : Val) (ks : List String) : Prop :=
  ∀ (root : Val) (docs : List Val), get root docs ref = getPath root ks

/-- a plain dotted string `a.b.c` -/
theorem pathRef_str {p : String} {ks : List String} (h1 : parseRef p = some (.str p))
    (h2 : p.splitOn "." = ks) : PathRef (.str p) ks := by
  intro root docs
  rw [get_str]
  simp only [getPathFromString, h1, h2]

/-- a list of strings `[a, b, c]` -/
theorem pathRef_list (k : String) (ks : List String) :
    PathRef (.list (.str k :: ks.map .str)) (k :: ks) :=
  fun root docs => get_list_strs root docs k ks

theorem pathRef_simpleKey {k : String} (hk : SimpleKey k) : PathRef (.str k) [k] :=
  pathRef_str hk.parse hk.split

/-- `v` forwards to the reference `ref`: evaluating `v` (anywhere) resolves `ref` against the
    unchanged root and continues with a copy of the referenced value, one unit of fuel less -/
def Forwards (v ref : Val) : Prop :=
  ∀ (fuel : Nat) (docs : List Val) (root : Val) (loc : Loc),
    process1 (fuel + 1) docs root loc v =
      (get root docs ref >>= fun inp => process1 fuel docs root none inp)

theorem forwards_map_replace {m : Fields} {ref : Val} (h0 : fget m "$merge" = none)
    (h : fget m "$replace" = some ref) : Forwards (.map m) ref :=
  fun _ _ _ _ => process1_map_replace h0 h

theorem forwards_str_replace (p : String) : Forwards (.str ("$replace:" ++ p)) (.str p) :=
  fun _ _ _ _ => process1_str_replace (stripPrefix_replace_append_merge p)
    (stripPrefix_replace_append p)

theorem forwards_str_merge (p : String) : Forwards (.str ("$merge:" ++ p)) (.str p) :=
  fun _ _ _ _ => process1_str_merge (stripPrefix_merge_append p)

/-! ## splitting a sorted map at a key -/

theorem sorted_split {kvs : Fields} {h : String} {v : Val} (hs : Fields.SortedKeys kvs)
    (hh : fget kvs h = some v) :
    ∃ pre post, kvs = pre ++ (h, v) :: post ∧ (∀ x, fset kvs h x = pre ++ (h, x) :: post) ∧
      fdel kvs h = pre ++ post := by
  induction kvs with
  | nil => simp [fget] at hh
  | cons hd tl ih =>
    obtain ⟨k, w⟩ := hd
    by_cases hk : k = h
    · subst hk
      simp only [fget, if_true] at hh
      cases hh
      refine ⟨[], tl, rfl, ?_, ?_⟩
      · intro x
        simp only [fset, List.nil_append]
        rw [if_neg (String.lt_irrefl k)]
        simp
      · simp only [fdel, if_true, List.nil_append]
        exact fdel_of_not_mem (fget_tail_head_none hs)
    · simp only [fget, if_neg hk] at hh
      obtain ⟨pre, post, e1, e2, e3⟩ := ih (sorted_tail hs) hh
      refine ⟨(k, w) :: pre, post, by rw [e1]; rfl, ?_, ?_⟩
      · intro x
        have hlt : ¬ h < k := by
          intro hlt
          have := fget_none_of_lt_head hs hlt
          simp only [fget, if_neg hk] at this
          rw [this] at hh; cases hh
        simp only [fset]
        rw [if_neg hlt, if_neg (fun e => hk e.symm), e2 x]
        rfl
      · simp only [fdel, if_neg hk, e3]
        rfl

theorem refFreeFields_append {a b : Fields} :
    refFreeFields (a ++ b) = true ↔ refFreeFields a = true ∧ refFreeFields b = true := by
  induction a with
  | nil => simp [refFreeFields]
  | cons hd tl ih =>
    obtain ⟨k, v⟩ := hd
    simp only [List.cons_append, refFreeFields, Bool.and_eq_true, ih]
    constructor
    · rintro ⟨h1, h2, h3⟩; exact ⟨⟨h1, h2⟩, h3⟩
    · rintro ⟨⟨h1, h2⟩, h3⟩; exact ⟨h1, h2, h3⟩

/-! ## the top-level fold of a document whose other entries are reference-free -/

/-- root-free fold over reference-free entries -/
def freeFold (fuel : Nat) (l : Fields) (acc : Fields) : R Fields :=
  Except.map Prod.fst (l.foldlM (mapStep fuel [] none) (acc, Val.null))

theorem foldlM_refFree {fuel : Nat} {docs : List Val} {loc : Loc} {l : Fields}
    (hl : refFreeFields l = true) (acc : Fields) (rt : Val) :
    l.foldlM (mapStep fuel docs loc) (acc, rt) =
      Except.map (fun a => (a, rt)) (freeFold fuel l acc) := by
  rw [foldlM_root_indep (mapStep fuel docs loc) (mapStep fuel [] none) .null l
    (fun b hb acc rt => by
      obtain ⟨k, x⟩ := b
      have := refFreeFields_mem hl _ hb
      exact mapStep_indep (process1_refFree fuel) docs loc this.1 this.2 acc rt)
    (fun b hb acc s' hs => mapStep_frame (process1_frame fuel) hs)]
  unfold freeFold
  cases l.foldlM (mapStep fuel [] none) (acc, Val.null) <;> rfl

/-- the key half of `mapStep`, root-free -/
def keyStep (fuel : Nat) (k : String) (acc : Fields) (v2 : Val) : R Fields :=
  Except.map Prod.fst (process1 fuel [] .null none (.str k)) >>= fun k2 =>
    match k2 with
    | .str ks => pure (fset acc ks v2)
    | _ => throw Err.invalidType

/-- the evaluation of a document `pre ++ (h, _) :: post` in terms of the evaluation `Y` of the
    entry at `h`; `pre` and `post` are reference-free -/
def docRun (fuel : Nat) (pre : Fields) (h : String) (Y : R (Val × Val)) (post : Fields) :
    R (Val × Val) :=
  freeFold fuel pre [] >>= fun acc1 =>
  Y >>= fun r =>
  (if r.1.isNull then pure acc1 else keyStep fuel h acc1 r.1) >>= fun acc2 =>
  freeFold fuel post acc2 >>= fun acc3 => pure (Val.map acc3, r.2)

theorem refKey_str_refFree {k : String} (hk : refKey k = false) : refFree (.str k) = true := by
  simp only [refKey, Bool.or_eq_false_iff] at hk
  simp [refFree, hk.2]

theorem mapStep_host {fuel : Nat} {docs : List Val} {loc : Loc} {h : String} {v : Val}
    (hk : refKey h = false) (acc : Fields) (rt : Val) :
    mapStep fuel docs loc (acc, rt) (h, v) =
      (process1 fuel docs rt (childLoc loc h) v >>= fun r =>
        (if r.1.isNull then pure acc else keyStep fuel h acc r.1) >>= fun acc2 =>
          pure (acc2, r.2)) := by
  simp only [mapStep]
  cases process1 fuel docs rt (childLoc loc h) v with
  | error e => rfl
  | ok r =>
    obtain ⟨v2, rt1⟩ := r
    simp only [R_bind_ok]
    cases hn : v2.isNull with
    | true => rfl
    | false =>
      simp only [Bool.false_eq_true, if_false, keyStep]
      rw [process1_refFree fuel (.str h) (refKey_str_refFree hk) docs rt1 none]
      cases process1 fuel [] .null none (.str h) with
      | error e => rfl
      | ok r2 =>
        obtain ⟨k2, r''⟩ := r2
        simp only [Except.map, R_bind_ok]
        cases k2 <;> rfl

/-- A document whose entries other than `h` are reference-free: its evaluation is `docRun` of
    the evaluation of the entry at `h` (against the original root, at location `[h]`). -/
theorem process1_doc_split {fuel : Nat} {docs : List Val} {pre post : Fields} {h : String}
    {v : Val} (hk : refKey h = false) (hpre : refFreeFields pre = true)
    (hpost : refFreeFields post = true) (root : Val) :
    process1 (fuel + 1) docs root (some []) (.map (pre ++ (h, v) :: post)) =
      docRun fuel pre h (process1 fuel docs root (some [.key h]) v) post := by
  have hall : ∀ p ∈ pre ++ (h, v) :: post, refKey p.1 = false := by
    intro p hp
    rcases List.mem_append.1 hp with hp | hp
    · exact (refFreeFields_mem hpre p hp).1
    · rcases List.mem_cons.1 hp with rfl | hp
      · exact hk
      · exact (refFreeFields_mem hpost p hp).1
  have h0 : fget (pre ++ (h, v) :: post) "$merge" = none :=
    fget_none_iff.2 fun p hp => (refKey_false (hall p hp)).1
  have h1 : fget (pre ++ (h, v) :: post) "$replace" = none :=
    fget_none_iff.2 fun p hp => (refKey_false (hall p hp)).2.1
  rw [process1_map_plain h0 h1, foldlM_append_R, foldlM_refFree hpre]
  unfold docRun
  cases freeFold fuel pre [] with
  | error e => rfl
  | ok acc1 =>
    simp only [Except.map, R_bind_ok]
    rw [foldlM_cons, mapStep_host hk]
    have hc : childLoc (some []) h = some [.key h] := rfl
    rw [hc]
    cases process1 fuel docs root (some [.key h]) v with
    | error e => rfl
    | ok r =>
      simp only [R_bind_ok]
      cases (if r.1.isNull = true then (pure acc1 : R Fields) else keyStep fuel h acc1 r.1) with
      | error e => rfl
      | ok acc2 =>
        simp only [R_bind_ok, R_pure]
        rw [foldlM_refFree hpost]
        cases freeFold fuel post acc2 <;> rfl

/-- the value produced by `docRun` depends only on the value produced at the host -/
theorem docRun_fst {fuel : Nat} {pre post : Fields} {h : String} {Y Y' : R (Val × Val)}
    (hY : Except.map Prod.fst Y = Except.map Prod.fst Y') :
    Except.map Prod.fst (docRun fuel pre h Y post) =
      Except.map Prod.fst (docRun fuel pre h Y' post) := by
  unfold docRun
  cases freeFold fuel pre [] with
  | error e => rfl
  | ok acc1 =>
    simp only [R_bind_ok]
    cases Y with
    | error e =>
      cases Y' with
      | error e' => simp only [Except.map] at hY; cases hY; rfl
      | ok r' => simp [Except.map] at hY
    | ok r =>
      cases Y' with
      | error e' => simp [Except.map] at hY
      | ok r' =>
        simp only [Except.map, Except.ok.injEq] at hY
        simp only [R_bind_ok, hY]
        cases (if r'.1.isNull = true then (pure acc1 : R Fields) else keyStep fuel h acc1 r'.1) with
        | error e => rfl
        | ok acc2 =>
          simp only [R_bind_ok]
          cases freeFold fuel post acc2 <;> rfl

/-! ## the host step -/

theorem map_fst_map_root {X : R (Val × Val)} (r1 r2 : Val) :
    Except.map Prod.fst (Except.map (fun r : Val × Val => (r.1, r1)) X) =
      Except.map Prod.fst (Except.map (fun r : Val × Val => (r.1, r2)) X) := by
  cases X <;> rfl

theorem map_root_ne_circ {X : R (Val × Val)} {r1 : Val}
    (h : Except.map (fun r : Val × Val => (r.1, r1)) X ≠ .error .circularRef) :
    X ≠ .error .circularRef := by
  intro e; rw [e] at h; exact h rfl

/-- a reference-free value evaluates to the same value with one more unit of fuel, wherever it
    sits, unless the smaller fuel hit the depth guard -/
theorem refFree_value_mono {fuel : Nat} {t : Val} (htf : refFree t = true)
    (hfuel : process1 fuel [] .null none t ≠ .error .circularRef)
    (docs1 docs2 : List Val) (r1 r2 : Val) (l1 l2 : Loc) :
    Except.map Prod.fst (process1 fuel docs1 r1 l1 t) =
      Except.map Prod.fst (process1 (fuel + 1) docs2 r2 l2 t) := by
  rw [process1_refFree fuel t htf docs1 r1 l1, process1_refFree (fuel + 1) t htf docs2 r2 l2,
    (process1_mono fuel [] .null none t).eq hfuel]
  exact map_fst_map_root r1 r2

/-- the `$replace` host: its value is the value of the (reference-free) referenced subtree,
    evaluated in place of the host -/
theorem replace_host_step {fuel : Nat} {docs : List Val} {root root' : Val} {loc loc' : Loc}
    {hostv ref t : Val} {ks : List String}
    (hfw : Forwards hostv ref) (hp : PathRef ref ks) (ht : getPath root ks = .ok t)
    (htf : refFree t = true) (hfuel : process1 fuel [] .null none t ≠ .error .circularRef) :
    Except.map Prod.fst (process1 (fuel + 1) docs root loc hostv) =
      Except.map Prod.fst (process1 (fuel + 1) docs root' loc' t) := by
  rw [hfw fuel docs root loc, hp root docs, ht, R_bind_ok]
  exact refFree_value_mono htf hfuel _ _ _ _ _ _

theorem refFreeFields_no_marker {s : Fields} (h : refFreeFields s = true) :
    fhasBool s "$replace" true = false := by
  cases hb : fhasBool s "$replace" true with
  | false => rfl
  | true =>
    rw [fhasBool_iff, (refFreeFields_fget h).2] at hb
    cases hb

/-- the values that a map-level `$merge` can take in such that the result is the in-place
    evaluation of `merge local t`: a map without the `$replace: true` marker (whatever it
    contains), `null`, or any reference-free value -/
def MergeInlinable (t : Val) : Prop :=
  (∃ s, t = .map s ∧ fhasBool s "$replace" true = false) ∨ t = .null ∨ refFree t = true

theorem getPath_fset_other {kvs : Fields} {h k : String} (x : Val) (ks : List String)
    (hk : k ≠ h) : getPath (.map (fset kvs h x)) (k :: ks) = getPath (.map kvs) (k :: ks) := by
  simp only [getPath, fget_fset_ne _ _ _ _ hk]

theorem setLoc_top_key (kvs : Fields) (h : String) {old : Val} (x : Val)
    (hh : fget kvs h = some old) :
    setLoc (.map kvs) (some [.key h]) x = .map (fset kvs h x) := by
  simp only [setLoc, setPath, hh]

/-- the `$merge` host: its value is the value of `merge local t`, evaluated in place of the
    host -/
theorem merge_host_step {fuel : Nat} {docs : List Val} {kvs m : Fields} {h k : String}
    {ref t nv : Val} {ks : List String}
    (hh : fget kvs h = some (.map m)) (hm : fget m "$merge" = some ref)
    (hp : PathRef ref (k :: ks)) (hk : k ≠ h) (ht : getPath (.map kvs) (k :: ks) = .ok t)
    (hti : MergeInlinable t) (hn : merge (.map (fdel m "$merge")) t = .ok nv)
    (hfuel : process1 fuel docs (.map (fset kvs h nv)) (some [.key h]) nv ≠ .error .circularRef) :
    Except.map Prod.fst (process1 (fuel + 1) docs (.map kvs) (some [.key h]) (.map m)) =
      Except.map Prod.fst (process1 (fuel + 1) docs (.map (fset kvs h nv)) (some [.key h]) nv) := by
  have hroot1 : setLoc (.map kvs) (some [.key h]) (.map (fdel m "$merge")) =
      .map (fset kvs h (.map (fdel m "$merge"))) := setLoc_top_key kvs h _ hh
  have hg : get (.map (fset kvs h (.map (fdel m "$merge")))) docs ref = .ok t := by
    rw [hp, getPath_fset_other _ _ hk, ht]
  rw [process1_map_merge hm, hroot1, hg, R_bind_ok]
  have hroot2 : ∀ x, setLoc (.map (fset kvs h (.map (fdel m "$merge")))) (some [.key h]) x =
      .map (fset kvs h x) := by
    intro x
    rw [setLoc_top_key _ h x (fget_fset_same _ _ _), fset_fset_same]
  have hmono := (process1_mono fuel docs (.map (fset kvs h nv)) (some [.key h]) nv).eq hfuel
  -- the copy branch, shared by scalars and lists
  have hcopy : t.isMap = false → t.isNull = false → refFree t = true →
      Except.map Prod.fst
        (mergeCont fuel docs (.map (fset kvs h (.map (fdel m "$merge")))) (some [.key h])
          (fdel m "$merge") t) =
      Except.map Prod.fst (process1 (fuel + 1) docs (.map (fset kvs h nv)) (some [.key h]) nv) := by
    intro h1 h2 htf
    rw [merge_map_other _ _ h1 h2] at hn
    cases he : (fdel m "$merge").isEmpty with
    | false => rw [he] at hn; simp at hn
    | true =>
      rw [he] at hn
      simp only [if_true, Except.ok.injEq] at hn
      subst hn
      have hX : process1 fuel [] .null none t ≠ .error .circularRef := by
        rw [process1_refFree fuel t htf] at hfuel
        exact map_root_ne_circ hfuel
      have : mergeCont fuel docs (.map (fset kvs h (.map (fdel m "$merge")))) (some [.key h])
          (fdel m "$merge") t =
          process1 fuel docs (.map (fset kvs h (.map (fdel m "$merge")))) none t := by
        cases t <;> simp [Val.isMap, Val.isNull] at h1 h2 <;> simp [mergeCont, he]
      rw [this]
      exact refFree_value_mono htf hX _ _ _ _ _ _
  -- the in-place branch for a map without the marker
  have hmap : ∀ s, t = .map s → fhasBool s "$replace" true = false →
      Except.map Prod.fst
        (mergeCont fuel docs (.map (fset kvs h (.map (fdel m "$merge")))) (some [.key h])
          (fdel m "$merge") t) =
      Except.map Prod.fst (process1 (fuel + 1) docs (.map (fset kvs h nv)) (some [.key h]) nv) := by
    intro s hts hr
    subst hts
    rw [merge_map_map, mergeMapMap_noreplace hr] at hn
    cases hmf : mergeFields (fdel m "$merge") s with
    | error e => rw [hmf] at hn; cases hn
    | ok next =>
      rw [hmf] at hn
      have : nv = .map next := by cases hn; rfl
      subst this
      simp only [mergeCont, hr, Bool.false_eq_true, if_false, hmf, R_bind_ok, hroot2]
      rw [hmono]
  rcases hti with ⟨s, hts, hr⟩ | hnull | htf
  · exact hmap s hts hr
  · subst hnull
    rw [merge_map_null] at hn
    cases hn
    simp only [mergeCont]
    rw [hmono]
  · cases t with
    | map s =>
      simp only [refFree] at htf
      exact hmap s rfl (refFreeFields_no_marker htf)
    | null =>
      rw [merge_map_null] at hn
      cases hn
      simp only [mergeCont]
      rw [hmono]
    | bool b => exact hcopy rfl rfl htf
    | int i => exact hcopy rfl rfl htf
    | flt r => exact hcopy rfl rfl htf
    | str r => exact hcopy rfl rfl htf
    | list r => exact hcopy rfl rfl htf

/-- a merge conflict at the host is the error of the host -/
theorem merge_host_error {fuel : Nat} {docs : List Val} {kvs m : Fields} {h k : String}
    {ref t : Val} {ks : List String} {e : Err}
    (hh : fget kvs h = some (.map m)) (hm : fget m "$merge" = some ref)
    (hp : PathRef ref (k :: ks)) (hk : k ≠ h) (ht : getPath (.map kvs) (k :: ks) = .ok t)
    (hti : MergeInlinable t) (hn : merge (.map (fdel m "$merge")) t = .error e) :
    process1 (fuel + 1) docs (.map kvs) (some [.key h]) (.map m) = .error e := by
  have hroot1 : setLoc (.map kvs) (some [.key h]) (.map (fdel m "$merge")) =
      .map (fset kvs h (.map (fdel m "$merge"))) := setLoc_top_key kvs h _ hh
  have hg : get (.map (fset kvs h (.map (fdel m "$merge")))) docs ref = .ok t := by
    rw [hp, getPath_fset_other _ _ hk, ht]
  rw [process1_map_merge hm, hroot1, hg, R_bind_ok]
  have hcopy : t.isMap = false → t.isNull = false →
      mergeCont fuel docs (.map (fset kvs h (.map (fdel m "$merge")))) (some [.key h])
          (fdel m "$merge") t = .error e := by
    intro h1 h2
    rw [merge_map_other _ _ h1 h2] at hn
    cases he : (fdel m "$merge").isEmpty with
    | true => rw [he] at hn; simp at hn
    | false =>
      rw [he] at hn
      simp only [Bool.false_eq_true, if_false, Except.error.injEq] at hn
      subst hn
      cases t <;> simp [Val.isMap, Val.isNull] at h1 h2 <;> simp [mergeCont, he] <;> rfl
  have hmap : ∀ s, t = .map s → fhasBool s "$replace" true = false →
      mergeCont fuel docs (.map (fset kvs h (.map (fdel m "$merge")))) (some [.key h])
          (fdel m "$merge") t = .error e := by
    intro s hts hr
    subst hts
    rw [merge_map_map, mergeMapMap_noreplace hr] at hn
    cases hmf : mergeFields (fdel m "$merge") s with
    | ok next => rw [hmf] at hn; cases hn
    | error e' =>
      rw [hmf] at hn
      have : e' = e := by cases hn; rfl
      subst this
      simp only [mergeCont, hr, Bool.false_eq_true, if_false, hmf]
      rfl
  rcases hti with ⟨s, hts, hr⟩ | hnull | htf
  · exact hmap s hts hr
  · subst hnull; rw [merge_map_null] at hn; cases hn
  · cases t with
    | map s =>
      simp only [refFree] at htf
      exact hmap s rfl (refFreeFields_no_marker htf)
    | null => rw [merge_map_null] at hn; cases hn
    | bool b => exact hcopy rfl rfl
    | int i => exact hcopy rfl rfl
    | flt r => exact hcopy rfl rfl
    | str r => exact hcopy rfl rfl
    | list r => exact hcopy rfl rfl

/-! ## the document level -/

theorem process1_doc_split2 {fuel : Nat} {docs : List Val} {pre post : Fields} {h : String}
    {v : Val} (hk : refKey h = false) (hpre : refFreeFields pre = true)
    (hpost : refFreeFields post = true) {root : Val} (e : root = .map (pre ++ (h, v) :: post)) :
    process1 (fuel + 2) docs root (some []) root =
      docRun (fuel + 1) pre h (process1 (fuel + 1) docs root (some [.key h]) v) post := by
  have := process1_doc_split (fuel := fuel + 1) (docs := docs) (v := v) hk hpre hpost root
  rw [← e] at this
  exact this

theorem inline_replace_core {fuel : Nat} {docs : List Val} {kvs : Fields} {h : String}
    {hostv ref t : Val} {ks : List String}
    (hs : Fields.SortedKeys kvs) (hh : fget kvs h = some hostv) (hhk : refKey h = false)
    (hfw : Forwards hostv ref) (hp : PathRef ref ks) (ht : getPath (.map kvs) ks = .ok t)
    (htf : refFree t = true) (ho : refFreeFields (fdel kvs h) = true)
    (hfuel : process1 fuel [] .null none t ≠ .error .circularRef) :
    Except.map Prod.fst (process1 (fuel + 2) docs (.map kvs) (some []) (.map kvs)) =
      Except.map Prod.fst
        (process1 (fuel + 2) docs (.map (fset kvs h t)) (some []) (.map (fset kvs h t))) := by
  obtain ⟨pre, post, e1, e2, e3⟩ := sorted_split hs hh
  rw [e3, refFreeFields_append] at ho
  rw [process1_doc_split2 hhk ho.1 ho.2 (congrArg Val.map e1),
    process1_doc_split2 hhk ho.1 ho.2 (congrArg Val.map (e2 t))]
  exact docRun_fst (replace_host_step hfw hp ht htf hfuel)

theorem inline_merge_core {fuel : Nat} {docs : List Val} {kvs m : Fields} {h k : String}
    {ref t nv : Val} {ks : List String}
    (hs : Fields.SortedKeys kvs) (hh : fget kvs h = some (.map m)) (hhk : refKey h = false)
    (hm : fget m "$merge" = some ref) (hp : PathRef ref (k :: ks)) (hk : k ≠ h)
    (ht : getPath (.map kvs) (k :: ks) = .ok t) (hti : MergeInlinable t)
    (ho : refFreeFields (fdel kvs h) = true)
    (hn : merge (.map (fdel m "$merge")) t = .ok nv)
    (hfuel : process1 fuel docs (.map (fset kvs h nv)) (some [.key h]) nv ≠ .error .circularRef) :
    Except.map Prod.fst (process1 (fuel + 2) docs (.map kvs) (some []) (.map kvs)) =
      Except.map Prod.fst
        (process1 (fuel + 2) docs (.map (fset kvs h nv)) (some []) (.map (fset kvs h nv))) := by
  obtain ⟨pre, post, e1, e2, e3⟩ := sorted_split hs hh
  rw [e3, refFreeFields_append] at ho
  rw [process1_doc_split2 hhk ho.1 ho.2 (congrArg Val.map e1),
    process1_doc_split2 hhk ho.1 ho.2 (congrArg Val.map (e2 nv))]
  exact docRun_fst (merge_host_step hh hm hp hk ht hti hn hfuel)

/-! ## a reference-free value evaluates within `depth + 1` units of fuel -/

theorem mapFold_ok {fuel : Nat} {l : Fields}
    (h : ∀ p ∈ l, refKey p.1 = false ∧ ∃ x, process1 fuel [] .null none p.2 = .ok (x, .null))
    (acc : Fields) : ∃ r, l.foldlM (mapStep fuel [] none) (acc, Val.null) = .ok (r, .null) := by
  induction l generalizing acc with
  | nil => exact ⟨acc, rfl⟩
  | cons hd tl ih =>
    obtain ⟨k, v⟩ := hd
    obtain ⟨hk, x, hx⟩ := h (k, v) List.mem_cons_self
    have htl := fun p hp => h p (List.mem_cons_of_mem _ hp)
    rw [foldlM_cons]
    cases fuel with
    | zero => rw [process1_zero] at hx; cases hx
    | succ f =>
      have hc : childLoc none k = none := rfl
      have hkey : process1 (f + 1) [] .null none (.str k) = .ok (.str k, .null) :=
        process1_str_plain (refKey_false hk).2.2.1 (refKey_false hk).2.2.2
      cases hn : x.isNull with
      | true =>
        have : mapStep (f + 1) [] none (acc, Val.null) (k, v) = .ok (acc, .null) := by
          simp only [mapStep, hc, hx, R_bind_ok, hn, if_true]; rfl
        rw [this]; exact ih htl acc
      | false =>
        have : mapStep (f + 1) [] none (acc, Val.null) (k, v) = .ok (fset acc k x, .null) := by
          simp only [mapStep, hc, hx, R_bind_ok, hn, Bool.false_eq_true, if_false, hkey]; rfl
        rw [this]; exact ih htl _

theorem entryFold_ok {fuel : Nat} {l : Tagged}
    (h : ∀ p ∈ l, ∃ x, process1 fuel [] .null none p.1 = .ok (x, .null))
    (acc : List Val) : ∃ r, l.foldlM (entryStep fuel [] none) (acc, Val.null) = .ok (r, .null) := by
  induction l generalizing acc with
  | nil => exact ⟨acc, rfl⟩
  | cons hd tl ih =>
    obtain ⟨v, tag⟩ := hd
    obtain ⟨x, hx⟩ := h (v, tag) List.mem_cons_self
    have htl := fun p hp => h p (List.mem_cons_of_mem _ hp)
    rw [foldlM_cons]
    have hc : entryLoc none tag = none := by cases tag <;> rfl
    cases hn : x.isNull with
    | true =>
      have : entryStep fuel [] none (acc, Val.null) (v, tag) = .ok (acc, .null) := by
        simp only [entryStep, hc, hx, R_bind_ok, hn, if_true]; rfl
      rw [this]; exact ih htl acc
    | false =>
      have : entryStep fuel [] none (acc, Val.null) (v, tag) = .ok (acc ++ [x], .null) := by
        simp only [entryStep, hc, hx, R_bind_ok, hn, Bool.false_eq_true, if_false]; rfl
      rw [this]; exact ih htl _

/-- a reference-free value of depth `< fuel` evaluates (to some value) -/
theorem process1_refFree_ok : ∀ (fuel : Nat) (v : Val), refFree v = true → depth v < fuel →
    ∃ x, process1 fuel [] .null none v = .ok (x, .null) := by
  intro fuel
  induction fuel with
  | zero => intro v _ hd; omega
  | succ fuel ih =>
    intro v hv hd
    cases v with
    | null => exact ⟨_, process1_null _ _ _ _⟩
    | bool b => exact ⟨_, process1_bool _ _ _ _ _⟩
    | int i => exact ⟨_, process1_int _ _ _ _ _⟩
    | flt r => exact ⟨_, process1_flt _ _ _ _ _⟩
    | str s =>
      simp only [refFree, refStr, Bool.not_eq_true', Bool.or_eq_false_iff] at hv
      exact ⟨_, process1_str_plain (e_stripPrefix_none hv.1) (e_stripPrefix_none hv.2)⟩
    | map kvs =>
      simp only [refFree] at hv
      simp only [depth] at hd
      obtain ⟨h0, h1⟩ := refFreeFields_fget hv
      obtain ⟨r, hr⟩ := mapFold_ok (fuel := fuel) (l := kvs) (fun p hp => by
        have := refFreeFields_mem hv p hp
        have hdp := e_depthFields_mem p hp
        exact ⟨this.1, ih p.2 this.2 (by omega)⟩) []
      rw [process1_map_plain h0 h1, hr]
      exact ⟨_, rfl⟩
    | list xs =>
      simp only [refFree] at hv
      simp only [depth] at hd
      have hm : ∀ x ∈ xs, notMergeEntry x = true :=
        fun x hx => refFree_notMergeEntry (refFreeList_mem hv x hx)
      have hr : ∀ x ∈ xs, notReplaceEntry x = true :=
        fun x hx => refFree_notReplaceEntry (refFreeList_mem hv x hx)
      have hfst : (listObj0 xs).map (·.1) = xs := by
        rw [listObj0_fst, List.filter_eq_self.2 hm]
      have hmem : ∀ q ∈ listObj0 xs, q.1 ∈ xs := by
        intro q hq
        rw [← hfst]; exact List.mem_map_of_mem hq
      have hfil : (listObj0 xs).filter (fun x => notReplaceEntry x.1) = listObj0 xs :=
        List.filter_eq_self.2 fun q hq => hr _ (hmem q hq)
      obtain ⟨r, hr'⟩ := entryFold_ok (fuel := fuel) (l := listObj0 xs) (fun p hp => by
        have hx := hmem p hp
        have hdp := e_depthList_mem p.1 hx
        exact ih p.1 (refFreeList_mem hv _ hx) (by omega)) []
      rw [process1_list, listMerges_of_notMerge hm, foldlM_nil, R_bind_ok]
      unfold listFinish
      rw [hfst, popListMapValue_no_replace hr, R_bind_ok]
      simp only [Val.isNull, Bool.not_true, Bool.false_eq_true, if_false]
      rw [hfil, hr']
      exact ⟨_, rfl⟩

theorem process1_refFree_ne_circ {fuel : Nat} {v : Val} (hv : refFree v = true)
    (hd : depth v < fuel) : process1 fuel [] .null none v ≠ .error .circularRef := by
  obtain ⟨x, hx⟩ := process1_refFree_ok fuel v hv hd
  rw [hx]; intro h; cases h

/-! ## lifting to `processDoc` / `outputDocument` -/

theorem processDoc_congr {docs : List Val} {env : Vars} {a b : Val}
    (h : Except.map Prod.fst (process1 depthLimit docs a (some []) a) =
      Except.map Prod.fst (process1 depthLimit docs b (some []) b)) :
    processDoc docs env a = processDoc docs env b := by
  unfold processDoc
  cases ha : process1 depthLimit docs a (some []) a with
  | error e =>
    cases hb : process1 depthLimit docs b (some []) b with
    | error e' => rw [ha, hb] at h; simp only [Except.map] at h; cases h; rfl
    | ok r' => rw [ha, hb] at h; simp [Except.map] at h
  | ok r =>
    cases hb : process1 depthLimit docs b (some []) b with
    | error e' => rw [ha, hb] at h; simp [Except.map] at h
    | ok r' =>
      rw [ha, hb] at h
      simp only [Except.map, Except.ok.injEq] at h
      obtain ⟨v, rt⟩ := r
      obtain ⟨v', rt'⟩ := r'
      simp only at h
      subst h
      rfl

theorem outputDocument_congr {docs : List Val} {env : Vars} {a b : Val}
    (h : processDoc docs env a = processDoc docs env b) :
    outputDocument docs env a = outputDocument docs env b := by
  unfold outputDocument; rw [h]

/-! ## chains of string-form references -/

/-- `a₁: "$replace:a₂"`, …, `aₖ₋₁: "$replace:aₖ"`, `aₖ: t` inside the map `kvs`; every `aᵢ` is a
    simple key -/
def chainLinks (kvs : Fields) (t : Val) : List String → Prop
  | [] => False
  | [a] => SimpleKey a ∧ fget kvs a = some t
  | a :: b :: rest =>
    SimpleKey a ∧ fget kvs a = some (.str ("$replace:" ++ b)) ∧ chainLinks kvs t (b :: rest)

theorem chainLinks_suffix {kvs : Fields} {t : Val} : ∀ (pre : List String) {a : String}
    {rest : List String}, chainLinks kvs t (pre ++ a :: rest) → chainLinks kvs t (a :: rest)
  | [], _, _, h => h
  | [x], a, rest, h => by
    simp only [List.cons_append, List.nil_append, chainLinks] at h
    exact h.2.2
  | x :: y :: pre, a, rest, h => by
    simp only [List.cons_append, chainLinks] at h
    exact chainLinks_suffix (y :: pre) h.2.2

/-- following the chain from `a` costs one unit of fuel per link -/
theorem chain_ref {kvs : Fields} {t : Val} : ∀ (rest : List String) (a : String),
    chainLinks kvs t (a :: rest) → ∀ (fuel : Nat) (docs : List Val) (loc : Loc),
      process1 (fuel + rest.length + 1) docs (.map kvs) loc (.str ("$replace:" ++ a)) =
        process1 fuel docs (.map kvs) none t := by
  intro rest
  induction rest with
  | nil =>
    intro a h fuel docs loc
    simp only [chainLinks] at h
    rw [List.length_nil, Nat.add_zero, forwards_str_replace a fuel docs _ loc,
      get_simpleKey h.1 docs h.2, R_bind_ok]
  | cons b rest ih =>
    intro a h fuel docs loc
    simp only [chainLinks] at h
    rw [forwards_str_replace a _ docs _ loc, get_simpleKey h.1 docs h.2.1, R_bind_ok,
      List.length_cons]
    exact ih b h.2.2 fuel docs none

/-- the value stored at a link of the chain evaluates to what `t` evaluates to -/
theorem chain_value {kvs : Fields} {t : Val} {a : String} {rest : List String}
    (h : chainLinks kvs t (a :: rest)) (htf : refFree t = true) :
    ∃ v, fget kvs a = some v ∧ ∀ (fuel : Nat) (docs : List Val) (loc : Loc),
      process1 (fuel + rest.length) docs (.map kvs) loc v =
        Except.map (fun r => (r.1, Val.map kvs)) (process1 fuel [] .null none t) := by
  cases rest with
  | nil =>
    simp only [chainLinks] at h
    exact ⟨t, h.2, fun fuel docs loc => process1_refFree fuel t htf docs _ loc⟩
  | cons b rest =>
    have h' := h
    simp only [chainLinks] at h'
    refine ⟨_, h'.2.1, fun fuel docs loc => ?_⟩
    rw [List.length_cons, ← Nat.add_assoc, chain_ref rest b h'.2.2 fuel docs loc]
    exact process1_refFree fuel t htf docs _ none

/-! ## what the fold of a reference-free map produces -/

theorem mapStep_free_inv {fuel : Nat} {acc : Fields} {k : String} {v : Val} {b' : Fields × Val}
    (hk : refKey k = false) (hb : mapStep fuel [] none (acc, Val.null) (k, v) = .ok b') :
    ∃ x, process1 fuel [] .null none v = .ok (x, .null) ∧
      b' = (if x.isNull then acc else fset acc k x, Val.null) := by
  simp only [mapStep] at hb
  obtain ⟨⟨v2, rt1⟩, h1, h2⟩ := R_bind_eq_ok.1 hb
  have h1' : process1 fuel [] .null none v = .ok (v2, rt1) := h1
  have hrt : rt1 = .null := process1_frame fuel _ _ _ _ _ _ h1'
  subst hrt
  refine ⟨v2, h1', ?_⟩
  simp only [] at h2
  cases hn : v2.isNull with
  | true =>
    rw [hn] at h2
    simp only [if_true] at h2 ⊢
    cases h2; rfl
  | false =>
    rw [hn] at h2
    simp only [Bool.false_eq_true, if_false] at h2 ⊢
    obtain ⟨⟨k2, rt2⟩, h3, h4⟩ := R_bind_eq_ok.1 h2
    cases fuel with
    | zero => rw [process1_zero] at h3; cases h3
    | succ f =>
      rw [process1_str_plain (refKey_false hk).2.2.1 (refKey_false hk).2.2.2] at h3
      cases h3
      cases h4; rfl

theorem mapFold_spec {fuel : Nat} : ∀ (l : Fields) (acc r : Fields) (rt : Val),
    l.Pairwise (fun a b => a.1 ≠ b.1) → (∀ p ∈ l, refKey p.1 = false) →
    l.foldlM (mapStep fuel [] none) (acc, Val.null) = .ok (r, rt) →
    (∀ p ∈ l, ∃ x, process1 fuel [] .null none p.2 = .ok (x, .null) ∧
        fget r p.1 = if x.isNull then fget acc p.1 else some x) ∧
    (∀ k, (∀ p ∈ l, p.1 ≠ k) → fget r k = fget acc k) := by
  intro l
  induction l with
  | nil =>
    intro acc r rt _ _ h
    rw [foldlM_nil] at h
    cases h
    exact ⟨fun p hp => (by cases hp), fun k _ => rfl⟩
  | cons hd tl ih =>
    intro acc r rt hnd hkeys h
    obtain ⟨k, v⟩ := hd
    rw [foldlM_cons] at h
    split at h
    · cases h
    · rename_i b' hb
      obtain ⟨x, hx, hb'⟩ := mapStep_free_inv (hkeys (k, v) List.mem_cons_self) hb
      subst hb'
      rw [List.pairwise_cons] at hnd
      obtain ⟨ih1, ih2⟩ := ih _ r rt hnd.2 (fun p hp => hkeys p (List.mem_cons_of_mem _ hp)) h
      constructor
      · intro p hp
        rcases List.mem_cons.1 hp with rfl | hp
        · refine ⟨x, hx, ?_⟩
          rw [ih2 k (fun q hq => (hnd.1 q hq).symm)]
          cases hn : x.isNull with
          | true => simp
          | false => simp [fget_fset_same]
        · obtain ⟨y, hy, hfy⟩ := ih1 p hp
          refine ⟨y, hy, ?_⟩
          rw [hfy]
          have hne : p.1 ≠ k := (hnd.1 p hp).symm
          cases hn : x.isNull with
          | true => simp
          | false => simp [fget_fset_ne _ _ _ _ hne]
      · intro k' hk'
        rw [ih2 k' (fun p hp => hk' p (List.mem_cons_of_mem _ hp))]
        have hne : k' ≠ k := (hk' (k, v) List.mem_cons_self).symm
        cases hn : x.isNull with
        | true => simp
        | false => simp [fget_fset_ne _ _ _ _ hne]

theorem sorted_nodup {m : Fields} (h : Fields.SortedKeys m) :
    m.Pairwise (fun a b => a.1 ≠ b.1) :=
  (sorted_iff_pairwise.1 h).imp (fun hlt => str_ne_of_lt hlt)

/-- the evaluation of a reference-free value never writes the root and, for a map, is a map -/
theorem process1_free_map_inv {fuel : Nat} {kvs : Fields} {x rt : Val}
    (hv : refFreeFields kvs = true)
    (h : process1 (fuel + 1) [] .null none (.map kvs) = .ok (x, rt)) :
    ∃ r, x = .map r ∧ kvs.foldlM (mapStep fuel [] none) (([] : Fields), Val.null) = .ok (r, rt) := by
  obtain ⟨h0, h1⟩ := refFreeFields_fget hv
  rw [process1_map_plain h0 h1] at h
  obtain ⟨⟨r, rt'⟩, h3, h4⟩ := R_bind_eq_ok.1 h
  cases h4
  exact ⟨r, rfl, h3⟩

/-- Inside the evaluation `x` of a reference-free, well-formed value `v`, the path `ks` holds the
    evaluation of the subtree `t` that `v` holds at `ks` (nothing, if that evaluation is `null`). -/
theorem getPath_eval : ∀ (ks : List String) (k : String) (fuel : Nat) (v x rt t : Val),
    refFree v = true → Val.WF v → process1 fuel [] .null none v = .ok (x, rt) →
    getPath v (k :: ks) = .ok t →
    ∃ tv, process1 fuel [] .null none t = .ok (tv, .null) ∧
      getPath x (k :: ks) = if tv.isNull then .error .refNotFound else .ok tv := by
  intro ks
  induction ks with
  | nil =>
    intro k fuel v x rt t hv hw h hg
    cases v with
    | map m =>
      simp only [getPath] at hg
      cases hc : fget m k with
      | none => rw [hc] at hg; cases hg
      | some c =>
        rw [hc] at hg
        have : c = t := by cases hg; rfl
        subst this
        cases fuel with
        | zero => rw [process1_zero] at h; cases h
        | succ f =>
          simp only [refFree] at hv
          obtain ⟨r, hx, hfold⟩ := process1_free_map_inv hv h
          subst hx
          obtain ⟨s1, _⟩ := mapFold_spec m [] r rt (sorted_nodup (wf_map_iff.1 hw).1)
            (fun p hp => (refFreeFields_mem hv p hp).1) hfold
          obtain ⟨y, hy, hfy⟩ := s1 (k, c) (fget_mem hc)
          refine ⟨y, (process1_mono f [] .null none c).ok hy, ?_⟩
          simp only [getPath, hfy, fget]
          cases y.isNull <;> rfl
    | _ => cases hg
  | cons k2 ks ih =>
    intro k fuel v x rt t hv hw h hg
    cases v with
    | map m =>
      simp only [getPath] at hg
      cases hc : fget m k with
      | none => rw [hc] at hg; cases hg
      | some c =>
        rw [hc] at hg
        simp only [] at hg
        cases fuel with
        | zero => rw [process1_zero] at h; cases h
        | succ f =>
          simp only [refFree] at hv
          obtain ⟨r, hx, hfold⟩ := process1_free_map_inv hv h
          subst hx
          obtain ⟨s1, _⟩ := mapFold_spec m [] r rt (sorted_nodup (wf_map_iff.1 hw).1)
            (fun p hp => (refFreeFields_mem hv p hp).1) hfold
          obtain ⟨y, hy, hfy⟩ := s1 (k, c) (fget_mem hc)
          have hcf : refFree c = true := (refFreeFields_mem hv _ (fget_mem hc)).2
          have hcw : Val.WF c := wf_of_fget hw hc
          obtain ⟨tv, htv, hp⟩ := ih k2 f c y .null t hcf hcw hy hg
          refine ⟨tv, (process1_mono f [] .null none t).ok htv, ?_⟩
          -- `c` holds a path, so it is a map, and so is its evaluation: not null
          cases c with
          | map cm =>
            cases f with
            | zero => rw [process1_zero] at hy; cases hy
            | succ f' =>
              simp only [refFree] at hcf
              obtain ⟨cr, hcx, _⟩ := process1_free_map_inv hcf hy
              subst hcx
              simp only [Val.isNull, Bool.false_eq_true, if_false, fget] at hfy
              simp only [getPath, hfy]
              exact hp
          | _ => cases hg
    | _ => cases hg

/-! ## what `docRun` produces -/

theorem freeFold_inv {fuel : Nat} {l acc r : Fields} (h : freeFold fuel l acc = .ok r) :
    l.foldlM (mapStep fuel [] none) (acc, Val.null) = .ok (r, .null) := by
  unfold freeFold at h
  cases hf : l.foldlM (mapStep fuel [] none) (acc, Val.null) with
  | error e => rw [hf] at h; cases h
  | ok q =>
    obtain ⟨r', rt⟩ := q
    rw [hf] at h
    have hr : r' = r := by cases h; rfl
    have hrt : rt = .null :=
      foldlM_inv (fun st => st.2 = Val.null) _ _ _ _ rfl
        (fun s a s' _ hs hstep => by
          have := mapStep_frame (process1_frame fuel) hstep
          exact Eq.trans this hs) hf
    rw [hr, hrt]

theorem keyStep_inv {fuel : Nat} {k : String} {acc acc2 : Fields} {y : Val}
    (hk : refKey k = false) (h : keyStep fuel k acc y = .ok acc2) : acc2 = fset acc k y := by
  unfold keyStep at h
  cases fuel with
  | zero => rw [process1_zero] at h; cases h
  | succ f =>
    rw [process1_str_plain (refKey_false hk).2.2.1 (refKey_false hk).2.2.2] at h
    cases h; rfl

theorem docRun_inv {fuel : Nat} {pre post : Fields} {h : String} {hv : Val} {Y : R (Val × Val)}
    {v rt : Val} (hrun : docRun fuel pre h Y post = .ok (v, rt))
    (hnd : (pre ++ (h, hv) :: post).Pairwise (fun a b => a.1 ≠ b.1)) (hk : refKey h = false)
    (hpre : refFreeFields pre = true) (hpost : refFreeFields post = true) :
    ∃ y r, Y = .ok (y, rt) ∧ v = .map r ∧ fget r h = (if y.isNull then none else some y) ∧
      ∀ p ∈ pre ++ post, ∃ x, process1 fuel [] .null none p.2 = .ok (x, .null) ∧
        fget r p.1 = if x.isNull then none else some x := by
  unfold docRun at hrun
  obtain ⟨acc1, hf1, h2⟩ := R_bind_eq_ok.1 hrun
  obtain ⟨yy, hY, h3⟩ := R_bind_eq_ok.1 h2
  obtain ⟨acc2, hk2, h4⟩ := R_bind_eq_ok.1 h3
  obtain ⟨acc3, hf3, h5⟩ := R_bind_eq_ok.1 h4
  obtain ⟨y, rt1⟩ := yy
  cases h5
  rw [List.pairwise_append] at hnd
  obtain ⟨nd1, nd2, nd3⟩ := hnd
  rw [List.pairwise_cons] at nd2
  obtain ⟨s1a, s1b⟩ := mapFold_spec pre [] acc1 .null nd1
    (fun p hp => (refFreeFields_mem hpre p hp).1) (freeFold_inv hf1)
  obtain ⟨s3a, s3b⟩ := mapFold_spec post acc2 acc3 .null nd2.2
    (fun p hp => (refFreeFields_mem hpost p hp).1) (freeFold_inv hf3)
  have hpre_h : ∀ p ∈ pre, p.1 ≠ h := fun p hp => nd3 p hp (h, hv) List.mem_cons_self
  have hpost_h : ∀ p ∈ post, p.1 ≠ h := fun p hp => (nd2.1 p hp).symm
  have hacc2 : ∀ k, k ≠ h → fget acc2 k = fget acc1 k := by
    intro k hkne
    simp only [] at hk2
    cases hn : y.isNull with
    | true => rw [hn] at hk2; simp only [if_true] at hk2; cases hk2; rfl
    | false =>
      rw [hn] at hk2
      simp only [Bool.false_eq_true, if_false] at hk2
      rw [keyStep_inv hk hk2, fget_fset_ne _ _ _ _ hkne]
  refine ⟨y, acc3, hY, rfl, ?_, ?_⟩
  · rw [s3b h hpost_h]
    simp only [] at hk2
    cases hn : y.isNull with
    | true =>
      rw [hn] at hk2; simp only [if_true] at hk2 ⊢; cases hk2
      rw [s1b h hpre_h]; rfl
    | false =>
      rw [hn] at hk2
      simp only [Bool.false_eq_true, if_false] at hk2 ⊢
      rw [keyStep_inv hk hk2, fget_fset_same]
  · intro p hp
    rcases List.mem_append.1 hp with hp | hp
    · obtain ⟨x, hx, hfx⟩ := s1a p hp
      refine ⟨x, hx, ?_⟩
      rw [s3b p.1 (fun q hq => (nd3 p hp q (List.mem_cons_of_mem _ hq)).symm),
        hacc2 p.1 (hpre_h p hp), hfx]
      rfl
    · obtain ⟨x, hx, hfx⟩ := s3a p hp
      refine ⟨x, hx, ?_⟩
      rw [hfx, hacc2 p.1 (hpost_h p hp),
        s1b p.1 (fun q hq => nd3 q hq p (List.mem_cons_of_mem _ hp))]
      rfl

/-- In the value produced by `docRun`, a path that starts at a key other than the host key holds
    the evaluation of the subtree the (well-formed) document holds there. -/
theorem docRun_getPath {fuel : Nat} {pre post : Fields} {h k : String} {hv : Val}
    {Y : R (Val × Val)} {v rt t : Val} {ks : List String}
    (hrun : docRun fuel pre h Y post = .ok (v, rt))
    (hw : Val.WF (.map (pre ++ (h, hv) :: post))) (hk : refKey h = false)
    (hpre : refFreeFields pre = true) (hpost : refFreeFields post = true) (hkh : k ≠ h)
    (hg : getPath (.map (pre ++ (h, hv) :: post)) (k :: ks) = .ok t) :
    ∃ tv, process1 fuel [] .null none t = .ok (tv, .null) ∧
      getPath v (k :: ks) = if tv.isNull then .error .refNotFound else .ok tv := by
  have hnd := sorted_nodup (wf_map_iff.1 hw).1
  obtain ⟨y, r, _, hvr, _, hspec⟩ := docRun_inv hrun hnd hk hpre hpost
  subst hvr
  simp only [getPath] at hg
  cases hc : fget (pre ++ (h, hv) :: post) k with
  | none => rw [hc] at hg; cases hg
  | some c =>
    rw [hc] at hg
    simp only [] at hg
    have hmem : (k, c) ∈ pre ++ post := by
      have := fget_mem hc
      rcases List.mem_append.1 this with hm | hm
      · exact List.mem_append_left _ hm
      · rcases List.mem_cons.1 hm with hm | hm
        · cases hm; exact absurd rfl hkh
        · exact List.mem_append_right _ hm
    obtain ⟨x, hx, hfx⟩ := hspec (k, c) hmem
    have hcf : refFree c = true := by
      rcases List.mem_append.1 hmem with hm | hm
      · exact (refFreeFields_mem hpre _ hm).2
      · exact (refFreeFields_mem hpost _ hm).2
    have hcw : Val.WF c := wf_of_fget hw hc
    cases ks with
    | nil =>
      have : c = t := by simp only [getPath] at hg; cases hg; rfl
      subst this
      refine ⟨x, hx, ?_⟩
      simp only [getPath, hfx]
      cases x.isNull <;> rfl
    | cons k2 ks =>
      obtain ⟨tv, htv, hp⟩ := getPath_eval ks k2 fuel c x .null t hcf hcw hx hg
      refine ⟨tv, htv, ?_⟩
      cases c with
      | map cm =>
        cases fuel with
        | zero => rw [process1_zero] at hx; cases hx
        | succ f' =>
          simp only [refFree] at hcf
          obtain ⟨cr, hcx, _⟩ := process1_free_map_inv hcf hx
          subst hcx
          simp only [Val.isNull, Bool.false_eq_true, if_false] at hfx
          simp only [getPath, hfx]
          exact hp
      | _ => cases hg

/-! ## the referenced subtree in the result -/

theorem disjoint_keys {h k : String} (ks : List String) (hk : k ≠ h) :
    ¬ [PathElem.key h] <+: (k :: ks).map .key ∧ ¬ (k :: ks).map PathElem.key <+: [.key h] := by
  constructor
  · intro hp
    simp only [List.map_cons, List.cons_prefix_cons] at hp
    exact hk (by cases hp.1; rfl)
  · intro hp
    simp only [List.map_cons, List.cons_prefix_cons] at hp
    exact hk (by cases hp.1; rfl)

theorem replace_unchanged_core {fuel : Nat} {docs : List Val} {kvs : Fields} {h k : String}
    {hostv ref t v r' : Val} {ks : List String}
    (hw : Val.WF (.map kvs)) (hh : fget kvs h = some hostv) (hhk : refKey h = false)
    (hfw : Forwards hostv ref) (hp : PathRef ref (k :: ks)) (hk : k ≠ h)
    (ht : getPath (.map kvs) (k :: ks) = .ok t)
    (htf : refFree t = true) (ho : refFreeFields (fdel kvs h) = true)
    (hrun : process1 (fuel + 2) docs (.map kvs) (some []) (.map kvs) = .ok (v, r')) :
    r' = .map kvs ∧ ∃ tv, process1 (fuel + 1) [] .null none t = .ok (tv, .null) ∧
      getPath v (k :: ks) = (if tv.isNull then .error .refNotFound else .ok tv) ∧
      getPath v [h] = (if tv.isNull then .error .refNotFound else .ok tv) := by
  have hs := (wf_map_iff.1 hw).1
  obtain ⟨pre, post, e1, e2, e3⟩ := sorted_split hs hh
  rw [e3, refFreeFields_append] at ho
  rw [process1_doc_split2 hhk ho.1 ho.2 (congrArg Val.map e1)] at hrun
  have hw' : Val.WF (.map (pre ++ (h, hostv) :: post)) := e1 ▸ hw
  have ht' : getPath (.map (pre ++ (h, hostv) :: post)) (k :: ks) = .ok t := e1 ▸ ht
  obtain ⟨tv, htv, hpath⟩ := docRun_getPath hrun hw' hhk ho.1 ho.2 hk ht'
  obtain ⟨y, r, hY, hvr, hfh, _⟩ :=
    docRun_inv hrun (sorted_nodup (wf_map_iff.1 hw').1) hhk ho.1 ho.2
  rw [hfw fuel docs _ _, hp _ docs, ht, R_bind_ok, process1_refFree fuel t htf] at hY
  cases hX : process1 fuel [] .null none t with
  | error e => rw [hX] at hY; cases hY
  | ok q =>
    obtain ⟨y', rt⟩ := q
    rw [hX] at hY
    simp only [Except.map, Except.ok.injEq, Prod.mk.injEq] at hY
    obtain ⟨hy, hr'⟩ := hY
    subst hy
    have := (process1_mono fuel [] .null none t).ok hX
    rw [htv] at this
    have hty : tv = y' := by cases this; rfl
    subst hty
    refine ⟨hr'.symm, tv, htv, hpath, ?_⟩
    subst hvr
    simp only [getPath, hfh]
    cases tv.isNull <;> rfl

theorem merge_unchanged_core {fuel : Nat} {docs : List Val} {kvs m : Fields} {h k : String}
    {t v r' : Val} {ks : List String}
    (hw : Val.WF (.map kvs)) (hh : fget kvs h = some (.map m)) (hhk : refKey h = false)
    (hk : k ≠ h) (ht : getPath (.map kvs) (k :: ks) = .ok t)
    (ho : refFreeFields (fdel kvs h) = true)
    (hrun : process1 (fuel + 2) docs (.map kvs) (some []) (.map kvs) = .ok (v, r')) :
    getPath r' (k :: ks) = .ok t ∧ ∃ tv, process1 (fuel + 1) [] .null none t = .ok (tv, .null) ∧
      getPath v (k :: ks) = (if tv.isNull then .error .refNotFound else .ok tv) := by
  have hs := (wf_map_iff.1 hw).1
  obtain ⟨pre, post, e1, e2, e3⟩ := sorted_split hs hh
  rw [e3, refFreeFields_append] at ho
  rw [process1_doc_split2 hhk ho.1 ho.2 (congrArg Val.map e1)] at hrun
  have hw' : Val.WF (.map (pre ++ (h, Val.map m) :: post)) := e1 ▸ hw
  have ht' : getPath (.map (pre ++ (h, Val.map m) :: post)) (k :: ks) = .ok t := e1 ▸ ht
  obtain ⟨tv, htv, hpath⟩ := docRun_getPath hrun hw' hhk ho.1 ho.2 hk ht'
  obtain ⟨y, r, hY, _, _, _⟩ :=
    docRun_inv hrun (sorted_nodup (wf_map_iff.1 hw').1) hhk ho.1 ho.2
  refine ⟨?_, tv, htv, hpath⟩
  have hfr := process1_frame (fuel + 1) docs _ _ _ _ _ hY ((k :: ks).map .key)
    (disjoint_keys ks hk)
  rw [getPath_eq_getLoc, hfr, ← getPath_eq_getLoc, ht]

/-! ## a merge conflict at the host is the error of the document -/

theorem freeFold_ok {fuel : Nat} {l : Fields} (hl : refFreeFields l = true)
    (hd : ∀ p ∈ l, depth p.2 < fuel) (acc : Fields) : ∃ r, freeFold fuel l acc = .ok r := by
  obtain ⟨r, hr⟩ := mapFold_ok (fuel := fuel) (l := l) (fun p hp => by
    have := refFreeFields_mem hl p hp
    exact ⟨this.1, process1_refFree_ok fuel p.2 this.2 (hd p hp)⟩) acc
  exact ⟨r, by unfold freeFold; rw [hr]; rfl⟩

theorem inline_merge_error_core {fuel : Nat} {docs : List Val} {kvs m : Fields} {h k : String}
    {ref t : Val} {ks : List String} {e : Err}
    (hs : Fields.SortedKeys kvs) (hh : fget kvs h = some (.map m)) (hhk : refKey h = false)
    (hm : fget m "$merge" = some ref) (hp : PathRef ref (k :: ks)) (hk : k ≠ h)
    (ht : getPath (.map kvs) (k :: ks) = .ok t) (hti : MergeInlinable t)
    (ho : refFreeFields (fdel kvs h) = true)
    (hd : ∀ p ∈ fdel kvs h, depth p.2 < fuel + 1)
    (hn : merge (.map (fdel m "$merge")) t = .error e) :
    process1 (fuel + 2) docs (.map kvs) (some []) (.map kvs) = .error e := by
  obtain ⟨pre, post, e1, e2, e3⟩ := sorted_split hs hh
  rw [e3] at hd
  rw [e3, refFreeFields_append] at ho
  rw [process1_doc_split2 hhk ho.1 ho.2 (congrArg Val.map e1),
    merge_host_error hh hm hp hk ht hti hn]
  obtain ⟨r, hr⟩ := freeFold_ok ho.1 (fun p hp => hd p (List.mem_append_left _ hp)) []
  unfold docRun
  rw [hr]
  rfl

/-! ## the fold of a map whose entries leave the root alone -/

theorem mapStep_inv_root {fuel : Nat} {docs : List Val} {root : Val} {loc : Loc} {acc : Fields}
    {k : String} {v : Val} {b' : Fields × Val} (hk : refKey k = false)
    (hconst : ∀ x rt', process1 fuel docs root (childLoc loc k) v = .ok (x, rt') → rt' = root)
    (hb : mapStep fuel docs loc (acc, root) (k, v) = .ok b') :
    ∃ x, process1 fuel docs root (childLoc loc k) v = .ok (x, root) ∧
      b' = (if x.isNull then acc else fset acc k x, root) := by
  simp only [mapStep] at hb
  obtain ⟨⟨v2, rt1⟩, h1, h2⟩ := R_bind_eq_ok.1 hb
  have hrt : rt1 = root := hconst _ _ h1
  subst hrt
  refine ⟨v2, h1, ?_⟩
  simp only [] at h2
  cases hn : v2.isNull with
  | true =>
    rw [hn] at h2
    simp only [if_true] at h2 ⊢
    cases h2; rfl
  | false =>
    rw [hn] at h2
    simp only [Bool.false_eq_true, if_false] at h2 ⊢
    obtain ⟨⟨k2, rt2⟩, h3, h4⟩ := R_bind_eq_ok.1 h2
    cases fuel with
    | zero => rw [process1_zero] at h3; cases h3
    | succ f =>
      rw [process1_str_plain (refKey_false hk).2.2.1 (refKey_false hk).2.2.2] at h3
      cases h3
      cases h4; rfl

theorem mapFold_spec_root {fuel : Nat} {docs : List Val} {root : Val} {loc : Loc} :
    ∀ (l : Fields) (acc r : Fields) (rt : Val),
    l.Pairwise (fun a b => a.1 ≠ b.1) → (∀ p ∈ l, refKey p.1 = false) →
    (∀ p ∈ l, ∀ x rt', process1 fuel docs root (childLoc loc p.1) p.2 = .ok (x, rt') →
      rt' = root) →
    l.foldlM (mapStep fuel docs loc) (acc, root) = .ok (r, rt) →
    rt = root ∧
    (∀ p ∈ l, ∃ x, process1 fuel docs root (childLoc loc p.1) p.2 = .ok (x, root) ∧
        fget r p.1 = if x.isNull then fget acc p.1 else some x) ∧
    (∀ k, (∀ p ∈ l, p.1 ≠ k) → fget r k = fget acc k) := by
  intro l
  induction l with
  | nil =>
    intro acc r rt _ _ _ h
    rw [foldlM_nil] at h
    cases h
    exact ⟨rfl, fun p hp => (by cases hp), fun k _ => rfl⟩
  | cons hd tl ih =>
    intro acc r rt hnd hkeys hconst h
    obtain ⟨k, v⟩ := hd
    rw [foldlM_cons] at h
    split at h
    · cases h
    · rename_i b' hb
      obtain ⟨x, hx, hb'⟩ := mapStep_inv_root (hkeys (k, v) List.mem_cons_self)
        (hconst (k, v) List.mem_cons_self) hb
      subst hb'
      rw [List.pairwise_cons] at hnd
      obtain ⟨ih0, ih1, ih2⟩ := ih _ r rt hnd.2
        (fun p hp => hkeys p (List.mem_cons_of_mem _ hp))
        (fun p hp => hconst p (List.mem_cons_of_mem _ hp)) h
      refine ⟨ih0, ?_, ?_⟩
      · intro p hp
        rcases List.mem_cons.1 hp with rfl | hp
        · refine ⟨x, hx, ?_⟩
          rw [ih2 k (fun q hq => (hnd.1 q hq).symm)]
          cases hn : x.isNull with
          | true => simp
          | false => simp [fget_fset_same]
        · obtain ⟨y, hy, hfy⟩ := ih1 p hp
          refine ⟨y, hy, ?_⟩
          rw [hfy]
          have hne : p.1 ≠ k := (hnd.1 p hp).symm
          cases hn : x.isNull with
          | true => simp
          | false => simp [fget_fset_ne _ _ _ _ hne]
      · intro k' hk'
        rw [ih2 k' (fun p hp => hk' p (List.mem_cons_of_mem _ hp))]
        have hne : k' ≠ k := (hk' (k, v) List.mem_cons_self).symm
        cases hn : x.isNull with
        | true => simp
        | false => simp [fget_fset_ne _ _ _ _ hne]

/-- A document made of a chain `a₁ → a₂ → … → aₖ: t` and reference-free entries: every `aᵢ` of
    the result holds the evaluation of `t`. -/
theorem chain_document_core {fuel : Nat} {docs : List Val} {kvs : Fields} {t tv v r' : Val}
    {as : List String}
    (hs : Fields.SortedKeys kvs) (hc : chainLinks kvs t as) (htf : refFree t = true)
    (hkeys : ∀ p ∈ kvs, refKey p.1 = false)
    (ho : ∀ p ∈ kvs, p.1 ∉ as → refFree p.2 = true)
    (htv : process1 fuel [] .null none t = .ok (tv, .null))
    (hrun : process1 (fuel + as.length + 1) docs (.map kvs) (some []) (.map kvs) = .ok (v, r')) :
    r' = .map kvs ∧ ∀ a ∈ as,
      getPath v [a] = if tv.isNull then .error .refNotFound else .ok tv := by
  have h0 : fget kvs "$merge" = none :=
    fget_none_iff.2 fun p hp => (refKey_false (hkeys p hp)).1
  have h1 : fget kvs "$replace" = none :=
    fget_none_iff.2 fun p hp => (refKey_false (hkeys p hp)).2.1
  -- what each entry evaluates to, at the fuel of the entries
  have hentry : ∀ p ∈ kvs, ∀ loc,
      (p.1 ∈ as → process1 (fuel + as.length) docs (.map kvs) loc p.2 = .ok (tv, .map kvs)) ∧
      ∀ x rt', process1 (fuel + as.length) docs (.map kvs) loc p.2 = .ok (x, rt') →
        rt' = .map kvs := by
    intro p hp loc
    by_cases hmem : p.1 ∈ as
    · obtain ⟨pre, rest, e⟩ := List.append_of_mem hmem
      have hsuf : chainLinks kvs t (p.1 :: rest) := chainLinks_suffix pre (e ▸ hc)
      obtain ⟨w, hw, hval⟩ := chain_value hsuf htf
      have hpw : p.2 = w := by
        have := fget_of_mem_sorted hs (show (p.1, p.2) ∈ kvs from hp)
        rw [hw] at this; cases this; rfl
      have hlen : fuel + as.length = (fuel + pre.length + 1) + rest.length := by
        rw [e, List.length_append, List.length_cons]; omega
      have hval' := hval (fuel + pre.length + 1) docs loc
      rw [← hlen, ← hpw] at hval'
      have htv' : process1 (fuel + pre.length + 1) [] .null none t = .ok (tv, .null) :=
        (process1_mono_add fuel (pre.length + 1) [] .null none t).ok htv
      rw [htv'] at hval'
      exact ⟨fun _ => hval', fun x rt' hx => by rw [hval'] at hx; cases hx; rfl⟩
    · refine ⟨fun hm => absurd hm hmem, fun x rt' hx => ?_⟩
      rw [process1_refFree _ p.2 (ho p hp hmem)] at hx
      cases hq : process1 (fuel + as.length) [] .null none p.2 with
      | error e => rw [hq] at hx; cases hx
      | ok q => rw [hq] at hx; cases hx; rfl
  rw [process1_map_plain h0 h1] at hrun
  obtain ⟨⟨r, rt⟩, h3, h4⟩ := R_bind_eq_ok.1 hrun
  cases h4
  obtain ⟨hrt, hspec, _⟩ := mapFold_spec_root kvs [] r rt (sorted_nodup hs) hkeys
    (fun p hp => (hentry p hp _).2) h3
  refine ⟨hrt, fun a ha => ?_⟩
  -- `a` is a key of `kvs`
  obtain ⟨pre, rest, e⟩ := List.append_of_mem ha
  have hsuf : chainLinks kvs t (a :: rest) := chainLinks_suffix pre (e ▸ hc)
  obtain ⟨w, hw, _⟩ := chain_value hsuf htf
  obtain ⟨x, hx, hfx⟩ := hspec (a, w) (fget_mem hw)
  rw [(hentry (a, w) (fget_mem hw) _).1 ha] at hx
  have : x = tv := by cases hx; rfl
  subst this
  simp only [getPath, hfx, fget]
  cases x.isNull <;> rfl

/-! ## concrete evaluations (counterexamples and non-vacuity) -/

theorem mapStep_ok {fuel : Nat} {docs : List Val} {loc : Loc} {acc : Fields} {rt rt1 : Val}
    {k : String} {v x : Val} (hk : refKey k = false)
    (h : process1 fuel docs rt (childLoc loc k) v = .ok (x, rt1)) (hn : x.isNull = false) :
    mapStep fuel docs loc (acc, rt) (k, v) = .ok (fset acc k x, rt1) := by
  cases fuel with
  | zero => rw [process1_zero] at h; cases h
  | succ f =>
    simp only [mapStep, h, R_bind_ok, hn, Bool.false_eq_true, if_false,
      process1_str_plain (refKey_false hk).2.2.1 (refKey_false hk).2.2.2]
    rfl

theorem mapStep_err {fuel : Nat} {docs : List Val} {loc : Loc} {acc : Fields} {rt : Val}
    {k : String} {v : Val} {e : Err}
    (h : process1 fuel docs rt (childLoc loc k) v = .error e) :
    mapStep fuel docs loc (acc, rt) (k, v) = .error e := by
  simp only [mapStep, h]; rfl

/-- evaluation of plain data -/
theorem process1_plain_eval {fuel : Nat} (docs : List Val) (root : Val) (loc : Loc) {v x : Val}
    (hp : plain v = true) (hw : Val.wfB v = true) {d : Nat} (hd : depth v = d) (hf : d < fuel)
    (hx : dropNulls v = x) : process1 fuel docs root loc v = .ok (x, root) := by
  rw [← hx]
  exact e_process1_plain fuel docs root loc v hp hw (by omega)

/-- `a: {$merge: b, x: 1}`, `b: {$replace: c}`, `c: {x: 1}` — the entry `a` merges the host -/
def cexHostMerged : Fields :=
  [("a", .map [("$merge", .str "b"), ("x", .int 1)]), ("b", .map [("$replace", .str "c")]),
   ("c", .map [("x", .int 1)])]

theorem cexHostMerged_ref (fuel : Nat) (docs : List Val) :
    Except.map Prod.fst
      (process1 (fuel + 5) docs (.map cexHostMerged) (some []) (.map cexHostMerged)) =
    .ok (.map [("a", .map [("x", .int 1)]), ("b", .map [("x", .int 1)]),
               ("c", .map [("x", .int 1)])]) := by
  have hmf : mergeFields [("x", Val.int 1)] [("$replace", Val.str "c")] =
      .ok [("$replace", .str "c"), ("x", .int 1)] := by
    rw [mergeFields_cons]
    have h1 : ((Val.str "c").toStr = "$delete") = False := by decide
    have h2 : fget [("x", Val.int 1)] "$replace" = none := by decide
    have h3 : fset [("x", Val.int 1)] "$replace" (.str "c") =
        [("$replace", .str "c"), ("x", .int 1)] := by decide
    simp only [h1, if_false, h2, h3, mergeFields_nil]
  -- the root after the host `a` has been expanded in place
  let kvs2 : Fields :=
    [("a", .map [("$replace", .str "c"), ("x", .int 1)]), ("b", .map [("$replace", .str "c")]),
     ("c", .map [("x", .int 1)])]
  have hx1 : ∀ (f : Nat) (loc : Loc),
      process1 (f + 2) docs (.map kvs2) loc (.map [("x", .int 1)]) =
        .ok (.map [("x", .int 1)], .map kvs2) := fun f loc =>
    process1_plain_eval docs _ loc (by decide) (by decide) (d := 1) (by decide) (by omega)
      (by decide)
  have hrepl : ∀ (f : Nat) (loc : Loc) (m : Fields), fget m "$merge" = none →
      fget m "$replace" = some (.str "c") →
      process1 (f + 3) docs (.map kvs2) loc (.map m) = .ok (.map [("x", .int 1)], .map kvs2) := by
    intro f loc m h0 h1
    rw [process1_map_replace h0 h1,
      get_simpleKey simpleKey_c (v := .map [("x", .int 1)]) docs (by decide), R_bind_ok]
    exact hx1 f none
  have ha : process1 (fuel + 4) docs (.map cexHostMerged) (some [.key "a"])
      (.map [("$merge", .str "b"), ("x", .int 1)]) = .ok (.map [("x", .int 1)], .map kvs2) := by
    rw [host_step (rkvs := cexHostMerged) (h := "a") (k := "b") simpleKey_b
      (by decide) (by decide : fdel _ "$merge" = [("x", Val.int 1)])
      (by decide : setPath (.map cexHostMerged) [.key "a"] (.map [("x", Val.int 1)]) =
        .map [("a", .map [("x", .int 1)]), ("b", .map [("$replace", .str "c")]),
              ("c", .map [("x", .int 1)])])
      (by decide : fget _ "b" = some (.map [("$replace", .str "c")])) (by decide) hmf
      (by decide : setPath _ [.key "a"] (.map [("$replace", .str "c"), ("x", .int 1)]) =
        .map kvs2)]
    exact hrepl fuel _ _ (by decide) (by decide)
  have hb : process1 (fuel + 4) docs (.map kvs2) (some [.key "b"])
      (.map [("$replace", .str "c")]) = .ok (.map [("x", .int 1)], .map kvs2) :=
    hrepl (fuel + 1) _ _ (by decide) (by decide)
  have hc : process1 (fuel + 4) docs (.map kvs2) (some [.key "c"])
      (.map [("x", .int 1)]) = .ok (.map [("x", .int 1)], .map kvs2) := hx1 (fuel + 2) _
  rw [process1_map_plain (by decide) (by decide)]
  simp only [cexHostMerged] at ha ⊢
  simp only [foldlM_cons, foldlM_nil,
    mapStep_ok (loc := some []) (by decide : refKey "a" = false) ha rfl,
    mapStep_ok (loc := some []) (by decide : refKey "b" = false) hb rfl,
    mapStep_ok (loc := some []) (by decide : refKey "c" = false) hc rfl,
    R_bind_ok, R_pure, Except.map]
  exact congrArg (fun x => Except.ok (Val.map x)) (by decide)

theorem cexHostMerged_inline (fuel : Nat) (docs : List Val) :
    process1 (fuel + 3) docs (.map (fset cexHostMerged "b" (.map [("x", .int 1)]))) (some [])
      (.map (fset cexHostMerged "b" (.map [("x", .int 1)]))) = .error .uselessOverride := by
  have hkvs : fset cexHostMerged "b" (.map [("x", .int 1)]) =
      [("a", .map [("$merge", .str "b"), ("x", .int 1)]), ("b", .map [("x", .int 1)]),
       ("c", .map [("x", .int 1)])] := by decide
  rw [hkvs]
  have hmf : mergeFields [("x", Val.int 1)] [("x", Val.int 1)] = .error .uselessOverride := by
    rw [mergeFields_cons]
    have h1 : ((Val.int 1).toStr = "$delete") = False := by decide
    have h2 : fget [("x", Val.int 1)] "x" = some (.int 1) := by decide
    have h3 : merge (.int 1) (.int 1) = .error .uselessOverride := by
      rw [merge_scalar _ _ rfl]; rfl
    simp only [h1, if_false, h2, h3]
  have ha : process1 (fuel + 2) docs
      (.map [("a", .map [("$merge", .str "b"), ("x", .int 1)]), ("b", .map [("x", .int 1)]),
             ("c", .map [("x", .int 1)])]) (some [.key "a"])
      (.map [("$merge", .str "b"), ("x", .int 1)]) = .error .uselessOverride :=
    process1_merge_step_error (s := [("x", .int 1)]) (by decide) rfl
      (get_simpleKey simpleKey_b docs (by decide)) (by decide) hmf
  rw [process1_map_plain (by decide) (by decide), foldlM_cons,
    mapStep_err (loc := some []) ha]
  rfl

/-- `a: nest n`, `b: {$replace: a}` -/
def cexDeep (n : Nat) : Fields := [("a", nest n), ("b", .map [("$replace", .str "a")])]

theorem nest_not_null (n : Nat) : (nest n).isNull = false := by cases n <;> rfl

theorem nest_refFree (n : Nat) : refFree (nest n) = true :=
  plain_refFree _ (e_inert_plain (e_nest_props n).1)

/-- following the reference costs one level of the depth guard: with `fuel + 2` units the
    document `a: nest fuel, b: {$replace: a}` hits the guard … -/
theorem cexDeep_ref (fuel : Nat) (docs : List Val) :
    process1 (fuel + 2) docs (.map (cexDeep fuel)) (some []) (.map (cexDeep fuel)) =
      .error .circularRef := by
  obtain ⟨h1, h2, h3, h4⟩ := e_nest_props fuel
  have ha : process1 (fuel + 1) docs (.map (cexDeep fuel)) (some [.key "a"]) (nest fuel) =
      .ok (nest fuel, .map (cexDeep fuel)) :=
    process1_plain_eval docs _ _ (e_inert_plain h1) h2 h3 (by omega) h4
  have hb : process1 (fuel + 1) docs (.map (cexDeep fuel)) (some [.key "b"])
      (.map [("$replace", .str "a")]) = .error .circularRef := by
    rw [process1_map_replace (ref := .str "a") (by decide) (by decide),
      get_simpleKey simpleKey_a (v := nest fuel) docs (by simp [cexDeep, fget]), R_bind_ok]
    exact e_nest_fail fuel fuel docs _ _ (Nat.le_refl _)
  rw [process1_map_plain (by simp [cexDeep, fget]) (by simp [cexDeep, fget])]
  simp only [cexDeep] at ha hb ⊢
  rw [foldlM_cons, mapStep_ok (loc := some []) (by decide : refKey "a" = false) ha
    (nest_not_null fuel)]
  simp only []
  rw [foldlM_cons, mapStep_err (loc := some []) hb]
  rfl

/-- … while the document with the subtree written inline evaluates -/
theorem cexDeep_inline (fuel : Nat) (docs : List Val) :
    process1 (fuel + 2) docs (.map (fset (cexDeep fuel) "b" (nest fuel))) (some [])
      (.map (fset (cexDeep fuel) "b" (nest fuel))) =
      .ok (.map [("a", nest fuel), ("b", nest fuel)], .map [("a", nest fuel), ("b", nest fuel)]) := by
  obtain ⟨h1, h2, h3, h4⟩ := e_nest_props fuel
  have hkvs : fset (cexDeep fuel) "b" (nest fuel) = [("a", nest fuel), ("b", nest fuel)] := by
    simp [cexDeep, fset]
  rw [hkvs]
  have hpl := e_inert_plain h1
  simp only [plain] at hpl
  refine process1_plain_eval docs _ _ (d := fuel + 1) ?_ ?_ ?_ (by omega) ?_
  · simp only [plain, allStr, allStrFields, hpl, Bool.and_true]
    decide
  · simp only [Val.wfB, Val.wfFieldsB, h2, Fields.sortedKeysB, Bool.and_true]
    decide
  · simp only [depth, depthFields, h3]
    omega
  · have hn := nest_not_null fuel
    simp only [dropNulls, dropNullsFields, hn, Bool.false_eq_true, if_false, h4]

/-! ## small facts used by the non-vacuity examples -/

theorem refFree_ne_circ {fuel : Nat} {v : Val} (hv : refFree v = true) (hd : depth v < fuel)
    (docs : List Val) (root : Val) (loc : Loc) :
    process1 fuel docs root loc v ≠ .error .circularRef := by
  rw [process1_refFree fuel v hv docs root loc]
  obtain ⟨x, hx⟩ := process1_refFree_ok fuel v hv hd
  rw [hx]; intro h; cases h

theorem ok_of_map_fst {X : R (Val × Val)} {v : Val} (h : Except.map Prod.fst X = .ok v) :
    ∃ r', X = .ok (v, r') := by
  cases X with
  | error e => cases h
  | ok q =>
    obtain ⟨a, b⟩ := q
    simp only [Except.map, Except.ok.injEq] at h
    exact ⟨b, by rw [← h]⟩

theorem toLower_a_c : "a.c".toLower = "a.c" := by
  apply String.toList_inj.1
  simp [String.toLower, String.toList_map]

theorem parseRef_a_c : parseRef "a.c" = some (.str "a.c") := by
  have h : isPlainRef "a.c" = true := by
    unfold isPlainRef
    have : "a.c".toList = ['a', '.', 'c'] := by decide
    rw [this]
    simp only []
    have h2 : reservedWords.contains "a.c".toLower = false := by
      rw [toLower_a_c]; decide
    rw [h2]; decide
  simp [parseRef, h]

theorem splitOn_a_c : "a.c".splitOn "." = ["a", "c"] := by
  rw [splitOn_dot]; decide

/-- `a: {y: 2}`, `b: {$replace: [b, $merge]}`-style reader of a raw `$merge` host:
    `a: {$replace: [b, $merge]}`, `b: {$merge: c, x: 1}`, `c: {y: 2}` -/
def cexHostRead : Fields :=
  [("a", .map [("$replace", .list [.str "b", .str "$merge"])]),
   ("b", .map [("$merge", .str "c"), ("x", .int 1)]), ("c", .map [("y", .int 2)])]

theorem mergeFields_x_y :
    mergeFields [("x", Val.int 1)] [("y", Val.int 2)] = .ok [("x", .int 1), ("y", .int 2)] := by
  rw [mergeFields_cons]
  have h1 : ((Val.int 2).toStr = "$delete") = False := by decide
  have h2 : fget [("x", Val.int 1)] "y" = none := by decide
  have h3 : fset [("x", Val.int 1)] "y" (.int 2) = [("x", .int 1), ("y", .int 2)] := by decide
  simp only [h1, if_false, h2, h3, mergeFields_nil]

theorem cexHostRead_ref (fuel : Nat) (docs : List Val) :
    Except.map Prod.fst
      (process1 (fuel + 4) docs (.map cexHostRead) (some []) (.map cexHostRead)) =
    .ok (.map [("a", .str "c"), ("b", .map [("x", .int 1), ("y", .int 2)]),
               ("c", .map [("y", .int 2)])]) := by
  let kvs2 : Fields :=
    [("a", .map [("$replace", .list [.str "b", .str "$merge"])]),
     ("b", .map [("x", .int 1), ("y", .int 2)]), ("c", .map [("y", .int 2)])]
  have ha : process1 (fuel + 3) docs (.map cexHostRead) (some [.key "a"])
      (.map [("$replace", .list [.str "b", .str "$merge"])]) =
        .ok (.str "c", .map cexHostRead) := by
    have hg : get (.map cexHostRead) docs (.list [.str "b", .str "$merge"]) =
        getPath (.map cexHostRead) ["b", "$merge"] := get_list_strs _ docs "b" ["$merge"]
    rw [process1_map_replace (ref := .list [.str "b", .str "$merge"]) (by decide) (by decide), hg]
    have : getPath (.map cexHostRead) ["b", "$merge"] = .ok (.str "c") := by
      simp [getPath, cexHostRead, fget]; rfl
    rw [this, R_bind_ok]
    exact process1_plain_eval docs _ _ (by decide) (by decide) (d := 0) (by decide) (by omega)
      (by decide)
  have hb : process1 (fuel + 3) docs (.map cexHostRead) (some [.key "b"])
      (.map [("$merge", .str "c"), ("x", .int 1)]) =
        .ok (.map [("x", .int 1), ("y", .int 2)], .map kvs2) := by
    rw [host_step (rkvs := cexHostRead) (h := "b") (k := "c") simpleKey_c
      (by decide) (by decide : fdel _ "$merge" = [("x", Val.int 1)])
      (by decide : setPath (.map cexHostRead) [.key "b"] (.map [("x", Val.int 1)]) =
        .map [("a", .map [("$replace", .list [.str "b", .str "$merge"])]),
              ("b", .map [("x", .int 1)]), ("c", .map [("y", .int 2)])])
      (by decide : fget _ "c" = some (.map [("y", .int 2)])) (by decide) mergeFields_x_y
      (by decide : setPath _ [.key "b"] (.map [("x", .int 1), ("y", .int 2)]) = .map kvs2)]
    exact process1_plain_eval docs _ _ (by decide) (by decide) (d := 1) (by decide) (by omega)
      (by decide)
  have hc : process1 (fuel + 3) docs (.map kvs2) (some [.key "c"])
      (.map [("y", .int 2)]) = .ok (.map [("y", .int 2)], .map kvs2) :=
    process1_plain_eval docs _ _ (by decide) (by decide) (d := 1) (by decide) (by omega)
      (by decide)
  rw [process1_map_plain (by decide) (by decide)]
  simp only [cexHostRead] at ha hb ⊢
  simp only [foldlM_cons, foldlM_nil,
    mapStep_ok (loc := some []) (by decide : refKey "a" = false) ha rfl,
    mapStep_ok (loc := some []) (by decide : refKey "b" = false) hb rfl,
    mapStep_ok (loc := some []) (by decide : refKey "c" = false) hc rfl,
    R_bind_ok, R_pure, Except.map]
  exact congrArg (fun x => Except.ok (Val.map x)) (by decide)

theorem cexHostRead_inline (fuel : Nat) (docs : List Val) :
    process1 (fuel + 2) docs
      (.map (fset cexHostRead "b" (.map [("x", .int 1), ("y", .int 2)]))) (some [])
      (.map (fset cexHostRead "b" (.map [("x", .int 1), ("y", .int 2)]))) =
        .error .refNotFound := by
  have hkvs : fset cexHostRead "b" (.map [("x", .int 1), ("y", .int 2)]) =
      [("a", .map [("$replace", .list [.str "b", .str "$merge"])]),
       ("b", .map [("x", .int 1), ("y", .int 2)]), ("c", .map [("y", .int 2)])] := by decide
  rw [hkvs]
  have ha : process1 (fuel + 1) docs
      (.map [("a", .map [("$replace", .list [.str "b", .str "$merge"])]),
             ("b", .map [("x", .int 1), ("y", .int 2)]), ("c", .map [("y", .int 2)])])
      (some [.key "a"]) (.map [("$replace", .list [.str "b", .str "$merge"])]) =
        .error .refNotFound := by
    have hg := get_list_strs (.map [("a", .map [("$replace", .list [.str "b", .str "$merge"])]),
             ("b", .map [("x", .int 1), ("y", .int 2)]), ("c", .map [("y", .int 2)])])
      docs "b" ["$merge"]
    simp only [List.map_cons, List.map_nil] at hg
    rw [process1_map_replace (ref := .list [.str "b", .str "$merge"]) (by decide) (by decide), hg]
    rfl
  rw [process1_map_plain (by decide) (by decide), foldlM_cons,
    mapStep_err (loc := some []) ha]
  rfl

/-! ## the chain document evaluates -/

theorem mapFold_ok_root {fuel : Nat} {docs : List Val} {root : Val} {loc : Loc} {l : Fields}
    (h : ∀ p ∈ l, refKey p.1 = false ∧
      ∃ x, process1 fuel docs root (childLoc loc p.1) p.2 = .ok (x, root))
    (acc : Fields) : ∃ r, l.foldlM (mapStep fuel docs loc) (acc, root) = .ok (r, root) := by
  induction l generalizing acc with
  | nil => exact ⟨acc, rfl⟩
  | cons hd tl ih =>
    obtain ⟨k, v⟩ := hd
    obtain ⟨hk, x, hx⟩ := h (k, v) List.mem_cons_self
    have htl := fun p hp => h p (List.mem_cons_of_mem _ hp)
    rw [foldlM_cons]
    cases hn : x.isNull with
    | true =>
      have : mapStep fuel docs loc (acc, root) (k, v) = .ok (acc, root) := by
        simp only [mapStep, hx, R_bind_ok, hn, if_true]; rfl
      rw [this]; exact ih htl acc
    | false =>
      rw [mapStep_ok hk hx hn]; exact ih htl _

theorem chain_document_ok {fuel : Nat} {docs : List Val} {kvs : Fields} {t tv : Val}
    {as : List String}
    (hs : Fields.SortedKeys kvs) (hc : chainLinks kvs t as) (htf : refFree t = true)
    (hkeys : ∀ p ∈ kvs, refKey p.1 = false)
    (ho : ∀ p ∈ kvs, p.1 ∉ as → refFree p.2 = true ∧ depth p.2 < fuel + as.length)
    (htv : process1 fuel [] .null none t = .ok (tv, .null)) :
    ∃ v, process1 (fuel + as.length + 1) docs (.map kvs) (some []) (.map kvs) =
      .ok (v, .map kvs) := by
  have h0 : fget kvs "$merge" = none :=
    fget_none_iff.2 fun p hp => (refKey_false (hkeys p hp)).1
  have h1 : fget kvs "$replace" = none :=
    fget_none_iff.2 fun p hp => (refKey_false (hkeys p hp)).2.1
  obtain ⟨r, hr⟩ := mapFold_ok_root (fuel := fuel + as.length) (docs := docs)
    (root := .map kvs) (loc := some []) (l := kvs) (fun p hp => by
      refine ⟨hkeys p hp, ?_⟩
      by_cases hmem : p.1 ∈ as
      · obtain ⟨pre, rest, e⟩ := List.append_of_mem hmem
        have hsuf : chainLinks kvs t (p.1 :: rest) := chainLinks_suffix pre (e ▸ hc)
        obtain ⟨w, hw, hval⟩ := chain_value hsuf htf
        have hpw : p.2 = w := by
          have := fget_of_mem_sorted hs (show (p.1, p.2) ∈ kvs from hp)
          rw [hw] at this; cases this; rfl
        have hlen : fuel + as.length = (fuel + pre.length + 1) + rest.length := by
          rw [e, List.length_append, List.length_cons]; omega
        have hval' := hval (fuel + pre.length + 1) docs (childLoc (some []) p.1)
        rw [← hlen, ← hpw] at hval'
        have htv' : process1 (fuel + pre.length + 1) [] .null none t = .ok (tv, .null) :=
          (process1_mono_add fuel (pre.length + 1) [] .null none t).ok htv
        rw [htv'] at hval'
        exact ⟨tv, hval'⟩
      · obtain ⟨hf, hd⟩ := ho p hp hmem
        obtain ⟨x, hx⟩ := process1_refFree_ok _ p.2 hf hd
        refine ⟨x, ?_⟩
        rw [process1_refFree _ p.2 hf, hx]; rfl) []
  rw [process1_map_plain h0 h1, hr]
  exact ⟨_, rfl⟩

/-! ## entries that never read the host

  `Safe h v`: `v` contains no map-level `$merge` key (so it is never expanded in place), and every
  reference it contains — the value of a `$replace` key, a `$merge:` / `$replace:` string, leaf
  or key — is a path reference into the referencing document whose first key is not `h` (no
  whole-document reference, no cross-document reference). -/

/-- the reference string `p` is a path that does not start at the key `h` (or is outside the
    modelled sub-language: an error whatever the document) -/
def safeStrRef (h : String) (p : String) : Bool :=
  match parseRef p with
  | some (.str s) =>
    match s.splitOn "." with
    | k :: _ => k != h
    | [] => false
  | some (.list l) =>
    match l with
    | .str k :: _ => k != h
    | _ => false
  | _ => true

/-- the reference value `ref` is such a path (string or list form), or not a reference at all
    (`get` fails whatever the document) -/
def safeRef (h : String) : Val → Bool
  | .str p => safeStrRef h p
  | .list l =>
    match l with
    | .str k :: _ => k != h
    | _ => false
  | .map _ => false
  | _ => true

def safeStr (h : String) (s : String) : Bool :=
  match stripPrefix s "$merge:" with
  | some p => safeStrRef h p
  | none =>
    match stripPrefix s "$replace:" with
    | some p => safeStrRef h p
    | none => true

mutual
def Safe (h : String) : Val → Bool
  | .str s => safeStr h s
  | .list xs => SafeList h xs
  | .map kvs => SafeFields h kvs
  | _ => true
def SafeList (h : String) : List Val → Bool
  | [] => true
  | x :: xs => Safe h x && SafeList h xs
def SafeFields (h : String) : Fields → Bool
  | [] => true
  | (k, v) :: rest =>
    !(k == "$merge") && safeStr h k && (!(k == "$replace") || safeRef h v) && Safe h v &&
      SafeFields h rest
end

theorem safeList_mem {h : String} {xs : List Val} (hs : SafeList h xs = true) :
    ∀ x ∈ xs, Safe h x = true := by
  induction xs with
  | nil => intro x hx; cases hx
  | cons a t ih =>
    simp only [SafeList, Bool.and_eq_true] at hs
    intro x hx
    rcases List.mem_cons.1 hx with rfl | hx
    · exact hs.1
    · exact ih hs.2 x hx

theorem safeFields_mem {h : String} {kvs : Fields} (hs : SafeFields h kvs = true) :
    ∀ q ∈ kvs, q.1 ≠ "$merge" ∧ safeStr h q.1 = true ∧ (q.1 = "$replace" → safeRef h q.2 = true) ∧
      Safe h q.2 = true := by
  induction kvs with
  | nil => intro x hx; cases hx
  | cons a t ih =>
    obtain ⟨k, v⟩ := a
    simp only [SafeFields, Bool.and_eq_true, Bool.not_eq_true', beq_eq_false_iff_ne,
      Bool.or_eq_true] at hs
    intro x hx
    rcases List.mem_cons.1 hx with rfl | hx
    · refine ⟨hs.1.1.1.1, hs.1.1.1.2, fun e => ?_, hs.1.2⟩
      rcases hs.1.1.2 with h1 | h1
      · exact absurd e h1
      · exact h1
    · exact ih hs.2 x hx

theorem safeFields_of_mem {h : String} {kvs : Fields}
    (hs : ∀ q ∈ kvs, q.1 ≠ "$merge" ∧ safeStr h q.1 = true ∧
      (q.1 = "$replace" → safeRef h q.2 = true) ∧ Safe h q.2 = true) :
    SafeFields h kvs = true := by
  induction kvs with
  | nil => rfl
  | cons a t ih =>
    obtain ⟨k, v⟩ := a
    obtain ⟨h1, h2, h3, h4⟩ := hs (k, v) List.mem_cons_self
    simp only [SafeFields, Bool.and_eq_true, Bool.not_eq_true', beq_eq_false_iff_ne,
      Bool.or_eq_true]
    refine ⟨⟨⟨⟨h1, h2⟩, ?_⟩, h4⟩, ih (fun q hq => hs q (List.mem_cons_of_mem _ hq))⟩
    by_cases e : k = "$replace"
    · exact Or.inr (h3 e)
    · exact Or.inl e

theorem safeFields_append {h : String} {a b : Fields} :
    SafeFields h (a ++ b) = true ↔ SafeFields h a = true ∧ SafeFields h b = true := by
  constructor
  · intro hs
    exact ⟨safeFields_of_mem fun q hq => safeFields_mem hs q (List.mem_append_left _ hq),
      safeFields_of_mem fun q hq => safeFields_mem hs q (List.mem_append_right _ hq)⟩
  · rintro ⟨ha, hb⟩
    apply safeFields_of_mem
    intro q hq
    rcases List.mem_append.1 hq with hq | hq
    · exact safeFields_mem ha q hq
    · exact safeFields_mem hb q hq

theorem safeFields_no_merge {h : String} {kvs : Fields} (hs : SafeFields h kvs = true) :
    fget kvs "$merge" = none :=
  fget_none_iff.2 fun p hp => (safeFields_mem hs p hp).1

theorem safeFields_replace {h : String} {kvs : Fields} {ref : Val}
    (hs : SafeFields h kvs = true) (hr : fget kvs "$replace" = some ref) :
    safeRef h ref = true :=
  (safeFields_mem hs _ (fget_mem hr)).2.2.1 rfl

/-- a subtree of a safe value is safe -/
theorem safe_getPath {h : String} : ∀ (ks : List String) (v t : Val), Safe h v = true →
    getPath v ks = .ok t → Safe h t = true := by
  intro ks
  induction ks with
  | nil => intro v t hv hg; cases hg; exact hv
  | cons k ks ih =>
    intro v t hv hg
    cases v with
    | map m =>
      simp only [getPath] at hg
      cases hc : fget m k with
      | none => rw [hc] at hg; cases hg
      | some c =>
        rw [hc] at hg
        simp only [Safe] at hv
        exact ih c t (safeFields_mem hv _ (fget_mem hc)).2.2.2 hg
    | _ => cases hg

/-- the entries of the root other than `h` are safe -/
def SafeRoot (h : String) (a : Fields) : Prop :=
  ∀ k v, k ≠ h → fget a k = some v → Safe h v = true

/-- two roots that agree outside the key `h` -/
def AgreeOff (h : String) (a a' : Fields) : Prop := ∀ k, k ≠ h → fget a' k = fget a k

theorem getPath_agree {h k : String} {a a' : Fields} (ks : List String) (hk : k ≠ h)
    (hag : AgreeOff h a a') : getPath (.map a') (k :: ks) = getPath (.map a) (k :: ks) := by
  simp only [getPath, hag k hk]

theorem getPath_safeRoot {h k : String} {a : Fields} {ks : List String} {t : Val} (hk : k ≠ h)
    (hinv : SafeRoot h a) (hg : getPath (.map a) (k :: ks) = .ok t) : Safe h t = true := by
  simp only [getPath] at hg
  cases hc : fget a k with
  | none => rw [hc] at hg; cases hg
  | some c =>
    rw [hc] at hg
    exact safe_getPath ks c t (hinv k c hk hc) hg

theorem toStringList_str_cons {k : String} {rest : List Val} {sl : List String}
    (h : toStringList (.str k :: rest) = .ok sl) : ∃ ks, sl = k :: ks := by
  unfold toStringList at h
  rw [mapM_cons] at h
  simp only [] at h
  split at h
  · cases h
  · rename_i b hb
    have : b = k := by cases hb; rfl
    subst this
    split at h
    · cases h
    · rename_i bs _
      cases h
      exact ⟨bs, rfl⟩

/-- a path given as a list whose first entry is the string `k ≠ h` -/
theorem getPathFromList_sim {h k : String} {a a' : Fields} (docs : List Val) (rest : List Val)
    (hk : k ≠ h) (hinv : SafeRoot h a) (hag : AgreeOff h a a') :
    getPathFromList (.map a') docs (.str k :: rest) =
        getPathFromList (.map a) docs (.str k :: rest) ∧
      ∀ inp, getPathFromList (.map a) docs (.str k :: rest) = .ok inp → Safe h inp = true := by
  have e : ∀ root : Val, getPathFromList root docs (.str k :: rest) =
      (toStringList (.str k :: rest) >>= fun sl => getPath root sl) := fun root => rfl
  rw [e, e]
  cases hsl : toStringList (.str k :: rest) with
  | error e => exact ⟨rfl, fun inp hi => by cases hi⟩
  | ok sl =>
    obtain ⟨ks, rfl⟩ := toStringList_str_cons hsl
    simp only [R_bind_ok]
    exact ⟨getPath_agree ks hk hag, fun inp hi => getPath_safeRoot hk hinv hi⟩

theorem get_sim_str {h p : String} {a a' : Fields} (docs : List Val)
    (hp : safeStrRef h p = true) (hinv : SafeRoot h a) (hag : AgreeOff h a a') :
    get (.map a') docs (.str p) = get (.map a) docs (.str p) ∧
      ∀ inp, get (.map a) docs (.str p) = .ok inp → Safe h inp = true := by
  rw [get_str, get_str]
  unfold safeStrRef at hp
  unfold getPathFromString
  cases hpr : parseRef p with
  | none => exact ⟨rfl, fun inp hi => by cases hi⟩
  | some r =>
    rw [hpr] at hp
    cases r with
    | str s =>
      simp only [] at hp ⊢
      cases hsp : s.splitOn "." with
      | nil => rw [hsp] at hp; cases hp
      | cons k ks =>
        rw [hsp] at hp
        have hk : k ≠ h := by simpa using hp
        exact ⟨getPath_agree ks hk hag, fun inp hi => getPath_safeRoot hk hinv hi⟩
    | list l =>
      simp only [] at hp ⊢
      cases l with
      | nil => cases hp
      | cons x rest =>
        cases x with
        | str k =>
          have hk : k ≠ h := by simpa using hp
          exact getPathFromList_sim docs rest hk hinv hag
        | _ => cases hp
    | null => exact ⟨rfl, fun inp hi => by cases hi⟩
    | bool _ => exact ⟨rfl, fun inp hi => by cases hi⟩
    | int _ => exact ⟨rfl, fun inp hi => by cases hi⟩
    | flt _ => exact ⟨rfl, fun inp hi => by cases hi⟩
    | map _ => exact ⟨rfl, fun inp hi => by cases hi⟩

theorem get_invalid (root : Val) (docs : List Val) (m : Val) (h1 : m.isStr = false)
    (h2 : m.isList = false) (h3 : m.isMap = false) : get root docs m = .error .invalidType := by
  cases m <;> simp [Val.isStr, Val.isList, Val.isMap] at h1 h2 h3 <;>
    (rw [get]; all_goals first | rfl | (intro _ h; cases h))

/-- a safe reference resolves alike in two roots that agree outside `h`, to a safe value -/
theorem get_sim {h : String} {ref : Val} {a a' : Fields} (docs : List Val)
    (hr : safeRef h ref = true) (hinv : SafeRoot h a) (hag : AgreeOff h a a') :
    get (.map a') docs ref = get (.map a) docs ref ∧
      ∀ inp, get (.map a) docs ref = .ok inp → Safe h inp = true := by
  cases ref with
  | str p => exact get_sim_str docs hr hinv hag
  | list l =>
    rw [get_list, get_list]
    simp only [safeRef] at hr
    cases l with
    | nil => cases hr
    | cons x rest =>
      cases x with
      | str k =>
        have hk : k ≠ h := by simpa using hr
        exact getPathFromList_sim docs rest hk hinv hag
      | _ => cases hr
  | map _ => cases hr
  | null => rw [get_invalid _ _ _ rfl rfl rfl, get_invalid _ _ _ rfl rfl rfl]
            exact ⟨rfl, fun inp hi => by cases hi⟩
  | bool _ => rw [get_invalid _ _ _ rfl rfl rfl, get_invalid _ _ _ rfl rfl rfl]
              exact ⟨rfl, fun inp hi => by cases hi⟩
  | int _ => rw [get_invalid _ _ _ rfl rfl rfl, get_invalid _ _ _ rfl rfl rfl]
             exact ⟨rfl, fun inp hi => by cases hi⟩
  | flt _ => rw [get_invalid _ _ _ rfl rfl rfl, get_invalid _ _ _ rfl rfl rfl]
             exact ⟨rfl, fun inp hi => by cases hi⟩

/-! ## the simulation: safe values evaluate alike in roots that agree outside the host -/

/-- both runs fail with the same error, or both succeed with the same value and hand their
    roots back unchanged -/
def SimRel {α : Type} (r1 r2 : Val) (x y : R (α × Val)) : Prop :=
  match x, y with
  | .error e, .error e' => e = e'
  | .ok p, .ok q => p.1 = q.1 ∧ p.2 = r1 ∧ q.2 = r2
  | _, _ => False

theorem simRel_ok {α : Type} (r1 r2 : Val) (a : α) :
    SimRel r1 r2 (.ok (a, r1) : R (α × Val)) (.ok (a, r2)) := ⟨rfl, rfl, rfl⟩

theorem simRel_error {α : Type} (r1 r2 : Val) (e : Err) :
    SimRel r1 r2 (.error e : R (α × Val)) (.error e) := rfl

theorem simRel_bind {α β : Type} {r1 r2 : Val} {x y : R (α × Val)}
    {F G : α × Val → R (β × Val)} (h : SimRel r1 r2 x y)
    (hF : ∀ a, SimRel r1 r2 (F (a, r1)) (G (a, r2))) : SimRel r1 r2 (x >>= F) (y >>= G) := by
  cases x with
  | error e =>
    cases y with
    | error e' => have : e = e' := h; subst this; exact simRel_error _ _ _
    | ok q => exact h.elim
  | ok p =>
    cases y with
    | error e' => exact h.elim
    | ok q =>
      obtain ⟨a, ra⟩ := p
      obtain ⟨b, rb⟩ := q
      obtain ⟨h1, h2, h3⟩ := h
      simp only at h1 h2 h3
      subst h1 h2 h3
      exact hF a

/-- binding a root-free computation in front -/
theorem simRel_bind_pure {α β : Type} {r1 r2 : Val} (x : R α)
    {F G : α → R (β × Val)} (hF : ∀ a, SimRel r1 r2 (F a) (G a)) :
    SimRel r1 r2 (x >>= F) (x >>= G) := by
  cases x with
  | error e => exact simRel_error _ _ _
  | ok a => exact hF a

theorem simRel_foldlM {α β : Type} {r1 r2 : Val} {f g : β × Val → α → R (β × Val)} :
    ∀ (l : List α), (∀ acc, ∀ p ∈ l, SimRel r1 r2 (f (acc, r1) p) (g (acc, r2) p)) →
      ∀ acc, SimRel r1 r2 (l.foldlM f (acc, r1)) (l.foldlM g (acc, r2)) := by
  intro l
  induction l with
  | nil => intro _ acc; exact simRel_ok _ _ _
  | cons p tl ih =>
    intro h acc
    rw [List.foldlM_cons, List.foldlM_cons]
    exact simRel_bind (h acc p List.mem_cons_self)
      (fun a => ih (fun acc q hq => h acc q (List.mem_cons_of_mem _ hq)) a)

theorem simRel_map_fst {α : Type} {r1 r2 : Val} {x y : R (α × Val)} (h : SimRel r1 r2 x y) :
    Except.map Prod.fst x = Except.map Prod.fst y := by
  cases x with
  | error e =>
    cases y with
    | error e' => have : e = e' := h; subst this; rfl
    | ok q => exact h.elim
  | ok p =>
    cases y with
    | error e' => exact h.elim
    | ok q => simp only [Except.map]; rw [h.1]

/-- the non-null reference found by `popListMapValue` is the value of a single-key map entry -/
theorem popListMapValue_rep_mem {l : List Val} {k : String} {rep : Val} {rest : List Val}
    (h : popListMapValue l k = .ok (rep, rest)) (hn : rep.isNull = false) :
    ∃ m, Val.map m ∈ l ∧ fget m k = some rep := by
  rw [popListMapValue_eq] at h
  have := foldlM_inv
    (fun st : Val × List Val => st.1.isNull = true ∨ ∃ m, Val.map m ∈ l ∧ fget m k = some st.1)
    (popValStep k) l _ _ (Or.inl rfl)
    (fun s a s' ha hs hstep => by
      obtain ⟨ret, acc⟩ := s
      cases a with
      | map m =>
        simp only [popValStep] at hstep
        split at hstep
        · cases hstep; exact hs
        · split at hstep
          · rename_i val hval
            split at hstep
            · cases hstep
            · cases hstep; exact Or.inr ⟨m, ha, hval⟩
          · cases hstep; exact hs
      | _ => simp only [popValStep, R_pure] at hstep; cases hstep; exact hs) h
  rcases this with h1 | h1
  · simp only at h1; rw [hn] at h1; cases h1
  · exact h1

theorem safe_notMergeEntry {h : String} {v : Val} (hv : Safe h v = true) :
    notMergeEntry v = true := by
  unfold notMergeEntry
  split
  · rename_i k ref
    simp only [Safe] at hv
    have := (safeFields_mem hv (k, ref) List.mem_cons_self).1
    simpa using this
  · rfl

def SimIH (h : String) (fuel : Nat) : Prop :=
  ∀ (docs : List Val) (a a' : Fields) (loc loc' : Loc) (obj : Val),
    SafeRoot h a → AgreeOff h a a' → Safe h obj = true →
    SimRel (.map a) (.map a') (process1 fuel docs (.map a) loc obj)
      (process1 fuel docs (.map a') loc' obj)

theorem sim_get_step {h : String} {fuel : Nat} (ih : SimIH h fuel) {docs : List Val}
    {a a' : Fields} {ref : Val} (hinv : SafeRoot h a) (hag : AgreeOff h a a')
    (hr : safeRef h ref = true) :
    SimRel (.map a) (.map a')
      (get (.map a) docs ref >>= fun inp => process1 fuel docs (.map a) none inp)
      (get (.map a') docs ref >>= fun inp => process1 fuel docs (.map a') none inp) := by
  obtain ⟨hg, hsafe⟩ := get_sim docs hr hinv hag
  rw [hg]
  cases hget : get (.map a) docs ref with
  | error e => exact simRel_error _ _ _
  | ok inp => exact ih docs a a' none none inp hinv hag (hsafe inp hget)

theorem sim_mapStep {h : String} {fuel : Nat} (ih : SimIH h fuel) {docs : List Val}
    {a a' : Fields} {loc loc' : Loc} (hinv : SafeRoot h a) (hag : AgreeOff h a a')
    {k : String} {v : Val} (hk : safeStr h k = true) (hv : Safe h v = true) (acc : Fields) :
    SimRel (.map a) (.map a') (mapStep fuel docs loc (acc, .map a) (k, v))
      (mapStep fuel docs loc' (acc, .map a') (k, v)) := by
  simp only [mapStep]
  refine simRel_bind (ih docs a a' _ _ v hinv hag hv) ?_
  intro v2
  simp only []
  split
  · exact simRel_ok _ _ _
  · refine simRel_bind (ih docs a a' none none (.str k) hinv hag (by simpa [Safe] using hk)) ?_
    intro k2
    cases k2 <;> first | exact simRel_error _ _ _ | exact simRel_ok _ _ _

theorem sim_entryStep {h : String} {fuel : Nat} (ih : SimIH h fuel) {docs : List Val}
    {a a' : Fields} {loc loc' : Loc} (hinv : SafeRoot h a) (hag : AgreeOff h a a')
    {v : Val} (tag : Option Nat) (hv : Safe h v = true) (acc : List Val) :
    SimRel (.map a) (.map a') (entryStep fuel docs loc (acc, .map a) (v, tag))
      (entryStep fuel docs loc' (acc, .map a') (v, tag)) := by
  simp only [entryStep]
  refine simRel_bind (ih docs a a' _ _ v hinv hag hv) ?_
  intro v2
  simp only []
  split <;> exact simRel_ok _ _ _

/-- A safe value evaluates alike — same value or same error, roots untouched — against two roots
    that agree outside the key `h` and whose other entries are safe. -/
theorem process1_sim (h : String) : ∀ fuel, SimIH h fuel := by
  intro fuel
  induction fuel with
  | zero =>
    intro docs a a' loc loc' obj _ _ _
    rw [process1_zero, process1_zero]; exact simRel_error _ _ _
  | succ fuel ih =>
    intro docs a a' loc loc' obj hinv hag hobj
    cases obj with
    | null => rw [process1_null, process1_null]; exact simRel_ok _ _ _
    | bool b => rw [process1_bool, process1_bool]; exact simRel_ok _ _ _
    | int i => rw [process1_int, process1_int]; exact simRel_ok _ _ _
    | flt r => rw [process1_flt, process1_flt]; exact simRel_ok _ _ _
    | str s =>
      simp only [Safe, safeStr] at hobj
      cases hm : stripPrefix s "$merge:" with
      | some p =>
        rw [hm] at hobj
        rw [process1_str_merge hm, process1_str_merge hm]
        exact sim_get_step ih hinv hag (ref := .str p) hobj
      | none =>
        rw [hm] at hobj
        simp only [] at hobj
        cases hr : stripPrefix s "$replace:" with
        | some p =>
          rw [hr] at hobj
          rw [process1_str_replace hm hr, process1_str_replace hm hr]
          exact sim_get_step ih hinv hag (ref := .str p) hobj
        | none =>
          rw [process1_str_plain hm hr, process1_str_plain hm hr]
          exact simRel_ok _ _ _
    | map kvs =>
      simp only [Safe] at hobj
      have hm := safeFields_no_merge hobj
      cases hr : fget kvs "$replace" with
      | some ref =>
        rw [process1_map_replace hm hr, process1_map_replace hm hr]
        exact sim_get_step ih hinv hag (safeFields_replace hobj hr)
      | none =>
        rw [process1_map_plain hm hr, process1_map_plain hm hr]
        refine simRel_bind (simRel_foldlM kvs (fun acc p hp => ?_) []) (fun r => simRel_ok _ _ _)
        obtain ⟨k, v⟩ := p
        have := safeFields_mem hobj (k, v) hp
        exact sim_mapStep ih hinv hag this.2.1 this.2.2.2 acc
    | list xs =>
      simp only [Safe] at hobj
      have hmem := safeList_mem hobj
      have hnm : ∀ x ∈ xs, notMergeEntry x = true := fun x hx => safe_notMergeEntry (hmem x hx)
      have hfst : (listObj0 xs).map (·.1) = xs := by
        rw [listObj0_fst, List.filter_eq_self.2 hnm]
      have hmem0 : ∀ q ∈ listObj0 xs, q.1 ∈ xs := by
        intro q hq
        rw [← hfst]; exact List.mem_map_of_mem hq
      rw [process1_list, process1_list, listMerges_of_notMerge hnm, foldlM_nil, foldlM_nil,
        R_bind_ok, R_bind_ok]
      unfold listFinish
      rw [hfst]
      cases hpop : popListMapValue xs "$replace" with
      | error e => exact simRel_error _ _ _
      | ok q =>
        obtain ⟨rep, rest⟩ := q
        simp only [R_bind_ok]
        cases hn : rep.isNull with
        | false =>
          simp only [Bool.not_false, if_true]
          obtain ⟨m, hmm, hmr⟩ := popListMapValue_rep_mem hpop hn
          have hsm := hmem _ hmm
          simp only [Safe] at hsm
          exact sim_get_step ih hinv hag (safeFields_replace hsm hmr)
        | true =>
          simp only [Bool.not_true, Bool.false_eq_true, if_false]
          refine simRel_bind (simRel_foldlM _ (fun acc p hp => ?_) []) (fun r => simRel_ok _ _ _)
          obtain ⟨v, tag⟩ := p
          have hv : Safe h v = true := hmem v (hmem0 _ (List.mem_filter.1 hp).1)
          exact sim_entryStep ih hinv hag tag hv acc

/-! ## reference-free values are safe -/

theorem safeStr_of_not_refStr {h s : String} (hs : refStr s = false) : safeStr h s = true := by
  simp only [refStr, Bool.or_eq_false_iff] at hs
  simp only [safeStr, e_stripPrefix_none hs.1, e_stripPrefix_none hs.2]

mutual
theorem refFree_safe (h : String) : ∀ v : Val, refFree v = true → Safe h v = true
  | .str s, hv => by
    simp only [refFree, Bool.not_eq_true'] at hv
    simp only [Safe]; exact safeStr_of_not_refStr hv
  | .list xs, hv => by
    simp only [refFree] at hv
    simp only [Safe]; exact refFreeList_safe h xs hv
  | .map kvs, hv => by
    simp only [refFree] at hv
    simp only [Safe]; exact refFreeFields_safe h kvs hv
  | .null, _ | .bool _, _ | .int _, _ | .flt _, _ => rfl
theorem refFreeList_safe (h : String) : ∀ xs : List Val, refFreeList xs = true →
    SafeList h xs = true
  | [], _ => rfl
  | x :: xs, hv => by
    simp only [refFreeList, Bool.and_eq_true] at hv
    simp only [SafeList, Bool.and_eq_true]
    exact ⟨refFree_safe h x hv.1, refFreeList_safe h xs hv.2⟩
theorem refFreeFields_safe (h : String) : ∀ kvs : Fields, refFreeFields kvs = true →
    SafeFields h kvs = true
  | [], _ => rfl
  | (k, v) :: rest, hv => by
    simp only [refFreeFields, Bool.and_eq_true, Bool.not_eq_true'] at hv
    have hk := hv.1.1
    simp only [refKey, Bool.or_eq_false_iff, beq_eq_false_iff_ne] at hk
    simp only [SafeFields, Bool.and_eq_true, Bool.not_eq_true', beq_eq_false_iff_ne,
      Bool.or_eq_true]
    exact ⟨⟨⟨⟨hk.1.1, safeStr_of_not_refStr hk.2⟩, Or.inl hk.1.2⟩, refFree_safe h v hv.1.2⟩,
      refFreeFields_safe h rest hv.2⟩
end

/-! ## the document level, with safe entries around the host -/

theorem safeRoot_of_fdel {h : String} {kvs : Fields} (ho : SafeFields h (fdel kvs h) = true) :
    SafeRoot h kvs := by
  intro k v hk hf
  have : fget (fdel kvs h) k = some v := by rw [fget_fdel_ne _ _ _ hk]; exact hf
  exact (safeFields_mem ho (k, v) (fget_mem this)).2.2.2

theorem safeRoot_fset {h : String} {kvs : Fields} (x : Val) (hinv : SafeRoot h kvs) :
    SafeRoot h (fset kvs h x) := by
  intro k v hk hf
  rw [fget_fset_ne _ _ _ _ hk] at hf
  exact hinv k v hk hf

theorem agreeOff_fset {h : String} (kvs : Fields) (x y : Val) :
    AgreeOff h (fset kvs h x) (fset kvs h y) := by
  intro k hk
  rw [fget_fset_ne _ _ _ _ hk, fget_fset_ne _ _ _ _ hk]

theorem agreeOff_fset_right {h : String} (kvs : Fields) (y : Val) :
    AgreeOff h kvs (fset kvs h y) := by
  intro k hk
  rw [fget_fset_ne _ _ _ _ hk]

theorem sim_fold {h : String} {fuel : Nat} {docs : List Val} {a a' : Fields} {loc : Loc}
    (hinv : SafeRoot h a) (hag : AgreeOff h a a') {l : Fields} (hl : SafeFields h l = true)
    (acc : Fields) :
    SimRel (.map a) (.map a') (l.foldlM (mapStep fuel docs loc) (acc, Val.map a))
      (l.foldlM (mapStep fuel docs loc) (acc, Val.map a')) := by
  refine simRel_foldlM l (fun acc p hp => ?_) acc
  obtain ⟨k, v⟩ := p
  have := safeFields_mem hl (k, v) hp
  exact sim_mapStep (process1_sim h fuel) hinv hag this.2.1 this.2.2.2 acc

theorem simRel_of_map {r1 r2 : Val} (X : R (Val × Val)) :
    SimRel r1 r2 (Except.map (fun r : Val × Val => (r.1, r1)) X)
      (Except.map (fun r : Val × Val => (r.1, r2)) X) := by
  cases X with
  | error e => exact simRel_error _ _ _
  | ok q => exact ⟨rfl, rfl, rfl⟩

theorem simRel_cases {α : Type} {r1 r2 : Val} {x y : R (α × Val)} (h : SimRel r1 r2 x y) :
    (∃ e, x = .error e ∧ y = .error e) ∨ (∃ a, x = .ok (a, r1) ∧ y = .ok (a, r2)) := by
  cases x with
  | error e =>
    cases y with
    | error e' => have : e = e' := h; subst this; exact Or.inl ⟨e, rfl, rfl⟩
    | ok q => exact h.elim
  | ok p =>
    cases y with
    | error e' => exact h.elim
    | ok q =>
      obtain ⟨a, ra⟩ := p
      obtain ⟨b, rb⟩ := q
      obtain ⟨h1, h2, h3⟩ := h
      simp only at h1 h2 h3
      subst h1 h2 h3
      exact Or.inr ⟨a, rfl, rfl⟩

/-- the step of the fold at the host key, given the relation between the two evaluations of the
    host entry -/
theorem sim_host {fuel : Nat} {docs : List Val} {r0 r0' r1 r2 : Val} {h : String} {hv hv' : Val}
    (hk : refKey h = false) (acc : Fields)
    (hY : SimRel r1 r2 (process1 fuel docs r0 (some [.key h]) hv)
      (process1 fuel docs r0' (some [.key h]) hv')) :
    SimRel r1 r2 (mapStep fuel docs (some []) (acc, r0) (h, hv))
      (mapStep fuel docs (some []) (acc, r0') (h, hv')) := by
  rw [mapStep_host hk, mapStep_host hk]
  have hc : childLoc (some []) h = some [.key h] := rfl
  rw [hc]
  refine simRel_bind hY (fun v2 => ?_)
  exact simRel_bind_pure _ (fun acc2 => simRel_ok _ _ _)

theorem fget_append_host_ne {h k : String} (pre post : Fields) (x y : Val) (hkh : k ≠ h) :
    fget (pre ++ (h, x) :: post) k = fget (pre ++ (h, y) :: post) k := by
  induction pre with
  | nil => simp only [List.nil_append, fget, if_neg (Ne.symm hkh)]
  | cons p tl ih => obtain ⟨k', v'⟩ := p; simp only [List.cons_append, fget, ih]

/-- The two documents `pre ++ (h, hv) :: post` and `pre ++ (h, hv') :: post` (safe entries around
    the host key) evaluate to the same value as soon as the two host entries do: either the two
    host evaluations coincide, or they are related by `SimRel` for two roots that agree outside
    `h`. -/
theorem doc_sim {h : String} {fuel : Nat} {docs : List Val} {pre post : Fields} {hv hv' : Val}
    (hk : refKey h = false) (hpre : SafeFields h pre = true) (hpost : SafeFields h post = true)
    (h1 : fget (pre ++ (h, hv) :: post) "$replace" = none)
    (hhost :
      process1 fuel docs (.map (pre ++ (h, hv) :: post)) (some [.key h]) hv =
        process1 fuel docs (.map (pre ++ (h, hv') :: post)) (some [.key h]) hv' ∨
      ∃ b b', SafeRoot h b ∧ AgreeOff h b b' ∧
        SimRel (.map b) (.map b')
          (process1 fuel docs (.map (pre ++ (h, hv) :: post)) (some [.key h]) hv)
          (process1 fuel docs (.map (pre ++ (h, hv') :: post)) (some [.key h]) hv')) :
    Except.map Prod.fst (process1 (fuel + 1) docs (.map (pre ++ (h, hv) :: post)) (some [])
        (.map (pre ++ (h, hv) :: post))) =
      Except.map Prod.fst (process1 (fuel + 1) docs (.map (pre ++ (h, hv') :: post)) (some [])
        (.map (pre ++ (h, hv') :: post))) := by
  have hkf := refKey_false hk
  -- no `$merge` / `$replace` key at the top of either document
  have hkeys : ∀ x : Val, fget (pre ++ (h, x) :: post) "$merge" = none ∧
      fget (pre ++ (h, x) :: post) "$replace" = none := by
    intro x
    constructor
    · apply fget_none_iff.2
      intro p hp
      rcases List.mem_append.1 hp with hp | hp
      · exact (safeFields_mem hpre p hp).1
      · rcases List.mem_cons.1 hp with rfl | hp
        · exact hkf.1
        · exact (safeFields_mem hpost p hp).1
    · apply fget_none_iff.2
      intro p hp
      have h1' := fget_none_iff.1 h1
      rcases List.mem_append.1 hp with hp | hp
      · exact h1' p (List.mem_append_left _ hp)
      · rcases List.mem_cons.1 hp with rfl | hp
        · exact hkf.2.1
        · exact h1' p (List.mem_append_right _ (List.mem_cons_of_mem _ hp))
  -- the other entries of both roots are safe, and the roots agree outside `h`
  have hinv : SafeRoot h (pre ++ (h, hv) :: post) := by
    intro k v hkh hf
    have hm := fget_mem hf
    rcases List.mem_append.1 hm with hm | hm
    · exact (safeFields_mem hpre _ hm).2.2.2
    · rcases List.mem_cons.1 hm with hm | hm
      · cases hm; exact absurd rfl hkh
      · exact (safeFields_mem hpost _ hm).2.2.2
  have hag : AgreeOff h (pre ++ (h, hv) :: post) (pre ++ (h, hv') :: post) :=
    fun k hkh => fget_append_host_ne pre post hv' hv hkh
  rw [process1_map_plain (hkeys hv).1 (hkeys hv).2, process1_map_plain (hkeys hv').1 (hkeys hv').2,
    List.foldlM_append, List.foldlM_append]
  rcases simRel_cases (sim_fold (fuel := fuel) (docs := docs) (loc := some []) hinv hag hpre [])
    with ⟨e, e1, e2⟩ | ⟨acc1, e1, e2⟩
  · rw [e1, e2]; rfl
  · rw [e1, e2]
    simp only [R_bind_ok, List.foldlM_cons]
    rcases hhost with heq | ⟨b, b', hb, hbb, hsim⟩
    · rw [mapStep_host hk, mapStep_host hk]
      have hc : childLoc (some []) h = some [.key h] := rfl
      rw [hc, heq]
    · have hstep := sim_host hk acc1 hsim
      rcases simRel_cases hstep with ⟨e, e1, e2⟩ | ⟨acc2, e1, e2⟩
      · rw [e1, e2]
      · rw [e1, e2]
        simp only [R_bind_ok]
        exact simRel_map_fst (simRel_bind
          (sim_fold (fuel := fuel) (docs := docs) (loc := some []) hb hbb hpost acc2)
          (fun r => simRel_ok _ _ _))

theorem replace_host_rel {fuel : Nat} {docs : List Val} {root root' : Val} {loc loc' : Loc}
    {hostv ref t : Val} {ks : List String}
    (hfw : Forwards hostv ref) (hp : PathRef ref ks) (ht : getPath root ks = .ok t)
    (htf : refFree t = true) (hfuel : process1 fuel [] .null none t ≠ .error .circularRef) :
    SimRel root root' (process1 (fuel + 1) docs root loc hostv)
      (process1 (fuel + 1) docs root' loc' t) := by
  rw [hfw fuel docs root loc, hp root docs, ht, R_bind_ok,
    process1_refFree fuel t htf docs root none, process1_refFree (fuel + 1) t htf docs root' loc',
    (process1_mono fuel [] .null none t).eq hfuel]
  exact simRel_of_map _

theorem inline_replace_safe_core {fuel : Nat} {docs : List Val} {kvs : Fields} {h : String}
    {hostv ref t : Val} {ks : List String}
    (hs : Fields.SortedKeys kvs) (hh : fget kvs h = some hostv) (hhk : refKey h = false)
    (hfw : Forwards hostv ref) (hp : PathRef ref ks) (ht : getPath (.map kvs) ks = .ok t)
    (htf : refFree t = true) (ho : SafeFields h (fdel kvs h) = true)
    (h1 : fget kvs "$replace" = none)
    (hfuel : process1 fuel [] .null none t ≠ .error .circularRef) :
    Except.map Prod.fst (process1 (fuel + 2) docs (.map kvs) (some []) (.map kvs)) =
      Except.map Prod.fst
        (process1 (fuel + 2) docs (.map (fset kvs h t)) (some []) (.map (fset kvs h t))) := by
  obtain ⟨pre, post, e1, e2, e3⟩ := sorted_split hs hh
  rw [e3, safeFields_append] at ho
  have hrel := replace_host_rel (docs := docs) (root := .map kvs) (root' := .map (fset kvs h t))
    (loc := some [.key h]) (loc' := some [.key h]) hfw hp ht htf hfuel
  have hinv : SafeRoot h kvs := safeRoot_of_fdel (by rw [e3, safeFields_append]; exact ho)
  rw [e2 t]
  rw [e2 t] at hrel
  subst e1
  exact doc_sim (fuel := fuel + 1) hhk ho.1 ho.2 h1
    (Or.inr ⟨_, _, hinv, fun k hk => fget_append_host_ne pre post t hostv hk, hrel⟩)

/-- the `$merge` host: either the two evaluations of the host entry coincide (the merged map is
    evaluated in place in both documents), or they produce the same value and leave their roots
    — which agree outside the host — alone (a scalar or list copied into an empty host) -/
theorem merge_host_rel {fuel : Nat} {docs : List Val} {kvs m : Fields} {h k : String}
    {ref t nv : Val} {ks : List String}
    (hh : fget kvs h = some (.map m)) (hm : fget m "$merge" = some ref)
    (hp : PathRef ref (k :: ks)) (hk : k ≠ h) (ht : getPath (.map kvs) (k :: ks) = .ok t)
    (hti : MergeInlinable t) (hn : merge (.map (fdel m "$merge")) t = .ok nv)
    (hfuel : process1 fuel docs (.map (fset kvs h nv)) (some [.key h]) nv ≠ .error .circularRef) :
    process1 (fuel + 1) docs (.map kvs) (some [.key h]) (.map m) =
        process1 (fuel + 1) docs (.map (fset kvs h nv)) (some [.key h]) nv ∨
      SimRel (.map (fset kvs h (.map (fdel m "$merge")))) (.map (fset kvs h nv))
        (process1 (fuel + 1) docs (.map kvs) (some [.key h]) (.map m))
        (process1 (fuel + 1) docs (.map (fset kvs h nv)) (some [.key h]) nv) := by
  have hroot1 : setLoc (.map kvs) (some [.key h]) (.map (fdel m "$merge")) =
      .map (fset kvs h (.map (fdel m "$merge"))) := setLoc_top_key kvs h _ hh
  have hg : get (.map (fset kvs h (.map (fdel m "$merge")))) docs ref = .ok t := by
    rw [hp, getPath_fset_other _ _ hk, ht]
  rw [process1_map_merge hm, hroot1, hg, R_bind_ok]
  have hroot2 : ∀ x, setLoc (.map (fset kvs h (.map (fdel m "$merge")))) (some [.key h]) x =
      .map (fset kvs h x) := by
    intro x
    rw [setLoc_top_key _ h x (fget_fset_same _ _ _), fset_fset_same]
  have hmono := (process1_mono fuel docs (.map (fset kvs h nv)) (some [.key h]) nv).eq hfuel
  have hcopy : t.isMap = false → t.isNull = false → refFree t = true →
      SimRel (.map (fset kvs h (.map (fdel m "$merge")))) (.map (fset kvs h nv))
        (mergeCont fuel docs (.map (fset kvs h (.map (fdel m "$merge")))) (some [.key h])
          (fdel m "$merge") t)
        (process1 (fuel + 1) docs (.map (fset kvs h nv)) (some [.key h]) nv) := by
    intro h1 h2 htf
    rw [merge_map_other _ _ h1 h2] at hn
    cases he : (fdel m "$merge").isEmpty with
    | false => rw [he] at hn; simp at hn
    | true =>
      rw [he] at hn
      simp only [if_true, Except.ok.injEq] at hn
      subst hn
      have hX : process1 fuel [] .null none t ≠ .error .circularRef := by
        rw [process1_refFree fuel t htf] at hfuel
        exact map_root_ne_circ hfuel
      have : mergeCont fuel docs (.map (fset kvs h (.map (fdel m "$merge")))) (some [.key h])
          (fdel m "$merge") t =
          process1 fuel docs (.map (fset kvs h (.map (fdel m "$merge")))) none t := by
        cases t <;> simp [Val.isMap, Val.isNull] at h1 h2 <;> simp [mergeCont, he]
      rw [this, process1_refFree fuel t htf, process1_refFree (fuel + 1) t htf,
        (process1_mono fuel [] .null none t).eq hX]
      exact simRel_of_map _
  have hmap : ∀ s, t = .map s → fhasBool s "$replace" true = false →
      mergeCont fuel docs (.map (fset kvs h (.map (fdel m "$merge")))) (some [.key h])
          (fdel m "$merge") t =
      process1 (fuel + 1) docs (.map (fset kvs h nv)) (some [.key h]) nv := by
    intro s hts hr
    subst hts
    rw [merge_map_map, mergeMapMap_noreplace hr] at hn
    cases hmf : mergeFields (fdel m "$merge") s with
    | error e => rw [hmf] at hn; cases hn
    | ok next =>
      rw [hmf] at hn
      have : nv = .map next := by cases hn; rfl
      subst this
      simp only [mergeCont, hr, Bool.false_eq_true, if_false, hmf, R_bind_ok, hroot2]
      rw [hmono]
  have hnull : t = .null →
      mergeCont fuel docs (.map (fset kvs h (.map (fdel m "$merge")))) (some [.key h])
          (fdel m "$merge") t =
      process1 (fuel + 1) docs (.map (fset kvs h nv)) (some [.key h]) nv := by
    intro htn
    subst htn
    rw [merge_map_null] at hn
    cases hn
    simp only [mergeCont]
    rw [hmono]
  rcases hti with ⟨s, hts, hr⟩ | htn | htf
  · exact Or.inl (hmap s hts hr)
  · exact Or.inl (hnull htn)
  · cases t with
    | map s =>
      simp only [refFree] at htf
      exact Or.inl (hmap s rfl (refFreeFields_no_marker htf))
    | null => exact Or.inl (hnull rfl)
    | bool b => exact Or.inr (hcopy rfl rfl htf)
    | int i => exact Or.inr (hcopy rfl rfl htf)
    | flt r => exact Or.inr (hcopy rfl rfl htf)
    | str r => exact Or.inr (hcopy rfl rfl htf)
    | list r => exact Or.inr (hcopy rfl rfl htf)

theorem inline_merge_safe_core {fuel : Nat} {docs : List Val} {kvs m : Fields} {h k : String}
    {ref t nv : Val} {ks : List String}
    (hs : Fields.SortedKeys kvs) (hh : fget kvs h = some (.map m)) (hhk : refKey h = false)
    (hm : fget m "$merge" = some ref) (hp : PathRef ref (k :: ks)) (hk : k ≠ h)
    (ht : getPath (.map kvs) (k :: ks) = .ok t) (hti : MergeInlinable t)
    (ho : SafeFields h (fdel kvs h) = true) (h1 : fget kvs "$replace" = none)
    (hn : merge (.map (fdel m "$merge")) t = .ok nv)
    (hfuel : process1 fuel docs (.map (fset kvs h nv)) (some [.key h]) nv ≠ .error .circularRef) :
    Except.map Prod.fst (process1 (fuel + 2) docs (.map kvs) (some []) (.map kvs)) =
      Except.map Prod.fst
        (process1 (fuel + 2) docs (.map (fset kvs h nv)) (some []) (.map (fset kvs h nv))) := by
  obtain ⟨pre, post, e1, e2, e3⟩ := sorted_split hs hh
  have hinv : SafeRoot h kvs := safeRoot_of_fdel ho
  rw [e3, safeFields_append] at ho
  have hrel := merge_host_rel hh hm hp hk ht hti hn hfuel
  have hb : SafeRoot h (fset kvs h (.map (fdel m "$merge"))) := safeRoot_fset _ hinv
  have hbb : AgreeOff h (fset kvs h (.map (fdel m "$merge"))) (fset kvs h nv) :=
    agreeOff_fset kvs _ _
  rw [e2 nv]
  rw [e2 nv] at hrel hbb
  generalize fset kvs h (.map (fdel m "$merge")) = b at hrel hb hbb
  subst e1
  refine doc_sim (fuel := fuel + 1) hhk ho.1 ho.2 h1 ?_
  rcases hrel with hrel | hrel
  · exact Or.inl hrel
  · exact Or.inr ⟨_, _, hb, hbb, hrel⟩

/-- with safe entries around the host, a merge conflict at the host makes the document fail -/
theorem inline_merge_error_safe_core {fuel : Nat} {docs : List Val} {kvs m : Fields}
    {h k : String} {ref t : Val} {ks : List String} {e : Err}
    (hs : Fields.SortedKeys kvs) (hh : fget kvs h = some (.map m)) (hhk : refKey h = false)
    (hm : fget m "$merge" = some ref) (hp : PathRef ref (k :: ks)) (hk : k ≠ h)
    (ht : getPath (.map kvs) (k :: ks) = .ok t) (hti : MergeInlinable t)
    (ho : SafeFields h (fdel kvs h) = true) (h1 : fget kvs "$replace" = none)
    (hn : merge (.map (fdel m "$merge")) t = .error e) :
    ∃ e', process1 (fuel + 2) docs (.map kvs) (some []) (.map kvs) = .error e' := by
  obtain ⟨pre, post, e1, e2, e3⟩ := sorted_split hs hh
  have hinv : SafeRoot h kvs := safeRoot_of_fdel ho
  rw [e3, safeFields_append] at ho
  have herr := merge_host_error (fuel := fuel) (docs := docs) hh hm hp hk ht hti hn
  have h0 : fget kvs "$merge" = none := by
    apply fget_none_iff.2
    intro p hp'
    rw [e1] at hp'
    rcases List.mem_append.1 hp' with hp' | hp'
    · exact (safeFields_mem ho.1 p hp').1
    · rcases List.mem_cons.1 hp' with rfl | hp'
      · exact (refKey_false hhk).1
      · exact (safeFields_mem ho.2 p hp').1
  rw [process1_map_plain h0 h1]
  have hfold : ∀ acc, (∃ e', (pre ++ (h, Val.map m) :: post).foldlM
      (mapStep (fuel + 1) docs (some [])) (acc, Val.map kvs) = .error e') := by
    intro acc
    have hsim := sim_fold (fuel := fuel + 1) (docs := docs) (loc := some []) hinv
      (fun k _ => rfl : AgreeOff h kvs kvs) ho.1 acc
    rw [List.foldlM_append]
    rcases simRel_cases hsim with ⟨e', e1', _⟩ | ⟨acc1, e1', _⟩
    · exact ⟨e', by rw [e1']; rfl⟩
    · refine ⟨e, ?_⟩
      rw [e1']
      simp only [R_bind_ok, List.foldlM_cons]
      rw [mapStep_err (loc := some []) herr]
      rfl
  obtain ⟨e', he'⟩ := hfold []
  have hkvs : kvs.foldlM (mapStep (fuel + 1) docs (some [])) (([] : Fields), Val.map kvs) =
      (pre ++ (h, Val.map m) :: post).foldlM (mapStep (fuel + 1) docs (some []))
        (([] : Fields), Val.map kvs) := by rw [← e1]
  exact ⟨e', by rw [hkvs, he']; rfl⟩

/-! ## small facts for the non-vacuity examples of the safe versions -/

theorem safeStrRef_a (h : String) (hne : "a" ≠ h) : safeStrRef h "a" = true := by
  simp only [safeStrRef, parseRef_a, splitOn_a]
  simpa using hne

theorem safe_str_replace {h p : String} (hp : safeStrRef h p = true) :
    Safe h (.str ("$replace:" ++ p)) = true := by
  simp only [Safe, safeStr, stripPrefix_replace_append_merge, stripPrefix_replace_append, hp]

theorem safe_str_merge {h p : String} (hp : safeStrRef h p = true) :
    Safe h (.str ("$merge:" ++ p)) = true := by
  simp only [Safe, safeStr, stripPrefix_merge_append, hp]

/-- `{$replace: "p"}` with a safe `p` -/
theorem safe_map_replace {h p : String} (hp : safeStrRef h p = true) (hps : refStr p = false) :
    Safe h (.map [("$replace", .str p)]) = true := by
  simp only [Safe]
  apply safeFields_of_mem
  intro q hq
  simp only [List.mem_cons, List.not_mem_nil, or_false] at hq
  subst hq
  have h1 : "$replace" ≠ "$merge" := by decide
  have h2 : refStr "$replace" = false := by decide
  refine ⟨h1, safeStr_of_not_refStr h2, fun _ => ?_, ?_⟩
  · simpa [safeRef] using hp
  · simp only [Safe]; exact safeStr_of_not_refStr hps

end Bkl
