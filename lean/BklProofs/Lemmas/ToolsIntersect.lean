/-
  BklProofs.Lemmas.ToolsIntersect — helper definitions and lemmas for C16 (bkli: `intersect`).

  * `subB r v` / `Sub r v` — `r` is a (marker-tolerant) sub-document of `v`:
      `r = "$required"`, or both maps and every key of `r` is in `v` with `Sub` of the values,
      or both lists and (`r = ["$required"]` or every entry of `r` occurs in `v`), or `r = v`.
-/
import BklProofs.Lemmas.ToolsDiff
namespace Bkl

/-! ## the sub-document relation -/

mutual
def subB : Val → Val → Bool
  | .str s, v => s == "$required" || v == .str s
  | .map rm, v => match v with
    | .map vm => subFieldsB rm vm
    | _ => false
  | .list rl, v => match v with
    | .list vl => rl == [Val.str "$required"] || rl.all (fun x => vl.contains x)
    | _ => false
  | .null, v => v == .null
  | .bool b, v => v == .bool b
  | .int i, v => v == .int i
  | .flt f, v => v == .flt f
def subFieldsB : Fields → Fields → Bool
  | [], _ => true
  | (k, x) :: rest, vm =>
    (match fget vm k with
     | some y => subB x y
     | none => false) && subFieldsB rest vm
end

/-- `r` is a marker-tolerant sub-document of `v` -/
def Sub (r v : Val) : Prop := subB r v = true

instance (r v : Val) : Decidable (Sub r v) := by unfold Sub; infer_instance

theorem subFieldsB_iff {rm vm : Fields} :
    subFieldsB rm vm = true ↔ ∀ p ∈ rm, ∃ y, fget vm p.1 = some y ∧ Sub p.2 y := by
  induction rm with
  | nil => simp [subFieldsB]
  | cons hd tl ih =>
    obtain ⟨k, x⟩ := hd
    simp only [subFieldsB, Bool.and_eq_true, ih, List.mem_cons, forall_eq_or_imp, Sub]
    constructor
    · rintro ⟨h1, h2⟩
      refine ⟨?_, h2⟩
      cases hg : fget vm k with
      | none => rw [hg] at h1; cases h1
      | some y => rw [hg] at h1; exact ⟨y, rfl, h1⟩
    · rintro ⟨⟨y, hy, h1⟩, h2⟩
      refine ⟨?_, h2⟩
      rw [hy]; exact h1

theorem Sub_str_iff {s : String} {v : Val} :
    Sub (.str s) v ↔ s = "$required" ∨ v = .str s := by
  simp [Sub, subB]

theorem Sub_required (v : Val) : Sub (.str "$required") v := Sub_str_iff.2 (Or.inl rfl)

theorem Sub_map_iff {rm : Fields} {v : Val} :
    Sub (.map rm) v ↔ ∃ vm, v = .map vm ∧ ∀ p ∈ rm, ∃ y, fget vm p.1 = some y ∧ Sub p.2 y := by
  cases v with
  | map vm =>
    simp only [Sub, subB, Val.map.injEq, exists_eq_left']
    exact subFieldsB_iff
  | _ => simp [Sub, subB]

theorem Sub_list_iff {rl : List Val} {v : Val} :
    Sub (.list rl) v ↔
      ∃ vl, v = .list vl ∧ (rl = [Val.str "$required"] ∨ ∀ x ∈ rl, x ∈ vl) := by
  cases v with
  | list vl => simp [Sub, subB]
  | _ => simp [Sub, subB]

theorem Sub_scalar_refl (v : Val) (h1 : v.isMap = false) (h2 : v.isList = false) : Sub v v := by
  cases v <;> simp_all [Sub, subB, Val.isMap, Val.isList]

/-- reflexivity (on well-formed values: a key must be found by `fget`) -/
theorem Sub_refl (v : Val) (hv : Val.WF v) : Sub v v := by
  cases v with
  | map m =>
    rw [Sub_map_iff]
    refine ⟨m, rfl, fun p hp => ⟨p.2, fget_of_mem_sorted (wf_map_iff.1 hv).1 hp, ?_⟩⟩
    have : sizeOf p.2 < sizeOf (Val.map m) := sizeOf_lt_of_mem_fields (k := p.1) hp
    exact Sub_refl p.2 ((wf_map_iff.1 hv).2 p hp)
  | list l => exact Sub_list_iff.2 ⟨l, rfl, Or.inr (fun x hx => hx)⟩
  | _ => exact Sub_scalar_refl _ rfl rfl
termination_by sizeOf v

/-! ## unfolding `intersect` -/

theorem intersect_null_right (a : Val) : intersect a .null = .null := by
  rw [intersect]

theorem intersect_map_map (am bm : Fields) :
    intersect (.map am) (.map bm) = .map (intersectFields am bm) := by
  rw [intersect]

theorem intersect_map_other (am : Fields) (b : Val) (h1 : b ≠ .null) (h2 : b.isMap = false) :
    intersect (.map am) b = .str "$required" := by
  cases b with
  | null => exact absurd rfl h1
  | map bm => simp [Val.isMap] at h2
  | _ => simp [intersect]

/-- the entries of `al` that occur in `bl` -/
def listCommon (al bl : List Val) : List Val := al.filter (fun v1 => bl.any (fun v2 => v1 == v2))

theorem intersect_list_list (al bl : List Val) :
    intersect (.list al) (.list bl) =
      if ((listCommon al bl).isEmpty && decide (al.length + bl.length > 0)) = true
      then .list [.str "$required"] else .list (listCommon al bl) := by
  rw [intersect]; rfl

theorem intersect_list_other (al : List Val) (b : Val) (h1 : b ≠ .null) (h2 : b.isList = false) :
    intersect (.list al) b = .str "$required" := by
  cases b with
  | null => exact absurd rfl h1
  | list bl => simp [Val.isList] at h2
  | _ => simp [intersect]

theorem intersect_scalar (a b : Val) (ha : a.isScalar = true) (hb : b ≠ .null) :
    intersect a b = if (a == b) = true then a else .str "$required" := by
  cases b with
  | null => exact absurd rfl hb
  | _ => cases a <;> first | (simp [Val.isScalar] at ha; done) | simp [intersect]

theorem mem_listCommon {al bl : List Val} {x : Val} :
    x ∈ listCommon al bl ↔ x ∈ al ∧ x ∈ bl := by
  simp [listCommon, List.mem_filter]

/-! ## `intersectFields`, entry by entry -/

theorem intersectFields_cons (k : String) (v : Val) (rest bm : Fields) :
    intersectFields ((k, v) :: rest) bm =
      match fget bm k with
      | none => intersectFields rest bm
      | some v2 =>
        if (v.isNull && v2.isNull) = true then (k, .null) :: intersectFields rest bm
        else if (intersect v v2).isNull = true then intersectFields rest bm
        else (k, intersect v v2) :: intersectFields rest bm := by
  rw [intersectFields]
  cases fget bm k <;> rfl

theorem isNull_iff {v : Val} : v.isNull = true ↔ v = .null := by
  cases v <;> simp [Val.isNull]

/-- every emitted entry is the intersection of the two values at its key -/
theorem mem_intersectFields {am bm : Fields} {k : String} {r : Val}
    (h : (k, r) ∈ intersectFields am bm) :
    ∃ x y, (k, x) ∈ am ∧ fget bm k = some y ∧ r = intersect x y := by
  induction am with
  | nil => simp [intersectFields] at h
  | cons hd tl ih =>
    obtain ⟨k0, v0⟩ := hd
    rw [intersectFields_cons] at h
    have lift : (∃ x y, (k, x) ∈ tl ∧ fget bm k = some y ∧ r = intersect x y) →
        ∃ x y, (k, x) ∈ (k0, v0) :: tl ∧ fget bm k = some y ∧ r = intersect x y := by
      rintro ⟨x, y, h1, h2, h3⟩
      exact ⟨x, y, List.mem_cons_of_mem _ h1, h2, h3⟩
    cases hg : fget bm k0 with
    | none => rw [hg] at h; exact lift (ih h)
    | some v2 =>
      rw [hg] at h
      simp only [] at h
      split at h
      · rename_i hnn
        rcases List.mem_cons.1 h with h | h
        · cases h
          simp only [Bool.and_eq_true, isNull_iff] at hnn
          refine ⟨v0, v2, List.mem_cons_self, hg, ?_⟩
          rw [hnn.2, intersect_null_right]
        · exact lift (ih h)
      · split at h
        · exact lift (ih h)
        · rcases List.mem_cons.1 h with h | h
          · cases h
            exact ⟨v0, v2, List.mem_cons_self, hg, rfl⟩
          · exact lift (ih h)

/-- a key with non-null values on both sides is kept, with the intersection of the values -/
theorem fget_intersectFields {am bm : Fields} {k : String} {x y : Val}
    (hx : fget am k = some x) (hy : fget bm k = some y)
    (hr : (intersect x y).isNull = false) :
    fget (intersectFields am bm) k = some (intersect x y) := by
  induction am with
  | nil => simp [fget] at hx
  | cons hd tl ih =>
    obtain ⟨k0, v0⟩ := hd
    rw [intersectFields_cons]
    simp only [fget] at hx
    by_cases hk : k0 = k
    · subst hk
      rw [if_pos rfl] at hx
      cases hx
      rw [hy]
      simp only []
      have hnn : ¬ (x.isNull && y.isNull) = true := by
        intro hnn
        simp only [Bool.and_eq_true, isNull_iff] at hnn
        rw [hnn.2, intersect_null_right] at hr
        cases hr
      rw [if_neg hnn, hr]
      simp [fget]
    · rw [if_neg hk] at hx
      have := ih hx
      cases hg : fget bm k0 with
      | none => exact this
      | some v2 =>
        simp only []
        split
        · simp only [fget, if_neg hk]; exact this
        · split
          · exact this
          · simp only [fget, if_neg hk]; exact this

theorem intersect_isNull {a b : Val} (ha : a ≠ .null) (hb : b ≠ .null) :
    (intersect a b).isNull = false := by
  cases a with
  | null => exact absurd rfl ha
  | map am =>
    cases b with
    | map bm => rw [intersect_map_map]; rfl
    | null => exact absurd rfl hb
    | _ => rw [intersect_map_other _ _ hb rfl]; rfl
  | list al =>
    cases b with
    | list bl => rw [intersect_list_list]; split <;> rfl
    | null => exact absurd rfl hb
    | _ => rw [intersect_list_other _ _ hb rfl]; rfl
  | _ =>
    rw [intersect_scalar _ _ rfl hb]
    split <;> rfl

/-- a key-preserving `filterMap` keeps sortedness -/
theorem sorted_filterMap (f : String × Val → Option (String × Val))
    (hf : ∀ p q, f p = some q → q.1 = p.1) {s : Fields} (hs : Fields.SortedKeys s) :
    Fields.SortedKeys (s.filterMap f) := by
  induction s with
  | nil => simp [Fields.SortedKeys]
  | cons hd tl ih =>
    rw [List.filterMap_cons]
    have ih' := ih (sorted_tail hs)
    cases h : f hd with
    | none => exact ih'
    | some q =>
      obtain ⟨kq, vq⟩ := q
      obtain ⟨k0, v0⟩ := hd
      simp only []
      rw [sorted_cons_iff]
      refine ⟨fun p hp => ?_, ih'⟩
      obtain ⟨a, ha, hfa⟩ := List.mem_filterMap.1 hp
      have h1 : kq = k0 := hf _ _ h
      have h2 : p.1 = a.1 := hf _ _ hfa
      rw [h1, h2]
      exact sorted_head_lt hs a ha

theorem sorted_intersectFields {am : Fields} (bm : Fields) (hs : Fields.SortedKeys am) :
    Fields.SortedKeys (intersectFields am bm) := by
  rw [intersectFields_eq_filterMap]
  exact sorted_filterMap _ (intersectEntry_key bm) hs

/-! ## `intersect` preserves the input domain -/

theorem intersect_null_left (b : Val) : intersect .null b = .null := by
  cases b <;> simp [intersect]

theorem intersect_wf (a b : Val) (ha : Val.WF a) (hb : Val.WF b) : Val.WF (intersect a b) := by
  by_cases hbn : b = .null
  · subst hbn; rw [intersect_null_right]; rfl
  cases a with
  | null => rw [intersect_null_left]; rfl
  | map am =>
    cases b with
    | map bm =>
      rw [intersect_map_map, wf_map_iff]
      refine ⟨sorted_intersectFields bm (wf_map_iff.1 ha).1, ?_⟩
      rintro ⟨k, r⟩ hp
      obtain ⟨x, y, hx, hy, rfl⟩ := mem_intersectFields hp
      have : sizeOf x < sizeOf (Val.map am) := sizeOf_lt_of_mem_fields hx
      exact intersect_wf x y ((wf_map_iff.1 ha).2 _ hx) (wf_of_fget hb hy)
    | null => exact absurd rfl hbn
    | _ => rw [intersect_map_other _ _ hbn rfl]; rfl
  | list al =>
    cases b with
    | list bl =>
      rw [intersect_list_list]
      split
      · rfl
      · exact wf_list_filter _ ha
    | null => exact absurd rfl hbn
    | _ => rw [intersect_list_other _ _ hbn rfl]; rfl
  | _ =>
    rw [intersect_scalar _ _ rfl hbn]
    split
    · exact ha
    · rfl
termination_by sizeOf a

theorem intersect_nullFree (a b : Val) (ha : a.nullFree = true) (hb : b.nullFree = true) :
    (intersect a b).nullFree = true := by
  have hbn := nullFree_ne_null hb
  cases a with
  | null => simp [Val.nullFree] at ha
  | map am =>
    cases b with
    | map bm =>
      rw [intersect_map_map, nullFree_map_iff]
      rintro ⟨k, r⟩ hp
      obtain ⟨x, y, hx, hy, rfl⟩ := mem_intersectFields hp
      have : sizeOf x < sizeOf (Val.map am) := sizeOf_lt_of_mem_fields hx
      exact intersect_nullFree x y (nullFree_map_iff.1 ha _ hx)
        (nullFree_map_iff.1 hb _ (fget_mem hy))
    | null => exact absurd rfl hbn
    | _ => rw [intersect_map_other _ _ hbn rfl]; rfl
  | list al =>
    cases b with
    | list bl =>
      rw [intersect_list_list]
      split
      · rfl
      · rw [nullFree_list_iff]
        intro x hx
        exact nullFree_list_iff.1 ha x (mem_listCommon.1 hx).1
    | null => exact absurd rfl hbn
    | _ => rw [intersect_list_other _ _ hbn rfl]; rfl
  | _ =>
    rw [intersect_scalar _ _ rfl hbn]
    split
    · exact ha
    · rfl
termination_by sizeOf a

/-! ## idempotence -/

theorem intersectFields_self_aux (m : Fields) (rest : Fields)
    (h : ∀ p ∈ rest, fget m p.1 = some p.2 ∧ intersect p.2 p.2 = p.2 ∧ p.2.isNull = false) :
    intersectFields rest m = rest := by
  induction rest with
  | nil => simp [intersectFields]
  | cons hd tl ih =>
    obtain ⟨k, v⟩ := hd
    obtain ⟨h1, h2, h3⟩ := h (k, v) List.mem_cons_self
    simp only [] at h1 h2 h3
    rw [intersectFields_cons, h1]
    simp only [h2, h3, Bool.false_and, Bool.false_eq_true, if_false]
    rw [ih (fun p hp => h p (List.mem_cons_of_mem _ hp))]

theorem listCommon_self (l : List Val) : listCommon l l = l := by
  unfold listCommon
  rw [List.filter_eq_self]
  intro x hx
  rw [List.any_eq_true]
  exact ⟨x, hx, by simp⟩

theorem intersect_self (v : Val) (hv : Val.WF v) (hn : v.nullFree = true) :
    intersect v v = v := by
  have hvn := nullFree_ne_null hn
  cases v with
  | null => exact absurd rfl hvn
  | map m =>
    rw [intersect_map_map, intersectFields_self_aux m m]
    rintro ⟨k, x⟩ hp
    have hx := nullFree_map_iff.1 hn _ hp
    have : sizeOf x < sizeOf (Val.map m) := sizeOf_lt_of_mem_fields hp
    exact ⟨fget_of_mem_sorted (wf_map_iff.1 hv).1 hp,
      intersect_self x ((wf_map_iff.1 hv).2 _ hp) hx, nullFree_isNull hx⟩
  | list l =>
    rw [intersect_list_list, listCommon_self]
    cases l with
    | nil => rfl
    | cons a tl => rfl
  | _ =>
    rw [intersect_scalar _ _ rfl hvn]
    simp
termination_by sizeOf v

/-! ## the result is a sub-document of both inputs -/

theorem Sub_intersect_left (a b : Val) (ha : Val.WF a) (han : a.nullFree = true)
    (hbn : b.nullFree = true) : Sub (intersect a b) a := by
  have hb0 := nullFree_ne_null hbn
  cases a with
  | null => simp [Val.nullFree] at han
  | map am =>
    cases b with
    | map bm =>
      rw [intersect_map_map, Sub_map_iff]
      refine ⟨am, rfl, ?_⟩
      rintro ⟨k, r⟩ hp
      obtain ⟨x, y, hx, hy, rfl⟩ := mem_intersectFields hp
      have : sizeOf x < sizeOf (Val.map am) := sizeOf_lt_of_mem_fields hx
      exact ⟨x, fget_of_mem_sorted (wf_map_iff.1 ha).1 hx,
        Sub_intersect_left x y ((wf_map_iff.1 ha).2 _ hx) (nullFree_map_iff.1 han _ hx)
          (nullFree_map_iff.1 hbn _ (fget_mem hy))⟩
    | null => exact absurd rfl hb0
    | _ => rw [intersect_map_other _ _ hb0 rfl]; exact Sub_required _
  | list al =>
    cases b with
    | list bl =>
      rw [intersect_list_list]
      split
      · exact Sub_list_iff.2 ⟨al, rfl, Or.inl rfl⟩
      · exact Sub_list_iff.2 ⟨al, rfl, Or.inr (fun x hx => (mem_listCommon.1 hx).1)⟩
    | null => exact absurd rfl hb0
    | _ => rw [intersect_list_other _ _ hb0 rfl]; exact Sub_required _
  | _ =>
    rw [intersect_scalar _ _ rfl hb0]
    split
    · exact Sub_scalar_refl _ rfl rfl
    · exact Sub_required _
termination_by sizeOf a

theorem Sub_intersect_right (a b : Val) (han : a.nullFree = true) (hbn : b.nullFree = true) :
    Sub (intersect a b) b := by
  have hb0 := nullFree_ne_null hbn
  cases a with
  | null => simp [Val.nullFree] at han
  | map am =>
    cases b with
    | map bm =>
      rw [intersect_map_map, Sub_map_iff]
      refine ⟨bm, rfl, ?_⟩
      rintro ⟨k, r⟩ hp
      obtain ⟨x, y, hx, hy, rfl⟩ := mem_intersectFields hp
      have : sizeOf x < sizeOf (Val.map am) := sizeOf_lt_of_mem_fields hx
      exact ⟨y, hy, Sub_intersect_right x y (nullFree_map_iff.1 han _ hx)
          (nullFree_map_iff.1 hbn _ (fget_mem hy))⟩
    | null => exact absurd rfl hb0
    | _ => rw [intersect_map_other _ _ hb0 rfl]; exact Sub_required _
  | list al =>
    cases b with
    | list bl =>
      rw [intersect_list_list]
      split
      · exact Sub_list_iff.2 ⟨bl, rfl, Or.inl rfl⟩
      · exact Sub_list_iff.2 ⟨bl, rfl, Or.inr (fun x hx => (mem_listCommon.1 hx).2)⟩
    | null => exact absurd rfl hb0
    | _ => rw [intersect_list_other _ _ hb0 rfl]; exact Sub_required _
  | _ =>
    rw [intersect_scalar _ _ rfl hb0]
    split
    · rename_i he
      rw [← eq_of_beq he]
      exact Sub_scalar_refl _ rfl rfl
    · exact Sub_required _
termination_by sizeOf a

/-- intersecting with a further plain input only shrinks: whatever the accumulated result was a
    sub-document of, the new result still is -/
theorem Sub_intersect_mono (a b v : Val) (ha : plainVal a = true) (h : Sub b v) :
    Sub (intersect a b) v := by
  by_cases hb0 : b = .null
  · subst hb0; rw [intersect_null_right]; exact h
  cases a with
  | null => simp [plainVal_null] at ha
  | map am =>
    cases b with
    | map bm =>
      obtain ⟨vm, rfl, hsub⟩ := Sub_map_iff.1 h
      rw [intersect_map_map, Sub_map_iff]
      refine ⟨vm, rfl, ?_⟩
      rintro ⟨k, r⟩ hp
      obtain ⟨x, y, hx, hy, rfl⟩ := mem_intersectFields hp
      obtain ⟨z, hz, hyz⟩ := hsub (k, y) (fget_mem hy)
      have : sizeOf x < sizeOf (Val.map am) := sizeOf_lt_of_mem_fields hx
      exact ⟨z, hz, Sub_intersect_mono x y z ((plainVal_map_iff.1 ha).2 _ hx).2 hyz⟩
    | null => exact absurd rfl hb0
    | _ => rw [intersect_map_other _ _ hb0 rfl]; exact Sub_required _
  | list al =>
    cases b with
    | list bl =>
      obtain ⟨vl, rfl, hsub⟩ := Sub_list_iff.1 h
      rw [intersect_list_list]
      split
      · exact Sub_list_iff.2 ⟨vl, rfl, Or.inl rfl⟩
      · refine Sub_list_iff.2 ⟨vl, rfl, Or.inr (fun x hx => ?_)⟩
        obtain ⟨hxa, hxb⟩ := mem_listCommon.1 hx
        rcases hsub with hreq | hsub
        · -- the accumulated list is the marker list: a plain input has no such entry
          rw [hreq] at hxb
          have hx' : x = .str "$required" := by simpa using hxb
          exact absurd hx' (plainVal_ne_str_dollar (plainVal_list_iff.1 ha x hxa) (by decide))
        · exact hsub x hxb
    | null => exact absurd rfl hb0
    | _ => rw [intersect_list_other _ _ hb0 rfl]; exact Sub_required _
  | _ =>
    rw [intersect_scalar _ _ rfl hb0]
    split
    · rename_i he
      rw [eq_of_beq he]; exact h
    · exact Sub_required _
termination_by sizeOf a

/-! ## the bkli main loop -/

/-- invariant of `doc = intersect(next, doc)`: the accumulated result stays well-formed and
    null-free and is a sub-document of every input seen so far -/
theorem foldl_intersect_sub (rest : List Val) (acc : Val) (seen : List Val)
    (hwf : Val.WF acc) (hnf : acc.nullFree = true) (hseen : ∀ x ∈ seen, Sub acc x)
    (hrest : ∀ x ∈ rest, plainVal x = true) :
    Val.WF (rest.foldl (fun acc next => intersect next acc) acc) ∧
    (rest.foldl (fun acc next => intersect next acc) acc).nullFree = true ∧
    ∀ x, x ∈ seen ∨ x ∈ rest → Sub (rest.foldl (fun acc next => intersect next acc) acc) x := by
  induction rest generalizing acc seen with
  | nil =>
    refine ⟨hwf, hnf, ?_⟩
    rintro x (hx | hx)
    · exact hseen x hx
    · cases hx
  | cons next tl ih =>
    have hnext := hrest next List.mem_cons_self
    have hnwf := plainVal_wf hnext
    have hnnf := plainVal_nullFree hnext
    rw [List.foldl_cons]
    obtain ⟨h1, h2, h3⟩ := ih (intersect next acc) (next :: seen) (intersect_wf _ _ hnwf hwf)
      (intersect_nullFree _ _ hnnf hnf)
      (by
        intro x hx
        rcases List.mem_cons.1 hx with rfl | hx
        · exact Sub_intersect_left _ _ hnwf hnnf hnf
        · exact Sub_intersect_mono _ _ _ hnext (hseen x hx))
      (fun x hx => hrest x (List.mem_cons_of_mem _ hx))
    refine ⟨h1, h2, ?_⟩
    rintro x (hx | hx)
    · exact h3 x (Or.inl (List.mem_cons_of_mem _ hx))
    · rcases List.mem_cons.1 hx with rfl | hx
      · exact h3 _ (Or.inl List.mem_cons_self)
      · exact h3 x (Or.inr hx)

theorem intersectAll_sub (vs : List Val) (h : ∀ x ∈ vs, plainVal x = true) :
    (vs ≠ [] → Val.WF (intersectAll vs) ∧ (intersectAll vs).nullFree = true) ∧
    ∀ x ∈ vs, Sub (intersectAll vs) x := by
  cases vs with
  | nil => exact ⟨fun h => absurd rfl h, fun x hx => by cases hx⟩
  | cons first rest =>
    have hf := h first List.mem_cons_self
    obtain ⟨h1, h2, h3⟩ := foldl_intersect_sub rest first [first] (plainVal_wf hf)
      (plainVal_nullFree hf)
      (by intro x hx; rw [List.mem_singleton.1 hx]; exact Sub_refl _ (plainVal_wf hf))
      (fun x hx => h x (List.mem_cons_of_mem _ hx))
    refine ⟨fun _ => ⟨h1, h2⟩, fun x hx => ?_⟩
    rcases List.mem_cons.1 hx with rfl | hx
    · exact h3 _ (Or.inl List.mem_cons_self)
    · exact h3 x (Or.inr hx)

/-! ## a base that is a sub-document of the target is never `replaceParent` -/

theorem diff_ne_replaceParent_of_Sub {x b : Val} (h : Sub b x) : diff x b ≠ .replaceParent := by
  intro hd
  obtain ⟨hr, h1, h2⟩ := (diff_replaceParent_iff x b).1 hd
  cases b with
  | map bm =>
    obtain ⟨vm, rfl, _⟩ := Sub_map_iff.1 h
    simp [Val.isMap] at h1
  | list bl =>
    obtain ⟨vl, rfl, _⟩ := Sub_list_iff.1 h
    simp [Val.isList] at h2
  | _ => simp [replaceable] at hr

/-- the keys of the intersection are keys of the first input -/
theorem fget_intersectFields_none {am bm : Fields} {k : String} (h : fget am k = none) :
    fget (intersectFields am bm) k = none := by
  cases hg : fget (intersectFields am bm) k with
  | none => rfl
  | some r =>
    obtain ⟨x, y, hx, _, _⟩ := mem_intersectFields (fget_mem hg)
    exact absurd rfl (fget_none_iff.1 h _ hx)

/-- map-rooted inputs give a map-rooted result -/
theorem foldl_intersect_isMap (rest : List Val) (acc : Val) (hacc : acc.isMap = true)
    (hrest : ∀ x ∈ rest, x.isMap = true) :
    (rest.foldl (fun acc next => intersect next acc) acc).isMap = true := by
  induction rest generalizing acc with
  | nil => exact hacc
  | cons next tl ih =>
    rw [List.foldl_cons]
    apply ih _ _ (fun x hx => hrest x (List.mem_cons_of_mem _ hx))
    have hn := hrest next List.mem_cons_self
    cases next with
    | map am =>
      cases acc with
      | map bm => rw [intersect_map_map]; rfl
      | _ => simp [Val.isMap] at hacc
    | _ => simp [Val.isMap] at hn

theorem intersectAll_isMap (vs : List Val) (hne : vs ≠ []) (h : ∀ x ∈ vs, x.isMap = true) :
    ∃ bm, intersectAll vs = .map bm := by
  cases vs with
  | nil => exact absurd rfl hne
  | cons first rest =>
    have := foldl_intersect_isMap rest first (h first List.mem_cons_self)
      (fun x hx => h x (List.mem_cons_of_mem _ hx))
    show ∃ bm, rest.foldl (fun acc next => intersect next acc) first = .map bm
    cases hr : rest.foldl (fun acc next => intersect next acc) first with
    | map bm => exact ⟨bm, rfl⟩
    | _ => rw [hr] at this; simp [Val.isMap] at this

/-! ### shared non-vacuity witnesses -/

def C16_a : Val :=
  .map [("img", .str "nginx"), ("name", .str "a"), ("ports", .list [.int 80, .int 443]),
        ("res", .map [("cpu", .int 1), ("mem", .str "1G")]), ("tags", .list [.str "x"])]
def C16_b : Val :=
  .map [("img", .str "nginx"), ("name", .str "b"), ("ports", .list [.int 80]),
        ("res", .map [("cpu", .int 1), ("mem", .str "2G")]), ("tags", .list [.str "y"])]
def C16_c : Val :=
  .map [("img", .str "nginx"), ("name", .str "c"), ("ports", .list [.int 80, .int 8080]),
        ("res", .list [.int 1]), ("tags", .list [.str "y"])]

theorem C16_witness_plain :
    plainVal C16_a = true ∧ plainVal C16_b = true ∧ plainVal C16_c = true := by decide

end Bkl
