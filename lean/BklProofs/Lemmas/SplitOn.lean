/-
  BklProofs.Lemmas.SplitOn — `String.splitOn` with a one-character separator, characterised on
  `List Char` (`List.splitOnP`).  `String.splitOnAux` is a well-founded loop over raw byte
  positions; Batteries' position lemmas (`get_of_valid`, `next_of_valid`, …) are used to step it.
  Used by C14 (argument parsing of `$encode` specs, separator ':') and C13 (reference paths,
  separator '.').
-/
import Bkl.Val
import Batteries.Data.String.Lemmas
namespace Bkl
open String

theorem splitOnAux_char (sc : Char) (r : List Char) : ∀ (l m : List Char) (acc : List String),
    String.splitOnAux (ofList (l ++ m ++ r)) (ofList [sc]) ⟨utf8Len l⟩ ⟨utf8Len l + utf8Len m⟩ 0 acc
      = acc.reverse ++ (List.splitOnPPrepend (· == sc) r m.reverse).map ofList := by
  have h4 : (0 : Pos.Raw).get (ofList [sc]) = sc := by
    simpa using get_of_valid [] [sc]
  have h6 : (0 : Pos.Raw).next (ofList [sc]) = ⟨sc.utf8Size⟩ := by
    simpa using next_of_valid [] sc []
  have h5 : (⟨sc.utf8Size⟩ : Pos.Raw).atEnd (ofList [sc]) = true := by
    simpa using (atEnd_of_valid [sc] []).2 rfl
  induction r with
  | nil =>
    intro l m acc
    unfold String.splitOnAux
    have h1 : Pos.Raw.atEnd (ofList (l ++ m ++ [])) ⟨utf8Len l + utf8Len m⟩ = true := by
      have := (atEnd_of_valid (l ++ m) []).2 rfl
      simpa [utf8Len_append] using this
    have h2 := extract_of_valid l m []
    simp only [h1, if_true, h2]
    simp [List.splitOnPPrepend]
  | cons c r ih =>
    intro l m acc
    unfold String.splitOnAux
    have h1 : Pos.Raw.atEnd (ofList (l ++ m ++ c :: r)) ⟨utf8Len l + utf8Len m⟩ = false := by
      have := (atEnd_of_valid (l ++ m) (c :: r))
      rw [utf8Len_append] at this
      cases h : Pos.Raw.atEnd (ofList (l ++ m ++ c :: r)) ⟨utf8Len l + utf8Len m⟩
      · rfl
      · exact absurd (this.1 h) (by simp)
    have h2 : Pos.Raw.get (ofList (l ++ m ++ c :: r)) ⟨utf8Len l + utf8Len m⟩ = c := by
      have := get_of_valid (l ++ m) (c :: r)
      simpa [utf8Len_append] using this
    have h3 : Pos.Raw.next (ofList (l ++ m ++ c :: r)) ⟨utf8Len l + utf8Len m⟩
        = ⟨utf8Len l + utf8Len m + c.utf8Size⟩ := by
      have := next_of_valid (l ++ m) c r
      simpa [utf8Len_append] using this
    simp only [h1, h2, h4, Bool.false_eq_true, if_false]
    by_cases hc : c = sc
    · subst hc
      simp only [beq_self_eq_true, if_true, h3, h6, h5]
      have e1 : (⟨utf8Len l + utf8Len m + c.utf8Size⟩ : Pos.Raw).unoffsetBy ⟨c.utf8Size⟩
          = ⟨utf8Len l + utf8Len m⟩ := by
        ext; simp
      rw [e1, extract_of_valid l m (c :: r)]
      have := ih (l ++ m ++ [c]) [] (ofList m :: acc)
      simp only [List.append_assoc, List.singleton_append, utf8Len_append,
        utf8Len_cons, utf8Len_nil, List.append_nil, Nat.add_zero, List.reverse_nil,
        Nat.zero_add] at this
      rw [← Nat.add_assoc] at this
      simp only [List.append_assoc]
      rw [this]
      simp [List.splitOnPPrepend_cons_eq_if]
    · have : (c == sc) = false := by simpa using hc
      simp only [this, Bool.false_eq_true, if_false]
      have e1 : (⟨utf8Len l + utf8Len m⟩ : Pos.Raw).unoffsetBy 0 = ⟨utf8Len l + utf8Len m⟩ := by
        ext; simp
      rw [e1, h3]
      have := ih l (m ++ [c]) acc
      simp only [List.append_assoc, List.singleton_append, utf8Len_append,
        utf8Len_cons, utf8Len_nil, Nat.zero_add] at this
      rw [← Nat.add_assoc] at this
      simp only [List.append_assoc]
      rw [this]
      simp [List.splitOnPPrepend_cons_eq_if, hc]

/-- `splitOn` with a one-character separator is the list-level split at that character. -/
theorem splitOn_char (sc : Char) (s : String) :
    s.splitOn (ofList [sc]) = (List.splitOnP (· == sc) s.toList).map String.ofList := by
  have h := splitOnAux_char sc s.toList [] [] []
  simp only [List.nil_append, String.ofList_toList, utf8Len_nil, Nat.add_zero,
    List.reverse_nil] at h
  have hne : (ofList [sc] == "") = false := by
    rw [beq_eq_false_iff_ne]
    intro e
    have := congrArg String.toList e
    simp at this
  simp only [String.splitOn, hne, Bool.false_eq_true, if_false]
  exact h

theorem splitOn_colon (s : String) :
    s.splitOn ":" = (List.splitOnP (· == ':') s.toList).map String.ofList :=
  splitOn_char ':' s
theorem splitOn_dot (s : String) :
    s.splitOn "." = (List.splitOnP (· == '.') s.toList).map String.ofList :=
  splitOn_char '.' s
end Bkl
