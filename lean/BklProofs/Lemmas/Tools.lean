/-
  BklProofs.Lemmas.Tools — helper definitions and lemmas for C15 (bkld: `diff`) and the shared
  input domain `plainVal` (also used by C16).

  * `dollarFree s`      — the string does not start with `$`
  * `Val.nullFree v`    — no `.null` anywhere in `v`
  * `Val.dollarFreeV v` — no map key and no string leaf of `v` starts with `$`
  * `plainVal v`        — `v.wfB && v.nullFree && v.dollarFreeV`
  * `DiffSpec t b r`    — what the result `r` of `diff t b` promises
-/
import BklProofs.C01
import BklProofs.Lemmas.Order
namespace Bkl

/-! ## the input domain -/

/-- the string does not start with `$` (stated on `String.toList`) -/
def dollarFree (s : String) : Bool := decide (s.toList.head? ≠ some '$')

mutual
/-- no `.null` anywhere -/
def Val.nullFree : Val → Bool
  | .null => false
  | .bool _ => true
  | .int _ => true
  | .flt _ => true
  | .str _ => true
  | .list xs => Val.nullFreeList xs
  | .map kvs => Val.nullFreeFields kvs
def Val.nullFreeList : List Val → Bool
  | [] => true
  | x :: xs => Val.nullFree x && Val.nullFreeList xs
def Val.nullFreeFields : Fields → Bool
  | [] => true
  | (_, v) :: rest => Val.nullFree v && Val.nullFreeFields rest
end

mutual
/-- no map key and no string leaf starts with `$` -/
def Val.dollarFreeV : Val → Bool
  | .null => true
  | .bool _ => true
  | .int _ => true
  | .flt _ => true
  | .str s => dollarFree s
  | .list xs => Val.dollarFreeList xs
  | .map kvs => Val.dollarFreeFields kvs
def Val.dollarFreeList : List Val → Bool
  | [] => true
  | x :: xs => Val.dollarFreeV x && Val.dollarFreeList xs
def Val.dollarFreeFields : Fields → Bool
  | [] => true
  | (k, v) :: rest => dollarFree k && Val.dollarFreeV v && Val.dollarFreeFields rest
end

/-- the input domain of C15/C16: well-formed, null-free, `$`-free -/
def plainVal (v : Val) : Bool := v.wfB && v.nullFree && v.dollarFreeV

theorem nullFreeList_iff {l : List Val} :
    Val.nullFreeList l = true ↔ ∀ x ∈ l, x.nullFree = true := by
  induction l with
  | nil => simp [Val.nullFreeList]
  | cons hd tl ih => simp [Val.nullFreeList, ih]

theorem nullFreeFields_iff {m : Fields} :
    Val.nullFreeFields m = true ↔ ∀ p ∈ m, p.2.nullFree = true := by
  induction m with
  | nil => simp [Val.nullFreeFields]
  | cons hd tl ih =>
    obtain ⟨k, v⟩ := hd
    simp [Val.nullFreeFields, ih]

theorem nullFree_list_iff {l : List Val} :
    (Val.list l).nullFree = true ↔ ∀ x ∈ l, x.nullFree = true := by
  rw [Val.nullFree, nullFreeList_iff]

theorem nullFree_map_iff {m : Fields} :
    (Val.map m).nullFree = true ↔ ∀ p ∈ m, p.2.nullFree = true := by
  rw [Val.nullFree, nullFreeFields_iff]

theorem nullFree_ne_null {v : Val} (h : v.nullFree = true) : v ≠ .null := by
  intro e; subst e; simp [Val.nullFree] at h

theorem nullFree_isNull {v : Val} (h : v.nullFree = true) : v.isNull = false := by
  cases v <;> simp_all [Val.nullFree, Val.isNull]

theorem dollarFreeList_iff {l : List Val} :
    Val.dollarFreeList l = true ↔ ∀ x ∈ l, x.dollarFreeV = true := by
  induction l with
  | nil => simp [Val.dollarFreeList]
  | cons hd tl ih => simp [Val.dollarFreeList, ih]

theorem dollarFreeFields_iff {m : Fields} :
    Val.dollarFreeFields m = true ↔ ∀ p ∈ m, dollarFree p.1 = true ∧ p.2.dollarFreeV = true := by
  induction m with
  | nil => simp [Val.dollarFreeFields]
  | cons hd tl ih =>
    obtain ⟨k, v⟩ := hd
    simp [Val.dollarFreeFields, ih]

theorem plainVal_iff {v : Val} :
    plainVal v = true ↔ Val.WF v ∧ v.nullFree = true ∧ v.dollarFreeV = true := by
  simp [plainVal, Val.WF, and_assoc]

theorem plainVal_list_iff {l : List Val} :
    plainVal (.list l) = true ↔ ∀ x ∈ l, plainVal x = true := by
  simp only [plainVal_iff, wf_list_iff, nullFree_list_iff, Val.dollarFreeV, dollarFreeList_iff]
  constructor
  · rintro ⟨h1, h2, h3⟩ x hx; exact ⟨h1 x hx, h2 x hx, h3 x hx⟩
  · intro h
    exact ⟨fun x hx => (h x hx).1, fun x hx => (h x hx).2.1, fun x hx => (h x hx).2.2⟩

theorem plainVal_map_iff {m : Fields} :
    plainVal (.map m) = true ↔
      Fields.SortedKeys m ∧ ∀ p ∈ m, dollarFree p.1 = true ∧ plainVal p.2 = true := by
  simp only [plainVal_iff, wf_map_iff, nullFree_map_iff, Val.dollarFreeV, dollarFreeFields_iff]
  constructor
  · rintro ⟨⟨hs, h1⟩, h2, h3⟩
    exact ⟨hs, fun p hp => ⟨(h3 p hp).1, h1 p hp, h2 p hp, (h3 p hp).2⟩⟩
  · rintro ⟨hs, h⟩
    exact ⟨⟨hs, fun p hp => (h p hp).2.1⟩, fun p hp => (h p hp).2.2.1,
      fun p hp => ⟨(h p hp).1, (h p hp).2.2.2⟩⟩

theorem plainVal_wf {v : Val} (h : plainVal v = true) : Val.WF v := (plainVal_iff.1 h).1

theorem plainVal_nullFree {v : Val} (h : plainVal v = true) : v.nullFree = true :=
  (plainVal_iff.1 h).2.1

theorem plainVal_sorted {m : Fields} (h : plainVal (.map m) = true) : Fields.SortedKeys m :=
  (plainVal_map_iff.1 h).1

theorem plainVal_of_fget {m : Fields} {k : String} {v : Val} (h : plainVal (.map m) = true)
    (hg : fget m k = some v) : plainVal v = true :=
  ((plainVal_map_iff.1 h).2 _ (fget_mem hg)).2

/-- a key that starts with `$` is absent from a plain map -/
theorem plainVal_fget_dollar {m : Fields} {k : String} (h : plainVal (.map m) = true)
    (hk : dollarFree k = false) : fget m k = none := by
  rw [fget_none_iff]
  intro p hp e
  have := ((plainVal_map_iff.1 h).2 p hp).1
  rw [e, hk] at this
  cases this

theorem plainVal_str {s : String} : plainVal (.str s) = true ↔ dollarFree s = true := by
  simp [plainVal, Val.wfB, Val.nullFree, Val.dollarFreeV]

theorem plainVal_null : plainVal .null = false := rfl

/-- a plain value is not one of the directive strings -/
theorem plainVal_toStr_dollar {v : Val} (h : plainVal v = true) {s : String}
    (hs : dollarFree s = false) : v.toStr ≠ s := by
  cases v with
  | str t =>
    rw [plainVal_str] at h
    intro e
    simp only [Val.toStr] at e
    rw [e, hs] at h; cases h
  | _ =>
    intro e
    simp only [Val.toStr] at e
    rw [← e] at hs
    revert hs; decide

theorem plainVal_ne_str_dollar {v : Val} (h : plainVal v = true) {s : String}
    (hs : dollarFree s = false) : v ≠ .str s := by
  intro e; subst e
  rw [plainVal_str, hs] at h; cases h

/-- a plain value carries no list directive -/
theorem plainVal_plainEntry {v : Val} (h : plainVal v = true) : plainEntry v = true := by
  cases v with
  | map kvs =>
    have h1 := plainVal_fget_dollar (k := "$delete") h (by decide)
    have h2 := plainVal_fget_dollar (k := "$match") h (by decide)
    have h3 := plainVal_fget_dollar (k := "$replace") h (by decide)
    simp [plainEntry, fhas, fhasBool, h1, h2, h3]
  | str s =>
    have := plainVal_ne_str_dollar (s := "$replace") h (by decide)
    simp only [plainEntry, Bool.not_eq_true', beq_eq_false_iff_ne, ne_eq]
    exact this
  | _ => rfl

theorem plainList_all_plainEntry {l : List Val} (h : plainVal (.list l) = true) :
    l.all plainEntry = true := by
  rw [List.all_eq_true]
  intro x hx
  exact plainVal_plainEntry (plainVal_list_iff.1 h x hx)

/-- a plain map is never a `$merge`/`$replace`/`$encode` placeholder -/
theorem plainVal_not_placeholder {m : Fields} (h : plainVal (.map m) = true) :
    isPlaceholder m = false := by
  unfold isPlaceholder
  split
  · rename_i k v
    have hk : dollarFree k = true := ((plainVal_map_iff.1 h).2 (k, v) (by simp)).1
    have h1 : k ≠ "$merge" := by intro e; rw [e] at hk; revert hk; decide
    have h2 : k ≠ "$replace" := by intro e; rw [e] at hk; revert hk; decide
    have h3 : k ≠ "$encode" := by intro e; rw [e] at hk; revert hk; decide
    simp [h1, h2, h3]
  · rfl

/-! ## sizes (for well-founded recursion over a value) -/

theorem sizeOf_lt_of_mem_fields {m : Fields} {k : String} {v : Val} (h : (k, v) ∈ m) :
    sizeOf v < sizeOf (Val.map m) := by
  have : sizeOf v < sizeOf m := by
    induction m with
    | nil => cases h
    | cons hd tl ih =>
      rcases List.mem_cons.1 h with h | h
      · subst h; simp; omega
      · have := ih h; simp; omega
  simp; omega

theorem sizeOf_lt_of_mem_list {l : List Val} {v : Val} (h : v ∈ l) :
    sizeOf v < sizeOf (Val.list l) := by
  have : sizeOf v < sizeOf l := by
    induction l with
    | nil => cases h
    | cons hd tl ih =>
      rcases List.mem_cons.1 h with h | h
      · subst h; simp; omega
      · have := ih h; simp; omega
  simp; omega

/-! ## `matchV` is reflexive on plain values (a `$delete: e` entry finds `e`) -/

theorem matchAll_eq_all (os ps : List Val) :
    matchAll os ps = ps.all (fun p => os.any (fun o => matchV o p)) := by
  induction ps with
  | nil => simp [matchAll]
  | cons hd tl ih => rw [matchAll, ih, List.all_cons]

theorem matchV_refl_plain (e : Val) (h : plainVal e = true) : matchV e e = true := by
  cases e with
  | null => simp [plainVal_null] at h
  | map m =>
    have hinv : fhasBool m "$invert" true = false := by
      unfold fhasBool
      rw [plainVal_fget_dollar h (show dollarFree "$invert" = false by decide)]
    have hs := plainVal_sorted h
    rw [matchV]
    simp only [hinv, plainVal_not_placeholder h, Bool.false_eq_true, if_false]
    rw [matchFields_eq_all, List.all_eq_true]
    rintro ⟨k, v⟩ hp
    have : sizeOf v < sizeOf (Val.map m) := sizeOf_lt_of_mem_fields hp
    simp only [Bool.false_and, Bool.false_eq_true, if_false, fget_of_mem_sorted hs hp,
      Option.getD_some]
    exact matchV_refl_plain v ((plainVal_map_iff.1 h).2 _ hp).2
  | list l =>
    rw [matchV]
    rw [matchAll_eq_all, List.all_eq_true]
    intro p hp
    rw [List.any_eq_true]
    have : sizeOf p < sizeOf (Val.list l) := sizeOf_lt_of_mem_list hp
    exact ⟨p, hp, matchV_refl_plain p (plainVal_list_iff.1 h p hp)⟩
  | _ => simp [matchV]
termination_by sizeOf e

end Bkl
