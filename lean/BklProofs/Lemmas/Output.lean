/-
  Helper lemmas for the output stage (validate / finalize / findOutputs / filterOutput / emit)
  and for `required`.  Nothing here mentions the specification functions of the property files.
-/
import Bkl
namespace Bkl

/-- `Except ε α` has decidable equality (so that `decide` can evaluate `validate … = .ok ()`,
    `findOutputs … = .ok …`, …). -/
instance instDecEqExcept {ε α : Type} [DecidableEq ε] [DecidableEq α] : DecidableEq (Except ε α) :=
  fun a b =>
  match a, b with
  | .ok x, .ok y =>
    if h : x = y then isTrue (h ▸ rfl) else isFalse (by intro h'; cases h'; exact h rfl)
  | .error e1, .error e2 =>
    if h : e1 = e2 then isTrue (h ▸ rfl) else isFalse (by intro h'; cases h'; exact h rfl)
  | .ok _, .error _ => isFalse (by intro h; cases h)
  | .error _, .ok _ => isFalse (by intro h; cases h)

/-- sequencing in `R`: `x; y` is ok iff both are -/
theorem o_seq_ok {x : R Unit} {y : R Unit} : (do x; y) = .ok () ↔ x = .ok () ∧ y = .ok () := by
  cases x with
  | ok u => cases u; simp [bind, Except.bind]
  | error e => simp [bind, Except.bind]

theorem o_seq_of_ok {x : R Unit} {y : R α} (h : x = .ok ()) : (do x; y) = y := by
  subst h; rfl

theorem o_seq_of_error {x : R Unit} {y : R α} {e : Err} (h : x = .error e) :
    (do x; y) = .error e := by
  subst h; rfl

theorem o_isOk_unit {x : R Unit} (h : x.isOk = true) : x = .ok () := by
  cases x with
  | ok u => rfl
  | error e => cases h

theorem o_seq_error {x : R Unit} {y : R Unit} {e : Err} (h : (do x; y) = .error e) :
    x = .error e ∨ y = .error e := by
  cases x with
  | ok u => right; exact h
  | error e' => left; exact h

/-! ## `emit` without `for` loops -/

/-- first loop of `emit`: the selected documents of every processed document -/
def emitSelect : List Val → R (List Val)
  | [] => pure []
  | d :: ds => do
    let (obj, sel) ← findOutputs d
    let rest ← emitSelect ds
    pure ((if sel.isEmpty then [obj] else sel) ++ rest)

def emitFinish : List Val → R (List Val)
  | [] => pure []
  | v :: vs => do
    match ← filterOutput v with
    | none => emitFinish vs
    | some v2 => do
      validate v2
      let rest ← emitFinish vs
      pure (finalize v2 :: rest)

theorem emit_loop1 (ds : List Val) (acc : List Val) :
    (forIn ds acc fun d r => do
      let (obj, sel) ← findOutputs d
      pure (ForInStep.yield (r ++ (if sel.isEmpty then [obj] else sel)))) =
    (do let r ← emitSelect ds; pure (acc ++ r) : R (List Val)) := by
  induction ds generalizing acc with
  | nil => simp [emitSelect]
  | cons d ds ih =>
    simp only [List.forIn_cons, emitSelect]
    cases h : findOutputs d with
    | error e => rfl
    | ok p =>
      obtain ⟨obj, sel⟩ := p
      simp only [bind, Except.bind, pure, Except.pure] 
      have := ih (acc ++ (if sel.isEmpty then [obj] else sel))
      simp only [bind, Except.bind, pure, Except.pure] at this
      rw [this]
      cases emitSelect ds <;> simp

theorem emit_loop2 (vs : List Val) (acc : List Val) :
    (forIn vs acc fun v r => do
      match ← filterOutput v with
      | none => pure (ForInStep.yield r)
      | some v2 => do
        validate v2
        pure (ForInStep.yield (r ++ [finalize v2]))) =
    (do let r ← emitFinish vs; pure (acc ++ r) : R (List Val)) := by
  induction vs generalizing acc with
  | nil => simp [emitFinish]
  | cons d ds ih =>
    simp only [List.forIn_cons, emitFinish]
    cases h : filterOutput d with
    | error e => rfl
    | ok p =>
      cases p with
      | none => 
        simp only [bind, Except.bind, pure, Except.pure] 
        have := ih acc
        simp only [bind, Except.bind, pure, Except.pure] at this
        rw [this]
      | some v2 =>
        simp only [bind, Except.bind, pure, Except.pure] 
        cases hv : validate v2 with
        | error e => rfl
        | ok u =>
          have := ih (acc ++ [finalize v2])
          simp only [bind, Except.bind, pure, Except.pure] at this
          simp only []
          rw [this]
          cases emitFinish ds <;> simp

theorem emit_loop1' (ds : List Val) :
    (forIn ds [] fun d r => do
      let (obj, sel) ← findOutputs d
      pure (ForInStep.yield (r ++ (if sel.isEmpty then [obj] else sel)))) =
    (emitSelect ds : R (List Val)) := by
  rw [emit_loop1]; simp

theorem emit_loop2' (vs : List Val) :
    (forIn vs [] fun v r => do
      match ← filterOutput v with
      | none => pure (ForInStep.yield r)
      | some v2 => do
        validate v2
        pure (ForInStep.yield (r ++ [finalize v2]))) =
    (emitFinish vs : R (List Val)) := by
  rw [emit_loop2]; simp

theorem emit_eq (ds : List Val) : emit ds = (do let outs ← emitSelect ds; emitFinish outs) := by
  unfold emit
  dsimp only
  rw [emit_loop1']
  simp only [bind_pure]
  congr 1; funext s; exact emit_loop2' s

/-- every document produced by the second loop is the finalisation of a validated, filtered input -/
theorem emitFinish_mem : ∀ (vs outs : List Val), emitFinish vs = .ok outs → ∀ o ∈ outs,
    ∃ v ∈ vs, ∃ v2, filterOutput v = .ok (some v2) ∧ validate v2 = .ok () ∧ o = finalize v2
  | [], outs, h, o, ho => by
    simp only [emitFinish, pure, Except.pure, Except.ok.injEq] at h
    subst h; cases ho
  | v :: vs, outs, h, o, ho => by
    simp only [emitFinish] at h
    cases hf : filterOutput v with
    | error e => rw [hf] at h; cases h
    | ok r =>
      rw [hf] at h
      cases r with
      | none =>
        obtain ⟨v', hv', rest⟩ := emitFinish_mem vs outs h o ho
        exact ⟨v', List.mem_cons_of_mem _ hv', rest⟩
      | some v2 =>
        simp only [bind, Except.bind] at h
        cases hv : validate v2 with
        | error e => rw [hv] at h; cases h
        | ok u =>
          rw [hv] at h
          cases hr : emitFinish vs with
          | error e => rw [hr] at h; cases h
          | ok rest =>
            rw [hr] at h
            simp only [pure, Except.pure, Except.ok.injEq] at h
            subst h
            rcases List.mem_cons.1 ho with rfl | ho'
            · exact ⟨v, List.mem_cons_self, v2, hf, hv, rfl⟩
            · obtain ⟨v', hv', rest'⟩ := emitFinish_mem vs rest hr o ho'
              exact ⟨v', List.mem_cons_of_mem _ hv', rest'⟩

/-- every document entering the second loop was selected from some processed document
    (the root, when nothing was selected) -/
theorem emitSelect_mem : ∀ (ds vs : List Val), emitSelect ds = .ok vs → ∀ v ∈ vs,
    ∃ d ∈ ds, ∃ obj sel, findOutputs d = .ok (obj, sel) ∧ ((sel = [] ∧ v = obj) ∨ v ∈ sel)
  | [], vs, h, v, hv => by
    simp only [emitSelect, pure, Except.pure, Except.ok.injEq] at h
    subst h; cases hv
  | d :: ds, vs, h, v, hv => by
    simp only [emitSelect] at h
    cases hf : findOutputs d with
    | error e => rw [hf] at h; cases h
    | ok p =>
      obtain ⟨obj, sel⟩ := p
      rw [hf] at h
      simp only [bind, Except.bind] at h
      cases hr : emitSelect ds with
      | error e => rw [hr] at h; cases h
      | ok rest =>
        rw [hr] at h
        simp only [pure, Except.pure, Except.ok.injEq] at h
        subst h
        rcases List.mem_append.1 hv with hv' | hv'
        · refine ⟨d, List.mem_cons_self, obj, sel, hf, ?_⟩
          cases sel with
          | nil => left; simpa using hv'
          | cons a b => right; simpa using hv'
        · obtain ⟨d', hd', rest'⟩ := emitSelect_mem ds rest hr v hv'
          exact ⟨d', List.mem_cons_of_mem _ hd', rest'⟩

end Bkl
