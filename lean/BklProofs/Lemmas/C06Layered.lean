/-
  BklProofs.Lemmas.C06Layered — helper lemmas for
    * C06_layered  (doubled data layered over other documents), and
    * C07_required_persists / _scalar_override / _list_persists (`$required` across layers).

  Part 1 (prefix `l_`): `$`-doubling commutes with the association-list operations and with
  `merge`; the directive-free structural merge `plainMerge`.
  Part 2 (prefix `q_`): map paths (`mapPath`), `mentions`, `noReplaceAlong`, and the frame /
  override lemmas of `merge` along a path.
-/
import BklProofs.Lemmas.EscapeProc
import BklProofs.Lemmas.MergeWF
import BklProofs.C17   -- only for the specification function `countReq`
namespace Bkl

/-! # Part 1: doubling and merge -/

/-! ## `doubleStr` is injective and reflects the order -/

theorem l_doubleChars_inj {a b : List Char} (h : doubleChars a = doubleChars b) : a = b := by
  have := congrArg unescapeChars h
  rwa [e_unescape_double, e_unescape_double] at this

theorem l_doubleStr_inj {a b : String} (h : doubleStr a = doubleStr b) : a = b := by
  have h1 : (doubleStr a).toList = (doubleStr b).toList := by rw [h]
  rw [e_toList_doubleStr, e_toList_doubleStr] at h1
  exact String.toList_inj.1 (l_doubleChars_inj h1)

theorem l_doubleStr_eq_iff {a b : String} : doubleStr a = doubleStr b ↔ a = b :=
  ⟨l_doubleStr_inj, fun h => by rw [h]⟩

theorem l_doubleStr_lt_iff {a b : String} : doubleStr a < doubleStr b ↔ a < b := by
  constructor
  · intro h
    by_cases hab : a < b
    · exact hab
    · by_cases he : a = b
      · subst he; exact absurd h (String.lt_irrefl _)
      · have := e_doubleStr_lt (str_lt_of_not_lt_of_ne hab he)
        exact absurd h (String.lt_asymm this)
  · exact e_doubleStr_lt

/-! ## doubling commutes with `fget`, `fset`, `isEmpty`, `++` -/

theorem l_fget_double (d : Fields) (k : String) :
    fget (doubleFields d) (doubleStr k) = (fget d k).map double := by
  induction d with
  | nil => rfl
  | cons a t ih =>
    obtain ⟨k1, v1⟩ := a
    simp only [doubleFields, fget, l_doubleStr_eq_iff]
    split
    · rfl
    · exact ih

theorem l_fset_double (d : Fields) (k : String) (v : Val) :
    fset (doubleFields d) (doubleStr k) (double v) = doubleFields (fset d k v) := by
  induction d with
  | nil => rfl
  | cons a t ih =>
    obtain ⟨k1, v1⟩ := a
    simp only [doubleFields, fset, l_doubleStr_eq_iff, l_doubleStr_lt_iff]
    split
    · rfl
    · split
      · rfl
      · simp only [doubleFields, ih]

theorem l_isEmpty_double (d : Fields) : (doubleFields d).isEmpty = d.isEmpty := by
  cases d with
  | nil => rfl
  | cons a t => obtain ⟨k, v⟩ := a; rfl

theorem l_doubleList_append (a b : List Val) :
    doubleList (a ++ b) = doubleList a ++ doubleList b := by
  induction a with
  | nil => rfl
  | cons x xs ih => simp only [List.cons_append, doubleList, ih]

theorem l_doubleList_mem {xs : List Val} {y : Val} (h : y ∈ doubleList xs) :
    ∃ x, x ∈ xs ∧ y = double x := by
  induction xs with
  | nil => simp [doubleList] at h
  | cons a t ih =>
    simp only [doubleList, List.mem_cons] at h
    rcases h with rfl | h
    · exact ⟨a, List.mem_cons_self, rfl⟩
    · obtain ⟨x, hx, rfl⟩ := ih h
      exact ⟨x, List.mem_cons_of_mem _ hx, rfl⟩

/-! ## nothing in a doubled value is a merge directive -/

theorem l_mem_names_replace : "$replace" ∈ directiveNames := by decide
theorem l_mem_names_delete : "$delete" ∈ directiveNames := by decide
theorem l_mem_names_match : "$match" ∈ directiveNames := by decide
theorem l_mem_names_required : "$required" ∈ directiveNames := by decide

theorem l_fget_double_name (s : Fields) {n : String} (hn : n ∈ directiveNames) :
    fget (doubleFields s) n = none :=
  e_plainFields_fget (e_plain_double_all.2.2 s) hn

theorem l_fhasBool_double (s : Fields) {n : String} (hn : n ∈ directiveNames) (b : Bool) :
    fhasBool (doubleFields s) n b = false := by
  simp [fhasBool, l_fget_double_name s hn]

theorem l_doubleStr_ne_name (s : String) {n : String} (hn : n ∈ directiveNames) :
    doubleStr s ≠ n :=
  e_rc_names (e_rc_doubleStr s) n hn

theorem l_toStr_double_ne_delete (v : Val) : (double v).toStr ≠ "$delete" := by
  cases v with
  | str s => exact l_doubleStr_ne_name s l_mem_names_delete
  | _ => simp only [double, Val.toStr]; decide

theorem l_plainEntry_double (v : Val) : plainEntry (double v) = true := by
  cases v with
  | str s =>
    have := l_doubleStr_ne_name s l_mem_names_replace
    simp only [double, plainEntry, Bool.not_eq_true', beq_eq_false_iff_ne, ne_eq]
    intro h; exact this (Val.str.inj h)
  | map kvs =>
    simp only [double, plainEntry, fhas, l_fget_double_name kvs l_mem_names_delete,
      l_fget_double_name kvs l_mem_names_match, l_fhasBool_double kvs l_mem_names_replace]
    rfl
  | _ => rfl

theorem l_all_plainEntry_double (s : List Val) : (doubleList s).all plainEntry = true := by
  rw [List.all_eq_true]
  intro y hy
  obtain ⟨x, _, rfl⟩ := l_doubleList_mem hy
  exact l_plainEntry_double x

theorem l_double_ne_required (v : Val) : (double v == Val.str "$required") = false := by
  rw [beq_eq_false_iff_ne]
  cases v with
  | str s =>
    have := l_doubleStr_ne_name s l_mem_names_required
    simp only [double]; intro h; exact this (Val.str.inj h)
  | _ => simp only [double]; intro h; cases h

theorem l_dropRequired_double (d : List Val) : dropRequired (doubleList d) = doubleList d := by
  unfold dropRequired
  rw [List.filter_eq_self]
  intro y hy
  obtain ⟨x, _, rfl⟩ := l_doubleList_mem hy
  simp [l_double_ne_required x]

/-- two doubled lists: plain concatenation (nothing is stripped, replaced, matched or deleted) -/
theorem l_merge_list_double (d s : List Val) :
    merge (.list (doubleList d)) (.list (doubleList s)) = .ok (.list (doubleList (d ++ s))) := by
  have h := l_all_plainEntry_double s
  rw [merge_list_list,
    mergeListList_no_replace _ (all_plain_any_replace h) (all_plain_no_marker h)]
  have := mergeEntries_plain_append (dropRequired (doubleList d)) [] h
  rw [List.append_nil] at this
  rw [this, mergeEntries_nil, l_dropRequired_double, l_doubleList_append]

/-! ## `double` is injective against a scalar -/

theorem l_double_beq_scalar (a b : Val) (ha : a.isScalar = true) :
    (double b == double a) = (b == a) := by
  by_cases h : b = a
  · subst h; simp
  · have h2 : double b ≠ double a := by
      cases a <;> simp [Val.isScalar] at ha <;> cases b <;> simp_all [double, l_doubleStr_eq_iff]
    rw [beq_eq_false_iff_ne.2 h, beq_eq_false_iff_ne.2 h2]

theorem l_isScalar_double (a : Val) : (double a).isScalar = a.isScalar := by
  cases a <;> rfl

theorem l_isMap_double (a : Val) : (double a).isMap = a.isMap := by cases a <;> rfl
theorem l_isList_double (a : Val) : (double a).isList = a.isList := by cases a <;> rfl

/-! ## the directive-free structural merge -/

mutual
/-- `merge` with every directive switched off: maps merge key by key, lists concatenate, a
    scalar replaces (an identical scalar is `uselessOverride`), a null child keeps the parent,
    a kind mismatch is `invalidType` (except over an empty map).  Strings such as `"$delete"`,
    `"$replace"`, `"$required"` and keys such as `$match`, `$value`, `$replace` are DATA. -/
def plainMerge (dst src : Val) : R Val :=
  match dst with
  | .map d =>
    match src with
    | .map s => Except.map Val.map (plainMergeFields d s)
    | .null => .ok (.map d)
    | _ => if d.isEmpty then .ok src else .error Err.invalidType
  | .list d =>
    match src with
    | .list s => .ok (.list (d ++ s))
    | .null => .ok (.list d)
    | _ => .error Err.invalidType
  | .null => .ok src
  | _ => if src == dst then .error Err.uselessOverride else .ok src
/-- the key-by-key loop of `plainMerge` -/
def plainMergeFields (d : Fields) (s : Fields) : R Fields :=
  match s with
  | [] => .ok d
  | (k, v) :: rest =>
    match fget d k with
    | some e =>
      match plainMerge e v with
      | .error err => .error err
      | .ok v2 => plainMergeFields (fset d k v2) rest
    | none => plainMergeFields (fset d k v) rest
end

/-- `plainMerge` over a chain of layers, base first -/
def plainChain : List Val → R Val
  | [] => .ok .null
  | base :: rest => rest.foldlM plainMerge base

theorem l_pm_map_map (d s : Fields) :
    plainMerge (.map d) (.map s) = Except.map Val.map (plainMergeFields d s) := by
  simp only [plainMerge]

theorem l_pm_map_null (d : Fields) : plainMerge (.map d) .null = .ok (.map d) := by
  simp only [plainMerge]

theorem l_pm_list_list (d s : List Val) :
    plainMerge (.list d) (.list s) = .ok (.list (d ++ s)) := by
  simp only [plainMerge]

theorem l_pm_list_null (d : List Val) : plainMerge (.list d) .null = .ok (.list d) := by
  simp only [plainMerge]

theorem l_pm_null (s : Val) : plainMerge .null s = .ok s := by
  simp only [plainMerge]

theorem l_pm_map_other (d : Fields) (src : Val) (h1 : src.isMap = false)
    (h2 : src.isNull = false) :
    plainMerge (.map d) src = if d.isEmpty then .ok src else .error .invalidType := by
  cases src <;> simp [Val.isMap, Val.isNull] at h1 h2 <;> simp only [plainMerge]

theorem l_pm_list_other (d : List Val) (src : Val) (h1 : src.isList = false)
    (h2 : src.isNull = false) : plainMerge (.list d) src = .error .invalidType := by
  cases src <;> simp [Val.isList, Val.isNull] at h1 h2 <;> simp only [plainMerge]

theorem l_pm_scalar (dst src : Val) (h : dst.isScalar = true) :
    plainMerge dst src = if src == dst then .error .uselessOverride else .ok src := by
  cases dst <;> simp [Val.isScalar] at h <;> simp only [plainMerge]

theorem l_pmf_nil (d : Fields) : plainMergeFields d [] = .ok d := by
  simp only [plainMergeFields]

theorem l_pmf_cons (d : Fields) (k : String) (v : Val) (rest : Fields) :
    plainMergeFields d ((k, v) :: rest) =
      match fget d k with
      | some e =>
        (match plainMerge e v with
         | .error err => .error err
         | .ok v2 => plainMergeFields (fset d k v2) rest)
      | none => plainMergeFields (fset d k v) rest := by
  simp only [plainMergeFields]

/-! ## `merge` on doubled data is `plainMerge` on the data -/

theorem l_map_double_map (x : R Fields) :
    Except.map Val.map (Except.map doubleFields x) = Except.map double (Except.map Val.map x) := by
  cases x <;> rfl

theorem l_merge_double_all :
    (∀ b a, merge (double a) (double b) = Except.map double (plainMerge a b)) ∧
    (∀ (_ : List Val), True) ∧
    (∀ s d, mergeFields (doubleFields d) (doubleFields s)
        = Except.map doubleFields (plainMergeFields d s)) := by
  -- the scalar-parent case is the same for every child
  have hsc : ∀ a b : Val, a.isScalar = true →
      merge (double a) (double b) = Except.map double (plainMerge a b) := by
    intro a b ha
    rw [merge_scalar _ _ (by rw [l_isScalar_double]; exact ha), l_pm_scalar _ _ ha,
      l_double_beq_scalar a b ha]
    split <;> rfl
  -- a non-map, non-null child over a map / a non-list, non-null child over a list
  have hmo : ∀ (d : Fields) (b : Val), b.isMap = false → b.isNull = false →
      merge (double (.map d)) (double b) = Except.map double (plainMerge (.map d) b) := by
    intro d b h1 h2
    simp only [double]
    rw [merge_map_other _ _ (by rw [l_isMap_double]; exact h1)
      (by rw [e_double_isNull]; exact h2), l_pm_map_other _ _ h1 h2, l_isEmpty_double]
    split <;> rfl
  have hlo : ∀ (d : List Val) (b : Val), b.isList = false → b.isNull = false →
      merge (double (.list d)) (double b) = Except.map double (plainMerge (.list d) b) := by
    intro d b h1 h2
    simp only [double]
    rw [merge_list_other _ _ (by rw [l_isList_double]; exact h1)
      (by rw [e_double_isNull]; exact h2), l_pm_list_other _ _ h1 h2]
    rfl
  apply e_Val_induct
  case null =>
    intro a
    cases a with
    | map d => simp only [double]; rw [merge_map_null, l_pm_map_null]; rfl
    | list d => simp only [double]; rw [merge_list_null, l_pm_list_null]; rfl
    | null => simp only [double]; rw [merge_null, l_pm_null]; rfl
    | _ => exact hsc _ _ rfl
  case bool =>
    intro x a
    cases a with
    | map d => exact hmo d _ rfl rfl
    | list d => exact hlo d _ rfl rfl
    | null => simp only [double]; rw [merge_null, l_pm_null]; rfl
    | _ => exact hsc _ _ rfl
  case int =>
    intro x a
    cases a with
    | map d => exact hmo d _ rfl rfl
    | list d => exact hlo d _ rfl rfl
    | null => simp only [double]; rw [merge_null, l_pm_null]; rfl
    | _ => exact hsc _ _ rfl
  case flt =>
    intro x a
    cases a with
    | map d => exact hmo d _ rfl rfl
    | list d => exact hlo d _ rfl rfl
    | null => simp only [double]; rw [merge_null, l_pm_null]; rfl
    | _ => exact hsc _ _ rfl
  case str =>
    intro x a
    cases a with
    | map d => exact hmo d _ rfl rfl
    | list d => exact hlo d _ rfl rfl
    | null => simp only [double]; rw [merge_null, l_pm_null]; rfl
    | _ => exact hsc _ _ rfl
  case list =>
    intro s _ a
    cases a with
    | map d => exact hmo d _ rfl rfl
    | list d => simp only [double]; rw [l_merge_list_double, l_pm_list_list]; rfl
    | null => simp only [double]; rw [merge_null, l_pm_null]; rfl
    | _ => exact hsc _ _ rfl
  case map =>
    intro s ih a
    cases a with
    | map d =>
      simp only [double]
      rw [merge_map_map, mergeMapMap_noreplace (l_fhasBool_double s l_mem_names_replace true),
        ih d, l_pm_map_map]
      exact l_map_double_map _
    | list d => exact hlo d _ rfl rfl
    | null => simp only [double]; rw [merge_null, l_pm_null]; rfl
    | _ => exact hsc _ _ rfl
  case lnil => trivial
  case lcons => intros; trivial
  case fnil => intro d; simp only [doubleFields]; rw [mergeFields_nil, l_pmf_nil]; rfl
  case fcons =>
    intro k v rest ih1 ih2 d
    simp only [doubleFields]
    rw [mergeFields_cons, if_neg (l_toStr_double_ne_delete v), l_fget_double, l_pmf_cons]
    cases fget d k with
    | none =>
      simp only [Option.map_none]
      rw [l_fset_double, ih2]
    | some e =>
      simp only [Option.map_some]
      rw [ih1 e]
      cases plainMerge e v with
      | error err => rfl
      | ok v2 =>
        show mergeFields (fset (doubleFields d) (doubleStr k) (double v2)) (doubleFields rest) =
          Except.map doubleFields (plainMergeFields (fset d k v2) rest)
        rw [l_fset_double, ih2]

/-- **doubling commutes with merge**: merging doubled data is the directive-free merge of the
    data, doubled.  No hypothesis. -/
theorem l_merge_double (a b : Val) :
    merge (double a) (double b) = Except.map double (plainMerge a b) :=
  l_merge_double_all.1 b a

theorem l_foldl_merge_double (vs : List Val) (a : Val) :
    List.foldlM merge (double a) (doubleList vs) =
      Except.map double (List.foldlM plainMerge a vs) := by
  induction vs generalizing a with
  | nil => rfl
  | cons v vs ih =>
    simp only [doubleList]
    rw [foldlM_cons, foldlM_cons, l_merge_double]
    cases plainMerge a v with
    | error e => rfl
    | ok r => exact ih r

theorem l_mergeChain_double (vs : List Val) :
    mergeChain (doubleList vs) = Except.map double (plainChain vs) := by
  cases vs with
  | nil => rfl
  | cons a vs => simp only [doubleList, mergeChain, plainChain]; exact l_foldl_merge_double vs a

theorem l_mergeChain_pair (a b : Val) : mergeChain [a, b] = merge a b := by
  simp only [mergeChain]
  rw [foldlM_cons]
  cases merge a b <;> rfl

theorem l_plainChain_pair (a b : Val) : plainChain [a, b] = plainMerge a b := by
  simp only [plainChain]
  rw [foldlM_cons]
  cases plainMerge a b <;> rfl

/-! ## `$`-free data -/

/-- no map key and no string leaf contains a `$` -/
def noDollar (v : Val) : Bool := allStr (fun s => !s.toList.contains '$') v

theorem l_doubleChars_free (cs : List Char) (h : cs.contains '$' = false) :
    doubleChars cs = cs := by
  induction cs with
  | nil => rfl
  | cons c cs ih =>
    simp only [List.contains_cons, Bool.or_eq_false_iff, beq_eq_false_iff_ne, ne_eq] at h
    have hc : ¬ c = '$' := fun e => h.1 e.symm
    simp only [doubleChars, hc, if_false, ih h.2]

theorem l_doubleStr_free (s : String) (h : s.toList.contains '$' = false) : doubleStr s = s := by
  unfold doubleStr
  rw [l_doubleChars_free _ h, String.ofList_toList]

theorem l_double_free_all :
    (∀ v, noDollar v = true → double v = v) ∧
    (∀ xs, allStrList (fun s => !s.toList.contains '$') xs = true → doubleList xs = xs) ∧
    (∀ kvs, allStrFields (fun s => !s.toList.contains '$') kvs = true → doubleFields kvs = kvs) := by
  apply e_Val_induct
  case null | bool | int | flt => intros; rfl
  case str =>
    intro s h
    simp only [noDollar, allStr, Bool.not_eq_true'] at h
    simp only [double, l_doubleStr_free s h]
  case list => intro xs ih h; simp only [noDollar, allStr] at h; simp only [double, ih h]
  case map => intro xs ih h; simp only [noDollar, allStr] at h; simp only [double, ih h]
  case lnil => intro _; rfl
  case lcons =>
    intro x xs ih1 ih2 h
    simp only [allStrList, Bool.and_eq_true] at h
    simp only [doubleList, ih1 h.1, ih2 h.2]
  case fnil => intro _; rfl
  case fcons =>
    intro k v rest ih1 ih2 h
    simp only [allStrFields, Bool.and_eq_true, Bool.not_eq_true'] at h
    simp only [doubleFields, ih1 h.1.2, ih2 h.2, l_doubleStr_free k h.1.1]

/-- doubling does nothing to `$`-free data -/
theorem l_double_free {v : Val} (h : noDollar v = true) : double v = v :=
  l_double_free_all.1 v h

theorem l_recog_free (cs : List Char) (h : cs.contains '$' = false) : recogChars cs = false := by
  cases cs with
  | nil => exact e_recog_nil
  | cons c r =>
    simp only [List.contains_cons, Bool.or_eq_false_iff, beq_eq_false_iff_ne, ne_eq] at h
    exact e_recog_c c r (fun e => h.1 e.symm)

theorem l_hasDD_free (cs : List Char) (h : cs.contains '$' = false) : hasDD cs = false := by
  fun_induction hasDD cs with
  | case1 => simp at h
  | case2 c rest hne ih =>
    simp only [List.contains_cons, Bool.or_eq_false_iff] at h
    exact ih h.2
  | case3 => rfl

/-- `$`-free data is inert -/
theorem l_free_inert {v : Val} (h : noDollar v = true) : inert v = true := by
  refine (e_allStr_mono_all ?_).1 v h
  intro s hs
  simp only [Bool.not_eq_true'] at hs
  simp [recognised, recognisedCore, l_recog_free _ hs, l_hasDD_free _ hs]

/-! ## well-formedness is reflected by doubling -/

theorem l_sorted_of_double (kvs : Fields) (h : Fields.sortedKeysB (doubleFields kvs) = true) :
    Fields.sortedKeysB kvs = true := by
  rw [e_sortedB_iff_keys] at h ⊢
  rw [e_doubleFields_keys, List.pairwise_map] at h
  exact h.imp (fun hab => l_doubleStr_lt_iff.1 hab)

theorem l_wf_of_double_all :
    (∀ v, Val.wfB (double v) = true → Val.wfB v = true) ∧
    (∀ xs, Val.wfListB (doubleList xs) = true → Val.wfListB xs = true) ∧
    (∀ kvs, Val.wfFieldsB (doubleFields kvs) = true → Val.wfFieldsB kvs = true) := by
  apply e_Val_induct
  case null | bool | int | flt | str => intros; rfl
  case list => intro xs ih h; simp only [double, Val.wfB] at h ⊢; exact ih h
  case map =>
    intro kvs ih h
    simp only [double, Val.wfB, Bool.and_eq_true] at h ⊢
    exact ⟨l_sorted_of_double kvs h.1, ih h.2⟩
  case lnil => intro _; rfl
  case lcons =>
    intro x xs ih1 ih2 h
    simp only [doubleList, Val.wfListB, Bool.and_eq_true] at h ⊢; exact ⟨ih1 h.1, ih2 h.2⟩
  case fnil => intro _; rfl
  case fcons =>
    intro k v rest ih1 ih2 h
    simp only [doubleFields, Val.wfFieldsB, Bool.and_eq_true] at h ⊢; exact ⟨ih1 h.1, ih2 h.2⟩

theorem l_wf_of_double {v : Val} (h : (double v).WF) : v.WF := l_wf_of_double_all.1 v h

/-- `plainMerge` preserves well-formedness (transported from `merge_wf` through doubling) -/
theorem l_plainMerge_wf {a b r : Val} (ha : a.WF) (hb : b.WF) (h : plainMerge a b = .ok r) :
    r.WF := by
  have h1 := l_merge_double a b
  rw [h] at h1
  exact l_wf_of_double (merge_wf (e_wf_double_all.1 a ha) (e_wf_double_all.1 b hb) h1)

/-! ## what `plainMerge` preserves: string predicates and the depth bound -/

theorem l_allStrFields_fset {q : String → Bool} {d : Fields} {k : String} {v : Val}
    (hd : allStrFields q d = true) (hk : q k = true) (hv : allStr q v = true) :
    allStrFields q (fset d k v) = true := by
  induction d with
  | nil => simp [fset, allStrFields, hk, hv]
  | cons a t ih =>
    obtain ⟨k1, v1⟩ := a
    simp only [allStrFields, Bool.and_eq_true] at hd
    simp only [fset]
    split
    · simp only [allStrFields, Bool.and_eq_true]; exact ⟨⟨hk, hv⟩, ⟨hd.1.1, hd.1.2⟩, hd.2⟩
    · split
      · simp only [allStrFields, Bool.and_eq_true]; exact ⟨⟨hk, hv⟩, hd.2⟩
      · simp only [allStrFields, Bool.and_eq_true]; exact ⟨⟨hd.1.1, hd.1.2⟩, ih hd.2⟩

theorem l_allStrList_append {q : String → Bool} {a b : List Val}
    (ha : allStrList q a = true) (hb : allStrList q b = true) :
    allStrList q (a ++ b) = true := by
  induction a with
  | nil => exact hb
  | cons x xs ih =>
    simp only [allStrList, Bool.and_eq_true] at ha
    simp only [List.cons_append, allStrList, Bool.and_eq_true]; exact ⟨ha.1, ih ha.2⟩

theorem l_plainMerge_allStr_all (q : String → Bool) :
    (∀ b a r, allStr q a = true → allStr q b = true → plainMerge a b = .ok r →
        allStr q r = true) ∧
    (∀ (_ : List Val), True) ∧
    (∀ s d rm, allStrFields q d = true → allStrFields q s = true →
        plainMergeFields d s = .ok rm → allStrFields q rm = true) := by
  -- everything except map-over-map returns one of the two arguments, or an append
  have hrest : ∀ (b a r : Val), (¬ ∃ d s, a = .map d ∧ b = .map s) → allStr q a = true →
      allStr q b = true → plainMerge a b = .ok r → allStr q r = true := by
    intro b a r hnm ha hb h
    cases a with
    | null => rw [l_pm_null] at h; cases h; exact hb
    | map d =>
      cases b with
      | map s => exact absurd ⟨d, s, rfl, rfl⟩ hnm
      | null => rw [l_pm_map_null] at h; cases h; exact ha
      | _ =>
        rw [l_pm_map_other _ _ rfl rfl] at h
        split at h
        · cases h; exact hb
        · cases h
    | list d =>
      cases b with
      | list s =>
        rw [l_pm_list_list] at h; cases h
        simp only [allStr] at ha hb ⊢; exact l_allStrList_append ha hb
      | null => rw [l_pm_list_null] at h; cases h; exact ha
      | _ => rw [l_pm_list_other _ _ rfl rfl] at h; cases h
    | _ =>
      rw [l_pm_scalar _ _ rfl] at h
      split at h
      · cases h
      · cases h; exact hb
  apply e_Val_induct
  case null => intro a r; exact hrest _ a r (by rintro ⟨_, _, _, h⟩; cases h)
  case bool => intro x a r; exact hrest _ a r (by rintro ⟨_, _, _, h⟩; cases h)
  case int => intro x a r; exact hrest _ a r (by rintro ⟨_, _, _, h⟩; cases h)
  case flt => intro x a r; exact hrest _ a r (by rintro ⟨_, _, _, h⟩; cases h)
  case str => intro x a r; exact hrest _ a r (by rintro ⟨_, _, _, h⟩; cases h)
  case list =>
    intro x _ a r; exact hrest _ a r (by rintro ⟨_, _, _, h⟩; cases h)
  case map =>
    intro s ih a r ha hb h
    by_cases hm : ∃ d, a = .map d
    · obtain ⟨d, rfl⟩ := hm
      rw [l_pm_map_map] at h
      cases hf : plainMergeFields d s with
      | error e => rw [hf] at h; cases h
      | ok rm =>
        rw [hf] at h; cases h
        simp only [allStr] at ha hb ⊢
        exact ih d rm ha hb hf
    · exact hrest _ a r
        (by rintro ⟨d, _, h1, _⟩; exact hm ⟨d, h1⟩) ha hb h
  case lnil => trivial
  case lcons => intros; trivial
  case fnil => intro d rm hd _ h; rw [l_pmf_nil] at h; cases h; exact hd
  case fcons =>
    intro k v rest ih1 ih2 d rm hd hs h
    simp only [allStrFields, Bool.and_eq_true] at hs
    rw [l_pmf_cons] at h
    split at h
    · rename_i e he
      have hq := (e_allStrFields_mem hd _ (fget_mem he)).2
      split at h
      · cases h
      · rename_i v2 hv2
        exact ih2 _ rm (l_allStrFields_fset hd hs.1.1 (ih1 e v2 hq hs.1.2 hv2)) hs.2 h
    · exact ih2 _ rm (l_allStrFields_fset hd hs.1.1 hs.1.2) hs.2 h

/-- on `$`-free data the result of `plainMerge` is `$`-free … -/
theorem l_plainMerge_free {a b r : Val} (ha : noDollar a = true) (hb : noDollar b = true)
    (h : plainMerge a b = .ok r) : noDollar r = true :=
  (l_plainMerge_allStr_all _).1 b a r ha hb h

/-- … and `plainMerge` IS `merge` there: no directive can be present without a `$` -/
theorem l_merge_eq_plainMerge_free {a b : Val} (ha : noDollar a = true)
    (hb : noDollar b = true) : merge a b = plainMerge a b := by
  have h := l_merge_double a b
  rw [l_double_free ha, l_double_free hb] at h
  rw [h]
  cases hp : plainMerge a b with
  | error e => rfl
  | ok r => simp only [Except.map]; rw [l_double_free (l_plainMerge_free ha hb hp)]

theorem l_depthFields_fset (d : Fields) (k : String) (v : Val) :
    depthFields (fset d k v) ≤ max (depthFields d) (depth v) := by
  induction d with
  | nil => simp [fset, depthFields]
  | cons a t ih =>
    obtain ⟨k1, v1⟩ := a
    simp only [fset]
    split
    · simp only [depthFields]; omega
    · split
      · simp only [depthFields]; omega
      · simp only [depthFields]; omega

theorem l_depthList_append (a b : List Val) :
    depthList (a ++ b) ≤ max (depthList a) (depthList b) := by
  induction a with
  | nil => simp [depthList]
  | cons x xs ih => simp only [List.cons_append, depthList]; omega

theorem l_plainMerge_depth_all :
    (∀ b a r, plainMerge a b = .ok r → depth r ≤ max (depth a) (depth b)) ∧
    (∀ (_ : List Val), True) ∧
    (∀ s d rm, plainMergeFields d s = .ok rm →
        depthFields rm ≤ max (depthFields d) (depthFields s)) := by
  have hrest : ∀ (b a r : Val), (¬ ∃ d s, a = .map d ∧ b = .map s) →
      plainMerge a b = .ok r → depth r ≤ max (depth a) (depth b) := by
    intro b a r hnm h
    cases a with
    | null => rw [l_pm_null] at h; cases h; omega
    | map d =>
      cases b with
      | map s => exact absurd ⟨d, s, rfl, rfl⟩ hnm
      | null => rw [l_pm_map_null] at h; cases h; omega
      | _ =>
        rw [l_pm_map_other _ _ rfl rfl] at h
        split at h
        · cases h; omega
        · cases h
    | list d =>
      cases b with
      | list s =>
        rw [l_pm_list_list] at h; cases h
        have := l_depthList_append d s
        simp only [depth]; omega
      | null => rw [l_pm_list_null] at h; cases h; omega
      | _ => rw [l_pm_list_other _ _ rfl rfl] at h; cases h
    | _ =>
      rw [l_pm_scalar _ _ rfl] at h
      split at h
      · cases h
      · cases h; omega
  apply e_Val_induct
  case null => intro a r; exact hrest _ a r (by rintro ⟨_, _, _, h⟩; cases h)
  case bool => intro x a r; exact hrest _ a r (by rintro ⟨_, _, _, h⟩; cases h)
  case int => intro x a r; exact hrest _ a r (by rintro ⟨_, _, _, h⟩; cases h)
  case flt => intro x a r; exact hrest _ a r (by rintro ⟨_, _, _, h⟩; cases h)
  case str => intro x a r; exact hrest _ a r (by rintro ⟨_, _, _, h⟩; cases h)
  case list => intro x _ a r; exact hrest _ a r (by rintro ⟨_, _, _, h⟩; cases h)
  case map =>
    intro s ih a r h
    by_cases hm : ∃ d, a = .map d
    · obtain ⟨d, rfl⟩ := hm
      rw [l_pm_map_map] at h
      cases hf : plainMergeFields d s with
      | error e => rw [hf] at h; cases h
      | ok rm =>
        rw [hf] at h; cases h
        have := ih d rm hf
        simp only [depth]; omega
    · exact hrest _ a r (by rintro ⟨d, _, h1, _⟩; exact hm ⟨d, h1⟩) h
  case lnil => trivial
  case lcons => intros; trivial
  case fnil => intro d rm h; rw [l_pmf_nil] at h; cases h; omega
  case fcons =>
    intro k v rest ih1 ih2 d rm h
    rw [l_pmf_cons] at h
    simp only [depthFields]
    split at h
    · rename_i e he
      have hq : depth e ≤ depthFields d := e_depthFields_mem _ (fget_mem he)
      split at h
      · cases h
      · rename_i v2 hv2
        have h1 := ih1 e v2 hv2
        have h2 := ih2 _ rm h
        have h3 := l_depthFields_fset d k v2
        omega
    · have h2 := ih2 _ rm h
      have h3 := l_depthFields_fset d k v
      omega

theorem l_plainMerge_depth {a b r : Val} (h : plainMerge a b = .ok r) :
    depth r ≤ max (depth a) (depth b) :=
  l_plainMerge_depth_all.1 b a r h

/-- what the evaluator prints for plain data `r`: nothing for a null document, else `r` with
    its nulls dropped -/
def plainOutputs (r : Val) : List Val := if r.isNull then [] else [dropNulls r]

/-! # Part 2: map paths and `$required` across layers -/

/-- follow a list of keys through nested maps -/
def mapPath : Val → List String → Option Val
  | v, [] => some v
  | .map m, k :: π => (fget m k).bind (fun c => mapPath c π)
  | _, _ :: _ => none

/-- the layer `u` *mentions* the path `π`: following `π` through `u` one meets a
    `$replace: true` map, or a value that is neither a map nor null, or reaches the end of `π`.
    (A layer that is null at a proper prefix, or lacks the next key, does not mention `π`.) -/
def mentions : Val → List String → Bool
  | _, [] => true
  | .map m, k :: π =>
    fhasBool m "$replace" true ||
      (match fget m k with
       | none => false
       | some c => mentions c π)
  | .null, _ :: _ => false
  | _, _ :: _ => true

/-- no map met while following `π` through `u` (the end point excluded) carries `$replace: true` -/
def noReplaceAlong : Val → List String → Bool
  | .map m, k :: π =>
    !fhasBool m "$replace" true &&
      (match fget m k with
       | none => true
       | some c => noReplaceAlong c π)
  | _, _ => true

theorem q_mapPath_nil (v : Val) : mapPath v [] = some v := by
  cases v <;> rfl

theorem q_mapPath_cons {v : Val} {k : String} {π : List String} {x : Val}
    (h : mapPath v (k :: π) = some x) :
    ∃ m c, v = .map m ∧ fget m k = some c ∧ mapPath c π = some x := by
  cases v with
  | map m =>
    simp only [mapPath] at h
    cases hf : fget m k with
    | none => rw [hf] at h; cases h
    | some c => rw [hf] at h; exact ⟨m, c, rfl, hf, h⟩
  | _ => simp [mapPath] at h

theorem q_mapPath_map_cons (m : Fields) (k : String) (π : List String) :
    mapPath (.map m) (k :: π) = (fget m k).bind (fun c => mapPath c π) := rfl

/-- a value reached by a non-empty path is found inside a map -/
theorem q_toStr_of_path {c x : Val} {k : String} {π : List String}
    (h : mapPath c (k :: π) = some x) : c.toStr = "" := by
  obtain ⟨m, _, rfl, _, _⟩ := q_mapPath_cons h
  rfl

/-! ## one merge step, key level -/

/-- the entry `k ↦ c` of a key-sorted patch without `$replace: true`, `c` not `$delete`, over an
    existing entry `k ↦ e`: the result holds `merge e c` at `k` -/
theorem q_merge_key {d s : Fields} {r : Val} {k : String} {e c : Val}
    (hs : Fields.SortedKeys s) (hrep : fhasBool s "$replace" true = false)
    (hd : fget d k = some e) (hc : fget s k = some c) (hdel : c.toStr ≠ "$delete")
    (h : merge (.map d) (.map s) = .ok r) :
    ∃ rm r', r = .map rm ∧ merge e c = .ok r' ∧ fget rm k = some r' := by
  rw [merge_map_map, mergeMapMap_noreplace hrep] at h
  cases hmf : mergeFields d s with
  | error err => rw [hmf] at h; cases h
  | ok rm =>
    rw [hmf] at h; cases h
    have := mergeFields_spec hs hmf k
    unfold mapSpec at this
    rw [hc] at this
    simp only [hdel, if_false, hd] at this
    obtain ⟨r', h1, h2⟩ := this
    exact ⟨rm, r', rfl, h1, h2⟩

/-- a key the patch (without `$replace: true`) does not have keeps its value -/
theorem q_merge_key_frame {d s : Fields} {r : Val} {k : String}
    (hrep : fhasBool s "$replace" true = false) (hc : fget s k = none)
    (h : merge (.map d) (.map s) = .ok r) :
    ∃ rm, r = .map rm ∧ fget rm k = fget d k := by
  rw [merge_map_map, mergeMapMap_noreplace hrep] at h
  cases hmf : mergeFields d s with
  | error err => rw [hmf] at h; cases h
  | ok rm =>
    rw [hmf] at h; cases h
    exact ⟨rm, rfl, mergeFields_frame hc hmf⟩

/-! ## frame along a path: an unmentioned path keeps its value -/

theorem q_merge_path_frame : ∀ (π : List String) (lower u r x : Val), u.WF →
    mapPath lower π = some x → mentions u π = false → merge lower u = .ok r →
    mapPath r π = some x := by
  intro π
  induction π with
  | nil => intro lower u r x _ _ hm; cases u <;> simp [mentions] at hm
  | cons k π ih =>
    intro lower u r x hw hx hm h
    obtain ⟨d, e, rfl, hde, hex⟩ := q_mapPath_cons hx
    cases u with
    | null => rw [merge_map_null] at h; cases h; exact hx
    | map s =>
      simp only [mentions, Bool.or_eq_false_iff] at hm
      obtain ⟨hrep, hm2⟩ := hm
      cases hsk : fget s k with
      | none =>
        obtain ⟨rm, rfl, hg⟩ := q_merge_key_frame hrep hsk h
        rw [q_mapPath_map_cons, hg, hde]; exact hex
      | some c =>
        rw [hsk] at hm2
        simp only [] at hm2
        have hcw : c.WF := wf_of_fget hw hsk
        have hdel : c.toStr ≠ "$delete" := by
          cases π with
          | nil => cases c <;> simp [mentions] at hm2
          | cons k2 π2 =>
            cases c with
            | str t => simp [mentions] at hm2
            | _ => simp only [Val.toStr]; decide
        obtain ⟨rm, r', rfl, hmr, hg⟩ :=
          q_merge_key (wf_map_iff.1 hw).1 hrep hde hsk hdel h
        rw [q_mapPath_map_cons, hg]
        exact ih e c r' x hcw hex hm2 hmr
    | _ => simp [mentions] at hm

/-- the same over a whole chain of upper layers -/
theorem q_chain_path_frame (π : List String) (x : Val) : ∀ (uppers : List Val) (lower res : Val),
    (∀ u ∈ uppers, u.WF ∧ mentions u π = false) → mapPath lower π = some x →
    mergeChain (lower :: uppers) = .ok res → mapPath res π = some x := by
  intro uppers
  induction uppers with
  | nil =>
    intro lower res _ hx h
    change List.foldlM merge lower [] = .ok res at h
    rw [foldlM_nil] at h; cases h; exact hx
  | cons u tl ih =>
    intro lower res hu hx h
    change List.foldlM merge lower (u :: tl) = .ok res at h
    rw [foldlM_cons] at h
    split at h
    · cases h
    · rename_i r1 hr1
      obtain ⟨hw, hm⟩ := hu u List.mem_cons_self
      exact ih r1 res (fun y hy => hu y (List.mem_cons_of_mem _ hy))
        (q_merge_path_frame π lower u r1 x hw hx hm hr1) h

/-! ## override along a path -/

/-- both layers reach `π`, no `$replace: true` on the way, the upper value is not `$delete`:
    the result holds the merge of the two values at `π` -/
theorem q_merge_path_merge : ∀ (π : List String) (lower u r e c : Val), u.WF →
    mapPath lower π = some e → mapPath u π = some c → noReplaceAlong u π = true →
    c.toStr ≠ "$delete" → merge lower u = .ok r →
    ∃ r', merge e c = .ok r' ∧ mapPath r π = some r' := by
  intro π
  induction π with
  | nil =>
    intro lower u r e c _ he hc _ _ h
    rw [q_mapPath_nil] at he hc; cases he; cases hc
    exact ⟨r, h, q_mapPath_nil r⟩
  | cons k π ih =>
    intro lower u r e c hw he hc hnr hdel h
    obtain ⟨d, e1, rfl, hde, he1⟩ := q_mapPath_cons he
    obtain ⟨s, c1, rfl, hsc, hc1⟩ := q_mapPath_cons hc
    simp only [noReplaceAlong, hsc, Bool.and_eq_true, Bool.not_eq_true'] at hnr
    have hdel1 : c1.toStr ≠ "$delete" := by
      cases π with
      | nil => rw [q_mapPath_nil] at hc1; cases hc1; exact hdel
      | cons k2 π2 => rw [q_toStr_of_path hc1]; decide
    obtain ⟨rm, r1, rfl, hmr, hg⟩ := q_merge_key (wf_map_iff.1 hw).1 hnr.1 hde hsc hdel1 h
    obtain ⟨r', h1, h2⟩ := ih e1 c1 r1 e c (wf_of_fget hw hsc) he1 hc1 hnr.2 hdel hmr
    exact ⟨r', h1, by rw [q_mapPath_map_cons, hg]; exact h2⟩

/-- the lower value at `π` is a scalar: whatever the upper layer puts at `π` (other than
    `$delete`) is what the result holds there — also when a map on the way says
    `$replace: true`, except for the one case where the value at `π` is that very directive -/
theorem q_merge_path_scalar : ∀ (π : List String) (lower u r x c : Val), u.WF →
    mapPath lower π = some x → x.isScalar = true → mapPath u π = some c →
    c.toStr ≠ "$delete" → (c = .bool true → π.getLast? ≠ some "$replace") →
    merge lower u = .ok r → mapPath r π = some c := by
  intro π
  induction π with
  | nil =>
    intro lower u r x c _ hx hs hc _ _ h
    rw [q_mapPath_nil] at hx hc; cases hx; cases hc
    rw [merge_scalar _ _ hs] at h
    split at h
    · cases h
    · cases h; exact q_mapPath_nil _
  | cons k π ih =>
    intro lower u r x c hw hx hs hc hdel hlast h
    obtain ⟨d, e1, rfl, hde, he1⟩ := q_mapPath_cons hx
    obtain ⟨s, c1, rfl, hsc, hc1⟩ := q_mapPath_cons hc
    cases hrep : fhasBool s "$replace" true with
    | true =>
      rw [merge_map_map, mergeMapMap_replace hrep] at h; cases h
      have hk : k ≠ "$replace" := by
        intro hk; subst hk
        rw [fhasBool_iff.1 hrep] at hsc; cases hsc
        cases π with
        | nil =>
          rw [q_mapPath_nil] at hc1; cases hc1
          exact hlast rfl rfl
        | cons k2 π2 => simp [mapPath] at hc1
      rw [q_mapPath_map_cons, fget_fdel_ne _ _ _ hk, hsc]; exact hc1
    | false =>
      have hdel1 : c1.toStr ≠ "$delete" := by
        cases π with
        | nil => rw [q_mapPath_nil] at hc1; cases hc1; exact hdel
        | cons k2 π2 => rw [q_toStr_of_path hc1]; decide
      obtain ⟨rm, r1, rfl, hmr, hg⟩ := q_merge_key (wf_map_iff.1 hw).1 hrep hde hsc hdel1 h
      have hlast' : c = .bool true → π.getLast? ≠ some "$replace" := by
        intro hcb
        cases π with
        | nil => simp
        | cons k2 π2 => have := hlast hcb; rwa [List.getLast?_cons_cons] at this
      rw [q_mapPath_map_cons, hg]
      exact ih e1 c1 r1 x c (wf_of_fget hw hsc) he1 hs hc1 hdel hlast' hmr

/-! ## lists -/

theorem q_not_mem_dropRequired (d : List Val) : Val.str "$required" ∉ dropRequired d := by
  unfold dropRequired
  intro h
  have := (List.mem_filter.1 h).2
  simp at this

/-- the model's list rule for plain patches -/
theorem q_merge_list_plain (d s : List Val) (h : s.all plainEntry = true) :
    merge (.list d) (.list s) = .ok (.list (dropRequired d ++ s)) := by
  rw [merge_list_list,
    mergeListList_no_replace d (all_plain_any_replace h) (all_plain_no_marker h)]
  have := mergeEntries_plain_append (dropRequired d) [] h
  rw [List.append_nil] at this
  rw [this, mergeEntries_nil]

/-- an empty patch list already strips the markers -/
theorem q_merge_list_nil (d : List Val) :
    merge (.list d) (.list []) = .ok (.list (dropRequired d)) := by
  rw [q_merge_list_plain d [] rfl, List.append_nil]

/-! ## `countReq` (the specification function of C17) along paths -/

theorem q_countReq_le_of_fget {m : Fields} {k : String} {c : Val} (h : fget m k = some c) :
    countReq c ≤ countReqFields m := by
  induction m with
  | nil => simp [fget] at h
  | cons a t ih =>
    obtain ⟨k1, v1⟩ := a
    simp only [fget] at h
    simp only [countReqFields]
    split at h
    · cases h; omega
    · have := ih h; omega

theorem q_countReq_le_of_mem {l : List Val} {x : Val} (h : x ∈ l) :
    countReq x ≤ countReqList l := by
  induction l with
  | nil => cases h
  | cons a t ih =>
    simp only [countReqList]
    rcases List.mem_cons.1 h with rfl | h
    · omega
    · have := ih h; omega

end Bkl
