/-
  BklProofs.Lemmas.C04Yaml — helper lemmas for the YAML part of C04 (format independence):
  merge keys expanded recursively (`ym_expand`), exactly when `yamlTranslate` succeeds (`ym_wt`),
  a total version of `normalize` (`ym_norm`), and a format-independent value type (`Logical`)
  with its JSON / YAML / TOML renderings.

  Every helper name is prefixed `ym_`.
-/
import BklProofs.Lemmas.Stream
namespace Bkl

abbrev ym_YPairs := List (String × YNode)

/-! ## a total `normalize` -/

mutual
/-- `normalize` as a total function; agrees with it wherever it succeeds (`ym_normalize_eq`) -/
def ym_norm : Raw → Val
  | .null => .null
  | .bool b => .bool b
  | .goInt i => .int i
  | .goInt64 i => .int i
  | .goFloat r => .flt r
  | .jnum text fr =>
    match parseInt64 text with
    | some i => .int i
    | none => .flt fr
  | .str s => .str s
  | .list xs => .list (ym_normList xs)
  | .map kvs => .map (fofList (ym_normFields kvs))
  | .listOfMaps ms => .list (ym_normMaps ms)
  | .mapAny => .null
def ym_normList : List Raw → List Val
  | [] => []
  | x :: xs => ym_norm x :: ym_normList xs
def ym_normFields : List (String × Raw) → Fields
  | [] => []
  | (k, v) :: rest => (k, ym_norm v) :: ym_normFields rest
def ym_normMaps : List (List (String × Raw)) → List Val
  | [] => []
  | m :: ms => .map (fofList (ym_normFields m)) :: ym_normMaps ms
end

mutual
theorem ym_normalize_eq : ∀ (r : Raw), hasMapAny r = false → normalize r = .ok (ym_norm r)
  | .null, _ => by rw [normalize, ym_norm]; rfl
  | .bool _, _ => by rw [normalize, ym_norm]; rfl
  | .goInt _, _ => by rw [normalize, ym_norm]; rfl
  | .goInt64 _, _ => by rw [normalize, ym_norm]; rfl
  | .goFloat _, _ => by rw [normalize, ym_norm]; rfl
  | .str _, _ => by rw [normalize, ym_norm]; rfl
  | .jnum text fr, h => by
    rw [normalize_jnum, ym_norm]
    rw [hasMapAny] at h
    cases hp : parseInt64 text with
    | some i => rfl
    | none =>
      rw [hp] at h
      have : fr.isEmpty = false := by simpa using h
      simp [this]
  | .list xs, h => by
    rw [hasMapAny] at h
    rw [normalize, ym_norm, ym_normalizeList_eq xs h]; rfl
  | .map kvs, h => by
    rw [hasMapAny] at h
    rw [normalize, ym_norm, ym_normalizeFields_eq kvs h]; rfl
  | .listOfMaps ms, h => by
    rw [hasMapAny] at h
    rw [normalize, ym_norm, ym_normalizeMaps_eq ms h]; rfl
  | .mapAny, h => by rw [hasMapAny] at h; cases h
theorem ym_normalizeList_eq : ∀ (xs : List Raw), hasMapAnyList xs = false →
    normalizeList xs = .ok (ym_normList xs)
  | [], _ => by rw [normalizeList, ym_normList]; rfl
  | x :: xs, h => by
    rw [hasMapAnyList, Bool.or_eq_false_iff] at h
    rw [normalizeList, ym_normList, ym_normalize_eq x h.1, ym_normalizeList_eq xs h.2]; rfl
theorem ym_normalizeFields_eq : ∀ (kvs : List (String × Raw)), hasMapAnyFields kvs = false →
    normalizeFields kvs = .ok (ym_normFields kvs)
  | [], _ => by rw [normalizeFields, ym_normFields]; rfl
  | (k, v) :: rest, h => by
    rw [hasMapAnyFields, Bool.or_eq_false_iff] at h
    rw [normalizeFields, ym_normFields, ym_normalize_eq v h.1, ym_normalizeFields_eq rest h.2]; rfl
theorem ym_normalizeMaps_eq : ∀ (ms : List (List (String × Raw))), hasMapAnyMaps ms = false →
    normalizeMaps ms = .ok (ym_normMaps ms)
  | [], _ => by rw [normalizeMaps, ym_normMaps]; rfl
  | m :: ms, h => by
    rw [hasMapAnyMaps, Bool.or_eq_false_iff] at h
    rw [normalizeMaps, ym_normMaps, ym_normalizeFields_eq m h.1, ym_normalizeMaps_eq ms h.2]; rfl
end

theorem ym_norm_map (kvs : RFields) : ym_norm (.map kvs) = .map (fofList (ym_normFields kvs)) := by
  rw [ym_norm]
theorem ym_norm_list (xs : List Raw) : ym_norm (.list xs) = .list (ym_normList xs) := by
  rw [ym_norm]
theorem ym_normList_cons (x : Raw) (xs : List Raw) :
    ym_normList (x :: xs) = ym_norm x :: ym_normList xs := by rw [ym_normList]
theorem ym_normList_nil : ym_normList [] = [] := by rw [ym_normList]
theorem ym_normFields_cons (k : String) (v : Raw) (rest : RFields) :
    ym_normFields ((k, v) :: rest) = (k, ym_norm v) :: ym_normFields rest := by rw [ym_normFields]
theorem ym_normFields_nil : ym_normFields [] = [] := by rw [ym_normFields]

/-! ## normalised lookup: what `normalize` keeps of an entry list is its last-wins lookup -/

/-- the normalised value stored under `k` (last entry wins) -/
def ym_nl (a : RFields) (k : String) : Option Val := (rlookup a k).map ym_norm

theorem ym_rlookup_cons (k' : String) (v : Raw) (rest : RFields) (k : String) :
    rlookup ((k', v) :: rest) k = (rlookup rest k).or (if k' = k then some v else none) := by
  simp only [rlookup]
  cases rlookup rest k <;> rfl

theorem ym_rlookup_append (a b : RFields) (k : String) :
    rlookup (a ++ b) k = (rlookup b k).or (rlookup a k) := by
  rw [rlookup_append]; cases rlookup b k <;> rfl

theorem ym_rlookup_foldl_rput (kvs d : RFields) (k : String) :
    rlookup (kvs.foldl rput d) k = (rlookup kvs k).or (rlookup d k) := by
  rw [rlookup_foldl_rput]; cases rlookup kvs k <;> rfl

theorem ym_nl_nil (k : String) : ym_nl [] k = none := rfl

theorem ym_nl_append (a b : RFields) (k : String) :
    ym_nl (a ++ b) k = (ym_nl b k).or (ym_nl a k) := by
  unfold ym_nl
  rw [ym_rlookup_append]
  cases rlookup b k <;> simp

theorem ym_nl_foldl_rput (kvs d : RFields) (k : String) :
    ym_nl (kvs.foldl rput d) k = (ym_nl kvs k).or (ym_nl d k) := by
  unfold ym_nl
  rw [ym_rlookup_foldl_rput]
  cases rlookup kvs k <;> simp

theorem ym_fget_fsetAll_norm (a : RFields) : ∀ (d : Fields) (k : String),
    fget (fsetAll d (ym_normFields a)) k = (ym_nl a k).or (fget d k) := by
  induction a with
  | nil => intro d k; rw [ym_normFields_nil]; rfl
  | cons p a ih =>
    intro d k
    obtain ⟨k', v⟩ := p
    rw [ym_normFields_cons, fsetAll_cons, ih, fget_fset]
    unfold ym_nl
    rw [ym_rlookup_cons]
    cases rlookup a k with
    | some r => simp
    | none =>
      by_cases h : k' = k
      · subst h; simp
      · have h' : ¬ k = k' := fun e => h e.symm
        simp [h, h']

/-- the normalised map under `k` holds the normalised last entry for `k` -/
theorem ym_fget_fofList_norm (a : RFields) (k : String) :
    fget (fofList (ym_normFields a)) k = ym_nl a k := by
  unfold fofList
  rw [ym_fget_fsetAll_norm]
  cases ym_nl a k <;> rfl

/-- two entry lists normalise to the same map iff their normalised lookups agree -/
theorem ym_norm_map_eq_iff (a b : RFields) :
    ym_norm (.map a) = ym_norm (.map b) ↔ ∀ k, ym_nl a k = ym_nl b k := by
  rw [ym_norm_map, ym_norm_map]
  constructor
  · intro h k
    injection h with h
    rw [← ym_fget_fofList_norm, ← ym_fget_fofList_norm, h]
  · intro h
    congr 1
    apply sorted_ext (sorted_fofList _) (sorted_fofList _)
    intro k
    rw [ym_fget_fofList_norm, ym_fget_fofList_norm, h]

theorem ym_nl_of_normFields_eq {a b : RFields} (h : ym_normFields a = ym_normFields b) (k : String) :
    ym_nl a k = ym_nl b k := by
  rw [← ym_fget_fofList_norm, ← ym_fget_fofList_norm, h]

/-! ## cleanliness: `yamlTranslate` never produces `json.Number` or `map[any]any` -/

theorem ym_hasMapAnyFields_append (a b : RFields) :
    hasMapAnyFields (a ++ b) = (hasMapAnyFields a || hasMapAnyFields b) := by
  induction a with
  | nil => rw [List.nil_append, hasMapAnyFields, Bool.false_or]
  | cons p a ih =>
    obtain ⟨k, v⟩ := p
    rw [List.cons_append, hasMapAnyFields, hasMapAnyFields, ih, Bool.or_assoc]

theorem ym_hasMapAnyFields_filter (p : String × Raw → Bool) (a : RFields)
    (h : hasMapAnyFields a = false) : hasMapAnyFields (a.filter p) = false := by
  induction a with
  | nil => rfl
  | cons q a ih =>
    obtain ⟨k, v⟩ := q
    rw [hasMapAnyFields, Bool.or_eq_false_iff] at h
    rw [List.filter_cons]
    split
    · rw [hasMapAnyFields, h.1, ih h.2]; rfl
    · exact ih h.2

theorem ym_clean_rput (d : RFields) (kv : String × Raw) (hd : hasMapAnyFields d = false)
    (hv : hasMapAny kv.2 = false) : hasMapAnyFields (rput d kv) = false := by
  unfold rput
  rw [ym_hasMapAnyFields_append, ym_hasMapAnyFields_filter _ _ hd]
  obtain ⟨k, v⟩ := kv
  rw [hasMapAnyFields, hasMapAnyFields, hv]; rfl

theorem ym_clean_foldl_rput (kvs : RFields) : ∀ (d : RFields), hasMapAnyFields d = false →
    hasMapAnyFields kvs = false → hasMapAnyFields (kvs.foldl rput d) = false := by
  induction kvs with
  | nil => intro d hd _; exact hd
  | cons p kvs ih =>
    intro d hd h
    obtain ⟨k, v⟩ := p
    rw [hasMapAnyFields, Bool.or_eq_false_iff] at h
    exact ih _ (ym_clean_rput d (k, v) hd h.1) h.2

/-! ## unfolding equations -/

theorem ym_T_scalar (t v f : String) : yamlTranslate (.scalar t v f) = yamlScalar t v f := by
  rw [yamlTranslate]
theorem ym_T_seq (items : List YNode) :
    yamlTranslate (.seq items) = (yamlTranslateList items >>= fun xs => pure (.list xs)) := by
  rw [yamlTranslate]
theorem ym_T_empty : yamlTranslate .empty = .ok .null := by rw [yamlTranslate]; rfl
theorem ym_TL_nil : yamlTranslateList [] = .ok [] := by rw [yamlTranslateList]; rfl
theorem ym_TL_cons (x : YNode) (xs : List YNode) :
    yamlTranslateList (x :: xs) =
      (yamlTranslate x >>= fun r => yamlTranslateList xs >>= fun rs => pure (r :: rs)) := by
  rw [yamlTranslateList]
theorem ym_TM_nil (acc : RFields) : yamlTranslateMerges [] acc = .ok acc := by
  rw [yamlTranslateMerges]; rfl
theorem ym_TM_cons_merge (v : YNode) (rest : ym_YPairs) (acc : RFields) :
    yamlTranslateMerges (("<<", v) :: rest) acc =
      ((yamlTranslate v >>= yamlMergeInto acc) >>= yamlTranslateMerges rest) := by
  rw [yamlTranslateMerges]
  simp only [beq_self_eq_true, if_true]
  cases yamlTranslate v with
  | error e => rfl
  | ok src => rfl
theorem ym_TM_cons_other (k : String) (v : YNode) (rest : ym_YPairs) (acc : RFields) (h : k ≠ "<<") :
    yamlTranslateMerges ((k, v) :: rest) acc = yamlTranslateMerges rest acc := by
  have hk : (k == "<<") = false := by simpa using h
  rw [yamlTranslateMerges]
  simp only [hk, Bool.false_eq_true, if_false]
theorem ym_TP_nil : yamlTranslatePairs [] = .ok [] := by rw [yamlTranslatePairs]; rfl
theorem ym_TP_cons_merge (v : YNode) (rest : ym_YPairs) :
    yamlTranslatePairs (("<<", v) :: rest) = yamlTranslatePairs rest := by
  rw [yamlTranslatePairs]
  simp only [beq_self_eq_true, if_true]
theorem ym_TP_cons_other (k : String) (v : YNode) (rest : ym_YPairs) (h : k ≠ "<<") :
    yamlTranslatePairs ((k, v) :: rest) =
      (yamlTranslate v >>= fun r => yamlTranslatePairs rest >>= fun rs => pure ((k, r) :: rs)) := by
  have hk : (k == "<<") = false := by simpa using h
  rw [yamlTranslatePairs]
  simp only [hk, Bool.false_eq_true, if_false]

def ym_noMerge (q : ym_YPairs) : Prop := ∀ p ∈ q, p.1 ≠ "<<"

theorem ym_noMerge_nil : ym_noMerge [] := fun _ h => nomatch h
theorem ym_noMerge_append {a b : ym_YPairs} (ha : ym_noMerge a) (hb : ym_noMerge b) :
    ym_noMerge (a ++ b) := by
  intro p hp
  rcases List.mem_append.1 hp with h | h
  · exact ha p h
  · exact hb p h
theorem ym_noMerge_cons {k : String} {v : YNode} {q : ym_YPairs} (hk : k ≠ "<<") (hq : ym_noMerge q) :
    ym_noMerge ((k, v) :: q) := by
  intro p hp
  rcases List.mem_cons.1 hp with rfl | h
  · exact hk
  · exact hq p h

theorem ym_TP_append : ∀ (a b : ym_YPairs), yamlTranslatePairs (a ++ b) =
    (yamlTranslatePairs a >>= fun x => yamlTranslatePairs b >>= fun y => pure (x ++ y))
  | [], b => by
    rw [List.nil_append, ym_TP_nil, s_bind_ok]
    cases yamlTranslatePairs b <;> rfl
  | (k, v) :: a, b => by
    by_cases hk : k = "<<"
    · subst hk
      rw [List.cons_append, ym_TP_cons_merge, ym_TP_cons_merge, ym_TP_append a b]
    · rw [List.cons_append, ym_TP_cons_other _ _ _ hk, ym_TP_cons_other _ _ _ hk, ym_TP_append a b]
      cases yamlTranslate v with
      | error e => rfl
      | ok r =>
        simp only [s_bind_ok]
        cases yamlTranslatePairs a with
        | error e => rfl
        | ok x =>
          simp only [s_bind_ok]
          cases yamlTranslatePairs b <;> rfl

/-- the translation of a mapping without `<<` keys -/
theorem ym_T_mapping_noMerge (q : ym_YPairs) (h : ym_noMerge q) :
    yamlTranslate (.mapping q) =
      (yamlTranslatePairs q >>= fun l => pure (.map (l.foldl rput []))) := by
  rw [yamlTranslate_mapping, yamlTranslateMerges_no_merge q [] h, s_bind_ok]

/-! ## `yamlMergeInto` on a list, one element at a time -/

/-- one step of the list form of `yamlMerge` -/
def ym_step (d : RFields) (x : Raw) : R RFields :=
  match x with
  | .map kvs => pure (kvs.foldl rput d)
  | _ => throw Err.invalidType

theorem ym_mergeInto_list_nil (acc : RFields) : yamlMergeInto acc (.list []) = .ok acc := rfl

theorem ym_mergeInto_list_cons (acc : RFields) (r : Raw) (rs : List Raw) :
    yamlMergeInto acc (.list (r :: rs)) = (yamlMergeInto acc (.list rs) >>= fun d => ym_step d r) := by
  unfold yamlMergeInto
  simp only [List.reverse_cons, List.foldlM_append, List.foldlM_cons, List.foldlM_nil]
  generalize List.foldlM (m := Except Err) _ acc rs.reverse = X
  cases X with
  | error e => rfl
  | ok d => cases r <;> rfl

def ym_isMapR : Raw → Bool | .map _ => true | _ => false
def ym_isListR : Raw → Bool | .list _ => true | _ => false
def ym_isMapping : YNode → Bool | .mapping _ => true | _ => false

theorem ym_step_map (d kvs : RFields) : ym_step d (.map kvs) = .ok (kvs.foldl rput d) := rfl
theorem ym_step_not_map (d : RFields) (x : Raw) (h : ym_isMapR x = false) :
    ym_step d x = .error .invalidType := by
  cases x <;> first | rfl | cases h

theorem ym_mergeInto_other (acc : RFields) (r : Raw) (h1 : ym_isMapR r = false)
    (h2 : ym_isListR r = false) : yamlMergeInto acc r = .error .invalidType := by
  cases r with
  | map kvs => cases h1
  | list xs => cases h2
  | _ => rfl

/-- `ok`-ness as a Boolean -/
def ym_ok {α : Type} : R α → Bool | .ok _ => true | .error _ => false

theorem ym_ok_iff {α : Type} (a : R α) : ym_ok a = true ↔ ∃ r, a = .ok r := by
  cases a with
  | ok r => exact ⟨fun _ => ⟨r, rfl⟩, fun _ => rfl⟩
  | error e => exact ⟨fun h => (by cases h), fun ⟨r, h⟩ => (by cases h)⟩

theorem ym_ok_false_iff {α : Type} (a : R α) : ym_ok a = false ↔ ∃ e, a = .error e := by
  cases a with
  | ok r => exact ⟨fun h => (by cases h), fun ⟨r, h⟩ => (by cases h)⟩
  | error e => exact ⟨fun _ => ⟨e, rfl⟩, fun _ => rfl⟩

/-- the list form succeeds iff every element is a mapping; any failure is `invalidType` -/
theorem ym_mergeInto_list_ok (rs : List Raw) : ∀ (acc : RFields),
    (ym_ok (yamlMergeInto acc (.list rs)) = rs.all ym_isMapR) ∧
    (∀ e, yamlMergeInto acc (.list rs) = .error e → e = .invalidType) := by
  induction rs with
  | nil => intro acc; exact ⟨rfl, fun e h => by cases h⟩
  | cons r rs ih =>
    intro acc
    rw [ym_mergeInto_list_cons, List.all_cons]
    obtain ⟨h1, h2⟩ := ih acc
    cases hm : yamlMergeInto acc (.list rs) with
    | error e =>
      rw [hm] at h1 h2
      have : rs.all ym_isMapR = false := h1.symm
      rw [this, Bool.and_false]
      exact ⟨rfl, fun e' h => by cases h; exact h2 _ rfl⟩
    | ok d =>
      rw [hm] at h1
      have : rs.all ym_isMapR = true := h1.symm
      rw [this, Bool.and_true, s_bind_ok]
      cases hr : ym_isMapR r with
      | true =>
        cases r with
        | map kvs => exact ⟨rfl, fun e h => by cases h⟩
        | _ => cases hr
      | false =>
        rw [ym_step_not_map d r hr]
        exact ⟨rfl, fun e h => by cases h; rfl⟩

/-! ## scalars -/

theorem ym_scalar_shape (t v f : String) (r : Raw) (h : yamlScalar t v f = .ok r) :
    hasMapAny r = false ∧ ym_isMapR r = false ∧ ym_isListR r = false := by
  unfold yamlScalar at h
  split at h
  · split at h
    · cases h; exact ⟨rfl, rfl, rfl⟩
    · split at h
      · cases h; exact ⟨rfl, rfl, rfl⟩
      · cases h
  · split at h
    · cases h; exact ⟨rfl, rfl, rfl⟩
    · split at h
      · cases h; exact ⟨rfl, rfl, rfl⟩
      · cases h
  · split at h
    · cases h
    · cases h; exact ⟨rfl, rfl, rfl⟩
  · cases h; exact ⟨rfl, rfl, rfl⟩
  · cases h; exact ⟨rfl, rfl, rfl⟩
  · cases h; exact ⟨rfl, rfl, rfl⟩
  · cases h

/-- every failure of a scalar is `invalidType` or `other` -/
theorem ym_scalar_error (t v f : String) (e : Err) (h : yamlScalar t v f = .error e) :
    e = .invalidType ∨ e = .other := by
  unfold yamlScalar at h
  split at h
  · split at h
    · cases h
    · split at h
      · cases h
      · cases h; exact Or.inr rfl
  · split at h
    · cases h
    · split at h
      · cases h
      · cases h; exact Or.inr rfl
  · split at h
    · cases h; exact Or.inr rfl
    · cases h
  · cases h
  · cases h
  · cases h
  · cases h; exact Or.inl rfl

theorem ym_parseGoInt64 (s : String) : parseGoInt s 64 = parseInt64 s := by
  unfold parseGoInt parseInt64
  cases goDecInt s with
  | none => rfl
  | some i =>
    have e64 : ((2 : Int) ^ (64 - 1)) = 9223372036854775808 := by decide
    simp only [e64, int64Min, int64Max]
    by_cases h : -(9223372036854775808 : Int) ≤ i ∧ i < 9223372036854775808
    · have h' : -(9223372036854775808 : Int) ≤ i ∧ i ≤ 9223372036854775807 := by omega
      simp only [h, h', and_self, if_true]
    · have h' : ¬ (-(9223372036854775808 : Int) ≤ i ∧ i ≤ 9223372036854775807) := by omega
      simp only [h, h', if_false]

theorem ym_parseGoInt32_some (s : String) (i : Int) (h : parseGoInt s 32 = some i) :
    parseInt64 s = some i := by
  rw [← ym_parseGoInt64]
  unfold parseGoInt at h ⊢
  cases hg : goDecInt s with
  | none => rw [hg] at h; cases h
  | some j =>
    rw [hg] at h
    have e32 : ((2 : Int) ^ (32 - 1)) = 2147483648 := by decide
    have e64 : ((2 : Int) ^ (64 - 1)) = 9223372036854775808 := by decide
    simp only [e32] at h
    simp only [e64]
    split at h
    · rename_i hc
      have h' : -(9223372036854775808 : Int) ≤ j ∧ j < 9223372036854775808 := by omega
      simp only [h', and_self, if_true]
      exact h
    · cases h

/-- the YAML boolean literals `strconv.ParseBool` accepts -/
def ym_boolLit (v : String) : Bool :=
  ["1", "t", "T", "TRUE", "true", "True"].contains v ||
  ["0", "f", "F", "FALSE", "false", "False"].contains v

/-- the scalars `yamlTranslate` accepts -/
def ym_scalarOK (t v f : String) : Bool :=
  match t with
  | "!!bool" => ym_boolLit v
  | "!!int" => (parseInt64 v).isSome
  | "!!float" => !f.isEmpty
  | "!!null" => true
  | "!!str" => true
  | "!!timestamp" => true
  | _ => false

theorem ym_scalar_int (v f : String) :
    yamlScalar "!!int" v f = match parseInt64 v with
      | none => .error .other
      | some i => if -(2147483648 : Int) ≤ i ∧ i < 2147483648 then .ok (.goInt i) else .ok (.goInt64 i) := by
  rw [yamlScalar_int, ym_parseGoInt64]
  cases h32 : parseGoInt v 32 with
  | some i =>
    rw [ym_parseGoInt32_some v i h32]
    unfold parseGoInt at h32
    cases hg : goDecInt v with
    | none => rw [hg] at h32; cases h32
    | some j =>
      rw [hg] at h32
      have e32 : ((2 : Int) ^ (32 - 1)) = 2147483648 := by decide
      simp only [e32] at h32
      split at h32
      · rename_i hc; cases h32; simp only [hc, and_self, if_true]
      · cases h32
  | none =>
    cases h64 : parseInt64 v with
    | none => rfl
    | some i =>
      simp only
      have := parseInt64_some h64
      unfold parseGoInt at h32
      rw [this.1] at h32
      have e32 : ((2 : Int) ^ (32 - 1)) = 2147483648 := by decide
      simp only [e32] at h32
      split at h32
      · cases h32
      · rename_i hc; simp only [hc, if_false]

theorem ym_scalar_ok (t v f : String) : ym_ok (yamlScalar t v f) = ym_scalarOK t v f := by
  unfold ym_scalarOK
  split
  · unfold yamlScalar ym_boolLit
    simp only
    split
    · rename_i h; rw [h]; rfl
    · rename_i h
      split
      · rename_i h2; rw [h2, Bool.or_true]; rfl
      · rename_i h2
        simp only [Bool.not_eq_true] at h h2
        rw [h, h2]; rfl
  · rw [ym_scalar_int]
    cases parseInt64 v with
    | none => rfl
    | some i => simp only [Option.isSome]; split <;> rfl
  · rw [yamlScalar_float]
    cases f.isEmpty <;> rfl
  · rfl
  · rfl
  · rfl
  · rename_i h1 h2 h3 h4 h5 h6
    unfold yamlScalar
    split <;> first | rfl | (exfalso; first | exact h1 rfl | exact h2 rfl | exact h3 rfl | exact h4 rfl | exact h5 rfl | exact h6 rfl)

mutual
def ym_expand : YNode → Option YNode
  | .scalar t v f => some (.scalar t v f)
  | .seq items =>
    match ym_expandList items with
    | some xs => some (.seq xs)
    | none => none
  | .mapping pairs =>
    match ym_expandMerges pairs with
    | none => none
    | some m =>
      match ym_expandLocals pairs with
      | none => none
      | some l => some (.mapping (m ++ l))
  | .empty => some .empty
def ym_expandList : List YNode → Option (List YNode)
  | [] => some []
  | x :: xs =>
    match ym_expand x with
    | none => none
    | some x' =>
      match ym_expandList xs with
      | none => none
      | some xs' => some (x' :: xs')
def ym_expandMerges : ym_YPairs → Option ym_YPairs
  | [] => some []
  | (k, v) :: rest =>
    if k == "<<" then
      match ym_inline v with
      | none => none
      | some a =>
        match ym_expandMerges rest with
        | none => none
        | some b => some (a ++ b)
    else ym_expandMerges rest
def ym_expandLocals : ym_YPairs → Option ym_YPairs
  | [] => some []
  | (k, v) :: rest =>
    if k == "<<" then ym_expandLocals rest
    else
      match ym_expand v with
      | none => none
      | some v' =>
        match ym_expandLocals rest with
        | none => none
        | some r => some ((k, v') :: r)
def ym_inline : YNode → Option ym_YPairs
  | .mapping pairs =>
    match ym_expandMerges pairs with
    | none => none
    | some m =>
      match ym_expandLocals pairs with
      | none => none
      | some l => some (m ++ l)
  | .seq items => ym_inlineSeq items
  | .scalar _ _ _ => none
  | .empty => none
def ym_inlineSeq : List YNode → Option ym_YPairs
  | [] => some []
  | x :: xs =>
    match x with
    | .mapping _ =>
      match ym_inline x with
      | none => none
      | some p =>
        match ym_inlineSeq xs with
        | none => none
        | some r => some (r ++ p)
    | _ => none
end

/-! ## outcome relations: both fail, or both succeed with results that normalise alike -/

def ym_Fail {α : Type} (a : R α) : Prop := ∃ e, a = .error e

theorem ym_Fail_error {α : Type} (e : Err) : ym_Fail (.error e : R α) := ⟨e, rfl⟩
theorem ym_Fail_bind {α β : Type} {a : R α} (f : α → R β) (h : ym_Fail a) : ym_Fail (a >>= f) := by
  obtain ⟨e, rfl⟩ := h; exact ⟨e, rfl⟩
theorem ym_not_Fail_ok {α : Type} {v : α} (h : ym_Fail (.ok v : R α)) : False := by
  obtain ⟨e, h⟩ := h; cases h

def ym_Rel (a b : R Raw) : Prop :=
  (ym_Fail a ∧ ym_Fail b) ∨ ∃ r r', a = .ok r ∧ b = .ok r' ∧ ym_norm r = ym_norm r'
def ym_RelL (a b : R (List Raw)) : Prop :=
  (ym_Fail a ∧ ym_Fail b) ∨ ∃ r r', a = .ok r ∧ b = .ok r' ∧ ym_normList r = ym_normList r'
def ym_RelF (a b : R RFields) : Prop :=
  (ym_Fail a ∧ ym_Fail b) ∨ ∃ r r', a = .ok r ∧ b = .ok r' ∧ ym_normFields r = ym_normFields r'
/-- `a` merges into `acc` what the plain pairs `b` hold -/
def ym_RelM (a b : R RFields) (acc : RFields) : Prop :=
  (ym_Fail a ∧ ym_Fail b) ∨
    ∃ m l, a = .ok m ∧ b = .ok l ∧ ∀ k, ym_nl m k = (ym_nl l k).or (ym_nl acc k)

theorem ym_RelL_cons {a a' : R Raw} {b b' : R (List Raw)} (h1 : ym_Rel a a') (h2 : ym_RelL b b') :
    ym_RelL (a >>= fun r => b >>= fun rs => pure (r :: rs))
      (a' >>= fun r => b' >>= fun rs => pure (r :: rs)) := by
  rcases h1 with ⟨⟨e, rfl⟩, ⟨e', rfl⟩⟩ | ⟨r, r', rfl, rfl, hr⟩
  · exact Or.inl ⟨⟨e, rfl⟩, ⟨e', rfl⟩⟩
  · rcases h2 with ⟨⟨e, rfl⟩, ⟨e', rfl⟩⟩ | ⟨rs, rs', rfl, rfl, hrs⟩
    · exact Or.inl ⟨⟨e, rfl⟩, ⟨e', rfl⟩⟩
    · exact Or.inr ⟨r :: rs, r' :: rs', rfl, rfl, by rw [ym_normList_cons, ym_normList_cons, hr, hrs]⟩

theorem ym_RelF_cons (k : String) {a a' : R Raw} {b b' : R RFields} (h1 : ym_Rel a a')
    (h2 : ym_RelF b b') :
    ym_RelF (a >>= fun r => b >>= fun rs => pure ((k, r) :: rs))
      (a' >>= fun r => b' >>= fun rs => pure ((k, r) :: rs)) := by
  rcases h1 with ⟨⟨e, rfl⟩, ⟨e', rfl⟩⟩ | ⟨r, r', rfl, rfl, hr⟩
  · exact Or.inl ⟨⟨e, rfl⟩, ⟨e', rfl⟩⟩
  · rcases h2 with ⟨⟨e, rfl⟩, ⟨e', rfl⟩⟩ | ⟨rs, rs', rfl, rfl, hrs⟩
    · exact Or.inl ⟨⟨e, rfl⟩, ⟨e', rfl⟩⟩
    · exact Or.inr ⟨(k, r) :: rs, (k, r') :: rs', rfl, rfl,
        by rw [ym_normFields_cons, ym_normFields_cons, hr, hrs]⟩

/-- sequencing two merges corresponds to appending their plain pairs -/
theorem ym_RelM_seq {A PA PB : R RFields} {B : RFields → R RFields} {acc : RFields}
    (h1 : ym_RelM A PA acc) (h2 : ∀ d, ym_RelM (B d) PB d) :
    ym_RelM (A >>= B) (PA >>= fun x => PB >>= fun y => pure (x ++ y)) acc := by
  rcases h1 with ⟨⟨e, rfl⟩, ⟨e', rfl⟩⟩ | ⟨d, la, rfl, rfl, hd⟩
  · exact Or.inl ⟨⟨e, rfl⟩, ⟨e', rfl⟩⟩
  · rcases h2 d with ⟨⟨e, he⟩, ⟨e', rfl⟩⟩ | ⟨m, lb, hm, rfl, hk⟩
    · exact Or.inl ⟨⟨e, he⟩, ⟨e', rfl⟩⟩
    · refine Or.inr ⟨m, la ++ lb, hm, rfl, ?_⟩
      intro k
      rw [hk, hd, ym_nl_append, Option.or_assoc]

/-- the first argument of `ym_RelM` only matters up to "both fail or equal" -/
theorem ym_RelM_congr {a a' b : R RFields} {acc : RFields}
    (hs : (ym_Fail a ∧ ym_Fail a') ∨ a = a') (h : ym_RelM a b acc) : ym_RelM a' b acc := by
  rcases hs with ⟨h1, h2⟩ | rfl
  · rcases h with ⟨_, hb⟩ | ⟨m, l, rfl, _, _⟩
    · exact Or.inl ⟨h2, hb⟩
    · exact (ym_not_Fail_ok h1).elim
  · exact h

/-! ## shapes of translated nodes -/

theorem ym_T_mapping_shape (ps : ym_YPairs) (r : Raw) (h : yamlTranslate (.mapping ps) = .ok r) :
    ∃ m, r = .map m := by
  rw [yamlTranslate_mapping] at h
  cases h1 : yamlTranslateMerges ps [] with
  | error e => rw [h1] at h; cases h
  | ok mg =>
    rw [h1, s_bind_ok] at h
    cases h2 : yamlTranslatePairs ps with
    | error e => rw [h2] at h; cases h
    | ok ls => rw [h2, s_bind_ok] at h; cases h; exact ⟨_, rfl⟩

theorem ym_T_seq_shape (items : List YNode) (r : Raw) (h : yamlTranslate (.seq items) = .ok r) :
    ∃ xs, yamlTranslateList items = .ok xs ∧ r = .list xs := by
  rw [ym_T_seq] at h
  cases h1 : yamlTranslateList items with
  | error e => rw [h1] at h; cases h
  | ok xs => rw [h1, s_bind_ok] at h; cases h; exact ⟨xs, rfl, rfl⟩

theorem ym_T_isMap (x : YNode) (r : Raw) (h : yamlTranslate x = .ok r) :
    ym_isMapR r = ym_isMapping x := by
  cases x with
  | scalar t v f => rw [ym_T_scalar] at h; exact (ym_scalar_shape t v f r h).2.1
  | seq items => obtain ⟨xs, _, rfl⟩ := ym_T_seq_shape items r h; rfl
  | mapping ps => obtain ⟨m, rfl⟩ := ym_T_mapping_shape ps r h; rfl
  | empty => rw [ym_T_empty] at h; cases h; rfl

theorem ym_TL_allMap : ∀ (items : List YNode) (xs : List Raw), yamlTranslateList items = .ok xs →
    xs.all ym_isMapR = items.all ym_isMapping
  | [], xs, h => by rw [ym_TL_nil] at h; cases h; rfl
  | x :: items, xs, h => by
    rw [ym_TL_cons] at h
    cases h1 : yamlTranslate x with
    | error e => rw [h1] at h; cases h
    | ok r =>
      rw [h1, s_bind_ok] at h
      cases h2 : yamlTranslateList items with
      | error e => rw [h2] at h; cases h
      | ok rs =>
        rw [h2, s_bind_ok] at h; cases h
        rw [List.all_cons, List.all_cons, ym_T_isMap x r h1, ym_TL_allMap items rs h2]

/-- which nodes may stand under a `<<` key -/
def ym_mergeable : YNode → Bool
  | .mapping _ => true
  | .seq items => items.all ym_isMapping
  | _ => false

/-- merging a translated node succeeds iff the node is a mapping or a sequence of mappings, and
    fails with `invalidType` otherwise -/
theorem ym_mergeInto_ok (v : YNode) (r : Raw) (acc : RFields) (h : yamlTranslate v = .ok r) :
    ym_ok (yamlMergeInto acc r) = ym_mergeable v ∧
    (∀ e, yamlMergeInto acc r = .error e → e = .invalidType) := by
  cases v with
  | scalar t v f =>
    rw [ym_T_scalar] at h
    obtain ⟨_, h1, h2⟩ := ym_scalar_shape t v f r h
    rw [ym_mergeInto_other acc r h1 h2]
    exact ⟨rfl, fun e h => by cases h; rfl⟩
  | seq items =>
    obtain ⟨xs, hx, rfl⟩ := ym_T_seq_shape items r h
    obtain ⟨h1, h2⟩ := ym_mergeInto_list_ok xs acc
    exact ⟨by rw [h1, ym_TL_allMap items xs hx]; rfl, h2⟩
  | mapping ps =>
    obtain ⟨m, rfl⟩ := ym_T_mapping_shape ps r h
    exact ⟨rfl, fun e h => by cases h⟩
  | empty =>
    rw [ym_T_empty] at h; cases h
    exact ⟨rfl, fun e h => by cases h; rfl⟩

/-! ## the expansion theorem -/

/-- a mapping whose merges and locals are related to plain pairs `m`, `l` -/
theorem ym_mapping_cases (ps m l : ym_YPairs)
    (hm : ∀ acc, ym_RelM (yamlTranslateMerges ps acc) (yamlTranslatePairs m) acc)
    (hl : ym_RelF (yamlTranslatePairs ps) (yamlTranslatePairs l)) :
    (ym_Fail (yamlTranslate (.mapping ps)) ∧ ym_Fail (yamlTranslatePairs (m ++ l))) ∨
    ∃ r lq, yamlTranslate (.mapping ps) = .ok (.map r) ∧ yamlTranslatePairs (m ++ l) = .ok lq ∧
      ∀ k, ym_nl r k = ym_nl lq k := by
  rw [yamlTranslate_mapping, ym_TP_append]
  rcases hm [] with ⟨⟨e, he⟩, ⟨e', he'⟩⟩ | ⟨mg, lm, h1, h2, hk⟩
  · rw [he, he']; exact Or.inl ⟨⟨e, rfl⟩, ⟨e', rfl⟩⟩
  · rw [h1, h2, s_bind_ok, s_bind_ok]
    rcases hl with ⟨⟨e, he⟩, ⟨e', he'⟩⟩ | ⟨ls, ll, h3, h4, hn⟩
    · rw [he, he']; exact Or.inl ⟨⟨e, rfl⟩, ⟨e', rfl⟩⟩
    · rw [h3, h4]
      refine Or.inr ⟨_, _, rfl, rfl, ?_⟩
      intro k
      rw [ym_nl_foldl_rput, ym_nl_append, hk, ym_nl_of_normFields_eq hn k, ym_nl_nil, Option.or_none]

theorem ym_mapping_inline (ps m l : ym_YPairs)
    (hm : ∀ acc, ym_RelM (yamlTranslateMerges ps acc) (yamlTranslatePairs m) acc)
    (hl : ym_RelF (yamlTranslatePairs ps) (yamlTranslatePairs l)) (acc : RFields) :
    ym_RelM (yamlTranslate (.mapping ps) >>= yamlMergeInto acc) (yamlTranslatePairs (m ++ l)) acc := by
  rcases ym_mapping_cases ps m l hm hl with ⟨h1, h2⟩ | ⟨r, lq, h1, h2, hk⟩
  · exact Or.inl ⟨ym_Fail_bind _ h1, h2⟩
  · rw [h1, h2, s_bind_ok, yamlMergeInto_map]
    refine Or.inr ⟨_, _, rfl, rfl, ?_⟩
    intro k
    rw [ym_nl_foldl_rput, hk]

theorem ym_mapping_rel (ps m l : ym_YPairs) (hnm : ym_noMerge (m ++ l))
    (hm : ∀ acc, ym_RelM (yamlTranslateMerges ps acc) (yamlTranslatePairs m) acc)
    (hl : ym_RelF (yamlTranslatePairs ps) (yamlTranslatePairs l)) :
    ym_Rel (yamlTranslate (.mapping ps)) (yamlTranslate (.mapping (m ++ l))) := by
  rw [ym_T_mapping_noMerge _ hnm]
  rcases ym_mapping_cases ps m l hm hl with ⟨h1, h2⟩ | ⟨r, lq, h1, h2, hk⟩
  · exact Or.inl ⟨h1, ym_Fail_bind _ h2⟩
  · rw [h1, h2, s_bind_ok]
    refine Or.inr ⟨_, _, rfl, rfl, ?_⟩
    rw [ym_norm_map_eq_iff]
    intro k
    rw [ym_nl_foldl_rput, hk, ym_nl_nil, Option.or_none]

/-- merging one more (mapping) element of a `<<` list -/
theorem ym_seq_swap (x : YNode) (rest : List YNode) (acc : RFields)
    (hx : ym_isMapping x = true) :
    (ym_Fail ((yamlTranslateList rest >>= fun xs => yamlMergeInto acc (.list xs)) >>=
        fun d => yamlTranslate x >>= yamlMergeInto d) ∧
      ym_Fail (yamlTranslateList (x :: rest) >>= fun xs => yamlMergeInto acc (.list xs))) ∨
    ((yamlTranslateList rest >>= fun xs => yamlMergeInto acc (.list xs)) >>=
        fun d => yamlTranslate x >>= yamlMergeInto d) =
      (yamlTranslateList (x :: rest) >>= fun xs => yamlMergeInto acc (.list xs)) := by
  rw [ym_TL_cons]
  cases hT : yamlTranslate x with
  | error e =>
    left
    refine ⟨?_, ⟨e, rfl⟩⟩
    cases yamlTranslateList rest >>= fun xs => yamlMergeInto acc (.list xs) with
    | error e' => exact ⟨e', rfl⟩
    | ok d => exact ⟨e, rfl⟩
  | ok r =>
    right
    have hr : ym_isMapR r = true := by rw [ym_T_isMap x r hT, hx]
    cases r with
    | map kvs =>
      cases yamlTranslateList rest with
      | error e => rfl
      | ok rs =>
        simp only [s_bind_ok, s_pure, ym_mergeInto_list_cons]
        cases yamlMergeInto acc (.list rs) <;> rfl
    | _ => cases hr

mutual
theorem ym_expand_rel : ∀ (n n' : YNode), ym_expand n = some n' →
    ym_Rel (yamlTranslate n) (yamlTranslate n')
  | .scalar t v f, n', h => by
    rw [ym_expand] at h; cases h
    cases hs : yamlTranslate (.scalar t v f) with
    | error e => exact Or.inl ⟨⟨e, rfl⟩, ⟨e, rfl⟩⟩
    | ok r => exact Or.inr ⟨r, r, rfl, rfl, rfl⟩
  | .empty, n', h => by
    rw [ym_expand] at h; cases h
    rw [ym_T_empty]; exact Or.inr ⟨_, _, rfl, rfl, rfl⟩
  | .seq items, n', h => by
    rw [ym_expand] at h
    cases hl : ym_expandList items with
    | none => rw [hl] at h; cases h
    | some xs =>
      rw [hl] at h; cases h
      rw [ym_T_seq, ym_T_seq]
      rcases ym_expandList_rel items xs hl with ⟨⟨e, he⟩, ⟨e', he'⟩⟩ | ⟨r, r', h1, h2, hn⟩
      · rw [he, he']; exact Or.inl ⟨⟨e, rfl⟩, ⟨e', rfl⟩⟩
      · rw [h1, h2]
        exact Or.inr ⟨_, _, rfl, rfl, by rw [ym_norm_list, ym_norm_list, hn]⟩
  | .mapping ps, n', h => by
    rw [ym_expand] at h
    cases hm : ym_expandMerges ps with
    | none => rw [hm] at h; cases h
    | some m =>
      rw [hm] at h
      cases hl : ym_expandLocals ps with
      | none => rw [hl] at h; cases h
      | some l =>
        rw [hl] at h; cases h
        obtain ⟨m1, m2⟩ := ym_expandMerges_rel ps m hm
        obtain ⟨l1, l2⟩ := ym_expandLocals_rel ps l hl
        exact ym_mapping_rel ps m l (ym_noMerge_append m1 l1) m2 l2
theorem ym_expandList_rel : ∀ (xs xs' : List YNode), ym_expandList xs = some xs' →
    ym_RelL (yamlTranslateList xs) (yamlTranslateList xs')
  | [], xs', h => by
    rw [ym_expandList] at h; cases h
    rw [ym_TL_nil]; exact Or.inr ⟨_, _, rfl, rfl, rfl⟩
  | x :: xs, xs', h => by
    rw [ym_expandList] at h
    cases hx : ym_expand x with
    | none => rw [hx] at h; cases h
    | some x' =>
      rw [hx] at h
      cases hr : ym_expandList xs with
      | none => rw [hr] at h; cases h
      | some r =>
        rw [hr] at h; cases h
        rw [ym_TL_cons, ym_TL_cons]
        exact ym_RelL_cons (ym_expand_rel x x' hx) (ym_expandList_rel xs r hr)
theorem ym_expandMerges_rel : ∀ (ps q : ym_YPairs), ym_expandMerges ps = some q →
    ym_noMerge q ∧ ∀ acc, ym_RelM (yamlTranslateMerges ps acc) (yamlTranslatePairs q) acc
  | [], q, h => by
    rw [ym_expandMerges] at h; cases h
    refine ⟨ym_noMerge_nil, fun acc => ?_⟩
    rw [ym_TM_nil, ym_TP_nil]
    exact Or.inr ⟨_, _, rfl, rfl, fun k => by rw [ym_nl_nil, Option.none_or]⟩
  | (k, v) :: rest, q, h => by
    rw [ym_expandMerges] at h
    by_cases hk : k = "<<"
    · subst hk
      simp only [beq_self_eq_true, if_true] at h
      cases hv : ym_inline v with
      | none => rw [hv] at h; cases h
      | some a =>
        rw [hv] at h
        cases hr : ym_expandMerges rest with
        | none => rw [hr] at h; cases h
        | some b =>
          rw [hr] at h; cases h
          obtain ⟨a1, a2⟩ := ym_inline_rel v a hv
          obtain ⟨b1, b2⟩ := ym_expandMerges_rel rest b hr
          refine ⟨ym_noMerge_append a1 b1, fun acc => ?_⟩
          rw [ym_TM_cons_merge, ym_TP_append]
          exact ym_RelM_seq (a2 acc) b2
    · have hk' : (k == "<<") = false := by simpa using hk
      simp only [hk', Bool.false_eq_true, if_false] at h
      obtain ⟨b1, b2⟩ := ym_expandMerges_rel rest q h
      refine ⟨b1, fun acc => ?_⟩
      rw [ym_TM_cons_other _ _ _ _ hk]
      exact b2 acc
theorem ym_expandLocals_rel : ∀ (ps q : ym_YPairs), ym_expandLocals ps = some q →
    ym_noMerge q ∧ ym_RelF (yamlTranslatePairs ps) (yamlTranslatePairs q)
  | [], q, h => by
    rw [ym_expandLocals] at h; cases h
    refine ⟨ym_noMerge_nil, ?_⟩
    rw [ym_TP_nil]; exact Or.inr ⟨_, _, rfl, rfl, rfl⟩
  | (k, v) :: rest, q, h => by
    rw [ym_expandLocals] at h
    by_cases hk : k = "<<"
    · subst hk
      simp only [beq_self_eq_true, if_true] at h
      obtain ⟨b1, b2⟩ := ym_expandLocals_rel rest q h
      refine ⟨b1, ?_⟩
      rw [ym_TP_cons_merge]; exact b2
    · have hk' : (k == "<<") = false := by simpa using hk
      simp only [hk', Bool.false_eq_true, if_false] at h
      cases hv : ym_expand v with
      | none => rw [hv] at h; cases h
      | some v' =>
        rw [hv] at h
        cases hr : ym_expandLocals rest with
        | none => rw [hr] at h; cases h
        | some r =>
          rw [hr] at h; cases h
          obtain ⟨b1, b2⟩ := ym_expandLocals_rel rest r hr
          refine ⟨ym_noMerge_cons hk b1, ?_⟩
          rw [ym_TP_cons_other _ _ _ hk, ym_TP_cons_other _ _ _ hk]
          exact ym_RelF_cons k (ym_expand_rel v v' hv) b2
theorem ym_inline_rel : ∀ (v : YNode) (q : ym_YPairs), ym_inline v = some q →
    ym_noMerge q ∧ ∀ acc, ym_RelM (yamlTranslate v >>= yamlMergeInto acc) (yamlTranslatePairs q) acc
  | .scalar _ _ _, q, h => by rw [ym_inline] at h; cases h
  | .empty, q, h => by rw [ym_inline] at h; cases h
  | .seq items, q, h => by
    rw [ym_inline] at h
    obtain ⟨b1, b2⟩ := ym_inlineSeq_rel items q h
    refine ⟨b1, fun acc => ?_⟩
    have := b2 acc
    rw [ym_T_seq]
    cases hT : yamlTranslateList items with
    | error e => rw [hT] at this; exact this
    | ok xs => rw [hT] at this; exact this
  | .mapping ps, q, h => by
    rw [ym_inline] at h
    cases hm : ym_expandMerges ps with
    | none => rw [hm] at h; cases h
    | some m =>
      rw [hm] at h
      cases hl : ym_expandLocals ps with
      | none => rw [hl] at h; cases h
      | some l =>
        rw [hl] at h; cases h
        obtain ⟨m1, m2⟩ := ym_expandMerges_rel ps m hm
        obtain ⟨l1, l2⟩ := ym_expandLocals_rel ps l hl
        exact ⟨ym_noMerge_append m1 l1, ym_mapping_inline ps m l m2 l2⟩
theorem ym_inlineSeq_rel : ∀ (items : List YNode) (q : ym_YPairs), ym_inlineSeq items = some q →
    ym_noMerge q ∧ ∀ acc, ym_RelM
      (yamlTranslateList items >>= fun xs => yamlMergeInto acc (.list xs)) (yamlTranslatePairs q) acc
  | [], q, h => by
    rw [ym_inlineSeq] at h; cases h
    refine ⟨ym_noMerge_nil, fun acc => ?_⟩
    rw [ym_TL_nil, ym_TP_nil]
    exact Or.inr ⟨_, _, rfl, rfl, fun k => by rw [ym_nl_nil, Option.none_or]⟩
  | .scalar _ _ _ :: xs, q, h => by simp [ym_inlineSeq] at h
  | .empty :: xs, q, h => by simp [ym_inlineSeq] at h
  | .seq _ :: xs, q, h => by simp [ym_inlineSeq] at h
  | .mapping ps :: xs, q, h => by
    rw [ym_inlineSeq] at h
    cases hp : ym_inline (.mapping ps) with
    | none => rw [hp] at h; cases h
    | some p =>
      rw [hp] at h
      cases hr : ym_inlineSeq xs with
      | none => rw [hr] at h; cases h
      | some r =>
        rw [hr] at h; cases h
        obtain ⟨p1, p2⟩ := ym_inline_rel (.mapping ps) p hp
        obtain ⟨r1, r2⟩ := ym_inlineSeq_rel xs r hr
        refine ⟨ym_noMerge_append r1 p1, fun acc => ?_⟩
        rw [ym_TP_append]
        exact ym_RelM_congr (ym_seq_swap (.mapping ps) xs acc rfl) (ym_RelM_seq (r2 acc) p2)
end

/-! ## exactly when `yamlTranslate` succeeds -/

mutual
/-- well-typed node trees: every scalar is acceptable (`ym_scalarOK`) and every `<<` value is a
    mapping or a sequence of mappings -/
def ym_wt : YNode → Bool
  | .scalar t v f => ym_scalarOK t v f
  | .seq items => ym_wtList items
  | .mapping ps => ym_wtMerges ps && ym_wtLocals ps
  | .empty => true
def ym_wtList : List YNode → Bool
  | [] => true
  | x :: xs => ym_wt x && ym_wtList xs
def ym_wtMerges : ym_YPairs → Bool
  | [] => true
  | (k, v) :: rest =>
    if k == "<<" then ym_wt v && ym_mergeable v && ym_wtMerges rest else ym_wtMerges rest
def ym_wtLocals : ym_YPairs → Bool
  | [] => true
  | (k, v) :: rest => if k == "<<" then ym_wtLocals rest else ym_wt v && ym_wtLocals rest
end

theorem ym_ok_bind2 {α β γ : Type} (a : R α) (b : R β) (f : α → β → γ) :
    ym_ok (a >>= fun x => b >>= fun y => pure (f x y)) = (ym_ok a && ym_ok b) := by
  cases a <;> cases b <;> rfl

theorem ym_ok_map {α β : Type} (a : R α) (f : α → β) :
    ym_ok (a >>= fun x => pure (f x)) = ym_ok a := by
  cases a <;> rfl

mutual
theorem ym_T_ok : ∀ (n : YNode), ym_ok (yamlTranslate n) = ym_wt n
  | .scalar t v f => by rw [ym_T_scalar, ym_wt, ym_scalar_ok]
  | .empty => by rw [ym_T_empty, ym_wt]; rfl
  | .seq items => by rw [ym_T_seq, ym_wt, ym_ok_map, ym_TL_ok items]
  | .mapping ps => by
    rw [yamlTranslate_mapping, ym_wt, ← ym_TM_ok ps [], ← ym_TP_ok ps]
    exact ym_ok_bind2 _ _ _
theorem ym_TL_ok : ∀ (xs : List YNode), ym_ok (yamlTranslateList xs) = ym_wtList xs
  | [] => by rw [ym_TL_nil, ym_wtList]; rfl
  | x :: xs => by
    rw [ym_TL_cons, ym_wtList, ← ym_T_ok x, ← ym_TL_ok xs]
    exact ym_ok_bind2 _ _ _
theorem ym_TM_ok : ∀ (ps : ym_YPairs) (acc : RFields),
    ym_ok (yamlTranslateMerges ps acc) = ym_wtMerges ps
  | [], acc => by rw [ym_TM_nil, ym_wtMerges]; rfl
  | (k, v) :: rest, acc => by
    rw [ym_wtMerges]
    by_cases hk : k = "<<"
    · subst hk
      simp only [beq_self_eq_true, if_true]
      rw [ym_TM_cons_merge, ← ym_T_ok v]
      cases hT : yamlTranslate v with
      | error e => rfl
      | ok r =>
        obtain ⟨h1, _⟩ := ym_mergeInto_ok v r acc hT
        rw [s_bind_ok, ← h1]
        cases hm : yamlMergeInto acc r with
        | error e => rfl
        | ok acc' =>
          rw [s_bind_ok, ym_TM_ok rest acc']
          simp [ym_ok]
    · have hk' : (k == "<<") = false := by simpa using hk
      simp only [hk', Bool.false_eq_true, if_false]
      rw [ym_TM_cons_other _ _ _ _ hk]
      exact ym_TM_ok rest acc
theorem ym_TP_ok : ∀ (ps : ym_YPairs), ym_ok (yamlTranslatePairs ps) = ym_wtLocals ps
  | [] => by rw [ym_TP_nil, ym_wtLocals]; rfl
  | (k, v) :: rest => by
    rw [ym_wtLocals]
    by_cases hk : k = "<<"
    · subst hk
      simp only [beq_self_eq_true, if_true]
      rw [ym_TP_cons_merge]
      exact ym_TP_ok rest
    · have hk' : (k == "<<") = false := by simpa using hk
      simp only [hk', Bool.false_eq_true, if_false]
      rw [ym_TP_cons_other _ _ _ hk, ← ym_T_ok v, ← ym_TP_ok rest]
      exact ym_ok_bind2 _ _ _
end

/-! ## every failure is `invalidType` or `other` -/

def ym_ErrOK {α : Type} (a : R α) : Prop := ∀ e, a = .error e → e = .invalidType ∨ e = .other

theorem ym_ErrOK_ok {α : Type} (v : α) : ym_ErrOK (.ok v : R α) := fun _ h => by cases h
theorem ym_ErrOK_bind {α β : Type} {a : R α} {f : α → R β} (h1 : ym_ErrOK a)
    (h2 : ∀ x, a = .ok x → ym_ErrOK (f x)) : ym_ErrOK (a >>= f) := by
  cases a with
  | error e => intro e' h; cases h; exact h1 e rfl
  | ok x => exact h2 x rfl

mutual
theorem ym_T_err : ∀ (n : YNode), ym_ErrOK (yamlTranslate n)
  | .scalar t v f => by rw [ym_T_scalar]; exact ym_scalar_error t v f
  | .empty => by rw [ym_T_empty]; exact ym_ErrOK_ok _
  | .seq items => by
    rw [ym_T_seq]; exact ym_ErrOK_bind (ym_TL_err items) (fun _ _ => ym_ErrOK_ok _)
  | .mapping ps => by
    rw [yamlTranslate_mapping]
    exact ym_ErrOK_bind (ym_TM_err ps [])
      (fun _ _ => ym_ErrOK_bind (ym_TP_err ps) (fun _ _ => ym_ErrOK_ok _))
theorem ym_TL_err : ∀ (xs : List YNode), ym_ErrOK (yamlTranslateList xs)
  | [] => by rw [ym_TL_nil]; exact ym_ErrOK_ok _
  | x :: xs => by
    rw [ym_TL_cons]
    exact ym_ErrOK_bind (ym_T_err x)
      (fun _ _ => ym_ErrOK_bind (ym_TL_err xs) (fun _ _ => ym_ErrOK_ok _))
theorem ym_TM_err : ∀ (ps : ym_YPairs) (acc : RFields), ym_ErrOK (yamlTranslateMerges ps acc)
  | [], acc => by rw [ym_TM_nil]; exact ym_ErrOK_ok _
  | (k, v) :: rest, acc => by
    by_cases hk : k = "<<"
    · subst hk
      rw [ym_TM_cons_merge]
      refine ym_ErrOK_bind (ym_ErrOK_bind (ym_T_err v) ?_) (fun acc' _ => ym_TM_err rest acc')
      intro r hr e he
      exact Or.inl ((ym_mergeInto_ok v r acc hr).2 e he)
    · rw [ym_TM_cons_other _ _ _ _ hk]; exact ym_TM_err rest acc
theorem ym_TP_err : ∀ (ps : ym_YPairs), ym_ErrOK (yamlTranslatePairs ps)
  | [] => by rw [ym_TP_nil]; exact ym_ErrOK_ok _
  | (k, v) :: rest => by
    by_cases hk : k = "<<"
    · subst hk; rw [ym_TP_cons_merge]; exact ym_TP_err rest
    · rw [ym_TP_cons_other _ _ _ hk]
      exact ym_ErrOK_bind (ym_T_err v)
        (fun _ _ => ym_ErrOK_bind (ym_TP_err rest) (fun _ _ => ym_ErrOK_ok _))
end

/-! ## cleanliness of the translation -/

def ym_All {α : Type} (P : α → Prop) (a : R α) : Prop := ∀ r, a = .ok r → P r

theorem ym_All_ok {α : Type} {P : α → Prop} {v : α} (h : P v) : ym_All P (.ok v : R α) := by
  intro r hr; cases hr; exact h
theorem ym_All_bind {α β : Type} {P : α → Prop} {Q : β → Prop} {a : R α} {f : α → R β}
    (h1 : ym_All P a) (h2 : ∀ x, P x → ym_All Q (f x)) : ym_All Q (a >>= f) := by
  cases a with
  | error e => intro r hr; cases hr
  | ok x => exact h2 x (h1 x rfl)

theorem ym_hasMapAny_list (xs : List Raw) : hasMapAny (.list xs) = hasMapAnyList xs := by
  rw [hasMapAny]
theorem ym_hasMapAny_map (kvs : RFields) : hasMapAny (.map kvs) = hasMapAnyFields kvs := by
  rw [hasMapAny]

theorem ym_mergeInto_list_clean (xs : List Raw) : ∀ (acc : RFields), hasMapAnyFields acc = false →
    hasMapAnyList xs = false →
    ym_All (fun d => hasMapAnyFields d = false) (yamlMergeInto acc (.list xs)) := by
  induction xs with
  | nil => intro acc ha _; exact ym_All_ok ha
  | cons x xs ih =>
    intro acc ha hx
    rw [hasMapAnyList, Bool.or_eq_false_iff] at hx
    rw [ym_mergeInto_list_cons]
    refine ym_All_bind (ih acc ha hx.2) ?_
    intro d hd
    cases x with
    | map kvs =>
      rw [ym_step_map]
      exact ym_All_ok (ym_clean_foldl_rput kvs d hd (by rw [← ym_hasMapAny_map]; exact hx.1))
    | _ => intro r hr; cases hr

theorem ym_mergeInto_clean (acc : RFields) (r : Raw) (ha : hasMapAnyFields acc = false)
    (hr : hasMapAny r = false) :
    ym_All (fun d => hasMapAnyFields d = false) (yamlMergeInto acc r) := by
  cases r with
  | map kvs =>
    rw [yamlMergeInto_map]
    exact ym_All_ok (ym_clean_foldl_rput kvs acc ha (by rw [← ym_hasMapAny_map]; exact hr))
  | list xs => exact ym_mergeInto_list_clean xs acc ha (by rw [← ym_hasMapAny_list]; exact hr)
  | _ => intro d hd; cases hd

mutual
theorem ym_T_clean : ∀ (n : YNode), ym_All (fun r => hasMapAny r = false) (yamlTranslate n)
  | .scalar t v f => by
    rw [ym_T_scalar]; intro r hr; exact (ym_scalar_shape t v f r hr).1
  | .empty => by rw [ym_T_empty]; exact ym_All_ok rfl
  | .seq items => by
    rw [ym_T_seq]
    exact ym_All_bind (ym_TL_clean items) (fun xs hx => ym_All_ok (by rw [ym_hasMapAny_list]; exact hx))
  | .mapping ps => by
    rw [yamlTranslate_mapping]
    refine ym_All_bind (ym_TM_clean ps [] rfl) (fun mg hmg => ?_)
    refine ym_All_bind (ym_TP_clean ps) (fun ls hls => ym_All_ok ?_)
    rw [ym_hasMapAny_map]
    exact ym_clean_foldl_rput ls mg hmg hls
theorem ym_TL_clean : ∀ (xs : List YNode),
    ym_All (fun rs => hasMapAnyList rs = false) (yamlTranslateList xs)
  | [] => by rw [ym_TL_nil]; exact ym_All_ok rfl
  | x :: xs => by
    rw [ym_TL_cons]
    refine ym_All_bind (ym_T_clean x) (fun r hr => ?_)
    refine ym_All_bind (ym_TL_clean xs) (fun rs hrs => ym_All_ok ?_)
    rw [hasMapAnyList, hr, hrs]; rfl
theorem ym_TM_clean : ∀ (ps : ym_YPairs) (acc : RFields), hasMapAnyFields acc = false →
    ym_All (fun d => hasMapAnyFields d = false) (yamlTranslateMerges ps acc)
  | [], acc, ha => by rw [ym_TM_nil]; exact ym_All_ok ha
  | (k, v) :: rest, acc, ha => by
    by_cases hk : k = "<<"
    · subst hk
      rw [ym_TM_cons_merge]
      refine ym_All_bind (ym_All_bind (ym_T_clean v) (fun r hr => ym_mergeInto_clean acc r ha hr))
        (fun acc' ha' => ym_TM_clean rest acc' ha')
    · rw [ym_TM_cons_other _ _ _ _ hk]; exact ym_TM_clean rest acc ha
theorem ym_TP_clean : ∀ (ps : ym_YPairs),
    ym_All (fun d => hasMapAnyFields d = false) (yamlTranslatePairs ps)
  | [] => by rw [ym_TP_nil]; exact ym_All_ok rfl
  | (k, v) :: rest => by
    by_cases hk : k = "<<"
    · subst hk; rw [ym_TP_cons_merge]; exact ym_TP_clean rest
    · rw [ym_TP_cons_other _ _ _ hk]
      refine ym_All_bind (ym_T_clean v) (fun r hr => ?_)
      refine ym_All_bind (ym_TP_clean rest) (fun rs hrs => ym_All_ok ?_)
      rw [hasMapAnyFields, hr, hrs]; rfl
end

/-- translating then normalising: `normalize` never fails on a translated node -/
theorem ym_T_normalize (n : YNode) (r : Raw) (h : yamlTranslate n = .ok r) :
    (yamlTranslate n >>= normalize) = .ok (ym_norm r) := by
  rw [h, s_bind_ok, ym_normalize_eq r (ym_T_clean n r h)]

/-! ## plain node trees: no `<<` key anywhere -/

mutual
def ym_plain : YNode → Bool
  | .seq items => ym_plainList items
  | .mapping ps => ym_plainPairs ps
  | _ => true
def ym_plainList : List YNode → Bool
  | [] => true
  | x :: xs => ym_plain x && ym_plainList xs
def ym_plainPairs : ym_YPairs → Bool
  | [] => true
  | (k, v) :: rest => k != "<<" && ym_plain v && ym_plainPairs rest
end

theorem ym_plainPairs_append : ∀ (a b : ym_YPairs),
    ym_plainPairs (a ++ b) = (ym_plainPairs a && ym_plainPairs b)
  | [], b => by rw [List.nil_append, ym_plainPairs, Bool.true_and]
  | (k, v) :: a, b => by
    rw [List.cons_append, ym_plainPairs, ym_plainPairs, ym_plainPairs_append a b]
    simp only [Bool.and_assoc]

theorem ym_plainPairs_noMerge : ∀ (q : ym_YPairs), ym_plainPairs q = true → ym_noMerge q
  | [], _ => ym_noMerge_nil
  | (k, v) :: rest, h => by
    rw [ym_plainPairs, Bool.and_eq_true, Bool.and_eq_true] at h
    exact ym_noMerge_cons (by simpa using h.1.1) (ym_plainPairs_noMerge rest h.2)

mutual
theorem ym_expand_plain : ∀ (n n' : YNode), ym_expand n = some n' → ym_plain n' = true
  | .scalar t v f, n', h => by rw [ym_expand] at h; cases h; simp [ym_plain]
  | .empty, n', h => by rw [ym_expand] at h; cases h; simp [ym_plain]
  | .seq items, n', h => by
    rw [ym_expand] at h
    cases hl : ym_expandList items with
    | none => rw [hl] at h; cases h
    | some xs => rw [hl] at h; cases h; rw [ym_plain]; exact ym_expandList_plain items xs hl
  | .mapping ps, n', h => by
    rw [ym_expand] at h
    cases hm : ym_expandMerges ps with
    | none => rw [hm] at h; cases h
    | some m =>
      rw [hm] at h
      cases hl : ym_expandLocals ps with
      | none => rw [hl] at h; cases h
      | some l =>
        rw [hl] at h; cases h
        rw [ym_plain, ym_plainPairs_append, ym_expandMerges_plain ps m hm,
          ym_expandLocals_plain ps l hl]; rfl
theorem ym_expandList_plain : ∀ (xs xs' : List YNode), ym_expandList xs = some xs' →
    ym_plainList xs' = true
  | [], xs', h => by rw [ym_expandList] at h; cases h; rw [ym_plainList]
  | x :: xs, xs', h => by
    rw [ym_expandList] at h
    cases hx : ym_expand x with
    | none => rw [hx] at h; cases h
    | some x' =>
      rw [hx] at h
      cases hr : ym_expandList xs with
      | none => rw [hr] at h; cases h
      | some r =>
        rw [hr] at h; cases h
        rw [ym_plainList, ym_expand_plain x x' hx, ym_expandList_plain xs r hr]; rfl
theorem ym_expandMerges_plain : ∀ (ps q : ym_YPairs), ym_expandMerges ps = some q →
    ym_plainPairs q = true
  | [], q, h => by rw [ym_expandMerges] at h; cases h; rw [ym_plainPairs]
  | (k, v) :: rest, q, h => by
    rw [ym_expandMerges] at h
    by_cases hk : k = "<<"
    · subst hk
      simp only [beq_self_eq_true, if_true] at h
      cases hv : ym_inline v with
      | none => rw [hv] at h; cases h
      | some a =>
        rw [hv] at h
        cases hr : ym_expandMerges rest with
        | none => rw [hr] at h; cases h
        | some b =>
          rw [hr] at h; cases h
          rw [ym_plainPairs_append, ym_inline_plain v a hv, ym_expandMerges_plain rest b hr]; rfl
    · have hk' : (k == "<<") = false := by simpa using hk
      simp only [hk', Bool.false_eq_true, if_false] at h
      exact ym_expandMerges_plain rest q h
theorem ym_expandLocals_plain : ∀ (ps q : ym_YPairs), ym_expandLocals ps = some q →
    ym_plainPairs q = true
  | [], q, h => by rw [ym_expandLocals] at h; cases h; rw [ym_plainPairs]
  | (k, v) :: rest, q, h => by
    rw [ym_expandLocals] at h
    by_cases hk : k = "<<"
    · subst hk
      simp only [beq_self_eq_true, if_true] at h
      exact ym_expandLocals_plain rest q h
    · have hk' : (k == "<<") = false := by simpa using hk
      simp only [hk', Bool.false_eq_true, if_false] at h
      cases hv : ym_expand v with
      | none => rw [hv] at h; cases h
      | some v' =>
        rw [hv] at h
        cases hr : ym_expandLocals rest with
        | none => rw [hr] at h; cases h
        | some r =>
          rw [hr] at h; cases h
          have : (k != "<<") = true := by simpa using hk
          rw [ym_plainPairs, this, ym_expand_plain v v' hv, ym_expandLocals_plain rest r hr]; rfl
theorem ym_inline_plain : ∀ (v : YNode) (q : ym_YPairs), ym_inline v = some q →
    ym_plainPairs q = true
  | .scalar _ _ _, q, h => by rw [ym_inline] at h; cases h
  | .empty, q, h => by rw [ym_inline] at h; cases h
  | .seq items, q, h => by rw [ym_inline] at h; exact ym_inlineSeq_plain items q h
  | .mapping ps, q, h => by
    rw [ym_inline] at h
    cases hm : ym_expandMerges ps with
    | none => rw [hm] at h; cases h
    | some m =>
      rw [hm] at h
      cases hl : ym_expandLocals ps with
      | none => rw [hl] at h; cases h
      | some l =>
        rw [hl] at h; cases h
        rw [ym_plainPairs_append, ym_expandMerges_plain ps m hm, ym_expandLocals_plain ps l hl]; rfl
theorem ym_inlineSeq_plain : ∀ (items : List YNode) (q : ym_YPairs), ym_inlineSeq items = some q →
    ym_plainPairs q = true
  | [], q, h => by rw [ym_inlineSeq] at h; cases h; rw [ym_plainPairs]
  | .scalar _ _ _ :: xs, q, h => by simp [ym_inlineSeq] at h
  | .empty :: xs, q, h => by simp [ym_inlineSeq] at h
  | .seq _ :: xs, q, h => by simp [ym_inlineSeq] at h
  | .mapping ps :: xs, q, h => by
    rw [ym_inlineSeq] at h
    cases hp : ym_inline (.mapping ps) with
    | none => rw [hp] at h; cases h
    | some p =>
      rw [hp] at h
      cases hr : ym_inlineSeq xs with
      | none => rw [hr] at h; cases h
      | some r =>
        rw [hr] at h; cases h
        rw [ym_plainPairs_append, ym_inlineSeq_plain xs r hr, ym_inline_plain (.mapping ps) p hp]; rfl
end

/-! a plain tree is its own expansion -/

mutual
theorem ym_expand_of_plain : ∀ (n : YNode), ym_plain n = true → ym_expand n = some n
  | .scalar t v f, _ => by rw [ym_expand]
  | .empty, _ => by rw [ym_expand]
  | .seq items, h => by
    rw [ym_plain] at h
    rw [ym_expand, ym_expandList_of_plain items h]
  | .mapping ps, h => by
    rw [ym_plain] at h
    obtain ⟨h1, h2⟩ := ym_expandPairs_of_plain ps h
    rw [ym_expand, h1, h2]; rfl
theorem ym_expandList_of_plain : ∀ (xs : List YNode), ym_plainList xs = true →
    ym_expandList xs = some xs
  | [], _ => by rw [ym_expandList]
  | x :: xs, h => by
    rw [ym_plainList, Bool.and_eq_true] at h
    rw [ym_expandList, ym_expand_of_plain x h.1, ym_expandList_of_plain xs h.2]
theorem ym_expandPairs_of_plain : ∀ (ps : ym_YPairs), ym_plainPairs ps = true →
    ym_expandMerges ps = some [] ∧ ym_expandLocals ps = some ps
  | [], _ => by rw [ym_expandMerges, ym_expandLocals]; exact ⟨rfl, rfl⟩
  | (k, v) :: rest, h => by
    rw [ym_plainPairs, Bool.and_eq_true, Bool.and_eq_true] at h
    obtain ⟨⟨hk, hv⟩, hr⟩ := h
    have hk' : (k == "<<") = false := by simpa using hk
    obtain ⟨h1, h2⟩ := ym_expandPairs_of_plain rest hr
    rw [ym_expandMerges, ym_expandLocals]
    simp only [hk', Bool.false_eq_true, if_false]
    rw [h1, h2, ym_expand_of_plain v hv]
    exact ⟨rfl, rfl⟩
end

/-! ## well-typed trees can be expanded -/

mutual
theorem ym_wt_expand : ∀ (n : YNode), ym_wt n = true → (ym_expand n).isSome = true
  | .scalar t v f, _ => by rw [ym_expand]; rfl
  | .empty, _ => by rw [ym_expand]; rfl
  | .seq items, h => by
    rw [ym_wt] at h
    have := ym_wt_expandList items h
    rw [ym_expand]
    cases hl : ym_expandList items with
    | none => rw [hl] at this; cases this
    | some xs => rfl
  | .mapping ps, h => by
    rw [ym_wt, Bool.and_eq_true] at h
    have h1 := ym_wt_expandMerges ps h.1
    have h2 := ym_wt_expandLocals ps h.2
    rw [ym_expand]
    cases hm : ym_expandMerges ps with
    | none => rw [hm] at h1; cases h1
    | some m =>
      cases hl : ym_expandLocals ps with
      | none => rw [hl] at h2; cases h2
      | some l => rfl
theorem ym_wt_expandList : ∀ (xs : List YNode), ym_wtList xs = true →
    (ym_expandList xs).isSome = true
  | [], _ => by rw [ym_expandList]; rfl
  | x :: xs, h => by
    rw [ym_wtList, Bool.and_eq_true] at h
    have h1 := ym_wt_expand x h.1
    have h2 := ym_wt_expandList xs h.2
    rw [ym_expandList]
    cases hx : ym_expand x with
    | none => rw [hx] at h1; cases h1
    | some x' =>
      cases hr : ym_expandList xs with
      | none => rw [hr] at h2; cases h2
      | some r => rfl
theorem ym_wt_expandMerges : ∀ (ps : ym_YPairs), ym_wtMerges ps = true →
    (ym_expandMerges ps).isSome = true
  | [], _ => by rw [ym_expandMerges]; rfl
  | (k, v) :: rest, h => by
    rw [ym_wtMerges] at h
    rw [ym_expandMerges]
    by_cases hk : k = "<<"
    · subst hk
      simp only [beq_self_eq_true, if_true, Bool.and_eq_true] at h ⊢
      have h1 := ym_wt_inline v h.1.1 h.1.2
      have h2 := ym_wt_expandMerges rest h.2
      cases hv : ym_inline v with
      | none => rw [hv] at h1; cases h1
      | some a =>
        cases hr : ym_expandMerges rest with
        | none => rw [hr] at h2; cases h2
        | some b => rfl
    · have hk' : (k == "<<") = false := by simpa using hk
      simp only [hk', Bool.false_eq_true, if_false] at h ⊢
      exact ym_wt_expandMerges rest h
theorem ym_wt_expandLocals : ∀ (ps : ym_YPairs), ym_wtLocals ps = true →
    (ym_expandLocals ps).isSome = true
  | [], _ => by rw [ym_expandLocals]; rfl
  | (k, v) :: rest, h => by
    rw [ym_wtLocals] at h
    rw [ym_expandLocals]
    by_cases hk : k = "<<"
    · subst hk
      simp only [beq_self_eq_true, if_true] at h ⊢
      exact ym_wt_expandLocals rest h
    · have hk' : (k == "<<") = false := by simpa using hk
      simp only [hk', Bool.false_eq_true, if_false, Bool.and_eq_true] at h ⊢
      have h1 := ym_wt_expand v h.1
      have h2 := ym_wt_expandLocals rest h.2
      cases hv : ym_expand v with
      | none => rw [hv] at h1; cases h1
      | some v' =>
        cases hr : ym_expandLocals rest with
        | none => rw [hr] at h2; cases h2
        | some r => rfl
theorem ym_wt_inline : ∀ (v : YNode), ym_wt v = true → ym_mergeable v = true →
    (ym_inline v).isSome = true
  | .scalar _ _ _, _, hm => by cases hm
  | .empty, _, hm => by cases hm
  | .seq items, h, hm => by
    rw [ym_wt] at h
    rw [ym_inline]
    exact ym_wt_inlineSeq items h hm
  | .mapping ps, h, _ => by
    rw [ym_wt, Bool.and_eq_true] at h
    have h1 := ym_wt_expandMerges ps h.1
    have h2 := ym_wt_expandLocals ps h.2
    rw [ym_inline]
    cases hm : ym_expandMerges ps with
    | none => rw [hm] at h1; cases h1
    | some m =>
      cases hl : ym_expandLocals ps with
      | none => rw [hl] at h2; cases h2
      | some l => rfl
theorem ym_wt_inlineSeq : ∀ (items : List YNode), ym_wtList items = true →
    items.all ym_isMapping = true → (ym_inlineSeq items).isSome = true
  | [], _, _ => by rw [ym_inlineSeq]; rfl
  | .scalar _ _ _ :: xs, _, hm => by simp [ym_isMapping] at hm
  | .empty :: xs, _, hm => by simp [ym_isMapping] at hm
  | .seq _ :: xs, _, hm => by simp [ym_isMapping] at hm
  | .mapping ps :: xs, h, hm => by
    rw [ym_wtList, Bool.and_eq_true] at h
    rw [List.all_cons, Bool.and_eq_true] at hm
    have h1 := ym_wt_inline (.mapping ps) h.1 rfl
    have h2 := ym_wt_inlineSeq xs h.2 hm.2
    rw [ym_inlineSeq]
    cases hp : ym_inline (.mapping ps) with
    | none => rw [hp] at h1; cases h1
    | some p =>
      cases hr : ym_inlineSeq xs with
      | none => rw [hr] at h2; cases h2
      | some r => rfl
end

/-- a tree that cannot be expanded (some `<<` value is neither a mapping nor a sequence of
    mappings) is rejected by `yamlTranslate` -/
theorem ym_expand_none_fails (n : YNode) (h : ym_expand n = none) : ym_Fail (yamlTranslate n) := by
  rw [ym_Fail, ← ym_ok_false_iff, ym_T_ok]
  cases hw : ym_wt n with
  | false => rfl
  | true => have := ym_wt_expand n hw; rw [h] at this; cases this

/-! ## the failure classes of a scalar -/

theorem ym_scalar_unknown_tag (t v f : String) (h1 : t ≠ "!!bool") (h2 : t ≠ "!!int")
    (h3 : t ≠ "!!float") (h4 : t ≠ "!!null") (h5 : t ≠ "!!str") (h6 : t ≠ "!!timestamp") :
    yamlScalar t v f = .error .invalidType := by
  unfold yamlScalar
  split <;> first | rfl | (exfalso; first | exact h1 rfl | exact h2 rfl | exact h3 rfl | exact h4 rfl | exact h5 rfl | exact h6 rfl)

theorem ym_scalar_bad_int (v f : String) (h : parseInt64 v = none) :
    yamlScalar "!!int" v f = .error .other := by
  rw [ym_scalar_int, h]

theorem ym_scalar_bad_float (v : String) : yamlScalar "!!float" v "" = .error .other := by
  rw [yamlScalar_float]; rfl

theorem ym_scalar_bad_bool (v f : String) (h : ym_boolLit v = false) :
    yamlScalar "!!bool" v f = .error .other := by
  unfold ym_boolLit at h
  rw [Bool.or_eq_false_iff] at h
  unfold yamlScalar
  simp only [h.1, h.2, Bool.false_eq_true, if_false]
  rfl

/-! ## plain trees: only the scalars can fail -/

mutual
def ym_scalarsOK : YNode → Bool
  | .scalar t v f => ym_scalarOK t v f
  | .seq items => ym_scalarsOKList items
  | .mapping ps => ym_scalarsOKPairs ps
  | .empty => true
def ym_scalarsOKList : List YNode → Bool
  | [] => true
  | x :: xs => ym_scalarsOK x && ym_scalarsOKList xs
def ym_scalarsOKPairs : ym_YPairs → Bool
  | [] => true
  | (_, v) :: rest => ym_scalarsOK v && ym_scalarsOKPairs rest
end

mutual
theorem ym_plain_wt : ∀ (n : YNode), ym_plain n = true → ym_wt n = ym_scalarsOK n
  | .scalar t v f, _ => by rw [ym_wt, ym_scalarsOK]
  | .empty, _ => by rw [ym_wt, ym_scalarsOK]
  | .seq items, h => by
    rw [ym_plain] at h
    rw [ym_wt, ym_scalarsOK, ym_plainList_wt items h]
  | .mapping ps, h => by
    rw [ym_plain] at h
    obtain ⟨h1, h2⟩ := ym_plainPairs_wt ps h
    rw [ym_wt, ym_scalarsOK, h1, h2, Bool.true_and]
theorem ym_plainList_wt : ∀ (xs : List YNode), ym_plainList xs = true →
    ym_wtList xs = ym_scalarsOKList xs
  | [], _ => by rw [ym_wtList, ym_scalarsOKList]
  | x :: xs, h => by
    rw [ym_plainList, Bool.and_eq_true] at h
    rw [ym_wtList, ym_scalarsOKList, ym_plain_wt x h.1, ym_plainList_wt xs h.2]
theorem ym_plainPairs_wt : ∀ (ps : ym_YPairs), ym_plainPairs ps = true →
    ym_wtMerges ps = true ∧ ym_wtLocals ps = ym_scalarsOKPairs ps
  | [], _ => by rw [ym_wtMerges, ym_wtLocals, ym_scalarsOKPairs]; exact ⟨rfl, rfl⟩
  | (k, v) :: rest, h => by
    rw [ym_plainPairs, Bool.and_eq_true, Bool.and_eq_true] at h
    obtain ⟨⟨hk, hv⟩, hr⟩ := h
    have hk' : (k == "<<") = false := by simpa using hk
    obtain ⟨h1, h2⟩ := ym_plainPairs_wt rest hr
    rw [ym_wtMerges, ym_wtLocals, ym_scalarsOKPairs]
    simp only [hk', Bool.false_eq_true, if_false]
    rw [ym_plain_wt v hv, h2]
    exact ⟨h1, rfl⟩
end

/-! ## a `<<` whose value is neither a mapping nor a list of mappings -/

theorem ym_TM_append (a b : ym_YPairs) (acc : RFields) :
    yamlTranslateMerges (a ++ b) acc = (yamlTranslateMerges a acc >>= yamlTranslateMerges b) := by
  induction a generalizing acc with
  | nil => rw [List.nil_append, ym_TM_nil, s_bind_ok]
  | cons p a ih =>
    obtain ⟨k, v⟩ := p
    by_cases hk : k = "<<"
    · subst hk
      rw [List.cons_append, ym_TM_cons_merge, ym_TM_cons_merge]
      cases yamlTranslate v >>= yamlMergeInto acc with
      | error e => rfl
      | ok acc' => rw [s_bind_ok, s_bind_ok, ih]
    · rw [List.cons_append, ym_TM_cons_other _ _ _ _ hk, ym_TM_cons_other _ _ _ _ hk, ih]

/-- if the `<<` entries before it are fine and its own value translates, a `<<` whose value is
    not a mapping or a sequence of mappings makes the mapping `invalidType` -/
theorem ym_merge_bad_value (pre post : ym_YPairs) (v : YNode) (r : Raw) (acc : RFields)
    (hpre : yamlTranslateMerges pre [] = .ok acc) (hv : yamlTranslate v = .ok r)
    (hm : ym_mergeable v = false) :
    yamlTranslate (.mapping (pre ++ ("<<", v) :: post)) = .error .invalidType := by
  rw [yamlTranslate_mapping, ym_TM_append, hpre, s_bind_ok, ym_TM_cons_merge, hv, s_bind_ok]
  obtain ⟨h1, h2⟩ := ym_mergeInto_ok v r acc hv
  rw [hm] at h1
  cases hmi : yamlMergeInto acc r with
  | ok d => rw [hmi] at h1; cases h1
  | error e => rw [h2 e hmi]; rfl

end Bkl
