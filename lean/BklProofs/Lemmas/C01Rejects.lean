/-
  BklProofs.Lemmas.C01Rejects — one-step "fails iff" characterisations of the five mutually
  recursive merge functions, used by the recursive accept/reject boundary `Rejects` of C01, and
  the commutation lemma for patches that touch different keys.

  Every lemma here is about the model functions only; the specification predicate `Rejects`
  lives in BklProofs/C01.lean.
-/
import BklProofs.Lemmas.MergeWF
namespace Bkl

/-! ## small facts -/

theorem toStr_eq_delete_iff {v : Val} : v.toStr = "$delete" ↔ v = .str "$delete" := by
  cases v <;> simp [Val.toStr]

theorem length_pos_iff_ne_nil {α : Type} {l : List α} : l.length > 0 ↔ l ≠ [] :=
  List.length_pos_iff

/-- pointwise relation between two lists of the same length (core has no `List.Forall₂`) -/
inductive Pointwise {α β : Type} (R : α → β → Prop) : List α → List β → Prop
  | nil : Pointwise R [] []
  | cons {a : α} {b : β} {as : List α} {bs : List β} :
      R a b → Pointwise R as bs → Pointwise R (a :: as) (b :: bs)

theorem Pointwise.imp {α β : Type} {R S : α → β → Prop} (h : ∀ a b, R a b → S a b)
    {l : List α} {r : List β} (hp : Pointwise R l r) : Pointwise S l r := by
  induction hp with
  | nil => exact .nil
  | cons hab _ ih => exact .cons (h _ _ hab) ih

/-! ## `mapM` in `R` -/

theorem mapM_error_iff {α β : Type} (f : α → R β) (l : List α) :
    (∃ err, List.mapM f l = .error err) ↔ ∃ x ∈ l, ∃ err, f x = .error err := by
  induction l with
  | nil =>
    constructor
    · rintro ⟨e, h⟩; rw [mapM_nil] at h; cases h
    · rintro ⟨x, hx, _⟩; cases hx
  | cons a tl ih =>
    rw [mapM_cons]
    cases ha : f a with
    | error e =>
      simp only []
      exact ⟨fun _ => ⟨a, List.mem_cons_self, e, ha⟩, fun _ => ⟨e, rfl⟩⟩
    | ok b =>
      simp only []
      cases htl : List.mapM f tl with
      | error e =>
        simp only []
        rw [htl] at ih
        obtain ⟨x, hx, err, hxe⟩ := ih.1 ⟨e, rfl⟩
        exact ⟨fun _ => ⟨x, List.mem_cons_of_mem _ hx, err, hxe⟩, fun _ => ⟨e, rfl⟩⟩
      | ok bs =>
        simp only []
        rw [htl] at ih
        constructor
        · rintro ⟨err, h⟩; cases h
        · rintro ⟨x, hx, err, hxe⟩
          rcases List.mem_cons.1 hx with rfl | hx
          · rw [ha] at hxe; cases hxe
          · obtain ⟨err', h'⟩ := ih.2 ⟨x, hx, err, hxe⟩
            cases h'

theorem mapM_ok_iff_pointwise {α β : Type} (f : α → R β) (l : List α) (r : List β) :
    List.mapM f l = .ok r ↔ Pointwise (fun a b => f a = .ok b) l r := by
  induction l generalizing r with
  | nil =>
    rw [mapM_nil]
    constructor
    · intro h; cases h; exact .nil
    · intro h; cases h; rfl
  | cons a tl ih =>
    rw [mapM_cons]
    constructor
    · intro h
      split at h
      · cases h
      · rename_i b hb
        split at h
        · cases h
        · rename_i bs hbs
          cases h
          exact .cons hb ((ih bs).1 hbs)
    · intro h
      cases h with
      | cons hab htl =>
        rw [hab]
        simp only []
        rw [(ih _).2 htl]

/-! ## maps -/

/-- `mergeMapMap` fails iff there is no `$replace: true` and some entry of the (key-sorted) patch
    is a `$delete` of an absent key or recursively fails against the value it overrides. -/
theorem mergeMapMap_error_iff {d s : Fields} (hs : Fields.SortedKeys s) :
    (∃ err, mergeMapMap d s = .error err) ↔
      fhasBool s "$replace" true = false ∧
      ∃ k v, fget s k = some v ∧
        ((v = .str "$delete" ∧ fget d k = none) ∨
         (v ≠ .str "$delete" ∧ ∃ e, fget d k = some e ∧ ∃ err, merge e v = .error err)) := by
  cases hrep : fhasBool s "$replace" true with
  | true =>
    rw [mergeMapMap_replace hrep]
    constructor
    · rintro ⟨err, h⟩; cases h
    · rintro ⟨h, _⟩; cases h
  | false =>
    rw [mergeMapMap_noreplace hrep]
    have := mergeFields_error_iff (d := d) hs
    unfold badEntry at this
    simp only [ne_eq, toStr_eq_delete_iff] at this
    simp only [true_and, ne_eq]
    rw [← this]
    cases mergeFields d s with
    | error e => simp [Except.map]
    | ok rm => simp [Except.map]

/-! ## lists: the `$replace` pre-pass -/

/-- the only way the `popListMapBool` fold fails: a marker entry carrying other keys -/
theorem foldlM_popStep_error {k : String} {b : Bool} {l acc : List Val} {e : Err}
    (h : List.foldlM (popStep k b) acc l = .error e) :
    ∃ m, Val.map m ∈ l ∧ fhasBool m k b = true ∧ (fdel m k).length > 0 := by
  induction l generalizing acc with
  | nil => rw [foldlM_nil] at h; cases h
  | cons a tl ih =>
    rw [foldlM_cons] at h
    split at h
    · rename_i e' hp
      unfold popStep at hp
      split at hp
      · rename_i m
        split at hp
        · rename_i hm
          split at hp
          · rename_i hlen
            exact ⟨m, List.mem_cons_self, hm, hlen⟩
          · cases hp
        · cases hp
      · cases hp
    · obtain ⟨m, hm, h1, h2⟩ := ih h
      exact ⟨m, List.mem_cons_of_mem _ hm, h1, h2⟩

theorem any_replace_eq_false_iff {s : List Val} :
    s.any (fun x => x == Val.str "$replace") = false ↔ Val.str "$replace" ∉ s := by
  rw [List.any_eq_false]
  constructor
  · intro h hm
    exact h _ hm (by simp)
  · intro h x hx hb
    exact h ((eq_of_beq hb) ▸ hx)

theorem hasListMapBool_eq_false_iff {s : List Val} {k : String} {b : Bool} :
    hasListMapBool s k b = false ↔ ∀ m, Val.map m ∈ s → fhasBool m k b = false := by
  rw [hasListMapBool_eq, List.any_eq_false]
  constructor
  · intro h m hm
    have := h _ hm
    simpa [isMarker] using this
  · intro h x hx
    cases x with
    | map m => simp [isMarker, h m hx]
    | _ => simp [isMarker]

/-- `mergeListList` fails iff the patch has no `"$replace"` string and either a `$replace: true`
    marker entry carries other keys, or there is no marker and the entry walk fails. -/
theorem mergeListList_error_iff (d s : List Val) :
    (∃ err, mergeListList d s = .error err) ↔
      Val.str "$replace" ∉ s ∧
      ((∃ m, Val.map m ∈ s ∧ fhasBool m "$replace" true = true ∧ fdel m "$replace" ≠ []) ∨
       ((∀ m, Val.map m ∈ s → fhasBool m "$replace" true = false) ∧
        ∃ err, mergeEntries (dropRequired d) s = .error err)) := by
  cases hany : s.any (fun x => x == Val.str "$replace") with
  | true =>
    rw [mergeListList_replace_string d hany]
    constructor
    · rintro ⟨err, h⟩; cases h
    · rintro ⟨h, _⟩
      have := any_replace_eq_false_iff.2 h
      rw [hany] at this; cases this
  | false =>
    have hnot := any_replace_eq_false_iff.1 hany
    rw [mergeListList_no_string d hany, popListMapBool_eq]
    cases hhas : hasListMapBool s "$replace" true with
    | false =>
      have hno := hasListMapBool_eq_false_iff.1 hhas
      simp only [if_true]
      constructor
      · rintro ⟨err, h⟩
        refine ⟨hnot, Or.inr ⟨hno, ?_⟩⟩
        cases hme : mergeEntries (dropRequired d) s with
        | error e => exact ⟨e, rfl⟩
        | ok r => rw [hme] at h; cases h
      · rintro ⟨_, h | ⟨_, err, h⟩⟩
        · obtain ⟨m, hm, h1, _⟩ := h
          rw [hno m hm] at h1; cases h1
        · rw [h]; exact ⟨err, rfl⟩
    | true =>
      simp only [Bool.true_eq_false, if_false]
      cases hf : List.foldlM (popStep "$replace" true) [] s with
      | error e =>
        simp only []
        obtain ⟨m, hm, h1, h2⟩ := foldlM_popStep_error hf
        exact ⟨fun _ => ⟨hnot, Or.inl ⟨m, hm, h1, length_pos_iff_ne_nil.1 h2⟩⟩,
          fun _ => ⟨e, rfl⟩⟩
      | ok rest =>
        simp only [if_true]
        constructor
        · rintro ⟨err, h⟩; cases h
        · rintro ⟨_, h | ⟨hno, _⟩⟩
          · obtain ⟨m, hm, h1, h2⟩ := h
            rw [foldlM_popStep_extra [] hm h1 (length_pos_iff_ne_nil.2 h2)] at hf
            cases hf
          · rw [hasListMapBool_eq_false_iff.2 hno] at hhas; cases hhas

/-! ## lists: the entry walk -/

/-- an entry that is not a map, or a map with neither a `$delete` nor a `$match` key, is
    appended to the accumulated list -/
theorem mergeEntries_skip {v : Val} (d rest : List Val)
    (hp : ∀ kvs, v = .map kvs → fget kvs "$delete" = none ∧ fget kvs "$match" = none) :
    mergeEntries d (v :: rest) = mergeEntries (d ++ [v]) rest := by
  cases v with
  | map kvs => exact mergeEntries_map_plain d rest (hp kvs rfl).1 (hp kvs rfl).2
  | _ => exact mergeEntries_nonmap d rest rfl

theorem any_eq_false_iff_forall {d : List Val} {p : Val → Bool} :
    d.any p = false ↔ ∀ e ∈ d, p e = false := by
  rw [List.any_eq_false]
  constructor
  · intro h e he; simpa using h e he
  · intro h e he; simp [h e he]

/-- a `{$delete: pat, …}` entry -/
theorem mergeEntries_delete_error_iff {kvs : Fields} {pat : Val} (d rest : List Val)
    (h1 : fget kvs "$delete" = some pat) :
    (∃ err, mergeEntries d (.map kvs :: rest) = .error err) ↔
      fdel kvs "$delete" ≠ [] ∨ (∀ e ∈ d, matchV e pat = false) ∨
      (∃ err, mergeEntries (d.filter (fun e => !matchV e pat)) rest = .error err) := by
  by_cases hx : (fdel kvs "$delete").length > 0
  · rw [mergeEntries_delete_extra d rest h1 hx]
    exact ⟨fun _ => Or.inl (length_pos_iff_ne_nil.1 hx), fun _ => ⟨_, rfl⟩⟩
  · have hx0 : (fdel kvs "$delete").length = 0 := by omega
    have hnil : ¬ fdel kvs "$delete" ≠ [] := fun h => hx (length_pos_iff_ne_nil.2 h)
    rw [mergeEntries_delete d rest h1 hx0]
    cases hany : d.any (fun v => matchV v pat) with
    | true =>
      simp only [if_true]
      constructor
      · intro h; exact Or.inr (Or.inr h)
      · rintro (h | h | h)
        · exact absurd h hnil
        · rw [any_eq_false_iff_forall.2 h] at hany; cases hany
        · exact h
    | false =>
      simp only [Bool.false_eq_true, if_false]
      exact ⟨fun _ => Or.inr (Or.inl (any_eq_false_iff_forall.1 hany)), fun _ => ⟨_, rfl⟩⟩

/-- the value a `$match` entry merges into every matched element: its `$value` if it has one,
    otherwise the entry itself minus the `$match` key -/
def matchPatch (kvs : Fields) : Val :=
  match fget kvs "$value" with
  | some v2 => v2
  | none => .map (fdel kvs "$match")

theorem matchPatch_wf {kvs : Fields} (h : Val.WF (.map kvs)) : Val.WF (matchPatch kvs) := by
  unfold matchPatch
  split
  · rename_i v2 hv; exact wf_of_fget h hv
  · exact wf_fdel h

theorem matchPatch_sizeOf (kvs : Fields) : sizeOf (matchPatch kvs) ≤ sizeOf (Val.map kvs) := by
  unfold matchPatch
  split
  · rename_i v2 hv
    have := fget_sizeOf hv
    simp; omega
  · have := fdel_sizeOf kvs "$match"
    simp; omega

/-- how one element of the accumulated list is transformed by a `$match` entry -/
def matchRel (m upd : Val) (e e' : Val) : Prop :=
  if matchV e m = true then merge e upd = .ok e' else e' = e

theorem matchStep_error_iff (d : List Val) (m upd : Val) (rest : List Val) :
    (∃ err, matchStep d m upd rest = .error err) ↔
      (∀ e ∈ d, matchV e m = false) ∨
      (∃ e ∈ d, matchV e m = true ∧ ∃ err, merge e upd = .error err) ∨
      (∃ d', Pointwise (matchRel m upd) d d' ∧ ∃ err, mergeEntries d' rest = .error err) := by
  have hfe : ∀ x, (∃ err, (if matchV x m = true then merge x upd else pure x) = .error err) ↔
      (matchV x m = true ∧ ∃ err, merge x upd = .error err) := by
    intro x
    cases hm : matchV x m with
    | true => simp
    | false => simp [R_pure]
  have hfo : ∀ x y, (if matchV x m = true then merge x upd else pure x) = .ok y ↔
      matchRel m upd x y := by
    intro x y
    unfold matchRel
    cases hm : matchV x m with
    | true => simp
    | false =>
      simp only [Bool.false_eq_true, if_false, R_pure]
      constructor
      · intro h; cases h; rfl
      · intro h; rw [h]
  unfold matchStep
  cases hmap : List.mapM (fun e => if matchV e m = true then merge e upd else pure e) d with
  | error e =>
    simp only []
    obtain ⟨x, hx, hxe⟩ := (mapM_error_iff _ d).1 ⟨e, hmap⟩
    exact ⟨fun _ => Or.inr (Or.inl ⟨x, hx, (hfe x).1 hxe⟩), fun _ => ⟨e, rfl⟩⟩
  | ok d' =>
    simp only []
    have hpw : Pointwise (matchRel m upd) d d' :=
      ((mapM_ok_iff_pointwise _ d d').1 hmap).imp (fun a b h => (hfo a b).1 h)
    cases hany : d.any (fun e => matchV e m) with
    | false =>
      simp only [Bool.false_eq_true, if_false]
      exact ⟨fun _ => Or.inl (any_eq_false_iff_forall.1 hany), fun _ => ⟨_, rfl⟩⟩
    | true =>
      simp only [if_true]
      constructor
      · intro h; exact Or.inr (Or.inr ⟨d', hpw, h⟩)
      · rintro (h | ⟨x, hx, hxe⟩ | ⟨d'', hpw', h⟩)
        · rw [any_eq_false_iff_forall.2 h] at hany; cases hany
        · obtain ⟨err, herr⟩ := (mapM_error_iff
            (fun e => if matchV e m = true then merge e upd else pure e) d).2 ⟨x, hx, (hfe x).2 hxe⟩
          rw [hmap] at herr; cases herr
        · have := (mapM_ok_iff_pointwise _ d d'').2 (hpw'.imp (fun a b h => (hfo a b).2 h))
          rw [hmap] at this
          cases this
          exact h

/-- a `{$match: m, …}` entry (without `$delete`) -/
theorem mergeEntries_match_error_iff {kvs : Fields} {m : Val} (d rest : List Val)
    (h1 : fget kvs "$delete" = none) (h2 : fget kvs "$match" = some m) :
    (∃ err, mergeEntries d (.map kvs :: rest) = .error err) ↔
      (∃ v2, fget kvs "$value" = some v2 ∧ fdel (fdel kvs "$match") "$value" ≠ []) ∨
      (∀ e ∈ d, matchV e m = false) ∨
      (∃ e ∈ d, matchV e m = true ∧ ∃ err, merge e (matchPatch kvs) = .error err) ∨
      (∃ d', Pointwise (matchRel m (matchPatch kvs)) d d' ∧
        ∃ err, mergeEntries d' rest = .error err) := by
  have hval : fget (fdel kvs "$match") "$value" = fget kvs "$value" :=
    fget_fdel_ne _ _ _ (by decide)
  cases hv : fget kvs "$value" with
  | none =>
    have hp : matchPatch kvs = .map (fdel kvs "$match") := by simp [matchPatch, hv]
    rw [mergeEntries_match_novalue d rest h1 h2 (by rw [hval, hv]), matchStep_error_iff, hp]
    constructor
    · intro h; exact Or.inr h
    · rintro (⟨v2, h, _⟩ | h)
      · cases h
      · exact h
  | some v2 =>
    have hp : matchPatch kvs = v2 := by simp [matchPatch, hv]
    have hv' : fget (fdel kvs "$match") "$value" = some v2 := by rw [hval, hv]
    by_cases hx : (fdel (fdel kvs "$match") "$value").length > 0
    · rw [mergeEntries_match_value_extra d rest h1 h2 hv' hx]
      exact ⟨fun _ => Or.inl ⟨v2, rfl, length_pos_iff_ne_nil.1 hx⟩, fun _ => ⟨_, rfl⟩⟩
    · have hx0 : (fdel (fdel kvs "$match") "$value").length = 0 := by omega
      rw [mergeEntries_match_value d rest h1 h2 hv' hx0, matchStep_error_iff, hp]
      constructor
      · intro h; exact Or.inr h
      · rintro (⟨_, _, h⟩ | h)
        · exact absurd (length_pos_iff_ne_nil.2 h) hx
        · exact h

/-! ## sizes (for the induction on the size of the patch) -/

theorem sizeOf_lt_map_of_fget {s : Fields} {k : String} {v : Val} (h : fget s k = some v) :
    sizeOf v < sizeOf (Val.map s) := by
  have := fget_sizeOf h
  simp; omega

theorem sizeOf_lt_list_of_mem {s : List Val} {x : Val} (h : x ∈ s) :
    sizeOf x < sizeOf (Val.list s) := by
  have := List.sizeOf_lt_of_mem h
  simp; omega

/-! ## patches that touch different keys commute -/

/-- what `mapSpec` says about key `k` is a function of `fget d k` and `fget s k` -/
theorem mapSpec_unique {d d' s rm rm' : Fields} {k : String} (hd : fget d' k = fget d k)
    (h : mapSpec d s rm k) (h' : mapSpec d' s rm' k) : fget rm' k = fget rm k := by
  unfold mapSpec at h h'
  rw [hd] at h'
  cases hs : fget s k with
  | none => rw [hs] at h h'; simp only [] at h h'; rw [h, h']
  | some v =>
    rw [hs] at h h'
    simp only [] at h h'
    by_cases hv : v.toStr = "$delete"
    · rw [if_pos hv] at h h'; rw [h.2, h'.2]
    · rw [if_neg hv] at h h'
      cases hg : fget d k with
      | none => rw [hg] at h h'; simp only [] at h h'; rw [h, h']
      | some e =>
        rw [hg] at h h'
        simp only [] at h h'
        obtain ⟨r1, hm1, hr1⟩ := h
        obtain ⟨r2, hm2, hr2⟩ := h'
        rw [hm1] at hm2; cases hm2
        rw [hr1, hr2]

theorem mergeFields_ok_of_no_bad {d s : Fields} (hs : Fields.SortedKeys s)
    (h : ¬ ∃ k v, fget s k = some v ∧ badEntry d k v) : ∃ rm, mergeFields d s = .ok rm := by
  cases hm : mergeFields d s with
  | ok rm => exact ⟨rm, rfl⟩
  | error e => exact absurd ((mergeFields_error_iff hs).1 ⟨e, hm⟩) h

theorem mergeFields_no_bad_of_ok {d s rm : Fields} (hs : Fields.SortedKeys s)
    (h : mergeFields d s = .ok rm) : ¬ ∃ k v, fget s k = some v ∧ badEntry d k v := by
  intro hb
  obtain ⟨e, he⟩ := (mergeFields_error_iff hs).2 hb
  rw [h] at he; cases he

/-- if `s1` then `s2` succeeds and the patches share no key, `s2` then `s1` succeeds with the
    same result -/
theorem mergeFields_comm_ok {d s1 s2 r1 r : Fields} (hd : Fields.SortedKeys d)
    (hs1 : Fields.SortedKeys s1) (hs2 : Fields.SortedKeys s2)
    (hdisj : ∀ k, fget s1 k = none ∨ fget s2 k = none)
    (h1 : mergeFields d s1 = .ok r1) (h12 : mergeFields r1 s2 = .ok r) :
    ∃ r2, mergeFields d s2 = .ok r2 ∧ mergeFields r2 s1 = .ok r := by
  have s2_not_s1 : ∀ {k v}, fget s2 k = some v → fget s1 k = none := by
    intro k v hk
    rcases hdisj k with h | h
    · exact h
    · rw [h] at hk; cases hk
  have s1_not_s2 : ∀ {k v}, fget s1 k = some v → fget s2 k = none := by
    intro k v hk
    rcases hdisj k with h | h
    · rw [h] at hk; cases hk
    · exact h
  -- s2 applies to d
  obtain ⟨r2, h2⟩ : ∃ r2, mergeFields d s2 = .ok r2 := by
    apply mergeFields_ok_of_no_bad hs2
    rintro ⟨k, v, hk, hb⟩
    apply mergeFields_no_bad_of_ok hs2 h12
    exact ⟨k, v, hk, (badEntry_congr (mergeFields_frame (s2_not_s1 hk) h1)).2 hb⟩
  -- s1 applies to the result
  obtain ⟨r', h21⟩ : ∃ r', mergeFields r2 s1 = .ok r' := by
    apply mergeFields_ok_of_no_bad hs1
    rintro ⟨k, v, hk, hb⟩
    apply mergeFields_no_bad_of_ok hs1 h1
    exact ⟨k, v, hk, (badEntry_congr (mergeFields_frame (s1_not_s2 hk) h2)).1 hb⟩
  refine ⟨r2, h2, ?_⟩
  rw [h21]
  congr 1
  have hr1 := mergeFields_sorted hd h1
  have hr2 := mergeFields_sorted hd h2
  apply sorted_ext (mergeFields_sorted hr2 h21) (mergeFields_sorted hr1 h12)
  intro k
  have sp1 := mergeFields_spec hs1 h1 k
  have sp12 := mergeFields_spec hs2 h12 k
  have sp2 := mergeFields_spec hs2 h2 k
  have sp21 := mergeFields_spec hs1 h21 k
  rcases hdisj k with hk | hk
  · -- k is not a key of s1
    rw [mergeFields_frame hk h21]
    exact (mapSpec_unique (mergeFields_frame hk h1) sp2 sp12).symm
  · -- k is not a key of s2
    rw [mergeFields_frame hk h12]
    exact mapSpec_unique (mergeFields_frame hk h2) sp1 sp21

/-- the two-layer merge of map patches without `$replace: true`, as a `mergeFields` pipeline -/
theorem merge_two_layers {d s1 s2 : Fields} (hr1 : fhasBool s1 "$replace" true = false)
    (hr2 : fhasBool s2 "$replace" true = false) (r : Val) :
    (merge (.map d) (.map s1) >>= fun x => merge x (.map s2)) = .ok r ↔
      ∃ r1 r2, mergeFields d s1 = .ok r1 ∧ mergeFields r1 s2 = .ok r2 ∧ r = .map r2 := by
  rw [merge_map_map, mergeMapMap_noreplace hr1]
  cases h1 : mergeFields d s1 with
  | error e =>
    simp only [Except.map, R_bind_error]
    constructor
    · intro h; cases h
    · rintro ⟨_, _, h, _⟩; cases h
  | ok r1 =>
    simp only [Except.map, R_bind_ok]
    rw [merge_map_map, mergeMapMap_noreplace hr2]
    cases h2 : mergeFields r1 s2 with
    | error e =>
      simp only [Except.map]
      constructor
      · intro h; cases h
      · rintro ⟨_, _, h, h', _⟩; cases h; rw [h2] at h'; cases h'
    | ok r2 =>
      simp only [Except.map]
      constructor
      · intro h; cases h; exact ⟨r1, r2, rfl, h2, rfl⟩
      · rintro ⟨_, _, h, h', rfl⟩; cases h; rw [h2] at h'; cases h'; rfl

end Bkl
