/-
  BklProofs.Lemmas.Json — helper lemmas for the concrete JSON codec of Bkl/Json.lean:
  string escaping / unescaping, the number automaton, the parser run on the encoder's output,
  `normalize` of what the parser returns, and the instances of the abstract codec frameworks
  (`Codec` of Bkl/Stream.lean, `TextCodec` of BklProofs/Lemmas/C14Codec.lean).
-/
import Bkl.Json
import BklProofs.Lemmas.Stream
import BklProofs.Lemmas.C14Codec
namespace Bkl

/-! ## strings -/

theorem js_hex4_ctl : ∀ n, n < 32 →
    jsonHex4 '0' '0' (jsonHexDigit (n / 16)) (jsonHexDigit (n % 16)) = some n := by decide

theorem js_escapeChar_plain {c : Char} (h1 : c ≠ '"') (h2 : c ≠ '\\') (h3 : ¬ c.toNat < 32)
    (h4 : c ≠ ' ') (h5 : c ≠ ' ') : jsonEscapeChar c = [c] := by
  have e1 : c ≠ '\n' := by intro e; subst e; exact h3 (by decide)
  have e2 : c ≠ '\r' := by intro e; subst e; exact h3 (by decide)
  have e3 : c ≠ '\t' := by intro e; subst e; exact h3 (by decide)
  have e4 : c ≠ '\x08' := by intro e; subst e; exact h3 (by decide)
  have e5 : c ≠ '\x0c' := by intro e; subst e; exact h3 (by decide)
  simp only [jsonEscapeChar, h1, h2, e1, e2, e3, e4, e5, h3, h4, h5, if_false]

theorem js_escapeChar_ctl {c : Char} (h : c.toNat < 32) (e1 : c ≠ '\n') (e2 : c ≠ '\r')
    (e3 : c ≠ '\t') (e4 : c ≠ '\x08') (e5 : c ≠ '\x0c') :
    jsonEscapeChar c =
      ['\\', 'u', '0', '0', jsonHexDigit (c.toNat / 16), jsonHexDigit (c.toNat % 16)] := by
  have h1 : c ≠ '"' := by intro e; subst e; revert h; decide
  have h2 : c ≠ '\\' := by intro e; subst e; revert h; decide
  simp only [jsonEscapeChar, h1, h2, e1, e2, e3, e4, e5, h, if_false, if_true]

theorem js_parseStr_cons (c : Char) (rest : List Char) :
    jsonParseStr (c :: rest) =
      if c = '"' then some ([], rest)
      else if c = '\\' then
        match rest with
        | [] => none
        | e :: rest1 =>
          if e = 'u' then
            match rest1 with
            | a :: b :: c :: d :: rest2 =>
              match jsonHex4 a b c d with
              | none => none
              | some n =>
                if jsonIsSurrogate n then
                  match rest2 with
                  | e1 :: e2 :: a' :: b' :: c' :: d' :: rest3 =>
                    match (if e1 = '\\' ∧ e2 = 'u' then
                        (jsonHex4 a' b' c' d').bind (jsonSurrogatePair n) else none) with
                    | some ch => (jsonParseStr rest3).map fun p => (ch :: p.1, p.2)
                    | none => (jsonParseStr rest2).map fun p => ('\ufffd' :: p.1, p.2)
                  | _ => (jsonParseStr rest2).map fun p => ('\ufffd' :: p.1, p.2)
                else (jsonParseStr rest2).map fun p => (Char.ofNat n :: p.1, p.2)
            | _ => none
          else
            match jsonSimpleEscape e with
            | some ch => (jsonParseStr rest1).map fun p => (ch :: p.1, p.2)
            | none => none
      else if c.toNat < 32 then none
      else (jsonParseStr rest).map fun p => (c :: p.1, p.2) := by
  rw [jsonParseStr.eq_def]
  rfl

/-- one escaped character in front of anything is read back as that character -/
theorem js_parseStr_escapeChar (c : Char) (tl : List Char) :
    jsonParseStr (jsonEscapeChar c ++ tl) = (jsonParseStr tl).map fun p => (c :: p.1, p.2) := by
  by_cases h1 : c = '"'
  · subst h1; simp [jsonEscapeChar, js_parseStr_cons, jsonSimpleEscape]
  by_cases h2 : c = '\\'
  · subst h2; simp [jsonEscapeChar, js_parseStr_cons, jsonSimpleEscape]
  by_cases e1 : c = '\n'
  · subst e1; simp [jsonEscapeChar, js_parseStr_cons, jsonSimpleEscape]
  by_cases e2 : c = '\r'
  · subst e2; simp [jsonEscapeChar, js_parseStr_cons, jsonSimpleEscape]
  by_cases e3 : c = '\t'
  · subst e3; simp [jsonEscapeChar, js_parseStr_cons, jsonSimpleEscape]
  by_cases e4 : c = '\x08'
  · subst e4; simp [jsonEscapeChar, js_parseStr_cons, jsonSimpleEscape]
  by_cases e5 : c = '\x0c'
  · subst e5; simp [jsonEscapeChar, js_parseStr_cons, jsonSimpleEscape]
  by_cases h3 : c.toNat < 32
  · rw [js_escapeChar_ctl h3 e1 e2 e3 e4 e5]
    have hs : jsonIsSurrogate c.toNat = false := by
      simp only [jsonIsSurrogate, Bool.and_eq_false_iff, decide_eq_false_iff_not]; omega
    simp [js_parseStr_cons, js_hex4_ctl _ h3, hs]
  by_cases h4 : c = ' '
  · subst h4
    have : jsonHex4 '2' '0' '2' '8' = some 0x2028 := by decide
    simp [jsonEscapeChar, js_parseStr_cons, this, jsonIsSurrogate]
  by_cases h5 : c = ' '
  · subst h5
    have : jsonHex4 '2' '0' '2' '9' = some 0x2029 := by decide
    simp [jsonEscapeChar, js_parseStr_cons, this, jsonIsSurrogate]
  · rw [js_escapeChar_plain h1 h2 h3 h4 h5]
    simp [js_parseStr_cons, h1, h2, h3]

/-- the escaped text of `s` followed by a closing quote reads back as `s` -/
theorem js_parseStr_escape (s rest : List Char) :
    jsonParseStr (jsonEscape s ++ '"' :: rest) = some (s, rest) := by
  induction s with
  | nil => simp [jsonEscape, js_parseStr_cons]
  | cons c s ih =>
    have : jsonEscape (c :: s) ++ '"' :: rest =
        jsonEscapeChar c ++ (jsonEscape s ++ '"' :: rest) := by simp [jsonEscape]
    rw [this, js_parseStr_escapeChar, ih]
    rfl

theorem js_unescape_escape (s : List Char) : jsonUnescape (jsonEscape s) = some s := by
  simp only [jsonUnescape, js_parseStr_escape]

/-- a quoted string in front of anything: what follows the opening quote parses to the string -/
theorem js_quote_append (s rest : List Char) :
    jsonQuote s ++ rest = '"' :: (jsonEscape s ++ '"' :: rest) := by
  simp [jsonQuote]

/-! ## numbers -/

/-- the characters a number token is made of -/
def js_numChar (c : Char) : Bool :=
  c.isDigit || c = '-' || c = '+' || c = '.' || c = 'e' || c = 'E'

/-- the input after a number does not go on with a character a number could contain -/
def js_Stop (rest : List Char) : Prop := ∀ c t, rest = c :: t → js_numChar c = false

theorem js_step_numChar {st st' : JNumState} {c : Char} (h : jnumStep st c = some st') :
    js_numChar c = true := by
  by_cases hd : c.isDigit = true
  · simp [js_numChar, hd]
  · have h0 : c ≠ '0' := by intro e; subst e; exact hd (by decide)
    cases st <;> simp [jnumStep, hd, h0] at h <;> simp [js_numChar] <;> grind

theorem js_step_stop {st : JNumState} {c : Char} (h : js_numChar c = false) :
    jnumStep st c = none := by
  cases h' : jnumStep st c with
  | none => rfl
  | some st' => rw [js_step_numChar h'] at h; cases h

theorem js_scan_run : ∀ (lit : List Char) (st st' : JNumState) (rest : List Char),
    jnumRun st lit = some st' → jnumAccept st' = true → js_Stop rest →
    jsonScanNumber st (lit ++ rest) = some (lit, rest) := by
  intro lit
  induction lit with
  | nil =>
    intro st st' rest h ha hs
    simp only [jnumRun, Option.some.injEq] at h
    subst h
    cases rest with
    | nil => simp [jsonScanNumber, ha]
    | cons c t => simp [jsonScanNumber, js_step_stop (hs c t rfl), ha]
  | cons c cs ih =>
    intro st st' rest h ha hs
    simp only [jnumRun] at h
    cases hst : jnumStep st c with
    | none => rw [hst] at h; cases h
    | some st1 =>
      rw [hst] at h
      simp only [List.cons_append, jsonScanNumber, hst, ih st1 st' rest h ha hs, Option.map_some]

/-- a number token is not empty and starts with `-` or a digit -/
theorem js_tok_head {lit : List Char} {st : JNumState} (h : jnumRun .start lit = some st)
    (ha : jnumAccept st = true) : ∃ c t, lit = c :: t ∧ (c = '-' ∨ c.isDigit = true) := by
  cases lit with
  | nil => simp only [jnumRun, Option.some.injEq] at h; subst h; cases ha
  | cons c t =>
    refine ⟨c, t, rfl, ?_⟩
    simp only [jnumRun] at h
    cases hd : c.isDigit
    · by_cases hm : c = '-'
      · exact Or.inl hm
      · have : jnumStep .start c = none := by
          have h0 : c ≠ '0' := by intro e; subst e; revert hd; decide
          simp [jnumStep, hm, h0, hd]
        rw [this] at h; cases h
    · exact Or.inr rfl

theorem js_tok_numChars : ∀ (lit : List Char) (st st' : JNumState), jnumRun st lit = some st' →
    ∀ c ∈ lit, js_numChar c = true := by
  intro lit
  induction lit with
  | nil => intro _ _ _ c hc; cases hc
  | cons d ds ih =>
    intro st st' h c hc
    simp only [jnumRun] at h
    cases hst : jnumStep st d with
    | none => rw [hst] at h; cases h
    | some st1 =>
      rw [hst] at h
      rcases List.mem_cons.1 hc with e | hc
      · subst e; exact js_step_numChar hst
      · exact ih st1 st' h c hc

/-! ### the decimal text of an integer is a number token -/

theorem js_digitChar_lt10 : ∀ n, n < 10 → n ≠ 0 →
    (Nat.digitChar n).isDigit = true ∧ Nat.digitChar n ≠ '0' := by decide

/-- no leading zero -/
theorem js_toDigits_head (n : Nat) (hn : n ≠ 0) :
    ∃ c cs, Nat.toDigits 10 n = c :: cs ∧ c.isDigit = true ∧ c ≠ '0' := by
  induction n using Nat.strongRecOn with
  | _ n ih =>
    rw [Nat.toDigits_eq_if (by decide)]
    split
    · rename_i h
      exact ⟨_, [], rfl, js_digitChar_lt10 n h hn⟩
    · rename_i h
      obtain ⟨c, cs, e, h1, h2⟩ := ih (n / 10) (Nat.div_lt_self (by omega) (by decide))
        (by intro e; have := Nat.div_eq_zero_iff.1 e; omega)
      exact ⟨c, cs ++ [Nat.digitChar (n % 10)], by rw [e]; rfl, h1, h2⟩

theorem js_run_digits : ∀ (cs : List Char), (∀ d ∈ cs, d.isDigit = true) →
    jnumRun .int cs = some .int := by
  intro cs
  induction cs with
  | nil => intro _; rfl
  | cons c cs ih =>
    intro h
    have hc := h c List.mem_cons_self
    simp only [jnumRun, jnumStep, hc, if_true]
    exact ih (fun d hd => h d (List.mem_cons_of_mem _ hd))

theorem js_run_nat (n : Nat) : ∃ st, jnumRun .neg (Nat.toDigits 10 n) = some st ∧
    jnumRun .start (Nat.toDigits 10 n) = some st ∧ jnumAccept st = true := by
  by_cases hn : n = 0
  · subst hn; exact ⟨.zero, by decide, by decide, rfl⟩
  · obtain ⟨c, cs, e, h1, h2⟩ := js_toDigits_head n hn
    have hall : ∀ d ∈ cs, d.isDigit = true := fun d hd =>
      Nat.isDigit_of_mem_toDigits (b := 10) (n := n) (by decide) (by decide)
        (by rw [e]; exact List.mem_cons_of_mem _ hd)
    have hm : c ≠ '-' := by intro e'; subst e'; revert h1; decide
    refine ⟨.int, ?_, ?_, rfl⟩
    · rw [e]; simp only [jnumRun, jnumStep, h2, h1, if_false, if_true]; exact js_run_digits cs hall
    · rw [e]; simp only [jnumRun, jnumStep, hm, h2, h1, if_false, if_true]
      exact js_run_digits cs hall

theorem js_int_tok (i : Int) : ∃ st, jnumRun .start (jsonIntChars i) = some st ∧
    jnumAccept st = true := by
  unfold jsonIntChars
  split
  · obtain ⟨st, _, h, ha⟩ := js_run_nat i.toNat; exact ⟨st, h, ha⟩
  · obtain ⟨st, h, _, ha⟩ := js_run_nat (-i).toNat
    exact ⟨st, by simpa [jnumRun, jnumStep] using h, ha⟩

theorem js_intChars_toString (i : Int) : String.ofList (jsonIntChars i) = toString i := by
  rw [← String.ofList_toList (s := toString i), int_toString_toList]
  rfl

/-! ## what the encoder can write so that it reads back -/

/-- The hypothesis on the two float parameters at the `%v` text `r`: the literal written for it is
    a JSON number token that is not an integer token (it has a fraction or an exponent), and
    parsing that literal gives the float with `%v` text `r` back (`r ≠ ""`: the empty text is the
    model's mark for "strconv.ParseFloat failed", not the text of a float). -/
structure js_FloatOK (jf fol : String → String) (r : String) : Prop where
  tok : jsonNumberTok (jf r).toList = true
  frac : ∃ c ∈ (jf r).toList, c = '.' ∨ c = 'e' ∨ c = 'E'
  back : fol (jf r) = r
  ne : r ≠ ""

mutual
/-- every integer inside fits int64, every float text meets `js_FloatOK` -/
def js_NumsOK (jf fol : String → String) : Val → Prop
  | .int i => int64Min ≤ i ∧ i ≤ int64Max
  | .flt r => js_FloatOK jf fol r
  | .list xs => js_NumsOKList jf fol xs
  | .map kvs => js_NumsOKFields jf fol kvs
  | _ => True
def js_NumsOKList (jf fol : String → String) : List Val → Prop
  | [] => True
  | x :: xs => js_NumsOK jf fol x ∧ js_NumsOKList jf fol xs
def js_NumsOKFields (jf fol : String → String) : Fields → Prop
  | [] => True
  | (_, v) :: rest => js_NumsOK jf fol v ∧ js_NumsOKFields jf fol rest
end

/-! ### distinct keys

  The reader stores the members of an object into a Go map: of two members with the same key only
  the LATER one survives (`jsonParseMembers`).  So the text of a value reads back as that value only
  when no map inside it has two members with the same key.  Well-formed values (`Val.WF`: keys
  strictly sorted) meet this. -/

/-- no two entries of an association list have the same key -/
def js_keysDistinct {α : Type} : List (String × α) → Bool
  | [] => true
  | (k, _) :: rest => !(rest.any fun e => e.1 == k) && js_keysDistinct rest

mutual
/-- the keys of every map inside the value are pairwise distinct -/
def js_DistinctKeys : Val → Bool
  | .list xs => js_DistinctKeysList xs
  | .map kvs => js_keysDistinct kvs && js_DistinctKeysFields kvs
  | _ => true
def js_DistinctKeysList : List Val → Bool
  | [] => true
  | x :: xs => js_DistinctKeys x && js_DistinctKeysList xs
def js_DistinctKeysFields : Fields → Bool
  | [] => true
  | (_, v) :: rest => js_DistinctKeys v && js_DistinctKeysFields rest
end

mutual
/-- the same on what the reader returns -/
def js_RawDistinct : Raw → Bool
  | .list xs => js_RawDistinctList xs
  | .map kvs => js_keysDistinct kvs && js_RawDistinctFields kvs
  | .listOfMaps ms => js_RawDistinctMaps ms
  | _ => true
def js_RawDistinctList : List Raw → Bool
  | [] => true
  | x :: xs => js_RawDistinct x && js_RawDistinctList xs
def js_RawDistinctFields : List (String × Raw) → Bool
  | [] => true
  | (_, v) :: rest => js_RawDistinct v && js_RawDistinctFields rest
def js_RawDistinctMaps : List (List (String × Raw)) → Bool
  | [] => true
  | m :: ms => js_keysDistinct m && js_RawDistinctFields m && js_RawDistinctMaps ms
end

theorem js_any_key_false_iff {α : Type} (l : List (String × α)) (k : String) :
    (l.any fun e => e.1 == k) = false ↔ ∀ p ∈ l, p.1 ≠ k := by
  induction l with
  | nil => simp
  | cons p l ih => simp [List.any_cons, ih]

/-- the Bool predicate says that the list of keys has no duplicates -/
theorem js_keysDistinct_iff_nodup {α : Type} (l : List (String × α)) :
    js_keysDistinct l = true ↔ (l.map (·.1)).Nodup := by
  induction l with
  | nil => simp [js_keysDistinct]
  | cons p l ih =>
    obtain ⟨k, x⟩ := p
    simp only [js_keysDistinct, Bool.and_eq_true, Bool.not_eq_true', js_any_key_false_iff, ih,
      List.map_cons, List.nodup_cons, List.mem_map, not_exists, not_and]

/-- strictly sorted keys are pairwise distinct -/
theorem js_keysDistinct_of_sorted : ∀ (m : Fields), Fields.SortedKeys m → js_keysDistinct m = true
  | [], _ => rfl
  | (k, v) :: rest, h => by
    obtain ⟨h1, h2⟩ := sorted_cons_iff.1 h
    simp only [js_keysDistinct, Bool.and_eq_true, Bool.not_eq_true', js_any_key_false_iff]
    exact ⟨fun p hp => str_ne_of_gt (h1 p hp), js_keysDistinct_of_sorted rest h2⟩

mutual
/-- a well-formed value has pairwise distinct keys in every map -/
theorem js_distinct_of_wfB : ∀ (v : Val), v.wfB = true → js_DistinctKeys v = true
  | .null, _ | .bool _, _ | .int _, _ | .flt _, _ | .str _, _ => by simp [js_DistinctKeys]
  | .list xs, h => by
    simp only [Val.wfB] at h
    simp only [js_DistinctKeys]
    exact js_distinctList_of_wfB xs h
  | .map kvs, h => by
    simp only [Val.wfB, Bool.and_eq_true] at h
    simp only [js_DistinctKeys, Bool.and_eq_true]
    exact ⟨js_keysDistinct_of_sorted kvs (sortedKeysB_iff.1 h.1), js_distinctFields_of_wfB kvs h.2⟩
theorem js_distinctList_of_wfB : ∀ (l : List Val), Val.wfListB l = true →
    js_DistinctKeysList l = true
  | [], _ => rfl
  | x :: xs, h => by
    simp only [Val.wfListB, Bool.and_eq_true] at h
    simp only [js_DistinctKeysList, Bool.and_eq_true]
    exact ⟨js_distinct_of_wfB x h.1, js_distinctList_of_wfB xs h.2⟩
theorem js_distinctFields_of_wfB : ∀ (l : Fields), Val.wfFieldsB l = true →
    js_DistinctKeysFields l = true
  | [], _ => rfl
  | (k, v) :: rest, h => by
    simp only [Val.wfFieldsB, Bool.and_eq_true] at h
    simp only [js_DistinctKeysFields, Bool.and_eq_true]
    exact ⟨js_distinct_of_wfB v h.1, js_distinctFields_of_wfB rest h.2⟩
end

theorem js_distinct_of_wf {v : Val} (h : v.WF) : js_DistinctKeys v = true :=
  js_distinct_of_wfB v h

/-- the values the JSON codec represents exactly -/
def js_Repr (jf fol : String → String) (v : Val) : Prop := v.WF ∧ js_NumsOK jf fol v

mutual
/-- what the decoder returns for the text of `v` -/
def js_rawOf (jf fol : String → String) : Val → Raw
  | .null => .null
  | .bool b => .bool b
  | .int i => jsonNumberRaw fol (jsonIntChars i)
  | .flt r => jsonNumberRaw fol (jf r).toList
  | .str s => .str s
  | .list xs => .list (js_rawList jf fol xs)
  | .map kvs => .map (js_rawFields jf fol kvs)
def js_rawList (jf fol : String → String) : List Val → List Raw
  | [] => []
  | x :: xs => js_rawOf jf fol x :: js_rawList jf fol xs
def js_rawFields (jf fol : String → String) : Fields → List (String × Raw)
  | [] => []
  | (k, v) :: rest => (k, js_rawOf jf fol v) :: js_rawFields jf fol rest
end

theorem js_rawFields_any (jf fol : String → String) (k : String) : ∀ (l : Fields),
    ((js_rawFields jf fol l).any fun e => e.1 == k) = l.any fun e => e.1 == k
  | [] => by rw [js_rawFields]; rfl
  | (k', v) :: rest => by
    rw [js_rawFields, List.any_cons, List.any_cons, js_rawFields_any jf fol k rest]

theorem js_float_tok {jf fol : String → String} {r : String} (h : js_FloatOK jf fol r) :
    ∃ st, jnumRun .start (jf r).toList = some st ∧ jnumAccept st = true := by
  have := h.tok
  unfold jsonNumberTok at this
  cases hr : jnumRun .start (jf r).toList with
  | none => rw [hr] at this; cases this
  | some st => rw [hr] at this; exact ⟨st, rfl, this⟩

/-! ## the parser on the encoder's output -/

theorem js_skipWs_cons {c : Char} (h : jsonIsWs c = false) (rest : List Char) :
    jsonSkipWs (c :: rest) = c :: rest := by
  simp [jsonSkipWs, List.dropWhile, h]

theorem js_skipWs_ws {c : Char} (h : jsonIsWs c = true) (rest : List Char) :
    jsonSkipWs (c :: rest) = jsonSkipWs rest := by
  simp [jsonSkipWs, List.dropWhile, h]

/-- the characters a value can start with -/
def js_valueStart (c : Char) : Prop :=
  c = '-' ∨ c.isDigit = true ∨ c = '"' ∨ c = '[' ∨ c = '{' ∨ c = 'n' ∨ c = 't' ∨ c = 'f'

theorem js_valueStart_facts {c : Char} (h : js_valueStart c) :
    jsonIsWs c = false ∧ c ≠ ']' ∧ c ≠ '}' ∧ c ≠ ',' ∧ c ≠ ':' := by
  have hd : ∀ d : Char, d.isDigit = true →
      jsonIsWs d = false ∧ d ≠ ']' ∧ d ≠ '}' ∧ d ≠ ',' ∧ d ≠ ':' := by
    intro d hd
    refine ⟨?_, ?_, ?_, ?_, ?_⟩
    · have := isDigit_not_ws hd
      cases hw : jsonIsWs d
      · rfl
      · simp only [jsonIsWs, Bool.or_eq_true, decide_eq_true_eq] at hw
        rcases hw with ((hw | hw) | hw) | hw <;> (subst hw; revert hd; decide)
    all_goals (intro e; subst e; revert hd; decide)
  rcases h with h | h | h | h | h | h | h | h
  · subst h; decide
  · exact hd c h
  all_goals (subst h; decide)

theorem js_num_head_valueStart {c : Char} (h : c = '-' ∨ c.isDigit = true) : js_valueStart c := by
  rcases h with h | h
  · exact Or.inl h
  · exact Or.inr (Or.inl h)

/-- the text of a value is not empty and starts with a value-start character -/
theorem js_enc_head (jf fol : String → String) (v : Val) (hv : js_NumsOK jf fol v) :
    ∃ c t, jsonEncodeChars jf v = c :: t ∧ js_valueStart c := by
  cases v with
  | null => exact ⟨_, _, rfl, by simp [js_valueStart]⟩
  | bool b => cases b <;> exact ⟨_, _, rfl, by simp [js_valueStart]⟩
  | int i =>
    obtain ⟨st, h, ha⟩ := js_int_tok i
    obtain ⟨c, t, e, hc⟩ := js_tok_head h ha
    exact ⟨c, t, by rw [jsonEncodeChars, e], js_num_head_valueStart hc⟩
  | flt r =>
    obtain ⟨st, h, ha⟩ := js_float_tok (by simpa [js_NumsOK] using hv)
    obtain ⟨c, t, e, hc⟩ := js_tok_head h ha
    exact ⟨c, t, by rw [jsonEncodeChars, e], js_num_head_valueStart hc⟩
  | str s => exact ⟨_, _, rfl, by simp [js_valueStart]⟩
  | list xs => exact ⟨_, _, by rw [jsonEncodeChars], by simp [js_valueStart]⟩
  | map kvs => exact ⟨_, _, by rw [jsonEncodeChars], by simp [js_valueStart]⟩

theorem js_stop_cons {c : Char} (h : js_numChar c = false) (t : List Char) : js_Stop (c :: t) := by
  intro c' t' e
  injection e with e1 _
  subst e1; exact h

theorem js_stop_nil : js_Stop [] := by intro c t e; cases e

/-- a number literal in value position -/
theorem js_parse_number (fol : String → String) (lit : List Char) (st : JNumState)
    (h : jnumRun .start lit = some st) (ha : jnumAccept st = true) (fuel : Nat) (rest : List Char)
    (hs : js_Stop rest) :
    jsonParseValue fol (fuel + 1) (lit ++ rest) = .ok (jsonNumberRaw fol lit, rest) := by
  obtain ⟨c, t, e, hc⟩ := js_tok_head h ha
  have hscan := js_scan_run lit .start st rest h ha hs
  subst e
  rw [List.cons_append] at hscan ⊢
  rw [jsonParseValue.eq_2, js_skipWs_cons (js_valueStart_facts (js_num_head_valueStart hc)).1]
  simp only [hc, if_true, hscan]

theorem js_stripPrefix_append : ∀ (p rest : List Char), jsonStripPrefix p (p ++ rest) = some rest
  | [], rest => by cases rest <;> rfl
  | c :: p, rest => by simp [jsonStripPrefix, js_stripPrefix_append p rest]

theorem js_elemsTail_cons (jf : String → String) (y : Val) (ys : List Val) :
    jsonEncodeElemsTail jf (y :: ys) = ',' :: jsonEncodeElems jf (y :: ys) := by
  rw [jsonEncodeElemsTail, jsonEncodeElems]

theorem js_membersTail_cons (jf : String → String) (p : String × Val) (ps : Fields) :
    jsonEncodeMembersTail jf (p :: ps) = ',' :: jsonEncodeMembers jf (p :: ps) := by
  obtain ⟨k, v⟩ := p
  rw [jsonEncodeMembersTail, jsonEncodeMembers]

theorem js_fuel_succ {fuel n : Nat} (h : n + 1 ≤ fuel) : ∃ m, fuel = m + 1 := ⟨fuel - 1, by omega⟩

mutual
/-- the parser on the text of a value followed by `rest` returns the raw form of the value, and
    `rest` -/
theorem js_parse_enc (jf fol : String → String) : ∀ (v : Val) (fuel : Nat) (rest : List Char),
    js_NumsOK jf fol v → js_DistinctKeys v = true → (jsonEncodeChars jf v).length ≤ fuel →
    js_Stop rest →
    jsonParseValue fol fuel (jsonEncodeChars jf v ++ rest) = .ok (js_rawOf jf fol v, rest)
  | .null, fuel, rest, _, _, hf, _ => by
    obtain ⟨fuel, rfl⟩ := js_fuel_succ (fuel := fuel) (n := 3) (by simpa [jsonEncodeChars] using hf)
    rw [jsonEncodeChars, List.cons_append, jsonParseValue.eq_2, js_skipWs_cons (by decide)]
    have := js_stripPrefix_append ['u', 'l', 'l'] rest
    simp only [List.cons_append, List.nil_append] at this
    simp [this, js_rawOf]
  | .bool true, fuel, rest, _, _, hf, _ => by
    obtain ⟨fuel, rfl⟩ := js_fuel_succ (fuel := fuel) (n := 3) (by simpa [jsonEncodeChars] using hf)
    rw [jsonEncodeChars, List.cons_append, jsonParseValue.eq_2, js_skipWs_cons (by decide)]
    have := js_stripPrefix_append ['r', 'u', 'e'] rest
    simp only [List.cons_append, List.nil_append] at this
    simp [this, js_rawOf]
  | .bool false, fuel, rest, _, _, hf, _ => by
    obtain ⟨fuel, rfl⟩ := js_fuel_succ (fuel := fuel) (n := 4) (by simpa [jsonEncodeChars] using hf)
    rw [jsonEncodeChars, List.cons_append, jsonParseValue.eq_2, js_skipWs_cons (by decide)]
    have := js_stripPrefix_append ['a', 'l', 's', 'e'] rest
    simp only [List.cons_append, List.nil_append] at this
    simp [this, js_rawOf]
  | .int i, fuel, rest, _, _, hf, hs => by
    obtain ⟨st, h, ha⟩ := js_int_tok i
    obtain ⟨c, t, e, _⟩ := js_tok_head h ha
    rw [jsonEncodeChars] at hf ⊢
    obtain ⟨fuel, rfl⟩ := js_fuel_succ (fuel := fuel) (n := t.length) (by simpa [e] using hf)
    rw [js_parse_number fol _ st h ha fuel rest hs, js_rawOf]
  | .flt r, fuel, rest, hv, _, hf, hs => by
    obtain ⟨st, h, ha⟩ := js_float_tok (by simpa [js_NumsOK] using hv)
    obtain ⟨c, t, e, _⟩ := js_tok_head h ha
    rw [jsonEncodeChars] at hf ⊢
    obtain ⟨fuel, rfl⟩ := js_fuel_succ (fuel := fuel) (n := t.length) (by simpa [e] using hf)
    rw [js_parse_number fol _ st h ha fuel rest hs, js_rawOf]
  | .str s, fuel, rest, _, _, hf, _ => by
    rw [jsonEncodeChars] at hf ⊢
    obtain ⟨fuel, rfl⟩ := js_fuel_succ (fuel := fuel) (n := 0) (by simp [jsonQuote] at hf; omega)
    rw [js_quote_append, jsonParseValue.eq_2, js_skipWs_cons (by decide)]
    simp [js_parseStr_escape, js_rawOf, String.ofList_toList]
  | .list [], fuel, rest, _, _, hf, _ => by
    rw [jsonEncodeChars, jsonEncodeElems] at hf ⊢
    obtain ⟨fuel, rfl⟩ := js_fuel_succ (fuel := fuel) (n := 0) (by simp at hf; omega)
    rw [List.cons_append, jsonParseValue.eq_2, js_skipWs_cons (by decide)]
    simp [js_skipWs_cons (c := ']') (by decide), js_rawOf, js_rawList]
  | .list (x :: xs), fuel, rest, hv, hd, hf, _ => by
    rw [jsonEncodeChars] at hf ⊢
    obtain ⟨fuel, rfl⟩ := js_fuel_succ (fuel := fuel) (n := 0) (by simp at hf; omega)
    have hv' : js_NumsOKList jf fol (x :: xs) := by simpa [js_NumsOK] using hv
    have ih := js_parse_elems jf fol (x :: xs) fuel rest (by simp) hv'
      (by simpa [js_DistinctKeys] using hd) (by simp at hf; simpa using hf)
    obtain ⟨c, t, e, hc⟩ := js_enc_head jf fol x (by simp only [js_NumsOKList] at hv'; exact hv'.1)
    obtain ⟨h1, h2, _, _, _⟩ := js_valueStart_facts hc
    have e' : jsonEncodeElems jf (x :: xs) ++ rest =
        c :: (t ++ (jsonEncodeElemsTail jf xs ++ rest)) := by
      rw [jsonEncodeElems, e]; simp
    rw [List.cons_append, jsonParseValue.eq_2, js_skipWs_cons (by decide)]
    rw [e'] at ih ⊢
    simp [js_skipWs_cons h1, h2, ih, js_rawOf]
  | .map [], fuel, rest, _, _, hf, _ => by
    rw [jsonEncodeChars, jsonEncodeMembers] at hf ⊢
    obtain ⟨fuel, rfl⟩ := js_fuel_succ (fuel := fuel) (n := 0) (by simp at hf; omega)
    rw [List.cons_append, jsonParseValue.eq_2, js_skipWs_cons (by decide)]
    simp [js_skipWs_cons (c := '}') (by decide), js_rawOf, js_rawFields]
  | .map (p :: ps), fuel, rest, hv, hd, hf, _ => by
    rw [jsonEncodeChars] at hf ⊢
    obtain ⟨fuel, rfl⟩ := js_fuel_succ (fuel := fuel) (n := 0) (by simp at hf; omega)
    have hv' : js_NumsOKFields jf fol (p :: ps) := by simpa [js_NumsOK] using hv
    simp only [js_DistinctKeys, Bool.and_eq_true] at hd
    have ih := js_parse_members jf fol (p :: ps) fuel rest (by simp) hv' hd.1 hd.2
      (by simp at hf; simpa using hf)
    obtain ⟨k, v⟩ := p
    have e' : jsonEncodeMembers jf ((k, v) :: ps) ++ rest =
        '"' :: (jsonEscape k.toList ++ '"' :: (':' :: (jsonEncodeChars jf v ++
          (jsonEncodeMembersTail jf ps ++ rest)))) := by
      rw [jsonEncodeMembers]; simp [jsonQuote]
    rw [List.cons_append, jsonParseValue.eq_2, js_skipWs_cons (by decide)]
    rw [e'] at ih ⊢
    simp [js_skipWs_cons (c := '"') (by decide), ih, js_rawOf]
/-- … the same for the elements of a non-empty array up to and including the `]` -/
theorem js_parse_elems (jf fol : String → String) : ∀ (l : List Val) (fuel : Nat)
    (rest : List Char), l ≠ [] → js_NumsOKList jf fol l → js_DistinctKeysList l = true →
    (jsonEncodeElems jf l).length ≤ fuel →
    jsonParseElems fol fuel (jsonEncodeElems jf l ++ rest) = .ok (js_rawList jf fol l, rest)
  | [], _, _, hne, _, _, _ => absurd rfl hne
  | [x], fuel, rest, _, hv, hd, hf => by
    rw [jsonEncodeElems, jsonEncodeElemsTail] at hf ⊢
    obtain ⟨fuel, rfl⟩ := js_fuel_succ (fuel := fuel) (n := 0) (by simp at hf; omega)
    simp only [js_NumsOKList] at hv
    simp only [js_DistinctKeysList, Bool.and_eq_true] at hd
    have h1 := js_parse_enc jf fol x fuel (']' :: rest) hv.1 hd.1 (by simp at hf; omega)
      (js_stop_cons (by decide) _)
    rw [List.append_assoc, List.singleton_append, jsonParseElems.eq_2, h1]
    simp [js_skipWs_cons (c := ']') (by decide), js_rawList]
  | x :: y :: ys, fuel, rest, _, hv, hd, hf => by
    rw [jsonEncodeElems, js_elemsTail_cons] at hf ⊢
    obtain ⟨fuel, rfl⟩ := js_fuel_succ (fuel := fuel) (n := 0) (by simp at hf; omega)
    simp only [js_NumsOKList] at hv
    have hd' : js_DistinctKeys x = true ∧ js_DistinctKeysList (y :: ys) = true := by
      rw [js_DistinctKeysList, Bool.and_eq_true] at hd; exact hd
    have h1 := js_parse_enc jf fol x fuel (',' :: (jsonEncodeElems jf (y :: ys) ++ rest)) hv.1
      hd'.1 (by simp at hf; omega) (js_stop_cons (by decide) _)
    have h2 := js_parse_elems jf fol (y :: ys) fuel rest (by simp)
      (by simp only [js_NumsOKList]; exact hv.2) hd'.2 (by simp at hf; omega)
    rw [List.append_assoc, List.cons_append, jsonParseElems.eq_2, h1]
    simp [js_skipWs_cons (c := ',') (by decide), h2, js_rawList]
/-- … and for the members of a non-empty object up to and including the `}` -/
theorem js_parse_members (jf fol : String → String) : ∀ (l : Fields) (fuel : Nat)
    (rest : List Char), l ≠ [] → js_NumsOKFields jf fol l → js_keysDistinct l = true →
    js_DistinctKeysFields l = true → (jsonEncodeMembers jf l).length ≤ fuel →
    jsonParseMembers fol fuel (jsonEncodeMembers jf l ++ rest) = .ok (js_rawFields jf fol l, rest)
  | [], _, _, hne, _, _, _, _ => absurd rfl hne
  | [(k, v)], fuel, rest, _, hv, _, hd, hf => by
    rw [jsonEncodeMembers, jsonEncodeMembersTail] at hf ⊢
    obtain ⟨fuel, rfl⟩ := js_fuel_succ (fuel := fuel) (n := 0) (by simp [jsonQuote] at hf; omega)
    simp only [js_NumsOKFields] at hv
    simp only [js_DistinctKeysFields, Bool.and_eq_true] at hd
    have h1 := js_parse_enc jf fol v fuel ('}' :: rest) hv.1 hd.1
      (by simp [jsonQuote] at hf; omega)
      (js_stop_cons (by decide) _)
    have e' : jsonQuote k.toList ++ ':' :: (jsonEncodeChars jf v ++ ['}']) ++ rest =
        '"' :: (jsonEscape k.toList ++ '"' :: (':' :: (jsonEncodeChars jf v ++ '}' :: rest))) := by
      simp [jsonQuote]
    rw [e', jsonParseMembers.eq_2, js_skipWs_cons (by decide)]
    simp [js_parseStr_escape, js_skipWs_cons (c := ':') (by decide), h1,
      js_skipWs_cons (c := '}') (by decide), js_rawFields, String.ofList_toList]
  | (k, v) :: q :: qs, fuel, rest, _, hv, hk, hd, hf => by
    rw [jsonEncodeMembers, js_membersTail_cons] at hf ⊢
    obtain ⟨fuel, rfl⟩ := js_fuel_succ (fuel := fuel) (n := 0) (by simp [jsonQuote] at hf; omega)
    simp only [js_NumsOKFields] at hv
    have hd' : js_DistinctKeys v = true ∧ js_DistinctKeysFields (q :: qs) = true := by
      rw [js_DistinctKeysFields, Bool.and_eq_true] at hd; exact hd
    have hk' : ((q :: qs).any fun e => e.1 == k) = false ∧ js_keysDistinct (q :: qs) = true := by
      rw [js_keysDistinct, Bool.and_eq_true, Bool.not_eq_true'] at hk; exact hk
    have h1 := js_parse_enc jf fol v fuel (',' :: (jsonEncodeMembers jf (q :: qs) ++ rest)) hv.1
      hd'.1 (by simp [jsonQuote] at hf; omega) (js_stop_cons (by decide) _)
    have h2 := js_parse_members jf fol (q :: qs) fuel rest (by simp) hv.2 hk'.2 hd'.2
      (by simp [jsonQuote] at hf; omega)
    have hany : ((js_rawFields jf fol (q :: qs)).any fun e => e.1 == String.ofList k.toList)
        = false := by
      rw [String.ofList_toList, js_rawFields_any]; exact hk'.1
    have e' : jsonQuote k.toList ++ ':' :: (jsonEncodeChars jf v ++
          ',' :: jsonEncodeMembers jf (q :: qs)) ++ rest =
        '"' :: (jsonEscape k.toList ++ '"' :: (':' :: (jsonEncodeChars jf v ++
          ',' :: (jsonEncodeMembers jf (q :: qs) ++ rest)))) := by
      simp [jsonQuote]
    rw [e', jsonParseMembers.eq_2, js_skipWs_cons (by decide)]
    simp only [if_true, js_parseStr_escape, js_skipWs_cons (c := ':') (by decide), h1,
      js_skipWs_cons (c := ',') (by decide), h2, hany]
    simp [js_rawFields, String.ofList_toList]
end

/-! ## `normalize` of what the parser returns -/

theorem js_normalize_int (fol : String → String) (i : Int) (h1 : int64Min ≤ i)
    (h2 : i ≤ int64Max) : normalize (jsonNumberRaw fol (jsonIntChars i)) = .ok (.int i) := by
  rw [jsonNumberRaw, js_intChars_toString, normalize_jnum, parseInt64_toString i h1 h2]

theorem js_normalize_float {jf fol : String → String} {r : String} (h : js_FloatOK jf fol r) :
    normalize (jsonNumberRaw fol (jf r).toList) = .ok (.flt r) := by
  obtain ⟨c, hc, hc'⟩ := h.frac
  have hp : parseInt64 (jf r) = none := by
    apply parseInt64_none_of_bad_char (jf r) c hc <;>
      rcases hc' with e | e | e <;> subst e <;> decide
  have hne : r.isEmpty = false := by
    cases he : r.isEmpty
    · rfl
    · exact absurd (String.isEmpty_iff.1 he) h.ne
  rw [jsonNumberRaw, String.ofList_toList, normalize_jnum, hp, h.back]
  simp [hne]

mutual
theorem js_normalize_raw (jf fol : String → String) : ∀ (v : Val), v.wfB = true →
    js_NumsOK jf fol v → normalize (js_rawOf jf fol v) = .ok v
  | .null, _, _ => by rw [js_rawOf, normalize]; rfl
  | .bool b, _, _ => by rw [js_rawOf, normalize]; rfl
  | .int i, _, hv => by
    simp only [js_NumsOK] at hv
    rw [js_rawOf, js_normalize_int fol i hv.1 hv.2]
  | .flt r, _, hv => by
    simp only [js_NumsOK] at hv
    rw [js_rawOf, js_normalize_float hv]
  | .str s, _, _ => by rw [js_rawOf, normalize]; rfl
  | .list xs, hw, hv => by
    simp only [js_NumsOK] at hv
    simp only [Val.wfB] at hw
    rw [js_rawOf, normalize, js_normalizeList_raw jf fol xs hw hv]; rfl
  | .map kvs, hw, hv => by
    simp only [js_NumsOK] at hv
    simp only [Val.wfB, Bool.and_eq_true] at hw
    rw [js_rawOf, normalize_map, js_normalizeFields_raw jf fol kvs hw.2 hv]
    simp only [s_bind_ok, s_pure, e_fofList_sorted kvs hw.1]
theorem js_normalizeList_raw (jf fol : String → String) : ∀ (l : List Val),
    Val.wfListB l = true → js_NumsOKList jf fol l →
    normalizeList (js_rawList jf fol l) = .ok l
  | [], _, _ => by rw [js_rawList, normalizeList]; rfl
  | x :: xs, hw, hv => by
    simp only [js_NumsOKList] at hv
    simp only [Val.wfListB, Bool.and_eq_true] at hw
    rw [js_rawList, normalizeList, js_normalize_raw jf fol x hw.1 hv.1,
      js_normalizeList_raw jf fol xs hw.2 hv.2]; rfl
theorem js_normalizeFields_raw (jf fol : String → String) : ∀ (l : Fields),
    Val.wfFieldsB l = true → js_NumsOKFields jf fol l →
    normalizeFields (js_rawFields jf fol l) = .ok l
  | [], _, _ => by rw [js_rawFields, normalizeFields_nil]
  | (k, v) :: rest, hw, hv => by
    simp only [js_NumsOKFields] at hv
    simp only [Val.wfFieldsB, Bool.and_eq_true] at hw
    rw [js_rawFields, normalizeFields_cons, js_normalize_raw jf fol v hw.1 hv.1,
      js_normalizeFields_raw jf fol rest hw.2 hv.2]; rfl
end

/-! ## streams -/

theorem js_decodeDocs_ws (fol : String → String) (fuel : Nat) {c : Char} (h : jsonIsWs c = true)
    (cs : List Char) :
    jsonDecodeDocs fol (fuel + 1) (c :: cs) = jsonDecodeDocs fol (fuel + 1) cs := by
  rw [jsonDecodeDocs, jsonDecodeDocs, js_skipWs_ws h]

theorem js_decodeDocs_nil (fol : String → String) (fuel : Nat) :
    jsonDecodeDocs fol (fuel + 1) [] = .ok [] := by
  rw [jsonDecodeDocs]; rfl

/-- one document in front of the rest of a stream -/
theorem js_decodeDocs_doc (jf fol : String → String) (v : Val) (hv : js_NumsOK jf fol v)
    (hd : js_DistinctKeys v = true) (fuel : Nat) (rest : List Char) (hs : js_Stop rest) :
    jsonDecodeDocs fol (fuel + 1) (jsonEncodeChars jf v ++ rest) =
      match jsonDecodeDocs fol fuel rest with
      | .ok xs => .ok (js_rawOf jf fol v :: xs)
      | .error e => .error e := by
  obtain ⟨c, t, e, hc⟩ := js_enc_head jf fol v hv
  have h1 := js_parse_enc jf fol v (2 * (t ++ rest).length + 3) rest hv hd
    (by rw [e]; simp; omega) hs
  rw [e] at h1 ⊢
  rw [List.cons_append] at h1 ⊢
  rw [jsonDecodeDocs, js_skipWs_cons (js_valueStart_facts hc).1]
  simp only [h1]
  rfl

theorem js_decode_stream (jf fol : String → String) : ∀ (vs : List Val) (fuel : Nat),
    js_NumsOKList jf fol vs → js_DistinctKeysList vs = true → vs.length + 1 ≤ fuel →
    jsonDecodeDocs fol fuel (jsonEncodeStreamChars jf vs) = .ok (js_rawList jf fol vs) := by
  intro vs
  induction vs with
  | nil =>
    intro fuel _ _ hf
    obtain ⟨fuel, rfl⟩ := js_fuel_succ (fuel := fuel) (n := 0) (by simpa using hf)
    rw [jsonEncodeStreamChars, js_decodeDocs_nil, js_rawList]
  | cons v vs ih =>
    intro fuel hv hd hf
    simp only [js_NumsOKList] at hv
    simp only [js_DistinctKeysList, Bool.and_eq_true] at hd
    obtain ⟨fuel, rfl⟩ := js_fuel_succ (fuel := fuel) (n := 0) (by omega)
    obtain ⟨fuel, rfl⟩ := js_fuel_succ (fuel := fuel) (n := 0) (by simp at hf; omega)
    rw [jsonEncodeStreamChars, js_decodeDocs_doc jf fol v hv.1 hd.1 _ _ (js_stop_cons (by decide) _),
      js_decodeDocs_ws fol fuel (by decide), ih (fuel + 1) hv.2 hd.2 (by simp at hf; omega),
      js_rawList]

theorem js_stream_length (jf : String → String) : ∀ (vs : List Val),
    vs.length ≤ (jsonEncodeStreamChars jf vs).length
  | [] => by simp
  | v :: vs => by
    have := js_stream_length jf vs
    simp [jsonEncodeStreamChars]; omega

theorem js_numsOKList_of_forall (jf fol : String → String) : ∀ (vs : List Val),
    (∀ v ∈ vs, js_NumsOK jf fol v) → js_NumsOKList jf fol vs
  | [], _ => by simp [js_NumsOKList]
  | v :: vs, h => by
    simp only [js_NumsOKList]
    exact ⟨h v List.mem_cons_self,
      js_numsOKList_of_forall jf fol vs (fun w hw => h w (List.mem_cons_of_mem _ hw))⟩

theorem js_wfListB_of_forall : ∀ (vs : List Val), (∀ v ∈ vs, v.WF) → Val.wfListB vs = true
  | [], _ => rfl
  | v :: vs, h => by
    simp only [Val.wfListB, Bool.and_eq_true]
    exact ⟨h v List.mem_cons_self,
      js_wfListB_of_forall vs (fun w hw => h w (List.mem_cons_of_mem _ hw))⟩

/-- the stream round trip on the `String` level -/
theorem js_loadStream_encodeStream (jf fol : String → String) (vs : List Val)
    (h : ∀ v ∈ vs, js_Repr jf fol v) :
    jsonLoadStream fol (jsonEncodeStream jf vs) = .ok vs := by
  have h1 := js_numsOKList_of_forall jf fol vs (fun v hv => (h v hv).2)
  have h2 := js_wfListB_of_forall vs (fun v hv => (h v hv).1)
  have := js_stream_length jf vs
  rw [jsonLoadStream, jsonDecodeStream, jsonEncodeStream, String.toList_ofList,
    js_decode_stream jf fol vs _ h1 (js_distinctList_of_wfB vs h2) (by omega)]
  exact js_normalizeList_raw jf fol vs h2 h1

/-- one value, without the newline the stream writer adds -/
theorem js_load_encode (jf fol : String → String) (v : Val) (h : js_Repr jf fol v) :
    jsonLoad fol (jsonEncode jf v) = .ok v := by
  have hd : jsonDecodeDocs fol ((jsonEncodeChars jf v).length + 1) (jsonEncodeChars jf v) =
      .ok [js_rawOf jf fol v] := by
    obtain ⟨c, t, e, _⟩ := js_enc_head jf fol v h.2
    obtain ⟨fuel, hfu⟩ := js_fuel_succ (fuel := (jsonEncodeChars jf v).length) (n := 0)
      (by rw [e]; simp)
    have := js_decodeDocs_doc jf fol v h.2 (js_distinct_of_wf h.1) (fuel + 1) [] js_stop_nil
    rw [List.append_nil, js_decodeDocs_nil] at this
    rw [hfu, this]
  rw [jsonLoad, jsonLoadStream, jsonDecodeStream, jsonEncode, String.toList_ofList, hd]
  simp only [normalizeList, js_normalize_raw jf fol v h.1 h.2]
  rfl

/-- … and with it -/
theorem js_load_encodeStream_one (jf fol : String → String) (v : Val) (h : js_Repr jf fol v) :
    jsonLoad fol (jsonEncodeStream jf [v]) = .ok v := by
  rw [jsonLoad, js_loadStream_encodeStream jf fol [v] (by simpa using h)]

/-! ## the instances of the abstract frameworks -/

/-- the hypothesis of `json_rt` / `C05_json_stream_rt` for the concrete codec -/
theorem js_codec_ok (jf fol : String → String) : ∀ v, js_Repr jf fol v →
    ∃ l, (jsonCodec jf fol).enc v = .ok [l] ∧ (jsonCodec jf fol).dec [l] = .ok v :=
  fun v h => ⟨jsonEncode jf v, rfl, js_load_encode jf fol v h⟩

/-- the JSON codec as process2.go sees it: `MarshalStream([]any{v})`, `UnmarshalStream` +
    `normalize` -/
def js_textCodec (jf fol : String → String) : TextCodec where
  name := "json"
  isCodec := by simp [isCodecFormat]
  enc v := some (jsonEncodeStream jf [v])
  decs s :=
    match jsonLoadStream fol s with
    | .ok vs => some vs
    | .error _ => none
  repr := js_Repr jf fol
  rt := fun v h => ⟨jsonEncodeStream jf [v], rfl, by
    rw [js_loadStream_encodeStream jf fol [v] (by simpa using h)]⟩

/-! ## a JSON document is a single line -/

theorem js_hexDigit_ne_nl : ∀ n, n < 16 → jsonHexDigit n ≠ '\n' := by decide

theorem js_escapeChar_no_nl (c : Char) : '\n' ∉ jsonEscapeChar c := by
  by_cases h1 : c = '"'
  · subst h1; decide
  by_cases h2 : c = '\\'
  · subst h2; decide
  by_cases e1 : c = '\n'
  · subst e1; decide
  by_cases e2 : c = '\r'
  · subst e2; decide
  by_cases e3 : c = '\t'
  · subst e3; decide
  by_cases e4 : c = '\x08'
  · subst e4; decide
  by_cases e5 : c = '\x0c'
  · subst e5; decide
  by_cases h3 : c.toNat < 32
  · rw [js_escapeChar_ctl h3 e1 e2 e3 e4 e5]
    have a1 := js_hexDigit_ne_nl (c.toNat / 16) (by omega)
    have a2 := js_hexDigit_ne_nl (c.toNat % 16) (by omega)
    simp [Ne.symm a1, Ne.symm a2]
  by_cases h4 : c = '\u2028'
  · subst h4; decide
  by_cases h5 : c = '\u2029'
  · subst h5; decide
  · rw [js_escapeChar_plain h1 h2 h3 h4 h5]
    simpa using Ne.symm e1

theorem js_escape_no_nl (s : List Char) : '\n' ∉ jsonEscape s := by
  simp only [jsonEscape, List.mem_flatMap, not_exists, not_and]
  intro c _
  exact js_escapeChar_no_nl c

theorem js_quote_no_nl (s : List Char) : '\n' ∉ jsonQuote s := by
  have := js_escape_no_nl s
  simp [jsonQuote, this]

theorem js_intChars_no_nl (i : Int) : '\n' ∉ jsonIntChars i := by
  obtain ⟨st, h, _⟩ := js_int_tok i
  intro hm
  have := js_tok_numChars _ _ _ h _ hm
  revert this; decide

theorem js_float_no_nl {jf fol : String → String} {r : String} (h : js_FloatOK jf fol r) :
    '\n' ∉ (jf r).toList := by
  obtain ⟨st, h, _⟩ := js_float_tok h
  intro hm
  have := js_tok_numChars _ _ _ h _ hm
  revert this; decide

mutual
theorem js_enc_no_nl (jf fol : String → String) : ∀ (v : Val), js_NumsOK jf fol v →
    '\n' ∉ jsonEncodeChars jf v
  | .null, _ => by rw [jsonEncodeChars]; decide
  | .bool true, _ => by rw [jsonEncodeChars]; decide
  | .bool false, _ => by rw [jsonEncodeChars]; decide
  | .int i, _ => by rw [jsonEncodeChars]; exact js_intChars_no_nl i
  | .flt r, hv => by
    rw [jsonEncodeChars]; exact js_float_no_nl (by simpa [js_NumsOK] using hv)
  | .str s, _ => by rw [jsonEncodeChars]; exact js_quote_no_nl _
  | .list xs, hv => by
    rw [jsonEncodeChars]
    have := (js_elems_no_nl jf fol xs (by simpa [js_NumsOK] using hv)).1
    simp [this]
  | .map kvs, hv => by
    rw [jsonEncodeChars]
    have := (js_members_no_nl jf fol kvs (by simpa [js_NumsOK] using hv)).1
    simp [this]
theorem js_elems_no_nl (jf fol : String → String) : ∀ (l : List Val), js_NumsOKList jf fol l →
    '\n' ∉ jsonEncodeElems jf l ∧ '\n' ∉ jsonEncodeElemsTail jf l
  | [], _ => by rw [jsonEncodeElems, jsonEncodeElemsTail]; decide
  | x :: xs, hv => by
    simp only [js_NumsOKList] at hv
    have h1 := js_enc_no_nl jf fol x hv.1
    have h2 := (js_elems_no_nl jf fol xs hv.2).2
    rw [jsonEncodeElems, jsonEncodeElemsTail]
    simp [h1, h2]
theorem js_members_no_nl (jf fol : String → String) : ∀ (l : Fields), js_NumsOKFields jf fol l →
    '\n' ∉ jsonEncodeMembers jf l ∧ '\n' ∉ jsonEncodeMembersTail jf l
  | [], _ => by rw [jsonEncodeMembers, jsonEncodeMembersTail]; decide
  | (k, v) :: rest, hv => by
    simp only [js_NumsOKFields] at hv
    have h1 := js_enc_no_nl jf fol v hv.1
    have h2 := (js_members_no_nl jf fol rest hv.2).2
    have h3 := js_quote_no_nl k.toList
    rw [jsonEncodeMembers, jsonEncodeMembersTail]
    simp [h1, h2, h3]
end

/-- the text of a stream is its documents' texts, each followed by a newline -/
theorem js_stream_eq_lines (jf : String → String) : ∀ (vs : List Val),
    jsonEncodeStreamChars jf vs = (vs.map fun v => jsonEncodeChars jf v ++ ['\n']).flatten
  | [] => rfl
  | v :: vs => by
    rw [jsonEncodeStreamChars, js_stream_eq_lines jf vs]; simp

/-! ## evaluation (`dropNulls`) keeps a value representable -/

mutual
theorem js_numsOK_dropNulls (jf fol : String → String) : ∀ (v : Val), js_NumsOK jf fol v →
    js_NumsOK jf fol (dropNulls v)
  | .null, h | .bool _, h | .int _, h | .flt _, h | .str _, h => by rw [dropNulls]; exact h
  | .list xs, h => by
    rw [dropNulls]; simp only [js_NumsOK] at h ⊢
    exact js_numsOKList_dropNulls jf fol xs h
  | .map kvs, h => by
    rw [dropNulls]; simp only [js_NumsOK] at h ⊢
    exact js_numsOKFields_dropNulls jf fol kvs h
theorem js_numsOKList_dropNulls (jf fol : String → String) : ∀ (l : List Val),
    js_NumsOKList jf fol l → js_NumsOKList jf fol (dropNullsList l)
  | [], h => by rw [dropNullsList]; exact h
  | x :: xs, h => by
    simp only [js_NumsOKList] at h
    rw [dropNullsList]
    split
    · exact js_numsOKList_dropNulls jf fol xs h.2
    · simp only [js_NumsOKList]
      exact ⟨js_numsOK_dropNulls jf fol x h.1, js_numsOKList_dropNulls jf fol xs h.2⟩
theorem js_numsOKFields_dropNulls (jf fol : String → String) : ∀ (l : Fields),
    js_NumsOKFields jf fol l → js_NumsOKFields jf fol (dropNullsFields l)
  | [], h => by rw [dropNullsFields]; exact h
  | (k, v) :: rest, h => by
    simp only [js_NumsOKFields] at h
    rw [dropNullsFields]
    split
    · exact js_numsOKFields_dropNulls jf fol rest h.2
    · simp only [js_NumsOKFields]
      exact ⟨js_numsOK_dropNulls jf fol v h.1, js_numsOKFields_dropNulls jf fol rest h.2⟩
end

/-! ## a concrete pair of float parameters (for examples): identity except on three texts where
    encoding/json and `%v` differ -/

def js_demoJf (r : String) : String :=
  if r = "1e-07" then "1e-7" else if r = "1e-05" then "0.00001" else if r = "2" then "2.0" else r

def js_demoFol (l : String) : String :=
  if l = "1e-7" then "1e-07" else if l = "0.00001" then "1e-05" else if l = "2.0" then "2" else l

theorem js_demo_floatOK : ∀ r ∈ ["1.5", "1e+21", "1e-07", "1e-05", "2"],
    js_FloatOK js_demoJf js_demoFol r := by
  intro r hr
  simp only [List.mem_cons, List.mem_nil_iff, or_false] at hr
  rcases hr with rfl | rfl | rfl | rfl | rfl
  · exact ⟨by decide, ⟨'.', by decide, Or.inl rfl⟩, by decide, by decide⟩
  · exact ⟨by decide, ⟨'e', by decide, Or.inr (Or.inl rfl)⟩, by decide, by decide⟩
  · exact ⟨by decide, ⟨'e', by decide, Or.inr (Or.inl rfl)⟩, by decide, by decide⟩
  · exact ⟨by decide, ⟨'.', by decide, Or.inl rfl⟩, by decide, by decide⟩
  · exact ⟨by decide, ⟨'.', by decide, Or.inl rfl⟩, by decide, by decide⟩

/-- the value of the labelled test (observed on the real encoder) -/
def js_demoVal : Val :=
  .map [("", .str "x"),
    ("k\n", .list [.int 1, .flt "1.5", .flt "1e+21", .flt "1e-07", .flt "1e-05", .bool true, .null,
      .map [], .list []]),
    ("s", .str "a\"b\\c\n\r\t\x08\x0c\x01\x1f<>&\u2028\u2029é日😀")]

def js_demoText : String :=
  "{\"\":\"x\",\"k\\n\":[1,1.5,1e+21,1e-7,0.00001,true,null,{},[]],\"s\":\"a\\\"b\\\\c\\n\\r\\t\\b\\f\\u0001\\u001f<>&\\u2028\\u2029é日😀\"}"

theorem js_demoVal_repr : js_Repr js_demoJf js_demoFol js_demoVal := by
  refine ⟨by decide, ?_⟩
  simp only [js_demoVal, js_NumsOK, js_NumsOKFields, js_NumsOKList, and_true, true_and]
  exact ⟨by decide, js_demo_floatOK _ (by simp), js_demo_floatOK _ (by simp),
    js_demo_floatOK _ (by simp), js_demo_floatOK _ (by simp)⟩

/-! ## an integer of any size: what comes back is `normalize` of its literal -/

theorem js_decode_int (jf fol : String → String) (i : Int) :
    jsonDecodeStream fol (jsonEncode jf (.int i)) = .ok [jsonNumberRaw fol (jsonIntChars i)] := by
  obtain ⟨st, h, ha⟩ := js_int_tok i
  obtain ⟨c, t, e, hc⟩ := js_tok_head h ha
  have hp := js_parse_number fol _ st h ha (2 * t.length + 2) [] js_stop_nil
  rw [jsonDecodeStream, jsonEncode, String.toList_ofList, jsonEncodeChars]
  rw [List.append_nil] at hp
  rw [e] at hp ⊢
  rw [jsonDecodeDocs, js_skipWs_cons (js_valueStart_facts (js_num_head_valueStart hc)).1]
  simp only [hp, List.length_cons, js_decodeDocs_nil]

theorem js_parseInt64_out_of_range (i : Int) (h : ¬ (int64Min ≤ i ∧ i ≤ int64Max)) :
    parseInt64 (toString i) = none := by
  unfold parseInt64
  rw [goDecInt_toString]
  simp only [h, if_false]

/-- an integer outside int64 is written in full but read back as a float (or not at all) -/
theorem js_load_big_int (jf fol : String → String) (i : Int)
    (h : ¬ (int64Min ≤ i ∧ i ≤ int64Max)) :
    jsonLoad fol (jsonEncode jf (.int i)) =
      if (fol (toString i)).isEmpty then .error .other else .ok (.flt (fol (toString i))) := by
  rw [jsonLoad, jsonLoadStream, js_decode_int]
  simp only [normalizeList, jsonNumberRaw, js_intChars_toString, normalize_jnum,
    js_parseInt64_out_of_range i h]
  cases (fol (toString i)).isEmpty <;> rfl

/-! ## fuel: the parser never fails for lack of it -/

theorem js_map_some {α β : Type} {o : Option α} {f : α → β} {b : β} (h : o.map f = some b) :
    ∃ a, o = some a ∧ f a = b := by
  cases o with
  | none => cases h
  | some a => exact ⟨a, rfl, by simpa using h⟩

theorem js_parseStr_length : ∀ (n : Nat) (cs : List Char), cs.length ≤ n → ∀ s r,
    jsonParseStr cs = some (s, r) → r.length < cs.length := by
  intro n
  induction n with
  | zero =>
    intro cs hn s r h
    cases cs with
    | nil => rw [jsonParseStr] at h; cases h
    | cons c t => simp at hn
  | succ n ih =>
    intro cs hn s r h
    cases cs with
    | nil => rw [jsonParseStr] at h; cases h
    | cons c rest =>
      rw [js_parseStr_cons] at h
      have ih' : ∀ (t : List Char) (f : List Char × List Char → List Char × List Char),
          (jsonParseStr t).map f = some (s, r) → t.length ≤ rest.length →
          (∀ p, (f p).2 = p.2) → r.length < (c :: rest).length := by
        intro t f hm ht hf
        obtain ⟨p, hp, hfp⟩ := js_map_some hm
        have h1 := ih t (by simp at hn; omega) p.1 p.2 hp
        have h2 := hf p
        rw [hfp] at h2
        have h3 : r = p.2 := h2
        rw [h3]
        simp; omega
      split at h
      · simp at h; obtain ⟨_, rfl⟩ := h; simp
      · split at h
        · split at h
          · cases h
          · split at h
            · split at h
              · split at h
                · cases h
                · split at h
                  · split at h
                    · split at h
                      · exact ih' _ _ h (by simp only [List.length_cons]; omega) (fun _ => rfl)
                      · exact ih' _ _ h (by simp only [List.length_cons]; omega) (fun _ => rfl)
                    · exact ih' _ _ h (by simp only [List.length_cons]; omega) (fun _ => rfl)
                  · exact ih' _ _ h (by simp only [List.length_cons]; omega) (fun _ => rfl)
              · cases h
            · split at h
              · exact ih' _ _ h (by simp only [List.length_cons]; omega) (fun _ => rfl)
              · cases h
        · split at h
          · cases h
          · exact ih' _ _ h (Nat.le_refl _) (fun _ => rfl)

theorem js_skipWs_length (cs : List Char) : (jsonSkipWs cs).length ≤ cs.length :=
  (List.dropWhile_sublist _).length_le

theorem js_stripPrefix_length : ∀ (p cs r : List Char), jsonStripPrefix p cs = some r →
    r.length ≤ cs.length
  | [], cs, r, h => by simp [jsonStripPrefix] at h; subst h; exact Nat.le_refl _
  | _ :: _, [], r, h => by simp [jsonStripPrefix] at h
  | a :: p, c :: cs, r, h => by
    simp only [jsonStripPrefix] at h
    split at h
    · have := js_stripPrefix_length p cs r h; simp; omega
    · cases h

theorem js_scanNumber_length : ∀ (cs : List Char) (st : JNumState) (lit r : List Char),
    jsonScanNumber st cs = some (lit, r) → r.length ≤ cs.length := by
  intro cs
  induction cs with
  | nil =>
    intro st lit r h
    simp only [jsonScanNumber] at h
    split at h
    · simp at h; rw [← h.2]; exact Nat.le_refl _
    · cases h
  | cons c cs ih =>
    intro st lit r h
    simp only [jsonScanNumber] at h
    split at h
    · obtain ⟨p, hp, hfp⟩ := js_map_some h
      have := ih _ p.1 p.2 hp
      have e : r = p.2 := by simpa using (congrArg Prod.snd hfp).symm
      rw [e]; simp; omega
    · split at h
      · simp at h; rw [← h.2]; exact Nat.le_refl _
      · cases h

theorem js_scanNumber_start_length (cs lit r : List Char)
    (h : jsonScanNumber .start cs = some (lit, r)) : r.length < cs.length := by
  cases cs with
  | nil => simp [jsonScanNumber, jnumAccept] at h
  | cons c cs =>
    simp only [jsonScanNumber] at h
    split at h
    · obtain ⟨p, hp, hfp⟩ := js_map_some h
      have := js_scanNumber_length _ _ p.1 p.2 hp
      have e : r = p.2 := by simpa using (congrArg Prod.snd hfp).symm
      rw [e]; simp; omega
    · simp [jnumAccept] at h

theorem js_parse_length (fol : String → String) : ∀ (fuel : Nat),
    (∀ cs x r, jsonParseValue fol fuel cs = .ok (x, r) → r.length < cs.length) ∧
    (∀ cs xs r, jsonParseElems fol fuel cs = .ok (xs, r) → r.length ≤ cs.length) ∧
    (∀ cs kvs r, jsonParseMembers fol fuel cs = .ok (kvs, r) → r.length ≤ cs.length) := by
  intro fuel
  induction fuel with
  | zero =>
    refine ⟨?_, ?_, ?_⟩ <;> intro cs x r h
    · rw [jsonParseValue] at h; cases h
    · rw [jsonParseElems] at h; cases h
    · rw [jsonParseMembers] at h; cases h
  | succ fuel ih =>
    obtain ⟨ihV, ihE, ihM⟩ := ih
    refine ⟨?_, ?_, ?_⟩
    · intro cs x r h
      rw [jsonParseValue.eq_2] at h
      have hl := js_skipWs_length cs
      split at h
      · cases h
      · rename_i c rest heq
        rw [heq] at hl
        simp only [List.length_cons] at hl
        split at h
        · split at h
          · rename_i lit r' hs
            have := js_scanNumber_start_length _ _ _ hs
            simp only [Except.ok.injEq, Prod.mk.injEq] at h
            rw [← h.2]; simp only [List.length_cons] at this; omega
          · cases h
        · split at h
          · split at h
            · rename_i s r' hs
              have := js_parseStr_length _ _ (Nat.le_refl _) _ _ hs
              simp only [Except.ok.injEq, Prod.mk.injEq] at h
              rw [← h.2]; omega
            · cases h
          · split at h
            · have hl2 := js_skipWs_length rest
              split at h
              · cases h
              · rename_i d r' heq2
                rw [heq2] at hl2
                simp only [List.length_cons] at hl2
                split at h
                · simp only [Except.ok.injEq, Prod.mk.injEq] at h
                  rw [← h.2]; omega
                · split at h
                  · rename_i xs r'' he
                    have := ihE _ _ _ he
                    simp only [Except.ok.injEq, Prod.mk.injEq] at h
                    rw [← h.2]; simp only [List.length_cons] at this; omega
                  · cases h
            · split at h
              · have hl2 := js_skipWs_length rest
                split at h
                · cases h
                · rename_i d r' heq2
                  rw [heq2] at hl2
                  simp only [List.length_cons] at hl2
                  split at h
                  · simp only [Except.ok.injEq, Prod.mk.injEq] at h
                    rw [← h.2]; omega
                  · split at h
                    · rename_i xs r'' he
                      have := ihM _ _ _ he
                      simp only [Except.ok.injEq, Prod.mk.injEq] at h
                      rw [← h.2]; simp only [List.length_cons] at this; omega
                    · cases h
              · split at h
                · split at h
                  · rename_i r' hs
                    have := js_stripPrefix_length _ _ _ hs
                    simp only [Except.ok.injEq, Prod.mk.injEq] at h
                    rw [← h.2]; omega
                  · cases h
                · split at h
                  · split at h
                    · rename_i r' hs
                      have := js_stripPrefix_length _ _ _ hs
                      simp only [Except.ok.injEq, Prod.mk.injEq] at h
                      rw [← h.2]; omega
                    · cases h
                  · split at h
                    · split at h
                      · rename_i r' hs
                        have := js_stripPrefix_length _ _ _ hs
                        simp only [Except.ok.injEq, Prod.mk.injEq] at h
                        rw [← h.2]; omega
                      · cases h
                    · cases h
    · intro cs xs r h
      rw [jsonParseElems.eq_2] at h
      split at h
      · cases h
      · rename_i x r1 hv
        have h1 := ihV _ _ _ hv
        have hl := js_skipWs_length r1
        split at h
        · cases h
        · rename_i d r' heq
          rw [heq] at hl
          simp only [List.length_cons] at hl
          split at h
          · split at h
            · rename_i ys r'' he
              have := ihE _ _ _ he
              simp only [Except.ok.injEq, Prod.mk.injEq] at h
              rw [← h.2]; omega
            · cases h
          · split at h
            · simp only [Except.ok.injEq, Prod.mk.injEq] at h
              rw [← h.2]; omega
            · cases h
    · intro cs kvs r h
      rw [jsonParseMembers.eq_2] at h
      have hl := js_skipWs_length cs
      split at h
      · cases h
      · rename_i q r0 heq
        rw [heq] at hl
        simp only [List.length_cons] at hl
        split at h
        · split at h
          · cases h
          · rename_i k r1 hs
            have h1 := js_parseStr_length _ _ (Nat.le_refl _) _ _ hs
            have hl2 := js_skipWs_length r1
            split at h
            · cases h
            · rename_i col r2 heq2
              rw [heq2] at hl2
              simp only [List.length_cons] at hl2
              split at h
              · split at h
                · cases h
                · rename_i x r3 hv
                  have h3 := ihV _ _ _ hv
                  have hl3 := js_skipWs_length r3
                  split at h
                  · cases h
                  · rename_i d r4 heq3
                    rw [heq3] at hl3
                    simp only [List.length_cons] at hl3
                    split at h
                    · split at h
                      · rename_i ys r5 he
                        have := ihM _ _ _ he
                        split at h <;>
                          (simp only [Except.ok.injEq, Prod.mk.injEq] at h
                           rw [← h.2]; omega)
                      · cases h
                    · split at h
                      · simp only [Except.ok.injEq, Prod.mk.injEq] at h
                        rw [← h.2]; omega
                      · cases h
              · cases h
        · cases h

/-! ## duplicate keys: what the reader returns has pairwise distinct keys in every object -/

theorem js_parse_distinct (fol : String → String) : ∀ (fuel : Nat),
    (∀ cs x r, jsonParseValue fol fuel cs = .ok (x, r) → js_RawDistinct x = true) ∧
    (∀ cs xs r, jsonParseElems fol fuel cs = .ok (xs, r) → js_RawDistinctList xs = true) ∧
    (∀ cs kvs r, jsonParseMembers fol fuel cs = .ok (kvs, r) →
      js_keysDistinct kvs = true ∧ js_RawDistinctFields kvs = true) := by
  intro fuel
  induction fuel with
  | zero =>
    refine ⟨?_, ?_, ?_⟩ <;> intro cs x r h
    · rw [jsonParseValue] at h; cases h
    · rw [jsonParseElems] at h; cases h
    · rw [jsonParseMembers] at h; cases h
  | succ fuel ih =>
    obtain ⟨ihV, ihE, ihM⟩ := ih
    refine ⟨?_, ?_, ?_⟩
    · intro cs x r h
      rw [jsonParseValue.eq_2] at h
      split at h
      · cases h
      · split at h
        · split at h
          · simp only [Except.ok.injEq, Prod.mk.injEq] at h
            rw [← h.1]; simp [jsonNumberRaw, js_RawDistinct]
          · cases h
        · split at h
          · split at h
            · simp only [Except.ok.injEq, Prod.mk.injEq] at h
              rw [← h.1]; simp [js_RawDistinct]
            · cases h
          · split at h
            · split at h
              · cases h
              · split at h
                · simp only [Except.ok.injEq, Prod.mk.injEq] at h
                  rw [← h.1]; simp [js_RawDistinct, js_RawDistinctList]
                · split at h
                  · rename_i xs r'' he
                    have := ihE _ _ _ he
                    simp only [Except.ok.injEq, Prod.mk.injEq] at h
                    rw [← h.1]; simpa [js_RawDistinct] using this
                  · cases h
            · split at h
              · split at h
                · cases h
                · split at h
                  · simp only [Except.ok.injEq, Prod.mk.injEq] at h
                    rw [← h.1]; simp [js_RawDistinct, js_keysDistinct, js_RawDistinctFields]
                  · split at h
                    · rename_i kvs r'' he
                      have := ihM _ _ _ he
                      simp only [Except.ok.injEq, Prod.mk.injEq] at h
                      rw [← h.1]; simpa [js_RawDistinct] using this
                    · cases h
              · split at h
                · split at h
                  · simp only [Except.ok.injEq, Prod.mk.injEq] at h
                    rw [← h.1]; simp [js_RawDistinct]
                  · cases h
                · split at h
                  · split at h
                    · simp only [Except.ok.injEq, Prod.mk.injEq] at h
                      rw [← h.1]; simp [js_RawDistinct]
                    · cases h
                  · split at h
                    · split at h
                      · simp only [Except.ok.injEq, Prod.mk.injEq] at h
                        rw [← h.1]; simp [js_RawDistinct]
                      · cases h
                    · cases h
    · intro cs xs r h
      rw [jsonParseElems.eq_2] at h
      split at h
      · cases h
      · rename_i x r1 hv
        have hx := ihV _ _ _ hv
        split at h
        · cases h
        · split at h
          · split at h
            · rename_i ys r'' he
              have := ihE _ _ _ he
              simp only [Except.ok.injEq, Prod.mk.injEq] at h
              rw [← h.1]; simp [js_RawDistinctList, hx, this]
            · cases h
          · split at h
            · simp only [Except.ok.injEq, Prod.mk.injEq] at h
              rw [← h.1]; simp [js_RawDistinctList, hx]
            · cases h
    · intro cs kvs r h
      rw [jsonParseMembers.eq_2] at h
      split at h
      · cases h
      · split at h
        · split at h
          · cases h
          · split at h
            · cases h
            · split at h
              · split at h
                · cases h
                · rename_i x r3 hv
                  have hx := ihV _ _ _ hv
                  split at h
                  · cases h
                  · split at h
                    · split at h
                      · rename_i ys r5 he
                        obtain ⟨a, b⟩ := ihM _ _ _ he
                        split at h
                        · simp only [Except.ok.injEq, Prod.mk.injEq] at h
                          rw [← h.1]; exact ⟨a, b⟩
                        · rename_i hany
                          simp only [Except.ok.injEq, Prod.mk.injEq] at h
                          rw [← h.1]
                          simp only [Bool.not_eq_true] at hany
                          simp [js_keysDistinct, js_RawDistinctFields, hany, a, b, hx]
                      · cases h
                    · split at h
                      · simp only [Except.ok.injEq, Prod.mk.injEq] at h
                        rw [← h.1]; simp [js_keysDistinct, js_RawDistinctFields, hx]
                      · cases h
              · cases h
        · cases h

/-- whatever the input: the members `jsonParseMembers` returns have pairwise distinct keys -/
theorem js_parseMembers_nodup (fol : String → String) (fuel : Nat) (cs : List Char)
    (kvs : List (String × Raw)) (r : List Char)
    (h : jsonParseMembers fol fuel cs = .ok (kvs, r)) : (kvs.map (·.1)).Nodup :=
  (js_keysDistinct_iff_nodup kvs).1 ((js_parse_distinct fol fuel).2.2 cs kvs r h).1

/-- one member in front of more members: when the value's text parses to `x` and what follows the
    comma parses to the members `kvs`, the result is `kvs` alone if `kvs` already has the key —
    `x` is dropped unseen — and `(k, x) :: kvs` otherwise -/
theorem js_parseMembers_step (fol : String → String) (fuel : Nat) (k txt more : List Char)
    (x : Raw) (kvs : List (String × Raw)) (r : List Char)
    (hv : jsonParseValue fol fuel txt = .ok (x, ',' :: more))
    (hm : jsonParseMembers fol fuel more = .ok (kvs, r)) :
    jsonParseMembers fol (fuel + 1) (jsonQuote k ++ ':' :: txt) =
      .ok (if (kvs.any fun e => e.1 == String.ofList k) = true then kvs
           else (String.ofList k, x) :: kvs, r) := by
  rw [js_quote_append, jsonParseMembers.eq_2, js_skipWs_cons (by decide)]
  simp only [if_true, js_parseStr_escape, js_skipWs_cons (c := ':') (by decide), hv,
    js_skipWs_cons (c := ',') (by decide), hm]
  split <;> rfl

/-- float parameter of the duplicate-key tests: no float64 holds `-1e400` (`""` = ParseFloat
    failed); every other literal stands for itself -/
def js_dupFol (l : String) : String := if l = "-1e400" then "" else l

/-- `{"k":-1e400,"k":{}}` -/
def js_dupText1 : List Char :=
  ['{', '"', 'k', '"', ':', '-', '1', 'e', '4', '0', '0', ',', '"', 'k', '"', ':', '{', '}', '}']
/-- `{"k":-1e400}` -/
def js_dupText2 : List Char := ['{', '"', 'k', '"', ':', '-', '1', 'e', '4', '0', '0', '}']
/-- `{"a":1,"b":2,"a":3}` -/
def js_dupText3 : List Char :=
  ['{', '"', 'a', '"', ':', '1', ',', '"', 'b', '"', ':', '2', ',', '"', 'a', '"', ':', '3', '}']

theorem js_decodeDocs_distinct (fol : String → String) : ∀ (fuel : Nat) (cs : List Char)
    (xs : List Raw), jsonDecodeDocs fol fuel cs = .ok xs → js_RawDistinctList xs = true := by
  intro fuel
  induction fuel with
  | zero => intro cs xs h; rw [jsonDecodeDocs] at h; cases h
  | succ n ih =>
    intro cs xs h
    rw [jsonDecodeDocs] at h
    split at h
    · simp only [Except.ok.injEq] at h; rw [← h]; rfl
    · split at h
      · cases h
      · rename_i x r hv
        have hx := (js_parse_distinct fol _).1 _ _ _ hv
        split at h
        · rename_i ys he
          have := ih _ _ he
          simp only [Except.ok.injEq] at h
          rw [← h]; simp [js_RawDistinctList, hx, this]
        · cases h

theorem js_skipWs_cons_length {cs : List Char} {c : Char} {rest : List Char}
    (h : jsonSkipWs cs = c :: rest) : rest.length + 1 ≤ cs.length := by
  have := js_skipWs_length cs
  rw [h] at this
  simpa using this

theorem js_parse_stable (fol : String → String) : ∀ (fuel : Nat),
    (∀ cs, 2 * cs.length < fuel →
      jsonParseValue fol (fuel + 1) cs = jsonParseValue fol fuel cs) ∧
    (∀ cs, 2 * cs.length + 1 < fuel →
      jsonParseElems fol (fuel + 1) cs = jsonParseElems fol fuel cs) ∧
    (∀ cs, 2 * cs.length + 1 < fuel →
      jsonParseMembers fol (fuel + 1) cs = jsonParseMembers fol fuel cs) := by
  intro fuel
  induction fuel with
  | zero => exact ⟨fun cs h => by omega, fun cs h => by omega, fun cs h => by omega⟩
  | succ n ih =>
    obtain ⟨ihV, ihE, ihM⟩ := ih
    refine ⟨?_, ?_, ?_⟩
    · intro cs hf
      rw [jsonParseValue.eq_2 fol cs (n + 1), jsonParseValue.eq_2 fol cs n]
      cases heq : jsonSkipWs cs with
      | nil => rfl
      | cons c rest =>
        have hl := js_skipWs_cons_length heq
        simp only []
        split
        · rfl
        · split
          · rfl
          · split
            · cases heq2 : jsonSkipWs rest with
              | nil => rfl
              | cons d r =>
                have hl2 := js_skipWs_cons_length heq2
                simp only []
                rw [ihE (d :: r) (by simp only [List.length_cons]; omega)]
            · split
              · cases heq2 : jsonSkipWs rest with
                | nil => rfl
                | cons d r =>
                  have hl2 := js_skipWs_cons_length heq2
                  simp only []
                  rw [ihM (d :: r) (by simp only [List.length_cons]; omega)]
              · rfl
    · intro cs hf
      rw [jsonParseElems.eq_2 fol cs (n + 1), jsonParseElems.eq_2 fol cs n,
        ihV cs (by omega)]
      cases hv : jsonParseValue fol n cs with
      | error e => rfl
      | ok p =>
        obtain ⟨x, r⟩ := p
        have h1 := (js_parse_length fol n).1 _ _ _ hv
        simp only []
        cases heq : jsonSkipWs r with
        | nil => rfl
        | cons d r' =>
          have hl := js_skipWs_cons_length heq
          simp only []
          rw [ihE r' (by omega)]
    · intro cs hf
      rw [jsonParseMembers.eq_2 fol cs (n + 1), jsonParseMembers.eq_2 fol cs n]
      cases heq : jsonSkipWs cs with
      | nil => rfl
      | cons q r0 =>
        have hl := js_skipWs_cons_length heq
        simp only []
        split
        · cases hs : jsonParseStr r0 with
          | none => rfl
          | some p =>
            obtain ⟨k, r1⟩ := p
            have h1 := js_parseStr_length _ _ (Nat.le_refl _) _ _ hs
            simp only []
            cases heq2 : jsonSkipWs r1 with
            | nil => rfl
            | cons col r2 =>
              have hl2 := js_skipWs_cons_length heq2
              simp only []
              split
              · rw [ihV r2 (by omega)]
                cases hv : jsonParseValue fol n r2 with
                | error e => rfl
                | ok p =>
                  obtain ⟨x, r3⟩ := p
                  have h3 := (js_parse_length fol n).1 _ _ _ hv
                  simp only []
                  cases heq3 : jsonSkipWs r3 with
                  | nil => rfl
                  | cons d r4 =>
                    have hl3 := js_skipWs_cons_length heq3
                    simp only []
                    rw [ihM r4 (by omega)]
              · rfl
        · rfl

theorem js_parseValue_fuel (fol : String → String) (cs : List Char) : ∀ (fuel : Nat),
    2 * cs.length < fuel →
    jsonParseValue fol fuel cs = jsonParseValue fol (2 * cs.length + 1) cs := by
  intro fuel
  induction fuel with
  | zero => intro h; omega
  | succ n ih =>
    intro h
    by_cases e : n = 2 * cs.length
    · rw [e]
    · rw [(js_parse_stable fol n).1 cs (by omega), ih (by omega)]

theorem js_decodeDocs_stable (fol : String → String) : ∀ (fuel : Nat) (cs : List Char),
    cs.length < fuel → jsonDecodeDocs fol (fuel + 1) cs = jsonDecodeDocs fol fuel cs := by
  intro fuel
  induction fuel with
  | zero => intro cs h; omega
  | succ n ih =>
    intro cs h
    rw [jsonDecodeDocs, jsonDecodeDocs.eq_2 fol cs n]
    cases heq : jsonSkipWs cs with
    | nil => rfl
    | cons c cs' =>
      have hl := js_skipWs_cons_length heq
      simp only []
      cases hv : jsonParseValue fol (2 * cs'.length + 3) (c :: cs') with
      | error e => rfl
      | ok p =>
        obtain ⟨x, r⟩ := p
        have h1 := (js_parse_length fol _).1 _ _ _ hv
        simp only [List.length_cons] at h1
        simp only []
        rw [ih r (by omega)]

theorem js_decodeDocs_fuel (fol : String → String) (cs : List Char) : ∀ (fuel : Nat),
    cs.length < fuel → jsonDecodeDocs fol fuel cs = jsonDecodeDocs fol (cs.length + 1) cs := by
  intro fuel
  induction fuel with
  | zero => intro h; omega
  | succ n ih =>
    intro h
    by_cases e : n = cs.length
    · rw [e]
    · rw [js_decodeDocs_stable fol n cs (by omega), ih (by omega)]

end Bkl
