/-
  BklProofs.Lemmas.C02Files — the file loader (`Bkl/Files.lean`) meets stream layering
  (`mergeDocument`): two- and three-file filename chains whose files hold several documents.

  Everything here is stated on `mergeDocument` / `runMerges` / `parentsOf` directly (the
  `Selection` vocabulary of `BklProofs/C02.lean` is not available in a lemma file).
  All names are prefixed `fl_`.
-/
import BklProofs.Lemmas.C03Chain
import BklProofs.Lemmas.Parser
import BklProofs.Lemmas.Merge
set_option linter.unusedVariables false
namespace Bkl

/-! ## `Except` plumbing -/

theorem fl_mapM_append {α β : Type} (f : α → R β) : ∀ (l₁ l₂ : List α),
    (l₁ ++ l₂).mapM f =
      match l₁.mapM f with
      | .error e => .error e
      | .ok b₁ =>
        match l₂.mapM f with
        | .error e => .error e
        | .ok b₂ => .ok (b₁ ++ b₂)
  | [], l₂ => by
    rw [mapM_R_nil, List.nil_append]
    cases l₂.mapM f <;> rfl
  | a :: l₁, l₂ => by
    rw [List.cons_append, mapM_R_cons, mapM_R_cons, fl_mapM_append f l₁ l₂]
    cases f a with
    | error e => rfl
    | ok b =>
      cases l₁.mapM f with
      | error e => rfl
      | ok b₁ =>
        cases l₂.mapM f with
        | error e => rfl
        | ok b₂ => rfl

theorem fl_mapM_length {α β : Type} (f : α → R β) {l : List α} {l' : List β}
    (h : l.mapM f = .ok l') : l'.length = l.length :=
  (forall₂_length ((mapM_R_ok_iff f l l').1 h)).symm

theorem fl_foldlM_nil {α β : Type} (f : β → α → R β) (b : β) : ([] : List α).foldlM f b = .ok b :=
  rfl

theorem fl_foldlM_cons {α β : Type} (f : β → α → R β) (b : β) (a : α) (l : List α) :
    (a :: l).foldlM f b =
      match f b a with
      | .error e => .error e
      | .ok b' => l.foldlM f b' := by
  rw [List.foldlM_cons]
  cases f b a <;> rfl

theorem fl_runMerges_append (st : PState) (ds₁ ds₂ : List Doc) :
    runMerges st (ds₁ ++ ds₂) =
      match runMerges st ds₁ with
      | .error e => .error e
      | .ok st' => runMerges st' ds₂ := by
  unfold runMerges
  rw [List.foldlM_append]
  cases List.foldlM mergeDocument st ds₁ <;> rfl

/-- a run that succeeds passes through a state after every prefix -/
theorem fl_runMerges_take {ds : List Doc} {st st' : PState} (k : Nat)
    (h : runMerges st ds = .ok st') :
    ∃ s, runMerges st (ds.take k) = .ok s ∧ runMerges s (ds.drop k) = .ok st' := by
  rw [← List.take_append_drop k ds, fl_runMerges_append] at h
  cases hs : runMerges st (ds.take k) with
  | error e => rw [hs] at h; cases h
  | ok s =>
    rw [hs] at h
    refine ⟨s, rfl, ?_⟩
    simpa using h

/-! ## layering a list of patches onto every document of a list

  `fl_layerAll ds cs` is what happens row by row (every patch is merged into every document
  before the next patch is looked at); `ds.mapM (fun p => cs.foldlM merge p)` is the same
  column by column (document `i` = `merge (… (merge (merge pᵢ c₁) c₂) …) cₖ`). -/

def fl_layerAll (ds cs : List Val) : R (List Val) :=
  cs.foldlM (fun ds c => ds.mapM fun p => merge p c) ds

theorem fl_layerAll_nil (ds : List Val) : fl_layerAll ds [] = .ok ds := rfl

theorem fl_layerAll_cons (ds : List Val) (c : Val) (cs : List Val) :
    fl_layerAll ds (c :: cs) =
      match ds.mapM (fun p => merge p c) with
      | .error e => .error e
      | .ok ds' => fl_layerAll ds' cs := by
  unfold fl_layerAll
  rw [fl_foldlM_cons]
  cases ds.mapM (fun p => merge p c) <;> rfl

theorem fl_mapM_pure (ds : List Val) : ds.mapM (fun p => (.ok p : R Val)) = .ok ds := by
  induction ds with
  | nil => exact mapM_R_nil _
  | cons a l ih => rw [mapM_R_cons, ih]

/-- rows = columns, as far as success and the result are concerned (the *error* reported may
    differ: the row-wise run meets the failing merges in another order) -/
theorem fl_layerAll_ok_iff (cs : List Val) : ∀ (ds vs : List Val),
    fl_layerAll ds cs = .ok vs ↔ ds.mapM (fun p => cs.foldlM merge p) = .ok vs := by
  induction cs with
  | nil =>
    intro ds vs
    rw [fl_layerAll_nil]
    have : (fun p : Val => ([] : List Val).foldlM merge p) = fun p => (.ok p : R Val) := rfl
    rw [this, fl_mapM_pure]
  | cons c cs ih =>
    intro ds
    induction ds with
    | nil =>
      intro vs
      rw [fl_layerAll_cons, mapM_R_nil, mapM_R_nil]
      simp only
      rw [ih, mapM_R_nil]
    | cons p ds ihd =>
      intro vs
      rw [fl_layerAll_cons, mapM_R_cons, mapM_R_cons, fl_foldlM_cons]
      cases hp : merge p c with
      | error e => simp
      | ok p' =>
        simp only
        have hd := ihd
        rw [fl_layerAll_cons] at hd
        cases hds : ds.mapM (fun p => merge p c) with
        | error e =>
          rw [hds] at hd
          simp only
          have hno : ∀ ws, ds.mapM (fun p => (c :: cs).foldlM merge p) ≠ .ok ws := by
            intro ws hw
            exact absurd ((hd ws).2 hw) (by simp)
          cases hq : cs.foldlM merge p' with
          | error e' => simp
          | ok q =>
            cases hr : ds.mapM (fun p => (c :: cs).foldlM merge p) with
            | error e'' => simp
            | ok ws => exact absurd hr (hno ws)
        | ok ds' =>
          rw [hds] at hd
          simp only at hd ⊢
          rw [ih, mapM_R_cons]
          cases hq : cs.foldlM merge p' with
          | error e' => simp
          | ok q =>
            simp only
            cases hr : ds'.mapM (fun p => cs.foldlM merge p) with
            | error e'' =>
              have hno : ∀ ws, ds.mapM (fun p => (c :: cs).foldlM merge p) ≠ .ok ws := by
                intro ws hw
                have := (hd ws).2 hw
                rw [ih, hr] at this
                cases this
              cases hr2 : ds.mapM (fun p => (c :: cs).foldlM merge p) with
              | error e3 => simp
              | ok ws => exact absurd hr2 (hno ws)
            | ok ws =>
              have := (hd ws).1 ((ih ds' ws).2 hr)
              rw [this]

/-! ## `mergeInto` on a zipped stream all of whose ids are targets -/

theorem fl_mapM_mergeStep_zip (T : List String) (body : Val) : ∀ (ids : List String) (vs : List Val),
    (∀ x ∈ ids, x ∈ T) → ids.length = vs.length →
    (ids.zip vs).mapM (mergeStep T body) =
      match vs.mapM (fun p => merge p body) with
      | .error e => .error e
      | .ok vs' => .ok (ids.zip vs')
  | [], [], _, _ => by rw [List.zip_nil_left, mapM_R_nil, mapM_R_nil]; rfl
  | [], _ :: _, _, h => by simp at h
  | _ :: _, [], _, h => by simp at h
  | i :: ids, v :: vs, hT, hl => by
    rw [List.zip_cons_cons, mapM_R_cons, mapM_R_cons,
      fl_mapM_mergeStep_zip T body ids vs (fun x hx => hT x (List.mem_cons_of_mem _ hx))
        (by simpa using hl)]
    have hi : T.contains i = true := List.contains_iff_mem.2 (hT i List.mem_cons_self)
    simp only [mergeStep, hi, if_true]
    cases merge v body with
    | error e => rfl
    | ok v' =>
      simp only
      cases vs.mapM (fun p => merge p body) with
      | error e => rfl
      | ok vs' => rfl

theorem fl_zip_fst_snd {α β : Type} : ∀ (l : List (α × β)), (l.map (·.1)).zip (l.map (·.2)) = l
  | [] => rfl
  | a :: l => by simp [fl_zip_fst_snd l]

theorem fl_map_fst_zip {α β : Type} : ∀ (l₁ : List α) (l₂ : List β), l₁.length = l₂.length →
    (l₁.zip l₂).map (·.1) = l₁
  | [], _, _ => by simp
  | _ :: _, [], h => by simp at h
  | a :: l₁, b :: l₂, h => by
    simp [fl_map_fst_zip l₁ l₂ (by simpa using h)]

theorem fl_map_snd_zip {α β : Type} : ∀ (l₁ : List α) (l₂ : List β), l₁.length = l₂.length →
    (l₁.zip l₂).map (·.2) = l₂
  | [], [], _ => by simp
  | [], _ :: _, h => by simp at h
  | _ :: _, [], h => by simp at h
  | a :: l₁, b :: l₂, h => by
    simp [fl_map_snd_zip l₁ l₂ (by simpa using h)]

/-! ## the parent table -/

/-- the `map` branch of `addParents` -/
def fl_bump (id : String) (ps : List String) (known : List (String × List String)) :
    List (String × List String) :=
  known.map fun (i, old) => if i == id then (i, old ++ ps) else (i, old)

theorem fl_addParents_eq (known : List (String × List String)) (id : String) (ps : List String) :
    addParents known id ps =
      if known.any (·.1 == id) then fl_bump id ps known else known ++ [(id, ps)] := rfl

theorem fl_lookup_bump_ne (id q : String) (ps : List String) (h : q ≠ id) :
    ∀ (known : List (String × List String)),
      lookupParents (fl_bump id ps known) q = lookupParents known q
  | [] => rfl
  | (i, old) :: l => by
    have ih := fl_lookup_bump_ne id q ps h l
    unfold lookupParents at ih ⊢
    unfold fl_bump at ih ⊢
    rw [List.map_cons, List.find?_cons, List.find?_cons]
    by_cases hi : i = id
    · subst hi
      have h1 : (i == q) = false := by
        simp only [beq_eq_false_iff_ne]; exact fun e => h e.symm
      simp only [beq_self_eq_true, if_true, h1]
      exact ih
    · have hb : (i == id) = false := by simpa using hi
      simp only [hb, Bool.false_eq_true, if_false]
      cases hq : (i == q) with
      | true => rfl
      | false => exact ih

theorem fl_lookup_bump_self (id : String) (ps : List String) (x : String) :
    ∀ (known : List (String × List String)), x ∈ lookupParents known id →
      x ∈ lookupParents (fl_bump id ps known) id
  | [], hx => by simp [lookupParents] at hx
  | (i, old) :: l, hx => by
    have ih := fl_lookup_bump_self id ps x l
    unfold lookupParents at ih hx ⊢
    unfold fl_bump at ih ⊢
    rw [List.map_cons, List.find?_cons]
    rw [List.find?_cons] at hx
    by_cases hi : i = id
    · subst hi
      simp only [beq_self_eq_true, if_true] at hx ⊢
      exact List.mem_append_left _ hx
    · have hb : (i == id) = false := by simpa using hi
      simp only [hb, Bool.false_eq_true, if_false] at hx ⊢
      exact ih hx

theorem fl_lookup_append_fresh (known : List (String × List String)) (id q : String)
    (ps : List String) (h : q ≠ id) :
    lookupParents (known ++ [(id, ps)]) q = lookupParents known q := by
  unfold lookupParents
  rw [List.find?_append]
  cases hf : known.find? (·.1 == q) with
  | some e => rfl
  | none =>
    have : (id == q) = false := by simp only [beq_eq_false_iff_ne]; exact fun e => h e.symm
    simp [this]

theorem fl_lookup_addParents_ne (known : List (String × List String)) (id q : String)
    (ps : List String) (h : q ≠ id) :
    lookupParents (addParents known id ps) q = lookupParents known q := by
  rw [fl_addParents_eq]
  split
  · exact fl_lookup_bump_ne id q ps h known
  · exact fl_lookup_append_fresh known id q ps h

/-- `addParents` never removes a recorded link -/
theorem fl_lookup_addParents_mono (known : List (String × List String)) (id q : String)
    (ps : List String) (x : String) (hx : x ∈ lookupParents known q) :
    x ∈ lookupParents (addParents known id ps) q := by
  by_cases hq : q = id
  · subst hq
    rw [fl_addParents_eq]
    split
    · exact fl_lookup_bump_self q ps x known hx
    · rename_i hany
      have hany' : known.any (·.1 == q) = false := by
        cases hb : known.any (·.1 == q) with
        | true => exact absurd hb hany
        | false => rfl
      rw [lookupParents_of_not_key known q hany'] at hx
      cases hx
  · rw [fl_lookup_addParents_ne known id q ps hq]
    exact hx

theorem fl_ancestor_mono {k k' : List (String × List String)} {D : List String} {x : String}
    (hk : ∀ q y, y ∈ lookupParents k q → y ∈ lookupParents k' q) (h : Ancestor k D x) :
    Ancestor k' D x := by
  induction h with
  | direct hx => exact .direct hx
  | step _ hx ih => exact .step ih (hk _ _ hx)

/-- closure principle for `Ancestor` -/
theorem fl_ancestor_closed {known : List (String × List String)} {D : List String}
    (P : String → Prop) (hD : ∀ d ∈ D, P d)
    (hstep : ∀ p, P p → ∀ x ∈ lookupParents known p, P x) {x : String}
    (h : Ancestor known D x) : P x := by
  induction h with
  | direct hx => exact hD _ hx
  | step _ hx ih => exact hstep _ ih _ hx

/-- a fresh key: registering its parents and then what it was layered onto adds one entry -/
theorem fl_addParents_fresh2 (known : List (String × List String)) (id : String)
    (ps ts : List String) (h : known.any (·.1 == id) = false) :
    addParents (addParents known id ps) id ts = known ++ [(id, ps ++ ts)] := by
  have h1 : addParents known id ps = known ++ [(id, ps)] := by
    unfold addParents
    rw [h]; rfl
  rw [h1]
  unfold addParents
  have h2 : (known ++ [(id, ps)]).any (·.1 == id) = true := by simp
  rw [if_pos h2, List.map_append]
  congr 1
  · have : ∀ e ∈ known, (fun (x : String × List String) =>
        match x with | (i, old) => if (i == id) = true then (i, old ++ ts) else (i, old)) e = e := by
      intro e he
      obtain ⟨i, old⟩ := e
      have := List.any_eq_false.1 h (i, old) he
      simp only at this
      simp [this]
    rw [List.map_congr_left this, List.map_id']
  · simp

theorem fl_lookup_append_self (known : List (String × List String)) (id : String)
    (ps : List String) (h : known.any (·.1 == id) = false) :
    lookupParents (known ++ [(id, ps)]) id = ps := by
  unfold lookupParents
  rw [List.find?_append]
  have : known.find? (·.1 == id) = none := by
    rw [List.find?_eq_none]
    intro e he
    have := List.any_eq_false.1 h e he
    simpa using this
  rw [this]
  simp

/-! ## the ids the loader assigns -/

theorem fl_toString_inj {i j : Nat} (h : (toString i : String) = toString j) : i = j := by
  rw [Nat.toString_eq_repr, Nat.toString_eq_repr] at h
  have h2 := congrArg String.toList h
  rw [Nat.toList_repr, Nat.toList_repr] at h2
  have h3 := congrArg (fun l => Nat.ofDigitChars 10 l 0) h2
  simpa using h3

theorem fl_docId_inj (fid : String) {i j : Nat}
    (h : fid ++ "|doc" ++ toString i = fid ++ "|doc" ++ toString j) : i = j :=
  fl_toString_inj ((String.append_right_inj _).1 h)

theorem fl_docIdsOf_nodup (fid : String) (n : Nat) : (docIdsOf fid n).Nodup := by
  unfold docIdsOf List.Nodup
  rw [List.pairwise_map]
  exact List.Pairwise.imp (fun hne e => hne (fl_docId_inj fid e)) List.nodup_range

theorem fl_mem_docIdsOf {fid : String} {n : Nat} {x : String} :
    x ∈ docIdsOf fid n ↔ ∃ i, i < n ∧ x = fid ++ "|doc" ++ toString i := by
  unfold docIdsOf
  rw [List.mem_map]
  constructor
  · rintro ⟨i, hi, rfl⟩; exact ⟨i, List.mem_range.1 hi, rfl⟩
  · rintro ⟨i, hi, rfl⟩; exact ⟨i, List.mem_range.2 hi, rfl⟩

theorem fl_docIdsOf_getElem? (fid : String) (n i : Nat) (hi : i < n) :
    (docIdsOf fid n)[i]? = some (fid ++ "|doc" ++ toString i) := by
  unfold docIdsOf
  rw [List.getElem?_map, List.getElem?_range hi]
  rfl

/-- loader ids end in a digit, hence not in `|matchnull` -/
theorem fl_noMN_docId (fid : String) (i : Nat) : NoMN (fid ++ "|doc" ++ toString i) := by
  intro t h
  have h2 := congrArg (fun x => x.toList.getLast?) h
  simp only [String.toList_append] at h2
  have e2 : "|matchnull".toList = ['|', 'm', 'a', 't', 'c', 'h', 'n', 'u', 'l', 'l'] := by decide
  rw [e2, Nat.toString_eq_repr, Nat.toList_repr] at h2
  have hne : Nat.toDigits 10 i ≠ [] := Nat.toDigits_ne_nil
  obtain ⟨c, hc⟩ : ∃ c, (Nat.toDigits 10 i).getLast? = some c := by
    cases hl : (Nat.toDigits 10 i).getLast? with
    | none => exact absurd (List.getLast?_eq_none_iff.1 hl) hne
    | some c => exact ⟨c, rfl⟩
  have hd : c.isDigit = true :=
    Nat.isDigit_of_mem_toDigits (by decide) (by decide) (List.mem_of_getLast? hc)
  rw [List.getLast?_append, hc] at h2
  simp at h2
  subst h2
  revert hd
  decide

theorem fl_noMN_of_mem_docIdsOf {fid : String} {n : Nat} {x : String} (h : x ∈ docIdsOf fid n) :
    NoMN x := by
  obtain ⟨i, _, rfl⟩ := fl_mem_docIdsOf.1 h
  exact fl_noMN_docId fid i

/-- `id` belongs to a file loaded below the child `c`: `c|/…` -/
def fl_Below (c id : String) : Prop := ∃ r, id = c ++ "|/" ++ r

theorem fl_below_bar_path (c : String) (p : Comps) : fl_Below c (c ++ "|" ++ pathStr p) := by
  refine ⟨"/".intercalate p, ?_⟩
  unfold pathStr
  apply String.toList_inj.1
  simp only [String.toList_append]
  have : "|/".toList = "|".toList ++ "/".toList := by decide
  rw [this]
  simp only [List.append_assoc]

theorem fl_below_trans {a b c : String} (h₁ : fl_Below a b) (h₂ : fl_Below b c) : fl_Below a c := by
  obtain ⟨r₁, rfl⟩ := h₁
  obtain ⟨r₂, rfl⟩ := h₂
  exact ⟨r₁ ++ "|/" ++ r₂, by simp only [String.append_assoc]⟩

/-- a document of a file loaded below `c` never shares its id with a document of `c` -/
theorem fl_docId_ne_below {c g : String} (hg : fl_Below c g) (i j : Nat) :
    g ++ "|doc" ++ toString i ≠ c ++ "|doc" ++ toString j := by
  obtain ⟨r, rfl⟩ := hg
  intro h
  rw [String.append_assoc, String.append_assoc, String.append_assoc, String.append_assoc] at h
  have h2 := congrArg String.toList ((String.append_right_inj _).1 h)
  simp only [String.toList_append] at h2
  have e1 : "|/".toList = ['|', '/'] := by decide
  have e2 : "|doc".toList = ['|', 'd', 'o', 'c'] := by decide
  rw [e1, e2] at h2
  simp at h2

theorem fl_chainFiles_below (d : Comps) (pre : List String) : ∀ (R : List CLayer) (c : String),
    ∀ f ∈ chainFiles d pre (some c) R, fl_Below c f.id
  | [], c, f, h => by cases h
  | x :: S, c, f, h => by
    rw [chainFiles_cons] at h
    rcases List.mem_append.1 h with h | h
    · exact fl_below_trans (fl_below_bar_path c _) (fl_chainFiles_below d pre S _ f h)
    · have : f.id = c ++ "|" ++ pathStr (clPath d pre (x :: S)) := by
        rw [List.mem_singleton.1 h]; rfl
      rw [this]
      exact fl_below_bar_path c _

theorem fl_plainDocs_length (fid : String) (ps : List String) (docs : List Val) :
    (plainDocs fid ps docs).length = docs.length := by
  have := congrArg List.length (plainDocs_ids fid ps docs)
  rwa [List.length_map, docIdsOf_length] at this

theorem fl_chainFiles_docIds (d : Comps) (pre : List String) : ∀ (R : List CLayer) (c : Option String),
    ∀ f ∈ chainFiles d pre c R, f.docs.map (·.id) = docIdsOf f.id f.docs.length
  | [], c, f, h => by cases h
  | x :: S, c, f, h => by
    rw [chainFiles_cons] at h
    rcases List.mem_append.1 h with h | h
    · exact fl_chainFiles_docIds d pre S _ f h
    · rw [List.mem_singleton.1 h]
      simp only
      rw [plainDocs_ids]
      rw [fl_plainDocs_length]

/-- all document ids of the files `loadFileAndParents` returns for a filename chain -/
def fl_streamIds (files : List LFile) : List String := (files.flatMap (·.docs)).map (·.id)

theorem fl_streamIds_append (a b : List LFile) :
    fl_streamIds (a ++ b) = fl_streamIds a ++ fl_streamIds b := by
  simp [fl_streamIds]

theorem fl_mem_streamIds {files : List LFile} {x : String} :
    x ∈ fl_streamIds files ↔ ∃ f ∈ files, x ∈ f.docs.map (·.id) := by
  simp only [fl_streamIds, List.mem_map, List.mem_flatMap]
  constructor
  · rintro ⟨dd, ⟨f, hf, hd⟩, rfl⟩; exact ⟨f, hf, dd, hd, rfl⟩
  · rintro ⟨f, hf, dd, hd, rfl⟩; exact ⟨dd, ⟨f, hf, hd⟩, rfl⟩

/-- **the loader's document ids are pairwise distinct** along a filename chain of any depth -/
theorem fl_chainFiles_ids_nodup (d : Comps) (pre : List String) : ∀ (R : List CLayer)
    (c : Option String), (fl_streamIds (chainFiles d pre c R)).Nodup
  | [], c => List.nodup_nil
  | x :: S, c => by
    rw [chainFiles_cons, fl_streamIds_append, List.nodup_append]
    refine ⟨fl_chainFiles_ids_nodup d pre S _, ?_, ?_⟩
    · simp only [fl_streamIds, List.flatMap_cons, List.flatMap_nil, List.append_nil]
      rw [plainDocs_ids]
      exact fl_docIdsOf_nodup _ _
    · intro a ha b hb
      obtain ⟨f, hf, haf⟩ := fl_mem_streamIds.1 ha
      rw [fl_chainFiles_docIds d pre S _ f hf] at haf
      obtain ⟨i, _, rfl⟩ := fl_mem_docIdsOf.1 haf
      simp only [fl_streamIds, List.flatMap_cons, List.flatMap_nil, List.append_nil] at hb
      rw [plainDocs_ids] at hb
      obtain ⟨j, _, rfl⟩ := fl_mem_docIdsOf.1 hb
      exact fl_docId_ne_below (fl_chainFiles_below d pre S _ f hf) i j

theorem fl_chainFiles_ids_noMN (d : Comps) (pre : List String) (R : List CLayer)
    (c : Option String) : ∀ x ∈ fl_streamIds (chainFiles d pre c R), NoMN x := by
  intro x hx
  obtain ⟨f, hf, hxf⟩ := fl_mem_streamIds.1 hx
  rw [fl_chainFiles_docIds d pre R c f hf] at hxf
  exact fl_noMN_of_mem_docIdsOf hxf

/-! ## one step of `mergeDocument`: what can happen to the ids and to the parent table -/

def fl_reg (st : PState) (c : Doc) : PState := ⟨st.docs, addParents st.known c.id c.parents⟩

theorem fl_step_cases {st st' : PState} {c : Doc} (h : mergeDocument st c = .ok st') :
    (∃ body, st' = ⟨st.docs ++ [(c.id, body)], (fl_reg st c).known⟩) ∨
    (∃ body, st' = ⟨st.docs ++ [(c.id ++ "|matchnull", body)],
        addParents (fl_reg st c).known c.id [c.id ++ "|matchnull"]⟩) ∨
    (∃ T body, mergeInto (fl_reg st c) c.id T body = .ok st') := by
  rw [mergeDocument_eq] at h
  have hdflt : ∀ body, mergeDflt (fl_reg st c) c.id c.parents body = .ok st' →
      (∃ body, st' = ⟨st.docs ++ [(c.id, body)], (fl_reg st c).known⟩) ∨
      (∃ body, st' = ⟨st.docs ++ [(c.id ++ "|matchnull", body)],
          addParents (fl_reg st c).known c.id [c.id ++ "|matchnull"]⟩) ∨
      (∃ T body, mergeInto (fl_reg st c) c.id T body = .ok st') := by
    intro body hb
    unfold mergeDflt at hb
    split at hb
    · cases hb; exact .inl ⟨body, rfl⟩
    · exact .inr (.inr ⟨_, _, hb⟩)
  change mergeDocCore (fl_reg st c) c.id c.parents c.data = .ok st' at h
  unfold mergeDocCore at h
  split at h
  · split at h
    · split at h
      · cases h; exact .inr (.inl ⟨_, rfl⟩)
      · split at h
        · cases h
        · exact .inr (.inr ⟨_, _, h⟩)
    · exact hdflt _ h
  · exact hdflt _ h

theorem fl_mergeInto_ids {st0 st' : PState} {id : String} {T : List String} {body : Val}
    (h : mergeInto st0 id T body = .ok st') :
    st'.docs.map (·.1) = st0.docs.map (·.1) ∧ st'.known = addParents st0.known id T := by
  rw [mergeInto_ok_iff] at h
  exact ⟨forall₂_stepRel_ids h.1, h.2⟩

theorem fl_step_ids {st st' : PState} {c : Doc} (h : mergeDocument st c = .ok st') :
    st'.docs.map (·.1) = st.docs.map (·.1) ∨
    st'.docs.map (·.1) = st.docs.map (·.1) ++ [c.id] ∨
    st'.docs.map (·.1) = st.docs.map (·.1) ++ [c.id ++ "|matchnull"] := by
  rcases fl_step_cases h with ⟨b, rfl⟩ | ⟨b, rfl⟩ | ⟨T, b, hm⟩
  · exact .inr (.inl (by simp))
  · exact .inr (.inr (by simp))
  · exact .inl (fl_mergeInto_ids hm).1

theorem fl_step_known {st st' : PState} {c : Doc} (h : mergeDocument st c = .ok st') :
    ∃ ts, st'.known = addParents (addParents st.known c.id c.parents) c.id ts := by
  rcases fl_step_cases h with ⟨b, rfl⟩ | ⟨b, rfl⟩ | ⟨T, b, hm⟩
  · exact ⟨[], (addParents_nil_of_any _ _ (addParents_any_self st.known c.id c.parents)).symm⟩
  · exact ⟨_, rfl⟩
  · exact ⟨T, (fl_mergeInto_ids hm).2⟩

/-- the parents recorded for ids other than the patch's are untouched by a step -/
theorem fl_step_lookup_ne {st st' : PState} {c : Doc} (h : mergeDocument st c = .ok st')
    {q : String} (hq : q ≠ c.id) : lookupParents st'.known q = lookupParents st.known q := by
  obtain ⟨ts, hk⟩ := fl_step_known h
  rw [hk, fl_lookup_addParents_ne _ _ _ _ hq, fl_lookup_addParents_ne _ _ _ _ hq]

/-- …and recorded links are never lost -/
theorem fl_step_lookup_mono {st st' : PState} {c : Doc} (h : mergeDocument st c = .ok st')
    (q x : String) (hx : x ∈ lookupParents st.known q) : x ∈ lookupParents st'.known q := by
  obtain ⟨ts, hk⟩ := fl_step_known h
  rw [hk]
  exact fl_lookup_addParents_mono _ _ _ _ _ (fl_lookup_addParents_mono _ _ _ _ _ hx)

/-! ## document ids stay pairwise distinct along a run of loader-made patches -/

/-- the stream's ids are distinct and each is one of the ids `seen` so far or such an id
    followed by `|matchnull` -/
def fl_IdsFrom (seen : List String) (st : PState) : Prop :=
  (st.docs.map (·.1)).Nodup ∧
    ∀ x ∈ st.docs.map (·.1), x ∈ seen ∨ ∃ s ∈ seen, x = s ++ "|matchnull"

theorem fl_idsFrom_empty (seen : List String) : fl_IdsFrom seen PState.empty :=
  ⟨List.nodup_nil, fun _ h => nomatch h⟩

theorem fl_idsFrom_fresh {seen : List String} {st : PState} {id : String}
    (hI : fl_IdsFrom seen st) (hs : ∀ s ∈ seen, NoMN s) (hid : id ∉ seen) (hn : NoMN id) :
    id ∉ st.docs.map (·.1) ∧ id ++ "|matchnull" ∉ st.docs.map (·.1) := by
  constructor
  · intro hm
    rcases hI.2 _ hm with h | ⟨s, _, h⟩
    · exact hid h
    · exact hn s h
  · intro hm
    rcases hI.2 _ hm with h | ⟨s, hs', h⟩
    · exact hs _ h id rfl
    · exact hid ((String.append_left_inj _).1 h ▸ hs')

theorem fl_idsFrom_step {seen : List String} {st st' : PState} {c : Doc}
    (hI : fl_IdsFrom seen st) (hs : ∀ s ∈ seen, NoMN s) (hid : c.id ∉ seen) (hn : NoMN c.id)
    (h : mergeDocument st c = .ok st') : fl_IdsFrom (seen ++ [c.id]) st' := by
  obtain ⟨hf₁, hf₂⟩ := fl_idsFrom_fresh hI hs hid hn
  have hold : ∀ x ∈ st.docs.map (·.1),
      x ∈ seen ++ [c.id] ∨ ∃ s ∈ seen ++ [c.id], x = s ++ "|matchnull" := by
    intro x hx
    rcases hI.2 x hx with h | ⟨s, hs', h⟩
    · exact .inl (List.mem_append_left _ h)
    · exact .inr ⟨s, List.mem_append_left _ hs', h⟩
  rcases fl_step_ids h with e | e | e
  · rw [fl_IdsFrom, e]; exact ⟨hI.1, hold⟩
  · rw [fl_IdsFrom, e]
    refine ⟨?_, ?_⟩
    · rw [List.nodup_append]
      refine ⟨hI.1, by simp, ?_⟩
      intro a ha b hb
      rw [List.mem_singleton] at hb
      subst hb
      intro e'; subst e'; exact hf₁ ha
    · intro x hx
      rcases List.mem_append.1 hx with hx | hx
      · exact hold x hx
      · rw [List.mem_singleton] at hx
        subst hx
        exact .inl (by simp)
  · rw [fl_IdsFrom, e]
    refine ⟨?_, ?_⟩
    · rw [List.nodup_append]
      refine ⟨hI.1, by simp, ?_⟩
      intro a ha b hb
      rw [List.mem_singleton] at hb
      subst hb
      intro e'; subst e'; exact hf₂ ha
    · intro x hx
      rcases List.mem_append.1 hx with hx | hx
      · exact hold x hx
      · rw [List.mem_singleton] at hx
        subst hx
        exact .inr ⟨c.id, by simp, rfl⟩

/-- a run of patches with pairwise distinct, loader-made ids keeps the stream's ids distinct -/
theorem fl_idsFrom_run : ∀ (ds : List Doc) (seen : List String) (st st' : PState),
    fl_IdsFrom seen st → (seen ++ ds.map (·.id)).Nodup → (∀ s ∈ seen ++ ds.map (·.id), NoMN s) →
    runMerges st ds = .ok st' → fl_IdsFrom (seen ++ ds.map (·.id)) st'
  | [], seen, st, st', hI, _, _, h => by
    rw [runMerges_nil] at h
    cases h
    simpa using hI
  | c :: ds, seen, st, st', hI, hnd, hmn, h => by
    rw [runMerges_cons] at h
    cases hm : mergeDocument st c with
    | error e => rw [hm] at h; cases h
    | ok s =>
      rw [hm] at h
      rw [List.map_cons] at hnd hmn ⊢
      have hid : c.id ∉ seen := by
        intro hmem
        have := (List.nodup_append.1 hnd).2.2 _ hmem c.id List.mem_cons_self
        exact this rfl
      have hI' := fl_idsFrom_step hI (fun s hs => hmn s (List.mem_append_left _ hs)) hid
        (hmn c.id (by simp)) hm
      have e : seen ++ c.id :: ds.map (·.id) = (seen ++ [c.id]) ++ ds.map (·.id) := by simp
      rw [e] at hnd hmn ⊢
      exact fl_idsFrom_run ds _ s st' hI' hnd hmn h

/-! ## a layer on top of a file with documents `pids` (which have no parents themselves) -/

/-- the ancestors of a patch whose direct parents `pids` are roots: exactly `pids` -/
theorem fl_anc_exact {known : List (String × List String)} {pids : List String}
    (hroots : ∀ p ∈ pids, lookupParents known p = []) (id : String) :
    (allParents known (known.length + 1) pids).contains id = pids.contains id := by
  rw [Bool.eq_iff_iff, List.contains_iff_mem, List.contains_iff_mem, mem_allParents_iff_ancestor]
  constructor
  · intro h
    refine fl_ancestor_closed (· ∈ pids) (fun _ h => h) ?_ h
    intro p hp x hx
    rw [hroots p hp] at hx
    cases hx
  · exact fun h => .direct h

theorem fl_roots_reg {st : PState} {c : Doc} {pids : List String}
    (hroots : ∀ p ∈ pids, lookupParents st.known p = []) (hc : c.id ∉ pids) :
    ∀ p ∈ pids, lookupParents (fl_reg st c).known p = [] := by
  intro p hp
  have : p ≠ c.id := fun e => hc (e ▸ hp)
  show lookupParents (addParents st.known c.id c.parents) p = []
  rw [fl_lookup_addParents_ne _ _ _ _ this]
  exact hroots p hp

theorem fl_filter_prefix : ∀ (pids extra : List String), (pids ++ extra).Nodup →
    ∀ (T : List String), (∀ x, x ∈ T ↔ x ∈ pids) → (pids ++ extra).filter (T.contains ·) = pids := by
  intro pids extra hnd T hT
  rw [List.filter_append]
  have h1 : pids.filter (T.contains ·) = pids := by
    rw [List.filter_eq_self]
    intro a ha
    exact List.contains_iff_mem.2 ((hT a).2 ha)
  have h2 : extra.filter (T.contains ·) = [] := by
    rw [List.filter_eq_nil_iff]
    intro a ha hc
    have := (hT a).1 (List.contains_iff_mem.1 hc)
    exact (List.nodup_append.1 hnd).2.2 a this a ha rfl
  rw [h1, h2, List.append_nil]

/-- the default targets of such a patch: the parent file's documents, all of them -/
theorem fl_parentsOf_pids {st0 : PState} {pids extra : List String}
    (hids : st0.docs.map (·.1) = pids ++ extra) (hnd : (st0.docs.map (·.1)).Nodup)
    (hroots : ∀ p ∈ pids, lookupParents st0.known p = []) : parentsOf st0 pids = pids := by
  unfold parentsOf
  simp only
  rw [filter_ids st0.docs (fun i => (allParents st0.known (st0.known.length + 1) pids).contains i),
    hids]
  rw [hids] at hnd
  apply fl_filter_prefix pids extra hnd
  intro x
  have := fl_anc_exact hroots x
  rw [Bool.eq_iff_iff, List.contains_iff_mem, List.contains_iff_mem] at this
  exact this

/-- with distinct ids: a document is among `findMatches` exactly when it matches, provided it
    is an ancestor of the patch -/
theorem fl_mem_findMatches {st0 : PState} {D : List String} {pat : Val} {id : String} {v : Val}
    (hnd : (st0.docs.map (·.1)).Nodup) (hm : (id, v) ∈ st0.docs)
    (ha : (allParents st0.known (st0.known.length + 1) D).contains id = true) :
    id ∈ findMatches st0 D pat ↔ matchV v pat = true := by
  have huniq : ∀ w, (id, w) ∈ st0.docs → w = v := by
    intro w hw
    have hp : st0.docs.Pairwise (fun a b => a.1 ≠ b.1) := List.pairwise_map.1 hnd
    rcases List.mem_iff_getElem.1 hw with ⟨i, hi, ei⟩
    rcases List.mem_iff_getElem.1 hm with ⟨j, hj, ej⟩
    rcases Nat.lt_trichotomy i j with hlt | heq | hgt
    · have := List.pairwise_iff_getElem.1 hp i j hi hj hlt
      rw [ei, ej] at this
      exact absurd rfl this
    · subst heq
      rw [ei] at ej
      exact (Prod.mk.inj ej).2
    · have := List.pairwise_iff_getElem.1 hp j i hj hi hgt
      rw [ei, ej] at this
      exact absurd rfl this
  rw [findMatches_eq]
  simp only
  have hm1 : id ∈ (st0.docs.filter fun d =>
      (allParents st0.known (st0.known.length + 1) D).contains d.1 && matchV d.2 pat).map (·.1) ↔
      matchV v pat = true := by
    rw [List.mem_map]
    constructor
    · rintro ⟨⟨i, w⟩, hf, rfl⟩
      rw [List.mem_filter] at hf
      have := huniq w hf.1
      subst this
      simpa using (Bool.and_eq_true _ _ ▸ hf.2).2
    · intro hv
      exact ⟨(id, v), List.mem_filter.2 ⟨hm, by simp only [ha, hv, Bool.and_self]⟩, rfl⟩
  split
  · exact hm1
  · rename_i hnil
    have hnil' : (st0.docs.filter fun d =>
      (allParents st0.known (st0.known.length + 1) D).contains d.1 && matchV d.2 pat).map (·.1) = [] := by
      simpa using hnil
    constructor
    · intro h
      rw [List.mem_map] at h
      obtain ⟨⟨i, w⟩, hf, rfl⟩ := h
      rw [List.mem_filter] at hf
      have := huniq w hf.1
      subst this
      exact hf.2
    · intro hv
      have := hm1.2 hv
      rw [hnil'] at this
      cases this

/-- what one layer document does to one document of the file below (`$match: null` and a
    non-matching `$match` leave it alone; otherwise the body is merged in) -/
def fl_layerStep (v : Val) (c : Val) : R Val :=
  match c with
  | .map kvs =>
    match fget kvs "$match" with
    | some pat =>
      if pat.isNull then .ok v
      else if matchV v pat then merge v (.map (fdel kvs "$match")) else .ok v
    | none => merge v c
  | _ => merge v c

/-- the patch carries no `$match` -/
def fl_NoMatch (v : Val) : Prop :=
  match v with
  | .map kvs => fget kvs "$match" = none
  | _ => True

theorem fl_layerStep_noMatch {v c : Val} (h : fl_NoMatch c) : fl_layerStep v c = merge v c := by
  unfold fl_layerStep
  cases c with
  | map kvs =>
    have : fget kvs "$match" = none := h
    simp only [this]
  | _ => rfl

theorem fl_mergeDocCore_noMatch {st0 : PState} {id : String} {D : List String} {data : Val}
    (h : fl_NoMatch data) : mergeDocCore st0 id D data = mergeDflt st0 id D data := by
  unfold mergeDocCore
  cases data with
  | map kvs =>
    have : fget kvs "$match" = none := h
    simp only [this]
  | _ => rfl

/-- the state a child run is in: distinct ids, the parent file's documents first, and these
    are still roots of the parent table -/
structure fl_ChildInv (pids seen : List String) (st : PState) : Prop where
  ids : fl_IdsFrom seen st
  sub : ∀ p ∈ pids, p ∈ seen
  pre : ∃ extra, st.docs.map (·.1) = pids ++ extra
  roots : ∀ p ∈ pids, lookupParents st.known p = []

theorem fl_childInv_step {pids seen : List String} {st st' : PState} {c : Doc}
    (hI : fl_ChildInv pids seen st) (hs : ∀ s ∈ seen, NoMN s) (hid : c.id ∉ seen) (hn : NoMN c.id)
    (h : mergeDocument st c = .ok st') : fl_ChildInv pids (seen ++ [c.id]) st' := by
  refine ⟨fl_idsFrom_step hI.ids hs hid hn h, fun p hp => List.mem_append_left _ (hI.sub p hp), ?_, ?_⟩
  · obtain ⟨extra, he⟩ := hI.pre
    rcases fl_step_ids h with e | e | e
    · exact ⟨extra, by rw [e, he]⟩
    · exact ⟨extra ++ [c.id], by rw [e, he, List.append_assoc]⟩
    · exact ⟨extra ++ [c.id ++ "|matchnull"], by rw [e, he, List.append_assoc]⟩
  · intro p hp
    have : p ≠ c.id := fun e => hid (e ▸ hI.sub p hp)
    rw [fl_step_lookup_ne h this]
    exact hI.roots p hp

theorem fl_childInv_run {pids : List String} : ∀ (ds : List Doc) (seen : List String)
    (st st' : PState), fl_ChildInv pids seen st → (seen ++ ds.map (·.id)).Nodup →
    (∀ s ∈ seen ++ ds.map (·.id), NoMN s) → runMerges st ds = .ok st' →
    fl_ChildInv pids (seen ++ ds.map (·.id)) st'
  | [], seen, st, st', hI, _, _, h => by
    rw [runMerges_nil] at h
    cases h
    simpa using hI
  | c :: ds, seen, st, st', hI, hnd, hmn, h => by
    rw [runMerges_cons] at h
    cases hm : mergeDocument st c with
    | error e => rw [hm] at h; cases h
    | ok s =>
      rw [hm] at h
      rw [List.map_cons] at hnd hmn ⊢
      have hid : c.id ∉ seen := by
        intro hmem
        exact (List.nodup_append.1 hnd).2.2 _ hmem c.id List.mem_cons_self rfl
      have hI' := fl_childInv_step hI (fun s hs => hmn s (List.mem_append_left _ hs)) hid
        (hmn c.id (by simp)) hm
      have e : seen ++ c.id :: ds.map (·.id) = (seen ++ [c.id]) ++ ds.map (·.id) := by simp
      rw [e] at hnd hmn ⊢
      exact fl_childInv_run ds _ s st' hI' hnd hmn h

/-- **one layer document, seen from document `i` of the file below**: its new data is
    `fl_layerStep` of its old data — a function of that document and the patch alone -/
theorem fl_child_step_doc {pids seen : List String} {st st' : PState} {c : Doc}
    (hI : fl_ChildInv pids seen st) (hcp : c.parents = pids) (hid : c.id ∉ seen)
    (h : mergeDocument st c = .ok st') {i : Nat} {pid : String} {v : Val}
    (hp : pids[i]? = some pid) (hv : st.docs[i]? = some (pid, v)) :
    ∃ v', fl_layerStep v c.data = .ok v' ∧ st'.docs[i]? = some (pid, v') := by
  have hpm : pid ∈ pids := List.mem_of_getElem? hp
  have hcid : c.id ∉ pids := fun hm => hid (hI.sub _ hm)
  have hroots := fl_roots_reg (c := c) hI.roots hcid
  obtain ⟨extra, hex⟩ := hI.pre
  have hlt : i < st.docs.length := (List.getElem?_eq_some_iff.1 hv).1
  -- the merge case, common to all branches
  have hinto : ∀ (T : List String) (body : Val), mergeInto (fl_reg st c) c.id T body = .ok st' →
      ∃ v', (if pid ∈ T then merge v body = .ok v' else v' = v) ∧ st'.docs[i]? = some (pid, v') := by
    intro T body hm
    rw [mergeInto_ok_iff] at hm
    obtain ⟨⟨id', v'⟩, hb, he, hr⟩ := forall₂_getElem? hm.1 i hv
    simp only at he hr
    subst he
    exact ⟨v', hr, hb⟩
  have hdflt : mergeDflt (fl_reg st c) c.id c.parents c.data = .ok st' →
      ∃ v', merge v c.data = .ok v' ∧ st'.docs[i]? = some (pid, v') := by
    intro hm
    unfold mergeDflt at hm
    rw [hcp, fl_parentsOf_pids (st0 := fl_reg st c) hex hI.ids.1 hroots] at hm
    have hne : pids.isEmpty = false := by
      cases pids with
      | nil => cases hpm
      | cons a l => rfl
    rw [hne] at hm
    simp only [Bool.false_eq_true, if_false] at hm
    obtain ⟨v', h1, h2⟩ := hinto _ _ hm
    rw [if_pos hpm] at h1
    exact ⟨v', h1, h2⟩
  rw [mergeDocument_eq] at h
  change mergeDocCore (fl_reg st c) c.id c.parents c.data = .ok st' at h
  unfold fl_layerStep
  unfold mergeDocCore at h
  split at h
  · rename_i kvs hk
    rw [hk]
    simp only
    split at h
    · rename_i pat hg
      rw [hg]
      simp only
      split at h
      · rename_i hnull
        cases h
        rw [if_pos hnull]
        refine ⟨v, rfl, ?_⟩
        exact (List.getElem?_append_left hlt).trans hv
      · rename_i hnull
        rw [if_neg hnull]
        split at h
        · cases h
        · obtain ⟨v', h1, h2⟩ := hinto _ _ h
          have hmem : pid ∈ findMatches (fl_reg st c) c.parents pat ↔ matchV v pat = true := by
            apply fl_mem_findMatches (st0 := fl_reg st c) hI.ids.1 (List.mem_of_getElem? hv)
            rw [hcp, fl_anc_exact hroots]
            exact List.contains_iff_mem.2 hpm
          by_cases hmv : matchV v pat = true
          · rw [if_pos (hmem.2 hmv)] at h1
            rw [if_pos hmv]
            exact ⟨v', h1, h2⟩
          · rw [if_neg (fun hh => hmv (hmem.1 hh))] at h1
            rw [if_neg hmv]
            subst h1
            exact ⟨v', rfl, h2⟩
    · rename_i hg
      rw [hg]
      simp only
      rw [← hk]
      exact hdflt h
  · rename_i hnm
    have hls : (match c.data with
        | .map kvs =>
          match fget kvs "$match" with
          | some pat =>
            if pat.isNull then (.ok v : R Val)
            else if matchV v pat then merge v (.map (fdel kvs "$match")) else .ok v
          | none => merge v c.data
        | _ => merge v c.data) = merge v c.data := by
      split
      · rename_i kvs hk
        exact absurd hk (hnm kvs)
      · rfl
    obtain ⟨v', h1, h2⟩ := hdflt h
    refine ⟨v', ?_, h2⟩
    rw [← h1]
    cases hcd : c.data with
    | map kvs => exact absurd hcd (hnm kvs)
    | _ => rfl

/-! ## a `$match`-free patch all of whose stream is its ancestry: merged into every document -/

theorem fl_parentsOf_all {st0 : PState} {D : List String}
    (hall : ∀ p ∈ st0.docs, Ancestor st0.known D p.1) : parentsOf st0 D = st0.docs.map (·.1) := by
  unfold parentsOf
  simp only
  congr 1
  rw [List.filter_eq_self]
  intro p hp
  exact List.contains_iff_mem.2 ((mem_allParents_iff_ancestor _ _ _).2 (hall p hp))

theorem fl_merge_all {st : PState} {c : Doc} (hnm : fl_NoMatch c.data) (hne : st.docs ≠ [])
    (hall : ∀ p ∈ st.docs, Ancestor (addParents st.known c.id c.parents) c.parents p.1) :
    mergeDocument st c =
      match (st.docs.map (·.2)).mapM (fun p => merge p c.data) with
      | .error e => .error e
      | .ok vs => .ok ⟨(st.docs.map (·.1)).zip vs,
          addParents (addParents st.known c.id c.parents) c.id (st.docs.map (·.1))⟩ := by
  rw [mergeDocument_eq, fl_mergeDocCore_noMatch hnm]
  unfold mergeDflt
  rw [fl_parentsOf_all (st0 := ⟨st.docs, addParents st.known c.id c.parents⟩) hall]
  have hne' : (st.docs.map (·.1)).isEmpty = false := by
    cases hd : st.docs with
    | nil => exact absurd hd hne
    | cons a l => rfl
  simp only [hne', Bool.false_eq_true, if_false]
  rw [mergeInto_eq]
  simp only
  have hz := fl_mapM_mergeStep_zip (st.docs.map (·.1)) c.data (st.docs.map (·.1)) (st.docs.map (·.2))
    (fun _ h => h) (by simp)
  rw [fl_zip_fst_snd] at hz
  rw [hz]
  cases (st.docs.map (·.2)).mapM (fun p => merge p c.data) <;> rfl

theorem fl_lookup_append_mono (known : List (String × List String)) (e : String × List String)
    (q x : String) (hx : x ∈ lookupParents known q) : x ∈ lookupParents (known ++ [e]) q := by
  unfold lookupParents at hx ⊢
  rw [List.find?_append]
  cases hf : known.find? (·.1 == q) with
  | none => rw [hf] at hx; cases hx
  | some y => rw [hf] at hx; exact hx

theorem fl_any_append_fresh (known : List (String × List String)) (e : String × List String)
    (q : String) (h : known.any (·.1 == q) = false) (hq : e.1 ≠ q) :
    (known ++ [e]).any (·.1 == q) = false := by
  rw [List.any_append, h]
  simp [hq]

/-- **a whole layer of `$match`-free documents, all of whose ancestry is the stream `ids`**:
    every document of the layer is merged into every document of the stream, one layer
    document after the other (`fl_layerAll`), and the parent table records it -/
theorem fl_run_all (D ids : List String) (hne : ids ≠ []) : ∀ (cds : List Doc) (vs : List Val)
    (known : List (String × List String)), ids.length = vs.length →
    (∀ c ∈ cds, fl_NoMatch c.data ∧ c.parents = D) → (∀ id ∈ ids, Ancestor known D id) →
    (∀ c ∈ cds, known.any (·.1 == c.id) = false) → (cds.map (·.id)).Nodup →
    runMerges ⟨ids.zip vs, known⟩ cds =
      match fl_layerAll vs (cds.map (·.data)) with
      | .error e => .error e
      | .ok vs' => .ok ⟨ids.zip vs', known ++ cds.map (fun c => (c.id, D ++ ids))⟩
  | [], vs, known, _, _, _, _, _ => by
    rw [runMerges_nil, List.map_nil, fl_layerAll_nil]
    simp
  | c :: cds, vs, known, hl, hc, hanc, hfresh, hnd => by
    have hc0 := hc c List.mem_cons_self
    have hf0 := hfresh c List.mem_cons_self
    have hids : (ids.zip vs).map (·.1) = ids := fl_map_fst_zip ids vs hl
    have hvs : (ids.zip vs).map (·.2) = vs := fl_map_snd_zip ids vs hl
    have hstep := fl_merge_all (st := ⟨ids.zip vs, known⟩) (c := c) hc0.1
      (by
        intro e
        have := congrArg List.length e
        rw [List.length_zip, ← hl, Nat.min_self] at this
        exact hne (List.eq_nil_of_length_eq_zero this))
      (by
        intro p hp
        have hp1 : p.1 ∈ ids := by
          rw [← hids]; exact List.mem_map_of_mem hp
        rw [hc0.2]
        exact fl_ancestor_mono (fun q y hy => fl_lookup_addParents_mono _ _ _ _ _ hy) (hanc _ hp1))
    simp only at hstep
    rw [hids, hvs, hc0.2, fl_addParents_fresh2 _ _ _ _ hf0] at hstep
    rw [runMerges_cons, hstep, List.map_cons, fl_layerAll_cons]
    cases hm : vs.mapM (fun p => merge p c.data) with
    | error e => rfl
    | ok vs1 =>
      simp only
      have hnd' := List.nodup_cons.1 (List.map_cons ▸ hnd)
      rw [fl_run_all D ids hne cds vs1 (known ++ [(c.id, D ++ ids)])
        (by rw [hl, fl_mapM_length _ hm])
        (fun c' hc' => hc c' (List.mem_cons_of_mem _ hc'))
        (fun id hid => fl_ancestor_mono (fun q y hy => fl_lookup_append_mono _ _ _ _ hy) (hanc id hid))
        (fun c' hc' => fl_any_append_fresh _ _ _ (hfresh c' (List.mem_cons_of_mem _ hc'))
          (fun e => hnd'.1 (by rw [show c.id = c'.id from e]; exact List.mem_map_of_mem hc')))
        hnd'.2]
      cases fl_layerAll vs1 (cds.map (·.data)) with
      | error e => rfl
      | ok vs' => simp

/-! ## a file without parents (and without `$match`): its documents are appended -/

theorem fl_parentsOf_nil (st0 : PState) : parentsOf st0 [] = [] := by
  unfold parentsOf
  simp only
  have : allParents st0.known (st0.known.length + 1) [] = [] := by
    simp [allParents]
  rw [this]
  simp

theorem fl_addParents_fresh (known : List (String × List String)) (id : String) (ps : List String)
    (h : known.any (·.1 == id) = false) : addParents known id ps = known ++ [(id, ps)] := by
  rw [fl_addParents_eq, h]
  rfl

theorem fl_root_step {st : PState} {c : Doc} (hnm : fl_NoMatch c.data) (hp : c.parents = [])
    (hf : st.known.any (·.1 == c.id) = false) :
    mergeDocument st c = .ok ⟨st.docs ++ [(c.id, c.data)], st.known ++ [(c.id, [])]⟩ := by
  rw [mergeDocument_eq, fl_mergeDocCore_noMatch hnm]
  unfold mergeDflt
  rw [hp, fl_parentsOf_nil, fl_addParents_fresh _ _ _ hf]
  rfl

theorem fl_run_roots : ∀ (pds : List Doc) (st : PState),
    (∀ c ∈ pds, fl_NoMatch c.data ∧ c.parents = []) →
    (∀ c ∈ pds, st.known.any (·.1 == c.id) = false) → (pds.map (·.id)).Nodup →
    runMerges st pds = .ok ⟨st.docs ++ pds.map (fun c => (c.id, c.data)),
      st.known ++ pds.map (fun c => (c.id, []))⟩
  | [], st, _, _, _ => by simp [runMerges_nil]
  | c :: pds, st, hc, hfresh, hnd => by
    have hc0 := hc c List.mem_cons_self
    have hnd' := List.nodup_cons.1 (List.map_cons ▸ hnd)
    rw [runMerges_cons, fl_root_step hc0.1 hc0.2 (hfresh c List.mem_cons_self)]
    simp only
    rw [fl_run_roots pds _ (fun c' hc' => hc c' (List.mem_cons_of_mem _ hc'))
      (fun c' hc' => fl_any_append_fresh _ _ _ (hfresh c' (List.mem_cons_of_mem _ hc'))
        (fun e => hnd'.1 (by rw [show c.id = c'.id from e]; exact List.mem_map_of_mem hc')))
      hnd'.2]
    simp

/-! ## a layer all of whose documents say `$match: null`: its documents are appended -/

/-- the patch is a map with `$match: null` -/
def fl_MatchNull (v : Val) : Prop := ∃ kvs, v = .map kvs ∧ fget kvs "$match" = some .null

/-- the patch minus its `$match` -/
def fl_body (v : Val) : Val :=
  match v with
  | .map kvs => .map (fdel kvs "$match")
  | v => v

theorem fl_matchNull_step {st : PState} {c : Doc} (hmn : fl_MatchNull c.data)
    (hf : st.known.any (·.1 == c.id) = false) :
    mergeDocument st c = .ok ⟨st.docs ++ [(c.id ++ "|matchnull", fl_body c.data)],
      st.known ++ [(c.id, c.parents ++ [c.id ++ "|matchnull"])]⟩ := by
  obtain ⟨kvs, hk, hg⟩ := hmn
  rw [mergeDocument_eq, ← fl_addParents_fresh2 _ _ _ _ hf, hk]
  unfold mergeDocCore
  simp only [hg, Val.isNull, if_true, fl_body]

theorem fl_run_matchNull : ∀ (mds : List Doc) (st : PState),
    (∀ c ∈ mds, fl_MatchNull c.data) →
    (∀ c ∈ mds, st.known.any (·.1 == c.id) = false) → (mds.map (·.id)).Nodup →
    runMerges st mds = .ok ⟨st.docs ++ mds.map (fun c => (c.id ++ "|matchnull", fl_body c.data)),
      st.known ++ mds.map (fun c => (c.id, c.parents ++ [c.id ++ "|matchnull"]))⟩
  | [], st, _, _, _ => by simp [runMerges_nil]
  | c :: mds, st, hc, hfresh, hnd => by
    have hnd' := List.nodup_cons.1 (List.map_cons ▸ hnd)
    rw [runMerges_cons, fl_matchNull_step (hc c List.mem_cons_self) (hfresh c List.mem_cons_self)]
    simp only
    rw [fl_run_matchNull mds _ (fun c' hc' => hc c' (List.mem_cons_of_mem _ hc'))
      (fun c' hc' => fl_any_append_fresh _ _ _ (hfresh c' (List.mem_cons_of_mem _ hc'))
        (fun e => hnd'.1 (by rw [show c.id = c'.id from e]; exact List.mem_map_of_mem hc')))
      hnd'.2]
    simp

/-- with pairwise distinct keys, an entry of the table is what `lookupParents` finds -/
theorem fl_lookup_of_mem : ∀ (known : List (String × List String)) (q : String) (L : List String),
    (known.map (·.1)).Nodup → (q, L) ∈ known → lookupParents known q = L
  | [], _, _, _, h => nomatch h
  | (i, old) :: l, q, L, hnd, h => by
    have hnd' := List.nodup_cons.1 (List.map_cons ▸ hnd)
    unfold lookupParents
    rw [List.find?_cons]
    by_cases hi : i = q
    · subst hi
      simp only [beq_self_eq_true]
      rcases List.mem_cons.1 h with e | e
      · exact (Prod.mk.inj e).2.symm
      · exact absurd (List.mem_map_of_mem (f := (·.1)) e) hnd'.1
    · have hb : (i == q) = false := by simpa using hi
      simp only [hb]
      rcases List.mem_cons.1 h with e | e
      · exact absurd (Prod.mk.inj e).1.symm hi
      · exact fl_lookup_of_mem l q L hnd'.2 e

/-! ## two- and three-file filename chains in a link-free directory -/

theorem fl_layerName1 (a : String) : layerName [a] = a := by
  unfold layerName; rw [String.intercalate_singleton]

theorem fl_layerName2 (a b : String) : layerName [a, b] = a ++ "." ++ b := by
  unfold layerName
  rw [String.intercalate_cons_cons, String.intercalate_singleton]

theorem fl_layerName3 (a b c : String) : layerName [a, b, c] = a ++ "." ++ b ++ "." ++ c := by
  unfold layerName
  rw [String.intercalate_cons_cons, String.intercalate_cons_cons, String.intercalate_singleton]
  simp only [String.append_assoc]

/-- `d/a.e₁` -/
def fl_pathA (d : Comps) (a e₁ : String) : Comps := d ++ [a ++ "." ++ e₁]
/-- `d/a.b.e₂` -/
def fl_pathB (d : Comps) (a b e₂ : String) : Comps := d ++ [a ++ "." ++ b ++ "." ++ e₂]
/-- `d/a.b.c.e₃` -/
def fl_pathC (d : Comps) (a b c e₃ : String) : Comps :=
  d ++ [a ++ "." ++ b ++ "." ++ c ++ "." ++ e₃]

/-- parent `d/a.e₁` with documents `ps`, child `d/a.b.e₂` with documents `cs`: plain names,
    link-free directory, each layer provided by exactly one file, no `$parent` anywhere -/
structure fl_Chain2 (fs : FS) (d : Comps) (a b e₁ e₂ : String) (ps cs : List Val) : Prop where
  dir : PlainDir fs d
  na : PlainName a
  nb : PlainName b
  fileA : LayerFile fs d a e₁ (.ok ps)
  fileB : LayerFile fs d (a ++ "." ++ b) e₂ (.ok cs)
  noParentA : ∀ v ∈ ps, parentDirective v = .ok .absent
  noParentB : ∀ v ∈ cs, parentDirective v = .ok .absent

/-- the same with a third file `d/a.b.c.e₃` holding `ts` on top -/
structure fl_Chain3 (fs : FS) (d : Comps) (a b c e₁ e₂ e₃ : String) (ps ms ts : List Val) :
    Prop extends fl_Chain2 fs d a b e₁ e₂ ps ms where
  nc : PlainName c
  fileC : LayerFile fs d (a ++ "." ++ b ++ "." ++ c) e₃ (.ok ts)
  noParentC : ∀ v ∈ ts, parentDirective v = .ok .absent

/-- file ids (`loadFileAndParents` prefixes a parent's id with the ids of the children it was
    reached from): `top` is the id of the child file -/
def fl_sub (top : String) (p : Comps) : String := top ++ "|" ++ pathStr p

theorem fl_chain2_ok {fs : FS} {d : Comps} {a b e₁ e₂ : String} {ps cs : List Val}
    (h : fl_Chain2 fs d a b e₁ e₂ ps cs) :
    ChainFilesOK fs d [] ([⟨a, e₁, ps⟩] ++ [⟨b, e₂, cs⟩]) := by
  have h0 := chainFilesOK_nil fs d []
  have h1 := chainFilesOK_snoc (x := ⟨a, e₁, ps⟩) h0
    (by simp only [List.nil_append, List.map_cons, List.map_nil]; rw [fl_layerName1]; exact h.fileA)
    h.noParentA
  exact chainFilesOK_snoc (x := ⟨b, e₂, cs⟩) h1
    (by simp only [List.nil_append, List.cons_append, List.map_cons, List.map_nil]
        rw [fl_layerName2]; exact h.fileB)
    h.noParentB

theorem fl_chain3_ok {fs : FS} {d : Comps} {a b c e₁ e₂ e₃ : String} {ps ms ts : List Val}
    (h : fl_Chain3 fs d a b c e₁ e₂ e₃ ps ms ts) :
    ChainFilesOK fs d [] ([⟨a, e₁, ps⟩, ⟨b, e₂, ms⟩] ++ [⟨c, e₃, ts⟩]) := by
  have h2 := fl_chain2_ok h.tofl_Chain2
  exact chainFilesOK_snoc (x := ⟨c, e₃, ts⟩) h2
    (by simp only [List.nil_append, List.cons_append, List.map_cons, List.map_nil]
        rw [fl_layerName3]; exact h.fileC)
    h.noParentC

theorem fl_prefixPath2 (d : Comps) (a b e₁ e₂ : String) (ps cs : List Val) :
    prefixPath d [] ([⟨a, e₁, ps⟩] ++ [⟨b, e₂, cs⟩]) = fl_pathB d a b e₂ := by
  rw [prefixPath_snoc]
  simp only [List.nil_append, List.cons_append, List.map_cons, List.map_nil]
  rw [fl_layerName2]; rfl

theorem fl_prefixPath3 (d : Comps) (a b c e₁ e₂ e₃ : String) (ps ms ts : List Val) :
    prefixPath d [] ([⟨a, e₁, ps⟩, ⟨b, e₂, ms⟩] ++ [⟨c, e₃, ts⟩]) = fl_pathC d a b c e₃ := by
  rw [prefixPath_snoc]
  simp only [List.nil_append, List.cons_append, List.map_cons, List.map_nil]
  rw [fl_layerName3]; rfl

theorem fl_clPath1 (d : Comps) (a e₁ : String) (ps : List Val) :
    clPath d [] [⟨a, e₁, ps⟩] = fl_pathA d a e₁ := by
  simp only [clPath, cnames, List.nil_append, List.reverse_cons, List.reverse_nil, List.map_cons,
    List.map_nil]
  rw [fl_layerName1]; rfl

theorem fl_clPath2 (d : Comps) (a b e₁ e₂ : String) (ps cs : List Val) :
    clPath d [] [⟨b, e₂, cs⟩, ⟨a, e₁, ps⟩] = fl_pathB d a b e₂ := by
  simp only [clPath, cnames, List.nil_append, List.reverse_cons, List.reverse_nil, List.map_cons,
    List.map_nil, List.cons_append]
  rw [fl_layerName2]; rfl

theorem fl_clPath3 (d : Comps) (a b c e₁ e₂ e₃ : String) (ps ms ts : List Val) :
    clPath d [] [⟨c, e₃, ts⟩, ⟨b, e₂, ms⟩, ⟨a, e₁, ps⟩] = fl_pathC d a b c e₃ := by
  simp only [clPath, cnames, List.nil_append, List.reverse_cons, List.reverse_nil, List.map_cons,
    List.map_nil, List.cons_append]
  rw [fl_layerName3]; rfl

/-- the files `loadFileAndParents` returns for the two-file chain, parent first -/
def fl_files2 (d : Comps) (a b e₁ e₂ : String) (ps cs : List Val) : List LFile :=
  [{ id := fl_sub (pathStr (fl_pathB d a b e₂)) (fl_pathA d a e₁), path := fl_pathA d a e₁,
     docs := plainDocs (fl_sub (pathStr (fl_pathB d a b e₂)) (fl_pathA d a e₁)) [] ps },
   { id := pathStr (fl_pathB d a b e₂), path := fl_pathB d a b e₂,
     docs := plainDocs (pathStr (fl_pathB d a b e₂))
       (docIdsOf (fl_sub (pathStr (fl_pathB d a b e₂)) (fl_pathA d a e₁)) ps.length) cs }]

theorem fl_chainFiles2 (d : Comps) (a b e₁ e₂ : String) (ps cs : List Val) :
    chainFiles d [] none [⟨b, e₂, cs⟩, ⟨a, e₁, ps⟩] = fl_files2 d a b e₁ e₂ ps cs := by
  rw [chainFiles_cons, chainFiles_cons]
  simp only [chainFiles, List.nil_append, List.cons_append, fileIdOf, fl_clPath1, fl_clPath2]
  rfl

/-- the files for the three-file chain, base first -/
def fl_files3 (d : Comps) (a b c e₁ e₂ e₃ : String) (ps ms ts : List Val) : List LFile :=
  [{ id := fl_sub (fl_sub (pathStr (fl_pathC d a b c e₃)) (fl_pathB d a b e₂)) (fl_pathA d a e₁),
     path := fl_pathA d a e₁,
     docs := plainDocs
       (fl_sub (fl_sub (pathStr (fl_pathC d a b c e₃)) (fl_pathB d a b e₂)) (fl_pathA d a e₁)) [] ps },
   { id := fl_sub (pathStr (fl_pathC d a b c e₃)) (fl_pathB d a b e₂), path := fl_pathB d a b e₂,
     docs := plainDocs (fl_sub (pathStr (fl_pathC d a b c e₃)) (fl_pathB d a b e₂))
       (docIdsOf (fl_sub (fl_sub (pathStr (fl_pathC d a b c e₃)) (fl_pathB d a b e₂))
          (fl_pathA d a e₁)) ps.length) ms },
   { id := pathStr (fl_pathC d a b c e₃), path := fl_pathC d a b c e₃,
     docs := plainDocs (pathStr (fl_pathC d a b c e₃))
       (docIdsOf (fl_sub (pathStr (fl_pathC d a b c e₃)) (fl_pathB d a b e₂)) ms.length) ts }]

theorem fl_chainFiles3 (d : Comps) (a b c e₁ e₂ e₃ : String) (ps ms ts : List Val) :
    chainFiles d [] none [⟨c, e₃, ts⟩, ⟨b, e₂, ms⟩, ⟨a, e₁, ps⟩] =
      fl_files3 d a b c e₁ e₂ e₃ ps ms ts := by
  rw [chainFiles_cons, chainFiles_cons, chainFiles_cons]
  simp only [chainFiles, List.nil_append, List.cons_append, fileIdOf, fl_clPath1, fl_clPath2,
    fl_clPath3]
  rfl

theorem fl_load2 {fs : FS} {d : Comps} {a b e₁ e₂ : String} {ps cs : List Val}
    (h : fl_Chain2 fs d a b e₁ e₂ ps cs) (cwd : Comps) :
    loadFileAndParents fs ⟨[], cwd⟩ loadFuel (fl_pathB d a b e₂) none [] [] =
      .ok (fl_files2 d a b e₁ e₂ ps cs, docIdsOf (pathStr (fl_pathB d a b e₂)) cs.length) := by
  have hl := load_chain (cwd := cwd) h.dir [⟨a, e₁, ps⟩] ⟨b, e₂, cs⟩ (by simp [loadFuel])
    (by
      intro y hy
      simp only [List.cons_append, List.nil_append, List.mem_cons, List.not_mem_nil, or_false] at hy
      rcases hy with rfl | rfl
      · exact h.na
      · exact h.nb)
    (fl_chain2_ok h)
  rw [fl_prefixPath2] at hl
  rw [hl]
  simp only [List.cons_append, List.nil_append, List.reverse_cons, List.reverse_nil]
  rw [fl_chainFiles2]

theorem fl_load3 {fs : FS} {d : Comps} {a b c e₁ e₂ e₃ : String} {ps ms ts : List Val}
    (h : fl_Chain3 fs d a b c e₁ e₂ e₃ ps ms ts) (cwd : Comps) :
    loadFileAndParents fs ⟨[], cwd⟩ loadFuel (fl_pathC d a b c e₃) none [] [] =
      .ok (fl_files3 d a b c e₁ e₂ e₃ ps ms ts,
        docIdsOf (pathStr (fl_pathC d a b c e₃)) ts.length) := by
  have hl := load_chain (cwd := cwd) h.dir [⟨a, e₁, ps⟩, ⟨b, e₂, ms⟩] ⟨c, e₃, ts⟩ (by simp [loadFuel])
    (by
      intro y hy
      simp only [List.cons_append, List.nil_append, List.mem_cons, List.not_mem_nil, or_false] at hy
      rcases hy with rfl | rfl | rfl
      · exact h.na
      · exact h.nb
      · exact h.nc)
    (fl_chain3_ok h)
  rw [fl_prefixPath3] at hl
  rw [hl]
  simp only [List.cons_append, List.nil_append, List.reverse_cons, List.reverse_nil]
  rw [fl_chainFiles3]

/-- `mergeFileLayers` on the child of a two-file chain: the parent's documents, then the
    child's, each child document pointing at all of the parent's -/
theorem fl_stream2 {fs : FS} {d : Comps} {a b e₁ e₂ : String} {ps cs : List Val}
    (h : fl_Chain2 fs d a b e₁ e₂ ps cs) (cwd : Comps) (st : PState) :
    mergeFileLayers fs ⟨[], cwd⟩ st (fl_pathB d a b e₂) =
      runMerges st
        (plainDocs (fl_sub (pathStr (fl_pathB d a b e₂)) (fl_pathA d a e₁)) [] ps ++
         plainDocs (pathStr (fl_pathB d a b e₂))
           (docIdsOf (fl_sub (pathStr (fl_pathB d a b e₂)) (fl_pathA d a e₁)) ps.length) cs) := by
  rw [mergeFileLayers_eq, fl_load2 h cwd]
  simp only
  rw [mergeFiles_eq]
  simp [fl_files2]

theorem fl_stream3 {fs : FS} {d : Comps} {a b c e₁ e₂ e₃ : String} {ps ms ts : List Val}
    (h : fl_Chain3 fs d a b c e₁ e₂ e₃ ps ms ts) (cwd : Comps) (st : PState) :
    mergeFileLayers fs ⟨[], cwd⟩ st (fl_pathC d a b c e₃) =
      runMerges st
        (plainDocs (fl_sub (fl_sub (pathStr (fl_pathC d a b c e₃)) (fl_pathB d a b e₂))
            (fl_pathA d a e₁)) [] ps ++
         (plainDocs (fl_sub (pathStr (fl_pathC d a b c e₃)) (fl_pathB d a b e₂))
            (docIdsOf (fl_sub (fl_sub (pathStr (fl_pathC d a b c e₃)) (fl_pathB d a b e₂))
              (fl_pathA d a e₁)) ps.length) ms ++
          plainDocs (pathStr (fl_pathC d a b c e₃))
            (docIdsOf (fl_sub (pathStr (fl_pathC d a b c e₃)) (fl_pathB d a b e₂)) ms.length) ts)) := by
  rw [mergeFileLayers_eq, fl_load3 h cwd]
  simp only
  rw [mergeFiles_eq]
  simp [fl_files3]

/-! ## the documents of a loaded file, as pairs -/

theorem fl_zipDocs_map2 {β γ : Type} (P : List String) (f : String → β) (g : Val → γ) :
    ∀ (vs : List Val) (ids : List String), vs.length = ids.length →
      ((vs.zip ids).map fun (x : Val × String) => (f x.2, g x.1)) = (ids.map f).zip (vs.map g)
  | [], [], _ => rfl
  | [], _ :: _, h => by simp at h
  | _ :: _, [], h => by simp at h
  | v :: vs, i :: ids, h => by
    rw [List.zip_cons_cons, List.map_cons, List.map_cons, List.map_cons, List.zip_cons_cons,
      fl_zipDocs_map2 P f g vs ids (by simpa using h)]

theorem fl_plainDocs_map2 {β γ : Type} (fid : String) (P : List String) (vs : List Val)
    (f : String → β) (g : Val → γ) :
    (plainDocs fid P vs).map (fun c => (f c.id, g c.data)) =
      ((docIdsOf fid vs.length).map f).zip (vs.map g) := by
  unfold plainDocs
  rw [List.map_map]
  exact fl_zipDocs_map2 P f g vs _ (docIdsOf_length fid vs.length).symm

theorem fl_plainDocs_pairs (fid : String) (P : List String) (vs : List Val) :
    (plainDocs fid P vs).map (fun c => (c.id, c.data)) = (docIdsOf fid vs.length).zip vs := by
  have := fl_plainDocs_map2 fid P vs (fun i => i) (fun v => v)
  simpa using this

theorem fl_mem_plainDocs {fid : String} {P : List String} {vs : List Val} {c : Doc}
    (h : c ∈ plainDocs fid P vs) :
    c.parents = P ∧ c.data ∈ vs ∧ c.id ∈ docIdsOf fid vs.length := by
  have h1 : c.id ∈ docIdsOf fid vs.length := by
    rw [← plainDocs_ids fid P vs]; exact List.mem_map_of_mem h
  have h2 : c.data ∈ vs := by
    have : c.data ∈ (plainDocs fid P vs).map (·.data) := List.mem_map_of_mem h
    rwa [plainDocs_data] at this
  refine ⟨?_, h2, h1⟩
  unfold plainDocs at h
  obtain ⟨⟨v, i⟩, _, rfl⟩ := List.mem_map.1 h
  rfl

theorem fl_plainDocs_map_id (fid : String) (P : List String) (vs : List Val) {β : Type}
    (F : String → List String → β) :
    (plainDocs fid P vs).map (fun c => F c.id c.parents) =
      (docIdsOf fid vs.length).map (fun i => F i P) := by
  have h1 : (plainDocs fid P vs).map (fun c => F c.id c.parents) =
      (plainDocs fid P vs).map (fun c => F c.id P) := by
    apply List.map_congr_left
    intro c hc
    rw [(fl_mem_plainDocs hc).1]
  rw [h1, ← plainDocs_ids fid P vs, List.map_map]
  rfl

theorem fl_plainDocs_getElem? (fid : String) (P : List String) (vs : List Val) (k : Nat) (c : Doc)
    (h : (plainDocs fid P vs)[k]? = some c) :
    c.id = fid ++ "|doc" ++ toString k ∧ c.parents = P ∧ vs[k]? = some c.data := by
  have hm := fl_mem_plainDocs (List.mem_of_getElem? h)
  have hk : k < vs.length := by
    have := (List.getElem?_eq_some_iff.1 h).1
    rwa [fl_plainDocs_length] at this
  refine ⟨?_, hm.1, ?_⟩
  · have h1 : ((plainDocs fid P vs).map (·.id))[k]? = some c.id := by
      rw [List.getElem?_map, h]; rfl
    rw [plainDocs_ids, fl_docIdsOf_getElem? fid _ k hk] at h1
    exact (Option.some.inj h1).symm
  · have h1 : ((plainDocs fid P vs).map (·.data))[k]? = some c.data := by
      rw [List.getElem?_map, h]; rfl
    rwa [plainDocs_data] at h1

theorem fl_lookup_all_nil (ids : List String) (q : String) :
    lookupParents (ids.map (fun i => (i, ([] : List String)))) q = [] := by
  unfold lookupParents
  cases h : (ids.map (fun i => (i, ([] : List String)))).find? (·.1 == q) with
  | none => rfl
  | some e =>
    have := List.mem_of_find?_eq_some h
    obtain ⟨i, _, rfl⟩ := List.mem_map.1 this
    rfl

theorem fl_any_map_key {β : Type} (ids : List String) (f : String → β) (q : String)
    (h : q ∉ ids) : (ids.map (fun i => (i, f i))).any (·.1 == q) = false := by
  rw [List.any_eq_false]
  intro e he
  obtain ⟨i, hi, rfl⟩ := List.mem_map.1 he
  simp only [beq_iff_eq]
  intro e'
  exact h (e' ▸ hi)

/-- ids of different files of a chain never meet -/
theorem fl_docIds_disjoint {c g : String} (hg : fl_Below c g) (n m : Nat) :
    ∀ x ∈ docIdsOf g n, x ∉ docIdsOf c m := by
  intro x hx hx'
  obtain ⟨i, _, rfl⟩ := fl_mem_docIdsOf.1 hx
  obtain ⟨j, _, e⟩ := fl_mem_docIdsOf.1 hx'
  exact fl_docId_ne_below hg i j e

theorem fl_below_sub (top : String) (p : Comps) : fl_Below top (fl_sub top p) :=
  fl_below_bar_path top p

/-! ## the two-layer stream, abstractly: file ids `fidA` (below) and `fidB` -/

section twoLayer
variable {fidA fidB : String} (hb : fl_Below fidB fidA) (ps cs : List Val)

/-- the parent file alone: its documents, in order, as the stream; all roots -/
theorem fl_parent_run (hnp : ∀ p ∈ ps, fl_NoMatch p) :
    runMerges PState.empty (plainDocs fidA [] ps) =
      .ok ⟨(docIdsOf fidA ps.length).zip ps, (docIdsOf fidA ps.length).map (fun i => (i, []))⟩ := by
  rw [fl_run_roots (plainDocs fidA [] ps) PState.empty
    (fun c hc => ⟨hnp _ (fl_mem_plainDocs hc).2.1, (fl_mem_plainDocs hc).1⟩)
    (fun c hc => rfl) (by rw [plainDocs_ids]; exact fl_docIdsOf_nodup _ _)]
  simp only [PState.empty, List.nil_append]
  rw [fl_plainDocs_pairs, fl_plainDocs_map_id fidA [] ps (fun i _ => (i, ([] : List String)))]

include hb in
theorem fl_two_ids_nodup (k : Nat) :
    (docIdsOf fidA ps.length ++ ((plainDocs fidB (docIdsOf fidA ps.length) cs).take k).map (·.id)).Nodup := by
  rw [List.nodup_append]
  have hsub : ∀ x ∈ ((plainDocs fidB (docIdsOf fidA ps.length) cs).take k).map (·.id),
      x ∈ docIdsOf fidB cs.length := by
    intro x hx
    rw [List.map_take] at hx
    have := List.mem_of_mem_take hx
    rwa [plainDocs_ids] at this
  refine ⟨fl_docIdsOf_nodup _ _, ?_, ?_⟩
  · rw [List.map_take, plainDocs_ids]
    exact (List.take_sublist _ _).nodup (fl_docIdsOf_nodup _ _)
  · intro a ha b hb' e
    subst e
    exact fl_docIds_disjoint hb _ _ a ha (hsub a hb')

theorem fl_two_ids_noMN (k : Nat) :
    ∀ s ∈ docIdsOf fidA ps.length ++ ((plainDocs fidB (docIdsOf fidA ps.length) cs).take k).map (·.id),
      NoMN s := by
  intro s hs
  rcases List.mem_append.1 hs with h | h
  · exact fl_noMN_of_mem_docIdsOf h
  · rw [List.map_take] at h
    have := List.mem_of_mem_take h
    rw [plainDocs_ids] at this
    exact fl_noMN_of_mem_docIdsOf this

/-- the state after the parent file satisfies the child-run invariant -/
theorem fl_childInv_init :
    fl_ChildInv (docIdsOf fidA ps.length) (docIdsOf fidA ps.length)
      ⟨(docIdsOf fidA ps.length).zip ps, (docIdsOf fidA ps.length).map (fun i => (i, []))⟩ := by
  have hids : ((docIdsOf fidA ps.length).zip ps).map (·.1) = docIdsOf fidA ps.length :=
    fl_map_fst_zip _ _ (docIdsOf_length _ _)
  refine ⟨⟨?_, ?_⟩, fun _ h => h, ⟨[], by rw [List.append_nil]; exact hids⟩,
    fun p _ => fl_lookup_all_nil _ p⟩
  · show (((docIdsOf fidA ps.length).zip ps).map (·.1)).Nodup
    rw [hids]; exact fl_docIdsOf_nodup _ _
  · intro x hx
    have hx' : x ∈ ((docIdsOf fidA ps.length).zip ps).map (·.1) := hx
    rw [hids] at hx'
    exact .inl hx'

include hb in
/-- every state the child run passes through satisfies the invariant, and the next child
    document's id is fresh -/
theorem fl_childInv_reach {k : Nat} {st : PState}
    (h : runMerges ⟨(docIdsOf fidA ps.length).zip ps, (docIdsOf fidA ps.length).map (fun i => (i, []))⟩
      ((plainDocs fidB (docIdsOf fidA ps.length) cs).take k) = .ok st) :
    fl_ChildInv (docIdsOf fidA ps.length)
      (docIdsOf fidA ps.length ++ ((plainDocs fidB (docIdsOf fidA ps.length) cs).take k).map (·.id)) st :=
  fl_childInv_run _ _ _ _ (fl_childInv_init ps) (fl_two_ids_nodup hb ps cs k)
    (fl_two_ids_noMN ps cs k) h

include hb in
theorem fl_child_next_fresh {k : Nat} {c : Doc}
    (hc : (plainDocs fidB (docIdsOf fidA ps.length) cs)[k]? = some c) :
    c.id ∉ docIdsOf fidA ps.length ++
      ((plainDocs fidB (docIdsOf fidA ps.length) cs).take k).map (·.id) := by
  have hnd := fl_two_ids_nodup hb ps cs (k + 1)
  rw [List.take_add_one, hc] at hnd
  simp only [Option.toList_some, List.map_append, List.map_cons, List.map_nil] at hnd
  rw [← List.append_assoc] at hnd
  intro hm
  exact (List.nodup_append.1 hnd).2.2 _ hm c.id (by simp) rfl

end twoLayer

/-! ## document `i` of the file below, through a whole layer -/

theorem fl_child_run_doc {pids : List String} {i : Nat} {pid : String} (hp : pids[i]? = some pid) :
    ∀ (cds : List Doc) (seen : List String) (st st' : PState) (v : Val),
    fl_ChildInv pids seen st → (∀ c ∈ cds, c.parents = pids) → (seen ++ cds.map (·.id)).Nodup →
    (∀ s ∈ seen ++ cds.map (·.id), NoMN s) → runMerges st cds = .ok st' →
    st.docs[i]? = some (pid, v) →
    ∃ v', (cds.map (·.data)).foldlM fl_layerStep v = .ok v' ∧ st'.docs[i]? = some (pid, v')
  | [], seen, st, st', v, _, _, _, _, h, hv => by
    rw [runMerges_nil] at h
    cases h
    exact ⟨v, rfl, hv⟩
  | c :: cds, seen, st, st', v, hI, hcp, hnd, hmn, h, hv => by
    rw [runMerges_cons] at h
    cases hm : mergeDocument st c with
    | error e => rw [hm] at h; cases h
    | ok s =>
      rw [hm] at h
      rw [List.map_cons] at hnd hmn
      have hid : c.id ∉ seen := by
        intro hmem
        exact (List.nodup_append.1 hnd).2.2 _ hmem c.id List.mem_cons_self rfl
      obtain ⟨v1, hv1, hs1⟩ := fl_child_step_doc hI (hcp c List.mem_cons_self) hid hm hp hv
      have hI' := fl_childInv_step hI (fun s hs => hmn s (List.mem_append_left _ hs)) hid
        (hmn c.id (by simp)) hm
      have e : seen ++ c.id :: cds.map (·.id) = (seen ++ [c.id]) ++ cds.map (·.id) := by simp
      rw [e] at hnd hmn
      obtain ⟨v', hv', hs'⟩ := fl_child_run_doc hp cds _ s st' v1 hI'
        (fun c' hc' => hcp c' (List.mem_cons_of_mem _ hc')) hnd hmn h hs1
      refine ⟨v', ?_, hs'⟩
      rw [List.map_cons, fl_foldlM_cons, hv1]
      exact hv'

section twoLayer2
variable {fidA fidB : String} (hb : fl_Below fidB fidA) (ps cs : List Val)

include hb in
/-- **two layers, one document**: after the parent file (documents `ps`, no `$match`) and the
    child file (documents `cs`, anything goes) document `i` is `ps[i]` taken through the
    child's documents by `fl_layerStep` — no other parent document enters -/
theorem fl_two_layer_doc (hnp : ∀ p ∈ ps, fl_NoMatch p) {st : PState}
    (h : runMerges PState.empty
      (plainDocs fidA [] ps ++ plainDocs fidB (docIdsOf fidA ps.length) cs) = .ok st)
    (i : Nat) (hi : i < ps.length) :
    ∃ v, cs.foldlM fl_layerStep ps[i] = .ok v ∧
      st.docs[i]? = some (fidA ++ "|doc" ++ toString i, v) := by
  rw [fl_runMerges_append, fl_parent_run ps hnp] at h
  simp only at h
  have hp := fl_docIdsOf_getElem? fidA ps.length i hi
  have hk := fl_two_ids_nodup hb ps cs cs.length
  have hm := fl_two_ids_noMN (fidA := fidA) (fidB := fidB) ps cs cs.length
  have htake : (plainDocs fidB (docIdsOf fidA ps.length) cs).take cs.length =
      plainDocs fidB (docIdsOf fidA ps.length) cs := by
    apply List.take_of_length_le
    rw [fl_plainDocs_length]; exact Nat.le_refl _
  rw [htake] at hk hm
  have := fl_child_run_doc hp (plainDocs fidB (docIdsOf fidA ps.length) cs) _ _ st ps[i]
    (fl_childInv_init ps) (fun c hc => (fl_mem_plainDocs hc).1) hk hm h
    (by
      rw [List.getElem?_zip_eq_some]
      exact ⟨hp, List.getElem?_eq_getElem hi⟩)
  rwa [plainDocs_data] at this

include hb in
/-- **two layers without `$match`**: the whole result, explicitly -/
theorem fl_two_layer_all (hne : ps ≠ []) (hnp : ∀ p ∈ ps, fl_NoMatch p)
    (hnc : ∀ c ∈ cs, fl_NoMatch c) :
    runMerges PState.empty
      (plainDocs fidA [] ps ++ plainDocs fidB (docIdsOf fidA ps.length) cs) =
      match fl_layerAll ps cs with
      | .error e => .error e
      | .ok vs => .ok ⟨(docIdsOf fidA ps.length).zip vs,
          (docIdsOf fidA ps.length).map (fun i => (i, [])) ++
          (docIdsOf fidB cs.length).map
            (fun i => (i, docIdsOf fidA ps.length ++ docIdsOf fidA ps.length))⟩ := by
  rw [fl_runMerges_append, fl_parent_run ps hnp]
  simp only
  have hpne : docIdsOf fidA ps.length ≠ [] := by
    intro e
    have := congrArg List.length e
    rw [docIdsOf_length] at this
    exact hne (List.eq_nil_of_length_eq_zero this)
  rw [fl_run_all (docIdsOf fidA ps.length) (docIdsOf fidA ps.length) hpne
    (plainDocs fidB (docIdsOf fidA ps.length) cs) ps _ (docIdsOf_length _ _)
    (fun c hc => ⟨hnc _ (fl_mem_plainDocs hc).2.1, (fl_mem_plainDocs hc).1⟩)
    (fun id hid => .direct hid)
    (fun c hc => fl_any_map_key _ _ _
      (fun hm => fl_docIds_disjoint hb _ _ _ hm (fl_mem_plainDocs hc).2.2))
    (by rw [plainDocs_ids]; exact fl_docIdsOf_nodup _ _)]
  rw [plainDocs_data, fl_plainDocs_map_id fidB (docIdsOf fidA ps.length) cs
    (fun i _ => (i, docIdsOf fidA ps.length ++ docIdsOf fidA ps.length))]

end twoLayer2

/-- in a state of the child run, the documents that are ancestors of the next child document
    are the parent file's documents -/
theorem fl_ids_filter_pids {pids seen : List String} {st : PState} (hI : fl_ChildInv pids seen st) :
    (st.docs.filter fun d => pids.contains d.1).map (·.1) = pids := by
  obtain ⟨extra, he⟩ := hI.pre
  rw [filter_ids st.docs (fun i => pids.contains i), he]
  have hnd := hI.ids.1
  rw [he] at hnd
  exact fl_filter_prefix pids extra hnd pids (fun _ => Iff.rfl)

/-! ## three layers: base, a layer of `$match: null` documents, a `$match`-free layer on top -/

theorem fl_lookup_appendL_mono (known L : List (String × List String)) (q x : String)
    (hx : x ∈ lookupParents known q) : x ∈ lookupParents (known ++ L) q := by
  unfold lookupParents at hx ⊢
  rw [List.find?_append]
  cases hf : known.find? (·.1 == q) with
  | none => rw [hf] at hx; cases hx
  | some y => rw [hf] at hx; exact hx

/-- the states `fl_run_all` passes through: same ids, the ancestry is kept -/
theorem fl_run_all_reach (D ids : List String) (hne : ids ≠ []) (cds : List Doc) (vs : List Val)
    (known : List (String × List String)) (hl : ids.length = vs.length)
    (hc : ∀ c ∈ cds, fl_NoMatch c.data ∧ c.parents = D) (hanc : ∀ id ∈ ids, Ancestor known D id)
    (hfresh : ∀ c ∈ cds, known.any (·.1 == c.id) = false) (hnd : (cds.map (·.id)).Nodup)
    {st : PState} (h : runMerges ⟨ids.zip vs, known⟩ cds = .ok st) :
    st.docs.map (·.1) = ids ∧ ∀ id ∈ ids, Ancestor st.known D id := by
  rw [fl_run_all D ids hne cds vs known hl hc hanc hfresh hnd] at h
  cases hla : fl_layerAll vs (cds.map (·.data)) with
  | error e => rw [hla] at h; cases h
  | ok vs' =>
    rw [hla] at h
    cases h
    have hlen : vs'.length = vs.length := by
      clear hc hfresh hnd
      induction cds generalizing vs with
      | nil => rw [List.map_nil, fl_layerAll_nil] at hla; cases hla; rfl
      | cons c cds ih =>
        rw [List.map_cons, fl_layerAll_cons] at hla
        cases hm : vs.mapM (fun p => merge p c.data) with
        | error e => rw [hm] at hla; cases hla
        | ok vs1 =>
          rw [hm] at hla
          rw [ih vs1 (by rw [hl, fl_mapM_length _ hm]) hla, fl_mapM_length _ hm]
    refine ⟨fl_map_fst_zip _ _ (by rw [hlen, hl]), ?_⟩
    intro id hid
    exact fl_ancestor_mono (fun q y hy => fl_lookup_appendL_mono _ _ _ _ hy) (hanc id hid)

/-- the parent table after the base file and the `$match: null` layer -/
def fl_knownM (pids mids : List String) : List (String × List String) :=
  pids.map (fun i => (i, [])) ++ mids.map (fun i => (i, pids ++ [i ++ "|matchnull"]))

section threeLayer
variable {fidA fidB fidC : String} (hBA : fl_Below fidB fidA) (hCB : fl_Below fidC fidB)
  (ps ms ts : List Val)

include hBA in
/-- after the base file and the `$match: null` layer: base documents, then one appended
    document `id|matchnull` per layer document, holding the patch minus `$match` -/
theorem fl_three_mid (hnp : ∀ p ∈ ps, fl_NoMatch p) (hmn : ∀ v ∈ ms, fl_MatchNull v) :
    runMerges PState.empty
      (plainDocs fidA [] ps ++ plainDocs fidB (docIdsOf fidA ps.length) ms) =
      .ok ⟨(docIdsOf fidA ps.length).zip ps ++
            ((docIdsOf fidB ms.length).map (· ++ "|matchnull")).zip (ms.map fl_body),
          fl_knownM (docIdsOf fidA ps.length) (docIdsOf fidB ms.length)⟩ := by
  rw [fl_runMerges_append, fl_parent_run ps hnp]
  simp only
  rw [fl_run_matchNull (plainDocs fidB (docIdsOf fidA ps.length) ms) _
    (fun c hc => hmn _ (fl_mem_plainDocs hc).2.1)
    (fun c hc => fl_any_map_key _ _ _
      (fun hm => fl_docIds_disjoint hBA _ _ _ hm (fl_mem_plainDocs hc).2.2))
    (by rw [plainDocs_ids]; exact fl_docIdsOf_nodup _ _)]
  simp only
  rw [fl_plainDocs_map2 fidB (docIdsOf fidA ps.length) ms (· ++ "|matchnull") fl_body,
    fl_plainDocs_map_id fidB (docIdsOf fidA ps.length) ms
      (fun i P => (i, P ++ [i ++ "|matchnull"]))]
  rfl

include hBA in
theorem fl_knownM_keys_nodup :
    ((fl_knownM (docIdsOf fidA ps.length) (docIdsOf fidB ms.length)).map (·.1)).Nodup := by
  unfold fl_knownM
  rw [List.map_append, List.map_map, List.map_map]
  have e1 : ((fun x : String × List String => x.1) ∘ fun i : String => (i, ([] : List String))) = id := rfl
  have e2 : ((fun x : String × List String => x.1) ∘
      fun i : String => (i, docIdsOf fidA ps.length ++ [i ++ "|matchnull"])) = id := rfl
  rw [e1, e2, List.map_id, List.map_id, List.nodup_append]
  refine ⟨fl_docIdsOf_nodup _ _, fl_docIdsOf_nodup _ _, ?_⟩
  intro a ha b hb e
  subst e
  exact fl_docIds_disjoint hBA _ _ a ha hb

include hBA in
/-- **every document of the stream is an ancestor of a third-layer document**: the appended
    documents through the `|matchnull` link, the base documents through the middle layer's own
    parents -/
theorem fl_three_anc (hne : ms ≠ []) :
    ∀ id ∈ docIdsOf fidA ps.length ++ (docIdsOf fidB ms.length).map (· ++ "|matchnull"),
      Ancestor (fl_knownM (docIdsOf fidA ps.length) (docIdsOf fidB ms.length))
        (docIdsOf fidB ms.length) id := by
  have hlook : ∀ mi ∈ docIdsOf fidB ms.length,
      lookupParents (fl_knownM (docIdsOf fidA ps.length) (docIdsOf fidB ms.length)) mi =
        docIdsOf fidA ps.length ++ [mi ++ "|matchnull"] := by
    intro mi hmi
    apply fl_lookup_of_mem _ _ _ (fl_knownM_keys_nodup hBA ps ms)
    unfold fl_knownM
    exact List.mem_append_right _ (List.mem_map.2 ⟨mi, hmi, rfl⟩)
  intro id hid
  rcases List.mem_append.1 hid with h | h
  · have h0 : fidB ++ "|doc" ++ toString 0 ∈ docIdsOf fidB ms.length :=
      fl_mem_docIdsOf.2 ⟨0, List.length_pos_iff.2 hne, rfl⟩
    refine .step (.direct h0) ?_
    rw [hlook _ h0]
    exact List.mem_append_left _ h
  · obtain ⟨mi, hmi, rfl⟩ := List.mem_map.1 h
    refine .step (.direct hmi) ?_
    rw [hlook _ hmi]
    simp

include hBA hCB in
theorem fl_three_fresh (c : Doc)
    (hc : c ∈ plainDocs fidC (docIdsOf fidB ms.length) ts) :
    (fl_knownM (docIdsOf fidA ps.length) (docIdsOf fidB ms.length)).any (·.1 == c.id) = false := by
  have hcid := (fl_mem_plainDocs hc).2.2
  unfold fl_knownM
  rw [List.any_append, fl_any_map_key _ _ _
      (fun hm => fl_docIds_disjoint (fl_below_trans hCB hBA) _ _ _ hm hcid),
    fl_any_map_key _ _ _ (fun hm => fl_docIds_disjoint hCB _ _ _ hm hcid)]
  rfl

theorem fl_three_docs_zip :
    (docIdsOf fidA ps.length).zip ps ++
        ((docIdsOf fidB ms.length).map (· ++ "|matchnull")).zip (ms.map fl_body) =
      (docIdsOf fidA ps.length ++ (docIdsOf fidB ms.length).map (· ++ "|matchnull")).zip
        (ps ++ ms.map fl_body) :=
  (List.zip_append (docIdsOf_length _ _)).symm

include hBA hCB in
/-- **three layers**: every document of the third layer is merged into the base documents *and*
    the documents the middle layer appended -/
theorem fl_three_all (hne : ms ≠ []) (hnp : ∀ p ∈ ps, fl_NoMatch p)
    (hmn : ∀ v ∈ ms, fl_MatchNull v) (hnt : ∀ t ∈ ts, fl_NoMatch t) :
    runMerges PState.empty
      (plainDocs fidA [] ps ++ (plainDocs fidB (docIdsOf fidA ps.length) ms ++
        plainDocs fidC (docIdsOf fidB ms.length) ts)) =
      match fl_layerAll (ps ++ ms.map fl_body) ts with
      | .error e => .error e
      | .ok vs => .ok ⟨(docIdsOf fidA ps.length ++
            (docIdsOf fidB ms.length).map (· ++ "|matchnull")).zip vs,
          fl_knownM (docIdsOf fidA ps.length) (docIdsOf fidB ms.length) ++
          (docIdsOf fidC ts.length).map (fun i => (i, docIdsOf fidB ms.length ++
            (docIdsOf fidA ps.length ++ (docIdsOf fidB ms.length).map (· ++ "|matchnull"))))⟩ := by
  rw [← List.append_assoc, fl_runMerges_append, fl_three_mid hBA ps ms hnp hmn]
  simp only
  rw [fl_three_docs_zip]
  have hidne : docIdsOf fidA ps.length ++ (docIdsOf fidB ms.length).map (· ++ "|matchnull") ≠ [] := by
    intro e
    have := congrArg List.length e
    simp only [List.length_append, List.length_map, docIdsOf_length, List.length_nil] at this
    have hp := List.length_pos_iff.2 hne
    omega
  rw [fl_run_all (docIdsOf fidB ms.length) _ hidne (plainDocs fidC (docIdsOf fidB ms.length) ts)
    (ps ++ ms.map fl_body) _
    (by simp [docIdsOf_length])
    (fun c hc => ⟨hnt _ (fl_mem_plainDocs hc).2.1, (fl_mem_plainDocs hc).1⟩)
    (fl_three_anc hBA ps ms hne)
    (fl_three_fresh hBA hCB ps ms ts)
    (by rw [plainDocs_ids]; exact fl_docIdsOf_nodup _ _)]
  rw [plainDocs_data, fl_plainDocs_map_id fidC (docIdsOf fidB ms.length) ts
    (fun i _ => (i, docIdsOf fidB ms.length ++
      (docIdsOf fidA ps.length ++ (docIdsOf fidB ms.length).map (· ++ "|matchnull"))))]

include hBA hCB in
/-- the states the third layer passes through -/
theorem fl_three_reach (hne : ms ≠ []) (hnt : ∀ t ∈ ts, fl_NoMatch t) {k : Nat} {st : PState}
    (h : runMerges ⟨(docIdsOf fidA ps.length).zip ps ++
            ((docIdsOf fidB ms.length).map (· ++ "|matchnull")).zip (ms.map fl_body),
          fl_knownM (docIdsOf fidA ps.length) (docIdsOf fidB ms.length)⟩
        ((plainDocs fidC (docIdsOf fidB ms.length) ts).take k) = .ok st) :
    st.docs.map (·.1) =
        docIdsOf fidA ps.length ++ (docIdsOf fidB ms.length).map (· ++ "|matchnull") ∧
      ∀ id ∈ docIdsOf fidA ps.length ++ (docIdsOf fidB ms.length).map (· ++ "|matchnull"),
        Ancestor st.known (docIdsOf fidB ms.length) id := by
  rw [fl_three_docs_zip] at h
  have hidne : docIdsOf fidA ps.length ++ (docIdsOf fidB ms.length).map (· ++ "|matchnull") ≠ [] := by
    intro e
    have := congrArg List.length e
    simp only [List.length_append, List.length_map, docIdsOf_length, List.length_nil] at this
    have hp := List.length_pos_iff.2 hne
    omega
  exact fl_run_all_reach (docIdsOf fidB ms.length) _ hidne _ (ps ++ ms.map fl_body) _
    (by simp [docIdsOf_length])
    (fun c hc => ⟨hnt _ (fl_mem_plainDocs (List.mem_of_mem_take hc)).2.1,
      (fl_mem_plainDocs (List.mem_of_mem_take hc)).1⟩)
    (fl_three_anc hBA ps ms hne)
    (fun c hc => fl_three_fresh hBA hCB ps ms ts c (List.mem_of_mem_take hc))
    (by
      rw [List.map_take, plainDocs_ids]
      exact (List.take_sublist _ _).nodup (fl_docIdsOf_nodup _ _))
    h

end threeLayer

/-! ## odds and ends for the property file -/

theorem fl_foldlM_layerStep_noMatch : ∀ (cs : List Val) (v : Val), (∀ c ∈ cs, fl_NoMatch c) →
    cs.foldlM fl_layerStep v = cs.foldlM merge v
  | [], _, _ => rfl
  | c :: cs, v, h => by
    rw [fl_foldlM_cons, fl_foldlM_cons, fl_layerStep_noMatch (h c List.mem_cons_self)]
    cases merge v c with
    | error e => rfl
    | ok v' => exact fl_foldlM_layerStep_noMatch cs v' (fun c' hc' => h c' (List.mem_cons_of_mem _ hc'))

theorem fl_plainDocs_single (fid : String) (P : List String) (v : Val) :
    plainDocs fid P [v] = [{ id := fid ++ "|doc" ++ toString 0, parents := P, data := v }] := by
  simp [plainDocs, docIdsOf, List.range_succ]

theorem fl_docIdsOf_one (fid : String) : docIdsOf fid 1 = [fid ++ "|doc" ++ toString 0] := by
  simp [docIdsOf, List.range_succ]

theorem fl_docIdsOf_two (fid : String) :
    docIdsOf fid 2 = [fid ++ "|doc" ++ toString 0, fid ++ "|doc" ++ toString 1] := by
  simp [docIdsOf, List.range_succ]

/-- **a stream of patches with pairwise distinct loader-made ids**: every state the run from the
    empty state passes through has pairwise distinct document ids, and the id of the next
    patch (with or without `|matchnull`) is not among them -/
theorem fl_unique_run (ds : List Doc) (hnd : (ds.map (·.id)).Nodup)
    (hmn : ∀ x ∈ ds.map (·.id), NoMN x) (k : Nat) {st : PState}
    (h : runMerges PState.empty (ds.take k) = .ok st) :
    (st.docs.map (·.1)).Nodup ∧
      ∀ p, ds[k]? = some p →
        p.id ∉ st.docs.map (·.1) ∧ p.id ++ "|matchnull" ∉ st.docs.map (·.1) := by
  have hsub : ((ds.take k).map (·.id)).Nodup := by
    rw [List.map_take]; exact (List.take_sublist _ _).nodup hnd
  have hmn' : ∀ x ∈ (ds.take k).map (·.id), NoMN x := by
    intro x hx
    rw [List.map_take] at hx
    exact hmn x (List.mem_of_mem_take hx)
  have hI := fl_idsFrom_run (ds.take k) [] PState.empty st (fl_idsFrom_empty [])
    (by simpa using hsub) (by simpa using hmn') h
  rw [List.nil_append] at hI
  refine ⟨hI.1, ?_⟩
  intro p hp
  apply fl_idsFrom_fresh hI hmn'
  · intro hm
    have h2 : ((ds.take (k + 1)).map (·.id)).Nodup := by
      rw [List.map_take]; exact (List.take_sublist _ _).nodup hnd
    rw [List.take_add_one, hp] at h2
    simp only [Option.toList_some, List.map_append, List.map_cons, List.map_nil] at h2
    exact (List.nodup_append.1 h2).2.2 _ hm p.id (by simp) rfl
  · exact hmn _ (List.mem_map_of_mem (List.mem_of_getElem? hp))

/-! ## sample file systems for the non-vacuity examples of `BklProofs/C02.lean` -/

def fl_p0 : Val := .map [("x", .int 1)]
def fl_p1 : Val := .map [("x", .int 2)]
/-- a child document selecting `x: 2` -/
def fl_cm : Val := .map [("$match", .map [("x", .int 2)]), ("y", .int 1)]
/-- a middle-layer document that asks to be appended -/
def fl_mn : Val := .map [("$match", .null), ("y", .int 2)]

/-- `/w/a.yaml` = `{x: 1}`, `{x: 2}`; `/w/a.b.json` = `{y: 5}`, `{z: 6}` -/
def fl_fsPlain : FS := ⟨[
  (["w"], .dir),
  (["w", "a.yaml"], .file (.ok [fl_p0, fl_p1])),
  (["w", "a.b.json"], .file (.ok [.map [("y", .int 5)], .map [("z", .int 6)]]))]⟩

/-- `/w/a.yaml` = `{x: 1}`, `{x: 2}`; `/w/a.b.json` = `{$match: {x: 2}, y: 1}` -/
def fl_fsMatch : FS := ⟨[
  (["w"], .dir),
  (["w", "a.yaml"], .file (.ok [fl_p0, fl_p1])),
  (["w", "a.b.json"], .file (.ok [fl_cm]))]⟩

/-- the same child over the single-document parent `/w/a.yaml` = `{x: 1}` -/
def fl_fsOne : FS := ⟨[
  (["w"], .dir),
  (["w", "a.yaml"], .file (.ok [fl_p0])),
  (["w", "a.b.json"], .file (.ok [fl_cm]))]⟩

/-- `/w/a.yaml` = `{x: 1}`; `/w/a.b.json` = `{$match: null, y: 2}`; `/w/a.b.c.toml` = `{z: 3}` -/
def fl_fsThree : FS := ⟨[
  (["w"], .dir),
  (["w", "a.yaml"], .file (.ok [fl_p0])),
  (["w", "a.b.json"], .file (.ok [fl_mn])),
  (["w", "a.b.c.toml"], .file (.ok [.map [("z", .int 3)]]))]⟩

theorem fl_absent_of_mem2 {u v : Val} (hu : parentDirective u = .ok .absent)
    (hv : parentDirective v = .ok .absent) : ∀ w ∈ [u, v], parentDirective w = .ok .absent := by
  intro w hw
  simp only [List.mem_cons, List.not_mem_nil, or_false] at hw
  rcases hw with rfl | rfl
  · exact hu
  · exact hv

theorem fl_absent_of_mem1 {u : Val} (hu : parentDirective u = .ok .absent) :
    ∀ w ∈ [u], parentDirective w = .ok .absent := by
  intro w hw
  rw [List.mem_singleton.1 hw]; exact hu

theorem fl_plain_a : PlainName "a" := ⟨by decide, by decide⟩
theorem fl_plain_b : PlainName "b" := ⟨by decide, by decide⟩
theorem fl_plain_c : PlainName "c" := ⟨by decide, by decide⟩

theorem fl_fsPlain_chain : fl_Chain2 fl_fsPlain ["w"] "a" "b" "yaml" "json" [fl_p0, fl_p1]
    [.map [("y", .int 5)], .map [("z", .int 6)]] where
  dir := plainDir_single (n := .dir) (by decide) (by decide) rfl
  na := fl_plain_a
  nb := fl_plain_b
  fileA := layerFile_of_decide (by decide) (by decide) (fun _ => by decide) (fun _ => by decide)
    (fun _ => by decide) (fun _ => by decide) (fun h => absurd rfl h) (fun _ => by decide)
  fileB := layerFile_of_decide (by decide) (by decide) (fun h => absurd rfl h) (fun _ => by decide)
    (fun _ => by decide) (fun _ => by decide) (fun _ => by decide) (fun _ => by decide)
  noParentA := fl_absent_of_mem2 rfl rfl
  noParentB := fl_absent_of_mem2 rfl rfl

theorem fl_fsMatch_chain : fl_Chain2 fl_fsMatch ["w"] "a" "b" "yaml" "json" [fl_p0, fl_p1] [fl_cm] where
  dir := plainDir_single (n := .dir) (by decide) (by decide) rfl
  na := fl_plain_a
  nb := fl_plain_b
  fileA := layerFile_of_decide (by decide) (by decide) (fun _ => by decide) (fun _ => by decide)
    (fun _ => by decide) (fun _ => by decide) (fun h => absurd rfl h) (fun _ => by decide)
  fileB := layerFile_of_decide (by decide) (by decide) (fun h => absurd rfl h) (fun _ => by decide)
    (fun _ => by decide) (fun _ => by decide) (fun _ => by decide) (fun _ => by decide)
  noParentA := fl_absent_of_mem2 rfl rfl
  noParentB := fl_absent_of_mem1 rfl

theorem fl_fsOne_chain : fl_Chain2 fl_fsOne ["w"] "a" "b" "yaml" "json" [fl_p0] [fl_cm] where
  dir := plainDir_single (n := .dir) (by decide) (by decide) rfl
  na := fl_plain_a
  nb := fl_plain_b
  fileA := layerFile_of_decide (by decide) (by decide) (fun _ => by decide) (fun _ => by decide)
    (fun _ => by decide) (fun _ => by decide) (fun h => absurd rfl h) (fun _ => by decide)
  fileB := layerFile_of_decide (by decide) (by decide) (fun h => absurd rfl h) (fun _ => by decide)
    (fun _ => by decide) (fun _ => by decide) (fun _ => by decide) (fun _ => by decide)
  noParentA := fl_absent_of_mem1 rfl
  noParentB := fl_absent_of_mem1 rfl

theorem fl_fsThree_chain : fl_Chain3 fl_fsThree ["w"] "a" "b" "c" "yaml" "json" "toml"
    [fl_p0] [fl_mn] [.map [("z", .int 3)]] where
  dir := plainDir_single (n := .dir) (by decide) (by decide) rfl
  na := fl_plain_a
  nb := fl_plain_b
  nc := fl_plain_c
  fileA := layerFile_of_decide (by decide) (by decide) (fun _ => by decide) (fun _ => by decide)
    (fun _ => by decide) (fun _ => by decide) (fun h => absurd rfl h) (fun _ => by decide)
  fileB := layerFile_of_decide (by decide) (by decide) (fun h => absurd rfl h) (fun _ => by decide)
    (fun _ => by decide) (fun _ => by decide) (fun _ => by decide) (fun _ => by decide)
  fileC := layerFile_of_decide (by decide) (by decide) (fun _ => by decide) (fun _ => by decide)
    (fun _ => by decide) (fun h => absurd rfl h) (fun _ => by decide) (fun _ => by decide)
  noParentA := fl_absent_of_mem1 rfl
  noParentB := fl_absent_of_mem1 rfl
  noParentC := fl_absent_of_mem1 rfl

/-! ## a `$match` child: when it succeeds, when it finds nothing -/

theorem fl_match_step_none {st : PState} {c : Doc} {kvs : Fields} {pat : Val}
    (hd : c.data = .map kvs) (hg : fget kvs "$match" = some pat) (hnn : pat.isNull = false)
    (hno : ∀ p ∈ st.docs, matchV p.2 pat = false) :
    mergeDocument st c = .error .noMatchFound := by
  rw [mergeDocument_eq, hd]
  unfold mergeDocCore
  simp only [hg, hnn, Bool.false_eq_true, if_false]
  have : findMatches ⟨st.docs, addParents st.known c.id c.parents⟩ c.parents pat = [] := by
    rw [findMatches_eq]
    simp only
    have h1 : ∀ (q : String × Val → Bool), (∀ d, q d = true → matchV d.2 pat = true) →
        (st.docs.filter q).map (·.1) = [] := by
      intro q hq
      rw [List.map_eq_nil_iff, List.filter_eq_nil_iff]
      intro a ha hqa
      have := hq a hqa
      rw [hno a ha] at this
      cases this
    rw [h1 _ (fun d hd => (Bool.and_eq_true _ _ ▸ hd).2), h1 _ (fun d hd => hd)]
    simp
  rw [this]
  rfl

theorem fl_match_step_ok {pids seen : List String} {st : PState} {c : Doc} {kvs : Fields}
    {pat : Val} (hI : fl_ChildInv pids seen st) (hcp : c.parents = pids) (hid : c.id ∉ seen)
    (hd : c.data = .map kvs) (hg : fget kvs "$match" = some pat) (hnn : pat.isNull = false)
    (hex : ∃ p ∈ st.docs, p.1 ∈ pids ∧ matchV p.2 pat = true)
    (hok : ∀ p ∈ st.docs, ∃ v, merge p.2 (.map (fdel kvs "$match")) = .ok v) :
    ∃ st', mergeDocument st c = .ok st' := by
  have hcid : c.id ∉ pids := fun hm => hid (hI.sub _ hm)
  have hroots := fl_roots_reg (c := c) hI.roots hcid
  obtain ⟨⟨pid, v⟩, hp, hpp, hpm⟩ := hex
  have hmem : pid ∈ findMatches (fl_reg st c) c.parents pat := by
    refine (fl_mem_findMatches (st0 := fl_reg st c) hI.ids.1 hp ?_).2 hpm
    rw [hcp, fl_anc_exact hroots]
    exact List.contains_iff_mem.2 hpp
  rw [mergeDocument_eq, hd]
  change ∃ st', mergeDocCore (fl_reg st c) c.id c.parents (.map kvs) = .ok st'
  unfold mergeDocCore
  simp only [hg, hnn, Bool.false_eq_true, if_false]
  have hne : (findMatches (fl_reg st c) c.parents pat).isEmpty = false := by
    cases hf : findMatches (fl_reg st c) c.parents pat with
    | nil => rw [hf] at hmem; cases hmem
    | cons a l => rfl
  simp only [hne, Bool.false_eq_true, if_false]
  refine ⟨⟨(fl_reg st c).docs.map (stepFun (findMatches (fl_reg st c) c.parents pat)
      (.map (fdel kvs "$match"))),
    addParents (fl_reg st c).known c.id (findMatches (fl_reg st c) c.parents pat)⟩, ?_⟩
  rw [mergeInto_ok_iff]
  exact ⟨forall2_stepRel_of_ok (fun p hp _ => hok p hp), rfl⟩

theorem fl_merge_x_y (n m : Int) :
    merge (.map [("x", .int n)]) (.map [("y", .int m)]) = .ok (.map [("x", .int n), ("y", .int m)]) := by
  rw [merge_map_map, mergeMapMap_noreplace rfl, mergeFields_cons]
  have h1 : ((Val.int m).toStr = "$delete") = False := by
    simp [Val.toStr]
  have h2 : fget [("x", Val.int n)] "y" = none := rfl
  simp only [h1, if_false, h2, mergeFields_nil]
  rfl

theorem fl_docIdsOf_len2 (fid : String) (u v : Val) :
    docIdsOf fid [u, v].length = [fid ++ "|doc" ++ toString 0, fid ++ "|doc" ++ toString 1] :=
  fl_docIdsOf_two fid

theorem fl_docIdsOf_len1 (fid : String) (u : Val) :
    docIdsOf fid [u].length = [fid ++ "|doc" ++ toString 0] :=
  fl_docIdsOf_one fid

/-- the counterexample stream, over both parent documents: the child run succeeds -/
theorem fl_cex_full_ok {fidA fidB : String} (hb : fl_Below fidB fidA) :
    ∃ st, runMerges ⟨(docIdsOf fidA [fl_p0, fl_p1].length).zip [fl_p0, fl_p1],
        (docIdsOf fidA [fl_p0, fl_p1].length).map (fun i => (i, []))⟩
      (plainDocs fidB (docIdsOf fidA [fl_p0, fl_p1].length) [fl_cm]) = .ok st := by
  rw [fl_plainDocs_single, runMerges_cons]
  have hI := fl_childInv_init (fidA := fidA) [fl_p0, fl_p1]
  obtain ⟨st', h⟩ := fl_match_step_ok (c := ⟨fidB ++ "|doc" ++ toString 0,
      docIdsOf fidA [fl_p0, fl_p1].length, fl_cm⟩)
    (kvs := [("$match", .map [("x", .int 2)]), ("y", .int 1)]) (pat := .map [("x", .int 2)])
    hI rfl
    (fun hm => fl_docIds_disjoint hb _ 1 _ hm (fl_mem_docIdsOf.2 ⟨0, by decide, rfl⟩))
    rfl (by decide) rfl
    ⟨(fidA ++ "|doc" ++ toString 1, fl_p1), by rw [fl_docIdsOf_len2]; simp,
      by rw [fl_docIdsOf_len2]; simp, by show matchV fl_p1 _ = true; decide⟩
    (by
      intro p hp
      rw [fl_docIdsOf_len2] at hp
      simp only [List.zip_cons_cons, List.zip_nil_right, List.mem_cons, List.not_mem_nil,
        or_false] at hp
      have hb' : Val.map (fdel [("$match", Val.map [("x", Val.int 2)]), ("y", Val.int 1)] "$match") =
          .map [("y", .int 1)] := by decide
      rw [hb']
      rcases hp with rfl | rfl
      · exact ⟨_, fl_merge_x_y 1 1⟩
      · exact ⟨_, fl_merge_x_y 2 1⟩)
  rw [h]
  exact ⟨st', rfl⟩

/-- the same child over the single parent document `{x: 1}`: nothing matches -/
theorem fl_cex_one_fail (fidA fidB : String) :
    runMerges ⟨(docIdsOf fidA [fl_p0].length).zip [fl_p0],
        (docIdsOf fidA [fl_p0].length).map (fun i => (i, []))⟩
      (plainDocs fidB (docIdsOf fidA [fl_p0].length) [fl_cm]) = .error .noMatchFound := by
  rw [fl_plainDocs_single, runMerges_cons]
  rw [fl_match_step_none (c := ⟨fidB ++ "|doc" ++ toString 0, docIdsOf fidA [fl_p0].length, fl_cm⟩)
    (kvs := [("$match", .map [("x", .int 2)]), ("y", .int 1)]) (pat := .map [("x", .int 2)])
    rfl (by decide) rfl
    (by
      intro p hp
      rw [fl_docIdsOf_len1] at hp
      simp only [List.zip_cons_cons, List.zip_nil_right, List.mem_cons, List.not_mem_nil,
        or_false] at hp
      subst hp
      show matchV fl_p0 _ = false
      decide)]

/-! ## the same layer over a single-document parent file: success carries over
     (as long as no child document has a non-null `$match`) -/

theorem fl_doc_unique {docs : List (String × Val)} (hnd : (docs.map (·.1)).Nodup) {id : String}
    {v w : Val} (hv : (id, v) ∈ docs) (hw : (id, w) ∈ docs) : w = v := by
  have hp : docs.Pairwise (fun a b => a.1 ≠ b.1) := List.pairwise_map.1 hnd
  rcases List.mem_iff_getElem.1 hw with ⟨i, hi, ei⟩
  rcases List.mem_iff_getElem.1 hv with ⟨j, hj, ej⟩
  rcases Nat.lt_trichotomy i j with hlt | heq | hgt
  · have := List.pairwise_iff_getElem.1 hp i j hi hj hlt
    rw [ei, ej] at this
    exact absurd rfl this
  · subst heq
    rw [ei] at ej
    exact (Prod.mk.inj ej).2
  · have := List.pairwise_iff_getElem.1 hp j i hj hi hgt
    rw [ei, ej] at this
    exact absurd rfl this

theorem fl_matchNull_ok {st : PState} {c : Doc} (hmn : fl_MatchNull c.data) :
    ∃ st', mergeDocument st c = .ok st' := by
  obtain ⟨kvs, hk, hg⟩ := hmn
  rw [mergeDocument_eq, hk]
  unfold mergeDocCore
  simp only [hg, Val.isNull, if_true]
  exact ⟨_, rfl⟩

/-- a `$match`-free child over the one parent document `pid`: it succeeds when the merge into
    that document does -/
theorem fl_noMatch_single_ok {pid : String} {seen : List String} {st : PState} {c : Doc} {v v' : Val}
    (hI : fl_ChildInv [pid] seen st) (hcp : c.parents = [pid]) (hid : c.id ∉ seen)
    (hnm : fl_NoMatch c.data) (hv : (pid, v) ∈ st.docs) (hm : merge v c.data = .ok v') :
    ∃ st', mergeDocument st c = .ok st' := by
  have hcid : c.id ∉ [pid] := fun hm => hid (hI.sub _ hm)
  have hroots := fl_roots_reg (c := c) hI.roots hcid
  obtain ⟨extra, hex⟩ := hI.pre
  rw [mergeDocument_eq, fl_mergeDocCore_noMatch hnm]
  change ∃ st', mergeDflt (fl_reg st c) c.id c.parents c.data = .ok st'
  unfold mergeDflt
  rw [hcp, fl_parentsOf_pids (st0 := fl_reg st c) hex hI.ids.1 hroots]
  simp only [List.isEmpty_cons, Bool.false_eq_true, if_false]
  refine ⟨⟨(fl_reg st c).docs.map (stepFun [pid] c.data),
    addParents (fl_reg st c).known c.id [pid]⟩, ?_⟩
  rw [mergeInto_ok_iff]
  refine ⟨forall2_stepRel_of_ok ?_, rfl⟩
  intro p hp ht
  obtain ⟨i, w⟩ := p
  have : i = pid := by simpa using ht
  subst this
  have := fl_doc_unique hI.ids.1 hv hp
  subst this
  exact ⟨v', hm⟩

theorem fl_single_run_ok {pid : String} (hp : [pid][0]? = some pid) :
    ∀ (cds : List Doc) (seen : List String) (st : PState) (v : Val),
    fl_ChildInv [pid] seen st →
    (∀ c ∈ cds, c.parents = [pid] ∧ (fl_NoMatch c.data ∨ fl_MatchNull c.data)) →
    (seen ++ cds.map (·.id)).Nodup → (∀ s ∈ seen ++ cds.map (·.id), NoMN s) →
    st.docs[0]? = some (pid, v) →
    (∃ v', (cds.map (·.data)).foldlM fl_layerStep v = .ok v') →
    ∃ st', runMerges st cds = .ok st'
  | [], seen, st, v, _, _, _, _, _, _ => ⟨st, rfl⟩
  | c :: cds, seen, st, v, hI, hc, hnd, hmn, hv, hfold => by
    obtain ⟨v', hfold⟩ := hfold
    rw [List.map_cons, fl_foldlM_cons] at hfold
    have hc0 := hc c List.mem_cons_self
    rw [List.map_cons] at hnd hmn
    have hid : c.id ∉ seen := by
      intro hmem
      exact (List.nodup_append.1 hnd).2.2 _ hmem c.id List.mem_cons_self rfl
    have hstep : ∃ s, mergeDocument st c = .ok s := by
      rcases hc0.2 with hnm | hmnl
      · rw [fl_layerStep_noMatch hnm] at hfold
        cases hm : merge v c.data with
        | error e => rw [hm] at hfold; cases hfold
        | ok v1 => exact fl_noMatch_single_ok hI hc0.1 hid hnm (List.mem_of_getElem? hv) hm
      · exact fl_matchNull_ok hmnl
    obtain ⟨s, hs⟩ := hstep
    obtain ⟨v1, hv1, hs1⟩ := fl_child_step_doc hI hc0.1 hid hs hp hv
    rw [hv1] at hfold
    have hI' := fl_childInv_step hI (fun s hs => hmn s (List.mem_append_left _ hs)) hid
      (hmn c.id (by simp)) hs
    have e : seen ++ c.id :: cds.map (·.id) = (seen ++ [c.id]) ++ cds.map (·.id) := by simp
    rw [e] at hnd hmn
    obtain ⟨st', hst'⟩ := fl_single_run_ok hp cds _ s v1 hI'
      (fun c' hc' => hc c' (List.mem_cons_of_mem _ hc')) hnd hmn hs1 ⟨v', hfold⟩
    exact ⟨st', by rw [runMerges_cons, hs]; exact hst'⟩

/-- the single-document parent file `[p]` under the child documents `cs`, none of which has a
    non-null `$match`: the run succeeds as soon as `p` can be taken through `cs` -/
theorem fl_single_layer_ok {fidA fidB : String} (hb : fl_Below fidB fidA) (p : Val) (cs : List Val)
    (hc : ∀ c ∈ cs, fl_NoMatch c ∨ fl_MatchNull c)
    (hfold : ∃ v', cs.foldlM fl_layerStep p = .ok v') :
    ∃ st', runMerges ⟨(docIdsOf fidA [p].length).zip [p],
        (docIdsOf fidA [p].length).map (fun i => (i, []))⟩
      (plainDocs fidB (docIdsOf fidA [p].length) cs) = .ok st' := by
  have hI := fl_childInv_init (fidA := fidA) [p]
  have hk := fl_two_ids_nodup hb [p] cs cs.length
  have hm := fl_two_ids_noMN (fidA := fidA) (fidB := fidB) [p] cs cs.length
  have htake : (plainDocs fidB (docIdsOf fidA [p].length) cs).take cs.length =
      plainDocs fidB (docIdsOf fidA [p].length) cs := by
    apply List.take_of_length_le
    rw [fl_plainDocs_length]; exact Nat.le_refl _
  rw [htake] at hk hm
  rw [fl_docIdsOf_len1] at hI hk hm ⊢
  refine fl_single_run_ok rfl _ _ _ p hI ?_ hk hm rfl ?_
  · intro c hcm
    exact ⟨(fl_mem_plainDocs hcm).1, hc _ (fl_mem_plainDocs hcm).2.1⟩
  · rwa [plainDocs_data]

/-! ## more samples -/

/-- the child of `fl_fsPlain` over the single-document parent `/w/a.yaml` = `{x: 1}` -/
def fl_fsPlainOne : FS := ⟨[
  (["w"], .dir),
  (["w", "a.yaml"], .file (.ok [fl_p0])),
  (["w", "a.b.json"], .file (.ok [.map [("y", .int 5)], .map [("z", .int 6)]]))]⟩

theorem fl_fsPlainOne_chain : fl_Chain2 fl_fsPlainOne ["w"] "a" "b" "yaml" "json" [fl_p0]
    [.map [("y", .int 5)], .map [("z", .int 6)]] where
  dir := plainDir_single (n := .dir) (by decide) (by decide) rfl
  na := fl_plain_a
  nb := fl_plain_b
  fileA := layerFile_of_decide (by decide) (by decide) (fun _ => by decide) (fun _ => by decide)
    (fun _ => by decide) (fun _ => by decide) (fun h => absurd rfl h) (fun _ => by decide)
  fileB := layerFile_of_decide (by decide) (by decide) (fun h => absurd rfl h) (fun _ => by decide)
    (fun _ => by decide) (fun _ => by decide) (fun _ => by decide) (fun _ => by decide)
  noParentA := fl_absent_of_mem1 rfl
  noParentB := fl_absent_of_mem2 rfl rfl

theorem fl_merge_xy_z (n : Int) :
    merge (.map [("x", .int n), ("y", .int 5)]) (.map [("z", .int 6)]) =
      .ok (.map [("x", .int n), ("y", .int 5), ("z", .int 6)]) := by
  rw [merge_map_map, mergeMapMap_noreplace rfl, mergeFields_cons]
  have h1 : ((Val.int 6).toStr = "$delete") = False := by decide
  have h2 : fget [("x", Val.int n), ("y", .int 5)] "z" = none := rfl
  simp only [h1, if_false, h2, mergeFields_nil]
  rfl

/-- the columns of `fl_fsPlain`: both parent documents take both child documents -/
theorem fl_plain_columns :
    [fl_p0, fl_p1].mapM (fun p => [Val.map [("y", .int 5)], .map [("z", .int 6)]].foldlM merge p) =
      .ok [.map [("x", .int 1), ("y", .int 5), ("z", .int 6)],
           .map [("x", .int 2), ("y", .int 5), ("z", .int 6)]] := by
  rw [mapM_R_cons, mapM_R_cons, mapM_R_nil]
  simp only [fl_foldlM_cons, fl_foldlM_nil, fl_p0, fl_p1, fl_merge_x_y, fl_merge_xy_z]

end Bkl
