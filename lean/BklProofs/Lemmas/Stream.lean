/-
  BklProofs.Lemmas.Stream — helper lemmas for C05 (multi-document framing: `splitAt`,
  `yamlMarshalStream`, `tomlMarshalStream`, `jsonMarshalStream` and their readers) and C04
  (normalisation of decoder output: `normalize`, `parseInt64`, `yamlScalar`, `yamlTranslate`).
-/
import Bkl
import BklProofs.Lemmas.Order
import BklProofs.Lemmas.Output
import BklProofs.Lemmas.OutputSel
import BklProofs.Lemmas.SplitOn
import Std.Data.String.ToInt
namespace Bkl

/-! ## `R` monad basics -/

theorem s_bind_ok {α β : Type} (a : α) (f : α → R β) : ((Except.ok a : R α) >>= f) = f a := rfl
theorem s_bind_error {α β : Type} (e : Err) (f : α → R β) :
    ((Except.error e : R α) >>= f) = .error e := rfl
theorem s_pure {α : Type} (a : α) : (pure a : R α) = .ok a := rfl

/-- `mapM` succeeds elementwise -/
theorem s_mapM_ok {α β : Type} (f : α → R β) : ∀ (as : List α) (bs : List β),
    List.Forall₂ (fun a b => f a = .ok b) as bs → as.mapM f = .ok bs
  | [], _, h => by cases h; rfl
  | a :: as, _, h => by
    cases h with
    | cons h1 h2 =>
      rw [List.mapM_cons, h1, s_bind_ok, s_mapM_ok f as _ h2]; rfl

/-- inversion of a successful `mapM` -/
theorem s_mapM_inv {α β : Type} (f : α → R β) : ∀ (as : List α) (bs : List β),
    as.mapM f = .ok bs → List.Forall₂ (fun a b => f a = .ok b) as bs
  | [], bs, h => by
    simp only [List.mapM_nil, pure, Except.pure, Except.ok.injEq] at h
    subst h; exact .nil
  | a :: as, bs, h => by
    rw [List.mapM_cons] at h
    cases h1 : f a with
    | error e => rw [h1] at h; cases h
    | ok b =>
      rw [h1, s_bind_ok] at h
      cases h2 : as.mapM f with
      | error e => rw [h2] at h; cases h
      | ok bs' =>
        rw [h2, s_bind_ok] at h
        simp only [pure, Except.pure, Except.ok.injEq] at h
        subst h
        exact .cons h1 (s_mapM_inv f as bs' h2)

theorem s_forall₂_mem_right {α β : Type} {P : α → β → Prop} : ∀ {as : List α} {bs : List β},
    List.Forall₂ P as bs → ∀ b ∈ bs, ∃ a ∈ as, P a b
  | _, _, .nil, b, hb => by cases hb
  | _, _, .cons (a := a) h1 h2, b, hb => by
    rcases List.mem_cons.1 hb with rfl | hb
    · exact ⟨a, List.mem_cons_self, h1⟩
    · obtain ⟨a', ha', hp⟩ := s_forall₂_mem_right h2 b hb
      exact ⟨a', List.mem_cons_of_mem _ ha', hp⟩

/-! ## `splitAt` and `joinWith` -/

/-- blocks joined by a separator line -/
def joinWith (sep : String) : List Lines → Lines
  | [] => []
  | [b] => b
  | b :: b' :: bs => b ++ sep :: joinWith sep (b' :: bs)

theorem joinWith_cons (sep : String) (b : Lines) (bs : List Lines) :
    joinWith sep (b :: bs) = b ++ bs.flatMap (sep :: ·) := by
  induction bs generalizing b with
  | nil => simp [joinWith]
  | cons b' bs ih => simp only [joinWith, ih b', List.flatMap_cons, List.cons_append]

theorem splitAt_ne_nil (isSep : String → Bool) : ∀ (t : Lines), splitAt isSep t ≠ []
  | [] => by simp [splitAt]
  | l :: rest => by
    simp only [splitAt]
    split
    · simp
    · split <;> simp

/-- a separator-free block in front of a separator line is split off -/
theorem splitAt_block_sep (isSep : String → Bool) (sep : String) (hs : isSep sep = true)
    (rest : Lines) : ∀ (b : Lines), (∀ l ∈ b, isSep l = false) →
    splitAt isSep (b ++ sep :: rest) = b :: splitAt isSep rest
  | [], _ => by simp [splitAt, hs]
  | l :: b, h => by
    have hl : isSep l = false := h l List.mem_cons_self
    have ih := splitAt_block_sep isSep sep hs rest b (fun x hx => h x (List.mem_cons_of_mem _ hx))
    simp only [List.cons_append, splitAt, hl, Bool.false_eq_true, if_false, ih]

/-- a separator-free text is one part -/
theorem splitAt_block (isSep : String → Bool) : ∀ (b : Lines), (∀ l ∈ b, isSep l = false) →
    splitAt isSep b = [b]
  | [], _ => rfl
  | l :: b, h => by
    have hl : isSep l = false := h l List.mem_cons_self
    have ih := splitAt_block isSep b (fun x hx => h x (List.mem_cons_of_mem _ hx))
    simp only [splitAt, hl, Bool.false_eq_true, if_false, ih]

/-- the framing lemma: splitting the joined blocks gives the blocks back -/
theorem splitAt_joinWith (isSep : String → Bool) (sep : String) (hs : isSep sep = true) :
    ∀ (b : Lines) (bs : List Lines), (∀ x ∈ b :: bs, ∀ l ∈ x, isSep l = false) →
    splitAt isSep (joinWith sep (b :: bs)) = b :: bs
  | b, [], h => splitAt_block isSep b (h b List.mem_cons_self)
  | b, b' :: bs, h => by
    simp only [joinWith]
    rw [splitAt_block_sep isSep sep hs _ b (h b List.mem_cons_self),
      splitAt_joinWith isSep sep hs b' bs (fun x hx => h x (List.mem_cons_of_mem _ hx))]

/-- the number of parts is one more than the number of separator lines -/
theorem splitAt_length (isSep : String → Bool) : ∀ (t : Lines),
    (splitAt isSep t).length = (t.filter isSep).length + 1
  | [] => rfl
  | l :: rest => by
    have ih := splitAt_length isSep rest
    simp only [splitAt]
    cases hl : isSep l
    · simp only [Bool.false_eq_true, if_false, List.filter_cons, hl]
      cases hr : splitAt isSep rest with
      | nil => exact absurd hr (splitAt_ne_nil isSep rest)
      | cons p ps => rw [hr] at ih; simpa using ih
    · simp only [if_true, List.filter_cons, hl, List.length_cons, ih]

/-! ## the writers as joins of per-document bodies -/

/-- what one document contributes to a YAML/TOML stream: nothing for null, its encoding otherwise -/
def streamBody (c : Codec) (v : Val) : R Lines := if v.isNull then pure [] else c.enc v

theorem streamBody_null (c : Codec) : streamBody c .null = .ok [] := rfl
theorem streamBody_nonnull (c : Codec) {v : Val} (h : v ≠ .null) : streamBody c v = c.enc v := by
  cases v <;> first | exact absurd rfl h | rfl

theorem yamlGo_ff (c : Codec) : ∀ (vs : List Val),
    yamlMarshalStream.go c false false vs =
      (do let bs ← vs.mapM (streamBody c); pure (bs.flatMap ("---" :: ·)))
  | [] => rfl
  | v :: vs => by
    rw [yamlMarshalStream.go, List.mapM_cons, yamlGo_ff c vs]
    generalize List.mapM (streamBody c) vs = r
    unfold streamBody
    cases hn : v.isNull
    · simp only [Bool.false_eq_true, if_false]
      cases c.enc v with
      | error e => rfl
      | ok b => cases r <;> simp [s_bind_ok, s_bind_error, s_pure]
    · cases r <;> simp [s_bind_ok, s_bind_error, s_pure]

theorem tomlGo_f (c : Codec) : ∀ (vs : List Val),
    tomlMarshalStream.go c false vs =
      (do let bs ← vs.mapM (streamBody c); pure (bs.flatMap ("---" :: ·)))
  | [] => rfl
  | v :: vs => by
    rw [tomlMarshalStream.go, List.mapM_cons, tomlGo_f c vs]
    generalize List.mapM (streamBody c) vs = r
    unfold streamBody
    cases hn : v.isNull
    · simp only [Bool.false_eq_true, if_false]
      cases c.enc v with
      | error e => rfl
      | ok b => cases r <;> simp [s_bind_ok, s_bind_error, s_pure]
    · cases r <;> simp [s_bind_ok, s_bind_error, s_pure]

/-- the TOML writer: all bodies, joined by `---` -/
theorem tomlMarshalStream_eq (c : Codec) (v : Val) (vs : List Val) :
    tomlMarshalStream c (v :: vs) =
      (do let bs ← (v :: vs).mapM (streamBody c); pure (joinWith "---" bs)) := by
  rw [tomlMarshalStream, tomlMarshalStream.go, List.mapM_cons, tomlGo_f c vs]
  generalize List.mapM (streamBody c) vs = r
  unfold streamBody
  cases hn : v.isNull
  · simp only [Bool.false_eq_true, if_false]
    cases c.enc v with
    | error e => rfl
    | ok b => cases r <;> simp [s_bind_ok, s_bind_error, s_pure, joinWith_cons]
  · cases r <;> simp [s_bind_ok, s_bind_error, s_pure, joinWith_cons]

/-- the YAML writer on a stream whose first document is not null -/
theorem yamlMarshalStream_eq (c : Codec) (v : Val) (hv : v ≠ .null) (vs : List Val) :
    yamlMarshalStream c (v :: vs) =
      (do let bs ← (v :: vs).mapM (streamBody c); pure (joinWith "---" bs)) := by
  rw [yamlMarshalStream, yamlMarshalStream.go, List.mapM_cons, yamlGo_ff c vs,
    streamBody_nonnull c hv]
  generalize List.mapM (streamBody c) vs = r
  have : v.isNull = false := by cases v <;> first | exact absurd rfl hv | rfl
  simp only [this, Bool.false_eq_true, if_false]
  cases c.enc v with
  | error e => rfl
  | ok b => cases r <;> simp [s_bind_ok, s_bind_error, s_pure, joinWith_cons]

/-- a leading null document leaves no trace in the YAML text -/
theorem yamlMarshalStream_null_cons (c : Codec) (v : Val) (hv : v ≠ .null) (vs : List Val) :
    yamlMarshalStream c (.null :: v :: vs) = yamlMarshalStream c (v :: vs) := by
  have : v.isNull = false := by cases v <;> first | exact absurd rfl hv | rfl
  have e1 : ∀ f, yamlMarshalStream.go c f true (v :: vs) =
      (do let body ← c.enc v; let tail ← yamlMarshalStream.go c false false vs;
          pure (body ++ tail)) := by
    intro f
    rw [yamlMarshalStream.go]
    simp only [this, Bool.false_eq_true, if_false, if_true, List.nil_append]
  unfold yamlMarshalStream
  rw [yamlMarshalStream.go, e1, e1]
  have hn : Val.null.isNull = true := rfl
  simp only [hn, if_true, List.nil_append]
  cases c.enc v with
  | error e => rfl
  | ok b =>
    simp only [s_bind_ok]
    cases yamlMarshalStream.go c false false vs <;> simp [s_bind_ok, s_bind_error, s_pure]

/-! ## the generic round trip -/

/-- if every document has a separator-free encoding that decodes back to it, then writing the
    encodings joined by a separator and reading the parts back gives the documents -/
theorem forall2_map_right {α β γ : Type} (P : α → γ → Prop) (f : β → γ) :
    ∀ (as : List α) (bs : List β), List.Forall₂ (fun a b => P a (f b)) as bs →
      List.Forall₂ P as (bs.map f)
  | [], _, h => by cases h; exact .nil
  | a :: as, _, h => by
    cases h with
    | cons h1 h2 => exact .cons h1 (forall2_map_right P f as _ h2)

/-- generic form: the part reader `d` may return any type `β`; `f v` is what it makes of the
    encoding of `v` -/
theorem stream_rt_gen {β : Type} (isSep : String → Bool) (sep : String) (hs : isSep sep = true)
    (e : Val → R Lines) (d : Lines → R β) (f : Val → β) (vs : List Val) (hne : vs ≠ [])
    (h : ∀ v ∈ vs, ∃ ls, e v = .ok ls ∧ (∀ l ∈ ls, isSep l = false) ∧ d ls = .ok (f v)) :
    ∃ bs, vs.mapM e = .ok bs ∧ (splitAt isSep (joinWith sep bs)).mapM d = .ok (vs.map f) := by
  have key : ∀ (ws : List Val), (∀ v ∈ ws, ∃ ls, e v = .ok ls ∧ (∀ l ∈ ls, isSep l = false) ∧
      d ls = .ok (f v)) → ∃ bs : List Lines, List.Forall₂ (fun v b => e v = .ok b) ws bs ∧
        List.Forall₂ (fun b v => d b = .ok (f v)) bs ws ∧ (∀ x ∈ bs, ∀ l ∈ x, isSep l = false) := by
    intro ws
    induction ws with
    | nil => intro _; exact ⟨[], .nil, .nil, fun x hx => by cases hx⟩
    | cons w ws ih =>
      intro hw
      obtain ⟨ls, h1, h2, h3⟩ := hw w List.mem_cons_self
      obtain ⟨bs, f1, f2, f3⟩ := ih (fun v hv => hw v (List.mem_cons_of_mem _ hv))
      refine ⟨ls :: bs, .cons h1 f1, .cons h3 f2, ?_⟩
      intro x hx
      rcases List.mem_cons.1 hx with rfl | hx
      · exact h2
      · exact f3 x hx
  obtain ⟨bs, f1, f2, f3⟩ := key vs h
  refine ⟨bs, s_mapM_ok e vs bs f1, ?_⟩
  cases bs with
  | nil => cases f1; exact absurd rfl hne
  | cons b bs =>
    rw [splitAt_joinWith isSep sep hs b bs f3]
    exact s_mapM_ok d _ _ (forall2_map_right (fun b y => d b = .ok y) f _ _ f2)

/-- if every document has a separator-free encoding that decodes back to it, then writing the
    encodings joined by a separator and reading the parts back gives the documents -/
theorem stream_rt (isSep : String → Bool) (sep : String) (hs : isSep sep = true)
    (e : Val → R Lines) (d : Lines → R Val) (vs : List Val) (hne : vs ≠ [])
    (h : ∀ v ∈ vs, ∃ ls, e v = .ok ls ∧ (∀ l ∈ ls, isSep l = false) ∧ d ls = .ok v) :
    ∃ bs, vs.mapM e = .ok bs ∧ (splitAt isSep (joinWith sep bs)).mapM d = .ok vs := by
  have := stream_rt_gen isSep sep hs e d id vs hne h
  simpa using this

/-- a line that YAML's reader treats as blank -/
def blankLine (l : String) : Bool := l.trimAscii.toString == ""

/-- what `yamlUnmarshalStream` does with one part -/
theorem yamlPartDocs_eq (c : Codec) (part : Lines) :
    yamlPartDocs c part =
      (if part.all blankLine then pure [Val.null]
       else (c.decMany part >>= fun ds => pure (if ds.isEmpty then [Val.null] else ds))) := rfl

theorem yamlUnmarshalStream_eq (c : Codec) (text : Lines) :
    yamlUnmarshalStream c text =
      (do let parts ← (splitAt sepYaml text).mapM (yamlPartDocs c); pure parts.flatten) := rfl

theorem flatten_map_singleton {α : Type} : ∀ (xs : List α), (xs.map ([·])).flatten = xs
  | [] => rfl
  | x :: xs => by simp [flatten_map_singleton xs]

/-- the hypotheses on a third-party single-document codec under which the stream framing
    round-trips: on its domain, encoding succeeds, produces no separator line and at least one
    non-blank line, and decoding the produced text gives the value back -/
structure CodecOK (c : Codec) (isSep : String → Bool) (dom : Val → Prop) : Prop where
  rt : ∀ v, dom v → ∃ ls, c.enc v = .ok ls ∧ (∀ l ∈ ls, isSep l = false) ∧
    ls.all blankLine = false ∧ c.dec ls = .ok v
  /-- the encoding of one value holds exactly one document for the decoder loop (used by the YAML
      reader only, which decodes every document of a part) -/
  one : ∀ v ls, dom v → c.enc v = .ok ls → c.decMany ls = .ok [v]

theorem sepYaml_sep : sepYaml "---" = true := by decide
theorem sepToml_sep : sepToml "---" = true := by decide

theorem yaml_rt_general (c : Codec) (dom : Val → Prop) (ok : CodecOK c sepYaml dom)
    (v : Val) (vs : List Val) (hv : v ≠ .null) (hd : ∀ w ∈ v :: vs, w ≠ .null → dom w) :
    ∃ text, yamlMarshalStream c (v :: vs) = .ok text ∧
      yamlUnmarshalStream c text = .ok (v :: vs) := by
  obtain ⟨bs, h1, h2⟩ := stream_rt_gen sepYaml "---" sepYaml_sep (streamBody c) (yamlPartDocs c)
    (fun w => [w]) (v :: vs) (by simp) (by
      intro w hw
      by_cases hn : w = .null
      · subst hn
        exact ⟨[], rfl, (fun l hl => nomatch hl), rfl⟩
      · obtain ⟨ls, e1, e2, e3, e4⟩ := ok.rt w (hd w hw hn)
        refine ⟨ls, by rw [streamBody_nonnull c hn, e1], e2, ?_⟩
        rw [yamlPartDocs_eq]
        simp only [e3, Bool.false_eq_true, if_false, ok.one w ls (hd w hw hn) e1, s_bind_ok]
        rfl)
  refine ⟨joinWith "---" bs, ?_, ?_⟩
  · rw [yamlMarshalStream_eq c v hv vs, h1]; rfl
  · rw [yamlUnmarshalStream_eq, h2, s_bind_ok, s_pure, flatten_map_singleton]

theorem toml_rt_general (c : Codec) (dom : Val → Prop) (ok : CodecOK c sepToml dom)
    (v : Val) (vs : List Val) (hd : ∀ w ∈ v :: vs, w ≠ .null → dom w)
    (hnull : .null ∈ v :: vs → c.dec [] = .ok .null) :
    ∃ text, tomlMarshalStream c (v :: vs) = .ok text ∧
      tomlUnmarshalStream c text = .ok (v :: vs) := by
  obtain ⟨bs, h1, h2⟩ := stream_rt sepToml "---" sepToml_sep (streamBody c) c.dec
    (v :: vs) (by simp) (by
      intro w hw
      by_cases hn : w = .null
      · subst hn
        exact ⟨[], rfl, (fun l hl => nomatch hl), hnull hw⟩
      · obtain ⟨ls, e1, e2, e3, e4⟩ := ok.rt w (hd w hw hn)
        exact ⟨ls, by rw [streamBody_nonnull c hn, e1], e2, e4⟩)
  refine ⟨joinWith "---" bs, ?_, ?_⟩
  · rw [tomlMarshalStream_eq c v vs, h1]; rfl
  · rw [tomlUnmarshalStream, h2]

/-- JSON lines -/
theorem json_rt (c : Codec) (dom : Val → Prop)
    (ok : ∀ v, dom v → ∃ l, c.enc v = .ok [l] ∧ c.dec [l] = .ok v) :
    ∀ (vs : List Val), (∀ v ∈ vs, dom v) →
    ∃ text, jsonMarshalStream c vs = .ok text ∧ jsonUnmarshalLines c text = .ok vs := by
  intro vs hd
  have key : ∀ (ws : List Val), (∀ v ∈ ws, dom v) → ∃ ls : List String,
      List.Forall₂ (fun v b => c.enc v = .ok b) ws (ls.map ([·])) ∧
      List.Forall₂ (fun l v => c.dec [l] = .ok v) ls ws := by
    intro ws
    induction ws with
    | nil => intro _; exact ⟨[], .nil, .nil⟩
    | cons w ws ih =>
      intro hw
      obtain ⟨l, h1, h2⟩ := ok w (hw w List.mem_cons_self)
      obtain ⟨ls, f1, f2⟩ := ih (fun v hv => hw v (List.mem_cons_of_mem _ hv))
      exact ⟨l :: ls, .cons h1 f1, .cons h2 f2⟩
  obtain ⟨ls, f1, f2⟩ := key vs hd
  refine ⟨ls, ?_, s_mapM_ok _ _ _ f2⟩
  rw [jsonMarshalStream, s_mapM_ok _ _ _ f1]
  simp only [s_bind_ok, s_pure]
  congr 1
  clear f1 f2
  induction ls with
  | nil => rfl
  | cons l ls ih => simp [ih]


/-- a line is blank for the YAML reader iff all its characters are ASCII whitespace -/
theorem blankLine_eq (l : String) : blankLine l = l.toList.all Char.isWhitespace := by
  unfold blankLine
  rw [String.Slice.toString_eq]
  have h1 : (l.trimAscii.copy == "") = l.trimAscii.isEmpty := by
    rw [Bool.eq_iff_iff, beq_iff_eq, String.Slice.copy_eq_empty_iff]
  rw [h1]
  show ((l.toSlice.dropWhile Char.isWhitespace).dropEndWhile Char.isWhitespace).isEmpty = _
  rw [String.Slice.isEmpty_dropEndWhile, String.Slice.revAll_bool_eq]
  have h2 := String.Slice.takeWhile_append_dropWhile (pat := Char.isWhitespace) (s := l.toSlice)
  have h3 : (l.toSlice.takeWhile Char.isWhitespace).copy.toList.all Char.isWhitespace = true := by
    rw [← String.Slice.all_bool_eq]
    have := String.Slice.takeWhile_takeWhile (pat := Char.isWhitespace) (s := l.toSlice)
    exact String.Slice.takeWhile_eq_self_iff.1 this
  have h4 : l.toList = (l.toSlice.takeWhile Char.isWhitespace).copy.toList ++
      (l.toSlice.dropWhile Char.isWhitespace).copy.toList := by
    rw [← String.toList_append, h2]; simp
  rw [h4, List.all_append, h3, Bool.true_and]

/-! ## decimal text of an integer -/

/-- the characters of `toString i`: an optional `-` followed by decimal digits -/
theorem int_toString_toList (i : Int) :
    (toString i).toList =
      if 0 ≤ i then Nat.toDigits 10 i.toNat else '-' :: Nat.toDigits 10 (-i).toNat := by
  rw [Int.toString_eq_repr, Int.repr_eq_if]
  split <;> simp [String.toList_append]

theorem toDigits_ne_nil (n : Nat) : Nat.toDigits 10 n ≠ [] := by
  have := @Nat.repr_ne_empty n
  intro h
  apply this
  rw [← String.toList_inj, Nat.toList_repr, h]; rfl

/-- `toString i` starts with a digit or `-`, and continues with digits -/
theorem int_toString_shape (i : Int) : ∃ c cs, (toString i).toList = c :: cs ∧
    (c.isDigit = true ∨ c = '-') ∧ ∀ d ∈ cs, d.isDigit = true := by
  rw [int_toString_toList]
  split
  · cases h : Nat.toDigits 10 i.toNat with
    | nil => exact absurd h (toDigits_ne_nil _)
    | cons c cs =>
      have hd : ∀ d ∈ Nat.toDigits 10 i.toNat, d.isDigit = true := fun d hd =>
        Nat.isDigit_of_mem_toDigits (by decide) (by decide) hd
      rw [h] at hd
      exact ⟨c, cs, rfl, Or.inl (hd c List.mem_cons_self),
        fun d hd' => hd d (List.mem_cons_of_mem _ hd')⟩
  · exact ⟨'-', _, rfl, Or.inr rfl, fun d hd =>
      Nat.isDigit_of_mem_toDigits (by decide) (by decide) hd⟩

theorem isDigit_not_ws {c : Char} (h : c.isDigit = true) : c.isWhitespace = false := by
  simp only [Char.isDigit, Bool.and_eq_true, decide_eq_true_eq] at h
  have h1 : 48 ≤ c.val := h.1
  cases hw : c.isWhitespace
  · rfl
  · simp only [Char.isWhitespace, Bool.or_eq_true, decide_eq_true_eq] at hw
    rcases hw with ((hw | hw) | hw) | hw <;> (subst hw; revert h1; decide)

theorem int_toString_not_blank (i : Int) : blankLine (toString i) = false := by
  obtain ⟨c, cs, h, hc, _⟩ := int_toString_shape i
  rw [blankLine_eq, h, List.all_cons]
  have : c.isWhitespace = false := by
    rcases hc with hc | hc
    · exact isDigit_not_ws hc
    · subst hc; decide
  rw [this]; rfl

theorem int_toString_no_plus (i : Int) : (toString i).startsWith "+" = false := by
  obtain ⟨c, cs, h, hc, _⟩ := int_toString_shape i
  rw [String.startsWith_string_eq_false_iff, h]
  have : "+".toList = ['+'] := by decide
  rw [this]
  intro hp
  obtain ⟨t, ht⟩ := hp
  have hc' : c = '+' := by
    have := congrArg List.head? ht
    simpa using this.symm
  subst hc'
  rcases hc with hc | hc
  · revert hc; decide
  · revert hc; decide

theorem int_toString_not_sep (i : Int) :
    sepYaml (toString i) = false ∧ sepToml (toString i) = false := by
  obtain ⟨c, cs, h, hc, hcs⟩ := int_toString_shape i
  have h1 : toString i ≠ "---" := by
    intro e
    rw [e] at h
    have h' : ['-', '-', '-'] = c :: cs := h
    injection h' with _ h2
    subst h2
    have := hcs '-' (by simp)
    revert this; decide
  have h2 : toString i ≠ "+++" := by
    intro e
    rw [e] at h
    have h' : ['+', '+', '+'] = c :: cs := h
    injection h' with h2 _
    subst h2
    rcases hc with hc | hc <;> (revert hc; decide)
  simp only [sepYaml, sepToml, Bool.or_eq_false_iff, beq_eq_false_iff_ne]
  exact ⟨h1, h1, h2⟩

theorem int_toString_toInt (i : Int) : (toString i).toInt? = some i := Int.toInt?_repr i

/-- a character that is neither a digit, `_` nor `-` makes a text a non-integer -/
theorem toInt?_none_of_bad_char (s : String) (c : Char) (hc : c ∈ s.toList)
    (h1 : c.isDigit = false) (h2 : c ≠ '_') (h3 : c ≠ '-') : s.toInt? = none := by
  rw [String.toInt?_eq_none_iff]
  cases hi : s.isInt with
  | false => rfl
  | true =>
    exfalso
    rcases String.isInt_iff.1 hi with hn | ⟨t, rfl, hn⟩
    · rcases (String.isNat_iff.1 hn).2.1 c hc with h | h
      · rw [h1] at h; cases h
      · exact h2 h
    · rw [String.toList_append] at hc
      rcases List.mem_append.1 hc with hc | hc
      · have : "-".toList = ['-'] := by decide
        rw [this] at hc
        exact h3 (List.mem_singleton.1 hc)
      · rcases (String.isNat_iff.1 hn).2.1 c hc with h | h
        · rw [h1] at h; cases h
        · exact h2 h

/-- `goDecInt` on a text without `+` / `_` is `toInt?` -/
theorem goDecInt_eq_toInt? (s : String) (hp : ∀ cs, s.toList ≠ '+' :: cs) (hu : '_' ∉ s.toList) :
    goDecInt s = s.toInt? := by
  unfold goDecInt
  split
  · rename_i rest h; exact absurd h (hp rest)
  · rename_i cs _
    have : s.toList.any (· == '_') = false := by
      rw [List.any_eq_false]
      intro c hc
      simp only [beq_iff_eq]
      intro e; subst e; exact hu hc
    rw [this]; rfl

theorem goDecInt_toString (i : Int) : goDecInt (toString i) = some i := by
  obtain ⟨c, cs, h, hc, hcs⟩ := int_toString_shape i
  rw [goDecInt_eq_toInt?, int_toString_toInt]
  · intro cs' h'
    rw [h] at h'
    injection h' with h1 _
    subst h1
    rcases hc with hc | hc <;> (revert hc; decide)
  · rw [h]
    intro hm
    rcases List.mem_cons.1 hm with e | hm
    · subst e; rcases hc with hc | hc <;> (revert hc; decide)
    · have := hcs _ hm; revert this; decide

/-- a character that is neither a digit, a sign nor `_` makes a text a non-integer for Go as well -/
theorem goDecInt_none_of_bad_char (s : String) (c : Char) (hc : c ∈ s.toList)
    (h1 : c.isDigit = false) (h2 : c ≠ '_') (h3 : c ≠ '-') (h4 : c ≠ '+') : goDecInt s = none := by
  unfold goDecInt
  split
  · rename_i rest h
    have hc' : c ∈ rest := by
      rw [h] at hc
      rcases List.mem_cons.1 hc with e | hc
      · exact absurd e h4
      · exact hc
    have : rest.all Char.isDigit = false := by
      rw [List.all_eq_false]
      exact ⟨c, hc', by simp [h1]⟩
    simp [this]
  · split
    · rfl
    · exact toInt?_none_of_bad_char s c hc h1 h2 h3

theorem parseInt64_none_of_bad_char (s : String) (c : Char) (hc : c ∈ s.toList)
    (h1 : c.isDigit = false) (h2 : c ≠ '_') (h3 : c ≠ '-') (h4 : c ≠ '+') : parseInt64 s = none := by
  unfold parseInt64
  rw [goDecInt_none_of_bad_char s c hc h1 h2 h3 h4]

/-! ## a toy single-document codec (integers as decimal text) meeting the hypotheses -/

def toyCodec : Codec where
  enc v := match v with
    | .int i => .ok [toString i]
    | _ => .error .marshal
  dec ls := match ls with
    | [] => .ok .null
    | [s] => (match s.toInt? with
      | some i => .ok (.int i)
      | none => .error .unmarshal)
    | _ => .error .unmarshal

def toyDom (v : Val) : Prop := ∃ i, v = .int i

theorem toyCodec_dec (i : Int) : toyCodec.dec [toString i] = .ok (.int i) := by
  simp only [toyCodec, int_toString_toInt]

theorem toyCodec_ok_yaml : CodecOK toyCodec sepYaml toyDom where
  rt := by
    rintro v ⟨i, rfl⟩
    refine ⟨[toString i], rfl, ?_, ?_, toyCodec_dec i⟩
    · intro l hl
      rw [List.mem_singleton.1 hl]; exact (int_toString_not_sep i).1
    · simp only [List.all_cons, List.all_nil, Bool.and_true]; exact int_toString_not_blank i
  one := by
    rintro v ls ⟨i, rfl⟩ he
    have : ls = [toString i] := by
      have h : toyCodec.enc (.int i) = .ok [toString i] := rfl
      rw [h] at he; injection he with he; exact he.symm
    subst this
    show (do let v ← toyCodec.dec [toString i]; pure [v] : R (List Val)) = .ok [.int i]
    rw [toyCodec_dec]; rfl

theorem toyCodec_ok_toml : CodecOK toyCodec sepToml toyDom where
  rt := by
    rintro v ⟨i, rfl⟩
    refine ⟨[toString i], rfl, ?_, ?_, toyCodec_dec i⟩
    · intro l hl
      rw [List.mem_singleton.1 hl]; exact (int_toString_not_sep i).2
    · simp only [List.all_cons, List.all_nil, Bool.and_true]; exact int_toString_not_blank i
  one := by
    rintro v ls ⟨i, rfl⟩ he
    have : ls = [toString i] := by
      have h : toyCodec.enc (.int i) = .ok [toString i] := rfl
      rw [h] at he; injection he with he; exact he.symm
    subst this
    show (do let v ← toyCodec.dec [toString i]; pure [v] : R (List Val)) = .ok [.int i]
    rw [toyCodec_dec]; rfl

theorem toyCodec_ok_json : ∀ v, toyDom v →
    ∃ l, toyCodec.enc v = .ok [l] ∧ toyCodec.dec [l] = .ok v := by
  rintro v ⟨i, rfl⟩
  exact ⟨toString i, rfl, toyCodec_dec i⟩

/-! ## nothing `emit` returns is null -/

theorem filterOutput_some_ne_null {v r : Val} (h : filterOutput v = .ok (some r)) : r ≠ .null := by
  cases v with
  | map kvs =>
    rcases filterOutput_map_ok h with ⟨_, h'⟩ | ⟨_, fs, _, h'⟩
    · cases h'
    · cases h'; intro e; cases e
  | list xs =>
    rcases filterOutput_list_ok h with ⟨_, h'⟩ | ⟨_, rs, _, h'⟩
    · cases h'
    · cases h'; intro e; cases e
  | null => cases filterOutput_scalar_ok rfl rfl h
  | bool _ | int _ | flt _ | str _ =>
    have := filterOutput_scalar_ok rfl rfl h
    simp only [Val.isNull, Bool.false_eq_true, if_false, Option.some.injEq] at this
    subst this; intro e; cases e

theorem finalize_ne_null {v : Val} (h : v ≠ .null) : finalize v ≠ .null := by
  cases v <;> simp [finalize] at h ⊢

theorem emit_nonnull (ds outs : List Val) (h : emit ds = .ok outs) : ∀ o ∈ outs, o ≠ .null := by
  intro o ho
  rw [emit_eq] at h
  cases hs : emitSelect ds with
  | error e => rw [hs] at h; cases h
  | ok vs =>
    rw [hs] at h
    obtain ⟨v, _, v2, hf, _, rfl⟩ := emitFinish_mem vs outs h o ho
    exact finalize_ne_null (filterOutput_some_ne_null hf)

theorem outputDocuments_nonnull (docs : List Val) (env : Vars) (outs : List Val)
    (h : outputDocuments docs env = .ok outs) : ∀ o ∈ outs, o ≠ .null := by
  intro o ho
  unfold outputDocuments at h
  cases hm : docs.mapM (outputDocument docs env) with
  | error e => rw [hm] at h; cases h
  | ok oss =>
    rw [hm] at h
    simp only [s_bind_ok, s_pure, Except.ok.injEq] at h
    subst h
    obtain ⟨os, hos, ho'⟩ := List.mem_flatten.1 ho
    obtain ⟨d, _, hd⟩ := s_forall₂_mem_right (s_mapM_inv _ _ _ hm) os hos
    unfold outputDocument at hd
    cases hp : processDoc docs env d with
    | error e => rw [hp] at hd; cases hd
    | ok ps =>
      rw [hp] at hd
      exact emit_nonnull ps os hd o ho'

/-! ## `chooseFormat` on characters -/

theorem splitOn_slash (s : String) :
    s.splitOn "/" = (List.splitOnP (· == '/') s.toList).map String.ofList := splitOn_char '/' s

/-- `extOf` on characters -/
def extOfChars (cs : List Char) : List Char :=
  match (List.splitOnP (· == '.') cs).reverse with
  | e :: _ :: _ => e
  | _ => []

/-- last non-empty `/`-separated component, on characters -/
def lastCompChars (cs : List Char) : List Char :=
  ((List.splitOnP (· == '/') cs).filter (fun x => !x.isEmpty)).getLastD []

theorem extOf_ofList (cs : List Char) : extOf (String.ofList cs) = String.ofList (extOfChars cs) := by
  unfold extOf extOfChars
  rw [splitOn_dot, String.toList_ofList, ← List.map_reverse]
  cases (List.splitOnP (· == '.') cs).reverse with
  | nil => rfl
  | cons a l => cases l <;> rfl

theorem ofList_ne_empty (x : List Char) : (String.ofList x != "") = !x.isEmpty := by
  cases x with
  | nil => decide
  | cons a l =>
    simp only [List.isEmpty_cons, Bool.not_false, bne_iff_ne, ne_eq]
    intro h
    have := congrArg String.toList h
    simp at this

theorem getLastD_map_ofList (l : List (List Char)) :
    (l.map String.ofList).getLastD "" = String.ofList (l.getLastD []) := by
  induction l with
  | nil => rfl
  | cons a l ih =>
    cases l with
    | nil => rfl
    | cons b l => simpa [List.getLastD] using ih

theorem lastComp_ofList (cs : List Char) :
    (splitPath (String.ofList cs)).getLastD "" = String.ofList (lastCompChars cs) := by
  unfold splitPath lastCompChars
  rw [splitOn_slash, String.toList_ofList, List.filter_map, getLastD_map_ofList]
  congr 3
  funext x
  exact ofList_ne_empty x

theorem chooseFormat_outPath_chars (opts : CliOpts) (x : String) (cs : List Char)
    (hf : opts.format = none) (ho : opts.outPath = some (String.ofList cs)) :
    chooseFormat opts x = String.ofList (extOfChars (lastCompChars cs)) := by
  simp only [chooseFormat, hf, ho, lastComp_ofList, extOf_ofList]

example : chooseFormat { outPath := some "out.toml" } "yaml" = "toml" := by
  have : "out.toml" = String.ofList ['o','u','t','.','t','o','m','l'] := by decide
  rw [chooseFormat_outPath_chars _ _ _ rfl (by rw [← this])]
  decide
example : chooseFormat { outPath := some "dir/out.json" } "yaml" = "json" := by
  have : "dir/out.json" = String.ofList ['d','i','r','/','o','u','t','.','j','s','o','n'] := by decide
  rw [chooseFormat_outPath_chars _ _ _ rfl (by rw [← this])]
  decide

/-! ## `cliRun`: the format test -/
/-- the format `cliRun` ends up with: the chosen one, `json-pretty` when that is empty -/
def finalFormat (opts : CliOpts) (firstInputFmt : String) : String :=
  if chooseFormat opts firstInputFmt == "" then "json-pretty" else chooseFormat opts firstInputFmt

/-- the part of `cliRun` after the input loop -/
def cliFinish (env : Vars) (opts : CliOpts) (s : PState × Option String) : R CliResult :=
  if (!supportedExts.contains (finalFormat opts (s.2.getD ""))) = true then throw Err.unknownFormat
  else do
    let outs ← outputDocuments (s.1.docs.map (·.2)) env
    pure { format := finalFormat opts (s.2.getD ""), docs := outs,
           merged := s.1.docs.map (·.2), loadOrder := s.1.known.map (·.1) }

theorem cliFinish_ok {env : Vars} {opts : CliOpts} {s : PState × Option String} {res : CliResult}
    (h : cliFinish env opts s = .ok res) :
    res.format = finalFormat opts (s.2.getD "") ∧ supportedExts.contains res.format = true := by
  unfold cliFinish at h
  split at h
  · cases h
  · rename_i hc
    cases ho : outputDocuments (s.1.docs.map (·.2)) env with
    | error e => rw [ho] at h; cases h
    | ok outs =>
      rw [ho] at h
      simp only [s_bind_ok, s_pure, Except.ok.injEq] at h
      subst h
      exact ⟨rfl, by simpa using hc⟩

theorem cliFinish_unknown {env : Vars} {opts : CliOpts} {s : PState × Option String}
    (h : supportedExts.contains (finalFormat opts (s.2.getD "")) = false) :
    cliFinish env opts s = .error .unknownFormat := by
  unfold cliFinish
  rw [h]; rfl

theorem cliRun_ok {fs : FS} {cwd : Comps} {env : Vars} {opts : CliOpts} {res : CliResult}
    (h : cliRun fs cwd env opts = .ok res) :
    ∃ s, cliFinish env opts s = .ok res := by
  unfold cliRun at h
  dsimp only at h
  split at h
  · rename_i r _
    cases hr : setRoot fs { root := [], cwd := cwd } r with
    | error e => rw [hr] at h; cases h
    | ok cfg =>
      rw [hr, s_bind_ok] at h
      generalize (forIn (m := Except Err) opts.inputs _ _) = loop at h
      cases loop with
      | error e => cases h
      | ok s => exact ⟨s, h⟩
  · generalize (forIn (m := Except Err) opts.inputs _ _) = loop at h
    cases loop with
    | error e => cases h
    | ok s => exact ⟨s, h⟩

theorem cliRun_no_inputs (fs : FS) (cwd : Comps) (env : Vars) (opts : CliOpts)
    (hr : opts.rootPath = none) (hi : opts.inputs = []) :
    cliRun fs cwd env opts = cliFinish env opts (PState.empty, none) := by
  unfold cliRun
  dsimp only
  rw [hr, hi]
  rfl


/-! # C04: normalisation of decoder output -/

/-! ## integers -/

theorem parseInt64_toString (n : Int) (h1 : int64Min ≤ n) (h2 : n ≤ int64Max) :
    parseInt64 (toString n) = some n := by
  unfold parseInt64
  rw [goDecInt_toString]
  simp [h1, h2]

theorem parseInt64_some {s : String} {i : Int} (h : parseInt64 s = some i) :
    goDecInt s = some i ∧ int64Min ≤ i ∧ i ≤ int64Max := by
  unfold parseInt64 at h
  cases ht : goDecInt s with
  | none => rw [ht] at h; cases h
  | some j =>
    rw [ht] at h
    simp only at h
    split at h
    · rename_i hc
      cases h
      exact ⟨rfl, hc.1, hc.2⟩
    · cases h

theorem parseGoInt_toString (n : Int) (bits : Nat) :
    parseGoInt (toString n) bits =
      if -(2 ^ (bits - 1) : Int) ≤ n ∧ n < (2 ^ (bits - 1) : Int) then some n else none := by
  unfold parseGoInt
  rw [goDecInt_toString]

theorem normalize_jnum (text fr : String) :
    normalize (.jnum text fr) =
      match parseInt64 text with
      | some i => .ok (.int i)
      | none => if fr.isEmpty then .error .other else .ok (.flt fr) := by
  rw [normalize]; rfl

theorem yamlScalar_int (value fr : String) :
    yamlScalar "!!int" value fr =
      match parseGoInt value 32 with
      | some i => .ok (.goInt i)
      | none =>
        match parseGoInt value 64 with
        | some i => .ok (.goInt64 i)
        | none => .error .other := by
  unfold yamlScalar
  rfl

theorem yamlScalar_float (value fr : String) :
    yamlScalar "!!float" value fr = if fr.isEmpty then .error .other else .ok (.goFloat fr) := by
  unfold yamlScalar
  rfl


/-! ## `normalize` fails exactly on `map[any]any` and on numbers no float64 can hold -/

mutual
/-- does the decoder output contain a `map[any]any` (a mapping with a non-string key), or a JSON
    number that is neither an int64 nor convertible to float64 (`floatRepr = ""`, e.g. `1e400`)? -/
def hasMapAny : Raw → Bool
  | .jnum text fr => (parseInt64 text).isNone && fr.isEmpty
  | .list xs => hasMapAnyList xs
  | .map kvs => hasMapAnyFields kvs
  | .listOfMaps ms => hasMapAnyMaps ms
  | .mapAny => true
  | _ => false
def hasMapAnyList : List Raw → Bool
  | [] => false
  | x :: xs => hasMapAny x || hasMapAnyList xs
def hasMapAnyFields : List (String × Raw) → Bool
  | [] => false
  | (_, v) :: rest => hasMapAny v || hasMapAnyFields rest
def hasMapAnyMaps : List (List (String × Raw)) → Bool
  | [] => false
  | m :: ms => hasMapAnyFields m || hasMapAnyMaps ms
end

/-- the two possible outcomes of a normalisation -/
def NormOutcome {α : Type} (b : Bool) (r : R α) : Prop :=
  (b = true ∧ (r = .error .invalidType ∨ r = .error .other)) ∨ (b = false ∧ ∃ v, r = .ok v)

theorem NormOutcome.ok {α : Type} {r : R α} (v : α) (h : r = .ok v) : NormOutcome false r :=
  Or.inr ⟨rfl, v, h⟩

theorem normOutcome_bind2 {α β γ : Type} {b1 b2 : Bool} {r1 : R α} {r2 : R β} (f : α → β → γ)
    (h1 : NormOutcome b1 r1) (h2 : NormOutcome b2 r2) :
    NormOutcome (b1 || b2) (do let a ← r1; let b ← r2; pure (f a b)) := by
  rcases h1 with ⟨rfl, rfl | rfl⟩ | ⟨rfl, a, rfl⟩
  · exact Or.inl ⟨rfl, Or.inl rfl⟩
  · exact Or.inl ⟨rfl, Or.inr rfl⟩
  · rcases h2 with ⟨rfl, rfl | rfl⟩ | ⟨rfl, b, rfl⟩
    · exact Or.inl ⟨rfl, Or.inl rfl⟩
    · exact Or.inl ⟨rfl, Or.inr rfl⟩
    · exact Or.inr ⟨rfl, f a b, rfl⟩

theorem normOutcome_map {α β : Type} {b : Bool} {r : R α} (f : α → β) (h : NormOutcome b r) :
    NormOutcome b (do let a ← r; pure (f a)) := by
  rcases h with ⟨rfl, rfl | rfl⟩ | ⟨rfl, a, rfl⟩
  · exact Or.inl ⟨rfl, Or.inl rfl⟩
  · exact Or.inl ⟨rfl, Or.inr rfl⟩
  · exact Or.inr ⟨rfl, f a, rfl⟩

mutual
theorem normalize_outcome : ∀ (r : Raw), NormOutcome (hasMapAny r) (normalize r)
  | .null => .ok _ (by rw [normalize]; rfl)
  | .bool _ => .ok _ (by rw [normalize]; rfl)
  | .goInt _ => .ok _ (by rw [normalize]; rfl)
  | .goInt64 _ => .ok _ (by rw [normalize]; rfl)
  | .goFloat _ => .ok _ (by rw [normalize]; rfl)
  | .str _ => .ok _ (by rw [normalize]; rfl)
  | .jnum text fr => by
    rw [normalize_jnum, hasMapAny]
    cases parseInt64 text with
    | some i => exact .ok _ rfl
    | none =>
      cases hf : fr.isEmpty with
      | true => exact Or.inl ⟨rfl, Or.inr (by simp)⟩
      | false => exact Or.inr ⟨rfl, .flt fr, by simp⟩
  | .list xs => by
    rw [normalize, hasMapAny]
    exact normOutcome_map _ (normalizeList_outcome xs)
  | .map kvs => by
    rw [normalize, hasMapAny]
    exact normOutcome_map _ (normalizeFields_outcome kvs)
  | .listOfMaps ms => by
    rw [normalize, hasMapAny]
    exact normOutcome_map _ (normalizeMaps_outcome ms)
  | .mapAny => Or.inl ⟨rfl, Or.inl (by rw [normalize]; rfl)⟩
theorem normalizeList_outcome : ∀ (xs : List Raw),
    NormOutcome (hasMapAnyList xs) (normalizeList xs)
  | [] => .ok _ (by rw [normalizeList]; rfl)
  | x :: xs => by
    rw [normalizeList, hasMapAnyList]
    exact normOutcome_bind2 _ (normalize_outcome x) (normalizeList_outcome xs)
theorem normalizeFields_outcome : ∀ (kvs : List (String × Raw)),
    NormOutcome (hasMapAnyFields kvs) (normalizeFields kvs)
  | [] => .ok _ (by rw [normalizeFields]; rfl)
  | (k, v) :: rest => by
    rw [normalizeFields, hasMapAnyFields]
    exact normOutcome_bind2 _ (normalize_outcome v) (normalizeFields_outcome rest)
theorem normalizeMaps_outcome : ∀ (ms : List (List (String × Raw))),
    NormOutcome (hasMapAnyMaps ms) (normalizeMaps ms)
  | [] => .ok _ (by rw [normalizeMaps]; rfl)
  | m :: ms => by
    rw [normalizeMaps, hasMapAnyMaps]
    exact normOutcome_bind2 (fun a b => Val.map (fofList a) :: b)
      (normalizeFields_outcome m) (normalizeMaps_outcome ms)
end



/-! ## maps: the order in which a decoder lists the entries does not matter -/

theorem normalizeFields_cons (k : String) (v : Raw) (rest : List (String × Raw)) :
    normalizeFields ((k, v) :: rest) =
      (do let a ← normalize v; let b ← normalizeFields rest; pure ((k, a) :: b)) := by
  rw [normalizeFields]

theorem normalizeFields_nil : normalizeFields [] = .ok [] := by rw [normalizeFields]; rfl

/-- keys are preserved, in order -/
theorem normalizeFields_keys : ∀ (kvs : List (String × Raw)) (fs : Fields),
    normalizeFields kvs = .ok fs → fs.map (·.1) = kvs.map (·.1)
  | [], fs, h => by
    rw [normalizeFields_nil] at h; cases h; rfl
  | (k, v) :: rest, fs, h => by
    rw [normalizeFields_cons] at h
    cases hv : normalize v with
    | error e => rw [hv] at h; cases h
    | ok a =>
      rw [hv, s_bind_ok] at h
      cases hr : normalizeFields rest with
      | error e => rw [hr] at h; cases h
      | ok b =>
        rw [hr, s_bind_ok] at h
        cases h
        simp only [List.map_cons, normalizeFields_keys rest b hr]

/-- a normalisation either fails or succeeds -/
theorem normalize_cases (r : Raw) : (∃ e, normalize r = .error e) ∨ ∃ v, normalize r = .ok v := by
  rcases normalize_outcome r with ⟨_, h | h⟩ | ⟨_, h⟩
  · exact Or.inl ⟨_, h⟩
  · exact Or.inl ⟨_, h⟩
  · exact Or.inr h

theorem normalizeFields_cases (kvs : List (String × Raw)) :
    (∃ e, normalizeFields kvs = .error e) ∨ ∃ v, normalizeFields kvs = .ok v := by
  rcases normalizeFields_outcome kvs with ⟨_, h | h⟩ | ⟨_, h⟩
  · exact Or.inl ⟨_, h⟩
  · exact Or.inl ⟨_, h⟩
  · exact Or.inr h

/-- permuting the entries: both fail (which of the two possible errors is met first may depend on the
    order, exactly as in Go where the decoder's map is walked in random order), or both succeed with
    permuted results -/
theorem normalizeFields_perm {l' l : List (String × Raw)} (hp : l'.Perm l) :
    (∃ e' e, normalizeFields l' = .error e' ∧ normalizeFields l = .error e) ∨
    (∃ fs' fs, normalizeFields l' = .ok fs' ∧ normalizeFields l = .ok fs ∧ fs'.Perm fs) := by
  induction hp with
  | nil => exact Or.inr ⟨[], [], normalizeFields_nil, normalizeFields_nil, .nil⟩
  | cons x _ ih =>
    obtain ⟨k, v⟩ := x
    rw [normalizeFields_cons, normalizeFields_cons]
    rcases normalize_cases v with ⟨e, hv⟩ | ⟨a, hv⟩
    · rw [hv]; exact Or.inl ⟨_, _, rfl, rfl⟩
    · rw [hv]
      rcases ih with ⟨e1, e2, h1, h2⟩ | ⟨fs', fs, h1, h2, h3⟩
      · rw [h1, h2]; exact Or.inl ⟨_, _, rfl, rfl⟩
      · rw [h1, h2]; exact Or.inr ⟨_, _, rfl, rfl, h3.cons _⟩
  | swap x y l =>
    obtain ⟨kx, vx⟩ := x
    obtain ⟨ky, vy⟩ := y
    simp only [normalizeFields_cons]
    rcases normalize_cases vx with ⟨ex, hx⟩ | ⟨a, hx⟩ <;> rcases normalize_cases vy with ⟨ey, hy⟩ | ⟨b, hy⟩ <;>
      rcases normalizeFields_cases l with ⟨el, hl⟩ | ⟨c, hl⟩ <;> rw [hx, hy, hl]
    all_goals first
      | exact Or.inl ⟨_, _, rfl, rfl⟩
      | exact Or.inr ⟨_, _, rfl, rfl, .swap _ _ _⟩
  | trans _ _ ih1 ih2 =>
    rcases ih1 with ⟨e1, e2, h1, h2⟩ | ⟨fs1, fs2, h1, h2, h3⟩
    · rcases ih2 with ⟨e3, e4, h4, h5⟩ | ⟨fs3, fs4, h4, h5, h6⟩
      · exact Or.inl ⟨_, _, h1, h5⟩
      · rw [h2] at h4; cases h4
    · rcases ih2 with ⟨e3, e4, h4, h5⟩ | ⟨fs3, fs4, h4, h5, h6⟩
      · rw [h2] at h4; cases h4
      · rw [h2] at h4; cases h4
        exact Or.inr ⟨fs1, fs4, h1, h5, h3.trans h6⟩

theorem normalize_map (kvs : List (String × Raw)) :
    normalize (.map kvs) = (do let fs ← normalizeFields kvs; pure (.map (fofList fs))) := by
  rw [normalize]

theorem normalize_map_perm {kvs' kvs : List (String × Raw)} (hp : kvs'.Perm kvs)
    (hn : (kvs.map (·.1)).Nodup) :
    (∃ e' e, normalize (.map kvs') = .error e' ∧ normalize (.map kvs) = .error e) ∨
    (∃ v, normalize (.map kvs') = .ok v ∧ normalize (.map kvs) = .ok v) := by
  rw [normalize_map, normalize_map]
  rcases normalizeFields_perm hp with ⟨e', e, h1, h2⟩ | ⟨fs', fs, h1, h2, h3⟩
  · rw [h1, h2]; exact Or.inl ⟨_, _, rfl, rfl⟩
  · rw [h1, h2, s_bind_ok, s_bind_ok]
    have hd : Fields.DistinctKeys fs := by
      unfold Fields.DistinctKeys
      rw [normalizeFields_keys kvs fs h2]; exact hn
    rw [fofList_perm hd h3]
    exact Or.inr ⟨_, rfl, rfl⟩

/-! ## go-toml arrays of tables -/

theorem normalizeMaps_eq_list : ∀ (ms : List (List (String × Raw))),
    normalizeMaps ms = normalizeList (ms.map Raw.map)
  | [] => by rw [normalizeMaps, List.map_nil, normalizeList]
  | m :: ms => by
    rw [normalizeMaps, List.map_cons, normalizeList, normalize_map, normalizeMaps_eq_list ms]
    cases normalizeFields m with
    | error e => rfl
    | ok fs => rfl

theorem normalize_listOfMaps (ms : List (List (String × Raw))) :
    normalize (.listOfMaps ms) = normalize (.list (ms.map Raw.map)) := by
  rw [normalize, normalize, normalizeMaps_eq_list]


/-! ## YAML merge keys -/

abbrev RFields := List (String × Raw)

/-- Go `dst[k] = v` on an unordered entry list: drop the old entry, append the new one -/
def rput (d : RFields) (kv : String × Raw) : RFields := d.filter (·.1 != kv.1) ++ [kv]

/-- lookup: the LAST entry with the key (the result lists below have distinct keys anyway) -/
def rlookup : RFields → String → Option Raw
  | [], _ => none
  | (k', v) :: rest, k =>
    match rlookup rest k with
    | some r => some r
    | none => if k' = k then some v else none

theorem rlookup_append (a b : RFields) (k : String) :
    rlookup (a ++ b) k = match rlookup b k with | some r => some r | none => rlookup a k := by
  induction a with
  | nil => simp only [List.nil_append, rlookup]; cases rlookup b k <;> rfl
  | cons p a ih =>
    obtain ⟨k', v⟩ := p
    simp only [List.cons_append, rlookup, ih]
    cases rlookup b k <;> rfl

theorem rlookup_filter_ne (d : RFields) (k' k : String) (h : k' ≠ k) :
    rlookup (d.filter (·.1 != k')) k = rlookup d k := by
  induction d with
  | nil => rfl
  | cons p d ih =>
    obtain ⟨k2, v⟩ := p
    by_cases h2 : k2 = k'
    · subst h2
      simp only [List.filter_cons, bne_self_eq_false, Bool.false_eq_true, if_false, ih, rlookup, h]
      cases rlookup d k <;> rfl
    · have : (k2 != k') = true := by simpa using h2
      simp only [List.filter_cons, this, if_true, rlookup, ih]

theorem rlookup_filter_same (d : RFields) (k : String) :
    rlookup (d.filter (·.1 != k)) k = none := by
  induction d with
  | nil => rfl
  | cons p d ih =>
    obtain ⟨k2, v⟩ := p
    by_cases h2 : k2 = k
    · subst h2
      simp only [List.filter_cons, bne_self_eq_false, Bool.false_eq_true, if_false, ih]
    · have : (k2 != k) = true := by simpa using h2
      simp only [List.filter_cons, this, if_true, rlookup, ih, h2, if_false]

theorem rlookup_rput (d : RFields) (kv : String × Raw) (k : String) :
    rlookup (rput d kv) k = if kv.1 = k then some kv.2 else rlookup d k := by
  obtain ⟨k', v⟩ := kv
  unfold rput
  rw [rlookup_append]
  by_cases h : k' = k
  · subst h; simp [rlookup]
  · simp only [rlookup, h, if_false, rlookup_filter_ne d k' k h]

/-- `for k, v := range src { dst[k] = v }`: the source wins -/
theorem rlookup_foldl_rput (kvs : RFields) : ∀ (d : RFields) (k : String),
    rlookup (kvs.foldl rput d) k =
      match rlookup kvs k with | some r => some r | none => rlookup d k := by
  induction kvs with
  | nil => intro d k; rfl
  | cons p kvs ih =>
    intro d k
    rw [List.foldl_cons, ih, rlookup_rput]
    obtain ⟨k', v⟩ := p
    simp only [rlookup]
    cases rlookup kvs k <;> simp only []
    split <;> rfl

theorem rput_keys_nodup (d : RFields) (kv : String × Raw) (h : (d.map (·.1)).Nodup) :
    ((rput d kv).map (·.1)).Nodup := by
  unfold rput
  rw [List.map_append, List.nodup_append]
  refine ⟨(List.filter_sublist.map _).nodup h, by simp, ?_⟩
  intro a ha b hb
  simp only [List.map_cons, List.map_nil, List.mem_singleton] at hb
  subst hb
  simp only [List.mem_map, List.mem_filter] at ha
  obtain ⟨p, ⟨_, hp⟩, rfl⟩ := ha
  simpa using hp

theorem foldl_rput_keys_nodup (kvs : RFields) : ∀ (d : RFields), (d.map (·.1)).Nodup →
    ((kvs.foldl rput d).map (·.1)).Nodup := by
  induction kvs with
  | nil => intro d h; exact h
  | cons p kvs ih => intro d h; exact ih _ (rput_keys_nodup d p h)

/-- lookup in a list of mappings: the FIRST mapping that has the key -/
def rlookupMaps : List RFields → String → Option Raw
  | [], _ => none
  | m :: ms, k => match rlookup m k with | some r => some r | none => rlookupMaps ms k

/-- merging a list of mappings, last first -/
def rmergeAll (ms : List RFields) (d : RFields) : RFields :=
  ms.reverse.foldl (fun d m => m.foldl rput d) d

theorem rlookup_rmergeAll (ms : List RFields) : ∀ (d : RFields) (k : String),
    rlookup (rmergeAll ms d) k =
      match rlookupMaps ms k with | some r => some r | none => rlookup d k := by
  induction ms with
  | nil => intro d k; rfl
  | cons m ms ih =>
    intro d k
    unfold rmergeAll at ih ⊢
    rw [List.reverse_cons, List.foldl_append, List.foldl_cons, List.foldl_nil,
      rlookup_foldl_rput, ih]
    simp only [rlookupMaps]
    cases rlookup m k <;> rfl

theorem rmergeAll_keys_nodup (ms : List RFields) (d : RFields) (h : (d.map (·.1)).Nodup) :
    ((rmergeAll ms d).map (·.1)).Nodup := by
  unfold rmergeAll
  generalize ms.reverse = l
  induction l generalizing d with
  | nil => exact h
  | cons m l ih => exact ih _ (foldl_rput_keys_nodup m d h)

theorem yamlMergeInto_map (dst kvs : RFields) :
    yamlMergeInto dst (.map kvs) = .ok (kvs.foldl rput dst) := rfl

theorem yamlMergeInto_list_maps (dst : RFields) (ms : List RFields) :
    yamlMergeInto dst (.list (ms.map Raw.map)) = .ok (rmergeAll ms dst) := by
  unfold yamlMergeInto rmergeAll
  simp only
  rw [← List.map_reverse]
  generalize ms.reverse = l
  induction l generalizing dst with
  | nil => rfl
  | cons m l ih =>
    rw [List.map_cons, List.foldlM_cons, List.foldl_cons]
    exact ih _

/-- anything but a mapping or a list of mappings is an error -/
theorem yamlMergeInto_scalar (dst : RFields) (s : String) :
    yamlMergeInto dst (.str s) = .error .invalidType := rfl



theorem yamlTranslate_mapping (pairs : List (String × YNode)) :
    yamlTranslate (.mapping pairs) =
      (do let merged ← yamlTranslateMerges pairs []
          let locals ← yamlTranslatePairs pairs
          pure (.map (locals.foldl rput merged))) := by
  rw [yamlTranslate]; rfl

theorem yamlTranslateMerges_no_merge : ∀ (pairs : List (String × YNode)) (acc : RFields),
    (∀ p ∈ pairs, p.1 ≠ "<<") → yamlTranslateMerges pairs acc = .ok acc
  | [], acc, _ => by rw [yamlTranslateMerges]; rfl
  | (k, v) :: rest, acc, h => by
    have hk : (k == "<<") = false := by simpa using h (k, v) List.mem_cons_self
    rw [yamlTranslateMerges]
    simp only [hk, Bool.false_eq_true, if_false]
    exact yamlTranslateMerges_no_merge rest acc (fun p hp => h p (List.mem_cons_of_mem _ hp))

theorem yamlTranslateMerges_merge (x : YNode) (post : List (String × YNode)) :
    ∀ (pre : List (String × YNode)) (acc : RFields), (∀ p ∈ pre, p.1 ≠ "<<") →
    yamlTranslateMerges (pre ++ ("<<", x) :: post) acc =
      (do let src ← yamlTranslate x
          let acc' ← yamlMergeInto acc src
          yamlTranslateMerges post acc')
  | [], acc, _ => by
    rw [List.nil_append, yamlTranslateMerges]
    simp only [beq_self_eq_true, if_true]
  | (k, v) :: rest, acc, h => by
    have hk : (k == "<<") = false := by simpa using h (k, v) List.mem_cons_self
    rw [List.cons_append, yamlTranslateMerges]
    simp only [hk, Bool.false_eq_true, if_false]
    exact yamlTranslateMerges_merge x post rest acc (fun p hp => h p (List.mem_cons_of_mem _ hp))

theorem yamlTranslatePairs_skip (x : YNode) (post : List (String × YNode)) :
    ∀ (pre : List (String × YNode)),
    yamlTranslatePairs (pre ++ ("<<", x) :: post) = yamlTranslatePairs (pre ++ post)
  | [] => by
    rw [List.nil_append, yamlTranslatePairs]
    simp only [beq_self_eq_true, if_true, List.nil_append]
  | (k, v) :: rest => by
    rw [List.cons_append, List.cons_append, yamlTranslatePairs, yamlTranslatePairs,
      yamlTranslatePairs_skip x post rest]

/-- one `<<` entry among otherwise ordinary pairs -/
theorem yamlTranslate_one_merge (pre post : List (String × YNode)) (x : YNode) (src : Raw)
    (merged ls : RFields)
    (hpre : ∀ p ∈ pre, p.1 ≠ "<<") (hpost : ∀ p ∈ post, p.1 ≠ "<<")
    (hx : yamlTranslate x = .ok src) (hm : yamlMergeInto [] src = .ok merged)
    (hl : yamlTranslatePairs (pre ++ post) = .ok ls) :
    yamlTranslate (.mapping (pre ++ ("<<", x) :: post)) = .ok (.map (ls.foldl rput merged)) := by
  rw [yamlTranslate_mapping, yamlTranslateMerges_merge x post pre [] hpre, hx, s_bind_ok, hm,
    s_bind_ok, yamlTranslateMerges_no_merge post merged hpost, s_bind_ok,
    yamlTranslatePairs_skip, hl]
  rfl



theorem yamlScalar_int_toString (n : Int) (fr : String) (h1 : int64Min ≤ n) (h2 : n ≤ int64Max) :
    yamlScalar "!!int" (toString n) fr =
      if -(2147483648 : Int) ≤ n ∧ n < 2147483648 then .ok (.goInt n) else .ok (.goInt64 n) := by
  rw [yamlScalar_int, parseGoInt_toString, parseGoInt_toString]
  have e32 : ((2 : Int) ^ (32 - 1)) = 2147483648 := by decide
  have e64 : ((2 : Int) ^ (64 - 1)) = 9223372036854775808 := by decide
  rw [e32, e64]
  unfold int64Min at h1
  unfold int64Max at h2
  by_cases h : -(2147483648 : Int) ≤ n ∧ n < 2147483648
  · simp only [h, and_self, if_true]
  · have h64 : -(9223372036854775808 : Int) ≤ n ∧ n < 9223372036854775808 := by omega
    simp only [h, if_false, h64, and_self, if_true]

end Bkl
