/-
  BklProofs.Lemmas.Parser — helper lemmas about the parser model (`Bkl/Parser.lean`):
  `List.mapM` in `Except`, the shape of `mergeInto`, and the document filters of
  `parentsOf` / `findMatches` rewritten over plain ancestor membership.
-/
import Bkl.Parser
namespace Bkl

/-- core-only stand-in for Mathlib's `List.Forall₂`: two lists related element by element -/
inductive Forall2 {α β : Type} (r : α → β → Prop) : List α → List β → Prop
  | nil : Forall2 r [] []
  | cons {a b l l'} : r a b → Forall2 r l l' → Forall2 r (a :: l) (b :: l')

/-! ## `List.mapM` in the `Except` monad -/

theorem mapM_R_nil {α β : Type} (f : α → R β) : ([] : List α).mapM f = .ok [] := by
  rw [List.mapM_nil]; rfl

theorem mapM_R_cons {α β : Type} (f : α → R β) (a : α) (l : List α) :
    (a :: l).mapM f =
      match f a with
      | .error e => .error e
      | .ok b =>
        match l.mapM f with
        | .error e => .error e
        | .ok bs => .ok (b :: bs) := by
  rw [List.mapM_cons]
  cases f a with
  | error e => rfl
  | ok b =>
    cases l.mapM f with
    | error e => rfl
    | ok bs => rfl

/-- a `mapM` succeeds exactly when every element's step succeeds, element by element -/
theorem mapM_R_ok_iff {α β : Type} (f : α → R β) (l : List α) (l' : List β) :
    l.mapM f = .ok l' ↔ Forall2 (fun a b => f a = .ok b) l l' := by
  induction l generalizing l' with
  | nil =>
    rw [mapM_R_nil]
    constructor
    · intro h; cases h; exact Forall2.nil
    · intro h; cases h; rfl
  | cons a l ih =>
    rw [mapM_R_cons]
    constructor
    · intro h
      cases hfa : f a with
      | error e => rw [hfa] at h; cases h
      | ok b =>
        rw [hfa] at h
        cases hl : l.mapM f with
        | error e => rw [hl] at h; cases h
        | ok bs =>
          rw [hl] at h
          cases h
          exact Forall2.cons hfa ((ih bs).1 hl)
    · intro h
      cases h with
      | cons h1 h2 =>
        rw [h1, (ih _).2 h2]

/-- a failing element makes the whole `mapM` fail -/
theorem mapM_R_error_of_mem {α β : Type} (f : α → R β) (l : List α) {a : α} {e : Err}
    (ha : a ∈ l) (hf : f a = .error e) : ∃ e', l.mapM f = .error e' := by
  induction l with
  | nil => cases ha
  | cons x l ih =>
    rw [mapM_R_cons]
    rcases List.mem_cons.1 ha with rfl | ha
    · rw [hf]; exact ⟨e, rfl⟩
    · cases f x with
      | error e1 => exact ⟨e1, rfl⟩
      | ok b =>
        obtain ⟨e', he'⟩ := ih ha
        rw [he']; exact ⟨e', rfl⟩

/-- the error of a failing `mapM` is the error of its first failing element -/
theorem mapM_R_error_iff {α β : Type} (f : α → R β) (l : List α) (e : Err) :
    l.mapM f = .error e ↔
      ∃ l1 a l2, l = l1 ++ a :: l2 ∧ (∀ x ∈ l1, ∃ y, f x = .ok y) ∧ f a = .error e := by
  induction l with
  | nil =>
    rw [mapM_R_nil]
    constructor
    · intro h; cases h
    · rintro ⟨l1, a, l2, h, _⟩
      cases l1 <;> cases h
  | cons x l ih =>
    rw [mapM_R_cons]
    cases hfx : f x with
    | error e1 =>
      constructor
      · intro h
        cases h
        exact ⟨[], x, l, rfl, fun _ h => (nomatch h), hfx⟩
      · rintro ⟨l1, a, l2, h, hok, herr⟩
        cases l1 with
        | nil =>
          cases h
          rw [hfx] at herr; cases herr; rfl
        | cons y l1 =>
          cases h
          obtain ⟨y', hy'⟩ := hok x List.mem_cons_self
          rw [hfx] at hy'; cases hy'
    | ok b =>
      constructor
      · intro h
        cases hl : l.mapM f with
        | ok bs => rw [hl] at h; cases h
        | error e1 =>
          rw [hl] at h
          cases h
          obtain ⟨l1, a, l2, h1, h2, h3⟩ := (ih).1 hl
          refine ⟨x :: l1, a, l2, by rw [h1]; rfl, ?_, h3⟩
          intro z hz
          rcases List.mem_cons.1 hz with rfl | hz
          · exact ⟨b, hfx⟩
          · exact h2 z hz
      · rintro ⟨l1, a, l2, h, hok, herr⟩
        cases l1 with
        | nil =>
          cases h
          rw [hfx] at herr; cases herr
        | cons y l1 =>
          cases h
          rw [(ih).2 ⟨l1, a, l2, rfl, fun z hz => hok z (List.mem_cons_of_mem _ hz), herr⟩]

/-! ## `Forall₂` by index -/

theorem forall₂_getElem? {α β : Type} {r : α → β → Prop} {l : List α} {l' : List β}
    (h : Forall2 r l l') (i : Nat) {a : α} (ha : l[i]? = some a) :
    ∃ b, l'[i]? = some b ∧ r a b := by
  induction h generalizing i with
  | nil => simp at ha
  | cons h1 _ ih =>
    cases i with
    | zero =>
      simp only [List.getElem?_cons_zero, Option.some.injEq] at ha
      subst ha
      exact ⟨_, by simp, h1⟩
    | succ i =>
      simp only [List.getElem?_cons_succ] at ha ⊢
      exact ih i ha

theorem forall₂_length {α β : Type} {r : α → β → Prop} {l : List α} {l' : List β}
    (h : Forall2 r l l') : l.length = l'.length := by
  induction h with
  | nil => rfl
  | cons _ _ ih => simp [ih]

theorem forall₂_mem_left {α β : Type} {r : α → β → Prop} {l : List α} {l' : List β}
    (h : Forall2 r l l') {a : α} (ha : a ∈ l) : ∃ b, b ∈ l' ∧ r a b := by
  induction h with
  | nil => cases ha
  | cons h1 _ ih =>
    rcases List.mem_cons.1 ha with rfl | ha
    · exact ⟨_, List.mem_cons_self, h1⟩
    · obtain ⟨b, hb, hr⟩ := ih ha
      exact ⟨b, List.mem_cons_of_mem _ hb, hr⟩

/-! ## `mergeInto` -/

/-- what `mergeInto` does with one document -/
def mergeStep (targets : List String) (body : Val) (p : String × Val) : R (String × Val) :=
  if targets.contains p.1 then
    match merge p.2 body with
    | .error e => .error e
    | .ok v => .ok (p.1, v)
  else .ok p

theorem mergeInto_eq (st : PState) (pid : String) (targets : List String) (body : Val) :
    mergeInto st pid targets body =
      match st.docs.mapM (mergeStep targets body) with
      | .error e => .error e
      | .ok docs => .ok { docs := docs, known := addParents st.known pid targets } := by
  have hf : (fun (x : String × Val) =>
      match x with
      | (id, d) =>
        if targets.contains id = true then do pure (id, ← merge d body) else (pure (id, d) : R _)) =
      mergeStep targets body := by
    funext ⟨id, d⟩
    simp only [mergeStep]
    split
    · cases merge d body <;> rfl
    · rfl
  unfold mergeInto
  rw [hf]
  cases st.docs.mapM (mergeStep targets body) <;> rfl

/-- the per-document relation established by a successful `mergeInto` -/
def StepRel (targets : List String) (body : Val) (old new : String × Val) : Prop :=
  new.1 = old.1 ∧
    (if old.1 ∈ targets then merge old.2 body = .ok new.2 else new.2 = old.2)

theorem mergeStep_ok_iff (targets : List String) (body : Val) (old new : String × Val) :
    mergeStep targets body old = .ok new ↔ StepRel targets body old new := by
  obtain ⟨i, d⟩ := old
  obtain ⟨i', d'⟩ := new
  simp only [mergeStep, StepRel, List.contains_iff_mem]
  by_cases h : i ∈ targets
  · simp only [h, if_true]
    cases hm : merge d body with
    | error e => simp
    | ok v =>
      simp only [Except.ok.injEq, Prod.mk.injEq]
      constructor
      · rintro ⟨rfl, rfl⟩; exact ⟨rfl, rfl⟩
      · rintro ⟨rfl, rfl⟩; exact ⟨rfl, rfl⟩
  · simp only [h, if_false, Except.ok.injEq, Prod.mk.injEq]
    constructor
    · rintro ⟨rfl, rfl⟩; exact ⟨rfl, rfl⟩
    · rintro ⟨rfl, rfl⟩; exact ⟨rfl, rfl⟩

theorem mapM_mergeStep_ok_iff (targets : List String) (body : Val)
    (docs docs' : List (String × Val)) :
    docs.mapM (mergeStep targets body) = .ok docs' ↔
      Forall2 (StepRel targets body) docs docs' := by
  rw [mapM_R_ok_iff]
  have : (fun a b => mergeStep targets body a = .ok b) = StepRel targets body := by
    funext a b; exact propext (mergeStep_ok_iff targets body a b)
  rw [this]

theorem mergeInto_ok_iff (st st' : PState) (pid : String) (targets : List String) (body : Val) :
    mergeInto st pid targets body = .ok st' ↔
      Forall2 (StepRel targets body) st.docs st'.docs ∧
        st'.known = addParents st.known pid targets := by
  rw [mergeInto_eq, ← mapM_mergeStep_ok_iff]
  cases h : st.docs.mapM (mergeStep targets body) with
  | error e => simp
  | ok docs =>
    obtain ⟨d', k'⟩ := st'
    simp only [Except.ok.injEq, PState.mk.injEq]
    constructor
    · rintro ⟨rfl, rfl⟩; exact ⟨rfl, rfl⟩
    · rintro ⟨rfl, rfl⟩; exact ⟨rfl, rfl⟩

/-- ids are untouched by a successful `mergeInto`-style pass -/
theorem forall₂_stepRel_ids {targets : List String} {body : Val} {l l' : List (String × Val)}
    (h : Forall2 (StepRel targets body) l l') : l'.map (·.1) = l.map (·.1) := by
  induction h with
  | nil => rfl
  | cons h1 _ ih => simp only [List.map_cons, ih, h1.1]

theorem stepRel_functional {targets : List String} {body : Val} {a b1 b2 : String × Val}
    (h1 : StepRel targets body a b1) (h2 : StepRel targets body a b2) : b1 = b2 := by
  obtain ⟨i1, d1⟩ := b1
  obtain ⟨i2, d2⟩ := b2
  obtain ⟨e1, r1⟩ := h1
  obtain ⟨e2, r2⟩ := h2
  simp only at e1 e2 r1 r2
  subst e1 e2
  by_cases h : a.1 ∈ targets
  · rw [if_pos h] at r1 r2
    rw [r1] at r2
    cases r2; rfl
  · rw [if_neg h] at r1 r2
    rw [r1, r2]

/-- the (total) function computed by a successful pass: data of a failed merge left as is -/
def stepFun (targets : List String) (body : Val) (p : String × Val) : String × Val :=
  (p.1, if p.1 ∈ targets then (match merge p.2 body with | .ok v => v | .error _ => p.2) else p.2)

theorem forall2_stepRel_eq_map {targets : List String} {body : Val} {l l' : List (String × Val)}
    (h : Forall2 (StepRel targets body) l l') : l' = l.map (stepFun targets body) := by
  induction h with
  | nil => rfl
  | @cons a b _ _ h1 _ ih =>
    rw [List.map_cons, ← ih]
    congr 1
    obtain ⟨i, d⟩ := a
    obtain ⟨i', d'⟩ := b
    obtain ⟨e, r⟩ := h1
    simp only at e r
    subst e
    simp only [stepFun]
    by_cases h : i' ∈ targets
    · rw [if_pos h] at r; rw [if_pos h, r]
    · rw [if_neg h] at r; rw [if_neg h, r]

theorem forall2_stepRel_of_ok {targets : List String} {body : Val} {l : List (String × Val)}
    (h : ∀ p ∈ l, p.1 ∈ targets → ∃ v, merge p.2 body = .ok v) :
    Forall2 (StepRel targets body) l (l.map (stepFun targets body)) := by
  induction l with
  | nil => exact Forall2.nil
  | cons a l ih =>
    rw [List.map_cons]
    refine Forall2.cons ?_ (ih (fun p hp => h p (List.mem_cons_of_mem _ hp)))
    refine ⟨rfl, ?_⟩
    simp only [stepFun]
    by_cases ht : a.1 ∈ targets
    · obtain ⟨v, hv⟩ := h a List.mem_cons_self ht
      rw [if_pos ht, if_pos ht, hv]
    · rw [if_neg ht, if_neg ht]

theorem mergeStep_error_iff (targets : List String) (body : Val) (p : String × Val) (e : Err) :
    mergeStep targets body p = .error e ↔ p.1 ∈ targets ∧ merge p.2 body = .error e := by
  simp only [mergeStep, List.contains_iff_mem]
  by_cases h : p.1 ∈ targets
  · simp only [h, if_true, true_and]
    cases merge p.2 body <;> simp
  · simp [h]

theorem mergeStep_ok_iff' (targets : List String) (body : Val) (p : String × Val) :
    (∃ y, mergeStep targets body p = .ok y) ↔ (p.1 ∈ targets → ∃ v, merge p.2 body = .ok v) := by
  simp only [mergeStep, List.contains_iff_mem]
  by_cases h : p.1 ∈ targets
  · simp only [h, if_true, true_implies]
    cases merge p.2 body <;> simp
  · simp [h]

theorem mergeInto_error_iff (st : PState) (pid : String) (targets : List String) (body : Val)
    (e : Err) :
    mergeInto st pid targets body = .error e ↔
      st.docs.mapM (mergeStep targets body) = .error e := by
  rw [mergeInto_eq]
  cases st.docs.mapM (mergeStep targets body) <;> simp

/-! ## the document filters -/

/-- for a document of `st.docs`, "its id is among `parentsOf`" is plain ancestor membership -/
theorem contains_parentsOf (st : PState) (direct : List String) {d : String × Val}
    (hd : d ∈ st.docs) :
    (parentsOf st direct).contains d.1 =
      (allParents st.known (st.known.length + 1) direct).contains d.1 := by
  rw [Bool.eq_iff_iff, List.contains_iff_mem, List.contains_iff_mem]
  unfold parentsOf
  simp only [List.mem_map, List.mem_filter, List.contains_iff_mem]
  constructor
  · rintro ⟨d', ⟨_, h⟩, he⟩
    rw [← he]; exact h
  · intro h
    exact ⟨d, ⟨hd, h⟩, rfl⟩

theorem filter_congr_mem {α : Type} {p q : α → Bool} {l : List α}
    (h : ∀ a ∈ l, p a = q a) : l.filter p = l.filter q := by
  induction l with
  | nil => rfl
  | cons a l ih =>
    have h1 := h a List.mem_cons_self
    have h2 := ih (fun b hb => h b (List.mem_cons_of_mem _ hb))
    simp only [List.filter_cons, h1, h2]

/-- `findMatches`, with the ancestor test written directly on `allParents` -/
theorem findMatches_eq (st : PState) (direct : List String) (pat : Val) :
    findMatches st direct pat =
      let anc := allParents st.known (st.known.length + 1) direct
      let m1 := (st.docs.filter fun d => anc.contains d.1 && matchV d.2 pat).map (·.1)
      if m1 ≠ [] then m1 else (st.docs.filter fun d => matchV d.2 pat).map (·.1) := by
  unfold findMatches
  have h : (st.docs.filter fun d => (parentsOf st direct).contains d.1 && matchV d.2 pat) =
      (st.docs.filter fun d =>
        (allParents st.known (st.known.length + 1) direct).contains d.1 && matchV d.2 pat) :=
    filter_congr_mem (fun d hd => by rw [contains_parentsOf st direct hd])
  simp only [h]
  cases hm : (List.map (fun x => x.fst) (List.filter (fun d =>
      (allParents st.known (st.known.length + 1) direct).contains d.1 && matchV d.2 pat) st.docs)) with
  | nil => simp
  | cons a l => simp

theorem isEmpty_eq_false_iff_ne_nil {α : Type} (l : List α) : l.isEmpty = false ↔ l ≠ [] := by
  cases l <;> simp

/-- a filter on the id only depends on the id list only -/
theorem filter_ids (docs : List (String × Val)) (p : String → Bool) :
    (docs.filter fun d => p d.1).map (·.1) = (docs.map (·.1)).filter p := by
  induction docs with
  | nil => rfl
  | cons d l ih =>
    simp only [List.filter_cons, List.map_cons]
    cases p d.1 <;> simp [ih]

/-! ## `addParents` -/

theorem addParents_any_self (known : List (String × List String)) (id : String)
    (ps : List String) : (addParents known id ps).any (·.1 == id) = true := by
  unfold addParents
  split
  · rename_i h
    rw [List.any_eq_true] at h ⊢
    obtain ⟨x, hx, hxe⟩ := h
    refine ⟨(x.1, x.2 ++ ps), ?_, hxe⟩
    rw [List.mem_map]
    exact ⟨x, hx, by simp [hxe]⟩
  · simp

/-- registering no further parents leaves the table as it is (once the id is present) -/
theorem addParents_nil_of_any (known : List (String × List String)) (id : String)
    (h : known.any (·.1 == id) = true) : addParents known id [] = known := by
  unfold addParents
  rw [if_pos h]
  have : (fun (x : String × List String) =>
      match x with | (i, old) => if (i == id) = true then (i, old ++ []) else (i, old)) = _root_.id := by
    funext ⟨i, old⟩; simp
  rw [this, List.map_id]

/-! ## `allParents` computes the transitive closure of the recorded parent links -/

/-- `x` is `direct` or reachable from `direct` along recorded parent links -/
inductive Ancestor (known : List (String × List String)) (direct : List String) : String → Prop
  | direct {x : String} : x ∈ direct → Ancestor known direct x
  | step {p x : String} : Ancestor known direct p → x ∈ lookupParents known p →
      Ancestor known direct x

/-- the same, along paths that never continue through `a` -/
inductive AncestorAvoid (known : List (String × List String)) (a : String) (direct : List String) :
    String → Prop
  | direct {x : String} : x ∈ direct → AncestorAvoid known a direct x
  | step {p x : String} : AncestorAvoid known a direct p → p ≠ a → x ∈ lookupParents known p →
      AncestorAvoid known a direct x

theorem ancestor_of_lookup {known : List (String × List String)} {direct : List String}
    {p x : String} (hp : p ∈ direct) (h : Ancestor known (lookupParents known p) x) :
    Ancestor known direct x := by
  induction h with
  | direct hx => exact .step (.direct hp) hx
  | step _ hx ih => exact .step ih hx

/-- soundness: everything `allParents` returns is an ancestor -/
theorem ancestor_of_mem_allParents {known : List (String × List String)} {fuel : Nat}
    {direct : List String} {x : String} (h : x ∈ allParents known fuel direct) :
    Ancestor known direct x := by
  induction fuel generalizing direct x with
  | zero => exact .direct h
  | succ n ih =>
    simp only [allParents, List.mem_append, List.mem_flatMap] at h
    rcases h with h | ⟨p, hp, hx⟩
    · exact .direct h
    · exact ancestor_of_lookup hp (ih hx)

theorem ancestor_front {known : List (String × List String)} {direct : List String} {x : String}
    (h : Ancestor known direct x) :
    x ∈ direct ∨ ∃ d0, d0 ∈ direct ∧ Ancestor known (lookupParents known d0) x := by
  induction h with
  | direct hx => exact .inl hx
  | @step p x _ hx ih =>
    rcases ih with hp | ⟨d0, hd0, hr⟩
    · exact .inr ⟨p, hp, .direct hx⟩
    · exact .inr ⟨d0, hd0, .step hr hx⟩

theorem ancestor_nil_false {known : List (String × List String)} {x : String}
    (h : Ancestor known [] x) : False := by
  induction h with
  | direct hx => cases hx
  | step _ _ ih => exact ih

theorem ancestor_split {known : List (String × List String)} (a : String) {direct : List String}
    {x : String} (h : Ancestor known direct x) :
    AncestorAvoid known a direct x ∨ AncestorAvoid known a (lookupParents known a) x := by
  induction h with
  | direct hx => exact .inl (.direct hx)
  | @step p x _ hx ih =>
    by_cases hpa : p = a
    · subst hpa; exact .inr (.direct hx)
    · rcases ih with h | h
      · exact .inl (.step h hpa hx)
      · exact .inr (.step h hpa hx)

theorem lookupParents_filter_ne (known : List (String × List String)) {a p : String}
    (h : p ≠ a) : lookupParents (known.filter fun e => e.1 != a) p = lookupParents known p := by
  unfold lookupParents
  rw [List.find?_filter]
  have : (fun e : String × List String => decide ((e.1 != a) = true ∧ (e.1 == p) = true)) =
      (fun e => e.1 == p) := by
    funext e
    by_cases he : e.1 = p
    · subst he; simp [h]
    · simp [he]
  rw [this]

theorem lookupParents_filter_self (known : List (String × List String)) (a : String) :
    lookupParents (known.filter fun e => e.1 != a) a = [] := by
  unfold lookupParents
  rw [List.find?_filter]
  have : (fun e : String × List String => decide ((e.1 != a) = true ∧ (e.1 == a) = true)) =
      (fun _ => false) := by
    funext e
    by_cases he : e.1 = a <;> simp [he]
  rw [this]
  have hn : known.find? (fun _ => false) = none := by
    rw [List.find?_eq_none]; intro _ _ h; cases h
  rw [hn]

theorem lookupParents_of_not_key (known : List (String × List String)) (a : String)
    (h : known.any (·.1 == a) = false) : lookupParents known a = [] := by
  unfold lookupParents
  have : known.find? (·.1 == a) = none := by
    rw [List.find?_eq_none]
    intro e he
    have := List.any_eq_false.1 h e he
    simpa using this
  rw [this]

theorem filter_key_length_lt (known : List (String × List String)) (a : String)
    (h : known.any (·.1 == a) = true) :
    (known.filter fun e => e.1 != a).length < known.length := by
  induction known with
  | nil => simp at h
  | cons e l ih =>
    rw [List.filter_cons]
    by_cases he : e.1 = a
    · have : (e.1 != a) = false := by simp [he]
      rw [this]
      have := List.length_filter_le (fun e : String × List String => e.1 != a) l
      simp only [Bool.false_eq_true, if_false, List.length_cons]
      omega
    · have h1 : (e.1 != a) = true := by simp [he]
      rw [h1]
      simp only [if_true, List.length_cons]
      have : l.any (·.1 == a) = true := by
        simpa [List.any_cons, he] using h
      have := ih this
      omega

theorem ancestor_filter_of_avoid {known : List (String × List String)} {a : String}
    {direct : List String} {x : String} (h : AncestorAvoid known a direct x) :
    Ancestor (known.filter fun e => e.1 != a) direct x := by
  induction h with
  | direct hx => exact .direct hx
  | step _ hne hx ih =>
    refine .step ih ?_
    rw [lookupParents_filter_ne known hne]
    exact hx

theorem allParents_mono {k k' : List (String × List String)}
    (hk : ∀ q x, x ∈ lookupParents k' q → x ∈ lookupParents k q) (fuel : Nat) :
    ∀ (D D' : List String), (∀ x, x ∈ D' → x ∈ D) →
      ∀ x, x ∈ allParents k' fuel D' → x ∈ allParents k fuel D := by
  induction fuel with
  | zero => intro D D' hD x hx; exact hD x hx
  | succ n ih =>
    intro D D' hD x hx
    simp only [allParents, List.mem_append, List.mem_flatMap] at hx ⊢
    rcases hx with hx | ⟨p, hp, hx⟩
    · exact .inl (hD x hx)
    · exact .inr ⟨p, hD p hp, ih _ _ (hk p) x hx⟩

/-- completeness, for any fuel above the number of recorded documents -/
theorem mem_allParents_of_ancestor_aux : ∀ (n : Nat) (known : List (String × List String)),
    known.length ≤ n → ∀ (D : List String) (x : String), Ancestor known D x →
      x ∈ allParents known (n + 1) D := by
  intro n
  induction n with
  | zero =>
    intro known hlen D x h
    have hk : known = [] := List.eq_nil_of_length_eq_zero (by omega)
    subst hk
    simp only [allParents, List.mem_append, List.mem_flatMap]
    rcases ancestor_front h with hx | ⟨d0, _, hr⟩
    · exact .inl hx
    · exact (ancestor_nil_false hr).elim
  | succ n ih =>
    intro known hlen D x h
    rw [allParents]
    simp only [List.mem_append, List.mem_flatMap]
    rcases ancestor_front h with hx | ⟨d0, hd0, hr⟩
    · exact .inl hx
    · refine .inr ⟨d0, hd0, ?_⟩
      cases hkey : known.any (·.1 == d0) with
      | false =>
        rw [lookupParents_of_not_key known d0 hkey] at hr
        exact (ancestor_nil_false hr).elim
      | true =>
        have hav : AncestorAvoid known d0 (lookupParents known d0) x := by
          rcases ancestor_split d0 hr with h' | h' <;> exact h'
        have hlt := filter_key_length_lt known d0 hkey
        have hin := ih (known.filter fun e => e.1 != d0) (by omega) _ x
          (ancestor_filter_of_avoid hav)
        refine allParents_mono ?_ (n + 1) _ _ (fun _ h => h) x hin
        intro q y hy
        by_cases hq : q = d0
        · subst hq
          rw [lookupParents_filter_self] at hy
          cases hy
        · rwa [lookupParents_filter_ne known hq] at hy

/-- `allParents` with the fuel the parser uses is exactly the ancestor relation -/
theorem mem_allParents_iff_ancestor (known : List (String × List String)) (direct : List String)
    (x : String) :
    x ∈ allParents known (known.length + 1) direct ↔ Ancestor known direct x :=
  ⟨ancestor_of_mem_allParents,
   mem_allParents_of_ancestor_aux known.length known (Nat.le_refl _) direct x⟩

/-! ## streams of patches -/

/-- a stream of patches applied one after the other (`Parser.MergeDocument` in a loop) -/
def runMerges (st : PState) (ps : List Doc) : R PState := ps.foldlM mergeDocument st

theorem runMerges_nil (st : PState) : runMerges st [] = .ok st := rfl

theorem runMerges_cons (st : PState) (p : Doc) (ps : List Doc) :
    runMerges st (p :: ps) =
      match mergeDocument st p with
      | .error e => .error e
      | .ok st' => runMerges st' ps := by
  unfold runMerges
  rw [List.foldlM_cons]
  cases mergeDocument st p <;> rfl

theorem append_matchnull_ne (s : String) : s ++ "|matchnull" ≠ s := by
  intro h
  have := congrArg String.length h
  rw [String.length_append] at this
  have h2 : "|matchnull".length = 10 := by decide
  omega

end Bkl
