/-
  BklProofs.Lemmas.C03Links — the `os.Root` symbolic-link budget (`rootMaxSymlinks = 8`):
  chains of file links `l k → l (k-1) → … → l 1 → l 0` in one directory, where `l 0` is not a
  link.  A walk that has already followed `links` links gets through such a chain exactly when
  `links + k ≤ rootMaxSymlinks`.
-/
import BklProofs.Lemmas.Files
namespace Bkl

/-- a plain single-component name: `Clean` keeps it, it is relative and holds no `/` -/
def c03l_Name (t : String) : Prop :=
  plainComp t = true ∧ isAbsPath t = false ∧ splitPath t = [t]

/-- `l k → l (k-1) → … → l 1 → l 0` in the directory `d`: every name is a plain single
    component and `l (i+1)` is a symbolic link whose target is the name `l i` -/
def c03l_LinkChain (fs : FS) (d : Comps) (l : Nat → String) (k : Nat) : Prop :=
  (∀ i, i ≤ k → c03l_Name (l i)) ∧ ∀ i, i < k → fs.lstat (d ++ [l (i + 1)]) = some (.link (l i))

theorem c03l_LinkChain.pred {fs : FS} {d : Comps} {l : Nat → String} {k : Nat}
    (h : c03l_LinkChain fs d l (k + 1)) : c03l_LinkChain fs d l k :=
  ⟨fun i hi => h.1 i (by omega), fun i hi => h.2 i (by omega)⟩

/-- one step: the walk standing before `l (k+1)` moves on to `l k`, one link further -/
theorem c03l_step {fs : FS} {root d : Comps} {l : Nat → String} {k : Nat}
    (h : c03l_LinkChain fs d l (k + 1)) (fuel links : Nat) (rest : List String)
    (hk : links < rootMaxSymlinks) :
    fs.rootWalk root (fuel + 1) links d (l (k + 1) :: rest) =
      fs.rootWalk root fuel (links + 1) d (l k :: rest) := by
  have hn := h.1 k (by omega)
  rw [rootWalk_step_link (h.1 (k + 1) (Nat.le_refl _)).1 (h.2 k (by omega)) hn.2.1 hn.2.2 hk]
  rfl

/-- within the budget the walk follows all `k` links and arrives before `l 0` -/
theorem c03l_follow {fs : FS} {root d : Comps} {l : Nat → String} :
    ∀ (k : Nat), c03l_LinkChain fs d l k → ∀ (fuel links : Nat) (rest : List String),
      links + k ≤ rootMaxSymlinks →
      fs.rootWalk root (fuel + k) links d (l k :: rest) =
        fs.rootWalk root fuel (links + k) d (l 0 :: rest)
  | 0, _, _, _, _, _ => rfl
  | k + 1, h, fuel, links, rest, hb => by
    rw [← Nat.add_assoc, c03l_step h (fuel + k) links rest (by omega),
      c03l_follow k h.pred fuel (links + 1) rest (by omega)]
    congr 1
    omega

/-- … and opens the entry at the end of the chain when that is not a link -/
theorem c03l_walk_ok {fs : FS} {root d : Comps} {l : Nat → String} {k : Nat} {n : FNode}
    (h : c03l_LinkChain fs d l k) (hl : fs.lstat (d ++ [l 0]) = some n) (hn : n.isLink = false)
    (fuel links : Nat) (hb : links + k ≤ rootMaxSymlinks) :
    fs.rootWalk root (fuel + k + 2) links d [l k] = .ok (d ++ [l 0]) := by
  rw [show fuel + k + 2 = (fuel + 2) + k by omega, c03l_follow k h (fuel + 2) links [] hb,
    rootWalk_step_plain (h.1 0 (Nat.zero_le _)).1 hl hn, rootWalk_nil]

/-- over the budget the walk is refused at the link where the budget runs out, whatever the fuel -/
theorem c03l_walk_refused {fs : FS} {root d : Comps} {l : Nat → String} :
    ∀ (k : Nat), c03l_LinkChain fs d l (k + 1) → ∀ (fuel links : Nat) (rest : List String),
      rootMaxSymlinks < links + (k + 1) →
      fs.rootWalk root fuel links d (l (k + 1) :: rest) = .error .other
  | k, h, 0, _, _, _ => rfl
  | 0, h, fuel + 1, links, rest, hb =>
    rootWalk_step_link_limit (h.1 1 (Nat.le_refl _)).1 (h.2 0 (by omega)) (by omega)
  | k + 1, h, fuel + 1, links, rest, hb => by
    by_cases hk : links < rootMaxSymlinks
    · rw [c03l_step h fuel links rest hk]
      exact c03l_walk_refused k h.pred fuel (links + 1) rest (by omega)
    · exact rootWalk_step_link_limit (h.1 (k + 2) (Nat.le_refl _)).1 (h.2 (k + 1) (by omega))
        (by omega)

/-! ## a concrete directory with nine links: `/r/l9 → l8 → … → l1 → f.yaml` -/

def c03l_fs : FS := ⟨[
  (["r"], .dir),
  (["r", "f.yaml"], .file (.ok [.map [("x", .int 1)]])),
  (["r", "l1"], .link "f.yaml"), (["r", "l2"], .link "l1"), (["r", "l3"], .link "l2"),
  (["r", "l4"], .link "l3"), (["r", "l5"], .link "l4"), (["r", "l6"], .link "l5"),
  (["r", "l7"], .link "l6"), (["r", "l8"], .link "l7"), (["r", "l9"], .link "l8")]⟩

def c03l_names : Nat → String
  | 0 => "f.yaml" | 1 => "l1" | 2 => "l2" | 3 => "l3" | 4 => "l4"
  | 5 => "l5" | 6 => "l6" | 7 => "l7" | 8 => "l8" | _ => "l9"

theorem c03l_name_lit (t : String) (h1 : plainComp t = true) (h2 : isAbsPath t = false)
    (h3 : ((List.splitOnP (· == '/') t.toList).map String.ofList).filter (· != "") = [t]) :
    c03l_Name t := ⟨h1, h2, splitPath_lit t [t] h3⟩

theorem c03l_names_name : ∀ i, i ≤ 9 → c03l_Name (c03l_names i)
  | 0, _ => c03l_name_lit _ (by decide) (by simp [c03l_names, isAbsPath]) (by decide)
  | 1, _ => c03l_name_lit _ (by decide) (by simp [c03l_names, isAbsPath]) (by decide)
  | 2, _ => c03l_name_lit _ (by decide) (by simp [c03l_names, isAbsPath]) (by decide)
  | 3, _ => c03l_name_lit _ (by decide) (by simp [c03l_names, isAbsPath]) (by decide)
  | 4, _ => c03l_name_lit _ (by decide) (by simp [c03l_names, isAbsPath]) (by decide)
  | 5, _ => c03l_name_lit _ (by decide) (by simp [c03l_names, isAbsPath]) (by decide)
  | 6, _ => c03l_name_lit _ (by decide) (by simp [c03l_names, isAbsPath]) (by decide)
  | 7, _ => c03l_name_lit _ (by decide) (by simp [c03l_names, isAbsPath]) (by decide)
  | 8, _ => c03l_name_lit _ (by decide) (by simp [c03l_names, isAbsPath]) (by decide)
  | 9, _ => c03l_name_lit _ (by decide) (by simp [c03l_names, isAbsPath]) (by decide)
  | n + 10, h => absurd h (by omega)

theorem c03l_names_link : ∀ i, i < 9 →
    c03l_fs.lstat (["r"] ++ [c03l_names (i + 1)]) = some (.link (c03l_names i))
  | 0, _ => by decide
  | 1, _ => by decide
  | 2, _ => by decide
  | 3, _ => by decide
  | 4, _ => by decide
  | 5, _ => by decide
  | 6, _ => by decide
  | 7, _ => by decide
  | 8, _ => by decide
  | n + 9, h => absurd h (by omega)

/-- the nine-link chain, and hence every shorter one -/
theorem c03l_chain9 : c03l_LinkChain c03l_fs ["r"] c03l_names 9 :=
  ⟨c03l_names_name, c03l_names_link⟩

theorem c03l_chain_le {k : Nat} (hk : k ≤ 9) : c03l_LinkChain c03l_fs ["r"] c03l_names k :=
  ⟨fun i hi => c03l_chain9.1 i (by omega), fun i hi => c03l_chain9.2 i (by omega)⟩

theorem c03l_end : c03l_fs.lstat (["r"] ++ [c03l_names 0]) =
    some (.file (.ok [.map [("x", .int 1)]])) := by decide

end Bkl
