/-
  BklProofs.Lemmas.C13Environ — `envOfEnviron`, the model of evalcontext.go:envVars (the `$env:`
  variables built from `os.Environ()`), and its lookup lemmas.  Helper names are prefixed `wa_`.

  This file imports only what BklProofs/C13.lean already imports (C13.lean is itself imported by
  Lemmas/Cycles.lean → C08, C10 …; importing Lemmas/Files.lean there would change the `simp` set
  of all those files).
-/
import BklProofs.Lemmas.Interp
set_option linter.unusedVariables false
namespace Bkl

/-! ## `$env:` — evalcontext.go:envVars

```go
for _, s := range os.Environ() {
    kv := strings.SplitN(s, "=", 2)
    vars[fmt.Sprintf("$env:%s", kv[0])] = kv[1]
}
```
* the entry is split at the FIRST `=` only (`SplitN(…, 2)`): the value keeps every later `=`;
* the value is stored as a Go `string`, i.e. `Val.str`, whatever it looks like;
* `vars[k] = v` on a map: a later entry with the same name overwrites an earlier one;
* an entry WITHOUT `=` gives a one-element `kv`, and `kv[1]` panics (index out of range) — Go
  does not skip it, the program dies.  `envOfEnviron` skips such entries; the theorems that
  talk about Go's behaviour therefore concern environments all of whose entries have an `=`
  (`wa_environOK`), which is what the OS hands to a process in practice. -/

/-- `strings.SplitN(s, "=", 2)` on characters: the text before the FIRST '=' and everything
    after it; `none` when there is no '=' -/
def wa_splitFirstEq : List Char → Option (List Char × List Char)
  | [] => none
  | c :: cs =>
    if c = '=' then some ([], cs)
    else
      match wa_splitFirstEq cs with
      | some (n, v) => some (c :: n, v)
      | none => none

/-- `NAME=value` ↦ `(NAME, value)` -/
def wa_envEntry (s : String) : Option (String × String) :=
  match wa_splitFirstEq s.toList with
  | some (n, v) => some (String.ofList n, String.ofList v)
  | none => none

/-- the variable an `os.Environ()` entry defines -/
def wa_envName (s : String) : Option String := (wa_envEntry s).map (·.1)

/-- every entry has an `=` (the domain on which Go's `envVars` does not panic) -/
def wa_environOK (environ : List String) : Prop := ∀ s ∈ environ, '=' ∈ s.toList

/-- `vars["$env:"+kv[0]] = kv[1]` -/
def wa_envStep (acc : Vars) (s : String) : Vars :=
  match wa_envEntry s with
  | some (n, v) => fset acc ("$env:" ++ n) (.str v)
  | none => acc

/-- evalcontext.go:envVars — the `Vars` built from `os.Environ()` (in order; later entries
    overwrite earlier ones; entries without `=` are skipped, see above) -/
def envOfEnviron (environ : List String) : Vars := environ.foldl wa_envStep []

theorem wa_splitFirstEq_append (n v : List Char) (hn : '=' ∉ n) :
    wa_splitFirstEq (n ++ '=' :: v) = some (n, v) := by
  induction n with
  | nil => simp [wa_splitFirstEq]
  | cons c n ih =>
    have hc : c ≠ '=' := fun e => hn (by simp [e])
    have hn' : '=' ∉ n := fun e => hn (by simp [e])
    simp [wa_splitFirstEq, hc, ih hn']

theorem wa_splitFirstEq_some {cs n v : List Char} (h : wa_splitFirstEq cs = some (n, v)) :
    '=' ∉ n ∧ cs = n ++ '=' :: v := by
  induction cs generalizing n with
  | nil => simp [wa_splitFirstEq] at h
  | cons c cs ih =>
    simp only [wa_splitFirstEq] at h
    split at h
    · rename_i hc
      simp only [Option.some.injEq, Prod.mk.injEq] at h
      obtain ⟨rfl, rfl⟩ := h
      simp [hc]
    · rename_i hc
      split at h
      · rename_i n' v' hr
        simp only [Option.some.injEq, Prod.mk.injEq] at h
        obtain ⟨rfl, rfl⟩ := h
        obtain ⟨h1, h2⟩ := ih hr
        exact ⟨by simp [h1, Ne.symm hc], by rw [h2]; rfl⟩
      · cases h

theorem wa_splitFirstEq_some_iff (cs n v : List Char) :
    wa_splitFirstEq cs = some (n, v) ↔ '=' ∉ n ∧ cs = n ++ '=' :: v :=
  ⟨wa_splitFirstEq_some, fun ⟨h1, h2⟩ => h2 ▸ wa_splitFirstEq_append n v h1⟩

theorem wa_splitFirstEq_none_iff (cs : List Char) : wa_splitFirstEq cs = none ↔ '=' ∉ cs := by
  induction cs with
  | nil => simp [wa_splitFirstEq]
  | cons c cs ih =>
    simp only [wa_splitFirstEq]
    by_cases hc : c = '='
    · simp [hc]
    · simp only [hc, if_false, List.mem_cons, not_or]
      cases hr : wa_splitFirstEq cs with
      | none => simp [ih.1 hr, Ne.symm hc]
      | some p =>
        have : ¬ '=' ∉ cs := fun h => by rw [ih.2 h] at hr; cases hr
        simp [this]

/-- `SplitN(s, "=", 2)` in terms of the full split: the name is the first piece, the value is
    the remaining pieces joined back with '=' -/
theorem wa_splitFirstEq_splitOnP (cs : List Char) :
    wa_splitFirstEq cs =
      match List.splitOnP (· == '=') cs with
      | n :: v :: rest => some (n, ['='].intercalate (v :: rest))
      | _ => none := by
  cases h : wa_splitFirstEq cs with
  | none =>
    rw [List.splitOnP_eq_singleton (fun x hx => by
      have : x ≠ '=' := fun e => (wa_splitFirstEq_none_iff cs).1 h (e ▸ hx)
      simpa using this)]
  | some p =>
    obtain ⟨n, v⟩ := p
    obtain ⟨h1, rfl⟩ := wa_splitFirstEq_some h
    rw [List.splitOnP_append_cons_of_forall_mem (fun x hx => by
      have : x ≠ '=' := fun e => h1 (e ▸ hx)
      simpa using this) '=' (by simp)]
    have hv := List.intercalate_splitOn (xs := v) '='
    rw [List.splitOn_eq_splitOnP] at hv
    cases hs : List.splitOnP (· == '=') v with
    | nil => exact absurd hs (List.splitOnP_ne_nil _ _)
    | cons v1 rest => rw [hs] at hv; simp only [hv]

theorem wa_envEntry_mk (name value : String) (h : '=' ∉ name.toList) :
    wa_envEntry (name ++ "=" ++ value) = some (name, value) := by
  unfold wa_envEntry
  have : (name ++ "=" ++ value).toList = name.toList ++ '=' :: value.toList := by
    simp [String.toList_append]
  rw [this, wa_splitFirstEq_append _ _ h]
  simp

theorem wa_envEntry_some_iff (s n v : String) :
    wa_envEntry s = some (n, v) ↔ '=' ∉ n.toList ∧ s = n ++ "=" ++ v := by
  constructor
  · intro h
    unfold wa_envEntry at h
    split at h
    · rename_i n' v' hr
      simp only [Option.some.injEq, Prod.mk.injEq] at h
      obtain ⟨rfl, rfl⟩ := h
      obtain ⟨h1, h2⟩ := wa_splitFirstEq_some hr
      refine ⟨by simpa using h1, ?_⟩
      apply String.toList_inj.1
      rw [h2]
      simp [String.toList_append]
    · cases h
  · rintro ⟨h1, rfl⟩
    exact wa_envEntry_mk n v h1

theorem wa_envEntry_none_iff (s : String) : wa_envEntry s = none ↔ '=' ∉ s.toList := by
  unfold wa_envEntry
  rw [← wa_splitFirstEq_none_iff]
  cases wa_splitFirstEq s.toList with
  | none => simp
  | some p => simp

/-- the entry, seen through Go's `strings.Split(s, "=")`: first piece = name; the value is what
    is left, with all its own `=` -/
theorem wa_envEntry_splitOn (s n v : String) (h : wa_envEntry s = some (n, v)) :
    s.splitOn "=" = n :: v.splitOn "=" := by
  obtain ⟨h1, rfl⟩ := (wa_envEntry_some_iff s n v).1 h
  rw [show "=" = String.ofList ['='] from rfl, splitOn_char, splitOn_char]
  have : (n ++ String.ofList ['='] ++ v).toList = n.toList ++ '=' :: v.toList := by
    simp [String.toList_append]
  rw [this, List.splitOnP_append_cons_of_forall_mem (fun x hx => by
    have : x ≠ '=' := fun e => h1 (e ▸ hx)
    simpa using this) '=' (by simp)]
  simp

theorem wa_env_key_inj {a b : String} (h : "$env:" ++ a = "$env:" ++ b) : a = b := by
  have := congrArg String.toList h
  rw [String.toList_append, String.toList_append] at this
  exact String.toList_inj.1 (List.append_cancel_left this)

/-- what one entry contributes to the lookup of `$env:name` -/
def wa_envPick (name : String) (s : String) : Option Val :=
  match wa_envEntry s with
  | some (n, v) => if n = name then some (.str v) else none
  | none => none

theorem wa_fget_envStep (acc : Vars) (s name : String) :
    fget (wa_envStep acc s) ("$env:" ++ name) =
      match wa_envPick name s with
      | some v => some v
      | none => fget acc ("$env:" ++ name) := by
  unfold wa_envStep wa_envPick
  cases wa_envEntry s with
  | none => rfl
  | some p =>
    obtain ⟨n, v⟩ := p
    simp only
    by_cases hn : n = name
    · subst hn
      rw [if_pos rfl, fget_fset_same]
    · rw [if_neg hn, fget_fset_ne _ _ _ _ (fun e => hn (wa_env_key_inj e).symm)]

/-- **last entry wins**: the lookup scans the environment from the end -/
theorem wa_fget_foldl_envStep (name : String) : ∀ (es : List String) (acc : Vars),
    fget (es.foldl wa_envStep acc) ("$env:" ++ name) =
      match es.reverse.findSome? (wa_envPick name) with
      | some v => some v
      | none => fget acc ("$env:" ++ name)
  | [], acc => rfl
  | e :: es, acc => by
    rw [List.foldl_cons, wa_fget_foldl_envStep name es, List.reverse_cons, List.findSome?_append]
    cases List.findSome? (wa_envPick name) es.reverse with
    | some v => rfl
    | none =>
      simp only [Option.none_or, List.findSome?_cons, List.findSome?_nil]
      rw [wa_fget_envStep]
      cases wa_envPick name e <;> rfl

theorem wa_fget_envOfEnviron (es : List String) (name : String) :
    fget (envOfEnviron es) ("$env:" ++ name) = es.reverse.findSome? (wa_envPick name) := by
  unfold envOfEnviron
  rw [wa_fget_foldl_envStep]
  cases List.findSome? (wa_envPick name) es.reverse <;> rfl

theorem wa_envPick_none_iff (name s : String) :
    wa_envPick name s = none ↔ wa_envName s ≠ some name := by
  unfold wa_envPick wa_envName
  cases wa_envEntry s with
  | none => simp
  | some p =>
    obtain ⟨n, v⟩ := p
    by_cases hn : n = name <;> simp [hn]

/-- a name is unbound exactly when no entry defines it -/
theorem wa_fget_envOfEnviron_none_iff (es : List String) (name : String) :
    fget (envOfEnviron es) ("$env:" ++ name) = none ↔ ∀ e ∈ es, wa_envName e ≠ some name := by
  rw [wa_fget_envOfEnviron, List.findSome?_eq_none_iff]
  simp only [List.mem_reverse, wa_envPick_none_iff]

/-- the value of a name is that of its LAST definition, verbatim, as a string -/
theorem wa_fget_envOfEnviron_last (pre post : List String) (name value : String)
    (hn : '=' ∉ name.toList) (hpost : ∀ e ∈ post, wa_envName e ≠ some name) :
    fget (envOfEnviron (pre ++ (name ++ "=" ++ value) :: post)) ("$env:" ++ name) =
      some (.str value) := by
  rw [wa_fget_envOfEnviron, List.reverse_append, List.reverse_cons, List.append_assoc,
    List.findSome?_append]
  have h1 : List.findSome? (wa_envPick name) post.reverse = none := by
    rw [List.findSome?_eq_none_iff]
    intro e he
    exact (wa_envPick_none_iff name e).2 (hpost e (List.mem_reverse.1 he))
  rw [h1, Option.none_or, List.singleton_append, List.findSome?_cons]
  simp [wa_envPick, wa_envEntry_mk name value hn]

/-- every binding `envOfEnviron` makes is `$env:NAME ↦ string` -/
theorem wa_envOfEnviron_mem (es : List String) :
    ∀ p ∈ envOfEnviron es, (∃ n, p.1 = "$env:" ++ n) ∧ ∃ s, p.2 = Val.str s := by
  unfold envOfEnviron
  suffices h : ∀ (es : List String) (acc : Vars),
      (∀ p ∈ acc, (∃ n, p.1 = "$env:" ++ n) ∧ ∃ s, p.2 = Val.str s) →
      ∀ p ∈ es.foldl wa_envStep acc, (∃ n, p.1 = "$env:" ++ n) ∧ ∃ s, p.2 = Val.str s from
    h es [] (fun _ h => nomatch h)
  intro es
  induction es with
  | nil => intro acc h; exact h
  | cons e es ih =>
    intro acc h
    rw [List.foldl_cons]
    apply ih
    unfold wa_envStep
    cases wa_envEntry e with
    | none => exact h
    | some q =>
      obtain ⟨n, v⟩ := q
      intro p hp
      rcases mem_fset hp with rfl | hp
      · exact ⟨⟨n, rfl⟩, v, rfl⟩
      · exact h p hp

theorem wa_envOfEnviron_envWF (es : List String) : envWF (envOfEnviron es) := by
  intro k v h _
  exact (wa_envOfEnviron_mem es _ (fget_mem h)).2

theorem wa_envOfEnviron_sorted (es : List String) : Fields.SortedKeys (envOfEnviron es) := by
  unfold envOfEnviron
  suffices h : ∀ (es : List String) (acc : Vars), Fields.SortedKeys acc →
      Fields.SortedKeys (es.foldl wa_envStep acc) from h es [] trivial
  intro es
  induction es with
  | nil => intro acc h; exact h
  | cons e es ih =>
    intro acc h
    rw [List.foldl_cons]
    apply ih
    unfold wa_envStep
    cases wa_envEntry e with
    | none => exact h
    | some q => exact sorted_fset h

/-! ### sample reference for the non-vacuity examples -/

theorem wa_toLower_envHOME : "$env:HOME".toLower = "$env:home" := by
  apply String.toList_inj.1
  simp [String.toLower, String.toList_map]

theorem wa_isPlainRef_envHOME : isPlainRef "$env:HOME" = true := by
  simp [isPlainRef, reservedWords, wa_toLower_envHOME]
  decide

/-- the empty document does not resolve the path `$env:HOME` -/
theorem wa_get_envHOME : get (.map []) [] (.str "$env:HOME") = .error .refNotFound := by
  rw [get_simple_key _ _ _ wa_isPlainRef_envHOME (by decide)]
  rfl

end Bkl
