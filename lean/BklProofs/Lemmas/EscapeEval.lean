/-
  Lemmas for C06 (part 3: evaluation).  validate / findOutputs / filterOutput / emit on plain
  data, generic `foldlM` lemmas, `popListMapValue` when nothing is popped.
-/
import BklProofs.Lemmas.EscapeVal
namespace Bkl

theorem e_ok_bind {ε α β} (a : α) (f : α → Except ε β) : (Except.ok a >>= f) = f a := rfl
theorem e_pure_eq {ε α} (a : α) : (pure a : Except ε α) = Except.ok a := rfl

abbrev e_P : String → Bool := fun s => !recognisedCore s

theorem e_plain_def (v : Val) : plain v = allStr e_P v := rfl



theorem e_validate_plain_all :
    (∀ v, allStr e_P v = true → validate v = .ok ()) ∧
    (∀ xs, allStrList e_P xs = true → validateList xs = .ok ()) ∧
    (∀ kvs, allStrFields e_P kvs = true → validateFields kvs = .ok ()) := by
  apply e_Val_induct
  case null | bool | int | flt => intros; rfl
  case str =>
    intro s h; simp only [allStr, e_P, Bool.not_eq_true'] at h
    simp only [validate, e_rc_validate h]
  case list => intro xs ih h; simp only [allStr] at h; simp only [validate, ih h]
  case map => intro xs ih h; simp only [allStr] at h; simp only [validate, ih h]
  case lnil => intro _; rfl
  case lcons =>
    intro x xs ih1 ih2 h
    simp only [allStrList, Bool.and_eq_true] at h
    simp only [validateList, ih1 h.1, ih2 h.2]; rfl
  case fnil => intro _; rfl
  case fcons =>
    intro k v rest ih1 ih2 h
    simp only [allStrFields, Bool.and_eq_true, e_P, Bool.not_eq_true'] at h
    simp only [validateFields, ih1 h.1.2, ih2 h.2, e_rc_validate h.1.1]; rfl




theorem e_fhasBool_plain {kvs : Fields} (h : allStrFields e_P kvs = true) {d : String}
    (hd : d ∈ directiveNames) (b : Bool) : fhasBool kvs d b = false := by
  simp [fhasBool, e_plainFields_fget h hd]

theorem e_hasListMapBool_plain {xs : List Val} (h : allStrList e_P xs = true) {d : String}
    (hd : d ∈ directiveNames) (b : Bool) : hasListMapBool xs d b = false := by
  simp only [hasListMapBool, List.any_eq_false]
  intro x hx
  have hp := e_allStrList_mem h x hx
  cases x with
  | map m => simp only [allStr] at hp; simp [e_fhasBool_plain hp hd b]
  | _ => simp

theorem e_output_mem : "$output" ∈ directiveNames := by decide

theorem e_findOutputs_plain_all :
    (∀ v, allStr e_P v = true → findOutputs v = .ok (v, [])) ∧
    (∀ xs, allStrList e_P xs = true → findOutputsList xs false = .ok (xs, [])) ∧
    (∀ kvs, allStrFields e_P kvs = true → findOutputsFields kvs false = .ok (kvs, [])) := by
  apply e_Val_induct
  case null | bool | int | flt | str => intros; rfl
  case list =>
    intro xs ih h; simp only [allStr] at h
    simp [findOutputs, e_hasListMapBool_plain h e_output_mem, ih h, e_ok_bind, e_pure_eq]
  case map =>
    intro kvs ih h; simp only [allStr] at h
    simp [findOutputs, e_fhasBool_plain h e_output_mem, ih h, e_ok_bind, e_pure_eq]
  case lnil => intro _; rfl
  case lcons =>
    intro x xs ih1 ih2 h
    simp only [allStrList, Bool.and_eq_true] at h
    cases x <;> simp [findOutputsList, ih1 h.1, ih2 h.2, e_ok_bind, e_pure_eq]
  case fnil => intro _; rfl
  case fcons =>
    intro k v rest ih1 ih2 h
    simp only [allStrFields, Bool.and_eq_true] at h
    simp [findOutputsFields, ih1 h.1.2, ih2 h.2, e_ok_bind, e_pure_eq]

theorem e_filterOutput_plain_all :
    (∀ v, allStr e_P v = true → noNulls v = true → v.isNull = false →
      filterOutput v = .ok (some v)) ∧
    (∀ xs, allStrList e_P xs = true → noNullsList xs = true → filterOutputList xs = .ok xs) ∧
    (∀ kvs, allStrFields e_P kvs = true → noNullsFields kvs = true →
      filterOutputFields kvs = .ok kvs) := by
  apply e_Val_induct
  case null => intro _ _ h; simp [Val.isNull] at h
  case bool | int | flt | str => intros; rfl
  case list =>
    intro xs ih h n _; simp only [allStr] at h; simp only [noNulls] at n
    simp [filterOutput, e_hasListMapBool_plain h e_output_mem, ih h n, e_ok_bind, e_pure_eq]
  case map =>
    intro kvs ih h n _; simp only [allStr] at h; simp only [noNulls] at n
    simp [filterOutput, e_fhasBool_plain h e_output_mem, ih h n, e_ok_bind, e_pure_eq]
  case lnil => intros; rfl
  case lcons =>
    intro x xs ih1 ih2 h n
    simp only [allStrList, Bool.and_eq_true] at h
    simp only [noNullsList, Bool.and_eq_true, Bool.not_eq_true'] at n
    simp [filterOutputList, ih1 h.1 n.1.2 n.1.1, ih2 h.2 n.2, e_ok_bind, e_pure_eq]
  case fnil => intros; rfl
  case fcons =>
    intro k v rest ih1 ih2 h n
    simp only [allStrFields, Bool.and_eq_true] at h
    simp only [noNullsFields, Bool.and_eq_true, Bool.not_eq_true'] at n
    simp [filterOutputFields, ih1 h.1.2 n.1.2 n.1.1, ih2 h.2 n.2, e_ok_bind, e_pure_eq]



theorem e_emit_single (v v2 : Val) (h1 : findOutputs v = .ok (v, []))
    (h2 : filterOutput v = .ok (some v2)) (h3 : validate v2 = .ok ()) :
    emit [v] = .ok [finalize v2] := by
  simp [emit, h1, h2, h3, e_ok_bind, e_pure_eq]
  
theorem e_emit_null : emit [.null] = .ok [] := by
  simp [emit, findOutputs, filterOutput, e_ok_bind, e_pure_eq]




theorem e_foldlM_fields_root (f : Fields × Val → String × Val → R (Fields × Val)) :
    ∀ (kvs : Fields) (acc : Fields) (root : Val),
    (∀ acc rt q, q ∈ kvs →
      f (acc, rt) q = .ok (if q.2.isNull then acc else fset acc q.1 (dropNulls q.2), rt)) →
    kvs.foldlM f (acc, root) = .ok (fsetAll acc (dropNullsFields kvs), root) := by
  intro kvs
  induction kvs with
  | nil => intro acc root _; rfl
  | cons a t ih =>
    intro acc root hf
    obtain ⟨k, v⟩ := a
    rw [List.foldlM_cons, hf acc root (k, v) (List.mem_cons_self ..), e_ok_bind,
      ih _ _ (fun acc rt q hq => hf acc rt q (List.mem_cons_of_mem _ hq))]
    simp only [dropNullsFields]
    split <;> simp [fsetAll]

theorem e_foldlM_tagged (f : List Val × Val → Val × Option Nat → R (List Val × Val)) :
    ∀ (t : List (Val × Option Nat)) (acc : List Val) (root : Val),
    (∀ acc rt q, q ∈ t →
      f (acc, rt) q = .ok (if q.1.isNull then acc else acc ++ [dropNulls q.1], rt)) →
    t.foldlM f (acc, root) = .ok (acc ++ dropNullsList (t.map (·.1)), root) := by
  intro t
  induction t with
  | nil => intro acc root _; simp [dropNullsList]; rfl
  | cons a t ih =>
    intro acc root hf
    rw [List.foldlM_cons, hf acc root a (List.mem_cons_self ..), e_ok_bind,
      ih _ _ (fun acc rt q hq => hf acc rt q (List.mem_cons_of_mem _ hq))]
    simp only [List.map_cons, dropNullsList]
    split <;> simp

theorem e_foldlM_fields (f : Fields → String × Val → R Fields) :
    ∀ (kvs : Fields) (acc : Fields),
    (∀ acc q, q ∈ kvs →
      f acc q = .ok (if q.2.isNull then acc else fset acc q.1 (dropNulls q.2))) →
    kvs.foldlM f acc = .ok (fsetAll acc (dropNullsFields kvs)) := by
  intro kvs
  induction kvs with
  | nil => intro acc _; rfl
  | cons a t ih =>
    intro acc hf
    obtain ⟨k, v⟩ := a
    rw [List.foldlM_cons, hf acc (k, v) (List.mem_cons_self ..), e_ok_bind,
      ih _ (fun acc q hq => hf acc q (List.mem_cons_of_mem _ hq))]
    simp only [dropNullsFields]
    split <;> simp [fsetAll]

theorem e_foldlM_fields_id (f : Fields → String × Val → R Fields) :
    ∀ (kvs : Fields) (acc : Fields),
    (∀ acc q, q ∈ kvs → f acc q = .ok (fset acc q.1 q.2)) →
    kvs.foldlM f acc = .ok (fsetAll acc kvs) := by
  intro kvs
  induction kvs with
  | nil => intro acc _; rfl
  | cons a t ih =>
    intro acc hf
    rw [List.foldlM_cons, hf acc a (List.mem_cons_self ..), e_ok_bind,
      ih _ (fun acc q hq => hf acc q (List.mem_cons_of_mem _ hq))]
    simp [fsetAll]

theorem e_foldlM_list (f : List Val → Val → R (List Val)) :
    ∀ (xs : List Val) (acc : List Val),
    (∀ acc x, x ∈ xs → f acc x = .ok (if x.isNull then acc else acc ++ [dropNulls x])) →
    xs.foldlM f acc = .ok (acc ++ dropNullsList xs) := by
  intro xs
  induction xs with
  | nil => intro acc _; simp [dropNullsList]; rfl
  | cons a t ih =>
    intro acc hf
    rw [List.foldlM_cons, hf acc a (List.mem_cons_self ..), e_ok_bind,
      ih _ (fun acc q hq => hf acc q (List.mem_cons_of_mem _ hq))]
    simp only [dropNullsList]
    split <;> simp

theorem e_foldlM_pop (f : Val × List Val → Val → R (Val × List Val)) :
    ∀ (xs : List Val) (ret : Val) (acc : List Val),
    (∀ ret acc x, x ∈ xs → f (ret, acc) x = .ok (ret, acc ++ [x])) →
    xs.foldlM f (ret, acc) = .ok (ret, acc ++ xs) := by
  intro xs
  induction xs with
  | nil => intro ret acc _; simp; rfl
  | cons a t ih =>
    intro ret acc hf
    rw [List.foldlM_cons, hf ret acc a (List.mem_cons_self ..), e_ok_bind,
      ih _ _ (fun ret acc q hq => hf ret acc q (List.mem_cons_of_mem _ hq))]
    simp

theorem e_popListMapValue_none (xs : List Val) (k : String)
    (h : ∀ x ∈ xs, ∀ m, x = .map m → fget m k = none) :
    popListMapValue xs k = .ok (.null, xs) := by
  unfold popListMapValue
  rw [e_foldlM_pop _ xs .null []]
  · simp
  · intro ret acc x hx
    cases x with
    | map m =>
      have := h (.map m) hx m rfl
      simp only [this]
      split <;> rfl
    | _ => rfl


end Bkl
