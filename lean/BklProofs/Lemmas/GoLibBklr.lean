/-
  Lemmas for the translation equivalence of cmd/bklr/required.go (BklProofs/Facts/TransBklr.lean):
  * loop lemmas for the two shapes of loop of required.go, stated over an ABSTRACT body (so they do not mention the
    generated term): "append the element's result, if any" and "`ret[k] = v2` for the element's result, if any";
  * `fsetAll acc l = acc ++ l` when `acc ++ l` is key-sorted (building a map entry by entry from a sorted list
    rebuilds the list);
  * facts about the model's `required`: never `some .null`, keeps sortedness, `filterMap` forms.
-/
import Bkl.Tools
import BklProofs.Lemmas.Fields
import BklProofs.Lemmas.GoLib
namespace Bkl

/-! ## `fset` / `fsetAll` on sorted lists -/

theorem rq_fset_append (acc : Fields) (k : String) (v : Val)
    (h : ∀ p ∈ acc, p.1 < k) : fset acc k v = acc ++ [(k, v)] := by
  induction acc with
  | nil => rfl
  | cons a t ih =>
    obtain ⟨k1, v1⟩ := a
    have h1 : k1 < k := h (k1, v1) (List.mem_cons_self ..)
    have hn : ¬ k < k1 := String.lt_asymm h1
    have hne : ¬ k = k1 := fun e => String.lt_irrefl k1 (e ▸ h1)
    simp only [fset, hn, hne, if_false, List.cons_append]
    rw [ih (fun p hp => h p (List.mem_cons_of_mem _ hp))]

theorem rq_fsetAll_cons (acc : Fields) (p : String × Val) (t : Fields) :
    fsetAll acc (p :: t) = fsetAll (fset acc p.1 p.2) t := by
  simp [fsetAll]

@[simp] theorem rq_fsetAll_nil (acc : Fields) : fsetAll acc [] = acc := rfl

theorem rq_fsetAll_append (l : Fields) : ∀ (acc : Fields), Fields.SortedKeys (acc ++ l) →
    fsetAll acc l = acc ++ l := by
  induction l with
  | nil => intro acc _; simp
  | cons a t ih =>
    intro acc h
    obtain ⟨k, v⟩ := a
    have hp := sorted_iff_pairwise.1 h
    have h1 : ∀ p ∈ acc, p.1 < k := by
      intro p hp'
      exact (List.pairwise_append.1 hp).2.2 p hp' (k, v) (List.mem_cons_self ..)
    rw [rq_fsetAll_cons, rq_fset_append acc k v h1, ih _ (by simpa using h)]
    simp

/-- building a Go map entry by entry from a key-sorted list gives that list back -/
theorem rq_fofList_sorted (l : Fields) (h : Fields.SortedKeys l) : fofList l = l := by
  have := rq_fsetAll_append l [] (by simpa using h)
  simpa [fofList] using this

theorem rq_fset_ne_nil (m : Fields) (k : String) (v : Val) : fset m k v ≠ [] := by
  cases m with
  | nil => simp [fset]
  | cons a t =>
    obtain ⟨k1, v1⟩ := a
    simp only [fset]
    split
    · simp
    · split <;> simp

theorem rq_fsetAll_ne_nil (l : Fields) : ∀ (acc : Fields), acc ≠ [] → fsetAll acc l ≠ [] := by
  induction l with
  | nil => intro acc h; simpa using h
  | cons a t ih => intro acc _; rw [rq_fsetAll_cons]; exact ih _ (rq_fset_ne_nil _ _ _)

theorem rq_fofList_eq_nil_iff (l : Fields) : fofList l = [] ↔ l = [] := by
  cases l with
  | nil => simp [fofList]
  | cons a t =>
    simp only [fofList, rq_fsetAll_cons, reduceCtorEq, iff_false]
    exact rq_fsetAll_ne_nil _ _ (rq_fset_ne_nil _ _ _)

/-! ## the model's `required` -/

/-- the entry that `requiredFields` keeps for an input entry -/
def rq_entry (g : Val → Option Val) (p : String × Val) : Option (String × Val) :=
  (g p.2).map (fun v' => (p.1, v'))

theorem rq_requiredFields_eq_filterMap (s : Fields) :
    requiredFields s = s.filterMap (rq_entry required) := by
  induction s with
  | nil => simp [requiredFields]
  | cons hd tl ih =>
    obtain ⟨k, v⟩ := hd
    rw [requiredFields, List.filterMap_cons, ← ih]
    unfold rq_entry
    cases required v <;> rfl

theorem rq_requiredList_eq_filterMap (s : List Val) :
    requiredList s = s.filterMap required := by
  induction s with
  | nil => simp [requiredList]
  | cons hd tl ih =>
    rw [requiredList, List.filterMap_cons, ← ih]
    cases required hd <;> rfl

/-- Go's `v2 == nil` test on the recursive result is the model's `none`: `required` never answers `some nil` -/
theorem rq_required_ne_null (v : Val) : required v ≠ some .null := by
  cases v with
  | map kvs =>
    simp only [required]
    split <;> simp
  | list xs =>
    simp only [required]
    split <;> simp
  | str s =>
    simp only [required]
    split <;> simp
  | null => simp [required]
  | bool b => simp [required]
  | int i => simp [required]
  | flt r => simp [required]

theorem rq_mem_filterMap_entry {g : Val → Option Val} {kvs : Fields} {p : String × Val}
    (h : p ∈ kvs.filterMap (rq_entry g)) : ∃ q ∈ kvs, q.1 = p.1 ∧ g q.2 = some p.2 := by
  obtain ⟨q, hq, he⟩ := List.mem_filterMap.1 h
  refine ⟨q, hq, ?_⟩
  unfold rq_entry at he
  cases hg : g q.2 with
  | none => rw [hg] at he; cases he
  | some w => rw [hg] at he; cases he; exact ⟨rfl, rfl⟩

/-- keeping some entries (with new values) of a key-sorted list keeps it key-sorted -/
theorem rq_sorted_filterMap_entry (g : Val → Option Val) (kvs : Fields) (h : Fields.SortedKeys kvs) :
    Fields.SortedKeys (kvs.filterMap (rq_entry g)) := by
  rw [sorted_iff_pairwise] at *
  refine List.Pairwise.filterMap (rq_entry g) ?_ h
  intro a a' hlt b hb b' hb'
  unfold rq_entry at hb hb'
  cases ha : g a.2 with
  | none => rw [ha] at hb; cases hb
  | some w =>
    cases ha' : g a'.2 with
    | none => rw [ha'] at hb'; cases hb'
    | some w' =>
      rw [ha] at hb; rw [ha'] at hb'
      cases hb; cases hb'
      exact hlt

theorem rq_sorted_requiredFields (kvs : Fields) (h : Fields.SortedKeys kvs) :
    Fields.SortedKeys (requiredFields kvs) := by
  rw [rq_requiredFields_eq_filterMap]
  exact rq_sorted_filterMap_entry required kvs h

/-! ## the two loops of required.go, over an abstract body -/

namespace Go

/-- `for _, v := range xs { v2 := g(v); if v2 == nil { continue }; ret = append(ret, v2) }` -/
theorem forRange_filterMap_append {ρ : Type} (g : Val → Option Val) (xs : List Val)
    (body : Val → List Val → G (Loop (List Val) ρ))
    (h : ∀ x ∈ xs, ∀ acc, body x acc = .ok (.next (acc ++ (g x).toList))) :
    ∀ acc, forRange xs acc body = .ok (.inl (acc ++ xs.filterMap g)) := by
  induction xs with
  | nil => intro acc; simp
  | cons x xs ih =>
    intro acc
    rw [forRange_cons_next (h x List.mem_cons_self acc),
      ih (fun y hy => h y (List.mem_cons_of_mem _ hy))]
    cases hg : g x <;> simp [hg]

/-- `for k, v := range kvs { v2 := g(v); if v2 == nil { continue }; ret[k] = v2 }` -/
theorem forRange_filterMap_fset {ρ : Type} (g : Val → Option Val) (kvs : Fields)
    (body : String × Val → Fields → G (Loop Fields ρ))
    (h : ∀ p ∈ kvs, ∀ acc, body p acc = .ok (.next (fsetAll acc ((rq_entry g p).toList)))) :
    ∀ acc, forRange kvs acc body = .ok (.inl (fsetAll acc (kvs.filterMap (rq_entry g)))) := by
  induction kvs with
  | nil => intro acc; simp
  | cons p kvs ih =>
    intro acc
    rw [forRange_cons_next (h p List.mem_cons_self acc),
      ih (fun y hy => h y (List.mem_cons_of_mem _ hy))]
    cases hg : rq_entry g p <;> simp [hg, rq_fsetAll_cons]

end Go
end Bkl
