/-
  Helper lemmas about `findOutputs` / `filterOutput` (Bkl/Output.lean): inversion lemmas that
  unpack the `do` blocks, local facts about `fget` on sorted association lists (prefix `o_`).
-/
import Bkl
import BklProofs.Lemmas.Output
namespace Bkl

/-! ## association lists -/

theorem o_sorted_tail {kv : String × Val} {rest : Fields}
    (h : Fields.sortedKeysB (kv :: rest) = true) : Fields.sortedKeysB rest = true := by
  cases rest with
  | nil => rfl
  | cons b r =>
    obtain ⟨k1, v1⟩ := kv; obtain ⟨k2, v2⟩ := b
    simp only [Fields.sortedKeysB, Bool.and_eq_true] at h
    exact h.2

theorem o_sorted_head_lt : ∀ (k1 : String) (v1 : Val) (rest : Fields),
    Fields.sortedKeysB ((k1, v1) :: rest) = true → ∀ kv ∈ rest, k1 < kv.1
  | _, _, [], _, kv, hm => by cases hm
  | k1, v1, (k2, v2) :: rest, h, kv, hm => by
    simp only [Fields.sortedKeysB, Bool.and_eq_true, decide_eq_true_eq] at h
    rcases List.mem_cons.1 hm with rfl | hm'
    · exact h.1
    · exact String.lt_trans h.1 (o_sorted_head_lt k2 v2 rest h.2 kv hm')

/-- in a key-sorted association list, membership determines lookup -/
theorem o_fget_of_mem_sorted : ∀ (kvs : Fields) (k : String) (x : Val),
    Fields.sortedKeysB kvs = true → (k, x) ∈ kvs → fget kvs k = some x
  | [], _, _, _, hm => by cases hm
  | (k1, v1) :: rest, k, x, hs, hm => by
    simp only [fget]
    rcases List.mem_cons.1 hm with heq | hm'
    · cases heq; simp
    · have hlt := o_sorted_head_lt k1 v1 rest hs (k, x) hm'
      have hne : k1 ≠ k := by
        intro h; subst h; exact String.lt_irrefl _ hlt
      simp only [hne, if_false]
      exact o_fget_of_mem_sorted rest k x (o_sorted_tail hs) hm'

theorem o_mem_of_fget : ∀ (kvs : Fields) (k : String) (x : Val),
    fget kvs k = some x → (k, x) ∈ kvs
  | [], _, _, h => by cases h
  | (k1, v1) :: rest, k, x, h => by
    simp only [fget] at h
    split at h
    · rename_i hk; cases h; subst hk; exact List.mem_cons_self
    · exact List.mem_cons_of_mem _ (o_mem_of_fget rest k x h)

theorem o_fget_none_of_no_key : ∀ (kvs : Fields) (k : String),
    (∀ kv ∈ kvs, kv.1 ≠ k) → fget kvs k = none
  | [], _, _ => rfl
  | (k1, v1) :: rest, k, h => by
    simp only [fget]
    have : k1 ≠ k := h (k1, v1) List.mem_cons_self
    simp only [this, if_false]
    exact o_fget_none_of_no_key rest k (fun kv hm => h kv (List.mem_cons_of_mem _ hm))

/-- in a sorted map with `k: b`, every entry under `k` is that boolean -/
theorem o_fhasBool_sorted_mem (kvs : Fields) (k : String) (b : Bool)
    (hs : Fields.sortedKeysB kvs = true) (hb : fhasBool kvs k b = true) :
    ∀ kv ∈ kvs, kv.1 = k → kv.2 = .bool b := by
  intro kv hm hk
  obtain ⟨k', x⟩ := kv
  simp only at hk; subst hk
  have := o_fget_of_mem_sorted kvs k' x hs hm
  unfold fhasBool at hb
  rw [this] at hb
  cases x <;> simp_all

/-- `{k: b}` marker test on one list entry (the body of `hasListMapBool`) -/
def o_isMarker (k : String) (b : Bool) : Val → Bool
  | .map m => fhasBool m k b
  | _ => false

theorem o_hasListMapBool_cons (x : Val) (xs : List Val) (k : String) (b : Bool) :
    hasListMapBool (x :: xs) k b = (o_isMarker k b x || hasListMapBool xs k b) := by
  simp only [hasListMapBool, List.any_cons]
  cases x <;> rfl

theorem o_hasListMapBool_nil (k : String) (b : Bool) : hasListMapBool [] k b = false := rfl

/-! ## inversion of `findOutputs` -/

theorem findOutputs_map_ok {kvs : Fields} {v' : Val} {outs : List Val}
    (h : findOutputs (.map kvs) = .ok (v', outs)) :
    ∃ ret o, findOutputsFields kvs (fhasBool kvs "$output" true) = .ok (ret, o) ∧
      v' = .map ret ∧ outs = if fhasBool kvs "$output" true then .map ret :: o else o := by
  simp only [findOutputs] at h
  cases hf : findOutputsFields kvs (fhasBool kvs "$output" true) with
  | error e => rw [hf] at h; cases h
  | ok p =>
    obtain ⟨ret, o⟩ := p
    rw [hf] at h
    simp only [bind, Except.bind, pure, Except.pure, Except.ok.injEq, Prod.mk.injEq] at h
    exact ⟨ret, o, rfl, h.1.symm, h.2.symm⟩

theorem findOutputs_list_ok {xs : List Val} {v' : Val} {outs : List Val}
    (h : findOutputs (.list xs) = .ok (v', outs)) :
    ∃ ret o, findOutputsList xs (hasListMapBool xs "$output" true) = .ok (ret, o) ∧
      v' = .list ret ∧ outs = if hasListMapBool xs "$output" true then o ++ [.list ret] else o := by
  simp only [findOutputs] at h
  cases hf : findOutputsList xs (hasListMapBool xs "$output" true) with
  | error e => rw [hf] at h; cases h
  | ok p =>
    obtain ⟨ret, o⟩ := p
    rw [hf] at h
    simp only [bind, Except.bind, pure, Except.pure, Except.ok.injEq, Prod.mk.injEq] at h
    exact ⟨ret, o, rfl, h.1.symm, h.2.symm⟩

theorem findOutputs_scalar_ok {v v' : Val} {outs : List Val}
    (hm : v.isMap = false) (hl : v.isList = false)
    (h : findOutputs v = .ok (v', outs)) : v' = v ∧ outs = [] := by
  cases v <;> simp_all [findOutputs, pure, Except.pure, Val.isMap, Val.isList]

theorem findOutputsFields_nil_ok {skip : Bool} {r : Fields} {outs : List Val}
    (h : findOutputsFields [] skip = .ok (r, outs)) : r = [] ∧ outs = [] := by
  simp only [findOutputsFields, pure, Except.pure, Except.ok.injEq, Prod.mk.injEq] at h
  exact ⟨h.1.symm, h.2.symm⟩

theorem findOutputsFields_cons_ok {k : String} {v : Val} {rest : Fields} {skip : Bool}
    {r : Fields} {outs : List Val}
    (h : findOutputsFields ((k, v) :: rest) skip = .ok (r, outs)) :
    (skip = true ∧ k = "$output" ∧ findOutputsFields rest skip = .ok (r, outs)) ∨
    (¬(skip = true ∧ k = "$output") ∧ ∃ v' o1 rest' o2,
      findOutputs v = .ok (v', o1) ∧ findOutputsFields rest skip = .ok (rest', o2) ∧
      r = (k, v') :: rest' ∧ outs = o1 ++ o2) := by
  simp only [findOutputsFields] at h
  split at h
  · rename_i hc
    simp only [Bool.and_eq_true, beq_iff_eq] at hc
    exact Or.inl ⟨hc.1, hc.2, h⟩
  · rename_i hc
    simp only [Bool.and_eq_true, beq_iff_eq] at hc
    refine Or.inr ⟨hc, ?_⟩
    cases h1 : findOutputs v with
    | error e => rw [h1] at h; cases h
    | ok p1 =>
      obtain ⟨v', o1⟩ := p1
      rw [h1] at h
      cases h2 : findOutputsFields rest skip with
      | error e => rw [h2] at h; cases h
      | ok p2 =>
        obtain ⟨rest', o2⟩ := p2
        rw [h2] at h
        simp only [bind, Except.bind, pure, Except.pure, Except.ok.injEq, Prod.mk.injEq] at h
        exact ⟨v', o1, rest', o2, rfl, rfl, h.1.symm, h.2.symm⟩

theorem findOutputsList_nil_ok {skip : Bool} {r outs : List Val}
    (h : findOutputsList [] skip = .ok (r, outs)) : r = [] ∧ outs = [] := by
  simp only [findOutputsList, pure, Except.pure, Except.ok.injEq, Prod.mk.injEq] at h
  exact ⟨h.1.symm, h.2.symm⟩

/-- non-marker step of `findOutputsList`, as one equation -/
theorem findOutputsList_cons_eq (x : Val) (xs : List Val) (skip : Bool) :
    findOutputsList (x :: xs) skip =
      if skip && o_isMarker "$output" true x then
        (match x with
         | .map m => if (fdel m "$output").length > 0 then throw Err.extraKeys
                     else findOutputsList xs skip
         | _ => findOutputsList xs skip)
      else (do
        let (x', o1) ← findOutputs x
        let (xs', o2) ← findOutputsList xs skip
        pure (x' :: xs', o1 ++ o2)) := by
  cases x <;> simp only [findOutputsList, o_isMarker, Bool.and_false] <;> try rfl

theorem findOutputsList_cons_ok {x : Val} {xs : List Val} {skip : Bool} {r outs : List Val}
    (h : findOutputsList (x :: xs) skip = .ok (r, outs)) :
    (skip = true ∧ (∃ m, x = .map m ∧ fhasBool m "$output" true = true ∧
        (fdel m "$output").length = 0) ∧ findOutputsList xs skip = .ok (r, outs)) ∨
    (¬(skip = true ∧ o_isMarker "$output" true x = true) ∧ ∃ x' o1 xs' o2,
      findOutputs x = .ok (x', o1) ∧ findOutputsList xs skip = .ok (xs', o2) ∧
      r = x' :: xs' ∧ outs = o1 ++ o2) := by
  rw [findOutputsList_cons_eq] at h
  split at h
  · rename_i hc
    simp only [Bool.and_eq_true] at hc
    left
    cases x with
    | map m =>
      simp only at h
      split at h
      · cases h
      · rename_i hl
        exact ⟨hc.1, ⟨m, rfl, hc.2, by omega⟩, h⟩
    | _ => simp [o_isMarker] at hc
  · rename_i hc
    simp only [Bool.and_eq_true] at hc
    refine Or.inr ⟨hc, ?_⟩
    cases h1 : findOutputs x with
    | error e => rw [h1] at h; cases h
    | ok p1 =>
      obtain ⟨x', o1⟩ := p1
      rw [h1] at h
      cases h2 : findOutputsList xs skip with
      | error e => rw [h2] at h; cases h
      | ok p2 =>
        obtain ⟨xs', o2⟩ := p2
        rw [h2] at h
        simp only [bind, Except.bind, pure, Except.pure, Except.ok.injEq, Prod.mk.injEq] at h
        exact ⟨x', o1, xs', o2, rfl, rfl, h.1.symm, h.2.symm⟩

/-- `findOutputs` never creates or destroys a boolean at the root -/
theorem o_findOutputs_eq_bool {v v' : Val} {outs : List Val} (b : Bool)
    (h : findOutputs v = .ok (v', outs)) : v' = .bool b ↔ v = .bool b := by
  cases v with
  | map kvs =>
    obtain ⟨ret, o, _, hv, _⟩ := findOutputs_map_ok h
    subst hv; simp
  | list xs =>
    obtain ⟨ret, o, _, hv, _⟩ := findOutputs_list_ok h
    subst hv; simp
  | null | bool _ | int _ | flt _ | str _ =>
    obtain ⟨hv, _⟩ := findOutputs_scalar_ok rfl rfl h
    subst hv; rfl

/-- with the marker popped, no `$output` key is left in the rebuilt map -/
theorem o_findOutputsFields_skip_no_key : ∀ (kvs r : Fields) (outs : List Val),
    findOutputsFields kvs true = .ok (r, outs) → ∀ kv ∈ r, kv.1 ≠ "$output"
  | [], r, outs, h, kv, hm => by
    obtain ⟨rfl, _⟩ := findOutputsFields_nil_ok h; cases hm
  | (k, v) :: rest, r, outs, h, kv, hm => by
    rcases findOutputsFields_cons_ok h with ⟨_, _, h'⟩ | ⟨hc, v', o1, rest', o2, _, h2, rfl, _⟩
    · exact o_findOutputsFields_skip_no_key rest r outs h' kv hm
    · rcases List.mem_cons.1 hm with rfl | hm'
      · intro hk; exact hc ⟨rfl, hk⟩
      · exact o_findOutputsFields_skip_no_key rest rest' o2 h2 kv hm'

/-- without popping, the rebuilt map carries the `$output` boolean of the original -/
theorem o_findOutputsFields_noskip_fhasBool (b : Bool) : ∀ (kvs r : Fields) (outs : List Val),
    findOutputsFields kvs false = .ok (r, outs) →
    fhasBool r "$output" b = fhasBool kvs "$output" b
  | [], r, outs, h => by
    obtain ⟨rfl, _⟩ := findOutputsFields_nil_ok h; rfl
  | (k, v) :: rest, r, outs, h => by
    rcases findOutputsFields_cons_ok h with ⟨hs, _, _⟩ | ⟨_, v', o1, rest', o2, h1, h2, rfl, _⟩
    · cases hs
    · have ih := o_findOutputsFields_noskip_fhasBool b rest rest' o2 h2
      unfold fhasBool at ih ⊢
      simp only [fget]
      by_cases hk : k = "$output"
      · simp only [hk, if_true]
        have hb := o_findOutputs_eq_bool (b := true) h1
        have hb' := o_findOutputs_eq_bool (b := false) h1
        cases v' <;> cases v <;> simp_all
      · simp only [hk, if_false]; exact ih

/-! ## inversion of `filterOutput` -/

theorem filterOutput_map_ok {kvs : Fields} {r : Option Val}
    (h : filterOutput (.map kvs) = .ok r) :
    (fhasBool kvs "$output" false = true ∧ r = none) ∨
    (fhasBool kvs "$output" false = false ∧ ∃ fs, filterOutputFields kvs = .ok fs ∧
      r = some (.map fs)) := by
  simp only [filterOutput] at h
  split at h
  · rename_i hc; cases h; exact Or.inl ⟨hc, rfl⟩
  · rename_i hc
    right
    cases hf : filterOutputFields kvs with
    | error e => rw [hf] at h; cases h
    | ok fs =>
      rw [hf] at h
      simp only [bind, Except.bind, pure, Except.pure, Except.ok.injEq] at h
      exact ⟨by simpa using hc, fs, rfl, h.symm⟩

theorem filterOutput_list_ok {xs : List Val} {r : Option Val}
    (h : filterOutput (.list xs) = .ok r) :
    (hasListMapBool xs "$output" false = true ∧ r = none) ∨
    (hasListMapBool xs "$output" false = false ∧ ∃ rs, filterOutputList xs = .ok rs ∧
      r = some (.list rs)) := by
  simp only [filterOutput] at h
  split at h
  · rename_i hc
    left
    cases hp : popListMapBool xs "$output" false with
    | error e => rw [hp] at h; cases h
    | ok p =>
      rw [hp] at h
      simp only [bind, Except.bind, pure, Except.pure, Except.ok.injEq] at h
      exact ⟨hc, h.symm⟩
  · rename_i hc
    right
    cases hf : filterOutputList xs with
    | error e => rw [hf] at h; cases h
    | ok rs =>
      rw [hf] at h
      simp only [bind, Except.bind, pure, Except.pure, Except.ok.injEq] at h
      exact ⟨by simpa using hc, rs, rfl, h.symm⟩

theorem filterOutput_scalar_ok {v : Val} {r : Option Val}
    (hm : v.isMap = false) (hl : v.isList = false)
    (h : filterOutput v = .ok r) : r = if v.isNull then none else some v := by
  cases v <;> simp_all [filterOutput, pure, Except.pure, Val.isMap, Val.isList, Val.isNull]

theorem filterOutputFields_nil_ok {fs : Fields} (h : filterOutputFields [] = .ok fs) : fs = [] := by
  simp only [filterOutputFields, pure, Except.pure, Except.ok.injEq] at h
  exact h.symm

theorem filterOutputFields_cons_ok {k : String} {v : Val} {rest fs : Fields}
    (h : filterOutputFields ((k, v) :: rest) = .ok fs) :
    ∃ o fs', filterOutput v = .ok o ∧ filterOutputFields rest = .ok fs' ∧
      fs = match o with | some v' => (k, v') :: fs' | none => fs' := by
  simp only [filterOutputFields] at h
  cases h1 : filterOutput v with
  | error e => rw [h1] at h; cases h
  | ok o =>
    rw [h1] at h
    cases h2 : filterOutputFields rest with
    | error e => cases o <;> (simp only [bind, Except.bind] at h; rw [h2] at h; cases h)
    | ok fs' =>
      refine ⟨o, fs', rfl, rfl, ?_⟩
      cases o <;>
        (simp only [bind, Except.bind] at h; rw [h2] at h
         simp only [pure, Except.pure, Except.ok.injEq] at h; exact h.symm)

theorem filterOutputList_nil_ok {rs : List Val} (h : filterOutputList [] = .ok rs) : rs = [] := by
  simp only [filterOutputList, pure, Except.pure, Except.ok.injEq] at h
  exact h.symm

theorem filterOutputList_cons_ok {x : Val} {xs rs : List Val}
    (h : filterOutputList (x :: xs) = .ok rs) :
    ∃ o rs', filterOutput x = .ok o ∧ filterOutputList xs = .ok rs' ∧
      rs = match o with | some x' => x' :: rs' | none => rs' := by
  simp only [filterOutputList] at h
  cases h1 : filterOutput x with
  | error e => rw [h1] at h; cases h
  | ok o =>
    rw [h1] at h
    cases h2 : filterOutputList xs with
    | error e => cases o <;> (simp only [bind, Except.bind] at h; rw [h2] at h; cases h)
    | ok rs' =>
      refine ⟨o, rs', rfl, rfl, ?_⟩
      cases o <;>
        (simp only [bind, Except.bind] at h; rw [h2] at h
         simp only [pure, Except.pure, Except.ok.injEq] at h; exact h.symm)

/-- `filterOutput` never creates a boolean at the root -/
theorem o_filterOutput_eq_bool {v r : Val} (b : Bool)
    (h : filterOutput v = .ok (some r)) (hr : r = .bool b) : v = .bool b := by
  cases v with
  | map kvs =>
    rcases filterOutput_map_ok h with ⟨_, h'⟩ | ⟨_, fs, _, h'⟩
    · cases h'
    · cases h'; cases hr
  | list xs =>
    rcases filterOutput_list_ok h with ⟨_, h'⟩ | ⟨_, rs, _, h'⟩
    · cases h'
    · cases h'; cases hr
  | null => cases filterOutput_scalar_ok rfl rfl h
  | bool _ | int _ | flt _ | str _ =>
    have := filterOutput_scalar_ok rfl rfl h
    simp only [Val.isNull, Bool.false_eq_true, if_false, Option.some.injEq] at this
    rw [← this, hr]

/-- every surviving map entry comes from an entry with the same key -/
theorem o_filterOutputFields_mem : ∀ (kvs fs : Fields), filterOutputFields kvs = .ok fs →
    ∀ k y, (k, y) ∈ fs → ∃ x, (k, x) ∈ kvs ∧ filterOutput x = .ok (some y)
  | [], fs, h, k, y, hm => by
    rw [filterOutputFields_nil_ok h] at hm; cases hm
  | (k1, v1) :: rest, fs, h, k, y, hm => by
    obtain ⟨o, fs', h1, h2, rfl⟩ := filterOutputFields_cons_ok h
    cases o with
    | none =>
      obtain ⟨x, hx, hf⟩ := o_filterOutputFields_mem rest fs' h2 k y hm
      exact ⟨x, List.mem_cons_of_mem _ hx, hf⟩
    | some v' =>
      rcases List.mem_cons.1 hm with heq | hm'
      · cases heq; exact ⟨v1, List.mem_cons_self, h1⟩
      · obtain ⟨x, hx, hf⟩ := o_filterOutputFields_mem rest fs' h2 k y hm'
        exact ⟨x, List.mem_cons_of_mem _ hx, hf⟩

/-- on a sorted map, hiding preserves the absence of the `$output: b` marker -/
theorem o_filterOutputFields_fhasBool (kvs fs : Fields) (b : Bool)
    (hs : Fields.sortedKeysB kvs = true) (h : filterOutputFields kvs = .ok fs)
    (hb : fhasBool kvs "$output" b = false) : fhasBool fs "$output" b = false := by
  unfold fhasBool at hb ⊢
  cases hg : fget fs "$output" with
  | none => rfl
  | some y =>
    obtain ⟨x, hx, hf⟩ := o_filterOutputFields_mem kvs fs h _ _ (o_mem_of_fget fs _ y hg)
    have hx' := o_fget_of_mem_sorted kvs _ x hs hx
    rw [hx'] at hb
    cases y with
    | bool b' =>
      have := o_filterOutput_eq_bool b' hf rfl
      subst this; simpa using hb
    | _ => rfl

/-- the entries of a filtered map, as a `filterMap` -/
theorem o_filterOutputFields_spec : ∀ (kvs fs : Fields), filterOutputFields kvs = .ok fs →
    (∀ kv ∈ kvs, ∃ o, filterOutput kv.2 = .ok o) ∧
    fs = kvs.filterMap fun kv =>
      match filterOutput kv.2 with
      | .ok (some v') => some (kv.1, v')
      | _ => none
  | [], fs, h => by
    rw [filterOutputFields_nil_ok h]; exact And.intro (fun _ hm => nomatch hm) rfl
  | (k, v) :: rest, fs, h => by
    obtain ⟨o, fs', h1, h2, rfl⟩ := filterOutputFields_cons_ok h
    obtain ⟨ih1, ih2⟩ := o_filterOutputFields_spec rest fs' h2
    refine ⟨?_, ?_⟩
    · intro kv hm
      rcases List.mem_cons.1 hm with rfl | hm'
      · exact ⟨o, h1⟩
      · exact ih1 kv hm'
    · cases o <;> simp only [List.filterMap_cons, h1, ← ih2]

/-- the entries of a filtered list, as a `filterMap` -/
theorem o_filterOutputList_spec : ∀ (xs rs : List Val), filterOutputList xs = .ok rs →
    (∀ x ∈ xs, ∃ o, filterOutput x = .ok o) ∧
    rs = xs.filterMap fun x =>
      match filterOutput x with
      | .ok (some x') => some x'
      | _ => none
  | [], rs, h => by
    rw [filterOutputList_nil_ok h]; exact And.intro (fun _ hm => nomatch hm) rfl
  | x :: xs, rs, h => by
    obtain ⟨o, rs', h1, h2, rfl⟩ := filterOutputList_cons_ok h
    obtain ⟨ih1, ih2⟩ := o_filterOutputList_spec xs rs' h2
    refine ⟨?_, ?_⟩
    · intro y hm
      rcases List.mem_cons.1 hm with rfl | hm'
      · exact ⟨o, h1⟩
      · exact ih1 y hm'
    · cases o <;> simp only [List.filterMap_cons, h1, ← ih2]

/-- a marker entry with extra keys anywhere in a popped list is never accepted -/
theorem o_findOutputsList_marker_clean : ∀ (xs r outs : List Val),
    findOutputsList xs true = .ok (r, outs) → ∀ m, .map m ∈ xs →
    fhasBool m "$output" true = true → (fdel m "$output").length = 0
  | [], _, _, _, m, hm, _ => by cases hm
  | x :: xs, r, outs, h, m, hm, hb => by
    rcases findOutputsList_cons_ok h with ⟨_, ⟨m', hx, _, hl⟩, h'⟩ | ⟨hc, x', o1, xs', o2, _, h2, _, _⟩
    · rcases List.mem_cons.1 hm with heq | hm'
      · rw [hx] at heq; cases heq; exact hl
      · exact o_findOutputsList_marker_clean xs r outs h' m hm' hb
    · rcases List.mem_cons.1 hm with heq | hm'
      · subst heq; exact absurd ⟨rfl, hb⟩ hc
      · exact o_findOutputsList_marker_clean xs xs' o2 h2 m hm' hb

end Bkl
